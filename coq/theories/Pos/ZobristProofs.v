(* C09: the position hash is a function of the position, not of the path.
   Proofs over the model of Pos/Position.v, for an ARBITRARY key table [K].

   Plan of the file
     1. small facts about [res], [nth_res], [upd], xor
     2. xor-accumulating folds; [scratch_hash] in normal form:
          scratch_hash K p = board_hash (board p) ^ side_key (side p) ^ castle_hash (castling p) ^ ep_hash (ep p)
        hence a function of (board, side, castling, ep FILE)
     3. the piece primitives keep [hash_ok]
     4. [make_move] keeps [hash_ok] (general lemma under two side conditions; then for generated moves)
     5. null moves; FEN; New()
     6. reachability, path independence
     7. distinctness from [keys_distinct] (one component differs) *)
From Coq Require Import NArith ZArith List Bool Lia ZifyBool ZifyN ZifyNat.
From Clemens Require Import Base.Res Base.Word Base.Bytes Pos.Types Att.Attacks Pos.Position Pos.Fen Pos.Inv.
Import ListNotations.
Open Scope N_scope.

(* ------------------------------------------------------------------------------------------ *)
(* 1. generalities                                                                             *)

Lemma bind_ok {A B} (r : res A) (f : A -> res B) b :
  bind r f = Ok b -> exists a, r = Ok a /\ f a = Ok b.
Proof. destruct r; cbn; intros H; try discriminate. eauto. Qed.

(* take an equation [x <- r ;; k = Ok b] apart *)
Ltac bind_inv H :=
  let a := fresh "a" in let Ha := fresh "E" in
  apply bind_ok in H; destruct H as [a [Ha H]].

Lemma nth_res_ok {A} (l : list A) i a : nth_res l i = Ok a <-> nth_error l i = Some a.
Proof. unfold nth_res. destruct (nth_error l i); split; intros H; inversion H; auto. Qed.

Lemma nth_res_lt {A} (l : list A) i a : nth_res l i = Ok a -> (i < length l)%nat.
Proof. intros H. apply nth_res_ok in H. apply nth_error_Some. congruence. Qed.

Lemma nth_res_total {A} (l : list A) i : (i < length l)%nat -> exists a, nth_res l i = Ok a.
Proof.
  intros H. unfold nth_res. destruct (nth_error l i) eqn:E; eauto.
  apply nth_error_None in E. lia.
Qed.

Lemma upd_length {A} (l : list A) i v : length (upd l i v) = length l.
Proof. revert i. induction l; destruct i; cbn; auto. Qed.

Lemma nth_error_upd_same {A} (l : list A) i v : (i < length l)%nat -> nth_error (upd l i v) i = Some v.
Proof. revert i. induction l; destruct i; cbn; intros; try lia; auto. apply IHl. lia. Qed.

Lemma nth_error_upd_other {A} (l : list A) i j v : i <> j -> nth_error (upd l i v) j = nth_error l j.
Proof. revert i j. induction l; destruct i, j; cbn; intros; try congruence; auto. Qed.

Lemma upd_same {A} (l : list A) i v : nth_error l i = Some v -> upd l i v = l.
Proof. revert i. induction l; destruct i; cbn; intros H; try congruence. f_equal. auto. Qed.

Lemma fold_left_ext {A B} (f g : A -> B -> A) l a :
  (forall a x, f a x = g a x) -> fold_left f l a = fold_left g l a.
Proof. intros H. revert a. induction l; cbn; intros; auto. rewrite H. auto. Qed.

(* xor identities by bitwise case analysis *)
Ltac xor_solve :=
  apply N.bits_inj; unfold N.eqf; intro; rewrite ?N.lxor_spec, ?N.bits_0;
  repeat match goal with |- context [N.testbit ?a ?n] => destruct (N.testbit a n) end; reflexivity.

Lemma lxor_cancel_r a b c : N.lxor a c = N.lxor b c -> a = b.
Proof.
  intros H. assert (N.lxor (N.lxor a c) c = N.lxor (N.lxor b c) c) by congruence.
  rewrite !N.lxor_assoc, !N.lxor_nilpotent, !N.lxor_0_r in H0. exact H0.
Qed.

Lemma lxor_eq_0 a b : N.lxor a b = 0 -> a = b.
Proof. apply N.lxor_eq. Qed.

(* ------------------------------------------------------------------------------------------ *)
(* 2. xor-accumulating folds                                                                   *)

Definition xstep {A} (g : A -> res N) (acc : res N) (x : A) : res N :=
  h <- acc ;; k <- g x ;; Ok (N.lxor h k).
Definition xfold {A} (g : A -> res N) (l : list A) (acc : res N) : res N := fold_left (xstep g) l acc.

Lemma xfold_panic {A} (g : A -> res N) l : xfold g l Panic = Panic.
Proof. induction l; cbn; auto. Qed.
Lemma xfold_err {A} (g : A -> res N) l : xfold g l Err = Err.
Proof. induction l; cbn; auto. Qed.

Lemma xfold_cons {A} (g : A -> res N) x l a :
  xfold g (x :: l) (Ok a) = (k <- g x ;; xfold g l (Ok (N.lxor a k))).
Proof.
  unfold xfold at 1. cbn [fold_left]. unfold xstep at 2. cbn [bind].
  destruct (g x); cbn [bind]; [reflexivity | apply xfold_err | apply xfold_panic].
Qed.

(* the accumulator can be pulled out *)
Lemma xfold_acc {A} (g : A -> res N) l a :
  xfold g l (Ok a) = (c <- xfold g l (Ok 0) ;; Ok (N.lxor a c)).
Proof.
  revert a. induction l as [|x l IH]; intros a.
  - cbn. now rewrite N.lxor_0_r.
  - rewrite !xfold_cons. destruct (g x) as [k| |]; cbn [bind]; auto.
    rewrite (IH (N.lxor a k)), (IH (N.lxor 0 k)).
    destruct (xfold g l (Ok 0)); cbn [bind]; auto.
    f_equal. xor_solve.
Qed.

Lemma xfold_upd {A} (g : A -> res N) l i x y kx ky a h :
  nth_error l i = Some x -> g x = Ok kx -> g y = Ok ky ->
  xfold g l (Ok a) = Ok h ->
  xfold g (upd l i y) (Ok a) = Ok (N.lxor (N.lxor h kx) ky).
Proof.
  revert i a. induction l as [|z l IH]; intros i a Hn Hx Hy H.
  - destruct i; discriminate.
  - destruct i; cbn in Hn.
    + inversion Hn; subst z. cbn [upd]. rewrite xfold_cons in *. rewrite Hx in H. rewrite Hy. cbn [bind] in *.
      rewrite xfold_acc in H. rewrite xfold_acc. destruct (xfold g l (Ok 0)); cbn [bind] in *; try discriminate.
      inversion H. f_equal. xor_solve.
    + cbn [upd]. rewrite xfold_cons in *. destruct (g z); cbn [bind] in *; try discriminate. eauto.
Qed.

Lemma combine_upd {A B} (l1 : list A) (l2 : list B) i v :
  combine l1 (upd l2 i v) =
  match nth_error l1 i with Some a => upd (combine l1 l2) i (a, v) | None => combine l1 l2 end.
Proof.
  revert l2 i. induction l1 as [|a l1 IH]; intros l2 i.
  - destruct i; reflexivity.
  - destruct l2 as [|b l2]; [destruct i; cbn; [reflexivity|destruct (nth_error l1 i); reflexivity]|].
    destruct i; cbn; auto. rewrite IH. destruct (nth_error l1 i); reflexivity.
Qed.

Lemma nth_error_combine {A B} (l1 : list A) (l2 : list B) i a b :
  nth_error l1 i = Some a -> nth_error l2 i = Some b -> nth_error (combine l1 l2) i = Some (a, b).
Proof.
  revert l2 i. induction l1; intros l2 i; destruct i, l2; cbn; intros; try congruence; auto.
Qed.

Definition sq_list : list N := map N.of_nat (seq 0 64).
Lemma sq_list_nth i : (i < 64)%nat -> nth_error sq_list i = Some (N.of_nat i).
Proof.
  intros H. unfold sq_list. rewrite nth_error_map.
  rewrite (nth_error_nth' _ 0%nat) by (rewrite seq_length; lia). rewrite seq_nth by lia. reflexivity.
Qed.
Lemma sq_list_in s : In s sq_list <-> s < 64.
Proof.
  unfold sq_list. rewrite in_map_iff. split.
  - intros [x [<- H]]. apply in_seq in H. lia.
  - intros H. exists (N.to_nat s). split; [lia|]. apply in_seq. lia.
Qed.

Section Zobrist.
Variable K : zkeys.

(* contribution of one square *)
Definition pc_key (sq pc : N) : res N :=
  if pc =? NO_PIECE then Ok 0 else key_piece K sq (piece_color pc) (piece_type pc).
Definition board_hash (bd : list N) : res N :=
  xfold (fun sp => pc_key (fst sp) (snd sp)) (combine sq_list bd) (Ok 0).

Definition side_key (s : N) : N := if s =? BLACK then zk_side K else 0.

Definition cpart (cs c : N) (i : nat) : res N :=
  if N.land cs c =? 0 then Ok 0 else key_castling_idx K i.
Definition castle_hash (cs : N) : res N :=
  xfold (fun ci => cpart cs (fst ci) (snd ci)) castling_list (Ok 0).

Definition ep_hash (e : N) : res N := if e =? SQ_NONE then Ok 0 else key_ep K e.

Definition hash_nf (bd : list N) (s cs e : N) : res N :=
  b <- board_hash bd ;; c <- castle_hash cs ;; k <- ep_hash e ;;
  Ok (N.lxor (N.lxor (N.lxor b (side_key s)) c) k).

Lemma scratch_hash_nf p : scratch_hash K p = hash_nf (board p) (side p) (castling p) (ep p).
Proof.
  unfold scratch_hash, hash_nf.
  match goal with |- bind (fold_left ?f ?l ?a) _ = _ =>
    replace (fold_left f l a) with (board_hash (board p)) end.
  2:{ unfold board_hash, xfold. apply fold_left_ext. intros a [sq pc]. unfold xstep, pc_key. cbn [fst snd].
      destruct a; cbn [bind]; auto. destruct (pc =? NO_PIECE); cbn [bind]; auto. now rewrite N.lxor_0_r. }
  destruct (board_hash (board p)) as [b| |]; cbn [bind]; auto.
  match goal with |- bind (fold_left ?f ?l (Ok ?a)) _ = _ =>
    replace (fold_left f l (Ok a)) with (xfold (fun ci => cpart (castling p) (fst ci) (snd ci)) castling_list (Ok a)) end.
  2:{ unfold xfold. apply fold_left_ext. intros a [c i]. unfold xstep, cpart. cbn [fst snd].
      destruct a; cbn [bind]; auto. destruct (N.land (castling p) c =? 0); cbn [bind negb]; auto.
      now rewrite N.lxor_0_r. }
  rewrite xfold_acc. fold (castle_hash (castling p)).
  destruct (castle_hash (castling p)) as [c| |]; cbn [bind]; auto.
  unfold ep_hash. destruct (ep p =? SQ_NONE); cbn [bind negb].
  - f_equal. unfold side_key. destruct (side p =? BLACK); xor_solve.
  - destruct (key_ep K (ep p)); cbn [bind]; auto. f_equal. unfold side_key. destruct (side p =? BLACK); xor_solve.
Qed.

Lemma hash_nf_ok bd s cs e h :
  hash_nf bd s cs e = Ok h <->
  exists b c k, board_hash bd = Ok b /\ castle_hash cs = Ok c /\ ep_hash e = Ok k /\
                h = N.lxor (N.lxor (N.lxor b (side_key s)) c) k.
Proof.
  unfold hash_nf. split.
  - intros H. bind_inv H. bind_inv H. bind_inv H. inversion H. eauto 8.
  - intros (b & c & k & -> & -> & -> & ->). reflexivity.
Qed.


(* ---- scratch_hash reads only (board, side, castling, ep FILE) ---- *)
Definition ep_file (e : N) : option N := if e =? SQ_NONE then None else Some (file_of e).

Lemma ep_hash_file e e' : ep_file e = ep_file e' -> ep_hash e = ep_hash e'.
Proof.
  unfold ep_file, ep_hash, key_ep. destruct (e =? SQ_NONE), (e' =? SQ_NONE); intros H; try discriminate; auto.
  inversion H. now rewrite H1.
Qed.

Theorem scratch_hash_ext p q :
  board p = board q -> side p = side q -> castling p = castling q -> ep_file (ep p) = ep_file (ep q) ->
  scratch_hash K p = scratch_hash K q.
Proof.
  intros Hb Hs Hc He. rewrite !scratch_hash_nf. unfold hash_nf. rewrite Hb, Hs, Hc, (ep_hash_file _ _ He). reflexivity.
Qed.

(* ------------------------------------------------------------------------------------------ *)
(* 3. hash_ok and the piece primitives                                                          *)

Definition hash_ok (p : position) : Prop := scratch_hash K p = Ok (hash p).
Definition len64 (p : position) : Prop := length (board p) = 64%nat.

Lemma hash_ok_nf p : hash_ok p <-> hash_nf (board p) (side p) (castling p) (ep p) = Ok (hash p).
Proof. unfold hash_ok. now rewrite scratch_hash_nf. Qed.

Lemma board_hash_upd bd sq old v ko kv b :
  sq < 64 -> nth_error bd (N.to_nat sq) = Some old ->
  pc_key sq old = Ok ko -> pc_key sq v = Ok kv -> board_hash bd = Ok b ->
  board_hash (upd bd (N.to_nat sq) v) = Ok (N.lxor (N.lxor b ko) kv).
Proof.
  intros Hsq Hn Ho Hv Hb. unfold board_hash in *. rewrite combine_upd, sq_list_nth by lia.
  apply xfold_upd with (x := (N.of_nat (N.to_nat sq), old)); cbn [fst snd]; rewrite ?N2Nat.id; auto.
  apply nth_error_combine; auto. rewrite <- (N2Nat.id sq) at 2. apply sq_list_nth. lia.
Qed.

(* one square changes from [old] to [v], the hash is xored with both keys *)
Lemma hash_ok_sq_step p q sq old v ko kv :
  hash_ok p -> sq < 64 -> nth_error (board p) (N.to_nat sq) = Some old ->
  pc_key sq old = Ok ko -> pc_key sq v = Ok kv ->
  board q = upd (board p) (N.to_nat sq) v -> hash q = N.lxor (N.lxor (hash p) ko) kv ->
  side q = side p -> castling q = castling p -> ep q = ep p -> hash_ok q.
Proof.
  intros H Hsq Hn Ho Hv Hb Hh Hs Hc He. apply hash_ok_nf in H. apply hash_ok_nf.
  apply hash_nf_ok in H. destruct H as (b & c & k & H1 & H2 & H3 & H4).
  apply hash_nf_ok. exists (N.lxor (N.lxor b ko) kv), c, k. rewrite Hb, Hs, Hc, He, Hh, H4.
  repeat split; auto. { eapply board_hash_upd; eauto. } xor_solve.
Qed.

Lemma pc_key_0 sq : pc_key sq NO_PIECE = Ok 0.
Proof. reflexivity. Qed.

Lemma bb_index_piece pc i : bb_index (piece_color pc) (piece_type pc) = Ok i -> pc <> NO_PIECE.
Proof. intros H ->. vm_compute in H. discriminate. Qed.

Lemma set_piece_spec p pc sq q : set_piece K p pc sq = Ok q ->
  exists k, sq < 64 /\ pc <> NO_PIECE /\ pc_key sq pc = Ok k /\
    board q = upd (board p) (N.to_nat sq) pc /\ hash q = N.lxor (hash p) k /\
    side q = side p /\ castling q = castling p /\ ep q = ep p /\ hmc q = hmc p /\ ply q = ply p.
Proof.
  unfold set_piece. destruct (sq <? 64) eqn:Hsq; cbn [negb]; [|discriminate].
  intros H. bind_inv H. bind_inv H. bind_inv H. inversion H; subst q; clear H. cbn.
  pose proof (bb_index_piece _ _ E) as Hpc. exists a1. repeat split; auto; [lia|].
  unfold pc_key. destruct (pc =? NO_PIECE) eqn:E3; auto. apply N.eqb_eq in E3. contradiction.
Qed.

Lemma delete_piece_spec p sq q pc : delete_piece K p sq = Ok (q, pc) ->
  exists k, nth_error (board p) (N.to_nat sq) = Some pc /\ pc <> NO_PIECE /\ pc_key sq pc = Ok k /\
    board q = upd (board p) (N.to_nat sq) NO_PIECE /\ hash q = N.lxor (hash p) k /\
    side q = side p /\ castling q = castling p /\ ep q = ep p /\ hmc q = hmc p /\ ply q = ply p.
Proof.
  unfold delete_piece, get_piece. intros H. bind_inv H. bind_inv H. bind_inv H. bind_inv H.
  inversion H; subst q pc; clear H. cbn.
  pose proof (bb_index_piece _ _ E0) as Hpc. exists a2. repeat split; auto; [now apply nth_res_ok|].
  unfold pc_key. destruct (a =? NO_PIECE) eqn:E3; auto. apply N.eqb_eq in E3. contradiction.
Qed.

Lemma len64_sq p sq x : len64 p -> nth_error (board p) (N.to_nat sq) = Some x -> sq < 64.
Proof. intros L H. assert (N.to_nat sq < length (board p))%nat by (apply nth_error_Some; congruence). rewrite L in H0. lia. Qed.

(* SetPiece onto an EMPTY square *)
Lemma set_piece_hash_ok p pc sq q :
  len64 p -> hash_ok p -> nth_error (board p) (N.to_nat sq) = Some NO_PIECE ->
  set_piece K p pc sq = Ok q -> hash_ok q /\ len64 q.
Proof.
  intros L H Hn S. apply set_piece_spec in S. destruct S as (k & Hsq & Hpc & Hk & Hb & Hh & Hs & Hc & He & _).
  split.
  - eapply hash_ok_sq_step with (ko := 0) (old := NO_PIECE); eauto. now rewrite N.lxor_0_r.
  - unfold len64. now rewrite Hb, upd_length.
Qed.

(* DeletePiece (it succeeds only on an occupied square) *)
Lemma delete_piece_hash_ok p sq q pc :
  len64 p -> hash_ok p -> delete_piece K p sq = Ok (q, pc) -> hash_ok q /\ len64 q.
Proof.
  intros L H D. apply delete_piece_spec in D. destruct D as (k & Hn & Hpc & Hk & Hb & Hh & Hs & Hc & He & _).
  split.
  - eapply hash_ok_sq_step with (kv := 0) (v := NO_PIECE) (old := pc) (ko := k); eauto using len64_sq. now rewrite N.lxor_0_r.
  - unfold len64. now rewrite Hb, upd_length.
Qed.

Lemma move_piece_spec p from to q pc : move_piece K p from to = Ok (q, pc) ->
  exists p1, delete_piece K p from = Ok (p1, pc) /\ set_piece K p1 pc to = Ok q.
Proof.
  unfold move_piece. intros H. bind_inv H. destruct a as [p1 pc1]. bind_inv H. inversion H; subst. eauto.
Qed.

(* MovePiece onto an EMPTY square (the square may be the origin itself) *)
Lemma move_piece_hash_ok p from to q pc :
  len64 p -> hash_ok p -> nth_error (board p) (N.to_nat to) = Some NO_PIECE ->
  move_piece K p from to = Ok (q, pc) -> hash_ok q /\ len64 q.
Proof.
  intros L H Hn M. apply move_piece_spec in M. destruct M as (p1 & D & S).
  destruct (delete_piece_hash_ok _ _ _ _ L H D) as [H1 L1].
  apply delete_piece_spec in D. destruct D as (k & Hf & _ & _ & Hb & _).
  eapply set_piece_hash_ok; eauto. rewrite Hb.
  destruct (Nat.eq_dec (N.to_nat from) (N.to_nat to)) as [e|e].
  - rewrite e. apply nth_error_upd_same. apply nth_error_Some. congruence.
  - now rewrite nth_error_upd_other.
Qed.

Lemma move_piece_board p from to q pc : move_piece K p from to = Ok (q, pc) ->
  nth_error (board p) (N.to_nat from) = Some pc /\ pc <> NO_PIECE /\
  board q = upd (upd (board p) (N.to_nat from) NO_PIECE) (N.to_nat to) pc /\
  side q = side p /\ castling q = castling p /\ ep q = ep p.
Proof.
  intros M. apply move_piece_spec in M. destruct M as (p1 & D & S).
  apply delete_piece_spec in D. destruct D as (k & Hf & Hpc & _ & Hb & _ & Hs & Hc & He & _).
  apply set_piece_spec in S. destruct S as (k' & _ & _ & _ & Hb' & _ & Hs' & Hc' & He' & _).
  rewrite Hb', Hb, Hs', Hc', He'. repeat split; auto.
Qed.

(* the side condition is real: SetPiece onto an OCCUPIED square breaks the hash whenever the
   key of the overwritten piece is not zero *)
Lemma set_piece_occupied_breaks p pc sq q old ko :
  hash_ok p -> nth_error (board p) (N.to_nat sq) = Some old -> pc_key sq old = Ok ko -> ko <> 0 ->
  set_piece K p pc sq = Ok q -> ~ hash_ok q.
Proof.
  intros H Hn Ho Hko S HQ. apply set_piece_spec in S. destruct S as (k & Hsq & Hpc & Hk & Hb & Hh & Hs & Hc & He & _).
  apply hash_ok_nf in H. apply hash_ok_nf in HQ.
  apply hash_nf_ok in H. destruct H as (b & c & e & H1 & H2 & H3 & H4).
  rewrite Hb, Hs, Hc, He, Hh in HQ. unfold hash_nf in HQ.
  rewrite (board_hash_upd _ _ _ _ _ _ _ Hsq Hn Ho Hk H1), H2, H3 in HQ. cbn [bind] in HQ.
  inversion HQ as [HX]. rewrite H4 in HX. apply Hko.
  assert (ko = N.lxor (N.lxor (N.lxor (N.lxor (N.lxor (N.lxor b ko) k) (side_key (side p))) c) e)
                      (N.lxor (N.lxor (N.lxor (N.lxor b (side_key (side p))) c) e) k)) as -> by xor_solve.
  rewrite HX. apply N.lxor_nilpotent.
Qed.

(* ------------------------------------------------------------------------------------------ *)
(* 4. MakeMove                                                                                  *)

(* -- castling rights: bit facts -- *)
Lemma land_ldiff_same cs c : N.land (N.ldiff cs c) c = 0.
Proof.
  apply N.bits_inj; unfold N.eqf; intro n. rewrite N.land_spec, N.ldiff_spec, N.bits_0.
  destruct (N.testbit cs n), (N.testbit c n); reflexivity.
Qed.
Lemma land_ldiff_other cs c c' : N.land c' c = 0 -> N.land (N.ldiff cs c) c' = N.land cs c'.
Proof.
  intros H. apply N.bits_inj; unfold N.eqf; intro n. rewrite !N.land_spec, N.ldiff_spec.
  assert (N.testbit (N.land c' c) n = false) by (rewrite H; apply N.bits_0). rewrite N.land_spec in H0.
  destruct (N.testbit cs n), (N.testbit c n), (N.testbit c' n); cbn in *; congruence.
Qed.

Lemma castle_hash_unfold cs :
  castle_hash cs =
  (a <- cpart cs WK 0 ;; b <- cpart cs WQ 1 ;; c <- cpart cs BK 2 ;; d <- cpart cs BQ 3 ;;
   Ok (N.lxor (N.lxor (N.lxor (N.lxor 0 a) b) c) d)).
Proof.
  unfold castle_hash, castling_list. rewrite !xfold_cons. cbn [fst snd].
  destruct (cpart cs WK 0); cbn [bind]; auto. rewrite !xfold_cons. cbn [fst snd].
  destruct (cpart cs WQ 1); cbn [bind]; auto. rewrite !xfold_cons. cbn [fst snd].
  destruct (cpart cs BK 2); cbn [bind]; auto.
Qed.

Lemma cpart_ldiff_same cs c i : cpart (N.ldiff cs c) c i = Ok 0.
Proof. unfold cpart. now rewrite land_ldiff_same. Qed.
Lemma cpart_ldiff_other cs c c' i : N.land c' c = 0 -> cpart (N.ldiff cs c) c' i = cpart cs c' i.
Proof. intros H. unfold cpart. now rewrite land_ldiff_other. Qed.
Lemma cpart_held cs c i : N.land cs c <> 0 -> cpart cs c i = key_castling_idx K i.
Proof. intros H. unfold cpart. apply N.eqb_neq in H. now rewrite H. Qed.

(* giving up a HELD right xors its key out of the castling component *)
Lemma castle_hash_ldiff cs c i k c0 :
  In (c, i) castling_list -> N.land cs c <> 0 -> key_castling_idx K i = Ok k ->
  castle_hash cs = Ok c0 -> castle_hash (N.ldiff cs c) = Ok (N.lxor c0 k).
Proof.
  intros Hin Hheld Hk H. rewrite castle_hash_unfold in *.
  pose proof (cpart_held _ _ i Hheld) as Hc. rewrite Hk in Hc.
  cbn in Hin. destruct Hin as [e|[e|[e|[e|[]]]]]; inversion e; subst c i; clear e;
  rewrite Hc in H; rewrite cpart_ldiff_same, !cpart_ldiff_other by reflexivity; cbn [bind] in *.
  - destruct (cpart cs WQ 1), (cpart cs BK 2), (cpart cs BQ 3); cbn [bind] in *; try discriminate.
    inversion H. f_equal. xor_solve.
  - destruct (cpart cs WK 0), (cpart cs BK 2), (cpart cs BQ 3); cbn [bind] in *; try discriminate.
    inversion H. f_equal. xor_solve.
  - destruct (cpart cs WK 0), (cpart cs WQ 1), (cpart cs BQ 3); cbn [bind] in *; try discriminate.
    inversion H. f_equal. xor_solve.
  - destruct (cpart cs WK 0), (cpart cs WQ 1), (cpart cs BK 2); cbn [bind] in *; try discriminate.
    inversion H. f_equal. xor_solve.
Qed.

(* folds whose step is [q <- acc ;; g q x] *)
Lemma fold_bind_fail {A B} (g : A -> B -> res A) l r :
  (forall a, r <> Ok a) -> forall a, fold_left (fun acc x => q <- acc ;; g q x) l r <> Ok a.
Proof.
  revert r. induction l; cbn; intros r H; auto. apply IHl. destruct r as [x| |]; cbn; try discriminate. destruct (H x eq_refl).
Qed.
Lemma fold_bind_inv {A B} (P : A -> Prop) (g : A -> B -> res A) l a a' :
  (forall a x a', In x l -> P a -> g a x = Ok a' -> P a') -> P a ->
  fold_left (fun acc x => q <- acc ;; g q x) l (Ok a) = Ok a' -> P a'.
Proof.
  revert a. induction l as [|x l IH]; cbn [fold_left]; intros a Hstep Ha H.
  - inversion H; subst; auto.
  - cbn [bind] in H. destruct (g a x) as [a1| |] eqn:E.
    + apply (IH a1); auto. { intros; eapply Hstep; eauto. now right. } eapply Hstep; eauto. now left.
    + exfalso. eapply fold_bind_fail; [|exact H]. discriminate.
    + exfalso. eapply fold_bind_fail; [|exact H]. discriminate.
Qed.

(* what a step of MakeMove keeps besides the hash *)
Definition same_bse (p q : position) : Prop := board q = board p /\ side q = side p /\ ep q = ep p.

Lemma revoke_hash_ok p sq q : hash_ok p -> revoke K p sq = Ok q -> hash_ok q /\ same_bse p q.
Proof.
  intros H R. unfold revoke in R.
  eapply (fold_bind_inv (fun q => hash_ok q /\ same_bse p q)) in R; eauto.
  2:{ split; auto. repeat split. }
  clear. intros a [c i] a' Hin [H (Hb & Hs & He)] S.
  destruct (N.land (N.land (lost_rights sq) c) (castling a) =? 0) eqn:E; cbn [negb] in S.
  - inversion S; subst. repeat split; auto.
  - bind_inv S. inversion S; subst a'; clear S. split; [|repeat split; cbn; auto].
    apply hash_ok_nf in H. apply hash_ok_nf. cbn. apply hash_nf_ok in H. destruct H as (b & c0 & k & H1 & H2 & H3 & H4).
    apply hash_nf_ok. exists b, (N.lxor c0 a0), k. repeat split; auto.
    + eapply castle_hash_ldiff; eauto. apply N.eqb_neq in E. intros Z. apply E.
      rewrite <- N.land_assoc, (N.land_comm c), Z. apply N.land_0_r.
    + rewrite H4. xor_solve.
Qed.

(* -- the stages of MakeMove -- *)
Definition st_ep (p : position) : res position :=
  if negb (ep p =? SQ_NONE) then (k <- key_ep K (ep p) ;; Ok (set_ep (toggle p k) SQ_NONE)) else Ok p.
Definition st_cap (p : position) (dst target : N) : res (position * bool) :=
  if negb (target =? NO_PIECE) then (r <- delete_piece K p dst ;; Ok (fst r, true)) else Ok (p, false).
Definition st_pawn (stm : N) (p : position) (piece src dst : N) (reset : bool) : res (position * bool) :=
  if piece_type piece =? PAWN then
    if abs_diff src dst =? 16 then
      k <- key_ep K dst ;;
      let p := toggle (set_ep p dst) k in
      Ok (set_ep p (if stm =? BLACK then add8 dst 8 else sub8 dst 8), true)
    else Ok (p, true)
  else Ok (p, reset).
Definition st_kind (stm : N) (p : position) (m : N) : res position :=
  let dst := mv_dst m in
  let kind := mv_kind m in
  if kind =? CASTLING then
    if dst =? C1 then (r <- move_piece K p A1 D1 ;; Ok (fst r))
    else if dst =? G1 then (r <- move_piece K p H1 F1 ;; Ok (fst r))
    else if dst =? C8 then (r <- move_piece K p A8 D8 ;; Ok (fst r))
    else if dst =? G8 then (r <- move_piece K p H8 F8 ;; Ok (fst r))
    else Panic
  else if kind =? EN_PASSANT then
    let victim := if stm =? WHITE then sub8 dst 8 else add8 dst 8 in
    r <- delete_piece K p victim ;; Ok (fst r)
  else if kind =? PROMOTION then
    r <- delete_piece K p dst ;;
    set_piece K (fst r) (new_piece stm (mv_promo m)) dst
  else Ok p.
Definition st_fin (stm : N) (p : position) (reset : bool) : position :=
  let p := set_side p (switch_color stm) in
  let p := toggle p (zk_side K) in
  let p := set_counters p (if reset then 0 else add8 (hmc p) 1) (add8 (ply p) 1) in
  gen_helpers p.

Lemma make_move_stages p m :
  make_move K p m =
  (p1 <- st_ep p ;;
   target <- get_piece p1 (mv_dst m) ;;
   r <- st_cap p1 (mv_dst m) target ;;
   let '(p2, reset) := r in
   p3 <- revoke K p2 (mv_src m) ;;
   p4 <- revoke K p3 (mv_dst m) ;;
   r <- move_piece K p4 (mv_src m) (mv_dst m) ;;
   let '(p5, piece) := r in
   r <- st_pawn (side p) p5 piece (mv_src m) (mv_dst m) reset ;;
   let '(p6, reset) := r in
   p7 <- st_kind (side p) p6 m ;;
   Ok (st_fin (side p) p7 reset)).
Proof. reflexivity. Qed.

Lemma forall_sq (f : N -> bool) : forallb f sq_list = true -> forall d, d < 64 -> f d = true.
Proof. intros H d Hd. rewrite forallb_forall in H. apply H. now apply sq_list_in. Qed.

Lemma land63_lt x : N.land x 63 < 64.
Proof. change 63 with (N.ones 6). rewrite N.land_ones. apply N.mod_lt. discriminate. Qed.
Lemma mv_src_lt m : mv_src m < 64. Proof. apply land63_lt. Qed.
Lemma mv_dst_lt m : mv_dst m < 64. Proof. apply land63_lt. Qed.

(* uint8 arithmetic on the en-passant square: the file survives, and the only way to land on
   SQ_NONE (64) is a8 + 8 *)
Lemma ep_sq_facts d : d < 64 ->
  file_of (add8 d 8) = file_of d /\ file_of (sub8 d 8) = file_of d /\ sub8 d 8 <> 64 /\ (add8 d 8 = 64 -> d = 56).
Proof.
  intros Hd.
  pose proof (forall_sq (fun d => (file_of (add8 d 8) =? file_of d) && (file_of (sub8 d 8) =? file_of d)
                                  && negb (sub8 d 8 =? 64) && (negb (add8 d 8 =? 64) || (d =? 56)))
                        eq_refl d Hd) as H.
  cbv beta in H. rewrite !andb_true_iff, orb_true_iff, !negb_true_iff, !N.eqb_eq, !N.eqb_neq in H.
  destruct H as [[[H1 H2] H3] H4]. repeat split; auto. intros. destruct H4; congruence.
Qed.

Lemma st_ep_ok p p1 : hash_ok p -> st_ep p = Ok p1 ->
  hash_ok p1 /\ board p1 = board p /\ side p1 = side p /\ castling p1 = castling p /\ ep p1 = SQ_NONE.
Proof.
  unfold st_ep. intros H S. destruct (ep p =? SQ_NONE) eqn:E; cbn [negb] in S.
  - inversion S; subst. apply N.eqb_eq in E. auto.
  - bind_inv S. inversion S; subst p1; clear S. cbn. repeat split; auto.
    apply hash_ok_nf in H. apply hash_ok_nf. cbn. apply hash_nf_ok in H. destruct H as (b & c & k & H1 & H2 & H3 & H4).
    apply hash_nf_ok. exists b, c, 0. repeat split; auto. unfold ep_hash in H3. rewrite E, E0 in H3. inversion H3. subst.
    rewrite H4. xor_solve.
Qed.

Lemma st_cap_ok p dst target p2 reset :
  len64 p -> hash_ok p -> get_piece p dst = Ok target -> st_cap p dst target = Ok (p2, reset) ->
  hash_ok p2 /\ len64 p2 /\ board p2 = upd (board p) (N.to_nat dst) NO_PIECE /\
  side p2 = side p /\ castling p2 = castling p /\ ep p2 = ep p.
Proof.
  unfold st_cap, get_piece. intros L H G S. apply nth_res_ok in G.
  destruct (target =? NO_PIECE) eqn:E; cbn [negb] in S.
  - inversion S; subst. apply N.eqb_eq in E. subst. rewrite upd_same by auto. repeat split; auto.
  - bind_inv S. destruct a as [p2' pc]. inversion S; subst; clear S. cbn [fst].
    destruct (delete_piece_hash_ok _ _ _ _ L H E0). apply delete_piece_spec in E0.
    destruct E0 as (k & _ & _ & _ & Hb & _ & Hs & Hc & He & _). repeat split; auto.
Qed.

Lemma side_key_switch s : side_key (switch_color s) = N.lxor (side_key s) (zk_side K).
Proof.
  unfold side_key, switch_color. destruct (s =? BLACK); cbn; [now rewrite N.lxor_nilpotent | reflexivity].
Qed.

Lemma st_fin_ok stm p reset : hash_ok p -> side p = stm ->
  hash_ok (st_fin stm p reset) /\ board (st_fin stm p reset) = board p.
Proof.
  intros H Hs. split; [|reflexivity].
  apply hash_ok_nf in H. apply hash_ok_nf. cbn. apply hash_nf_ok in H. destruct H as (b & c & k & H1 & H2 & H3 & H4).
  apply hash_nf_ok. exists b, c, k. repeat split; auto. rewrite side_key_switch, H4, Hs. xor_solve.
Qed.

Lemma st_pawn_ok stm p piece src dst reset q reset' :
  hash_ok p -> ep p = SQ_NONE -> dst < 64 ->
  ~ (piece_type piece = PAWN /\ abs_diff src dst = 16 /\ stm = BLACK /\ dst = 56) ->
  st_pawn stm p piece src dst reset = Ok (q, reset') ->
  hash_ok q /\ board q = board p /\ side q = side p /\ castling q = castling p.
Proof.
  unfold st_pawn. intros H He Hd Hno S.
  destruct (piece_type piece =? PAWN) eqn:E1; [|inversion S; subst; auto].
  destruct (abs_diff src dst =? 16) eqn:E2; [|inversion S; subst; auto].
  bind_inv S. inversion S; subst q reset'; clear S. cbn. repeat split; auto.
  apply N.eqb_eq in E1, E2.
  destruct (ep_sq_facts dst Hd) as (F1 & F2 & F3 & F4).
  apply hash_ok_nf in H. apply hash_ok_nf. cbn. apply hash_nf_ok in H. destruct H as (b & c & k & H1 & H2 & H3 & H4).
  rewrite He in H3. inversion H3; subst k.
  apply hash_nf_ok. exists b, c, a. repeat split; auto; [|rewrite H4; xor_solve].
  unfold ep_hash, key_ep in *.
  destruct (stm =? BLACK) eqn:E3.
  - apply N.eqb_eq in E3. destruct (add8 dst 8 =? SQ_NONE) eqn:E4.
    + apply N.eqb_eq in E4. exfalso. apply Hno. auto.
    + now rewrite F1.
  - destruct (sub8 dst 8 =? SQ_NONE) eqn:E4; [apply N.eqb_eq in E4; contradiction|]. now rewrite F2.
Qed.

Definition rook_src (dst : N) : N := if dst =? C1 then A1 else if dst =? G1 then H1 else if dst =? C8 then A8 else H8.
Definition rook_dst (dst : N) : N := if dst =? C1 then D1 else if dst =? G1 then F1 else if dst =? C8 then D8 else F8.

Lemma st_kind_ok stm p m q :
  len64 p -> hash_ok p ->
  (mv_kind m = CASTLING ->
     nth_error (board p) (N.to_nat (rook_dst (mv_dst m))) = Some NO_PIECE \/
     nth_error (board p) (N.to_nat (rook_src (mv_dst m))) = Some NO_PIECE) ->
  st_kind stm p m = Ok q -> hash_ok q /\ len64 q /\ side q = side p.
Proof.
  intros L H C S. unfold st_kind in S.
  assert (CM : forall rs rd, rook_dst (mv_dst m) = rd -> rook_src (mv_dst m) = rs -> mv_kind m = CASTLING ->
            (r <- move_piece K p rs rd ;; Ok (fst r)) = Ok q -> hash_ok q /\ len64 q /\ side q = side p).
  { intros rs rd Erd Ers Ek S'. bind_inv S'. destruct a as [q' pc]. inversion S'; subst q'; clear S'.
    pose proof (move_piece_board _ _ _ _ _ E) as (Hf & Hpc & _ & Hs & _).
    destruct (C Ek) as [C1|C1].
    - rewrite Erd in C1. destruct (move_piece_hash_ok _ _ _ _ _ L H C1 E). auto.
    - rewrite Ers in C1. congruence. }
  destruct (mv_kind m =? CASTLING) eqn:Ek.
  { apply N.eqb_eq in Ek. unfold rook_dst, rook_src in CM.
    destruct (mv_dst m =? C1); [eapply CM; eauto|].
    destruct (mv_dst m =? G1); [eapply CM; eauto|].
    destruct (mv_dst m =? C8); [eapply CM; eauto|].
    destruct (mv_dst m =? G8); [eapply CM; eauto|]. discriminate. }
  clear CM C. destruct (mv_kind m =? EN_PASSANT).
  { bind_inv S. destruct a as [q' pc]. inversion S; subst q'; clear S.
    destruct (delete_piece_hash_ok _ _ _ _ L H E). apply delete_piece_spec in E.
    destruct E as (k & _ & _ & _ & _ & _ & Hs & _). auto. }
  destruct (mv_kind m =? PROMOTION); [|inversion S; subst; auto].
  bind_inv S. destruct a as [q' pc]. cbn [fst] in S.
  destruct (delete_piece_hash_ok _ _ _ _ L H E) as [H' L']. apply delete_piece_spec in E.
  destruct E as (k & Hn & _ & _ & Hb & _ & Hs & _).
  assert (Hn' : nth_error (board q') (N.to_nat (mv_dst m)) = Some NO_PIECE).
  { rewrite Hb. apply nth_error_upd_same. apply nth_error_Some. congruence. }
  destruct (set_piece_hash_ok _ _ _ _ L' H' Hn' S). apply set_piece_spec in S.
  destruct S as (k' & _ & _ & _ & _ & _ & Hs' & _). repeat split; auto. congruence.
Qed.

(* Side conditions of the general lemma, stated on the position BEFORE the move.
   (a) castling: the rook's destination square is empty (or the "rook" square is the king's own
       origin, in which case MakeMove fails);
   (b) the double pawn step that would put the en-passant square on SQ_NONE = 64 is excluded:
       a "black" pawn stepping a6 -> a8.  Neither can happen for a generated move (below); both are
       real: see [make_move_needs_*] in Pos/ZobristInst.v. *)
Definition castle_dest_ok (p : position) (m : N) : Prop :=
  mv_kind m = CASTLING ->
  mv_dst m = C1 \/ mv_dst m = G1 \/ mv_dst m = C8 \/ mv_dst m = G8 ->
  nth_error (board p) (N.to_nat (rook_dst (mv_dst m))) = Some NO_PIECE \/ mv_src m = rook_src (mv_dst m).
Definition double_step_ok (p : position) (m : N) : Prop :=
  ~ (side p = BLACK /\ mv_src m = 40 /\ mv_dst m = 56 /\ piece_type (piece_at p 40) = PAWN).

Lemma st_kind_castle_dst stm p m q : st_kind stm p m = Ok q -> mv_kind m = CASTLING ->
  mv_dst m = C1 \/ mv_dst m = G1 \/ mv_dst m = C8 \/ mv_dst m = G8.
Proof.
  unfold st_kind. intros S Ek. rewrite Ek in S. cbn [N.eqb CASTLING Pos.eqb] in S.
  destruct (mv_dst m =? C1) eqn:E1; [apply N.eqb_eq in E1; auto|].
  destruct (mv_dst m =? G1) eqn:E2; [apply N.eqb_eq in E2; auto|].
  destruct (mv_dst m =? C8) eqn:E3; [apply N.eqb_eq in E3; auto|].
  destruct (mv_dst m =? G8) eqn:E4; [apply N.eqb_eq in E4; auto|]. discriminate.
Qed.

(* the board after capture-removal and the move of the piece, at a third square *)
Lemma nth_after_move (bd : list N) (src dst x : nat) piece :
  length bd = 64%nat -> (src < 64)%nat -> x <> dst ->
  nth_error (upd (upd (upd bd dst NO_PIECE) src NO_PIECE) dst piece) x =
  if Nat.eq_dec src x then Some NO_PIECE else nth_error bd x.
Proof.
  intros L Hs Hx. rewrite nth_error_upd_other by auto. destruct (Nat.eq_dec src x) as [e|e].
  - subst x. apply nth_error_upd_same. rewrite upd_length. lia.
  - rewrite !nth_error_upd_other by auto. reflexivity.
Qed.

Theorem make_move_hash_ok_gen p m q :
  len64 p -> hash_ok p -> castle_dest_ok p m -> double_step_ok p m ->
  make_move K p m = Ok q -> hash_ok q /\ len64 q.
Proof.
  intros L H CD DS M. rewrite make_move_stages in M.
  pose proof (mv_src_lt m) as Hsrc. pose proof (mv_dst_lt m) as Hdst.
  set (src := mv_src m) in *. set (dst := mv_dst m) in *.
  bind_inv M. rename a into p1. destruct (st_ep_ok _ _ H E) as (H1 & B1 & S1 & C1 & E1).
  assert (L1 : len64 p1) by (unfold len64; now rewrite B1).
  bind_inv M. rename a into target. bind_inv M. destruct a as [p2 reset].
  destruct (st_cap_ok _ _ _ _ _ L1 H1 E0 E2) as (H2 & L2 & B2 & S2 & C2 & E2').
  bind_inv M. rename a into p3. destruct (revoke_hash_ok _ _ _ H2 E3) as (H3 & B3 & S3 & E3').
  bind_inv M. rename a into p4. destruct (revoke_hash_ok _ _ _ H3 E4) as (H4 & B4 & S4 & E4').
  bind_inv M. destruct a as [p5 piece].
  assert (L4 : len64 p4) by (unfold len64; now rewrite B4, B3).
  assert (N4 : nth_error (board p4) (N.to_nat dst) = Some NO_PIECE).
  { rewrite B4, B3, B2. apply nth_error_upd_same. rewrite B1, L. lia. }
  destruct (move_piece_hash_ok _ _ _ _ _ L4 H4 N4 E5) as (H5 & L5).
  pose proof (move_piece_board _ _ _ _ _ E5) as (F5 & Hpc & B5 & S5 & C5 & E5').
  (* the moved piece stood on src in the original position, and src <> dst *)
  assert (Hne : N.to_nat src <> N.to_nat dst). { intros e. rewrite e in F5. congruence. }
  assert (F0 : nth_error (board p) (N.to_nat src) = Some piece).
  { rewrite B4, B3, B2, B1 in F5. now rewrite nth_error_upd_other in F5 by auto. }
  bind_inv M. destruct a as [p6 reset'].
  assert (NO : ~ (piece_type piece = PAWN /\ abs_diff src dst = 16 /\ side p = BLACK /\ dst = 56)).
  { intros (X1 & X2 & X3 & X4). apply DS. repeat split; auto.
    - fold src. rewrite X4 in X2. unfold abs_diff in X2. destruct (src <? 56) eqn:Y; lia.
    - assert (src = 40). { rewrite X4 in X2. unfold abs_diff in X2. destruct (src <? 56) eqn:Y; lia. }
      unfold piece_at. rewrite <- H0. erewrite nth_error_nth; eauto. }
  assert (EP5 : ep p5 = SQ_NONE) by congruence.
  destruct (st_pawn_ok _ _ _ _ _ _ _ _ H5 EP5 Hdst NO E6) as (H6 & B6 & S6 & C6).
  assert (L6 : len64 p6) by (unfold len64; now rewrite B6).
  bind_inv M. rename a into p7. inversion M; subst q; clear M.
  assert (CK : mv_kind m = CASTLING ->
     nth_error (board p6) (N.to_nat (rook_dst (mv_dst m))) = Some NO_PIECE \/
     nth_error (board p6) (N.to_nat (rook_src (mv_dst m))) = Some NO_PIECE).
  { intros Ek. pose proof (st_kind_castle_dst _ _ _ _ E7 Ek) as D4.
    specialize (CD Ek D4). fold dst src in D4, CD |- *. rewrite B6, B5, B4, B3, B2, B1.
    assert (Hs' : (N.to_nat src < 64)%nat) by lia.
    destruct CD as [X|X]; [left|right]; rewrite nth_after_move; auto.
    - destruct (Nat.eq_dec (N.to_nat src) (N.to_nat (rook_dst dst))); auto.
    - destruct D4 as [e|[e|[e|e]]]; rewrite e; vm_compute; lia.
    - rewrite X. destruct (Nat.eq_dec (N.to_nat (rook_src dst)) (N.to_nat (rook_src dst))); congruence.
    - destruct D4 as [e|[e|[e|e]]]; rewrite e; vm_compute; lia. }
  destruct (st_kind_ok _ _ _ _ L6 H6 CK E7) as (H7 & L7 & S7).
  assert (S7' : side p7 = side p) by congruence.
  destruct (st_fin_ok _ _ reset' H7 S7') as (HF & BF). split; [exact HF|].
  unfold len64. rewrite BF. exact L7.
Qed.

End Zobrist.

(* ------------------------------------------------------------------------------------------ *)
(* 4b. generated moves meet the two side conditions (no keys involved)                          *)

(* -- bit scans -- *)
Lemma bits_pos_testbit q : forall i s, In s (bits_pos q i) -> exists j, s = i + j /\ N.testbit (N.pos q) j = true.
Proof.
  induction q as [q IH|q IH|]; cbn [bits_pos]; intros i s H.
  - destruct H as [<-|H].
    + exists 0. split; [lia|]. reflexivity.
    + apply IH in H. destruct H as (j & -> & T). exists (N.succ j). split; [lia|].
      change (N.pos q~1) with (2 * N.pos q + 1). now rewrite N.testbit_odd_succ by lia.
  - apply IH in H. destruct H as (j & -> & T). exists (N.succ j). split; [lia|].
    change (N.pos q~0) with (2 * N.pos q). now rewrite N.testbit_even_succ by lia.
  - destruct H as [<-|[]]. exists 0. split; [lia|reflexivity].
Qed.

Lemma bits_testbit b s : In s (bits b) -> N.testbit b s = true.
Proof.
  destruct b as [|q]; cbn; [tauto|]. intros H. apply bits_pos_testbit in H. destruct H as (j & -> & T). exact T.
Qed.

Lemma testbit_bound a n t : a < 2 ^ n -> N.testbit a t = true -> t < n.
Proof.
  intros Ha T. destruct (N.lt_ge_cases t n) as [|Hge]; auto. exfalso.
  assert (a < 2 ^ t). { eapply N.lt_le_trans; eauto. apply N.pow_le_mono_r; lia. }
  pose proof (N.testbit_spec' a t) as S. rewrite T, N.div_small in S by auto. discriminate.
Qed.

(* [bnd b]: every set bit of b is a square *)
Definition bnd (b : N) : Prop := forall t, N.testbit b t = true -> t < 64.
Lemma bnd_const c : c < two64 -> bnd c.
Proof. intros H t. apply testbit_bound. exact H. Qed.
Lemma bnd_land_l a b : bnd a -> bnd (N.land a b).
Proof. intros H t T. rewrite N.land_spec in T. apply andb_true_iff in T. apply H, T. Qed.
Lemma bnd_land_r a b : bnd b -> bnd (N.land a b).
Proof. intros H t T. rewrite N.land_spec in T. apply andb_true_iff in T. apply H, T. Qed.
Lemma bnd_lor a b : bnd a -> bnd b -> bnd (N.lor a b).
Proof. intros Ha Hb t T. rewrite N.lor_spec in T. apply orb_true_iff in T. destruct T; auto. Qed.
Lemma bnd_m64 : bnd m64.
Proof. apply bnd_const. reflexivity. Qed.
Lemma bnd_not64 x : bnd (not64 x).
Proof.
  intros t T. unfold not64, w64 in T. rewrite N.lxor_spec, N.land_spec in T.
  destruct (N.testbit m64 t) eqn:E; [now apply bnd_m64|]. rewrite andb_false_r in T. discriminate.
Qed.

Lemma bnd_pushes c s occ : bnd (pushes_by_square c s occ).
Proof.
  unfold pushes_by_square, pawn_pushes, double_push, single_push. apply bnd_lor.
  - destruct (c =? WHITE); apply bnd_land_r, bnd_not64.
  - destruct (c =? WHITE); apply bnd_land_l, bnd_land_r, bnd_not64.
Qed.
Lemma bnd_pawn_attacks c s : bnd (pawn_attacks c s).
Proof.
  unfold pawn_attacks, pawn_set, north_east_one, north_west_one, south_east_one, south_west_one.
  destruct (c =? WHITE); apply bnd_lor; apply bnd_land_r, bnd_const; reflexivity.
Qed.

(* -- decoding the move words the generators build: checked on all 64 x 64 pairs -- *)
Definition gen_shape (m s t : N) : Prop :=
  m = mk_move s t \/ (exists pt, In pt promo_types /\ m = mk_promo s t pt) \/ m = mk_move_kind s t EN_PASSANT.

Definition decode_chk (s t : N) : bool :=
  let ok m := (mv_src m =? s) && (mv_dst m =? t) && negb (mv_kind m =? CASTLING) in
  ok (mk_move s t) && ok (mk_move_kind s t EN_PASSANT) && forallb (fun pt => ok (mk_promo s t pt)) promo_types.

Lemma decode_all : forallb (fun s => forallb (decode_chk s) sq_list) sq_list = true.
Proof. vm_compute. reflexivity. Qed.

Lemma decode_simple m s t : s < 64 -> t < 64 -> gen_shape m s t ->
  mv_src m = s /\ mv_dst m = t /\ mv_kind m <> CASTLING.
Proof.
  intros Hs Ht G. pose proof (forall_sq _ (forall_sq _ decode_all s Hs) t Ht) as C. cbv beta in C.
  unfold decode_chk in C. apply andb_true_iff in C. destruct C as [C C3]. apply andb_true_iff in C.
  destruct C as [C1 C2]. rewrite forallb_forall in C3.
  assert (R : forall m', (mv_src m' =? s) && (mv_dst m' =? t) && negb (mv_kind m' =? CASTLING) = true ->
               mv_src m' = s /\ mv_dst m' = t /\ mv_kind m' <> CASTLING).
  { intros m'. rewrite !andb_true_iff, negb_true_iff, !N.eqb_eq, N.eqb_neq. tauto. }
  destruct G as [ -> | [ (pt & Hpt & ->) | -> ] ]; apply R; auto.
Qed.

(* -- membership in the generators -- *)
Lemma in_gen_helper m X occ dest att : In m (gen_helper X occ dest att) ->
  exists s t, In s (bits X) /\ In t (bits (N.land (att s occ) dest)) /\ m = mk_move s t.
Proof.
  unfold gen_helper. intros H. apply in_flat_map in H. destruct H as (s & Hs & H).
  apply in_map_iff in H. destruct H as (t & <- & Ht). eauto.
Qed.

Lemma in_pmwp m stm s t : In m (pawn_move_with_promotion stm s t) -> gen_shape m s t.
Proof.
  unfold pawn_move_with_promotion, gen_shape. intros H.
  destruct ((stm =? WHITE) && negb (rank_of t =? 7)); [destruct H as [<-|[]]; auto|].
  destruct ((stm =? BLACK) && negb (rank_of t =? 0)); [destruct H as [<-|[]]; auto|].
  apply in_map_iff in H. destruct H as (pt & <- & Hpt). right. left. eauto.
Qed.

Lemma in_pawn_moves m p pawns them : In m (pawn_moves p false pawns them) ->
  exists s t, In s (bits pawns) /\ gen_shape m s t /\
    (In t (bits (pushes_by_square (side p) s (all_pieces p))) \/
     In t (bits (N.land (pawn_attacks (side p) s) them)) \/
     In t (bits (N.land (pawn_attacks (side p) s) (bit (ep p))))).
Proof.
  unfold pawn_moves. intros H. apply in_flat_map in H. destruct H as (s & Hs & H). exists s.
  apply in_app_or in H. destruct H as [H|H].
  { apply in_flat_map in H. destruct H as (t & Ht & H). exists t. split; auto. split; [eapply in_pmwp; eauto|auto]. }
  apply in_app_or in H. destruct H as [H|H].
  { apply in_flat_map in H. destruct H as (t & Ht & H). exists t. split; auto. split; [eapply in_pmwp; eauto|auto]. }
  destruct (negb (ep p =? SQ_NONE)); [|destruct H].
  apply in_map_iff in H. destruct H as (t & <- & Ht). exists t. split; auto. split; [|auto].
  right. right. reflexivity.
Qed.

(* -- bitboards against the square array, from the C10 invariant's [bbs_agree] -- *)
Lemma in_ct_pairs c t : c < 2 -> t < 6 -> In (c, t) ct_pairs.
Proof.
  intros Hc Ht. assert (c = 0 \/ c = 1) as [-> | ->] by lia;
  assert (t = 0 \/ t = 1 \/ t = 2 \/ t = 3 \/ t = 4 \/ t = 5) as [ -> | [ -> | [ -> | [ -> | [ -> | -> ]]]]] by lia; cbn; tauto.
Qed.

Lemma piece_type_new c t : c < 2 -> t < 6 -> piece_type (new_piece c t) = t.
Proof.
  intros Hc Ht. assert (c = 0 \/ c = 1) as [-> | ->] by lia;
  assert (t = 0 \/ t = 1 \/ t = 2 \/ t = 3 \/ t = 4 \/ t = 5) as [ -> | [ -> | [ -> | [ -> | [ -> | -> ]]]]] by lia; reflexivity.
Qed.

Lemma get_bb_agree p c t X : bbs_agree p = true -> get_bb p c t = Ok X ->
  c < 2 /\ t < 6 /\ X < two64 /\ forall s, s < 64 -> N.testbit X s = true -> piece_at p s = new_piece c t.
Proof.
  unfold bbs_agree, get_bb, bb_index. intros A G. apply andb_true_iff in A. destruct A as [_ A].
  destruct ((c <? 2) && (t <? 6)) eqn:E; cbn [bind] in G; [|discriminate].
  apply andb_true_iff in E. destruct E as [Hc Ht]. apply N.ltb_lt in Hc, Ht.
  rewrite forallb_forall in A. specialize (A _ (in_ct_pairs _ _ Hc Ht)). cbv beta iota in A.
  apply nth_res_ok in G. assert (Hx : bb_at p c t = X). { unfold bb_at. erewrite nth_error_nth; eauto. }
  rewrite Hx in A. apply andb_true_iff in A. destruct A as [A1 A2]. apply N.ltb_lt in A1.
  repeat split; auto. intros s Hs T. rewrite forallb_forall in A2. specialize (A2 s).
  assert (In s squares64) by (apply sq_list_in; auto). specialize (A2 H). rewrite T in A2.
  apply eqb_prop in A2. symmetry in A2. now apply N.eqb_eq in A2.
Qed.

(* -- castling: what CanCastleNow checked -- *)
Lemma walk_step f p queen sq att free :
  castle_walk (S f) p queen sq att free = Ok true -> ((0 <? att)%Z || (0 <? free)%Z) = true ->
  let sq' := if queen then sub8 sq 1 else add8 sq 1 in
  ((0 <? free)%Z = true -> get_piece p sq' = Ok NO_PIECE) /\
  castle_walk f p queen sq' (att - 1)%Z (free - 1)%Z = Ok true.
Proof.
  cbn [castle_walk]. intros H C. rewrite C in H. cbv zeta.
  set (sq' := if queen then sub8 sq 1 else add8 sq 1) in *.
  destruct (0 <? free)%Z.
  - destruct (get_piece p sq') as [pc| |]; cbn [bind] in H; try discriminate.
    destruct (pc =? NO_PIECE) eqn:E; cbn [andb negb] in H; try discriminate.
    apply N.eqb_eq in E. subst pc. split; auto.
    match type of H with bind ?a _ = _ => destruct a as [[|]| |] end; cbn [bind] in H; try discriminate. exact H.
  - cbn [bind andb] in H. split; [discriminate|].
    match type of H with bind ?a _ = _ => destruct a as [[|]| |] end; cbn [bind] in H; try discriminate. exact H.
Qed.

Definition cstep (queen : bool) (x : N) : N := if queen then sub8 x 1 else add8 x 1.

Lemma castle_walk_spec p queen sq :
  castle_walk 4 p queen sq 2%Z (if queen then 3%Z else 2%Z) = Ok true ->
  get_piece p (cstep queen sq) = Ok NO_PIECE /\
  get_piece p (cstep queen (cstep queen sq)) = Ok NO_PIECE /\
  (queen = true -> get_piece p (cstep queen (cstep queen (cstep queen sq))) = Ok NO_PIECE).
Proof.
  intros H. apply walk_step in H; [|reflexivity]. cbv zeta in H. fold (cstep queen sq) in H. destruct H as [G1 H].
  apply walk_step in H; [|destruct queen; reflexivity]. cbv zeta in H. fold (cstep queen (cstep queen sq)) in H.
  destruct H as [G2 H].
  split; [apply G1; destruct queen; reflexivity|]. split; [apply G2; destruct queen; reflexivity|].
  intros ->. apply walk_step in H; [|reflexivity]. destruct H as [G3 _]. apply G3. reflexivity.
Qed.

Lemma can_castle_now_spec p c : can_castle_now p c = Ok true ->
  exists kb s, get_bb p (side p) KING = Ok kb /\ lsb kb = Ok s /\ s < 64 /\
    castle_walk 4 p (castling_is_queen_side c) s 2%Z (if castling_is_queen_side c then 3%Z else 2%Z) = Ok true.
Proof.
  unfold can_castle_now. destruct (negb (can_castle p c)); [discriminate|].
  destruct (negb (castling_color c =? side p)); [discriminate|].
  intros H. bind_inv H. destruct a; [discriminate|]. bind_inv H. bind_inv H. exists a, a0. repeat split; auto.
  unfold is_in_check in E. rewrite E0 in E. cbn [bind] in E. rewrite E1 in E. cbn [bind] in E.
  bind_inv E. unfold square_attacked_by in E2. destruct (a0 <? 64) eqn:L; [now apply N.ltb_lt|discriminate].
Qed.

Notation castle_mv s d := (mv_set_dst (mv_set_src (mv_set_kind 0 CASTLING) s) d) (only parsing).

Definition cm_step (p : position) (l : list N) (c : N) : res (list N) :=
  if negb (castling_color c =? side p) then Ok l else
  ok <- can_castle_now p c ;;
  if negb ok then Ok l else
  kb <- get_bb p (side p) KING ;;
  src <- lsb kb ;;
  let dst := if castling_is_queen_side c then sub8 src 2 else add8 src 2 in
  Ok (l ++ [castle_mv src dst]).

Definition is_castle_of (p : position) (m : N) : Prop :=
  exists c kb s, can_castle_now p c = Ok true /\ get_bb p (side p) KING = Ok kb /\ lsb kb = Ok s /\
    m = castle_mv s (if castling_is_queen_side c then sub8 s 2 else add8 s 2).

Lemma cm_step_ok p l c l' : (forall m, In m l -> is_castle_of p m) -> cm_step p l c = Ok l' ->
  forall m, In m l' -> is_castle_of p m.
Proof.
  unfold cm_step. intros IH S.
  destruct (negb (castling_color c =? side p)); [injection S as <-; auto|].
  bind_inv S. destruct a; cbn [negb] in S; [|injection S as <-; auto].
  bind_inv S. bind_inv S. cbv zeta in S.
  match type of S with Ok (l ++ [?x]) = _ => remember x as mv eqn:Emv end.
  injection S as <-. intros m Hin.
  apply in_app_or in Hin. destruct Hin as [Hin|Hin]; auto.
  destruct Hin as [Hm|[]]. subst m. exists c, a, a0. repeat split; auto.
Qed.

Lemma in_castling_moves p cs m : castling_moves p = Ok cs -> In m cs -> is_castle_of p m.
Proof.
  intros H. revert m.
  change (castling_moves p) with (fold_left (fun acc c => l <- acc ;; cm_step p l c) [WK; WQ; BK; BQ] (Ok [])) in H.
  refine (fold_bind_inv (fun l : list N => forall m, In m l -> is_castle_of p m) _ _ _ _ _ _ H); [|intros m []].
  intros l c l' _. apply cm_step_ok.
Qed.

Definition is_castle_dst (d : N) : bool := (d =? C1) || (d =? G1) || (d =? C8) || (d =? G8).
Definition castle_chk (s : N) (queen : bool) : bool :=
  let m := castle_mv s (if queen then sub8 s 2 else add8 s 2) in
  let dst := mv_dst m in
  let s1 := cstep queen s in let s2 := cstep queen s1 in let s3 := cstep queen s2 in
  (mv_src m =? s) && negb ((mv_src m =? 40) && (dst =? 56)) &&
  (negb (is_castle_dst dst) || (rook_dst dst =? s1) || (rook_dst dst =? s2) || (queen && (rook_dst dst =? s3))
   || (rook_src dst =? s) || (64 <=? s1)).

Lemma castle_chk_all : forallb (fun s => castle_chk s true && castle_chk s false) sq_list = true.
Proof. vm_compute. reflexivity. Qed.

Lemma castling_conds p cs m :
  len64 p -> castling_moves p = Ok cs -> In m cs -> castle_dest_ok p m /\ double_step_ok p m.
Proof.
  intros L H Hin. destruct (in_castling_moves _ _ _ H Hin) as (c & kb & s & CC & G & Ls & ->).
  apply can_castle_now_spec in CC. destruct CC as (kb' & s' & G' & Ls' & Hs & W).
  rewrite G in G'. inversion G'; subst kb'. rewrite Ls in Ls'. inversion Ls'; subst s'. clear G' Ls'.
  apply castle_walk_spec in W. set (queen := castling_is_queen_side c) in *. destruct W as (W1 & W2 & W3).
  pose proof (forall_sq _ castle_chk_all s Hs) as C. cbv beta in C.
  assert (C' : castle_chk s queen = true) by (apply andb_true_iff in C; destruct queen; tauto). clear C.
  unfold castle_chk in C'. cbv zeta in C'.
  set (m := castle_mv s (if queen then sub8 s 2 else add8 s 2)) in *.
  apply andb_true_iff in C'. destruct C' as [C1' C3]. apply andb_true_iff in C1'. destruct C1' as [C1' C2].
  apply N.eqb_eq in C1'. split.
  - intros _ D4. unfold get_piece in W1, W2, W3. rewrite nth_res_ok in W1, W2.
    assert (D : is_castle_dst (mv_dst m) = true).
    { unfold is_castle_dst. destruct D4 as [e|[e|[e|e]]]; rewrite e; reflexivity. }
    rewrite D in C3. cbn [negb orb] in C3. rewrite !orb_true_iff in C3.
    destruct C3 as [[[[C3|C3]|C3]|C3]|C3].
    5:{ apply N.leb_le in C3. exfalso. assert (N.to_nat (cstep queen s) < length (board p))%nat
          by (apply nth_error_Some; congruence). rewrite L in H0. lia. }
    + apply N.eqb_eq in C3. rewrite C3. auto.
    + apply N.eqb_eq in C3. rewrite C3. auto.
    + apply andb_true_iff in C3. destruct C3 as [Q C3]. apply N.eqb_eq in C3. rewrite C3. left.
      apply nth_res_ok. apply W3. exact Q.
    + apply N.eqb_eq in C3. right. congruence.
  - intros (_ & X1 & X2 & _). rewrite X1, X2 in C2. discriminate.
Qed.

Lemma black_push_40 occ : N.testbit (pushes_by_square BLACK 40 occ) 56 = false.
Proof.
  unfold pushes_by_square, pawn_pushes, double_push, single_push. change (BLACK =? WHITE) with false. cbv iota.
  rewrite N.lor_spec, !N.land_spec.
  replace (N.testbit (south_one (bit 40)) 56) with false by (vm_compute; reflexivity).
  replace (N.testbit RankMask5 56) with false by (vm_compute; reflexivity).
  cbn [andb orb]. now rewrite andb_false_r.
Qed.
Lemma black_att_40 X : N.testbit (N.land (pawn_attacks BLACK 40) X) 56 = false.
Proof.
  rewrite N.land_spec. replace (N.testbit (pawn_attacks BLACK 40) 56) with false by (vm_compute; reflexivity).
  reflexivity.
Qed.

Lemma helper_conds p T X occ own att m :
  bbs_agree p = true -> get_bb p (side p) T = Ok X -> T <> PAWN ->
  In m (gen_helper X occ (not64 own) att) -> castle_dest_ok p m /\ double_step_ok p m.
Proof.
  intros A G HT Hin. apply in_gen_helper in Hin. destruct Hin as (s & t & Hs & Ht & ->).
  destruct (get_bb_agree _ _ _ _ A G) as (Hc & HT' & HX & HP).
  apply bits_testbit in Hs, Ht.
  assert (Ls : s < 64) by (eapply testbit_bound; eauto).
  assert (Lt : t < 64) by (eapply bnd_land_r; [apply bnd_not64|eauto]).
  destruct (decode_simple _ s t Ls Lt (or_introl eq_refl)) as (D1 & D2 & D3).
  split.
  - intros Ek. contradiction.
  - intros (_ & X1 & _ & X4). rewrite D1 in X1. subst s. rewrite (HP 40 Ls Hs), piece_type_new in X4; auto.
Qed.

Theorem gen_moves_conds p ms m :
  len64 p -> bbs_agree p = true -> gen_moves p = Ok ms -> In m ms -> castle_dest_ok p m /\ double_step_ok p m.
Proof.
  intros L A G Hin. unfold gen_moves in G.
  bind_inv G. bind_inv G. bind_inv G. bind_inv G. bind_inv G. bind_inv G. bind_inv G. bind_inv G. bind_inv G.
  inversion G; subst ms; clear G.
  repeat (apply in_app_or in Hin; destruct Hin as [Hin|Hin]);
    try (refine (helper_conds _ _ _ _ _ _ _ A _ _ Hin); [eassumption|discriminate]).
  - (* pawn moves *)
    apply in_pawn_moves in Hin. destruct Hin as (s & t & Hs & Sh & Ht).
    destruct (get_bb_agree _ _ _ _ A E5) as (Hc & _ & HX & _).
    apply bits_testbit in Hs. assert (Ls : s < 64) by (eapply testbit_bound; eauto).
    assert (Lt : t < 64).
    { destruct Ht as [Ht|[Ht|Ht]]; apply bits_testbit in Ht.
      - eapply bnd_pushes; eauto.
      - eapply bnd_land_l; [apply bnd_pawn_attacks|eauto].
      - eapply bnd_land_l; [apply bnd_pawn_attacks|eauto]. }
    destruct (decode_simple _ s t Ls Lt Sh) as (D1 & D2 & D3). split.
    + intros Ek. contradiction.
    + intros (X0 & X1 & X2 & _). rewrite D1 in X1. rewrite D2 in X2. rewrite X0, X1, X2 in Ht.
      destruct Ht as [Ht|[Ht|Ht]]; apply bits_testbit in Ht.
      * rewrite black_push_40 in Ht. discriminate.
      * rewrite black_att_40 in Ht. discriminate.
      * rewrite black_att_40 in Ht. discriminate.
  - (* castling *)
    eapply castling_conds; eauto.
Qed.

(* ------------------------------------------------------------------------------------------ *)
(* 5. generated moves, null moves, FEN, New()                                                   *)

Ltac Zify.zify_post_hook ::= Z.to_euclidean_division_equations.

Lemma sub8_add8 x : x < 256 -> sub8 (add8 x 1) 1 = x.
Proof. unfold sub8, add8. intros H. lia. Qed.

Lemma switch_switch s : s = WHITE \/ s = BLACK -> switch_color (switch_color s) = s.
Proof. intros [-> | ->]; reflexivity. Qed.

(* the clauses of the C10 invariant *)
Lemma inv_parts p : Inv p ->
  board_wf p = true /\ bbs_agree p = true /\ helpers_agree p = true /\ one_king_each p = true /\
  no_back_rank_pawns p = true /\ castling_consistent p = true /\ ep_consistent p = true /\
  scalars_ok p = true /\ mover_not_in_check p = true.
Proof. unfold Inv, inv_b. rewrite !andb_true_iff. tauto. Qed.

Lemma board_wf_len p : board_wf p = true -> len64 p.
Proof. unfold board_wf, len64. rewrite andb_true_iff, Nat.eqb_eq. tauto. Qed.

Lemma scalars_ok_spec p : scalars_ok p = true ->
  (side p = WHITE \/ side p = BLACK) /\ hmc p < 256 /\ ply p < 256 /\ ep p <= 64.
Proof.
  unfold scalars_ok. rewrite !andb_true_iff, orb_true_iff, !N.eqb_eq, !N.ltb_lt, N.leb_le. tauto.
Qed.

(* the static clauses read only these five fields *)
Lemma inv_static_ext p q :
  bbs q = bbs p -> all_pieces q = all_pieces p -> by_color q = by_color p -> board q = board p ->
  castling q = castling p ->
  board_wf q = board_wf p /\ bbs_agree q = bbs_agree p /\ helpers_agree q = helpers_agree p /\
  one_king_each q = one_king_each p /\ no_back_rank_pawns q = no_back_rank_pawns p /\
  castling_consistent q = castling_consistent p.
Proof. destruct p, q; cbn; intros; subst; repeat split; reflexivity. Qed.

Lemma is_in_check_ext p q c :
  bbs q = bbs p -> all_pieces q = all_pieces p -> by_color q = by_color p -> is_in_check q c = is_in_check p c.
Proof. destruct p, q; cbn; intros; subst; reflexivity. Qed.

Lemma position_eq p q :
  bbs p = bbs q -> hash p = hash q -> all_pieces p = all_pieces q -> by_color p = by_color q ->
  board p = board q -> side p = side q -> castling p = castling q -> ep p = ep q -> hmc p = hmc q ->
  ply p = ply q -> p = q.
Proof. destruct p, q; cbn; intros; subst; reflexivity. Qed.

Section Zobrist2.
Variable K : zkeys.
Local Notation hash_ok := (hash_ok K).

(* MakeMove of a GENERATED move: of the invariant only the board length and the agreement of the
   bitboards with the square array are used *)
Theorem make_move_hash_ok_weak p ms m q :
  len64 p -> bbs_agree p = true -> hash_ok p -> gen_moves p = Ok ms -> In m ms ->
  make_move K p m = Ok q -> hash_ok q /\ len64 q.
Proof.
  intros L A H G Hin M. destruct (gen_moves_conds _ _ _ L A G Hin). eapply make_move_hash_ok_gen; eauto.
Qed.

Theorem make_move_hash_ok p ms m q :
  Inv p -> hash_ok p -> gen_moves p = Ok ms -> In m ms -> make_move K p m = Ok q -> hash_ok q.
Proof.
  intros I H G Hin M. destruct (inv_parts _ I) as (BW & A & _).
  eapply make_move_hash_ok_weak; eauto using board_wf_len.
Qed.

Lemma legal_moves_in p ls m : legal_moves K p = Ok ls -> In m ls -> exists ms, gen_moves p = Ok ms /\ In m ms.
Proof.
  unfold legal_moves. intros H Hin. bind_inv H. exists a. split; auto. clear E.
  revert ls H Hin. induction a as [|x ms IH]; cbn [fold_right]; intros ls H Hin.
  - injection H as <-. destruct Hin.
  - bind_inv H. bind_inv H. bind_inv H. injection H as <-. destruct a1.
    + destruct Hin as [<-|Hin]; [now left|right; eauto].
    + right; eauto.
Qed.

(* -- null moves -- *)
Lemma null_fields p q e : make_null_move K p = Ok (q, e) ->
  bbs q = bbs p /\ all_pieces q = all_pieces p /\ by_color q = by_color p /\ board q = board p /\
  castling q = castling p /\ side q = switch_color (side p) /\ ep q = SQ_NONE /\ hmc q = hmc p /\
  ply q = add8 (ply p) 1 /\ e = ep p.
Proof.
  unfold make_null_move. destruct (ep p =? SQ_NONE) eqn:E; cbn [negb bind]; intros H.
  - injection H as <- <-. cbn. apply N.eqb_eq in E. repeat split; auto.
  - bind_inv H. injection H as <- <-. bind_inv E0. injection E0 as <-. cbn. repeat split; auto.
Qed.

Theorem null_hash_ok p q e : hash_ok p -> make_null_move K p = Ok (q, e) -> hash_ok q.
Proof.
  intros H M. apply hash_ok_nf in H. apply hash_nf_ok in H. destruct H as (b & c & k & H1 & H2 & H3 & H4).
  apply hash_ok_nf. apply hash_nf_ok. unfold make_null_move in M.
  destruct (ep p =? SQ_NONE) eqn:E; cbn [negb bind] in M.
  - injection M as <- <-. cbn. exists b, c, k. repeat split; auto. rewrite side_key_switch, H4. xor_solve.
  - bind_inv M. injection M as <- <-. bind_inv E0. injection E0 as <-. cbn. exists b, c, 0. repeat split; auto.
    unfold ep_hash in H3. rewrite E, E1 in H3. injection H3 as <-. rewrite side_key_switch, H4. xor_solve.
Qed.

(* MakeNullMove then UnMakeNullMove gives back the position, every field included *)
Ltac pos_cbv := cbv [toggle set_side set_counters set_hash set_ep bbs hash all_pieces by_color board side castling ep hmc ply].
Ltac pos_cbv_in H := cbv [toggle set_side set_counters set_hash set_ep bbs hash all_pieces by_color board side castling ep hmc ply] in H.

Theorem unmake_null_roundtrip p q e :
  (side p = WHITE \/ side p = BLACK) -> ply p < 256 ->
  make_null_move K p = Ok (q, e) -> unmake_null_move K q e = Ok p.
Proof.
  destruct p as [b h a bc bd s c e0 hm pl]. cbn [side ply]. intros Hs Hp M.
  unfold make_null_move in M. pos_cbv_in M.
  destruct (e0 =? SQ_NONE) eqn:E; cbn [negb bind] in M.
  - injection M as <- <-. unfold unmake_null_move. pos_cbv. rewrite E. cbn [negb bind]. f_equal. f_equal.
    + xor_solve.
    + now apply switch_switch.
    + now apply sub8_add8.
  - destruct (key_ep K e0) as [k| |] eqn:E1; cbn [bind] in M; try discriminate.
    injection M as <- <-. unfold unmake_null_move. pos_cbv. rewrite E. cbn [negb bind]. rewrite E1. cbn [bind].
    f_equal. f_equal.
    + xor_solve.
    + now apply switch_switch.
    + now apply sub8_add8.
Qed.

Corollary unmake_null_roundtrip_inv p q e :
  Inv p -> make_null_move K p = Ok (q, e) -> unmake_null_move K q e = Ok p.
Proof.
  intros I. destruct (inv_parts _ I) as (_ & _ & _ & _ & _ & _ & _ & S & _).
  apply scalars_ok_spec in S. apply unmake_null_roundtrip; tauto.
Qed.

(* the null move keeps the C10 invariant when the mover is not in check (what the search guarantees) *)
Lemma null_inv p q e : Inv p -> is_in_check p (side p) = Ok false -> make_null_move K p = Ok (q, e) -> Inv q.
Proof.
  intros I C M. destruct (inv_parts _ I) as (I1 & I2 & I3 & I4 & I5 & I6 & I7 & I8 & I9).
  destruct (null_fields _ _ _ M) as (F1 & F2 & F3 & F4 & F5 & F6 & F7 & F8 & F9 & _).
  destruct (inv_static_ext p q F1 F2 F3 F4 F5) as (S1 & S2 & S3 & S4 & S5 & S6).
  destruct (scalars_ok_spec _ I8) as (Y1 & Y2 & Y3 & Y4).
  unfold Inv, inv_b. rewrite S1, S2, S3, S4, S5, S6, I1, I2, I3, I4, I5, I6. cbn [andb].
  assert (T1 : ep_consistent q = true). { unfold ep_consistent. rewrite F7. reflexivity. }
  assert (T2 : scalars_ok q = true).
  { unfold scalars_ok. rewrite F6, F7, F8, F9. rewrite !andb_true_iff, orb_true_iff, !N.eqb_eq, !N.ltb_lt, N.leb_le.
    repeat split; auto.
    - destruct Y1 as [-> | ->]; cbn; auto.
    - unfold add8. lia.
    - unfold SQ_NONE. lia. }
  assert (T3 : mover_not_in_check q = true).
  { unfold mover_not_in_check. rewrite F6, switch_switch by auto. rewrite (is_in_check_ext p q) by auto.
    now rewrite C. }
  now rewrite T1, T2, T3.
Qed.

(* -- FEN and New() -- *)
Lemma init_hash_ok x p : init_hash K x = Ok p -> hash_ok (gen_helpers p).
Proof.
  unfold init_hash. intros H. bind_inv H. injection H as <-.
  change (scratch_hash K (gen_helpers (set_hash x a)) = Ok a).
  rewrite <- E. apply scratch_hash_ext; reflexivity.
Qed.

Theorem fen_hash_ok tbl s p : new_from_fen K tbl s = Ok p -> hash_ok p.
Proof.
  unfold new_from_fen, new_from_fen_gen. intros H.
  destruct (split_on 32 s) as [|t0 [|t1 [|t2 [|t3 [|t4 [|t5 [|]]]]]]]; try discriminate.
  bind_inv H. bind_inv H. bind_inv H. bind_inv H.
  destruct (atoi t4); [|discriminate]. destruct (atoi t5); [|discriminate].
  bind_inv H. injection H as <-. eapply init_hash_ok; eauto.
Qed.

Definition start_bbs : list N :=
  Eval vm_compute in match board_to_bbs start_board with Ok b => b | _ => [] end.
Lemma start_bbs_ok : board_to_bbs start_board = Ok start_bbs.
Proof. vm_compute. reflexivity. Qed.

Theorem new_position_hash_ok p : new_position K = Ok p -> hash_ok p.
Proof.
  unfold new_position. intros H. bind_inv H. unfold init_hash in H. bind_inv H. injection H as <-.
  match goal with |- hash_ok (set_hash ?x ?h) => change (scratch_hash K (set_hash x h) = Ok h) end.
  rewrite <- E0. apply scratch_hash_ext; reflexivity.
Qed.

Theorem new_position_inv p : new_position K = Ok p -> Inv p.
Proof.
  unfold new_position. rewrite start_bbs_ok. cbn [bind]. unfold init_hash. intros H. bind_inv H. injection H as <-.
  unfold Inv. vm_compute. reflexivity.
Qed.

(* ------------------------------------------------------------------------------------------ *)
(* 6. reachability; path independence                                                           *)

(* Everything the engine can reach: New() or a parsed FEN satisfying the invariant, then legal
   moves, and null moves (made, and made-then-taken-back) when the mover is not in check. *)
Inductive reachable : position -> Prop :=
| reach_new p : new_position K = Ok p -> reachable p
| reach_fen tbl s p : new_from_fen K tbl s = Ok p -> Inv p -> reachable p
| reach_move p ls m q :
    reachable p -> legal_moves K p = Ok ls -> In m ls -> make_move K p m = Ok q -> reachable q
| reach_null p q e :
    reachable p -> is_in_check p (side p) = Ok false -> make_null_move K p = Ok (q, e) -> reachable q
| reach_unnull p q e p' :
    reachable p -> is_in_check p (side p) = Ok false -> make_null_move K p = Ok (q, e) ->
    unmake_null_move K q e = Ok p' -> reachable p'.

(* C10 (preservation of the invariant by legal moves) is proved separately; here it is a premise. *)
Definition inv_step_statement : Prop :=
  forall p m q ls, Inv p -> legal_moves K p = Ok ls -> In m ls -> make_move K p m = Ok q -> Inv q.

Section WithInvStep.
Hypothesis inv_step : inv_step_statement.

Theorem reachable_inv_hash_ok p : reachable p -> Inv p /\ hash_ok p.
Proof.
  induction 1 as [p Hn | tbl s p Hf HI | p ls m q R [I H] L Hin M | p q e R [I H] C M | p q e p' R [I H] C M U].
  - split; [eapply new_position_inv | eapply new_position_hash_ok]; eauto.
  - split; auto. eapply fen_hash_ok; eauto.
  - split; [eapply inv_step; eauto|]. destruct (legal_moves_in _ _ _ L Hin) as (ms & G & Hin').
    eapply make_move_hash_ok; eauto.
  - split; [eapply null_inv; eauto | eapply null_hash_ok; eauto].
  - rewrite (unmake_null_roundtrip_inv _ _ _ I M) in U. injection U as <-. auto.
Qed.

Theorem reachable_hash_ok p : reachable p -> hash_ok p.
Proof. intros R. apply reachable_inv_hash_ok, R. Qed.

(* two ways of reaching positions that agree in placement, side to move, castling rights and
   en-passant file (or absence) give the same hash *)
Theorem path_independent p1 p2 :
  reachable p1 -> reachable p2 ->
  board p1 = board p2 -> side p1 = side p2 -> castling p1 = castling p2 -> ep_file (ep p1) = ep_file (ep p2) ->
  hash p1 = hash p2.
Proof.
  intros R1 R2 Hb Hs Hc He. apply reachable_hash_ok in R1, R2. unfold ZobristProofs.hash_ok in *.
  rewrite (scratch_hash_ext K p1 p2 Hb Hs Hc He) in R1. congruence.
Qed.

End WithInvStep.
End Zobrist2.

(* ------------------------------------------------------------------------------------------ *)
(* 7. well-formed key tables: totality; distinct keys: one differing component changes the hash  *)

Definition keys_wf (K : zkeys) : bool :=
  (length (zk_piece K) =? 64)%nat && forallb (fun r => (length r =? 12)%nat) (zk_piece K)
  && (length (zk_castling K) =? 4)%nat && (length (zk_ep K) =? 8)%nat.

Fixpoint pairwise_distinct (l : list N) : bool :=
  match l with [] => true | x :: t => forallb (fun y => negb (x =? y)) t && pairwise_distinct t end.
Definition all_nonzero (l : list N) : bool := forallb (fun k => negb (k =? 0)) l.

Definition sel (b : bool) (k : N) : N := if b then k else 0.
Definition castle_subb (K : zkeys) (b0 b1 b2 b3 : bool) : N :=
  let k i := nth i (zk_castling K) 0 in
  N.lxor (N.lxor (N.lxor (sel b0 (k 0%nat)) (sel b1 (k 1%nat))) (sel b2 (k 2%nat))) (sel b3 (k 3%nat)).
Definition bools : list bool := [true; false].
Definition quads : list (bool * bool * bool * bool) :=
  flat_map (fun a => flat_map (fun b => flat_map (fun c => map (fun d => (a, b, c, d)) bools) bools) bools) bools.

(* every piece-square key non-zero, the 12 keys of a square pairwise distinct; side key non-zero;
   the xor of every non-empty subset of the 4 castling keys non-zero; the 8 en-passant keys non-zero and
   pairwise distinct *)
Definition keys_distinct (K : zkeys) : bool :=
  forallb (fun row => all_nonzero row && pairwise_distinct row) (zk_piece K)
  && negb (zk_side K =? 0)
  && forallb (fun q => let '(a, b, c, d) := q in negb (a || b || c || d) || negb (castle_subb K a b c d =? 0)) quads
  && all_nonzero (zk_ep K) && pairwise_distinct (zk_ep K).

Lemma pairwise_distinct_nth l : forall i j a b, pairwise_distinct l = true -> i <> j ->
  nth_error l i = Some a -> nth_error l j = Some b -> a <> b.
Proof.
  induction l as [|x l IH]; intros i j a b P Hij Ha Hb; [destruct i; discriminate|].
  cbn [pairwise_distinct] in P. apply andb_true_iff in P. destruct P as [P1 P2]. rewrite forallb_forall in P1.
  destruct i, j; cbn in Ha, Hb; try congruence.
  - injection Ha as <-. apply nth_error_In in Hb. apply P1 in Hb. apply negb_true_iff, N.eqb_neq in Hb. exact Hb.
  - injection Hb as <-. apply nth_error_In in Ha. apply P1 in Ha. apply negb_true_iff, N.eqb_neq in Ha. congruence.
  - apply (IH i j a b); auto.
Qed.
Lemma all_nonzero_nth l i a : all_nonzero l = true -> nth_error l i = Some a -> a <> 0.
Proof.
  unfold all_nonzero. rewrite forallb_forall. intros H Ha. apply nth_error_In in Ha. apply H in Ha.
  now apply negb_true_iff, N.eqb_neq in Ha.
Qed.

Lemma list_eq_nth_error {A} (l1 l2 : list A) : (forall i, nth_error l1 i = nth_error l2 i) -> l1 = l2.
Proof.
  revert l2. induction l1 as [|a l1 IH]; intros l2 H; destruct l2 as [|b l2]; auto.
  - specialize (H 0%nat). discriminate.
  - specialize (H 0%nat). discriminate.
  - f_equal. { specialize (H 0%nat). now injection H. } apply IH. intros i. apply (H (S i)).
Qed.

Lemma valid_piece_spec pc : valid_piece pc = true ->
  piece_color pc < 2 /\ piece_type pc < 6 /\ pc <> NO_PIECE /\ new_piece (piece_color pc) (piece_type pc) = pc.
Proof.
  unfold valid_piece. intros H.
  assert (pc = 1 \/ pc = 2 \/ pc = 3 \/ pc = 4 \/ pc = 5 \/ pc = 6 \/ pc = 9 \/ pc = 10 \/ pc = 11 \/ pc = 12 \/
          pc = 13 \/ pc = 14) as C by lia.
  repeat (destruct C as [-> | C]); try subst pc; vm_compute; repeat split; discriminate.
Qed.

Lemma land_pow2_testbit cs i : (N.land cs (2 ^ i) =? 0) = negb (N.testbit cs i).
Proof.
  destruct (N.testbit cs i) eqn:T; cbn [negb].
  - apply N.eqb_neq. intros Z. assert (N.testbit (N.land cs (2 ^ i)) i = false) by (rewrite Z; apply N.bits_0).
    rewrite N.land_spec, T, N.pow2_bits_true in H. discriminate.
  - apply N.eqb_eq. apply N.bits_inj; unfold N.eqf; intro n. rewrite N.land_spec, N.bits_0, N.pow2_bits_eqb.
    destruct (i =? n) eqn:E; [apply N.eqb_eq in E; subst; now rewrite T | apply andb_false_r].
Qed.

Lemma file_of_lt e : file_of e < 8.
Proof. unfold file_of. change 7 with (N.ones 3). rewrite N.land_ones. apply N.mod_lt. discriminate. Qed.

Section Distinct.
Variable K : zkeys.
Hypothesis WF : keys_wf K = true.

Lemma keys_wf_spec :
  length (zk_piece K) = 64%nat /\ (forall r, In r (zk_piece K) -> length r = 12%nat) /\
  length (zk_castling K) = 4%nat /\ length (zk_ep K) = 8%nat.
Proof.
  unfold keys_wf in WF. rewrite !andb_true_iff, !Nat.eqb_eq, forallb_forall in WF.
  destruct WF as [[[W1 W2] W3] W4]. repeat split; auto. intros r Hr. apply Nat.eqb_eq. auto.
Qed.

Lemma key_piece_total sq c t : sq < 64 -> c < 2 -> t < 6 ->
  exists row k, nth_error (zk_piece K) (N.to_nat sq) = Some row /\
                nth_error row (N.to_nat (c * 6 + t)) = Some k /\ key_piece K sq c t = Ok k.
Proof.
  intros Hs Hc Ht. destruct keys_wf_spec as (W1 & W2 & _).
  destruct (nth_error (zk_piece K) (N.to_nat sq)) as [row|] eqn:E1.
  2:{ apply nth_error_None in E1. lia. }
  pose proof (W2 _ (nth_error_In _ _ E1)) as Lr.
  destruct (nth_error row (N.to_nat (c * 6 + t))) as [k|] eqn:E2.
  2:{ apply nth_error_None in E2. lia. }
  exists row, k. repeat split; auto. unfold key_piece, nth_res, bb_index. rewrite E1. cbn [bind].
  assert ((c <? 2) && (t <? 6) = true) as -> by lia. cbn [bind]. now rewrite E2.
Qed.

Definition sq_ok (pc : N) : bool := (pc =? 0) || valid_piece pc.

Lemma pc_key_total sq pc : sq < 64 -> sq_ok pc = true -> exists k, pc_key K sq pc = Ok k.
Proof.
  intros Hs Hv. unfold pc_key. destruct (pc =? NO_PIECE) eqn:E; eauto.
  unfold sq_ok in Hv. change NO_PIECE with 0 in E. rewrite E in Hv. cbn [orb] in Hv.
  destruct (valid_piece_spec _ Hv) as (Hc & Ht & _).
  destruct (key_piece_total sq _ _ Hs Hc Ht) as (row & k & _ & _ & Hk). eauto.
Qed.

Lemma xfold_total {A} (g : A -> res N) l : (forall x, In x l -> exists k, g x = Ok k) ->
  forall a, exists h, xfold g l (Ok a) = Ok h.
Proof.
  induction l as [|x l IH]; intros H a; [cbn; eauto|].
  rewrite xfold_cons. destruct (H x (or_introl eq_refl)) as [k ->]. cbn [bind]. apply IH. intros; apply H. now right.
Qed.

Lemma board_hash_total bd : forallb sq_ok bd = true -> exists b, board_hash K bd = Ok b.
Proof.
  intros H. unfold board_hash. apply xfold_total. intros [sq pc] Hin. cbn [fst snd].
  apply pc_key_total.
  - apply sq_list_in. eapply in_combine_l; eauto.
  - rewrite forallb_forall in H. apply H. eapply in_combine_r; eauto.
Qed.

Lemma key_castling_total i : (i < 4)%nat -> key_castling_idx K i = Ok (nth i (zk_castling K) 0).
Proof.
  intros Hi. destruct keys_wf_spec as (_ & _ & W3 & _). unfold key_castling_idx, nth_res.
  rewrite (nth_error_nth' _ 0) by lia. reflexivity.
Qed.

Definition rights (cs : N) : bool * bool * bool * bool :=
  (N.testbit cs 0, N.testbit cs 1, N.testbit cs 2, N.testbit cs 3).

Lemma castle_hash_sub cs :
  castle_hash K cs = Ok (castle_subb K (N.testbit cs 0) (N.testbit cs 1) (N.testbit cs 2) (N.testbit cs 3)).
Proof.
  rewrite castle_hash_unfold. unfold cpart.
  change WK with (2 ^ 0). change WQ with (2 ^ 1). change BK with (2 ^ 2). change BQ with (2 ^ 3).
  rewrite !land_pow2_testbit, !key_castling_total by lia. unfold castle_subb, sel.
  destruct (N.testbit cs 0), (N.testbit cs 1), (N.testbit cs 2), (N.testbit cs 3); cbn [negb bind];
    f_equal; rewrite ?N.lxor_0_l, ?N.lxor_0_r; reflexivity.
Qed.

Lemma ep_hash_total e : exists k, ep_hash K e = Ok k.
Proof.
  unfold ep_hash, key_ep. destruct (e =? SQ_NONE); eauto. apply nth_res_total.
  destruct keys_wf_spec as (_ & _ & _ & W4). pose proof (file_of_lt e). lia.
Qed.

Lemma board_wf_sq_ok p : board_wf p = true -> forallb sq_ok (board p) = true.
Proof. unfold board_wf. rewrite andb_true_iff. intros [_ H]. exact H. Qed.

(* with a well-formed key table the from-scratch hash of a well-formed board never fails *)
Theorem scratch_hash_total p : board_wf p = true -> exists h, scratch_hash K p = Ok h.
Proof.
  intros B. rewrite scratch_hash_nf. unfold hash_nf.
  destruct (board_hash_total _ (board_wf_sq_ok _ B)) as [b ->]. rewrite castle_hash_sub.
  destruct (ep_hash_total (ep p)) as [k ->]. cbn [bind]. eauto.
Qed.

Hypothesis DI : keys_distinct K = true.

Lemma keys_distinct_spec :
  (forall row, In row (zk_piece K) -> all_nonzero row = true /\ pairwise_distinct row = true) /\
  zk_side K <> 0 /\
  (forall a b c d, a || b || c || d = true -> castle_subb K a b c d <> 0) /\
  all_nonzero (zk_ep K) = true /\ pairwise_distinct (zk_ep K) = true.
Proof.
  unfold keys_distinct in DI. rewrite !andb_true_iff in DI. destruct DI as [[[[D1 D2] D3] D4] D5].
  repeat split; auto.
  - rewrite forallb_forall in D1. apply D1 in H. now apply andb_true_iff in H.
  - rewrite forallb_forall in D1. apply D1 in H. now apply andb_true_iff in H.
  - now apply negb_true_iff, N.eqb_neq in D2.
  - intros a b c d H. rewrite forallb_forall in D3.
    assert (Hin : In (a, b, c, d) quads) by (destruct a, b, c, d; cbn; tauto).
    apply D3 in Hin. rewrite H in Hin. cbn [negb orb] in Hin. now apply negb_true_iff, N.eqb_neq in Hin.
Qed.

(* (i) one square *)
Lemma pc_key_inj sq a b ka kb : sq < 64 -> sq_ok a = true -> sq_ok b = true -> a <> b ->
  pc_key K sq a = Ok ka -> pc_key K sq b = Ok kb -> ka <> kb.
Proof.
  intros Hs Va Vb Hab Ha Hb. destruct keys_distinct_spec as (D1 & _).
  assert (NZ : forall pc k, valid_piece pc = true -> pc_key K sq pc = Ok k ->
            exists row, In row (zk_piece K) /\ nth_error row (N.to_nat (piece_color pc * 6 + piece_type pc)) = Some k).
  { intros pc k V Hk. destruct (valid_piece_spec _ V) as (Hc & Ht & Hn & _).
    destruct (key_piece_total sq _ _ Hs Hc Ht) as (row & k' & R1 & R2 & R3).
    unfold pc_key in Hk. apply N.eqb_neq in Hn. rewrite Hn, R3 in Hk. injection Hk as <-.
    exists row. split; auto. eapply nth_error_In; eauto. }
  unfold sq_ok in Va, Vb. destruct (a =? 0) eqn:Ea, (b =? 0) eqn:Eb; cbn [orb] in Va, Vb.
  - apply N.eqb_eq in Ea, Eb. congruence.
  - apply N.eqb_eq in Ea. subst a. cbn in Ha. injection Ha as <-.
    destruct (NZ _ _ Vb Hb) as (row & Hr & Hn). destruct (D1 _ Hr) as [Z _]. intros e. symmetry in e. revert e.
    eapply all_nonzero_nth; eauto.
  - apply N.eqb_eq in Eb. subst b. cbn in Hb. injection Hb as <-.
    destruct (NZ _ _ Va Ha) as (row & Hr & Hn). destruct (D1 _ Hr) as [Z _]. eapply all_nonzero_nth; eauto.
  - destruct (valid_piece_spec _ Va) as (Hc & Ht & _ & Ra). destruct (valid_piece_spec _ Vb) as (Hc' & Ht' & _ & Rb).
    destruct (key_piece_total sq _ _ Hs Hc Ht) as (row & k1 & R1 & R2 & R3).
    destruct (key_piece_total sq _ _ Hs Hc' Ht') as (row' & k2 & R1' & R2' & R3').
    rewrite R1 in R1'. injection R1' as <-.
    unfold pc_key in Ha, Hb. change NO_PIECE with 0 in *. rewrite Ea, R3 in Ha. rewrite Eb, R3' in Hb.
    injection Ha as <-. injection Hb as <-.
    destruct (D1 row (nth_error_In _ _ R1)) as [_ PD].
    refine (pairwise_distinct_nth row _ _ _ _ PD _ R2 R2'). intros e.
    assert (piece_color a = piece_color b /\ piece_type a = piece_type b) as [e1 e2] by lia.
    apply Hab. rewrite <- Ra, <- Rb, e1, e2. reflexivity.
Qed.

Definition differ_one_square (bd1 bd2 : list N) : Prop :=
  exists sq, (sq < 64)%nat /\ nth_error bd1 sq <> nth_error bd2 sq /\
             forall i, i <> sq -> nth_error bd1 i = nth_error bd2 i.

Lemma board_hash_differs bd1 bd2 b1 b2 :
  length bd1 = 64%nat -> length bd2 = 64%nat -> forallb sq_ok bd1 = true -> forallb sq_ok bd2 = true ->
  differ_one_square bd1 bd2 -> board_hash K bd1 = Ok b1 -> board_hash K bd2 = Ok b2 -> b1 <> b2.
Proof.
  intros L1 L2 V1 V2 (sq & Hsq & Hd & Hrest) B1 B2.
  destruct (nth_error bd1 sq) as [old|] eqn:E1. 2:{ apply nth_error_None in E1. lia. }
  destruct (nth_error bd2 sq) as [v|] eqn:E2. 2:{ apply nth_error_None in E2. lia. }
  assert (Hne : old <> v) by congruence.
  assert (Hupd : bd2 = upd bd1 sq v).
  { apply list_eq_nth_error. intros i. destruct (Nat.eq_dec sq i) as [<-|n].
    - rewrite nth_error_upd_same by lia. exact E2.
    - rewrite nth_error_upd_other by auto. symmetry. apply Hrest. auto. }
  rewrite forallb_forall in V1, V2.
  pose proof (V1 _ (nth_error_In _ _ E1)) as Vo. pose proof (V2 _ (nth_error_In _ _ E2)) as Vv.
  assert (Hs : N.of_nat sq < 64) by lia.
  destruct (pc_key_total _ _ Hs Vo) as [ko Ko]. destruct (pc_key_total _ _ Hs Vv) as [kv Kv].
  pose proof (pc_key_inj _ _ _ _ _ Hs Vo Vv Hne Ko Kv) as Hk.
  rewrite <- (Nat2N.id sq) in E1, Hupd.
  rewrite Hupd, (board_hash_upd K _ _ _ _ _ _ _ Hs E1 Ko Kv B1) in B2. injection B2 as <-.
  intros e. apply Hk. apply N.lxor_eq. rewrite <- (N.lxor_nilpotent b1). rewrite e at 2. xor_solve.
Qed.

(* (iii) the castling rights *)
Lemma sel_xor a b k : N.lxor (sel a k) (sel b k) = sel (xorb a b) k.
Proof. destruct a, b; cbn; rewrite ?N.lxor_nilpotent, ?N.lxor_0_l, ?N.lxor_0_r; reflexivity. Qed.

Lemma castle_subb_xor a b c d a' b' c' d' :
  N.lxor (castle_subb K a b c d) (castle_subb K a' b' c' d') = castle_subb K (xorb a a') (xorb b b') (xorb c c') (xorb d d').
Proof.
  unfold castle_subb. cbv zeta. rewrite <- !sel_xor.
  generalize (nth 0 (zk_castling K) 0) (nth 1 (zk_castling K) 0) (nth 2 (zk_castling K) 0) (nth 3 (zk_castling K) 0).
  intros k0 k1 k2 k3.
  generalize (sel a k0) (sel b k1) (sel c k2) (sel d k3) (sel a' k0) (sel b' k1) (sel c' k2) (sel d' k3). intros.
  xor_solve.
Qed.

Lemma rights_differ cs1 cs2 : cs1 < 16 -> cs2 < 16 -> cs1 <> cs2 -> rights cs1 <> rights cs2.
Proof.
  intros H1 H2 Hne E. apply Hne. unfold rights in E. injection E as E0 E1 E2 E3.
  apply N.bits_inj; unfold N.eqf; intro n.
  destruct (N.lt_ge_cases n 4) as [Hn|Hn].
  - assert (n = 0 \/ n = 1 \/ n = 2 \/ n = 3) as [-> | [-> | [-> | ->]]] by lia; auto.
  - transitivity false; [|symmetry].
    + destruct (N.testbit cs1 n) eqn:T; auto. apply (testbit_bound cs1 4) in T; [lia|exact H1].
    + destruct (N.testbit cs2 n) eqn:T; auto. apply (testbit_bound cs2 4) in T; [lia|exact H2].
Qed.

Lemma castle_hash_differs cs1 cs2 c1 c2 :
  rights cs1 <> rights cs2 -> castle_hash K cs1 = Ok c1 -> castle_hash K cs2 = Ok c2 -> c1 <> c2.
Proof.
  rewrite !castle_hash_sub. intros R E1 E2. injection E1 as <-. injection E2 as <-.
  intros e. apply N.lxor_eq_0_iff in e. rewrite castle_subb_xor in e. revert e.
  destruct keys_distinct_spec as (_ & _ & D3 & _). apply D3.
  unfold rights in R.
  destruct (N.testbit cs1 0), (N.testbit cs1 1), (N.testbit cs1 2), (N.testbit cs1 3),
           (N.testbit cs2 0), (N.testbit cs2 1), (N.testbit cs2 2), (N.testbit cs2 3); cbn; auto;
    exfalso; apply R; reflexivity.
Qed.

(* (iv) the en-passant file *)
Lemma ep_hash_differs e1 e2 k1 k2 :
  ep_file e1 <> ep_file e2 -> ep_hash K e1 = Ok k1 -> ep_hash K e2 = Ok k2 -> k1 <> k2.
Proof.
  destruct keys_distinct_spec as (_ & _ & _ & D4 & D5).
  unfold ep_file, ep_hash, key_ep. intros Hne H1 H2.
  destruct (e1 =? SQ_NONE), (e2 =? SQ_NONE).
  - congruence.
  - injection H1 as <-. apply nth_res_ok in H2. intros e. symmetry in e. revert e. eapply all_nonzero_nth; eauto.
  - injection H2 as <-. apply nth_res_ok in H1. eapply all_nonzero_nth; eauto.
  - apply nth_res_ok in H1, H2. refine (pairwise_distinct_nth _ _ _ _ _ D5 _ H1 H2). intros e. apply Hne. f_equal. lia.
Qed.

(* (ii) the side *)
Lemma side_key_differs s1 s2 : (s1 = WHITE \/ s1 = BLACK) -> (s2 = WHITE \/ s2 = BLACK) -> s1 <> s2 ->
  side_key K s1 <> side_key K s2.
Proof.
  destruct keys_distinct_spec as (_ & D2 & _).
  intros [-> | ->] [-> | ->] Hne; try congruence; unfold side_key; cbn; congruence.
Qed.

(* Two positions whose descriptions differ in exactly ONE component.
   (Pairwise distinctness of ARBITRARY positions is false for any 64-bit hash - there are far more
   than 2^64 positions - and is not claimed: the property asks for it on explored pairs only, which
   is what the differential check measures.) *)
Definition pos_wf (p : position) : Prop :=
  board_wf p = true /\ (side p = WHITE \/ side p = BLACK) /\ castling p < 16.

Definition differ_in_one_component (p1 p2 : position) : Prop :=
  (differ_one_square (board p1) (board p2) /\ side p1 = side p2 /\ castling p1 = castling p2 /\
     ep_file (ep p1) = ep_file (ep p2)) \/
  (board p1 = board p2 /\ side p1 <> side p2 /\ castling p1 = castling p2 /\ ep_file (ep p1) = ep_file (ep p2)) \/
  (board p1 = board p2 /\ side p1 = side p2 /\ castling p1 <> castling p2 /\ ep_file (ep p1) = ep_file (ep p2)) \/
  (board p1 = board p2 /\ side p1 = side p2 /\ castling p1 = castling p2 /\ ep_file (ep p1) <> ep_file (ep p2)).

Theorem one_component_differs p1 p2 :
  pos_wf p1 -> pos_wf p2 -> differ_in_one_component p1 p2 -> scratch_hash K p1 <> scratch_hash K p2.
Proof.
  intros (B1 & S1 & C1) (B2 & S2 & C2) D.
  destruct (scratch_hash_total _ B1) as [h1 H1]. destruct (scratch_hash_total _ B2) as [h2 H2].
  rewrite H1, H2. intros e. injection e as e. subst h2.
  rewrite scratch_hash_nf in H1, H2. apply hash_nf_ok in H1, H2.
  destruct H1 as (b1 & c1 & k1 & X1 & X2 & X3 & X4). destruct H2 as (b2 & c2 & k2 & Y1 & Y2 & Y3 & Y4).
  rewrite X4 in Y4. clear X4.
  destruct D as [(D1 & D2 & D3 & D4) | [(D1 & D2 & D3 & D4) | [(D1 & D2 & D3 & D4) | (D1 & D2 & D3 & D4)]]].
  - rewrite <- D2, <- D3 in *. rewrite <- (ep_hash_file K _ _ D4) in Y3.
    assert (c1 = c2) by congruence. assert (k1 = k2) by congruence. subst c2 k2.
    apply lxor_cancel_r, lxor_cancel_r, lxor_cancel_r in Y4. revert Y4.
    exact (board_hash_differs _ _ _ _ (board_wf_len _ B1) (board_wf_len _ B2) (board_wf_sq_ok _ B1)
             (board_wf_sq_ok _ B2) D1 X1 Y1).
  - rewrite <- D1, <- D3 in *. rewrite <- (ep_hash_file K _ _ D4) in Y3.
    assert (b1 = b2) by congruence. assert (c1 = c2) by congruence. assert (k1 = k2) by congruence. subst b2 c2 k2.
    apply lxor_cancel_r, lxor_cancel_r in Y4. rewrite !(N.lxor_comm b1) in Y4. apply lxor_cancel_r in Y4. revert Y4.
    apply side_key_differs; auto.
  - rewrite <- D1, <- D2 in *. rewrite <- (ep_hash_file K _ _ D4) in Y3.
    assert (b1 = b2) by congruence. assert (k1 = k2) by congruence. subst b2 k2.
    apply lxor_cancel_r in Y4. rewrite !(N.lxor_comm (N.lxor b1 _)) in Y4. apply lxor_cancel_r in Y4. revert Y4.
    eapply castle_hash_differs; eauto. apply rights_differ; auto.
  - rewrite <- D1, <- D2, <- D3 in *.
    assert (b1 = b2) by congruence. assert (c1 = c2) by congruence. subst b2 c2.
    rewrite !(N.lxor_comm (N.lxor (N.lxor b1 _) _)) in Y4. apply lxor_cancel_r in Y4. revert Y4.
    eapply ep_hash_differs; eauto.
Qed.

End Distinct.

(* a null move made and taken back: hash consistent in between, the position (every field, ply and
   hash included) restored afterwards *)
Theorem null_move_roundtrip K p q e :
  Inv p -> hash_ok K p -> make_null_move K p = Ok (q, e) ->
  hash_ok K q /\ unmake_null_move K q e = Ok p.
Proof. intros I H M. split; [eapply null_hash_ok; eauto | eapply unmake_null_roundtrip_inv; eauto]. Qed.
