(* The move words the generator produces carry no score bits: under the C10 invariant every
   generated move is below 2^16 (source, target, kind, promotion piece only).  Used by C04 to
   state "generated up to score bits" as membership of the move proper. *)
From Coq Require Import NArith List Bool Lia.
From Clemens Require Import Base.Res Base.Word Pos.Types Att.Attacks Pos.Position Pos.Inv Pos.CapturesProofs.
Import ListNotations.
Open Scope N_scope.

Definition enc16_check (s t : N) : bool :=
  (mk_move s t <? 65536) && forallb (fun pt => mk_promo s t pt <? 65536) promo_types &&
  (mk_move_kind s t EN_PASSANT <? 65536).

Lemma enc16_all : forallb (fun s => forallb (enc16_check s) squares64) squares64 = true.
Proof. vm_compute. reflexivity. Qed.

Lemma enc16_ok (s t : N) : s < 64 -> t < 64 -> enc16_check s t = true.
Proof.
  intros Hs Ht. generalize enc16_all. rewrite forallb_forall. intros H.
  specialize (H s (in_squares64 s Hs)). rewrite forallb_forall in H.
  exact (H t (in_squares64 t Ht)).
Qed.

Lemma castle16_all :
  forallb (fun s => forallb (fun t => castle_mv s t <? 65536) (map N.of_nat (seq 0 256))) squares64 = true.
Proof. vm_compute. reflexivity. Qed.

Lemma castle16_ok (s t : N) : s < 64 -> t < 256 -> castle_mv s t < 65536.
Proof.
  intros Hs Ht. generalize castle16_all. rewrite forallb_forall. intros H.
  specialize (H s (in_squares64 s Hs)). rewrite forallb_forall in H.
  apply N.ltb_lt. apply H. apply (in_Nrange 256 t). exact Ht.
Qed.

Lemma mk_move_16 (s t : N) : s < 64 -> t < 64 -> mk_move s t < 65536.
Proof.
  intros Hs Ht. pose proof (enc16_ok s t Hs Ht) as H. unfold enc16_check in H.
  apply andb_true_iff in H. destruct H as [H _]. apply andb_true_iff in H. destruct H as [H _].
  apply N.ltb_lt. exact H.
Qed.
Lemma mk_promo_16 (s t pt : N) : s < 64 -> t < 64 -> In pt promo_types -> mk_promo s t pt < 65536.
Proof.
  intros Hs Ht Hpt. pose proof (enc16_ok s t Hs Ht) as H. unfold enc16_check in H.
  apply andb_true_iff in H. destruct H as [H _]. apply andb_true_iff in H. destruct H as [_ H].
  rewrite forallb_forall in H. apply N.ltb_lt. exact (H pt Hpt).
Qed.
Lemma mk_ep_16 (s t : N) : s < 64 -> t < 64 -> mk_move_kind s t EN_PASSANT < 65536.
Proof.
  intros Hs Ht. pose proof (enc16_ok s t Hs Ht) as H. unfold enc16_check in H.
  apply andb_true_iff in H. destruct H as [_ H]. apply N.ltb_lt. exact H.
Qed.

Lemma gen_helper_16 (srcs occ own : N) (att : N -> N -> N) :
  (forall s, In s (bits srcs) -> s < 64) ->
  forall m, In m (gen_helper srcs occ (not64 own) att) -> m < 65536.
Proof.
  intros Hsrc m Hm. unfold gen_helper in Hm.
  apply in_flat_map in Hm. destruct Hm as (s & Hs & Hm).
  apply in_map_iff in Hm. destruct Hm as (t & <- & Ht).
  apply bits_in in Ht. rewrite N.land_spec in Ht. apply andb_true_iff in Ht. destruct Ht as [_ Ht].
  apply not64_true in Ht. apply mk_move_16; [apply Hsrc; exact Hs|tauto].
Qed.

Lemma pawn_mwp_16 (stm s t m : N) :
  s < 64 -> t < 64 -> In m (pawn_move_with_promotion stm s t) -> m < 65536.
Proof.
  intros Hs Ht. unfold pawn_move_with_promotion.
  destruct ((stm =? WHITE) && negb (rank_of t =? 7)); [intros [<-|[]]; apply mk_move_16; assumption|].
  destruct ((stm =? BLACK) && negb (rank_of t =? 0)); [intros [<-|[]]; apply mk_move_16; assumption|].
  intros Hm. apply in_map_iff in Hm. destruct Hm as (pt & <- & Hpt). apply mk_promo_16; assumption.
Qed.

Lemma pawn_moves_16 (p : position) (pawns them : N) :
  (forall s, In s (bits pawns) -> s < 64) ->
  (forall t, N.testbit them t = true -> t < 64) ->
  (forall t, N.testbit (not64 (all_pieces p)) t = true -> t < 64) ->
  forall m, In m (pawn_moves p false pawns them) -> m < 65536.
Proof.
  intros Hsrc Hthem Hempty m Hm. unfold pawn_moves in Hm.
  apply in_flat_map in Hm. destruct Hm as (s & Hs & Hm). specialize (Hsrc s Hs).
  apply in_app_iff in Hm. destruct Hm as [Hm|Hm]; [|apply in_app_iff in Hm; destruct Hm as [Hm|Hm]].
  - apply in_flat_map in Hm. destruct Hm as (t & Ht & Hm).
    apply bits_in, pushes_empty, Hempty in Ht. exact (pawn_mwp_16 _ s t m Hsrc Ht Hm).
  - apply in_flat_map in Hm. destruct Hm as (t & Ht & Hm).
    apply bits_in in Ht. rewrite N.land_spec in Ht. apply andb_true_iff in Ht. destruct Ht as [_ Ht].
    apply Hthem in Ht. exact (pawn_mwp_16 _ s t m Hsrc Ht Hm).
  - destruct (negb (ep p =? SQ_NONE)); [|destruct Hm].
    apply in_map_iff in Hm. destruct Hm as (t & <- & Ht).
    apply bits_in in Ht. rewrite N.land_spec in Ht. apply andb_true_iff in Ht. destruct Ht as [_ Ht].
    apply bit_true in Ht. apply mk_ep_16; assumption.
Qed.

Lemma castling_moves_16 (p : position) (cm : list N) :
  facts p -> castling_moves p = Ok cm -> forall m, In m cm -> m < 65536.
Proof.
  intros F. unfold castling_moves.
  set (body := fun (acc : res (list N)) (c : N) => bind acc _).
  assert (Hstep : forall acc c l1,
            (forall l, acc = Ok l -> forall m, In m l -> m < 65536) ->
            body acc c = Ok l1 -> forall m, In m l1 -> m < 65536).
  { intros acc c l1 Hacc. unfold body. intros H.
    apply bind_ok in H. destruct H as (l & -> & H). specialize (Hacc l eq_refl).
    destruct (negb (castling_color c =? side p)); [injection H as <-; exact Hacc|].
    apply bind_ok in H. destruct H as (ok & Hok & H).
    destruct ok; cbn [negb] in H; [|injection H as <-; exact Hacc].
    apply bind_ok in H. destruct H as (kb & Hkb & H).
    apply bind_ok in H. destruct H as (src & Hsrc & H).
    injection H as <-.
    assert (Hs64 : src < 64).
    { apply (get_bb_bits_lt p F (side p) KING kb src (side_lt p F) eq_refl Hkb).
      apply bits_in, lsb_testbit. exact Hsrc. }
    intros m Hm. apply in_app_iff in Hm. destruct Hm as [Hm|[<-|[]]]; [apply Hacc; exact Hm|].
    change (castle_mv src (if castling_is_queen_side c then sub8 src 2 else add8 src 2) < 65536).
    apply castle16_ok; [exact Hs64|].
    destruct (castling_is_queen_side c); unfold sub8, add8; apply N.mod_lt; discriminate. }
  clearbody body.
  assert (Hfold : forall cl acc l1,
            (forall l, acc = Ok l -> forall m, In m l -> m < 65536) ->
            fold_left body cl acc = Ok l1 -> forall m, In m l1 -> m < 65536).
  { induction cl as [|c cl IH]; intros acc l1 Hacc H; cbn [fold_left] in H.
    - apply Hacc. exact H.
    - apply (IH (body acc c) l1); [|exact H]. intros l Hl. apply (Hstep acc c l Hacc Hl). }
  intros H. apply (Hfold [WK; WQ; BK; BQ] (Ok []) cm); [|exact H].
  intros l E. injection E as <-. intros m [].
Qed.

Theorem gen_moves_low16_facts (p : position) (g : list N) :
  facts p -> gen_moves p = Ok g -> Forall (fun m => m < 65536) g.
Proof.
  intros F Hm.
  unfold gen_moves in Hm. cbv zeta in Hm.
  inv_binds. injection Hm as <-.
  pose proof (side_lt p F) as Hside. pose proof (switch_lt p F) as Hsw.
  match goal with H : color_bb p (side p) = Ok ?x |- _ =>
    apply (color_bb_union p F) in H; [|assumption]; subst x end.
  match goal with H : color_bb p (switch_color (side p)) = Ok ?x |- _ =>
    apply (color_bb_union p F) in H; [|assumption]; subst x end.
  assert (Hsrc : forall ty x, ty < 6 -> get_bb p (side p) ty = Ok x -> forall s, In s (bits x) -> s < 64).
  { intros ty x Hty Hx s Hs. eapply (get_bb_bits_lt p F (side p)); eauto. }
  apply Forall_forall. intros m Hin.
  repeat (apply in_app_iff in Hin; destruct Hin as [Hin|Hin]).
  - eapply gen_helper_16; [|exact Hin]. eapply Hsrc; [|eassumption]; reflexivity.
  - eapply gen_helper_16; [|exact Hin]. eapply Hsrc; [|eassumption]; reflexivity.
  - eapply gen_helper_16; [|exact Hin]. eapply Hsrc; [|eassumption]; reflexivity.
  - eapply gen_helper_16; [|exact Hin]. eapply Hsrc; [|eassumption]; reflexivity.
  - eapply pawn_moves_16; [| | |exact Hin].
    + eapply Hsrc; [|eassumption]; reflexivity.
    + intros t Ht. apply (them_bit p F) in Ht. tauto.
    + intros t Ht. apply (empty_bit p F) in Ht. tauto.
  - eapply castling_moves_16; eauto.
  - eapply gen_helper_16; [|exact Hin]. eapply Hsrc; [|eassumption]; reflexivity.
Qed.

Theorem gen_moves_low16 (p : position) (g : list N) :
  Inv p -> gen_moves p = Ok g -> Forall (fun m => m < 65536) g.
Proof. intros HI. apply gen_moves_low16_facts, inv_facts, HI. Qed.
