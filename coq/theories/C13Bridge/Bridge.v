(* C13 bridge: the universe of positions asked for by [C13_universe] is exhibited as
   [legal_pos p := Inv p /\ material_ok p = true] (C10's invariant and C15's material predicate).
   Closure under the moves the search makes comes from C10 ([gen_step_nocheck], [null_inv]), C17
   (captures are generated moves) and C15 ([material_step_from_C10]); sanity of the evaluation from
   C15 ([eval_safe]).  What remains of [C13_universe] is the no-collision clause.

   FINDING.  With U := legal_pos the no-collision clause ("no legal_pos position shares its hash with a
   checkmated successor of the root unless it is checkmated") is REFUTABLE for every root that has a
   mating move ([no_collision_all_refuted]): the invariant does not constrain the [hash] field, so the
   start position with its hash field overwritten is a counter-example.  [universe_from_invariant] is
   therefore true but useless.  The hypothesis that works is stated over the smallest universe, the
   positions the search can visit from the root ([visited]); it is implied by the collision clause of
   every other universe ([no_collision_weakest]). *)
From Coq Require Import NArith ZArith List Bool FMapPositive Lia String.
From Clemens Require Import Base.Res Base.Word Pos.Types Att.Attacks Pos.Position Pos.Inv Pos.GenWords
     Pos.ZobristProofs Pos.CapturesProofs Eval.Eval
     Search.TT Search.Ordering Search.OrderingProofs Search.Negamax Search.SearchStruct Search.SearchLines
     Search.SearchIter Search.GoInst.
From Clemens.C10Inv Require Import InvStep InvTotal InvReach.
From Clemens.C15Bound Require Import Material Play Bound.
From Clemens.C13Mate Require Import MateDefs MateChild MateSane MateLoop MateQ MateRange MateNega MateRoot MateRoot2
     MateIter MateMain MateExamples.
Import ListNotations.
Open Scope Z_scope.

(* ------------------------------------------------------------------ the universe *)
(* a position of legal chess as far as the engine can see: C10's invariant and C15's material predicate *)
Definition legal_pos (p : position) : Prop := Inv p /\ material_ok p = true.
(* it is an executable check *)
Definition legal_pos_b (p : position) : bool := inv_b p && material_ok p.
Lemma legal_pos_b_sound : forall p, legal_pos_b p = true -> legal_pos p.
Proof. intros p H. apply andb_true_iff in H. exact H. Qed.

(* the no-collision clause of [C13_universe] for U := legal_pos (refuted below) *)
Definition no_collision_all (root : position) : Prop :=
  forall p, legal_pos p -> mate_hash go_keys root (hash p) -> mated go_keys p.

(* the positions the search can visit from [root]: the smallest set closed under the moves the search
   makes (generated moves and captures that pass the legality test, null moves when not in check) *)
Inductive visited (K : zkeys) (root : position) : position -> Prop :=
| visited_root : visited K root root
| visited_move : forall p m q,
    visited K root p -> movable p m -> make_move K p m = Ok q -> is_legal q = Ok true -> visited K root q
| visited_null : forall p q x,
    visited K root p -> is_in_check p (side p) = Ok false -> make_null_move K p = Ok (q, x) -> visited K root q.

(* the clause that cannot be proved (the hash has 64 bits): no position the search can visit from
   [root1] shares its hash with a checkmated successor of [root] unless it is checkmated itself *)
Definition no_collision_from (root1 root : position) : Prop :=
  forall p, visited go_keys root1 p -> mate_hash go_keys root (hash p) -> mated go_keys p.
Definition no_collision (root : position) : Prop := no_collision_from root root.

(* ------------------------------------------------------------------ closure, any keys *)
Section Closure.
Variable K : zkeys.

(* every move the search makes is, as far as [make_move] can tell, a move of the full generator *)
Lemma movable_generated : forall p m, Inv p -> movable p m ->
  exists g m0, gen_moves p = Ok g /\ In m0 g /\ make_move K p m = make_move K p m0.
Proof.
  intros p m HI (g & m0 & Hg & Hin & E).
  assert (Hmk : make_move K p m = make_move K p m0)
    by (rewrite <- (make_move_low K p m), E, make_move_low; reflexivity).
  destruct Hg as [Hg|Hc].
  - exists g, m0. auto.
  - destruct (gen_moves_total p HI) as (ms & Hms).
    pose proof (captures_same_order p ms g HI Hms Hc) as Ec. subst g.
    apply filter_In in Hin. destruct Hin as [Hin _]. exists ms, m0. auto.
Qed.

Lemma legal_pos_move : forall p m q,
  legal_pos p -> movable p m -> make_move K p m = Ok q -> is_legal q = Ok true -> legal_pos q.
Proof.
  intros p m q [HI HM] Hmv Hmk Hleg.
  destruct (movable_generated p m HI Hmv) as (g & m0 & Hg & Hin & E). rewrite E in Hmk.
  pose proof (gen_step_nocheck K p g m0 q HI Hg Hin Hmk) as NC.
  split.
  - unfold Inv, inv_b. unfold inv_nocheck_b in NC. rewrite NC. cbn [andb].
    unfold mover_not_in_check. unfold is_legal in Hleg.
    destruct (is_in_check q (switch_color (side q))) as [b| |]; cbn [bind] in Hleg; try discriminate.
    injection Hleg as Hleg. destruct b; [discriminate|reflexivity].
  - exact (material_step_from_C10 (fun K0 => gen_step_nocheck K0) K p g m0 q HM HI Hg Hin Hmk).
Qed.

Lemma material_null : forall p q x, make_null_move K p = Ok (q, x) -> material_ok q = material_ok p.
Proof.
  intros p q x M. destruct (null_fields K _ _ _ M) as (_ & _ & _ & Hb & _).
  unfold material_ok, side_material_ok, men. rewrite Hb. reflexivity.
Qed.

Lemma legal_pos_null : forall p q x,
  legal_pos p -> is_in_check p (side p) = Ok false -> make_null_move K p = Ok (q, x) -> legal_pos q.
Proof.
  intros p q x [HI HM] Hc M. split.
  - eapply null_inv; eauto.
  - rewrite (material_null p q x M). exact HM.
Qed.
End Closure.

(* ------------------------------------------------------------------ evaluation, Go constants *)
Lemma go_econsts_same : Clemens.Eval.SeeInst.go_econsts = go_econsts.
Proof. reflexivity. Qed.

Lemma legal_pos_eval_sane : forall p, legal_pos p -> eval_sane_at go_econsts p.
Proof.
  intros p [HI HM]. split.
  - intros v Hv. destruct (eval_safe p HI HM) as (v' & E & _ & _ & Hs).
    rewrite go_econsts_same in E, Hs. rewrite E in Hv. injection Hv as <-. exact Hs.
  - intros v Hv. unfold contempt in Hv.
    destruct (is_endgame go_econsts p) as [e| |]; cbn [bind] in Hv; try discriminate.
    injection Hv as <-. destruct e; reflexivity.
Qed.

(* ------------------------------------------------------------------ 1. the universe, as requested *)
Theorem universe_from_invariant : forall root,
  legal_pos root ->
  (forall p, legal_pos p -> mate_hash go_keys root (hash p) -> mated go_keys p) ->
  C13_universe go_keys go_econsts root legal_pos.
Proof.
  intros root HR HN. unfold C13_universe.
  split; [exact HR|]. split; [exact (legal_pos_move go_keys)|]. split; [exact (legal_pos_null go_keys)|].
  split; [exact legal_pos_eval_sane|exact HN].
Qed.

(* all clauses but the last for arbitrary keys *)
Theorem universe_closed_any_keys : forall (K : zkeys) root,
  legal_pos root ->
  legal_pos root /\
  (forall p m q, legal_pos p -> movable p m -> make_move K p m = Ok q -> is_legal q = Ok true -> legal_pos q) /\
  (forall p q x, legal_pos p -> is_in_check p (side p) = Ok false -> make_null_move K p = Ok (q, x) -> legal_pos q) /\
  (forall p, legal_pos p -> eval_sane_at go_econsts p).
Proof.
  intros K root HR. split; [exact HR|]. split; [exact (legal_pos_move K)|]. split; [exact (legal_pos_null K)|].
  exact legal_pos_eval_sane.
Qed.

(* ... but its second hypothesis cannot be met when the root has a mating move: neither [Inv] nor
   [material_ok] reads the [hash] field, so the start position with the hash of the checkmated
   successor written into that field is a legal_pos position that is not checkmated. *)
Lemma start_any_hash : forall h,
  legal_pos (set_hash p_start h) /\ is_in_check (set_hash p_start h) (side (set_hash p_start h)) = Ok false.
Proof. intro h. split; [apply legal_pos_b_sound|]; vm_compute; reflexivity. Qed.

Lemma mating_gen_of : forall K root m0, mating K root m0 ->
  exists q, gen_of root m0 /\ make_move K root m0 = Ok q /\ mated K q.
Proof.
  intros K root m0 (l & q & Hl & Hin & Hmk & Hm). exists q.
  destruct (legal_moves_kept K root l (mv_low m0) Hl Hin) as (ms & _ & Hg & Hin' & _).
  split; [|split; assumption].
  exists ms, (mv_low m0). split; [exact Hg|]. split; [exact Hin'|].
  symmetry. apply lt16_low. apply mv_low_lt.
Qed.

Theorem no_collision_all_refuted : forall root,
  (exists m0, mating go_keys root m0) -> ~ no_collision_all root.
Proof.
  intros root (m0 & Hm0) HN.
  destruct (mating_gen_of go_keys root m0 Hm0) as (q & Hg & Hmk & Hm).
  destruct (start_any_hash (hash q)) as [HL HC].
  assert (HX : mated go_keys (set_hash p_start (hash q))).
  { apply HN; [exact HL|]. exists m0, q. split; [exact Hg|]. split; [exact Hmk|]. split; [exact Hm|reflexivity]. }
  destruct HX as [HX _]. rewrite HC in HX. discriminate.
Qed.

Corollary universe_from_invariant_vacuous : forall root,
  (exists m0, mating go_keys root m0) ->
  ~ C13_universe go_keys go_econsts root legal_pos.
Proof.
  intros root Hex (_ & _ & _ & _ & U5). exact (no_collision_all_refuted root Hex U5).
Qed.

(* ------------------------------------------------------------------ 1'. the universe that works *)
Section Visited.
Variable K : zkeys.

Lemma visited_legal : forall root p, legal_pos root -> visited K root p -> legal_pos p.
Proof.
  intros root p HR V. induction V as [|p m q V IH Hmv Hmk Hl|p q x V IH Hc Hn].
  - exact HR.
  - eapply legal_pos_move; eauto.
  - eapply legal_pos_null; eauto.
Qed.

(* the [hash] field of a visited position is its Zobrist hash if the root's is: the collision
   hypothesis speaks about genuine 64-bit Zobrist hashes *)
Lemma visited_hash_ok : forall root p,
  legal_pos root -> hash_ok K root -> visited K root p -> hash_ok K p.
Proof.
  intros root p HR HH V. induction V as [|p m q V IH Hmv Hmk Hl|p q x V IH Hc Hn].
  - exact HH.
  - destruct (visited_legal root p HR V) as [HI _].
    destruct (movable_generated K p m HI Hmv) as (g & m0 & Hg & Hin & E). rewrite E in Hmk.
    eapply make_move_hash_ok; eauto.
  - eapply null_hash_ok; eauto.
Qed.

(* [visited] is the least universe *)
Lemma visited_least : forall EC root (U : position -> Prop),
  C13_universe K EC root U -> forall p, visited K root p -> U p.
Proof.
  intros EC root U (U1 & U2 & U3 & _) p V. induction V as [|p m q V IH Hmv Hmk Hl|p q x V IH Hc Hn].
  - exact U1.
  - eapply U2; eauto.
  - eapply U3; eauto.
Qed.

Lemma visited_trans : forall root p q, visited K root p -> visited K p q -> visited K root q.
Proof.
  intros root p q V1 V2. induction V2 as [|p1 m q1 V IH Hmv Hmk Hl|p1 q1 x V IH Hc Hn].
  - exact V1.
  - eapply visited_move; eauto.
  - eapply visited_null; eauto.
Qed.
End Visited.

Theorem universe_visited : forall root,
  legal_pos root -> no_collision root ->
  C13_universe go_keys go_econsts root (visited go_keys root).
Proof.
  intros root HR HN. unfold C13_universe.
  split; [constructor|]. split; [intros; eapply visited_move; eauto|]. split; [intros; eapply visited_null; eauto|].
  split; [|exact HN].
  intros p V. apply legal_pos_eval_sane. eapply visited_legal; eauto.
Qed.

(* [no_collision root] is the weakest form of the hypothesis: the collision clause of any universe
   whatsoever implies it *)
Theorem no_collision_weakest : forall root (U : position -> Prop),
  C13_universe go_keys go_econsts root U -> no_collision root.
Proof.
  intros root U HU p V Hh. assert (Up : U p) by (eapply visited_least; eauto).
  destruct HU as (_ & _ & _ & _ & U5). apply U5; assumption.
Qed.

(* a later position of the same game inherits the hypothesis from an earlier one *)
Lemma no_collision_from_later : forall root1 root2 root,
  visited go_keys root1 root2 -> no_collision_from root1 root -> no_collision_from root2 root.
Proof. intros root1 root2 root V HN p Vp. apply HN. eapply visited_trans; eauto. Qed.

(* ------------------------------------------------------------------ 2. C13 over legal positions *)
Theorem C13_mate_in_one_legal : forall root iters fuel rep s req answer s',
  legal_pos root -> few_gen root ->
  (forall m q, gen_of root m -> make_move go_keys root m = Ok q -> few_gen q) ->
  (exists m0, mating go_keys root m0) ->
  no_collision root ->
  C13_state go_keys go_econsts root s ->
  (fuel <= 255)%nat -> (req <= 254)%N ->
  go_search iters fuel rep s root req = (ROk answer, s') ->
  mating go_keys root answer.
Proof.
  intros root iters fuel rep s req answer s' HR F1 F2 Hex HN HS Hf Hreq E.
  eapply (C13_go (visited go_keys root)); eauto.
  - split; [exact (proj1 HR)|]. auto.
  - apply universe_visited; assumption.
Qed.

(* a freshly started engine: empty table, empty cache, any cancellation point *)
Corollary C13_mate_in_one_fresh : forall root iters fuel rep c req answer s',
  legal_pos root -> few_gen root ->
  (forall m q, gen_of root m -> make_move go_keys root m = Ok q -> few_gen q) ->
  (exists m0, mating go_keys root m0) ->
  no_collision root ->
  (fuel <= 255)%nat -> (req <= 254)%N ->
  go_search iters fuel rep (go_empty_sst c) root req = (ROk answer, s') ->
  mating go_keys root answer.
Proof.
  intros root iters fuel rep c req answer s' HR F1 F2 Hex HN Hf Hreq E.
  eapply C13_mate_in_one_legal; eauto. apply empty_state_ok.
Qed.

(* ------------------------------------------------------------------ 5. the two example roots *)

Example root1_legal : legal_pos (root_of fen1).
Proof. apply legal_pos_b_sound. vm_compute. reflexivity. Qed.
Example root2_legal : legal_pos (root_of fen2).
Proof. apply legal_pos_b_sound. vm_compute. reflexivity. Qed.

(* the start position *)
Example start_legal : forall p, new_position go_keys = Ok p -> legal_pos p.
Proof.
  intros p H. split; [|eapply material_new_position; eauto].
  apply (reachable_inv go_keys). constructor. exact H.
Qed.

Print Assumptions universe_from_invariant.
Print Assumptions universe_closed_any_keys.
Print Assumptions no_collision_all_refuted.
Print Assumptions universe_from_invariant_vacuous.
Print Assumptions universe_visited.
Print Assumptions no_collision_weakest.
Print Assumptions C13_mate_in_one_legal.
Print Assumptions C13_mate_in_one_fresh.
Print Assumptions root1_legal.
Print Assumptions start_legal.
