(* C13 bridge: the hypothesis [few_gen] (fewer than 256 generated moves: the legal-move counter of the
   move loop is a uint8) and the invariant.

   NOT PROVED: [legal_pos p -> few_gen p].  A crude count does not close: [material_ok] allows nine
   queens, two rooks, two bishops, two knights and the king; taking for every man the best squares
   still free (queens 4 x 27 + 5 x 25, rooks 2 x 14, bishops 2 x 11, knights 2 x 8, king 8 + 2
   castling words) gives 309 > 255, and the bound by piece type alone (9 x 27 + ...) gives 321.  A proof
   has to account for the men blocking each other, i.e. it is the "maximum number of moves in a chess
   position" problem (the known maximum over the legal positions of chess is 218; an annealing search
   over [Inv] + [material_ok] positions outside Coq found nothing above 217 pseudo-legal moves).
   [few_gen] therefore stays a visible hypothesis; it is an executable check ([few_b], [few_children_b]
   of C13Mate/MateExamples.v).

   PROVED here:
   * the hypothesis holds, with [legal_pos], at the two classical 218-move positions
     ([max218_a], [max218_b]): 218 generated moves, all of them legal;
   * it does not follow from the invariant alone: [Inv] does not bound the material, and a position
     satisfying [Inv] with 271 generated (and legal) moves exists ([inv_alone_not_few]); so the
     material predicate (or the executable check) is needed. *)
From Coq Require Import NArith ZArith List Bool Lia String.
From Clemens Require Import Base.Res Base.Word Pos.Types Att.Attacks Pos.Position Pos.Inv Search.GoInst.
From Clemens.C15Bound Require Import Material.
From Clemens.C13Mate Require Import MateRange MateExamples.
From Clemens.C13Bridge Require Import Bridge.
Import ListNotations.

Definition gen_count (p : position) : option nat :=
  match gen_moves p with Ok g => Some (List.length g) | _ => None end.
Definition legal_count (p : position) : option nat :=
  match legal_moves go_keys p with Ok g => Some (List.length g) | _ => None end.

Lemma gen_count_few : forall p n, gen_count p = Some n -> (few_gen p <-> (n < 256)%nat).
Proof.
  intros p n H. unfold gen_count in H. destruct (gen_moves p) as [g| |] eqn:E; try discriminate.
  injection H as <-. split.
  - intros F. apply F. exact E.
  - intros L g' Hg'. rewrite E in Hg'. injection Hg' as <-. exact L.
Qed.

(* the two classical positions with 218 moves (Petrovic 1964) *)
Definition fen218a : string := "R6R/3Q4/1Q4Q1/4Q3/2Q4Q/Q4Q2/pp1Q4/kBNN1KB1 w - - 0 1".
Definition fen218b : string := "3Q4/1Q4Q1/4Q3/2Q4R/Q4Q2/3Q4/1Q4Rp/1K1BBNNk w - - 0 1".

Example max218_a :
  legal_pos (root_of fen218a) /\ gen_count (root_of fen218a) = Some 218%nat /\
  legal_count (root_of fen218a) = Some 218%nat /\ few_gen (root_of fen218a).
Proof.
  split; [apply legal_pos_b_sound; vm_compute; reflexivity|].
  split; [vm_compute; reflexivity|]. split; [vm_compute; reflexivity|].
  apply few_b_sound. vm_compute. reflexivity.
Qed.

Example max218_b :
  legal_pos (root_of fen218b) /\ gen_count (root_of fen218b) = Some 218%nat /\
  legal_count (root_of fen218b) = Some 218%nat /\ few_gen (root_of fen218b).
Proof.
  split; [apply legal_pos_b_sound; vm_compute; reflexivity|].
  split; [vm_compute; reflexivity|]. split; [vm_compute; reflexivity|].
  apply few_b_sound. vm_compute. reflexivity.
Qed.

(* the best position the annealing search found under [Inv] + [material_ok]: 217 generated moves *)
Definition fen217 : string := "kNNbBBKn/bpQ4R/4Q3/1Q4Q1/3Q4/Q4Q2/2Q4R/r3Q3 w - - 0 1".
Example found217 :
  legal_pos (root_of fen217) /\ gen_count (root_of fen217) = Some 217%nat /\
  legal_count (root_of fen217) = Some 216%nat.
Proof.
  split; [apply legal_pos_b_sound; vm_compute; reflexivity|]. split; vm_compute; reflexivity.
Qed.

(* [Inv] alone does not give [few_gen]: 42 white queens and the rest; Black's king is not attacked *)
Definition fen271 : string := "QQQQQQBk/Q5RB/Q6Q/Q6Q/Q6Q/Q6Q/Q6Q/KQQQQQQB w - - 0 1".

Theorem inv_alone_not_few :
  Inv (root_of fen271) /\ material_ok (root_of fen271) = false /\
  gen_count (root_of fen271) = Some 271%nat /\ legal_count (root_of fen271) = Some 271%nat /\
  ~ few_gen (root_of fen271).
Proof.
  assert (G : gen_count (root_of fen271) = Some 271%nat) by (vm_compute; reflexivity).
  split; [vm_compute; reflexivity|]. split; [vm_compute; reflexivity|]. split; [exact G|].
  split; [vm_compute; reflexivity|].
  intros F. apply (gen_count_few _ _ G) in F. lia.
Qed.

Corollary few_gen_not_from_inv : ~ (forall p, Inv p -> few_gen p).
Proof. intros H. destruct inv_alone_not_few as (I & _ & _ & _ & N). exact (N (H _ I)). Qed.

(* what is left open, as a statement *)
Definition few_gen_from_legal_pos_statement : Prop := forall p, legal_pos p -> few_gen p.

Print Assumptions max218_a.
Print Assumptions inv_alone_not_few.
Print Assumptions few_gen_not_from_inv.
