(* C13 bridge, sequences of searches: the two table conditions of [C13_state] (no usable table entry
   under the hash of a checkmated successor of [root], no mate value in the evaluation cache) are kept
   by a whole [search] from ANY position of the universe - not only from [root] - whatever it returns.
   Hence C13 holds for the n-th search of a session, whatever the earlier searches of the session were. *)
From Coq Require Import NArith ZArith List Bool FMapPositive Lia String.
From Clemens Require Import Base.Res Base.Word Pos.Types Att.Attacks Pos.Position Pos.Inv Eval.Eval
     Search.TT Search.Ordering Search.Negamax Search.SearchStruct Search.SearchLines
     Search.SearchIter Search.GoInst.
From Clemens.C13Mate Require Import MateDefs MateChild MateSane MateLoop MateQ MateRange MateNega MateRoot MateRoot2
     MateIter MateMain MateExamples.
From Clemens.C13Bridge Require Import Bridge.
Import ListNotations.
Open Scope Z_scope.

(* ------------------------------------------------------------------ any constants, any protected hashes *)
Section Keep.
Variable K : zkeys.
Variable EC : econsts.
Variable OC : oconsts.
Variable SC : sconsts.
Variable H : N -> Prop.
Variable U : position -> Prop.
Hypothesis U_move : forall p m q, U p -> movable p m -> make_move K p m = Ok q -> is_legal q = Ok true -> U q.
Hypothesis U_null : forall p q x, U p -> is_in_check p (side p) = Ok false -> make_null_move K p = Ok (q, x) -> U q.
Hypothesis U_eval : forall p, U p -> eval_sane_at EC p.
Hypothesis U_coll : forall p, U p -> H (hash p) -> mated K p.

Notation SaneH := (Sane EC H).

Lemma search_root_keeps : forall root fuel s d a b r s',
  U root -> SaneH s -> search_root K EC OC SC fuel s root d a b = (r, s') -> SaneH s'.
Proof.
  intros root fuel s d a b r s' Hu Hs E. unfold search_root in E.
  eapply (negamax_sane K EC OC SC H U U_move U_null U_eval U_coll); [exact Hu| |exact E]. exact Hs.
Qed.

Lemma search_iterative_keeps : forall root iters fuel rep md s d a b r s',
  U root -> SaneH s -> search_iterative K EC OC SC iters fuel rep s root md d a b = (r, s') -> SaneH s'.
Proof.
  intros root iters fuel rep md. induction iters as [|it IH]; intros s d a b r s' Hu Hs E.
  - cbn in E. inversion E; subst. exact Hs.
  - cbn [search_iterative] in E.
    destruct (md <? d)%N; [inversion E; subst; exact Hs|].
    pose proof (search_root_keeps root fuel s d a b) as Hk.
    destruct (search_root K EC OC SC fuel s root d a b) as [[[score line]| | |] s0] eqn:Hsr;
      specialize (Hk _ _ Hu Hs eq_refl).
    + match type of E with (if ?c then _ else _) = _ => destruct c end;
        (eapply IH; [exact Hu| |exact E]); exact Hk.
    + inversion E; subst. exact Hk.
    + inversion E; subst. exact Hk.
    + inversion E; subst. exact Hk.
Qed.

Theorem search_keeps : forall root iters fuel rep s req r s',
  U root -> SaneH s -> search K EC OC SC iters fuel rep s root req = (r, s') -> SaneH s'.
Proof.
  intros root iters fuel rep s req r s' Hu Hs E. unfold search in E.
  match type of E with context [search_iterative K EC OC SC iters fuel rep s root ?md 1%N ?a ?b] =>
    pose proof (search_iterative_keeps root iters fuel rep md s 1%N a b) as K1;
    destruct (search_iterative K EC OC SC iters fuel rep s root md 1%N a b) as [r1 s1] eqn:E1 end.
  specialize (K1 _ _ Hu Hs eq_refl).
  destruct r1 as [[]| | |]; try (inversion E; subst; exact K1).
  destruct (best_move s1 =? NULL_MOVE)%N; [|inversion E; subst; exact K1].
  assert (K1' : SaneH (set_cancel s1 None)) by exact K1.
  match type of E with context [search_iterative K EC OC SC iters fuel rep ?s0 root ?md 1%N ?a ?b] =>
    pose proof (search_iterative_keeps root iters fuel rep md s0 1%N a b) as K2;
    destruct (search_iterative K EC OC SC iters fuel rep s0 root md 1%N a b) as [r2 s2] eqn:E2 end.
  specialize (K2 _ _ Hu K1' eq_refl).
  destruct r2 as [[]| | |]; inversion E; subst; exact K2.
Qed.
End Keep.

(* ------------------------------------------------------------------ the Go build *)
(* the part of [C13_state] that concerns the tables shared between searches *)
Definition tables_ok (root : position) (s : sst) : Prop :=
  tt_clean (mate_hash go_keys root) (s_tt s) /\ cache_sane go_econsts (s_cache s).

Lemma state_tables : forall root s, C13_state go_keys go_econsts root s <-> tables_ok root s /\ s_pv s = [].
Proof. intros root s. unfold C13_state, tables_ok. tauto. Qed.

(* a search from any legal position [root1] - e.g. an earlier position of the same game -
   keeps the tables fit for a later mate-in-one search from [root], whatever it returns (a move,
   a cancellation, ...), provided no position that search can visit collides with a checkmated
   successor of [root] *)
Theorem search_keeps_tables : forall root root1 iters fuel rep s req r s',
  legal_pos root1 -> no_collision_from root1 root -> tables_ok root s ->
  go_search iters fuel rep s root1 req = (r, s') ->
  tables_ok root s'.
Proof.
  intros root root1 iters fuel rep s req r s' H1 HN Hs E.
  refine (search_keeps go_keys go_econsts go_oconsts go_sconsts (mate_hash go_keys root) (visited go_keys root1)
           _ _ _ HN root1 iters fuel rep s req r s' _ Hs E).
  - intros; eapply visited_move; eauto.
  - intros; eapply visited_null; eauto.
  - intros p V. apply legal_pos_eval_sane. eapply visited_legal; eauto.
  - constructor.
Qed.

(* with [root1 = root]: the form of [C13_state_preserved], for a whole Search *)
Corollary search_keeps_tables_same : forall root iters fuel rep s req r s',
  legal_pos root -> no_collision root -> tables_ok root s ->
  go_search iters fuel rep s root req = (r, s') ->
  tables_ok root s'.
Proof. intros root iters fuel rep s req r s' HR. apply search_keeps_tables; exact HR. Qed.

(* the states of a session, with the positions searched so far: a freshly started engine; after a
   search from a legal position; after the caller changed anything but the table and the cache (new
   search object on the shared tables: game history, cancellation, counters, heuristics, [s_pv] reset) *)
Inductive session : list position -> sst -> Prop :=
| session_fresh : forall c, session [] (go_empty_sst c)
| session_search : forall roots s root1 iters fuel rep req r s',
    session roots s -> legal_pos root1 -> go_search iters fuel rep s root1 req = (r, s') ->
    session (root1 :: roots) s'
| session_caller : forall roots s s2,
    session roots s -> s_tt s2 = s_tt s -> s_cache s2 = s_cache s -> session roots s2.

Theorem session_tables_ok : forall root roots s,
  (forall root1, In root1 roots -> no_collision_from root1 root) -> session roots s -> tables_ok root s.
Proof.
  intros root roots s HN Hs.
  induction Hs as [c|roots s root1 iters fuel rep req r s' Hs IH H1 E|roots s s2 Hs IH Et Ec].
  - destruct (empty_state_ok root c) as (A & B & _). split; assumption.
  - eapply search_keeps_tables; [exact H1|apply HN; left; reflexivity| |exact E].
    apply IH. intros r1 Hin. apply HN. right; exact Hin.
  - unfold tables_ok. rewrite Et, Ec. apply IH; exact HN.
Qed.

(* all the earlier searches were from positions of the game that led to [root]: one hypothesis about
   the oldest of them suffices *)
Corollary session_tables_ok_game : forall root root0 roots s,
  (forall root1, In root1 roots -> visited go_keys root0 root1) -> no_collision_from root0 root ->
  session roots s -> tables_ok root s.
Proof.
  intros root root0 roots s HV HN Hs. eapply session_tables_ok; [|exact Hs].
  intros root1 Hin. eapply no_collision_from_later; [apply HV; exact Hin|exact HN].
Qed.

(* C13 for any search of a session: whatever was searched before (other positions, other limits,
   cancelled or not), a search that starts with [s_pv = []] from a legal position with a mate in one
   answers a mating move *)
Theorem C13_mate_in_one_session : forall root roots iters fuel rep s req answer s',
  session roots s -> s_pv s = [] ->
  legal_pos root -> few_gen root ->
  (forall m q, gen_of root m -> make_move go_keys root m = Ok q -> few_gen q) ->
  (exists m0, mating go_keys root m0) ->
  no_collision root -> (forall root1, In root1 roots -> no_collision_from root1 root) ->
  (fuel <= 255)%nat -> (req <= 254)%N ->
  go_search iters fuel rep s root req = (ROk answer, s') ->
  mating go_keys root answer.
Proof.
  intros root roots iters fuel rep s req answer s' Hs Hpv HR F1 F2 Hex HN HNs Hf Hreq E.
  eapply C13_mate_in_one_legal; eauto.
  apply state_tables. split; [eapply session_tables_ok; eassumption|exact Hpv].
Qed.

(* the usual case: the caller builds the new search object with [go_init_sst] on the shared tables *)
Corollary C13_mate_in_one_next : forall root roots iters fuel rep s0 hist c req answer s',
  session roots s0 ->
  legal_pos root -> few_gen root ->
  (forall m q, gen_of root m -> make_move go_keys root m = Ok q -> few_gen q) ->
  (exists m0, mating go_keys root m0) ->
  no_collision root -> (forall root1, In root1 roots -> no_collision_from root1 root) ->
  (fuel <= 255)%nat -> (req <= 254)%N ->
  go_search iters fuel rep (go_init_sst (s_tt s0) (s_cache s0) hist c) root req = (ROk answer, s') ->
  mating go_keys root answer.
Proof.
  intros root roots iters fuel rep s0 hist c req answer s' Hs. intros.
  eapply (C13_mate_in_one_session root roots iters fuel rep (go_init_sst (s_tt s0) (s_cache s0) hist c)); eauto.
  eapply session_caller; [exact Hs|reflexivity|reflexivity].
Qed.

(* the session hypotheses are met by a non-trivial state: a depth-2 search from the first example
   root on a fresh engine, then a new search object on the tables it left *)
Example session_example :
  let s1 := snd (go_search 20 200 true (go_empty_sst None) (root_of fen1) 2) in
  session [root_of fen1] (go_init_sst (s_tt s1) (s_cache s1) [] (Some 5%N)) /\
  st_he (s_tt s1) <> 0%N.
Proof.
  intros s1. split.
  - apply (session_caller [root_of fen1] s1); [|reflexivity|reflexivity].
    apply (session_search [] (go_empty_sst None) (root_of fen1) 20 200 true 2
             (fst (go_search 20 200 true (go_empty_sst None) (root_of fen1) 2)) s1).
    + constructor.
    + exact root1_legal.
    + apply surjective_pairing.
  - vm_compute. discriminate.
Qed.

Print Assumptions search_keeps.
Print Assumptions search_keeps_tables.
Print Assumptions session_tables_ok.
Print Assumptions session_tables_ok_game.
Print Assumptions session_example.
Print Assumptions C13_mate_in_one_session.
Print Assumptions C13_mate_in_one_next.
