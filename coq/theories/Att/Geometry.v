(* C12 reference (SPEC): how the chess pieces attack, in coordinates. No bitboards, no bit tricks.
   A square s (a1 = 0 ... h8 = 63) has file s mod 8 (a = 0 ... h = 7) and rank s / 8 (rank 1 = 0 ...).
   Everything here is a boolean function on coordinates that can be run on examples.
   Spec file: definitions only, no proofs. *)
From Coq Require Import NArith ZArith List Bool.
Import ListNotations.
Open Scope Z_scope.

Definition coord : Type := (Z * Z)%type.                      (* (file, rank) *)

Definition sq_file (s : N) : Z := Z.of_N s mod 8.
Definition sq_rank (s : N) : Z := Z.of_N s / 8.
Definition sq_fr (s : N) : coord := (sq_file s, sq_rank s).
Definition fr_sq (c : coord) : N := Z.to_N (8 * snd c + fst c).

Definition on_board (c : coord) : bool :=
  (0 <=? fst c) && (fst c <? 8) && (0 <=? snd c) && (snd c <? 8).
Definition coord_eqb (a b : coord) : bool := (fst a =? fst b) && (snd a =? snd b).

(* [t] names a square of the board (for t >= 64 the rank is >= 8) *)
Definition is_square (t : N) : bool := on_board (sq_fr t).

(* k steps of direction d from square sq *)
Definition step_from (sq : N) (d : coord) (k : nat) : coord :=
  (sq_file sq + Z.of_nat k * fst d, sq_rank sq + Z.of_nat k * snd d).

(* ---- sliders ---- *)
Definition rook_dirs_geo : list coord := [(0, 1); (0, -1); (1, 0); (-1, 0)].
Definition bishop_dirs_geo : list coord := [(1, 1); (-1, 1); (1, -1); (-1, -1)].
Definition queen_dirs_geo : list coord := rook_dirs_geo ++ bishop_dirs_geo.

(* [occupied] says which squares hold a piece. t is reached from sq by exactly k >= 1 steps of d:
   steps 1..k are all on the board, step k is t, and the squares of steps 1..k-1 (strictly between)
   are empty. Whether sq itself or t is occupied does not matter: the first blocker is attacked. *)
Definition geo_ray_hit_on (occupied : N -> bool) (d : coord) (sq t : N) (k : nat) : bool :=
  forallb (fun j => on_board (step_from sq d j)) (seq 1 k)
  && coord_eqb (step_from sq d k) (sq_fr t)
  && forallb (fun j => negb (occupied (fr_sq (step_from sq d j)))) (seq 1 (k - 1)).

Definition geo_ray_attacks_on (occupied : N -> bool) (dirs : list coord) (sq t : N) : bool :=
  existsb (fun d => existsb (geo_ray_hit_on occupied d sq t) (seq 1 7)) dirs.

(* occupancy given as a set of squares (bit s of occ = square s is occupied) *)
Definition geo_ray_attacks (dirs : list coord) (sq occ : N) (t : N) : bool :=
  geo_ray_attacks_on (N.testbit occ) dirs sq t.

(* ---- leapers ---- *)
Definition geo_knight (sq t : N) : bool :=
  is_square t &&
  let df := Z.abs (sq_file t - sq_file sq) in
  let dr := Z.abs (sq_rank t - sq_rank sq) in
  ((df =? 1) && (dr =? 2)) || ((df =? 2) && (dr =? 1)).

Definition geo_king (sq t : N) : bool :=
  is_square t &&
  let df := Z.abs (sq_file t - sq_file sq) in
  let dr := Z.abs (sq_rank t - sq_rank sq) in
  (Z.max df dr =? 1).

(* colours: 0 = white (moves up the board), otherwise black (moves down) *)
Definition pawn_dir (c : N) : Z := if (c =? 0)%N then 1 else -1.
Definition pawn_start_rank (c : N) : Z := if (c =? 0)%N then 1 else 6.

(* a pawn of colour c on sq attacks t: one rank forward, one file to either side *)
Definition geo_pawn_attack (c sq t : N) : bool :=
  is_square t &&
  (Z.abs (sq_file t - sq_file sq) =? 1) && (sq_rank t =? sq_rank sq + pawn_dir c).

(* a pawn of colour c on sq may be pushed to t: one step straight forward onto an empty square, or
   two steps from its start rank with both squares empty *)
Definition geo_pawn_push (c sq occ t : N) : bool :=
  is_square t && (sq_file t =? sq_file sq) && negb (N.testbit occ t) &&
  ((sq_rank t =? sq_rank sq + pawn_dir c)
   || ((sq_rank sq =? pawn_start_rank c) && (sq_rank t =? sq_rank sq + 2 * pawn_dir c)
       && negb (N.testbit occ (fr_sq (sq_file sq, sq_rank sq + pawn_dir c))))).

(* ---- a piece on a board ---- *)
(* piece codes of the engine: 0 none; 1..6 white pawn, knight, bishop, rook, queen, king; 9..14 black *)
Definition geo_piece_attacks (occupied : N -> bool) (pc from to : N) : bool :=
  match pc with
  | 1%N => geo_pawn_attack 0 from to
  | 9%N => geo_pawn_attack 1 from to
  | 2%N | 10%N => geo_knight from to
  | 3%N | 11%N => geo_ray_attacks_on occupied bishop_dirs_geo from to
  | 4%N | 12%N => geo_ray_attacks_on occupied rook_dirs_geo from to
  | 5%N | 13%N => geo_ray_attacks_on occupied queen_dirs_geo from to
  | 6%N | 14%N => geo_king from to
  | _ => false
  end.
