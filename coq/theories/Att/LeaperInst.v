(* C12, leapers and pawns: the generated knight/king/pawn tables are the model's set-wise formulas
   on single squares, those equal the geometric definitions (64 x 64 finite checks), and pawn
   pushes are exact for every occupancy (from the shift lemmas, no sampling). *)
From Coq Require Import NArith ZArith List Bool Lia ZifyBool ZifyN ZifyNat.
From Clemens Require Import Base.Res Base.Word Pos.Types Att.Attacks Att.Geometry Att.ShiftsProofs
  Att.SlidingProofs.
From ClemensGen Require Import GoConsts.
Import ListNotations.
Open Scope N_scope.
Ltac Zify.zify_post_hook ::= Z.to_euclidean_division_equations.

(* ---- the tables the Go build holds are the formulas ---- *)
Definition table_matches (tbl : list N) (f : N -> N) : bool :=
  (length tbl =? 64)%nat && forallb (fun sq => nth (N.to_nat sq) tbl 0 =? f sq) squares.

Lemma table_matches_spec : forall tbl f, table_matches tbl f = true ->
  length tbl = 64%nat /\ forall sq, sq < 64 -> nth (N.to_nat sq) tbl 0 = f sq.
Proof.
  intros tbl f H. unfold table_matches in H. apply andb_true_iff in H. destruct H as [Hlen Hall].
  split; [apply Nat.eqb_eq, Hlen|]. intros sq Hsq. apply N.eqb_eq.
  exact (forall_squares _ Hall sq Hsq).
Qed.

Lemma knight_table_ok : table_matches knight_table knight_attacks = true.
Proof. vm_compute. reflexivity. Qed.
Lemma king_table_ok : table_matches king_table king_attacks = true.
Proof. vm_compute. reflexivity. Qed.
Lemma pawn_table_white_ok : table_matches pawn_table_white (pawn_attacks WHITE) = true.
Proof. vm_compute. reflexivity. Qed.
Lemma pawn_table_black_ok : table_matches pawn_table_black (pawn_attacks BLACK) = true.
Proof. vm_compute. reflexivity. Qed.

Theorem knight_table_match : forall sq, sq < 64 -> nth (N.to_nat sq) knight_table 0 = knight_attacks sq.
Proof. exact (proj2 (table_matches_spec _ _ knight_table_ok)). Qed.
Theorem king_table_match : forall sq, sq < 64 -> nth (N.to_nat sq) king_table 0 = king_attacks sq.
Proof. exact (proj2 (table_matches_spec _ _ king_table_ok)). Qed.
Theorem pawn_table_white_match : forall sq, sq < 64 ->
  nth (N.to_nat sq) pawn_table_white 0 = pawn_attacks WHITE sq.
Proof. exact (proj2 (table_matches_spec _ _ pawn_table_white_ok)). Qed.
Theorem pawn_table_black_match : forall sq, sq < 64 ->
  nth (N.to_nat sq) pawn_table_black 0 = pawn_attacks BLACK sq.
Proof. exact (proj2 (table_matches_spec _ _ pawn_table_black_ok)). Qed.

(* ---- formulas = geometry ---- *)
(* f sq is below 2^64 and agrees with g on the 64 x 64 pairs of squares *)
Definition leaper_ok (f : N -> N) (g : N -> N -> bool) : bool :=
  forallb (fun sq => (f sq <? two64) && forallb (fun t => Bool.eqb (N.testbit (f sq) t) (g sq t)) squares)
          squares.

Lemma leaper_ok_spec : forall f g, leaper_ok f g = true ->
  (forall sq t, is_square t = false -> g sq t = false) ->
  forall sq, sq < 64 -> forall t, N.testbit (f sq) t = g sq t.
Proof.
  intros f g Hok Hoff sq Hsq t. unfold leaper_ok in Hok.
  pose proof (forall_squares _ Hok sq Hsq) as H. cbv beta in H.
  apply andb_true_iff in H. destruct H as [Hlt Hall]. apply N.ltb_lt in Hlt.
  destruct (N.lt_ge_cases t 64) as [Ht | Ht].
  - apply eqb_prop. exact (forall_squares _ Hall t Ht).
  - rewrite (testbit_high _ _ Hlt Ht). symmetry. apply Hoff.
    apply not_true_iff_false. rewrite is_square_lt. lia.
Qed.

Lemma knight_ok : leaper_ok knight_attacks geo_knight = true.
Proof. vm_compute. reflexivity. Qed.
Lemma king_ok : leaper_ok king_attacks geo_king = true.
Proof. vm_compute. reflexivity. Qed.
Lemma pawn_white_ok : leaper_ok (pawn_attacks 0) (geo_pawn_attack 0) = true.
Proof. vm_compute. reflexivity. Qed.
Lemma pawn_black_ok : leaper_ok (pawn_attacks 1) (geo_pawn_attack 1) = true.
Proof. vm_compute. reflexivity. Qed.

Theorem knight_attacks_exact : forall sq, sq < 64 ->
  forall t, N.testbit (knight_attacks sq) t = geo_knight sq t.
Proof.
  apply (leaper_ok_spec _ _ knight_ok). intros sq t Ht. unfold geo_knight. rewrite Ht. reflexivity.
Qed.

Theorem king_attacks_exact : forall sq, sq < 64 ->
  forall t, N.testbit (king_attacks sq) t = geo_king sq t.
Proof.
  apply (leaper_ok_spec _ _ king_ok). intros sq t Ht. unfold geo_king. rewrite Ht. reflexivity.
Qed.

(* any colour code other than 0 is treated as black, by the engine and by the reference alike *)
Lemma pawn_attacks_color : forall c sq, c <> 0 -> pawn_attacks c sq = pawn_attacks 1 sq.
Proof.
  intros c sq Hc. unfold pawn_attacks, pawn_set, WHITE.
  destruct (N.eqb_spec c 0); [contradiction | reflexivity].
Qed.
Lemma pawn_dir_color : forall c, c <> 0 -> pawn_dir c = pawn_dir 1.
Proof. intros c Hc. unfold pawn_dir. destruct (N.eqb_spec c 0); [contradiction | reflexivity]. Qed.
Lemma pawn_start_rank_color : forall c, c <> 0 -> pawn_start_rank c = pawn_start_rank 1.
Proof. intros c Hc. unfold pawn_start_rank. destruct (N.eqb_spec c 0); [contradiction | reflexivity]. Qed.

Theorem pawn_attacks_exact : forall c sq, sq < 64 ->
  forall t, N.testbit (pawn_attacks c sq) t = geo_pawn_attack c sq t.
Proof.
  intros c sq Hsq t. destruct (N.eq_dec c 0) as [-> | Hc].
  - revert sq Hsq t. apply (leaper_ok_spec _ _ pawn_white_ok).
    intros sq t Ht. unfold geo_pawn_attack. rewrite Ht. reflexivity.
  - rewrite (pawn_attacks_color c sq Hc). unfold geo_pawn_attack. rewrite (pawn_dir_color c Hc).
    revert sq Hsq t. apply (leaper_ok_spec _ _ pawn_black_ok).
    intros sq t Ht. unfold geo_pawn_attack. rewrite Ht. reflexivity.
Qed.

(* ---- pawn pushes, for every occupancy ---- *)
Lemma RankMask4_spec : forall t, N.testbit RankMask4 t = (24 <=? t) && (t <? 32).
Proof.
  intros t. destruct (N.lt_ge_cases t 64) as [Ht | Ht].
  - apply eqb_prop. revert t Ht.
    apply (forall_squares (fun t => Bool.eqb (N.testbit RankMask4 t) ((24 <=? t) && (t <? 32)))).
    vm_compute. reflexivity.
  - rewrite testbit_high; [|reflexivity | exact Ht].
    destruct (N.leb_spec 24 t), (N.ltb_spec t 32); try reflexivity; lia.
Qed.

Lemma RankMask5_spec : forall t, N.testbit RankMask5 t = (32 <=? t) && (t <? 40).
Proof.
  intros t. destruct (N.lt_ge_cases t 64) as [Ht | Ht].
  - apply eqb_prop. revert t Ht.
    apply (forall_squares (fun t => Bool.eqb (N.testbit RankMask5 t) ((32 <=? t) && (t <? 40)))).
    vm_compute. reflexivity.
  - rewrite testbit_high; [|reflexivity | exact Ht].
    destruct (N.leb_spec 32 t), (N.ltb_spec t 40); try reflexivity; lia.
Qed.

Ltac cmp_cases :=
  repeat match goal with
  | |- context [N.ltb ?a ?b] => destruct (N.ltb_spec a b); try (exfalso; lia)
  | |- context [N.leb ?a ?b] => destruct (N.leb_spec a b); try (exfalso; lia)
  | |- context [N.eqb ?a ?b] => destruct (N.eqb_spec a b); try (exfalso; lia)
  | |- context [Z.ltb ?a ?b] => destruct (Z.ltb_spec a b); try (exfalso; lia)
  | |- context [Z.leb ?a ?b] => destruct (Z.leb_spec a b); try (exfalso; lia)
  | |- context [Z.eqb ?a ?b] => destruct (Z.eqb_spec a b); try (exfalso; lia)
  end.

Lemma pushes_white_exact : forall sq occ, sq < 64 ->
  forall t, N.testbit (pushes_by_square 0 sq occ) t = geo_pawn_push 0 sq occ t.
Proof.
  intros sq occ Hsq t.
  unfold pushes_by_square, pawn_pushes, double_push, single_push, WHITE. cbn [N.eqb].
  rewrite !N.lor_spec, !N.land_spec, !north_one_spec, !N.land_spec, !north_one_spec, !not64_spec,
    RankMask4_spec, !(bit_spec _ _ Hsq).
  unfold geo_pawn_push, is_square, on_board, pawn_dir, pawn_start_rank, sq_fr. cbn [N.eqb fst snd].
  destruct (N.eq_dec t (sq + 8)) as [-> | H8]; [|destruct (N.eq_dec t (sq + 16)) as [-> | H16]].
  - replace (sq + 8 - 8) with sq by lia.
    unfold sq_file, sq_rank. cmp_cases; cbn [andb orb negb]; destruct (N.testbit occ (sq + 8)); reflexivity.
  - replace (sq + 16 - 8) with (sq + 8) by lia. replace (sq + 8 - 8) with sq by lia.
    replace (fr_sq (sq_file sq, (sq_rank sq + 1)%Z)) with (sq + 8) by (unfold fr_sq, sq_file, sq_rank; cbn [fst snd]; lia).
    unfold sq_file, sq_rank. cmp_cases; cbn [andb orb negb];
      destruct (N.testbit occ (sq + 16)), (N.testbit occ (sq + 8)); reflexivity.
  - unfold sq_file, sq_rank. cmp_cases; cbn [andb orb negb]; try reflexivity;
      repeat rewrite andb_false_r; reflexivity.
Qed.

Lemma pushes_black_exact : forall sq occ, sq < 64 ->
  forall t, N.testbit (pushes_by_square 1 sq occ) t = geo_pawn_push 1 sq occ t.
Proof.
  intros sq occ Hsq t.
  unfold pushes_by_square, pawn_pushes, double_push, single_push, WHITE. cbn [N.eqb].
  rewrite !N.lor_spec, !N.land_spec, !south_one_spec, !N.land_spec, !south_one_spec, !not64_spec,
    RankMask5_spec, !(bit_spec _ _ Hsq).
  unfold geo_pawn_push, is_square, on_board, pawn_dir, pawn_start_rank, sq_fr. cbn [N.eqb fst snd].
  destruct (N.eq_dec sq (t + 8)) as [-> | H8]; [|destruct (N.eq_dec sq (t + 16)) as [-> | H16]].
  - unfold sq_file, sq_rank. cmp_cases; cbn [andb orb negb]; destruct (N.testbit occ t); reflexivity.
  - replace (t + 8 + 8) with (t + 16) by lia.
    replace (fr_sq (sq_file (t + 16), (sq_rank (t + 16) + -1)%Z)) with (t + 8)
      by (unfold fr_sq, sq_file, sq_rank; cbn [fst snd]; lia).
    unfold sq_file, sq_rank. cmp_cases; cbn [andb orb negb];
      destruct (N.testbit occ t), (N.testbit occ (t + 8)); reflexivity.
  - unfold sq_file, sq_rank. cmp_cases; cbn [andb orb negb]; try reflexivity;
      repeat rewrite andb_false_r; reflexivity.
Qed.

Lemma pushes_color : forall c sq occ, c <> 0 -> pushes_by_square c sq occ = pushes_by_square 1 sq occ.
Proof.
  intros c sq occ Hc. unfold pushes_by_square, pawn_pushes, double_push, single_push, WHITE.
  destruct (N.eqb_spec c 0); [contradiction | reflexivity].
Qed.

(* no hypothesis on the pawn's rank is needed: from the last rank nothing is generated and nothing
   is geometrically there; from the first rank (where no pawn ever stands) both give the single step *)
Theorem pushes_exact : forall c sq occ, sq < 64 ->
  forall t, N.testbit (pushes_by_square c sq occ) t = geo_pawn_push c sq occ t.
Proof.
  intros c sq occ Hsq t. destruct (N.eq_dec c 0) as [-> | Hc].
  - apply pushes_white_exact, Hsq.
  - rewrite (pushes_color c sq occ Hc), (pushes_black_exact sq occ Hsq t).
    unfold geo_pawn_push. rewrite (pawn_dir_color c Hc), (pawn_start_rank_color c Hc). reflexivity.
Qed.
