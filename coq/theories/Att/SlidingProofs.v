(* C12, sliders: the Go ray walker computes exactly the squares reachable along open lines up to
   and including the first blocker; the relevant-occupancy mask loses nothing; hence the attack
   functions of rook, bishop and queen are exact for every square and every occupancy. *)
From Coq Require Import NArith ZArith List Bool Lia ZifyBool ZifyN ZifyNat.
From Clemens Require Import Base.Res Base.Word Pos.Types Att.Attacks Att.Geometry Att.ShiftsProofs.
Import ListNotations.
Open Scope N_scope.
Ltac Zify.zify_post_hook ::= Z.to_euclidean_division_equations.

(* ---- squares and coordinates ---- *)
Lemma on_board_iff : forall c, on_board c = true <-> (0 <= fst c < 8 /\ 0 <= snd c < 8)%Z.
Proof. intros [f r]. unfold on_board. cbn [fst snd]. lia. Qed.

Lemma fr_sq_sq_fr : forall s, fr_sq (sq_fr s) = s.
Proof. intros s. unfold fr_sq, sq_fr, sq_file, sq_rank. cbn [fst snd]. lia. Qed.

Lemma sq_fr_fr_sq : forall c, on_board c = true -> sq_fr (fr_sq c) = c.
Proof.
  intros [f r] Hc. apply on_board_iff in Hc. cbn [fst snd] in Hc.
  unfold fr_sq, sq_fr, sq_file, sq_rank. cbn [fst snd].
  rewrite Z2N.id by lia. f_equal; lia.
Qed.

Lemma sq_fr_on_board : forall s, s < 64 -> on_board (sq_fr s) = true.
Proof. intros s Hs. apply on_board_iff. unfold sq_fr, sq_file, sq_rank. cbn [fst snd]. lia. Qed.

Lemma on_board_lt : forall c, on_board c = true -> fr_sq c < 64.
Proof. intros [f r] Hc. apply on_board_iff in Hc. cbn [fst snd] in Hc. unfold fr_sq. cbn [fst snd]. lia. Qed.

Lemma is_square_lt : forall t, is_square t = true <-> t < 64.
Proof.
  intros t. unfold is_square. rewrite on_board_iff. unfold sq_fr, sq_file, sq_rank. cbn [fst snd]. lia.
Qed.

Lemma sq_fr_inj : forall s t, sq_fr s = sq_fr t -> s = t.
Proof. intros s t Heq. rewrite <- (fr_sq_sq_fr s), <- (fr_sq_sq_fr t), Heq. reflexivity. Qed.

(* k steps of d from a coordinate *)
Definition stepc (c d : coord) (k : nat) : coord :=
  (fst c + Z.of_nat k * fst d, snd c + Z.of_nat k * snd d)%Z.

Lemma step_from_stepc : forall sq d k, step_from sq d k = stepc (sq_fr sq) d k.
Proof. reflexivity. Qed.

Lemma stepc_0 : forall c d, stepc c d 0 = c.
Proof. intros [f r] [df dr]. unfold stepc. cbn [fst snd]. f_equal; lia. Qed.

Lemma stepc_S : forall c d k, stepc (stepc c d 1) d k = stepc c d (S k).
Proof. intros [f r] [df dr] k. unfold stepc. cbn [fst snd]. f_equal; lia. Qed.

(* ---- the geometric definition as a proposition ---- *)
(* [j0] = 1 is the reference (squares strictly between are empty); [j0] = 0 also asks the origin to
   be empty, which is what the walker tests. *)
Definition ray_hit_P (occupied : N -> bool) (d c : coord) (t : N) (k j0 : nat) : Prop :=
  (forall j, (1 <= j <= k)%nat -> on_board (stepc c d j) = true) /\
  stepc c d k = sq_fr t /\
  (forall j, (j0 <= j < k)%nat -> occupied (fr_sq (stepc c d j)) = false).

Lemma coord_eqb_eq : forall a b, coord_eqb a b = true <-> a = b.
Proof.
  intros [a1 a2] [b1 b2]. unfold coord_eqb. cbn [fst snd]. split.
  - intros H. f_equal; lia.
  - intros H. inversion H. lia.
Qed.

Lemma geo_ray_hit_on_iff : forall occupied d sq t k,
  geo_ray_hit_on occupied d sq t k = true <-> ray_hit_P occupied d (sq_fr sq) t k 1.
Proof.
  intros occupied d sq t k. unfold geo_ray_hit_on, ray_hit_P.
  rewrite !andb_true_iff, !forallb_forall, coord_eqb_eq.
  setoid_rewrite in_seq. setoid_rewrite negb_true_iff. setoid_rewrite step_from_stepc.
  split.
  - intros [[H1 H2] H3]. split; [|split]; [|exact H2|].
    + intros j Hj. apply H1. lia.
    + intros j Hj. apply H3. lia.
  - intros [H1 [H2 H3]]. split; [split|]; [|exact H2|].
    + intros j Hj. apply H1. lia.
    + intros j Hj. apply H3. lia.
Qed.

Lemma geo_ray_attacks_on_iff : forall occupied dirs sq t,
  geo_ray_attacks_on occupied dirs sq t = true
  <-> exists d k, In d dirs /\ (1 <= k <= 7)%nat /\ ray_hit_P occupied d (sq_fr sq) t k 1.
Proof.
  intros occupied dirs sq t. unfold geo_ray_attacks_on. rewrite existsb_exists. split.
  - intros [d [Hd Hex]]. apply existsb_exists in Hex. destruct Hex as [k [Hk Hhit]].
    apply in_seq in Hk. apply geo_ray_hit_on_iff in Hhit. exists d, k. split; [exact Hd|]. split; [lia | exact Hhit].
  - intros [d [k [Hd [Hk Hhit]]]]. exists d. split; [exact Hd|]. apply existsb_exists.
    exists k. split; [apply in_seq; lia | apply geo_ray_hit_on_iff, Hhit].
Qed.

(* ---- one step of a shift on a single-square board is one step on the board ---- *)
Definition dir_step_ok (dir : N -> N) (d : coord) : bool :=
  forallb (fun s => dir (bit s) =? (let c := stepc (sq_fr s) d 1 in if on_board c then bit (fr_sq c) else 0))
          squares.

Lemma north_step : dir_step_ok north_one (0, 1)%Z = true.      Proof. vm_compute. reflexivity. Qed.
Lemma south_step : dir_step_ok south_one (0, -1)%Z = true.     Proof. vm_compute. reflexivity. Qed.
Lemma east_step : dir_step_ok east_one (1, 0)%Z = true.        Proof. vm_compute. reflexivity. Qed.
Lemma west_step : dir_step_ok west_one (-1, 0)%Z = true.       Proof. vm_compute. reflexivity. Qed.
Lemma north_east_step : dir_step_ok north_east_one (1, 1)%Z = true.   Proof. vm_compute. reflexivity. Qed.
Lemma north_west_step : dir_step_ok north_west_one (-1, 1)%Z = true.  Proof. vm_compute. reflexivity. Qed.
Lemma south_east_step : dir_step_ok south_east_one (1, -1)%Z = true.  Proof. vm_compute. reflexivity. Qed.
Lemma south_west_step : dir_step_ok south_west_one (-1, -1)%Z = true. Proof. vm_compute. reflexivity. Qed.

Definition unit_dir (d : coord) : Prop :=
  (fst d = -1 \/ fst d = 0 \/ fst d = 1)%Z /\ (snd d = -1 \/ snd d = 0 \/ snd d = 1)%Z /\ d <> (0, 0)%Z.

(* a ray leaves the board for good *)
Lemma off_board_stays : forall d, unit_dir d -> forall c k, on_board c = true ->
  on_board (stepc c d 1) = false -> (1 <= k)%nat -> on_board (stepc c d k) = false.
Proof.
  intros [df dr] [Hf [Hr _]] [f r] k Hc H1 Hk. cbn [fst snd] in Hf, Hr.
  apply on_board_iff in Hc. apply not_true_iff_false. apply not_true_iff_false in H1.
  rewrite on_board_iff in *. unfold stepc in *. cbn [fst snd] in *.
  destruct Hf as [-> | [-> | ->]], Hr as [-> | [-> | ->]]; lia.
Qed.

Lemma off_board_next : forall d, unit_dir d -> forall c k, on_board c = true ->
  on_board (stepc c d k) = false -> on_board (stepc c d (S k)) = false.
Proof.
  intros [df dr] [Hf [Hr _]] [f r] k Hc H1. cbn [fst snd] in Hf, Hr.
  apply on_board_iff in Hc. apply not_true_iff_false. apply not_true_iff_false in H1.
  rewrite on_board_iff in *. unfold stepc in *. cbn [fst snd] in *.
  destruct Hf as [-> | [-> | ->]], Hr as [-> | [-> | ->]]; lia.
Qed.

Lemma ray_short : forall d, unit_dir d -> forall c k, on_board c = true ->
  on_board (stepc c d k) = true -> (k <= 7)%nat.
Proof.
  intros [df dr] [Hf [Hr Hne]] [f r] k Hc Hk. cbn [fst snd] in Hf, Hr.
  rewrite on_board_iff in *. unfold stepc in *. cbn [fst snd] in *.
  destruct Hf as [-> | [-> | ->]], Hr as [-> | [-> | ->]]; try lia. congruence.
Qed.

(* ---- the walker along one direction ---- *)
Section Walk.
Variable dir : N -> N.
Variable d : coord.
Hypothesis Hstep : dir_step_ok dir d = true.
Hypothesis Hunit : unit_dir d.
Variable occ : N.

Lemma dir_bit : forall c, on_board c = true ->
  dir (bit (fr_sq c)) = if on_board (stepc c d 1) then bit (fr_sq (stepc c d 1)) else 0.
Proof.
  intros c Hc. unfold dir_step_ok in Hstep.
  pose proof (forall_squares _ Hstep (fr_sq c) (on_board_lt c Hc)) as H.
  cbv beta zeta in H. apply N.eqb_eq in H. rewrite (sq_fr_fr_sq c Hc) in H. exact H.
Qed.

Lemma walk_spec_c : forall n c acc, on_board c = true ->
  forall t, N.testbit (walk n dir (bit (fr_sq c)) occ acc) t = true
    <-> (N.testbit acc t = true \/ exists k, (1 <= k <= n)%nat /\ ray_hit_P (N.testbit occ) d c t k 0).
Proof.
  induction n as [|n IH]; intros c acc Hc t.
  - cbn [walk]. split; [tauto|]. intros [H | [k [Hk _]]]; [exact H | lia].
  - cbn [walk]. rewrite (dir_bit c Hc), (land_bit_zero _ _ (on_board_lt c Hc)).
    destruct (on_board (stepc c d 1)) eqn:H1.
    + (* the next square is on the board *)
      destruct (N.eqb_spec (bit (fr_sq (stepc c d 1))) 0) as [Hz | _];
        [exfalso; exact (bit_nonzero _ (on_board_lt _ H1) Hz)|].
      cbn [orb]. rewrite negb_involutive.
      destruct (N.testbit occ (fr_sq c)) eqn:Hocc.
      * (* standing on an occupied square: stop *)
        split; [tauto|]. intros [H | [k [Hk [_ [_ Hclear]]]]]; [exact H|].
        specialize (Hclear 0%nat ltac:(lia)). rewrite stepc_0, Hocc in Hclear. discriminate.
      * rewrite (IH (stepc c d 1) _ H1 t), N.lor_spec, orb_true_iff, (bit_spec _ _ (on_board_lt _ H1)), N.eqb_eq.
        split.
        -- intros [[H | Heq] | [k [Hk [Hon [Hk_t Hclear]]]]].
           ++ left. exact H.
           ++ right. exists 1%nat. split; [lia|]. split; [|split].
              ** intros j Hj. replace j with 1%nat by lia. exact H1.
              ** rewrite <- Heq. symmetry. apply sq_fr_fr_sq, H1.
              ** intros j Hj. replace j with 0%nat by lia. rewrite stepc_0. exact Hocc.
           ++ right. exists (S k). split; [lia|]. split; [|split].
              ** intros j Hj. destruct j as [|j]; [lia|]. destruct j as [|j]; [exact H1|].
                 rewrite <- stepc_S. apply Hon. lia.
              ** rewrite <- stepc_S. exact Hk_t.
              ** intros j Hj. destruct j as [|j]; [rewrite stepc_0; exact Hocc|].
                 rewrite <- stepc_S. apply Hclear. lia.
        -- intros [H | [k [Hk [Hon [Hk_t Hclear]]]]]; [left; left; exact H|].
           destruct k as [|k]; [lia|]. destruct k as [|k].
           ++ left. right. rewrite Hk_t. apply fr_sq_sq_fr.
           ++ right. exists (S k). split; [lia|]. split; [|split].
              ** intros j Hj. rewrite stepc_S. apply Hon. lia.
              ** rewrite stepc_S. exact Hk_t.
              ** intros j Hj. rewrite stepc_S. apply Hclear. lia.
    + (* the next step leaves the board: stop *)
      rewrite N.eqb_refl. cbn [orb]. split; [tauto|].
      intros [H | [k [Hk [Hon _]]]]; [exact H|].
      specialize (Hon 1%nat ltac:(lia)). rewrite H1 in Hon. discriminate.
Qed.

(* fuel: 7 steps are all a ray can have, so the 8 the model gives never run out *)
Lemma walk_fuel_enough : forall n c acc, on_board c = true -> (7 <= n)%nat ->
  walk n dir (bit (fr_sq c)) occ acc = walk 7 dir (bit (fr_sq c)) occ acc.
Proof.
  intros n c acc Hc Hn. apply N.bits_inj. intros t. apply eq_true_iff_eq.
  rewrite !walk_spec_c by exact Hc.
  split; (intros [H | [k [Hk Hhit]]]; [left; exact H | right; exists k; split; [|exact Hhit]]); [|lia].
  destruct Hhit as [Hon _]. pose proof (ray_short d Hunit c k Hc (Hon k ltac:(lia))). lia.
Qed.

(* with the origin clear in occ, the walk of fuel 8 is the geometric ray *)
Lemma walk_geom : forall sq acc, sq < 64 -> N.testbit occ sq = false ->
  forall t, N.testbit (walk 8 dir (bit sq) occ acc) t = true
    <-> (N.testbit acc t = true
         \/ exists k, (1 <= k <= 7)%nat /\ ray_hit_P (N.testbit occ) d (sq_fr sq) t k 1).
Proof.
  intros sq acc Hsq Hclear0 t.
  pose proof (sq_fr_on_board sq Hsq) as Hc.
  rewrite <- (fr_sq_sq_fr sq) at 1. rewrite (walk_spec_c 8 _ acc Hc t).
  split; (intros [H | [k [Hk [Hon [Hk_t Hclear]]]]]; [left; exact H | right; exists k]).
  - split; [|split; [exact Hon | split; [exact Hk_t | intros j Hj; apply Hclear; lia]]].
    pose proof (ray_short d Hunit _ k Hc (Hon k ltac:(lia))). lia.
  - split; [lia|]. split; [exact Hon | split; [exact Hk_t|]].
    intros j Hj. destruct j as [|j]; [|apply Hclear; lia].
    rewrite stepc_0, fr_sq_sq_fr. exact Hclear0.
Qed.

(* the walker only ever sets squares of the board *)
Lemma walk_lt : forall n b acc, b < two64 -> acc < two64 -> (forall x, x < two64 -> dir x < two64) ->
  walk n dir b occ acc < two64.
Proof.
  induction n as [|n IH]; intros b acc Hb Hacc Hdir; cbn [walk]; [exact Hacc|].
  destruct ((dir b =? 0) || negb (N.land b occ =? 0)); [exact Hacc|].
  apply IH; [apply Hdir, Hb | apply lor_lt; [exact Hacc | apply Hdir, Hb] | exact Hdir].
Qed.
End Walk.

(* ---- four directions ---- *)
Lemma geo_ray_attacks_on_app : forall occupied l1 l2 sq t,
  geo_ray_attacks_on occupied (l1 ++ l2) sq t
  = geo_ray_attacks_on occupied l1 sq t || geo_ray_attacks_on occupied l2 sq t.
Proof. intros occupied l1 l2 sq t. unfold geo_ray_attacks_on. apply existsb_app. Qed.

Section Four.
Variables dir1 dir2 dir3 dir4 : N -> N.
Variables d1 d2 d3 d4 : coord.
Hypothesis Hs1 : dir_step_ok dir1 d1 = true.
Hypothesis Hs2 : dir_step_ok dir2 d2 = true.
Hypothesis Hs3 : dir_step_ok dir3 d3 = true.
Hypothesis Hs4 : dir_step_ok dir4 d4 = true.
Hypothesis Hu1 : unit_dir d1.
Hypothesis Hu2 : unit_dir d2.
Hypothesis Hu3 : unit_dir d3.
Hypothesis Hu4 : unit_dir d4.

Lemma sliding4_geom : forall sq occ, sq < 64 -> N.testbit occ sq = false ->
  forall t, N.testbit (sliding_attacks sq [dir1; dir2; dir3; dir4] occ) t
            = geo_ray_attacks [d1; d2; d3; d4] sq occ t.
Proof.
  intros sq occ Hsq Hclear t. apply eq_true_iff_eq.
  unfold sliding_attacks, geo_ray_attacks. cbn [fold_left].
  rewrite (walk_geom dir4 d4 Hs4 Hu4 occ sq _ Hsq Hclear t).
  rewrite (walk_geom dir3 d3 Hs3 Hu3 occ sq _ Hsq Hclear t).
  rewrite (walk_geom dir2 d2 Hs2 Hu2 occ sq _ Hsq Hclear t).
  rewrite (walk_geom dir1 d1 Hs1 Hu1 occ sq _ Hsq Hclear t).
  rewrite N.bits_0, geo_ray_attacks_on_iff. cbn [In].
  split.
  - intros [[[[H | [k H]] | [k H]] | [k H]] | [k H]]; [discriminate | ..].
    + exists d1, k. tauto.
    + exists d2, k. tauto.
    + exists d3, k. tauto.
    + exists d4, k. tauto.
  - intros [d [k [[<- | [<- | [<- | [<- | []]]]] H]]].
    + left. left. left. right. exists k. exact H.
    + left. left. right. exists k. exact H.
    + left. right. exists k. exact H.
    + right. exists k. exact H.
Qed.

Lemma sliding4_lt : forall sq occ,
  (forall x, x < two64 -> dir1 x < two64) -> (forall x, x < two64 -> dir2 x < two64) ->
  (forall x, x < two64 -> dir3 x < two64) -> (forall x, x < two64 -> dir4 x < two64) ->
  sliding_attacks sq [dir1; dir2; dir3; dir4] occ < two64.
Proof.
  intros sq occ H1 H2 H3 H4. unfold sliding_attacks. cbn [fold_left].
  repeat (apply walk_lt; [apply bit_lt | | assumption]). reflexivity.
Qed.
End Four.

Lemma unit_n : unit_dir (0, 1)%Z.   Proof. unfold unit_dir. cbn. intuition congruence. Qed.
Lemma unit_s : unit_dir (0, -1)%Z.  Proof. unfold unit_dir. cbn. intuition congruence. Qed.
Lemma unit_e : unit_dir (1, 0)%Z.   Proof. unfold unit_dir. cbn. intuition congruence. Qed.
Lemma unit_w : unit_dir (-1, 0)%Z.  Proof. unfold unit_dir. cbn. intuition congruence. Qed.
Lemma unit_ne : unit_dir (1, 1)%Z.  Proof. unfold unit_dir. cbn. intuition congruence. Qed.
Lemma unit_nw : unit_dir (-1, 1)%Z. Proof. unfold unit_dir. cbn. intuition congruence. Qed.
Lemma unit_se : unit_dir (1, -1)%Z. Proof. unfold unit_dir. cbn. intuition congruence. Qed.
Lemma unit_sw : unit_dir (-1, -1)%Z. Proof. unfold unit_dir. cbn. intuition congruence. Qed.

Lemma rook_dirs_unit : forall d, In d rook_dirs_geo -> unit_dir d.
Proof.
  intros d [<- | [<- | [<- | [<- | []]]]]; [apply unit_n | apply unit_s | apply unit_e | apply unit_w].
Qed.
Lemma bishop_dirs_unit : forall d, In d bishop_dirs_geo -> unit_dir d.
Proof.
  intros d [<- | [<- | [<- | [<- | []]]]]; [apply unit_ne | apply unit_nw | apply unit_se | apply unit_sw].
Qed.

(* (1) the walker is the geometric ray set, provided the origin is clear in occ (with the origin set
   the Go walker returns the empty set: it tests the square it stands on, see [walk_origin_set]) *)
Theorem rook_walk_geom : forall sq occ, sq < 64 -> N.testbit occ sq = false ->
  forall t, N.testbit (rook_walk sq occ) t = geo_ray_attacks rook_dirs_geo sq occ t.
Proof.
  intros sq occ. unfold rook_walk, rook_dirs, rook_dirs_geo.
  apply sliding4_geom; first [exact north_step | exact south_step | exact east_step | exact west_step
                            | exact unit_n | exact unit_s | exact unit_e | exact unit_w].
Qed.

Theorem bishop_walk_geom : forall sq occ, sq < 64 -> N.testbit occ sq = false ->
  forall t, N.testbit (bishop_walk sq occ) t = geo_ray_attacks bishop_dirs_geo sq occ t.
Proof.
  intros sq occ. unfold bishop_walk, bishop_dirs, bishop_dirs_geo.
  apply sliding4_geom; first [exact north_east_step | exact north_west_step | exact south_east_step
                            | exact south_west_step | exact unit_ne | exact unit_nw | exact unit_se | exact unit_sw].
Qed.

Lemma rook_walk_lt : forall sq occ, rook_walk sq occ < two64.
Proof.
  intros sq occ. unfold rook_walk, rook_dirs. apply sliding4_lt; intros x Hx;
    [apply north_one_lt | apply south_one_lt, Hx | apply east_one_lt | apply west_one_lt].
Qed.

Lemma bishop_walk_lt : forall sq occ, bishop_walk sq occ < two64.
Proof.
  intros sq occ. unfold bishop_walk, bishop_dirs. apply sliding4_lt; intros x Hx;
    [apply north_east_one_lt | apply north_west_one_lt | apply south_east_one_lt | apply south_west_one_lt].
Qed.

(* the edge case the hypothesis excludes: with the origin set in occ the walker returns nothing *)
Lemma walk_origin_set : forall n dir sq occ acc, sq < 64 -> N.testbit occ sq = true ->
  walk n dir (bit sq) occ acc = acc.
Proof.
  intros n dir sq occ acc Hsq Hset. destruct n as [|n]; [reflexivity|]. cbn [walk].
  rewrite (land_bit_zero _ _ Hsq), Hset. cbn [negb]. rewrite orb_true_r. reflexivity.
Qed.

Lemma rook_walk_origin_set : forall sq occ, sq < 64 -> N.testbit occ sq = true -> rook_walk sq occ = 0.
Proof.
  intros sq occ Hsq Hset. unfold rook_walk, rook_dirs, sliding_attacks. cbn [fold_left].
  rewrite !(walk_origin_set _ _ _ _ _ Hsq Hset). reflexivity.
Qed.

Lemma bishop_walk_origin_set : forall sq occ, sq < 64 -> N.testbit occ sq = true -> bishop_walk sq occ = 0.
Proof.
  intros sq occ Hsq Hset. unfold bishop_walk, bishop_dirs, sliding_attacks. cbn [fold_left].
  rewrite !(walk_origin_set _ _ _ _ _ Hsq Hset). reflexivity.
Qed.

(* ---- (2) only the squares strictly inside the rays matter ---- *)
(* the inner squares of the rays from sq: step j >= 1 whose successor is still on the board *)
Lemma geo_ray_ext : forall occ1 occ2 dirs sq,
  (forall d j, In d dirs -> (1 <= j)%nat -> on_board (stepc (sq_fr sq) d (S j)) = true ->
     occ1 (fr_sq (stepc (sq_fr sq) d j)) = occ2 (fr_sq (stepc (sq_fr sq) d j))) ->
  forall t, geo_ray_attacks_on occ1 dirs sq t = geo_ray_attacks_on occ2 dirs sq t.
Proof.
  intros occ1 occ2 dirs sq Hagree t. apply eq_true_iff_eq. rewrite !geo_ray_attacks_on_iff.
  split; intros [d [k [Hd [Hk [Hon [Hk_t Hclear]]]]]]; exists d, k;
    (split; [exact Hd | split; [exact Hk | split; [exact Hon | split; [exact Hk_t|]]]]);
    intros j Hj; [rewrite <- Hagree | rewrite Hagree]; try apply Hclear; try assumption; try lia;
    apply Hon; lia.
Qed.

(* in particular only the 64 squares of the board matter *)
Lemma geo_ray_ext_board : forall occ1 occ2 dirs sq,
  (forall s, s < 64 -> occ1 s = occ2 s) ->
  forall t, geo_ray_attacks_on occ1 dirs sq t = geo_ray_attacks_on occ2 dirs sq t.
Proof.
  intros occ1 occ2 dirs sq Hagree t. apply eq_true_iff_eq. rewrite !geo_ray_attacks_on_iff.
  split; intros [d [k [Hd [Hk [Hon [Hk_t Hclear]]]]]]; exists d, k;
    (split; [exact Hd | split; [exact Hk | split; [exact Hon | split; [exact Hk_t|]]]]);
    intros j Hj; [rewrite <- Hagree | rewrite Hagree]; try (apply Hclear; exact Hj);
    apply on_board_lt, Hon; lia.
Qed.

Definition mask_covers (mask : N -> N) (dirs : list coord) : bool :=
  forallb (fun sq =>
    let m := mask sq in
    negb (N.testbit m sq) &&
    forallb (fun d => forallb (fun j =>
      if on_board (stepc (sq_fr sq) d (S j)) then N.testbit m (fr_sq (stepc (sq_fr sq) d j)) else true)
      (seq 1 6)) dirs) squares.

Lemma rook_mask_covers : mask_covers rook_mask rook_dirs_geo = true.
Proof. vm_compute. reflexivity. Qed.
Lemma bishop_mask_covers : mask_covers bishop_mask bishop_dirs_geo = true.
Proof. vm_compute. reflexivity. Qed.

Lemma mask_covers_spec : forall mask dirs, mask_covers mask dirs = true ->
  (forall d, In d dirs -> unit_dir d) ->
  forall sq, sq < 64 ->
    N.testbit (mask sq) sq = false /\
    forall d j, In d dirs -> (1 <= j)%nat -> on_board (stepc (sq_fr sq) d (S j)) = true ->
      N.testbit (mask sq) (fr_sq (stepc (sq_fr sq) d j)) = true.
Proof.
  intros mask dirs Hcov Hunit sq Hsq. unfold mask_covers in Hcov.
  pose proof (forall_squares _ Hcov sq Hsq) as H. cbv beta zeta in H.
  apply andb_true_iff in H. destruct H as [H0 H]. split; [apply negb_true_iff, H0|].
  intros d j Hd Hj Hon. rewrite forallb_forall in H. specialize (H d Hd).
  rewrite forallb_forall in H.
  pose proof (ray_short d (Hunit d Hd) _ _ (sq_fr_on_board sq Hsq) Hon) as Hshort.
  specialize (H j ltac:(apply in_seq; lia)). rewrite Hon in H. exact H.
Qed.

(* a step j >= 1 never comes back to the origin *)
Lemma stepc_ne_origin : forall c d j, unit_dir d -> (1 <= j)%nat -> stepc c d j <> c.
Proof.
  intros [f r] [df dr] j [Hf [Hr Hne]] Hj Heq. cbn [fst snd] in Hf, Hr.
  unfold stepc in Heq. cbn [fst snd] in Heq. inversion Heq as [[H1 H2]].
  destruct Hf as [-> | [-> | ->]], Hr as [-> | [-> | ->]]; try lia. congruence.
Qed.

Section MaskIrrelevant.
Variable walker : N -> N -> N.
Variable mask : N -> N.
Variable dirs : list coord.
Hypothesis Hgeom : forall sq occ, sq < 64 -> N.testbit occ sq = false ->
  forall t, N.testbit (walker sq occ) t = geo_ray_attacks dirs sq occ t.
Hypothesis Hcov : mask_covers mask dirs = true.
Hypothesis Hunit : forall d, In d dirs -> unit_dir d.

Lemma masked_attacks_exact : forall sq occ, sq < 64 ->
  forall t, N.testbit (walker sq (N.land occ (mask sq))) t = geo_ray_attacks dirs sq occ t.
Proof.
  intros sq occ Hsq t. destruct (mask_covers_spec mask dirs Hcov Hunit sq Hsq) as [H0 Hin].
  rewrite Hgeom; [|exact Hsq | rewrite N.land_spec, H0; apply andb_false_r].
  unfold geo_ray_attacks. apply geo_ray_ext. intros d j Hd Hj Hon.
  rewrite N.land_spec, (Hin d j Hd Hj Hon). apply andb_true_r.
Qed.

Lemma mask_irrelevant_gen : forall sq occ, sq < 64 ->
  walker sq (N.land occ (mask sq)) = walker sq (N.ldiff occ (bit sq)).
Proof.
  intros sq occ Hsq. apply N.bits_inj. intros t. rewrite masked_attacks_exact by exact Hsq.
  rewrite Hgeom; [|exact Hsq | rewrite N.ldiff_spec, (bit_spec _ _ Hsq), N.eqb_refl; apply andb_false_r].
  unfold geo_ray_attacks. apply geo_ray_ext. intros d j Hd Hj Hon.
  rewrite N.ldiff_spec, (bit_spec _ _ Hsq).
  destruct (N.eqb_spec sq (fr_sq (stepc (sq_fr sq) d j))) as [Heq | Hne]; [|symmetry; apply andb_true_r].
  exfalso. apply (stepc_ne_origin (sq_fr sq) d j (Hunit d Hd) Hj).
  assert (Honj : on_board (stepc (sq_fr sq) d j) = true).
  { destruct (on_board (stepc (sq_fr sq) d j)) eqn:E; [reflexivity|].
    rewrite (off_board_next d (Hunit d Hd) _ j (sq_fr_on_board sq Hsq) E) in Hon. discriminate. }
  rewrite <- (sq_fr_fr_sq _ Honj), <- Heq. reflexivity.
Qed.
End MaskIrrelevant.

Theorem rook_mask_irrelevant : forall sq occ, sq < 64 ->
  rook_walk sq (N.land occ (rook_mask sq)) = rook_walk sq (N.ldiff occ (bit sq)).
Proof. exact (mask_irrelevant_gen rook_walk rook_mask rook_dirs_geo rook_walk_geom rook_mask_covers rook_dirs_unit). Qed.

Theorem bishop_mask_irrelevant : forall sq occ, sq < 64 ->
  bishop_walk sq (N.land occ (bishop_mask sq)) = bishop_walk sq (N.ldiff occ (bit sq)).
Proof. exact (mask_irrelevant_gen bishop_walk bishop_mask bishop_dirs_geo bishop_walk_geom bishop_mask_covers bishop_dirs_unit). Qed.

(* ---- (3) the attack functions (what the magic lookup returns, see Att/MagicInst.v) ---- *)
Theorem rook_attacks_exact : forall sq occ, sq < 64 ->
  forall t, N.testbit (rook_attacks sq occ) t = geo_ray_attacks rook_dirs_geo sq occ t.
Proof. exact (masked_attacks_exact rook_walk rook_mask rook_dirs_geo rook_walk_geom rook_mask_covers rook_dirs_unit). Qed.

Theorem bishop_attacks_exact : forall sq occ, sq < 64 ->
  forall t, N.testbit (bishop_attacks sq occ) t = geo_ray_attacks bishop_dirs_geo sq occ t.
Proof. exact (masked_attacks_exact bishop_walk bishop_mask bishop_dirs_geo bishop_walk_geom bishop_mask_covers bishop_dirs_unit). Qed.

Theorem queen_attacks_exact : forall sq occ, sq < 64 ->
  forall t, N.testbit (queen_attacks sq occ) t = geo_ray_attacks queen_dirs_geo sq occ t.
Proof.
  intros sq occ Hsq t. unfold queen_attacks, queen_dirs_geo, geo_ray_attacks.
  rewrite N.lor_spec, geo_ray_attacks_on_app.
  rewrite (rook_attacks_exact sq occ Hsq t), (bishop_attacks_exact sq occ Hsq t). reflexivity.
Qed.

Lemma rook_attacks_lt : forall sq occ, rook_attacks sq occ < two64.
Proof. intros sq occ. unfold rook_attacks. apply rook_walk_lt. Qed.
Lemma bishop_attacks_lt : forall sq occ, bishop_attacks sq occ < two64.
Proof. intros sq occ. unfold bishop_attacks. apply bishop_walk_lt. Qed.
Lemma queen_attacks_lt : forall sq occ, queen_attacks sq occ < two64.
Proof. intros sq occ. unfold queen_attacks. apply lor_lt; [apply rook_attacks_lt | apply bishop_attacks_lt]. Qed.

(* a slider always attacks something (used by the magic fill, whose collision test is "slot != 0") *)
Lemma geo_ray_neighbour : forall occupied dirs sq d, In d dirs -> on_board (stepc (sq_fr sq) d 1) = true ->
  geo_ray_attacks_on occupied dirs sq (fr_sq (stepc (sq_fr sq) d 1)) = true.
Proof.
  intros occupied dirs sq d Hd Hon. apply geo_ray_attacks_on_iff. exists d, 1%nat.
  split; [exact Hd|]. split; [lia|]. split; [|split].
  - intros j Hj. replace j with 1%nat by lia. exact Hon.
  - symmetry. apply sq_fr_fr_sq, Hon.
  - intros j Hj. lia.
Qed.

Definition has_neighbour (dirs : list coord) : bool :=
  forallb (fun sq => existsb (fun d => on_board (stepc (sq_fr sq) d 1)) dirs) squares.
Lemma rook_has_neighbour : has_neighbour rook_dirs_geo = true. Proof. vm_compute. reflexivity. Qed.
Lemma bishop_has_neighbour : has_neighbour bishop_dirs_geo = true. Proof. vm_compute. reflexivity. Qed.

Lemma nonzero_of_neighbour : forall walker dirs,
  (forall sq occ, sq < 64 -> N.testbit occ sq = false ->
     forall t, N.testbit (walker sq occ) t = geo_ray_attacks dirs sq occ t) ->
  has_neighbour dirs = true ->
  forall sq occ, sq < 64 -> N.testbit occ sq = false -> walker sq occ <> 0.
Proof.
  intros walker dirs Hgeom Hnb sq occ Hsq Hclear Hz.
  pose proof (forall_squares _ Hnb sq Hsq) as H. cbv beta in H. apply existsb_exists in H.
  destruct H as [d [Hd Hon]].
  pose proof (geo_ray_neighbour (N.testbit occ) dirs sq d Hd Hon) as Hatt.
  fold (geo_ray_attacks dirs sq occ (fr_sq (stepc (sq_fr sq) d 1))) in Hatt.
  rewrite <- Hgeom, Hz, N.bits_0 in Hatt by assumption. discriminate.
Qed.

Lemma rook_walk_nonzero_geom : forall sq occ, sq < 64 -> N.testbit occ sq = false -> rook_walk sq occ <> 0.
Proof. exact (nonzero_of_neighbour rook_walk rook_dirs_geo rook_walk_geom rook_has_neighbour). Qed.
Lemma bishop_walk_nonzero_geom : forall sq occ, sq < 64 -> N.testbit occ sq = false -> bishop_walk sq occ <> 0.
Proof. exact (nonzero_of_neighbour bishop_walk bishop_dirs_geo bishop_walk_geom bishop_has_neighbour). Qed.

(* ---- fuel: no result of the model's walker depends on the fuel running out ---- *)
Lemma walk_fuel_irrelevant : forall dir d, dir_step_ok dir d = true -> unit_dir d ->
  forall occ n sq acc, sq < 64 -> (7 <= n)%nat ->
  walk n dir (bit sq) occ acc = walk 8 dir (bit sq) occ acc.
Proof.
  intros dir d Hs Hu occ n sq acc Hsq Hn. rewrite <- (fr_sq_sq_fr sq).
  rewrite (walk_fuel_enough dir d Hs Hu occ n _ acc (sq_fr_on_board sq Hsq) Hn).
  rewrite (walk_fuel_enough dir d Hs Hu occ 8 _ acc (sq_fr_on_board sq Hsq)) by lia. reflexivity.
Qed.

Theorem fuel_sufficient : forall dir, In dir (rook_dirs ++ bishop_dirs) ->
  forall occ n sq acc, sq < 64 -> (7 <= n)%nat ->
  walk n dir (bit sq) occ acc = walk 8 dir (bit sq) occ acc.
Proof.
  intros dir Hin. cbn [rook_dirs bishop_dirs app In] in Hin.
  destruct Hin as [<- | [<- | [<- | [<- | [<- | [<- | [<- | [<- | []]]]]]]]].
  - exact (walk_fuel_irrelevant _ _ north_step unit_n).
  - exact (walk_fuel_irrelevant _ _ south_step unit_s).
  - exact (walk_fuel_irrelevant _ _ east_step unit_e).
  - exact (walk_fuel_irrelevant _ _ west_step unit_w).
  - exact (walk_fuel_irrelevant _ _ north_east_step unit_ne).
  - exact (walk_fuel_irrelevant _ _ north_west_step unit_nw).
  - exact (walk_fuel_irrelevant _ _ south_east_step unit_se).
  - exact (walk_fuel_irrelevant _ _ south_west_step unit_sw).
Qed.
