(* pkg/magic, pkg/pieces/rook, pkg/pieces/bishop: the magic tables of the Go build.
   gen/GoConsts.v holds the masks, multipliers, shifts and table lengths the Go build actually
   computed in magic.Init (seeded math/rand).  Here:
     (a) the generated masks/shifts/lengths are the ones the model computes;
     (b) every generated multiplier is a perfect hash on the subsets of its mask, in range;
     (c) the Carry-Rippler enumeration is complete for every mask;
     (d) no walker value on a subset is 0 (Go's collision test [Attacks[idx] != 0] relies on it);
     (e) hence the fill loop of magic.Init completes with these multipliers and
         AttacksBySquare (Attacks[Index(occ)]) = walker(sq, occ & Mask) = rook_attacks sq occ. *)
From Coq Require Import PeanoNat NArith List Bool Lia ZifyBool ZifyN ZifyNat.
From Clemens Require Import Base.Res Base.Word Pos.Types Att.Attacks Att.Magic.
From ClemensGen Require Import GoConsts.
Import ListNotations.
Open Scope N_scope.

Definition squares : list N := map N.of_nat (seq 0 64).

Lemma in_squares : forall sq, sq < 64 -> In sq squares.
Proof.
  intros sq Hsq. unfold squares. apply in_map_iff. exists (N.to_nat sq). split.
  - apply N2Nat.id.
  - apply in_seq. lia.
Qed.

(* ---------- (a) generated masks, shifts, table lengths ---------- *)

Definition consts_match_b (mask_of : N -> N) (masks shifts tablens : list N) (sq : N) : bool :=
  (nth (N.to_nat sq) masks 0 =? mask_of sq)
  && (nth (N.to_nat sq) shifts 0 =? 64 - popcount (mask_of sq))
  && (nth (N.to_nat sq) tablens 0 =? 2 ^ popcount (mask_of sq)).

Lemma consts_match_b_sound : forall mask_of masks shifts tablens sq,
  consts_match_b mask_of masks shifts tablens sq = true ->
  nth (N.to_nat sq) masks 0 = mask_of sq
  /\ nth (N.to_nat sq) shifts 0 = 64 - popcount (mask_of sq)
  /\ nth (N.to_nat sq) tablens 0 = 2 ^ popcount (mask_of sq).
Proof.
  intros mask_of masks shifts tablens sq H. unfold consts_match_b in H.
  apply andb_prop in H; destruct H as [H H3].
  apply andb_prop in H; destruct H as [H1 H2].
  apply N.eqb_eq in H1, H2, H3. auto.
Qed.

Lemma rook_consts_all :
  forallb (consts_match_b rook_mask rook_masks rook_shifts rook_tablens) squares = true.
Proof. vm_compute; reflexivity. Qed.

Lemma bishop_consts_all :
  forallb (consts_match_b bishop_mask bishop_masks bishop_shifts bishop_tablens) squares = true.
Proof. vm_compute; reflexivity. Qed.

Theorem rook_masks_match : forall sq, sq < 64 ->
  nth (N.to_nat sq) rook_masks 0 = rook_mask sq
  /\ nth (N.to_nat sq) rook_shifts 0 = 64 - popcount (rook_mask sq)
  /\ nth (N.to_nat sq) rook_tablens 0 = 2 ^ popcount (rook_mask sq).
Proof.
  intros sq Hsq. apply consts_match_b_sound.
  exact (proj1 (forallb_forall _ _) rook_consts_all sq (in_squares sq Hsq)).
Qed.

Theorem bishop_masks_match : forall sq, sq < 64 ->
  nth (N.to_nat sq) bishop_masks 0 = bishop_mask sq
  /\ nth (N.to_nat sq) bishop_shifts 0 = 64 - popcount (bishop_mask sq)
  /\ nth (N.to_nat sq) bishop_tablens 0 = 2 ^ popcount (bishop_mask sq).
Proof.
  intros sq Hsq. apply consts_match_b_sound.
  exact (proj1 (forallb_forall _ _) bishop_consts_all sq (in_squares sq Hsq)).
Qed.

(* ---------- (b)+(d) the per-square check on the generated multipliers ---------- *)

Definition square_ok (walk : N -> N -> N) (masks magics shifts tablens : list N) (sq : N) : bool :=
  magic_square_ok (walk sq)
    (nth (N.to_nat sq) masks 0) (nth (N.to_nat sq) magics 0)
    (nth (N.to_nat sq) shifts 0) (nth (N.to_nat sq) tablens 0).

Definition square_ok_fast (walk : N -> N -> N) (masks magics shifts tablens : list N) (sq : N)
  : bool :=
  magic_square_ok_fast (walk sq)
    (nth (N.to_nat sq) masks 0) (nth (N.to_nat sq) magics 0)
    (nth (N.to_nat sq) shifts 0) (nth (N.to_nat sq) tablens 0).

Lemma squares_ok_from_fast : forall walk masks magics shifts tablens,
  forallb (square_ok_fast walk masks magics shifts tablens) squares = true ->
  forallb (square_ok walk masks magics shifts tablens) squares = true.
Proof.
  intros walk masks magics shifts tablens H. apply forallb_forall. intros sq Hin.
  rewrite forallb_forall in H. specialize (H sq Hin).
  unfold square_ok. rewrite <- magic_square_ok_fast_eq. exact H.
Qed.

(* 102,400 subsets, 102,400 walker calls *)
Lemma rook_squares_ok :
  forallb (square_ok rook_walk rook_masks rook_magics rook_shifts rook_tablens) squares = true.
Proof. apply squares_ok_from_fast. vm_cast_no_check (@eq_refl bool true). Qed.

(* 5,248 subsets *)
Lemma bishop_squares_ok :
  forallb (square_ok bishop_walk bishop_masks bishop_magics bishop_shifts bishop_tablens) squares
  = true.
Proof. apply squares_ok_from_fast. vm_cast_no_check (@eq_refl bool true). Qed.

Lemma square_ok_at : forall walk masks magics shifts tablens,
  forallb (square_ok walk masks magics shifts tablens) squares = true ->
  forall sq, sq < 64 ->
  magic_entry_ok (nth (N.to_nat sq) masks 0) (nth (N.to_nat sq) magics 0)
                 (nth (N.to_nat sq) shifts 0) (nth (N.to_nat sq) tablens 0) = true
  /\ walker_nonzero_ok (walk sq) (nth (N.to_nat sq) masks 0) = true.
Proof.
  intros walk masks magics shifts tablens H sq Hsq. rewrite forallb_forall in H.
  specialize (H sq (in_squares sq Hsq)). unfold square_ok, magic_square_ok in H.
  apply andb_prop in H. exact H.
Qed.

(* (b) as a closed boolean fact: every generated multiplier is collision-free and in range *)
Theorem rook_entries_ok :
  forallb (fun sq => magic_entry_ok (nth (N.to_nat sq) rook_masks 0) (nth (N.to_nat sq) rook_magics 0)
                                    (nth (N.to_nat sq) rook_shifts 0) (nth (N.to_nat sq) rook_tablens 0))
          squares = true.
Proof.
  apply forallb_forall. intros sq Hin.
  pose proof rook_squares_ok as H. rewrite forallb_forall in H. specialize (H sq Hin).
  unfold square_ok, magic_square_ok in H. apply andb_prop in H. exact (proj1 H).
Qed.

Theorem bishop_entries_ok :
  forallb (fun sq => magic_entry_ok (nth (N.to_nat sq) bishop_masks 0) (nth (N.to_nat sq) bishop_magics 0)
                                    (nth (N.to_nat sq) bishop_shifts 0) (nth (N.to_nat sq) bishop_tablens 0))
          squares = true.
Proof.
  apply forallb_forall. intros sq Hin.
  pose proof bishop_squares_ok as H. rewrite forallb_forall in H. specialize (H sq Hin).
  unfold square_ok, magic_square_ok in H. apply andb_prop in H. exact (proj1 H).
Qed.

(* ---------- (c) completeness of the subset enumeration for every mask ---------- *)

Theorem rook_subsets_complete : forall sq, sq < 64 ->
  forall o, N.land o (rook_mask sq) = o -> In o (all_subsets (rook_mask sq)).
Proof.
  intros sq Hsq.
  destruct (square_ok_at _ _ _ _ _ rook_squares_ok sq Hsq) as [Hok _].
  destruct (rook_masks_match sq Hsq) as [Hm _]. rewrite Hm in Hok.
  exact (subsets_complete _ _ _ _ Hok).
Qed.

Theorem bishop_subsets_complete : forall sq, sq < 64 ->
  forall o, N.land o (bishop_mask sq) = o -> In o (all_subsets (bishop_mask sq)).
Proof.
  intros sq Hsq.
  destruct (square_ok_at _ _ _ _ _ bishop_squares_ok sq Hsq) as [Hok _].
  destruct (bishop_masks_match sq Hsq) as [Hm _]. rewrite Hm in Hok.
  exact (subsets_complete _ _ _ _ Hok).
Qed.

(* ---------- (d) attack sets of relevant occupancies are never empty ---------- *)

Theorem rook_walk_nonzero : forall sq, sq < 64 ->
  forall o, In o (all_subsets (rook_mask sq)) -> rook_walk sq o <> 0.
Proof.
  intros sq Hsq.
  destruct (square_ok_at _ _ _ _ _ rook_squares_ok sq Hsq) as [_ Hnz].
  destruct (rook_masks_match sq Hsq) as [Hm _]. rewrite Hm in Hnz.
  exact (walker_nonzero_ok_sound _ _ Hnz).
Qed.

Theorem bishop_walk_nonzero : forall sq, sq < 64 ->
  forall o, In o (all_subsets (bishop_mask sq)) -> bishop_walk sq o <> 0.
Proof.
  intros sq Hsq.
  destruct (square_ok_at _ _ _ _ _ bishop_squares_ok sq Hsq) as [_ Hnz].
  destruct (bishop_masks_match sq Hsq) as [Hm _]. rewrite Hm in Hnz.
  exact (walker_nonzero_ok_sound _ _ Hnz).
Qed.

(* ---------- (e) the tables of the Go build and the lookup ---------- *)

(* magics[sq].Attacks as magic.Init fills it with the multiplier the build ended up with *)
Definition rook_table (sq : N) : res (option (list N)) :=
  magic_fill (nth (N.to_nat sq) rook_masks 0) (nth (N.to_nat sq) rook_magics 0)
             (nth (N.to_nat sq) rook_shifts 0) (rook_walk sq).
Definition bishop_table (sq : N) : res (option (list N)) :=
  magic_fill (nth (N.to_nat sq) bishop_masks 0) (nth (N.to_nat sq) bishop_magics 0)
             (nth (N.to_nat sq) bishop_shifts 0) (bishop_walk sq).

(* rook.AttacksBySquare / bishop.AttacksBySquare *)
Definition rook_lookup (sq occ : N) : res N :=
  t <- rook_table sq ;;
  match t with
  | Some tbl => magic_lookup (nth (N.to_nat sq) rook_masks 0) (nth (N.to_nat sq) rook_magics 0)
                             (nth (N.to_nat sq) rook_shifts 0) tbl occ
  | None => Err
  end.
Definition bishop_lookup (sq occ : N) : res N :=
  t <- bishop_table sq ;;
  match t with
  | Some tbl => magic_lookup (nth (N.to_nat sq) bishop_masks 0) (nth (N.to_nat sq) bishop_magics 0)
                             (nth (N.to_nat sq) bishop_shifts 0) tbl occ
  | None => Err
  end.

(* the fill loop completes with the generated multiplier; the table has the generated length *)
Theorem rook_table_complete : forall sq, sq < 64 ->
  exists tbl, rook_table sq = Ok (Some tbl)
              /\ length tbl = N.to_nat (nth (N.to_nat sq) rook_tablens 0).
Proof.
  intros sq Hsq.
  destruct (square_ok_at _ _ _ _ _ rook_squares_ok sq Hsq) as [Hok Hnz].
  destruct (magic_entry_ok_correct _ _ _ _ (rook_walk sq) Hok (walker_nonzero_ok_sound _ _ Hnz))
    as (tbl & Hfill & Hlen & _).
  exists tbl. split; [exact Hfill | exact Hlen].
Qed.

Theorem bishop_table_complete : forall sq, sq < 64 ->
  exists tbl, bishop_table sq = Ok (Some tbl)
              /\ length tbl = N.to_nat (nth (N.to_nat sq) bishop_tablens 0).
Proof.
  intros sq Hsq.
  destruct (square_ok_at _ _ _ _ _ bishop_squares_ok sq Hsq) as [Hok Hnz].
  destruct (magic_entry_ok_correct _ _ _ _ (bishop_walk sq) Hok (walker_nonzero_ok_sound _ _ Hnz))
    as (tbl & Hfill & Hlen & _).
  exists tbl. split; [exact Hfill | exact Hlen].
Qed.

Theorem rook_magic_lookup_exact : forall sq occ, sq < 64 ->
  rook_lookup sq occ = Ok (rook_attacks sq occ).
Proof.
  intros sq occ Hsq.
  destruct (square_ok_at _ _ _ _ _ rook_squares_ok sq Hsq) as [Hok Hnz].
  destruct (magic_entry_ok_correct _ _ _ _ (rook_walk sq) Hok (walker_nonzero_ok_sound _ _ Hnz))
    as (tbl & Hfill & _ & Hlook).
  unfold rook_lookup, rook_table. rewrite Hfill. cbn [bind]. rewrite Hlook.
  destruct (rook_masks_match sq Hsq) as [Hm _]. rewrite Hm. reflexivity.
Qed.

Theorem bishop_magic_lookup_exact : forall sq occ, sq < 64 ->
  bishop_lookup sq occ = Ok (bishop_attacks sq occ).
Proof.
  intros sq occ Hsq.
  destruct (square_ok_at _ _ _ _ _ bishop_squares_ok sq Hsq) as [Hok Hnz].
  destruct (magic_entry_ok_correct _ _ _ _ (bishop_walk sq) Hok (walker_nonzero_ok_sound _ _ Hnz))
    as (tbl & Hfill & _ & Hlook).
  unfold bishop_lookup, bishop_table. rewrite Hfill. cbn [bind]. rewrite Hlook.
  destruct (bishop_masks_match sq Hsq) as [Hm _]. rewrite Hm. reflexivity.
Qed.

(* ---------- independence from the multiplier ---------- *)

(* The generic statement: for ANY mask, multiplier, shift and walker, whenever the fill loop of
   magic.Init completes, the lookup returns walker(occ & mask).  No computation involved. *)
Theorem magic_lookup_any_multiplier : forall (mask magic shift : N) (walker : N -> N) (tbl : list N),
  magic_fill mask magic shift walker = Ok (Some tbl) ->
  (forall o, In o (all_subsets mask) -> walker o <> 0) ->
  (forall o, N.land o mask = o -> In o (all_subsets mask)) ->
  forall occ, magic_lookup mask magic shift tbl occ = Ok (walker (N.land occ mask)).
Proof. exact magic_lookup_generic. Qed.

(* ... and for the two pieces: whatever multiplier and shift a run of magic.Init ends up with
   (another seed, another Go version's math/rand), the completed table answers exactly. *)
Theorem rook_lookup_any_multiplier : forall sq magic shift tbl, sq < 64 ->
  magic_fill (rook_mask sq) magic shift (rook_walk sq) = Ok (Some tbl) ->
  forall occ, magic_lookup (rook_mask sq) magic shift tbl occ = Ok (rook_attacks sq occ).
Proof.
  intros sq magic shift tbl Hsq Hfill occ.
  exact (magic_lookup_generic _ _ _ _ tbl Hfill (rook_walk_nonzero sq Hsq)
           (rook_subsets_complete sq Hsq) occ).
Qed.

Theorem bishop_lookup_any_multiplier : forall sq magic shift tbl, sq < 64 ->
  magic_fill (bishop_mask sq) magic shift (bishop_walk sq) = Ok (Some tbl) ->
  forall occ, magic_lookup (bishop_mask sq) magic shift tbl occ = Ok (bishop_attacks sq occ).
Proof.
  intros sq magic shift tbl Hsq Hfill occ.
  exact (magic_lookup_generic _ _ _ _ tbl Hfill (bishop_walk_nonzero sq Hsq)
           (bishop_subsets_complete sq Hsq) occ).
Qed.

Print Assumptions rook_masks_match.
Print Assumptions bishop_masks_match.
Print Assumptions rook_entries_ok.
Print Assumptions bishop_entries_ok.
Print Assumptions rook_subsets_complete.
Print Assumptions bishop_subsets_complete.
Print Assumptions rook_walk_nonzero.
Print Assumptions bishop_walk_nonzero.
Print Assumptions rook_table_complete.
Print Assumptions bishop_table_complete.
Print Assumptions rook_magic_lookup_exact.
Print Assumptions bishop_magic_lookup_exact.
Print Assumptions magic_lookup_any_multiplier.
Print Assumptions rook_lookup_any_multiplier.
Print Assumptions bishop_lookup_any_multiplier.
