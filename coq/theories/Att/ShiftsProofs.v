(* C12, bit level: what the 64-bit word operations, the eight one-step shifts and the fills do to
   each bit, for ALL boards (file masks are where wrap-around bugs live). *)
From Coq Require Import NArith ZArith List Bool Lia ZifyBool ZifyN ZifyNat Btauto.
From Clemens Require Import Base.Res Base.Word Pos.Types Att.Attacks.
Import ListNotations.
Open Scope N_scope.
Ltac Zify.zify_post_hook ::= Z.to_euclidean_division_equations.

(* ---- finite quantification over the 64 squares ---- *)
Definition squares : list N := map N.of_nat (seq 0 64).

Lemma in_squares : forall s, s < 64 -> In s squares.
Proof.
  intros s Hs. unfold squares. apply in_map_iff. exists (N.to_nat s). split; [lia|].
  apply in_seq. lia.
Qed.

Lemma squares_lt : forall s, In s squares -> s < 64.
Proof.
  intros s Hin. unfold squares in Hin. apply in_map_iff in Hin. destruct Hin as [n [Hn Hin]].
  apply in_seq in Hin. lia.
Qed.

Lemma forall_squares (P : N -> bool) : forallb P squares = true -> forall s, s < 64 -> P s = true.
Proof. intros Hall s Hs. rewrite forallb_forall in Hall. apply Hall, in_squares, Hs. Qed.

Lemma forall_squares2 (P : N -> N -> bool) :
  forallb (fun s => forallb (P s) squares) squares = true ->
  forall s t, s < 64 -> t < 64 -> P s t = true.
Proof.
  intros Hall s t Hs Ht.
  apply (forall_squares (P s)); [|exact Ht].
  apply (forall_squares (fun s => forallb (P s) squares)); assumption.
Qed.

(* ---- words ---- *)
Lemma two64_eq : two64 = 2 ^ 64.
Proof. reflexivity. Qed.
Lemma m64_eq : m64 = N.ones 64.
Proof. reflexivity. Qed.

Lemma testbit_high : forall a i, a < two64 -> 64 <= i -> N.testbit a i = false.
Proof.
  intros a i Ha Hi. rewrite two64_eq in Ha.
  rewrite <- (N.mod_small a (2 ^ 64) Ha). apply N.mod_pow2_bits_high. exact Hi.
Qed.

Lemma lt_two64_of_bits : forall a, (forall i, 64 <= i -> N.testbit a i = false) -> a < two64.
Proof.
  intros a Hbits. rewrite two64_eq.
  assert (Heq : a = a mod 2 ^ 64).
  { apply N.bits_inj. intros i. destruct (N.lt_ge_cases i 64) as [Hlt | Hge].
    - rewrite N.mod_pow2_bits_low by exact Hlt. reflexivity.
    - rewrite N.mod_pow2_bits_high by exact Hge. apply Hbits, Hge. }
  rewrite Heq. apply N.mod_lt. discriminate.
Qed.

Lemma testbit_m64 : forall i, N.testbit m64 i = (i <? 64).
Proof.
  intros i. rewrite m64_eq. destruct (N.ltb_spec i 64) as [Hlt | Hge].
  - apply N.ones_spec_low, Hlt.
  - apply N.ones_spec_high, Hge.
Qed.

Lemma w64_spec : forall x i, N.testbit (w64 x) i = (i <? 64) && N.testbit x i.
Proof. intros x i. unfold w64. rewrite N.land_spec, testbit_m64. apply andb_comm. Qed.

Lemma w64_lt : forall x, w64 x < two64.
Proof.
  intros x. apply lt_two64_of_bits. intros i Hi. rewrite w64_spec.
  destruct (N.ltb_spec i 64); [lia | reflexivity].
Qed.

Lemma w64_small : forall x, x < two64 -> w64 x = x.
Proof.
  intros x Hx. apply N.bits_inj. intros i. rewrite w64_spec.
  destruct (N.ltb_spec i 64) as [Hlt | Hge]; [reflexivity|].
  cbn [andb]. symmetry. apply testbit_high; assumption.
Qed.

Lemma shl64_spec : forall x s i,
  N.testbit (shl64 x s) i = (i <? 64) && (s <=? i) && N.testbit x (i - s).
Proof.
  intros x s i. unfold shl64. rewrite w64_spec.
  destruct (N.leb_spec s i) as [Hle | Hlt].
  - rewrite N.shiftl_spec_high' by exact Hle. rewrite andb_true_r. reflexivity.
  - rewrite N.shiftl_spec_low by exact Hlt. rewrite andb_false_r. reflexivity.
Qed.

Lemma shr64_spec : forall x s i, N.testbit (shr64 x s) i = N.testbit x (i + s).
Proof. intros x s i. unfold shr64. apply N.shiftr_spec'. Qed.

Lemma not64_spec : forall x i, N.testbit (not64 x) i = (i <? 64) && negb (N.testbit x i).
Proof.
  intros x i. unfold not64. rewrite N.lxor_spec, w64_spec, testbit_m64.
  destruct (i <? 64), (N.testbit x i); reflexivity.
Qed.

Lemma shl64_lt : forall x s, shl64 x s < two64.
Proof. intros x s. apply w64_lt. Qed.

Lemma shr64_lt : forall x s, x < two64 -> shr64 x s < two64.
Proof.
  intros x s Hx. apply lt_two64_of_bits. intros i Hi. rewrite shr64_spec.
  apply testbit_high; [exact Hx | lia].
Qed.

Lemma land_lt_l : forall a b, a < two64 -> N.land a b < two64.
Proof.
  intros a b Ha. apply lt_two64_of_bits. intros i Hi. rewrite N.land_spec.
  rewrite (testbit_high a i Ha Hi). reflexivity.
Qed.

Lemma land_lt_r : forall a b, b < two64 -> N.land a b < two64.
Proof. intros a b Hb. rewrite N.land_comm. apply land_lt_l, Hb. Qed.

Lemma lor_lt : forall a b, a < two64 -> b < two64 -> N.lor a b < two64.
Proof.
  intros a b Ha Hb. apply lt_two64_of_bits. intros i Hi. rewrite N.lor_spec.
  rewrite (testbit_high a i Ha Hi), (testbit_high b i Hb Hi). reflexivity.
Qed.

(* ---- single squares ---- *)
Lemma bit_spec : forall s i, s < 64 -> N.testbit (bit s) i = (s =? i).
Proof.
  intros s i Hs. unfold bit. rewrite shl64_spec.
  change 1 with (2 ^ 0) at 1. rewrite N.pow2_bits_eqb.
  destruct (N.ltb_spec i 64), (N.leb_spec s i), (N.eqb_spec 0 (i - s)), (N.eqb_spec s i);
    cbn [andb]; try reflexivity; lia.
Qed.

Lemma bit_lt : forall s, bit s < two64.
Proof. intros s. apply shl64_lt. Qed.

Lemma bit_off_board : forall s, 64 <= s -> bit s = 0.
Proof.
  intros s Hs. apply N.bits_inj. intros i. unfold bit. rewrite shl64_spec, N.bits_0.
  destruct (N.ltb_spec i 64) as [Hlt | Hge]; [|reflexivity].
  destruct (N.leb_spec s i); [lia | reflexivity].
Qed.

Lemma bit_nonzero : forall s, s < 64 -> bit s <> 0.
Proof.
  intros s Hs Heq. assert (Hb : N.testbit (bit s) s = true) by (rewrite bit_spec, N.eqb_refl; trivial).
  rewrite Heq, N.bits_0 in Hb. discriminate.
Qed.

Lemma bit_inj : forall s t, s < 64 -> t < 64 -> bit s = bit t -> s = t.
Proof.
  intros s t Hs Ht Heq. assert (Hb : N.testbit (bit s) t = true).
  { rewrite Heq, bit_spec, N.eqb_refl; trivial. }
  rewrite bit_spec in Hb by exact Hs. apply N.eqb_eq, Hb.
Qed.

(* bit s & occ = 0 exactly when s is clear in occ *)
Lemma land_bit_zero : forall s occ, s < 64 -> (N.land (bit s) occ =? 0) = negb (N.testbit occ s).
Proof.
  intros s occ Hs. destruct (N.testbit occ s) eqn:Hocc; cbn [negb].
  - apply N.eqb_neq. intros Heq.
    assert (Hb : N.testbit (N.land (bit s) occ) s = true).
    { rewrite N.land_spec, bit_spec, N.eqb_refl, Hocc; trivial. }
    rewrite Heq, N.bits_0 in Hb. discriminate.
  - apply N.eqb_eq, N.bits_inj. intros i. rewrite N.land_spec, bit_spec, N.bits_0 by exact Hs.
    destruct (N.eqb_spec s i) as [Heq | Hne]; [subst i; rewrite Hocc|]; reflexivity.
Qed.

(* ---- file masks ---- *)
Lemma notAFile_lt : notAFile < two64. Proof. reflexivity. Qed.
Lemma notHFile_lt : notHFile < two64. Proof. reflexivity. Qed.

Lemma testbit_notAFile : forall i, N.testbit notAFile i = (i <? 64) && negb (i mod 8 =? 0).
Proof.
  intros i. destruct (N.ltb_spec i 64) as [Hlt | Hge].
  - apply eqb_prop. revert i Hlt.
    apply (forall_squares (fun i => Bool.eqb (N.testbit notAFile i) (true && negb (i mod 8 =? 0)))).
    vm_compute. reflexivity.
  - apply testbit_high; [exact notAFile_lt | exact Hge].
Qed.

Lemma testbit_notHFile : forall i, N.testbit notHFile i = (i <? 64) && negb (i mod 8 =? 7).
Proof.
  intros i. destruct (N.ltb_spec i 64) as [Hlt | Hge].
  - apply eqb_prop. revert i Hlt.
    apply (forall_squares (fun i => Bool.eqb (N.testbit notHFile i) (true && negb (i mod 8 =? 7)))).
    vm_compute. reflexivity.
  - apply testbit_high; [exact notHFile_lt | exact Hge].
Qed.

(* ---- the eight one-step shifts, for every board b (bits of b above 63 never get in, except
   through the right shifts, which is why the engine keeps its boards below 2^64) ---- *)
Lemma north_one_spec : forall b i,
  N.testbit (north_one b) i = (i <? 64) && (8 <=? i) && N.testbit b (i - 8).
Proof. intros b i. unfold north_one. apply shl64_spec. Qed.

Lemma south_one_spec : forall b i, N.testbit (south_one b) i = N.testbit b (i + 8).
Proof. intros b i. unfold south_one. apply shr64_spec. Qed.

Lemma east_one_spec : forall b i,
  N.testbit (east_one b) i = (i <? 64) && negb (i mod 8 =? 0) && (1 <=? i) && N.testbit b (i - 1).
Proof.
  intros b i. unfold east_one. rewrite N.land_spec, shl64_spec, testbit_notAFile. btauto.
Qed.

Lemma north_east_one_spec : forall b i,
  N.testbit (north_east_one b) i
  = (i <? 64) && negb (i mod 8 =? 0) && (9 <=? i) && N.testbit b (i - 9).
Proof.
  intros b i. unfold north_east_one. rewrite N.land_spec, shl64_spec, testbit_notAFile. btauto.
Qed.

Lemma south_east_one_spec : forall b i,
  N.testbit (south_east_one b) i = (i <? 64) && negb (i mod 8 =? 0) && N.testbit b (i + 7).
Proof.
  intros b i. unfold south_east_one. rewrite N.land_spec, shr64_spec, testbit_notAFile. btauto.
Qed.

Lemma west_one_spec : forall b i,
  N.testbit (west_one b) i = (i <? 64) && negb (i mod 8 =? 7) && N.testbit b (i + 1).
Proof.
  intros b i. unfold west_one. rewrite N.land_spec, shr64_spec, testbit_notHFile. btauto.
Qed.

Lemma south_west_one_spec : forall b i,
  N.testbit (south_west_one b) i = (i <? 64) && negb (i mod 8 =? 7) && N.testbit b (i + 9).
Proof.
  intros b i. unfold south_west_one. rewrite N.land_spec, shr64_spec, testbit_notHFile. btauto.
Qed.

Lemma north_west_one_spec : forall b i,
  N.testbit (north_west_one b) i
  = (i <? 64) && negb (i mod 8 =? 7) && (7 <=? i) && N.testbit b (i - 7).
Proof.
  intros b i. unfold north_west_one. rewrite N.land_spec, shl64_spec, testbit_notHFile. btauto.
Qed.

(* all eight keep a board below 2^64 *)
Lemma north_one_lt : forall b, north_one b < two64.
Proof. intros b. apply shl64_lt. Qed.
Lemma south_one_lt : forall b, b < two64 -> south_one b < two64.
Proof. intros b Hb. apply shr64_lt, Hb. Qed.
Lemma east_one_lt : forall b, east_one b < two64.
Proof. intros b. apply land_lt_r, notAFile_lt. Qed.
Lemma north_east_one_lt : forall b, north_east_one b < two64.
Proof. intros b. apply land_lt_r, notAFile_lt. Qed.
Lemma south_east_one_lt : forall b, south_east_one b < two64.
Proof. intros b. apply land_lt_r, notAFile_lt. Qed.
Lemma west_one_lt : forall b, west_one b < two64.
Proof. intros b. apply land_lt_r, notHFile_lt. Qed.
Lemma south_west_one_lt : forall b, south_west_one b < two64.
Proof. intros b. apply land_lt_r, notHFile_lt. Qed.
Lemma north_west_one_lt : forall b, north_west_one b < two64.
Proof. intros b. apply land_lt_r, notHFile_lt. Qed.

(* ---- fills ---- *)
Ltac split_cmp :=
  repeat match goal with
  | |- context [?a <? ?b] => destruct (N.ltb_spec a b); try (exfalso; lia)
  | |- context [?a <=? ?b] => destruct (N.leb_spec a b); try (exfalso; lia)
  end.

Definition fill_offsets : list N := [8; 16; 24; 32; 40; 48; 56].

(* bit i of the north fill: bit i itself, or a bit 8, 16, ... 56 below it (i on the board) *)
Lemma north_fill_spec : forall b i,
  N.testbit (north_fill b) i
  = N.testbit b i || ((i <? 64) && existsb (fun d => (d <=? i) && N.testbit b (i - d)) fill_offsets).
Proof.
  intros b i. unfold north_fill. cbv zeta.
  repeat (rewrite ?N.lor_spec, ?shl64_spec).
  rewrite <- !N.sub_add_distr.
  change (32 + 16) with 48. change (32 + 8) with 40. change (16 + 8) with 24. change (48 + 8) with 56.
  unfold fill_offsets. cbn [existsb].
  split_cmp; cbn [andb orb]; btauto.
Qed.

Lemma south_fill_spec : forall b i,
  N.testbit (south_fill b) i = existsb (fun d => N.testbit b (i + d)) (0 :: fill_offsets).
Proof.
  intros b i. unfold south_fill. cbv zeta.
  repeat (rewrite ?N.lor_spec, ?shr64_spec).
  rewrite <- !N.add_assoc.
  change (32 + 16) with 48. change (32 + 8) with 40. change (16 + 8) with 24.
  change (32 + 24) with 56.
  unfold fill_offsets. cbn [existsb]. rewrite N.add_0_r. btauto.
Qed.

Lemma file_fill_spec : forall b i,
  N.testbit (file_fill b) i
  = N.testbit b i
    || ((i <? 64) && existsb (fun d => (d <=? i) && N.testbit b (i - d)) fill_offsets)
    || existsb (fun d => N.testbit b (i + d)) fill_offsets.
Proof.
  intros b i. unfold file_fill. rewrite N.lor_spec, north_fill_spec, south_fill_spec.
  cbn [existsb]. rewrite N.add_0_r. btauto.
Qed.

(* in words, for boards below 2^64: bit i of the file fill is set iff some bit of b lies on the
   same file as i *)
Lemma north_fill_lt : forall b, b < two64 -> north_fill b < two64.
Proof.
  intros b Hb. unfold north_fill. cbv zeta. repeat apply lor_lt; try apply shl64_lt; exact Hb.
Qed.

Lemma south_fill_lt : forall b, b < two64 -> south_fill b < two64.
Proof.
  intros b Hb. unfold south_fill. cbv zeta.
  repeat first [apply lor_lt | apply shr64_lt | exact Hb].
Qed.

Lemma file_fill_lt : forall b, b < two64 -> file_fill b < two64.
Proof. intros b Hb. apply lor_lt; [apply north_fill_lt | apply south_fill_lt]; exact Hb. Qed.

Lemma fill_offsets_in : forall d,
  In d fill_offsets <-> d = 8 \/ d = 16 \/ d = 24 \/ d = 32 \/ d = 40 \/ d = 48 \/ d = 56.
Proof. intros d. unfold fill_offsets. cbn [In]. intuition congruence. Qed.

Lemma file_fill_same_file : forall b i, b < two64 -> i < 64 ->
  (N.testbit (file_fill b) i = true <-> exists j, j < 64 /\ j mod 8 = i mod 8 /\ N.testbit b j = true).
Proof.
  intros b i Hb Hi. rewrite file_fill_spec.
  rewrite !orb_true_iff, andb_true_iff, !existsb_exists.
  assert (Hlt : forall j, N.testbit b j = true -> j < 64).
  { intros j Hj. destruct (N.lt_ge_cases j 64) as [Hlt | Hge]; [exact Hlt|].
    rewrite (testbit_high b j Hb Hge) in Hj. discriminate. }
  split.
  - intros [[Hbit | [_ [d [Hin Hd]]]] | [d [Hin Hbit]]].
    + exists i. auto.
    + apply andb_true_iff in Hd. destruct Hd as [Hle Hbit]. apply fill_offsets_in in Hin.
      exists (i - d). split; [lia|]. split; [lia | exact Hbit].
    + apply fill_offsets_in in Hin. exists (i + d). split; [apply Hlt, Hbit|].
      split; [lia | exact Hbit].
  - intros [j [Hj [Hmod Hbit]]].
    destruct (N.lt_trichotomy j i) as [Hji | [-> | Hij]].
    + left. right. split; [apply N.ltb_lt, Hi|]. exists (i - j). split.
      * apply fill_offsets_in. lia.
      * replace (i - (i - j)) with j by lia. rewrite Hbit.
        destruct (N.leb_spec (i - j) i); [reflexivity | lia].
    + left. left. exact Hbit.
    + right. exists (j - i). split.
      * apply fill_offsets_in. lia.
      * replace (i + (j - i)) with j by lia. exact Hbit.
Qed.
