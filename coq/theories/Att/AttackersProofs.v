(* C12, positions: SquareAttackedBy returns exactly the squares whose piece attacks the target under
   the geometric rules, and IsInCheck is exactly "the king's square is attacked by an enemy piece". *)
From Coq Require Import NArith ZArith List Bool Lia ZifyBool ZifyN ZifyNat Btauto.
From Clemens Require Import Base.Res Base.Word Pos.Types Att.Attacks Att.Geometry Att.ShiftsProofs
  Att.SlidingProofs Att.LeaperInst Pos.Position Pos.Inv.
From ClemensGen Require Import GoConsts.
Import ListNotations.
Open Scope N_scope.
Ltac Zify.zify_post_hook ::= Z.to_euclidean_division_equations.

(* ---- reference notions on a position ---- *)
Definition occupied_in (p : position) (s : N) : bool := negb (piece_at p s =? NO_PIECE).
(* the piece standing on [from] attacks [to] *)
Definition attacks_geo (p : position) (from to : N) : bool :=
  geo_piece_attacks (occupied_in p) (piece_at p from) from to.
(* pc is a piece of colour c *)
Definition is_piece_of (c pc : N) : bool := negb (pc =? NO_PIECE) && (piece_color pc =? c).
(* some piece of colour c attacks sq *)
Definition attacked_by_color (p : position) (c sq : N) : bool :=
  existsb (fun s => is_piece_of c (piece_at p s) && attacks_geo p s sq) squares.

(* ---- symmetry of the geometric attacks ---- *)
Definition neg_dir (d : coord) : coord := (- fst d, - snd d)%Z.

Lemma stepc_back : forall c d k j, (j <= k)%nat -> stepc (stepc c d k) (neg_dir d) j = stepc c d (k - j).
Proof.
  intros [f r] [df dr] k j Hj. unfold stepc, neg_dir. cbn [fst snd].
  rewrite Nat2Z.inj_sub by exact Hj. f_equal; ring.
Qed.

Lemma ray_hit_rev : forall occupied d s t k, s < 64 -> (1 <= k)%nat ->
  ray_hit_P occupied d (sq_fr s) t k 1 -> ray_hit_P occupied (neg_dir d) (sq_fr t) s k 1.
Proof.
  intros occupied d s t k Hs Hk [Hon [Hk_t Hclear]]. rewrite <- Hk_t. split; [|split].
  - intros j Hj. rewrite stepc_back by lia. destruct (Nat.eq_dec j k) as [-> | Hne].
    + rewrite Nat.sub_diag, stepc_0. apply sq_fr_on_board, Hs.
    + apply Hon. lia.
  - rewrite stepc_back by lia. rewrite Nat.sub_diag. apply stepc_0.
  - intros j Hj. rewrite stepc_back by lia. apply Hclear. lia.
Qed.

Lemma geo_ray_sym : forall occupied dirs, (forall d, In d dirs -> In (neg_dir d) dirs) ->
  forall s t, s < 64 -> t < 64 ->
  geo_ray_attacks_on occupied dirs s t = geo_ray_attacks_on occupied dirs t s.
Proof.
  intros occupied dirs Hneg.
  assert (Himp : forall s t, s < 64 -> geo_ray_attacks_on occupied dirs s t = true ->
                             geo_ray_attacks_on occupied dirs t s = true).
  { intros s t Hs H. apply geo_ray_attacks_on_iff in H. destruct H as [d [k [Hd [Hk Hhit]]]].
    apply geo_ray_attacks_on_iff. exists (neg_dir d), k. split; [apply Hneg, Hd|]. split; [exact Hk|].
    apply ray_hit_rev; [exact Hs | lia | exact Hhit]. }
  intros s t Hs Ht. apply eq_true_iff_eq. split; apply Himp; assumption.
Qed.

Lemma rook_dirs_neg : forall d, In d rook_dirs_geo -> In (neg_dir d) rook_dirs_geo.
Proof. intros d [<- | [<- | [<- | [<- | []]]]]; cbn; tauto. Qed.
Lemma bishop_dirs_neg : forall d, In d bishop_dirs_geo -> In (neg_dir d) bishop_dirs_geo.
Proof. intros d [<- | [<- | [<- | [<- | []]]]]; cbn; tauto. Qed.

Definition sym_ok (g h : N -> N -> bool) : bool :=
  forallb (fun s => forallb (fun t => Bool.eqb (g s t) (h t s)) squares) squares.
Lemma sym_ok_spec : forall g h, sym_ok g h = true -> forall s t, s < 64 -> t < 64 -> g s t = h t s.
Proof.
  intros g h H s t Hs Ht. apply eqb_prop.
  exact (forall_squares2 (fun s t => Bool.eqb (g s t) (h t s)) H s t Hs Ht).
Qed.

Lemma knight_sym_ok : sym_ok geo_knight geo_knight = true. Proof. vm_compute. reflexivity. Qed.
Lemma king_sym_ok : sym_ok geo_king geo_king = true. Proof. vm_compute. reflexivity. Qed.
(* colour reversal: a white pawn placed on s would attack t iff a black pawn on t attacks s *)
Lemma pawn_sym_ok : sym_ok (geo_pawn_attack 0) (geo_pawn_attack 1) = true. Proof. vm_compute. reflexivity. Qed.
Lemma pawn_sym_ok' : sym_ok (geo_pawn_attack 1) (geo_pawn_attack 0) = true. Proof. vm_compute. reflexivity. Qed.

Definition lt64_ok (f : N -> N) : bool := forallb (fun s => f s <? two64) squares.
Lemma lt64_ok_spec : forall f, lt64_ok f = true -> forall s, s < 64 -> f s < two64.
Proof. intros f H s Hs. apply N.ltb_lt. exact (forall_squares _ H s Hs). Qed.
Lemma knight_attacks_lt : forall s, s < 64 -> knight_attacks s < two64.
Proof. apply lt64_ok_spec. vm_compute. reflexivity. Qed.
Lemma king_attacks_lt : forall s, s < 64 -> king_attacks s < two64.
Proof. apply lt64_ok_spec. vm_compute. reflexivity. Qed.
Lemma pawn_attacks_white_lt : forall s, s < 64 -> pawn_attacks WHITE s < two64.
Proof. apply lt64_ok_spec. vm_compute. reflexivity. Qed.
Lemma pawn_attacks_black_lt : forall s, s < 64 -> pawn_attacks BLACK s < two64.
Proof. apply lt64_ok_spec. vm_compute. reflexivity. Qed.

(* ---- bit scan ---- *)
Lemma ctz_pos_bit : forall q, N.testbit (Npos q) (ctz_pos q) = true.
Proof.
  induction q as [q IH | q IH |]; cbn [ctz_pos]; try reflexivity.
  rewrite N.add_1_l. change (N.pos q~0) with (2 * N.pos q). rewrite N.double_bits_succ. exact IH.
Qed.

Lemma lsb_spec : forall b, b <> 0 -> exists k, lsb b = Ok k /\ N.testbit b k = true.
Proof.
  intros [|q] Hb; [contradiction|]. exists (ctz_pos q). split; [reflexivity | apply ctz_pos_bit].
Qed.

Lemma nonzero_bits : forall x, x < two64 -> negb (x =? 0) = existsb (fun s => N.testbit x s) squares.
Proof.
  intros x Hx. apply eq_true_iff_eq. rewrite negb_true_iff, N.eqb_neq, existsb_exists. split.
  - intros Hne. destruct (lsb_spec x Hne) as [k [_ Hk]]. exists k. split; [|exact Hk].
    apply in_squares. destruct (N.lt_ge_cases k 64) as [Hlt | Hge]; [exact Hlt|].
    rewrite (testbit_high x k Hx Hge) in Hk. discriminate.
  - intros [s [_ Hs]] Hz. rewrite Hz, N.bits_0 in Hs. discriminate.
Qed.

Lemma pop_pos_pos : forall q, 1 <= pop_pos q.
Proof. induction q as [q IH | q IH |]; cbn [pop_pos]; lia. Qed.

Lemma pop_one_unique : forall q, pop_pos q = 1 ->
  forall j, N.testbit (Npos q) j = true -> j = ctz_pos q.
Proof.
  induction q as [q IH | q IH |]; cbn [pop_pos ctz_pos]; intros Hpop j Hj.
  - pose proof (pop_pos_pos q). lia.
  - destruct (N.eq_dec j 0) as [-> | Hne]; [discriminate Hj|].
    rewrite <- (N.succ_pred j Hne) in Hj |- *. change (N.pos q~0) with (2 * N.pos q) in Hj.
    rewrite N.double_bits_succ in Hj. rewrite (IH Hpop _ Hj). lia.
  - destruct (N.eq_dec j 0) as [-> | Hne]; [reflexivity|].
    rewrite <- (N.succ_pred j Hne) in Hj. change 1 with (2 * 0 + 1) in Hj at 1.
    rewrite N.testbit_odd_succ in Hj by lia. rewrite N.bits_0 in Hj. discriminate.
Qed.

(* ---- a position whose views agree ---- *)
Section WF.
Variable p : position.
Hypothesis Hwf : board_wf p = true.
Hypothesis Hagree : bbs_agree p = true.
Hypothesis Hhelp : helpers_agree p = true.

Lemma squares64_eq : squares64 = squares. Proof. reflexivity. Qed.

Lemma board_len : length (board p) = 64%nat.
Proof. pose proof Hwf as H. unfold board_wf in H. apply andb_true_iff in H. apply Nat.eqb_eq, (proj1 H). Qed.

Lemma bbs_len : length (bbs p) = 12%nat.
Proof. pose proof Hagree as H. unfold bbs_agree in H. apply andb_true_iff in H. apply Nat.eqb_eq, (proj1 H). Qed.

Lemma piece_cases : forall s, s < 64 ->
  let pc := piece_at p s in
  pc = 0 \/ pc = 1 \/ pc = 2 \/ pc = 3 \/ pc = 4 \/ pc = 5 \/ pc = 6
  \/ pc = 9 \/ pc = 10 \/ pc = 11 \/ pc = 12 \/ pc = 13 \/ pc = 14.
Proof.
  intros s Hs pc. pose proof Hwf as H. unfold board_wf in H. apply andb_true_iff in H. destruct H as [_ Hall].
  rewrite forallb_forall in Hall.
  assert (Hin : In pc (board p)). { apply nth_In. rewrite board_len. lia. }
  specialize (Hall pc Hin). unfold valid_piece in Hall. lia.
Qed.

Lemma ct_in : forall c t, c < 2 -> t < 6 -> In (c, t) ct_pairs.
Proof.
  intros c t Hc Ht.
  assert (Hc' : c = 0 \/ c = 1) by lia.
  assert (Ht' : t = 0 \/ t = 1 \/ t = 2 \/ t = 3 \/ t = 4 \/ t = 5) by lia.
  destruct Hc' as [-> | ->], Ht' as [-> | [-> | [-> | [-> | [-> | ->]]]]];
    vm_compute; repeat (try (left; reflexivity); right).
Qed.

Lemma bb_spec : forall c t, c < 2 -> t < 6 ->
  bb_at p c t < two64 /\
  forall s, s < 64 -> N.testbit (bb_at p c t) s = (piece_at p s =? new_piece c t).
Proof.
  intros c t Hc Ht. pose proof Hagree as H. unfold bbs_agree in H. apply andb_true_iff in H.
  destruct H as [_ Hall]. rewrite forallb_forall in Hall.
  specialize (Hall (c, t) (ct_in c t Hc Ht)). cbv beta iota in Hall.
  apply andb_true_iff in Hall. destruct Hall as [Hlt Hbits]. split; [apply N.ltb_lt, Hlt|].
  intros s Hs. apply eqb_prop. rewrite squares64_eq in Hbits.
  exact (forall_squares _ Hbits s Hs).
Qed.

Lemma bb_bit : forall c t s, c < 2 -> t < 6 -> s < 64 ->
  N.testbit (bb_at p c t) s = (piece_at p s =? new_piece c t).
Proof. intros c t s Hc Ht Hs. exact (proj2 (bb_spec c t Hc Ht) s Hs). Qed.

Lemma bb_lt : forall c t, c < 2 -> t < 6 -> bb_at p c t < two64.
Proof. intros c t Hc Ht. exact (proj1 (bb_spec c t Hc Ht)). Qed.

Lemma get_bb_ok : forall c t, c < 2 -> t < 6 -> get_bb p c t = Ok (bb_at p c t).
Proof.
  intros c t Hc Ht. unfold get_bb, bb_index, bb_at.
  destruct (N.ltb_spec c 2); [|lia]. destruct (N.ltb_spec t 6); [|lia]. cbn [andb bind].
  unfold nth_res. rewrite (nth_error_nth' (bbs p) 0); [reflexivity|]. rewrite bbs_len. lia.
Qed.

Lemma by_color_eq : by_color p = [union6 p 0; union6 p 1]
                    /\ all_pieces p = N.lor (union6 p 0) (union6 p 1).
Proof.
  pose proof Hhelp as H. unfold helpers_agree in H. destruct (by_color p) as [|w [|b [|x l]]]; try discriminate.
  apply andb_true_iff in H. destruct H as [H12 H3]. apply andb_true_iff in H12.
  destruct H12 as [H1 H2]. apply N.eqb_eq in H1, H2, H3. subst w b. split; [reflexivity | exact H3].
Qed.

Lemma color_bb_ok : forall c, c < 2 -> color_bb p c = Ok (union6 p c).
Proof.
  intros c Hc. unfold color_bb. rewrite (proj1 by_color_eq).
  assert (Hc' : c = 0 \/ c = 1) by lia. destruct Hc' as [-> | ->]; reflexivity.
Qed.

Ltac np_norm :=
  repeat match goal with
  | |- context [new_piece ?c ?t] =>
      let x := eval vm_compute in (new_piece c t) in change (new_piece c t) with x
  end.

Ltac pc_cases s Hs :=
  let H := fresh "Hpc" in
  pose proof (piece_cases s Hs) as H; cbv zeta in H;
  destruct H as [H | [H | [H | [H | [H | [H | [H | [H | [H | [H | [H | [H | H]]]]]]]]]]]];
  rewrite H.

Lemma union6_spec : forall c s, c < 2 -> s < 64 ->
  N.testbit (union6 p c) s = is_piece_of c (piece_at p s).
Proof.
  intros c s Hc Hs. unfold union6. cbn [map fold_left]. rewrite !N.lor_spec, N.bits_0.
  assert (Hc' : c = 0 \/ c = 1) by lia.
  destruct Hc' as [-> | ->];
    rewrite !bb_bit by (try exact Hs; lia); np_norm;
    unfold is_piece_of, NO_PIECE, piece_color; pc_cases s Hs; reflexivity.
Qed.

Lemma union6_lt : forall c, c < 2 -> union6 p c < two64.
Proof.
  intros c Hc. unfold union6. cbn [map fold_left].
  repeat apply lor_lt; try (apply bb_lt; lia). reflexivity.
Qed.

Lemma occ_spec : forall s, s < 64 -> N.testbit (all_pieces p) s = occupied_in p s.
Proof.
  intros s Hs. rewrite (proj2 by_color_eq), N.lor_spec, !union6_spec by (try exact Hs; lia).
  unfold is_piece_of, occupied_in, NO_PIECE, piece_color. pc_cases s Hs; reflexivity.
Qed.

(* the rays see the same board through all_pieces as through the square array *)
Lemma ray_occ : forall dirs sq t,
  geo_ray_attacks dirs sq (all_pieces p) t = geo_ray_attacks_on (occupied_in p) dirs sq t.
Proof. intros dirs sq t. unfold geo_ray_attacks. apply geo_ray_ext_board. exact occ_spec. Qed.

Definition attackers_bb (sq : N) : N :=
  let occ := all_pieces p in
  let a := N.land (knight_attacks sq) (N.lor (bb_at p 0 1) (bb_at p 1 1)) in
  let a := N.lor a (N.land (king_attacks sq) (N.lor (bb_at p 0 5) (bb_at p 1 5))) in
  let a := N.lor a (N.land (bishop_attacks sq occ)
                           (N.lor (N.lor (bb_at p 0 2) (bb_at p 1 2)) (N.lor (bb_at p 0 4) (bb_at p 1 4)))) in
  let a := N.lor a (N.land (rook_attacks sq occ)
                           (N.lor (N.lor (bb_at p 0 3) (bb_at p 1 3)) (N.lor (bb_at p 0 4) (bb_at p 1 4)))) in
  let a := N.lor a (N.land (pawn_attacks WHITE sq) (bb_at p 1 0)) in
  N.lor a (N.land (pawn_attacks BLACK sq) (bb_at p 0 0)).

Lemma square_attacked_by_ok : forall sq, sq < 64 -> square_attacked_by p sq = Ok (attackers_bb sq).
Proof.
  intros sq Hsq. unfold square_attacked_by, bbs2, WHITE, BLACK, KNIGHT, KING, BISHOP, ROOK, QUEEN, PAWN.
  destruct (N.ltb_spec sq 64); [|lia]. cbn [negb].
  rewrite !get_bb_ok by lia. reflexivity.
Qed.

Lemma attackers_bb_lt : forall sq, sq < 64 -> attackers_bb sq < two64.
Proof.
  intros sq Hsq. unfold attackers_bb. cbv zeta.
  repeat apply lor_lt; apply land_lt_l;
    first [ apply knight_attacks_lt, Hsq | apply king_attacks_lt, Hsq | apply bishop_attacks_lt
          | apply rook_attacks_lt | apply pawn_attacks_white_lt, Hsq | apply pawn_attacks_black_lt, Hsq ].
Qed.

Lemma attackers_bb_spec : forall sq s, sq < 64 -> s < 64 ->
  N.testbit (attackers_bb sq) s = attacks_geo p s sq.
Proof.
  intros sq s Hsq Hs. unfold attackers_bb. cbv zeta.
  rewrite !N.lor_spec, !N.land_spec, !N.lor_spec.
  rewrite !bb_bit by (try exact Hs; lia). np_norm.
  rewrite (knight_attacks_exact sq Hsq), (king_attacks_exact sq Hsq),
    (bishop_attacks_exact sq _ Hsq), (rook_attacks_exact sq _ Hsq),
    (pawn_attacks_exact WHITE sq Hsq), (pawn_attacks_exact BLACK sq Hsq), !ray_occ.
  rewrite (sym_ok_spec _ _ knight_sym_ok sq s Hsq Hs), (sym_ok_spec _ _ king_sym_ok sq s Hsq Hs),
    (geo_ray_sym _ _ bishop_dirs_neg sq s Hsq Hs), (geo_ray_sym _ _ rook_dirs_neg sq s Hsq Hs).
  change WHITE with 0. change BLACK with 1.
  rewrite (sym_ok_spec _ _ pawn_sym_ok sq s Hsq Hs), (sym_ok_spec _ _ pawn_sym_ok' sq s Hsq Hs).
  unfold attacks_geo.
  pc_cases s Hs; cbn [geo_piece_attacks N.eqb Pos.eqb];
    try (unfold queen_dirs_geo; rewrite geo_ray_attacks_on_app); btauto.
Qed.

(* (5) SquareAttackedBy is exact *)
Theorem attackers_exact_wf : forall sq, sq < 64 ->
  exists a, square_attacked_by p sq = Ok a /\ a < two64 /\
            forall s, s < 64 -> N.testbit a s = attacks_geo p s sq.
Proof.
  intros sq Hsq. exists (attackers_bb sq). split; [apply square_attacked_by_ok, Hsq|].
  split; [apply attackers_bb_lt, Hsq|]. intros s Hs. apply attackers_bb_spec; assumption.
Qed.

(* IsInCheck, given the square of c's only king *)
Lemma in_check_at : forall c ksq, c < 2 -> ksq < 64 ->
  piece_at p ksq = new_piece c KING ->
  (forall s, s < 64 -> piece_at p s = new_piece c KING -> s = ksq) ->
  is_in_check p c = Ok (attacked_by_color p (switch_color c) ksq).
Proof.
  intros c ksq Hc Hk Hking Huniq. unfold is_in_check, KING in *.
  rewrite (get_bb_ok c 5 Hc ltac:(lia)).
  destruct (bb_spec c 5 Hc ltac:(lia)) as [Hkb_lt Hkb].
  assert (Hne : bb_at p c 5 <> 0).
  { intros Hz. pose proof (Hkb ksq Hk) as H. rewrite Hz, N.bits_0, Hking, N.eqb_refl in H. discriminate. }
  destruct (lsb_spec _ Hne) as [k [Hlsb Hbit]]. cbn [bind]. rewrite Hlsb. cbn [bind].
  assert (Hk64 : k < 64).
  { destruct (N.lt_ge_cases k 64) as [Hlt | Hge]; [exact Hlt|].
    rewrite (testbit_high _ k Hkb_lt Hge) in Hbit. discriminate. }
  assert (Heq : k = ksq).
  { apply Huniq; [exact Hk64|]. rewrite (Hkb k Hk64) in Hbit. apply N.eqb_eq, Hbit. }
  subst k. rewrite (square_attacked_by_ok ksq Hk). cbn [bind].
  assert (Hsw : switch_color c < 2).
  { unfold switch_color, BLACK, WHITE. destruct (c =? 1); lia. }
  rewrite (color_bb_ok _ Hsw). cbn [bind]. f_equal.
  rewrite nonzero_bits by (apply land_lt_l, attackers_bb_lt, Hk).
  unfold attacked_by_color.
  (* the two existsb agree square by square *)
  assert (Hext : forall l, (forall s, In s l -> s < 64) ->
            existsb (fun s => N.testbit (N.land (attackers_bb ksq) (union6 p (switch_color c))) s) l
            = existsb (fun s => is_piece_of (switch_color c) (piece_at p s) && attacks_geo p s ksq) l).
  { induction l as [|s l IH]; intros Hl; [reflexivity|]. cbn [existsb].
    rewrite IH by (intros s' Hs'; apply Hl; right; exact Hs').
    assert (Hs : s < 64) by (apply Hl; left; reflexivity).
    rewrite N.land_spec, (attackers_bb_spec ksq s Hk Hs), (union6_spec _ s Hsw Hs).
    rewrite (andb_comm (attacks_geo p s ksq)). reflexivity. }
  apply Hext. exact squares_lt.
Qed.

End WF.

(* ---- the statements, closed ---- *)
Theorem attackers_exact : forall p sq,
  board_wf p = true -> bbs_agree p = true -> helpers_agree p = true -> sq < 64 ->
  exists a, square_attacked_by p sq = Ok a /\ a < two64 /\
            forall s, s < 64 -> N.testbit a s = attacks_geo p s sq.
Proof. intros p sq Hwf Hagree Hhelp Hsq. exact (attackers_exact_wf p Hwf Hagree Hhelp sq Hsq). Qed.

(* exactly one king of colour c (part of the C10 invariant): its square exists and is unique *)
Lemma king_square : forall p c,
  board_wf p = true -> bbs_agree p = true -> c < 2 -> popcount (bb_at p c 5) = 1 ->
  exists ksq, ksq < 64 /\ piece_at p ksq = new_piece c KING /\
              forall s, s < 64 -> piece_at p s = new_piece c KING -> s = ksq.
Proof.
  intros p c Hwf Hagree Hc Hpop. unfold KING.
  destruct (bb_spec p Hagree c 5 Hc ltac:(lia)) as [Hlt Hbits].
  destruct (bb_at p c 5) as [|q] eqn:Ebb; [discriminate Hpop|]. cbn [popcount] in Hpop.
  pose proof (ctz_pos_bit q) as Hbit.
  assert (Hk64 : ctz_pos q < 64).
  { destruct (N.lt_ge_cases (ctz_pos q) 64) as [H | H]; [exact H|].
    rewrite (testbit_high _ _ Hlt H) in Hbit. discriminate. }
  exists (ctz_pos q). split; [exact Hk64|]. split.
  - rewrite (Hbits _ Hk64) in Hbit. apply N.eqb_eq, Hbit.
  - intros s Hs Hking. apply (pop_one_unique q Hpop). rewrite (Hbits s Hs), Hking. apply N.eqb_refl.
Qed.

Theorem in_check_exact : forall p c,
  board_wf p = true -> bbs_agree p = true -> helpers_agree p = true -> one_king_each p = true ->
  c < 2 ->
  exists ksq, ksq < 64 /\ piece_at p ksq = new_piece c KING /\
              (forall s, s < 64 -> piece_at p s = new_piece c KING -> s = ksq) /\
              is_in_check p c = Ok (attacked_by_color p (switch_color c) ksq).
Proof.
  intros p c Hwf Hagree Hhelp Hone Hc.
  assert (Hpop : popcount (bb_at p c 5) = 1).
  { unfold one_king_each in Hone. apply andb_true_iff in Hone. destruct Hone as [H0 H1].
    apply N.eqb_eq in H0, H1. assert (Hc' : c = 0 \/ c = 1) by lia. destruct Hc' as [-> | ->]; assumption. }
  destruct (king_square p c Hwf Hagree Hc Hpop) as [ksq [Hk [Hking Huniq]]].
  exists ksq. split; [exact Hk|]. split; [exact Hking|]. split; [exact Huniq|].
  exact (in_check_at p Hwf Hagree Hhelp c ksq Hc Hk Hking Huniq).
Qed.

(* Inv implies the hypotheses *)
Lemma Inv_views : forall p, Inv p ->
  board_wf p = true /\ bbs_agree p = true /\ helpers_agree p = true /\ one_king_each p = true.
Proof.
  intros p H. unfold Inv, inv_b in H. do 8 (apply andb_true_iff in H; destruct H as [H ?]).
  repeat split; assumption.
Qed.

(* ---- concrete positions for the non-vacuity example of Props/C12.v ---- *)
Definition c12_keys : zkeys :=
  {| zk_piece := zk_piece_tbl; zk_side := zk_side_key; zk_castling := zk_castling_tbl; zk_ep := zk_ep_tbl |}.
(* 1. f3 e5 2. g4 Qh4# (fool's mate) *)
Definition c12_fools_mate : res position :=
  p <- new_position c12_keys ;; p <- make_move c12_keys p (mk_move 13 21) ;;
  p <- make_move c12_keys p (mk_move 52 36) ;; p <- make_move c12_keys p (mk_move 14 30) ;;
  make_move c12_keys p (mk_move 59 31).

