(* pkg/magic: model of the fill loop of magic.Init for one square and one candidate multiplier,
   and the generic ("once and for all") theorems about it:
     - if the fill loop completes, every slot Index(o) holds walker(o)          (fill_loop_exact)
     - it completes when the indices are pairwise distinct and in range          (fill_loop_succeeds)
     - hence the lookup Attacks[Index(occ)] returns walker(occ & Mask), for ANY multiplier
       for which the fill completes                                              (magic_lookup_generic)
   plus the subset enumeration facts (Carry-Rippler soundness, completeness by counting) and an
   executable per-square check [magic_entry_ok] with its soundness lemma.
   Att/MagicInst.v runs the check on the constants the Go build actually holds. *)
From Coq Require Import PeanoNat NArith List Bool Lia ZifyBool ZifyN ZifyNat.
From Coq Require Import FSets.FMapPositive.
From Clemens Require Import Base.Res Base.Word Pos.Types Att.Attacks.
Import ListNotations.
Open Scope N_scope.

(* ---------- nth_res / upd ---------- *)

Lemma upd_length {A} (l : list A) (i : nat) (v : A) : length (upd l i v) = length l.
Proof.
  revert i; induction l as [|h t IH]; intros [|i]; cbn [upd length]; auto.
Qed.

Lemma nth_error_upd_same {A} (l : list A) (i : nat) (v : A) :
  (i < length l)%nat -> nth_error (upd l i v) i = Some v.
Proof.
  revert i; induction l as [|h t IH]; intros [|i] Hi; cbn [length] in Hi; try lia;
    cbn [upd nth_error].
  - reflexivity.
  - apply IH; lia.
Qed.

Lemma nth_error_upd_other {A} (l : list A) (i j : nat) (v : A) :
  i <> j -> nth_error (upd l j v) i = nth_error l i.
Proof.
  revert i j; induction l as [|h t IH]; intros [|i] [|j] Hij; cbn [upd nth_error];
    try reflexivity; try congruence.
  apply IH; congruence.
Qed.

Lemma nth_res_upd_same {A} (l : list A) (i : nat) (v : A) :
  (i < length l)%nat -> nth_res (upd l i v) i = Ok v.
Proof.
  intros Hi; unfold nth_res; rewrite nth_error_upd_same by exact Hi; reflexivity.
Qed.

Lemma nth_res_upd_other {A} (l : list A) (i j : nat) (v : A) :
  i <> j -> nth_res (upd l j v) i = nth_res l i.
Proof.
  intros Hij; unfold nth_res; rewrite nth_error_upd_other by exact Hij; reflexivity.
Qed.

Lemma nth_res_ok_lt {A} (l : list A) (i : nat) (a : A) :
  nth_res l i = Ok a -> (i < length l)%nat.
Proof.
  unfold nth_res; intros H. apply nth_error_Some.
  destruct (nth_error l i); [discriminate | discriminate H].
Qed.

Lemma nth_res_nth {A} (l : list A) (i : nat) (d : A) :
  (i < length l)%nat -> nth_res l i = Ok (nth i l d).
Proof.
  intros Hi; unfold nth_res; rewrite (nth_error_nth' l d Hi); reflexivity.
Qed.

Lemma nth_res_ok_nth {A} (l : list A) (i : nat) (a d : A) :
  nth_res l i = Ok a -> nth i l d = a.
Proof.
  unfold nth_res; intros H. destruct (nth_error l i) as [x|] eqn:E; [|discriminate H].
  injection H as ->. apply nth_error_nth; exact E.
Qed.

(* ---------- the fill loop ---------- *)

Section MagicFill.
  Variables mask magic shift : N.
  Variable walker : N -> N.

  Definition m_index (occ : N) : N := magic_index mask magic shift occ.

  (* One pass of the fill loop of magic.Init for one candidate multiplier.
     Ok (Some tbl) = complete; Ok None = a slot was already non-zero (Go: break, try another
     multiplier); Panic = index out of range.  Go's collision test is [m.Attacks[idx] != 0]. *)
  Fixpoint fill_loop (occs : list N) (tbl : list N) : res (option (list N)) :=
    match occs with
    | [] => Ok (Some tbl)
    | o :: rest =>
      let idx := N.to_nat (m_index o) in
      old <- nth_res tbl idx ;;
      if negb (old =? 0) then Ok None else fill_loop rest (upd tbl idx (walker o))
    end.

  Definition magic_fill : res (option (list N)) :=
    let occs := all_subsets mask in fill_loop occs (repeat 0 (length occs)).

  (* m.Attacks[m.Index(occ)] *)
  Definition magic_lookup (tbl : list N) (occ : N) : res N :=
    nth_res tbl (N.to_nat (m_index occ)).

  (* 1. exactness: invariant generalised over the already processed occupancies [done] *)
  Lemma fill_loop_exact_gen : forall (occs done tbl0 tbl : list N),
    fill_loop occs tbl0 = Ok (Some tbl) ->
    (forall o, In o occs -> walker o <> 0) ->
    (forall o, In o done -> walker o <> 0) ->
    (forall o, In o done -> nth_res tbl0 (N.to_nat (m_index o)) = Ok (walker o)) ->
    forall o, In o done \/ In o occs -> nth_res tbl (N.to_nat (m_index o)) = Ok (walker o).
  Proof.
    induction occs as [|a rest IH]; intros done tbl0 tbl Hfill Hnz Hdnz Hdone o Ho.
    - cbn [fill_loop] in Hfill. injection Hfill as <-.
      destruct Ho as [Ho|[]]. apply Hdone; exact Ho.
    - cbn [fill_loop] in Hfill.
      destruct (nth_res tbl0 (N.to_nat (m_index a))) as [old| |] eqn:Eold;
        cbn [bind] in Hfill; try discriminate Hfill.
      destruct (old =? 0) eqn:Ez; cbn [negb] in Hfill; [|discriminate Hfill].
      apply N.eqb_eq in Ez; subst old.
      apply (IH (a :: done) _ _ Hfill).
      + intros o' Ho'. apply Hnz; right; exact Ho'.
      + intros o' [<-|Ho']. apply Hnz; left; reflexivity. apply Hdnz; exact Ho'.
      + intros o' [<-|Ho'].
        * apply nth_res_upd_same. eapply nth_res_ok_lt; exact Eold.
        * rewrite nth_res_upd_other. apply Hdone; exact Ho'.
          intros Heq. specialize (Hdone o' Ho'). rewrite Heq, Eold in Hdone.
          injection Hdone as Hw. apply (Hdnz o' Ho'). symmetry; exact Hw.
      + destruct Ho as [Ho|[<-|Ho]].
        * left; right; exact Ho.
        * left; left; reflexivity.
        * right; exact Ho.
  Qed.

  Theorem fill_loop_exact : forall (occs tbl0 tbl : list N),
    fill_loop occs tbl0 = Ok (Some tbl) ->
    (forall o, In o occs -> walker o <> 0) ->
    forall o, In o occs -> nth_res tbl (N.to_nat (m_index o)) = Ok (walker o).
  Proof.
    intros occs tbl0 tbl Hfill Hnz o Ho.
    apply (fill_loop_exact_gen occs [] tbl0 tbl Hfill Hnz).
    - intros o' [].
    - intros o' [].
    - right; exact Ho.
  Qed.

  Theorem magic_fill_exact : forall tbl,
    magic_fill = Ok (Some tbl) ->
    (forall o, In o (all_subsets mask) -> walker o <> 0) ->
    forall o, In o (all_subsets mask) -> nth_res tbl (N.to_nat (m_index o)) = Ok (walker o).
  Proof.
    intros tbl Hfill Hnz o Ho. unfold magic_fill in Hfill.
    exact (fill_loop_exact _ _ _ Hfill Hnz o Ho).
  Qed.

  Lemma fill_loop_length : forall (occs tbl0 tbl : list N),
    fill_loop occs tbl0 = Ok (Some tbl) -> length tbl = length tbl0.
  Proof.
    induction occs as [|a rest IH]; intros tbl0 tbl Hfill; cbn [fill_loop] in Hfill.
    - injection Hfill as <-. reflexivity.
    - destruct (nth_res tbl0 (N.to_nat (m_index a))) as [old| |]; cbn [bind] in Hfill;
        try discriminate Hfill.
      destruct (negb (old =? 0)); [discriminate Hfill|].
      rewrite (IH _ _ Hfill). apply upd_length.
  Qed.

  Lemma magic_fill_length : forall tbl,
    magic_fill = Ok (Some tbl) -> length tbl = length (all_subsets mask).
  Proof.
    intros tbl Hfill. unfold magic_fill in Hfill.
    rewrite (fill_loop_length _ _ _ Hfill). apply repeat_length.
  Qed.

  (* 2. the loop completes when indices are pairwise distinct, in range, and the slots empty *)
  Lemma fill_loop_succeeds_res : forall (occs tbl0 : list N),
    NoDup (map m_index occs) ->
    (forall o, In o occs -> nth_res tbl0 (N.to_nat (m_index o)) = Ok 0) ->
    exists tbl, fill_loop occs tbl0 = Ok (Some tbl).
  Proof.
    induction occs as [|a rest IH]; intros tbl0 Hnd Hz.
    - exists tbl0; reflexivity.
    - cbn [fill_loop]. rewrite (Hz a (or_introl eq_refl)). cbn [bind].
      change (0 =? 0) with true. cbn [negb].
      cbn [map] in Hnd. inversion Hnd as [|x l Hnotin Hnd' Ex]; subst x l.
      apply IH. exact Hnd'.
      intros o Ho. rewrite nth_res_upd_other. apply Hz; right; exact Ho.
      intros Heq. apply N2Nat.inj in Heq. apply Hnotin. rewrite <- Heq.
      apply in_map; exact Ho.
  Qed.

  Theorem fill_loop_succeeds : forall (occs tbl0 : list N),
    NoDup (map m_index occs) ->
    (forall o, In o occs -> (N.to_nat (m_index o) < length tbl0)%nat) ->
    (forall o, In o occs -> nth (N.to_nat (m_index o)) tbl0 0 = 0) ->
    exists tbl, fill_loop occs tbl0 = Ok (Some tbl).
  Proof.
    intros occs tbl0 Hnd Hrange Hz. apply fill_loop_succeeds_res. exact Hnd.
    intros o Ho. rewrite (nth_res_nth tbl0 _ 0 (Hrange o Ho)). rewrite (Hz o Ho). reflexivity.
  Qed.

  Theorem magic_fill_succeeds :
    NoDup (map m_index (all_subsets mask)) ->
    (forall o, In o (all_subsets mask) ->
               (N.to_nat (m_index o) < length (all_subsets mask))%nat) ->
    exists tbl, magic_fill = Ok (Some tbl).
  Proof.
    intros Hnd Hrange. unfold magic_fill. apply fill_loop_succeeds. exact Hnd.
    - intros o Ho. rewrite repeat_length. apply Hrange; exact Ho.
    - intros o Ho. apply nth_repeat.
  Qed.

  (* 3. Index only looks at occ & Mask *)
  Lemma m_index_land : forall occ, m_index (N.land occ mask) = m_index occ.
  Proof.
    intros occ. unfold m_index, magic_index.
    rewrite <- N.land_assoc, N.land_diag. reflexivity.
  Qed.

  (* 4. the lookup, for ANY multiplier for which the fill completes *)
  Theorem magic_lookup_generic : forall tbl,
    magic_fill = Ok (Some tbl) ->
    (forall o, In o (all_subsets mask) -> walker o <> 0) ->
    (forall o, N.land o mask = o -> In o (all_subsets mask)) ->
    forall occ, magic_lookup tbl occ = Ok (walker (N.land occ mask)).
  Proof.
    intros tbl Hfill Hnz Hcomplete occ. unfold magic_lookup.
    rewrite <- m_index_land.
    apply (magic_fill_exact tbl Hfill Hnz).
    apply Hcomplete. rewrite <- N.land_assoc, N.land_diag. reflexivity.
  Qed.
End MagicFill.

(* ---------- subsets ---------- *)

(* 5. Carry-Rippler soundness: every enumerated value is a subset of the mask *)
Lemma subsets_from_sub : forall (fuel : nat) (mask sub : N),
  N.land sub mask = sub ->
  forall o, In o (subsets_from fuel mask sub) -> N.land o mask = o.
Proof.
  induction fuel as [|f IH]; intros mask sub Hsub o Ho; cbn [subsets_from] in Ho.
  - destruct Ho.
  - destruct Ho as [<-|Ho]. exact Hsub.
    destruct (N.land (sub64 sub mask) mask =? 0). destruct Ho.
    apply (IH mask (N.land (sub64 sub mask) mask)); [|exact Ho].
    rewrite <- N.land_assoc, N.land_diag. reflexivity.
Qed.

Lemma all_subsets_sub : forall mask o, In o (all_subsets mask) -> N.land o mask = o.
Proof.
  intros mask o Ho. unfold all_subsets in Ho.
  apply (subsets_from_sub _ mask 0 (N.land_0_l mask) o Ho).
Qed.

(* 6. an independent structural enumeration of the subsets of a mask *)
Fixpoint enum_pos (p : positive) : list N :=
  match p with
  | xH => [0; 1]
  | xO q => map N.double (enum_pos q)
  | xI q => let l := enum_pos q in map N.double l ++ map N.succ_double l
  end.
Definition enum_subsets (mask : N) : list N :=
  match mask with N0 => [0] | Npos p => enum_pos p end.

Lemma Ndouble_pos_inv : forall n q, Pos.Ndouble n = Npos (xO q) -> n = Npos q.
Proof. intros [|p] q H; cbn in H; [discriminate H | injection H as ->; reflexivity]. Qed.
Lemma Ndouble_not_odd : forall n q, Pos.Ndouble n <> Npos (xI q).
Proof. intros [|p] q H; cbn in H; discriminate H. Qed.
Lemma Ndouble_not_one : forall n, Pos.Ndouble n <> 1.
Proof. intros [|p] H; cbn in H; discriminate H. Qed.
Lemma Nsucc_double_pos_inv : forall n q, Pos.Nsucc_double n = Npos (xI q) -> n = Npos q.
Proof. intros [|p] q H; cbn in H; [discriminate H | injection H as ->; reflexivity]. Qed.

Lemma enum_pos_zero : forall p, In 0 (enum_pos p).
Proof.
  induction p as [q IH|q IH|]; cbn [enum_pos].
  - apply in_or_app; left. change 0 with (N.double 0). apply in_map; exact IH.
  - change 0 with (N.double 0). apply in_map; exact IH.
  - left; reflexivity.
Qed.

Lemma enum_pos_complete : forall p o, N.land o (Npos p) = o -> In o (enum_pos p).
Proof.
  induction p as [p IH|p IH|]; intros [|[q|q|]] H; try apply enum_pos_zero;
    cbn [N.land Pos.land] in H; cbn [enum_pos].
  - (* p~1, q~1 *)
    apply Nsucc_double_pos_inv in H. apply in_or_app; right.
    change (Npos q~1) with (N.succ_double (Npos q)). apply in_map. apply IH; exact H.
  - (* p~1, q~0 *)
    apply Ndouble_pos_inv in H. apply in_or_app; left.
    change (Npos q~0) with (N.double (Npos q)). apply in_map. apply IH; exact H.
  - (* p~1, 1 *)
    apply in_or_app; right. change 1 with (N.succ_double 0). apply in_map, enum_pos_zero.
  - (* p~0, q~1 *) exfalso; exact (Ndouble_not_odd _ _ H).
  - (* p~0, q~0 *)
    apply Ndouble_pos_inv in H.
    change (Npos q~0) with (N.double (Npos q)). apply in_map. apply IH; exact H.
  - (* p~0, 1 *) discriminate H.
  - (* 1, q~1 *) discriminate H.
  - (* 1, q~0 *) discriminate H.
  - (* 1, 1 *) right; left; reflexivity.
Qed.

Theorem enum_complete : forall mask o, N.land o mask = o -> In o (enum_subsets mask).
Proof.
  intros [|p] o H; cbn [enum_subsets].
  - rewrite N.land_0_r in H. left; exact H.
  - apply enum_pos_complete; exact H.
Qed.

(* completeness of the Carry-Rippler enumeration from a count, by pigeonhole *)
Theorem subsets_complete_from_count : forall mask,
  NoDup (all_subsets mask) ->
  length (all_subsets mask) = length (enum_subsets mask) ->
  forall o, N.land o mask = o -> In o (all_subsets mask).
Proof.
  intros mask Hnd Hlen o Ho.
  apply (NoDup_length_incl Hnd (l' := enum_subsets mask)).
  - rewrite Hlen; apply le_n.
  - intros x Hx. apply enum_complete. apply all_subsets_sub; exact Hx.
  - apply enum_complete; exact Ho.
Qed.

(* ---------- 7. executable distinctness test, O(n log n) ---------- *)

Fixpoint distinct_aux (l : list N) (seen : PositiveMap.t unit) : bool :=
  match l with
  | [] => true
  | x :: r =>
    let k := N.succ_pos x in
    match PositiveMap.find k seen with
    | Some _ => false
    | None => distinct_aux r (PositiveMap.add k tt seen)
    end
  end.
Definition distinctb (l : list N) : bool := distinct_aux l (PositiveMap.empty unit).

Lemma succ_pos_inj : forall x y, N.succ_pos x = N.succ_pos y -> x = y.
Proof.
  intros x y H. apply N.succ_inj. rewrite <- !N.succ_pos_spec. rewrite H. reflexivity.
Qed.

Lemma distinct_aux_sound : forall l seen,
  distinct_aux l seen = true ->
  NoDup l /\ forall x, In x l -> PositiveMap.find (N.succ_pos x) seen = None.
Proof.
  induction l as [|a r IH]; intros seen H.
  - split. constructor. intros x [].
  - cbn [distinct_aux] in H.
    destruct (PositiveMap.find (N.succ_pos a) seen) as [u|] eqn:Ea; [discriminate H|].
    destruct (IH _ H) as [Hnd Hfresh]. split.
    + constructor; [|exact Hnd]. intros Hin.
      specialize (Hfresh a Hin). rewrite PositiveMap.gss in Hfresh. discriminate Hfresh.
    + intros x [<-|Hx]. exact Ea.
      specialize (Hfresh x Hx).
      destruct (Pos.eq_dec (N.succ_pos x) (N.succ_pos a)) as [E|E].
      * rewrite E, PositiveMap.gss in Hfresh. discriminate Hfresh.
      * rewrite PositiveMap.gso in Hfresh by exact E. exact Hfresh.
Qed.

Theorem distinctb_NoDup : forall l, distinctb l = true -> NoDup l.
Proof. intros l H. exact (proj1 (distinct_aux_sound l _ H)). Qed.

(* ---------- 8. the per-square check ---------- *)

Definition magic_entry_ok (mask magic shift tablen : N) : bool :=
  let subs := all_subsets mask in
  let idxs := map (magic_index mask magic shift) subs in
  distinctb idxs
  && forallb (fun i => i <? tablen) idxs
  && (N.of_nat (length subs) =? tablen)
  && Nat.eqb (length subs) (length (enum_subsets mask)).

Lemma magic_entry_ok_parts : forall mask magic shift tablen,
  magic_entry_ok mask magic shift tablen = true ->
  NoDup (map (m_index mask magic shift) (all_subsets mask))
  /\ (forall o, In o (all_subsets mask) ->
        (N.to_nat (m_index mask magic shift o) < length (all_subsets mask))%nat)
  /\ N.of_nat (length (all_subsets mask)) = tablen
  /\ length (all_subsets mask) = length (enum_subsets mask).
Proof.
  intros mask magic shift tablen H. unfold magic_entry_ok in H. cbv zeta in H.
  apply andb_prop in H; destruct H as [H H4].
  apply andb_prop in H; destruct H as [H H3].
  apply andb_prop in H; destruct H as [H1 H2].
  apply N.eqb_eq in H3. apply Nat.eqb_eq in H4.
  split; [|split; [|split]].
  - apply distinctb_NoDup in H1. exact H1.
  - intros o Ho. rewrite forallb_forall in H2.
    assert (Hlt : magic_index mask magic shift o <? tablen = true).
    { apply H2. apply in_map; exact Ho. }
    apply N.ltb_lt in Hlt. unfold m_index. lia.
  - exact H3.
  - exact H4.
Qed.

Theorem subsets_complete : forall mask magic shift tablen,
  magic_entry_ok mask magic shift tablen = true ->
  forall o, N.land o mask = o -> In o (all_subsets mask).
Proof.
  intros mask magic shift tablen H.
  destruct (magic_entry_ok_parts _ _ _ _ H) as (Hnd & _ & _ & Hlen).
  apply subsets_complete_from_count; [|exact Hlen].
  exact (NoDup_map_inv _ _ Hnd).
Qed.

Theorem magic_entry_ok_correct : forall mask magic shift tablen (walker : N -> N),
  magic_entry_ok mask magic shift tablen = true ->
  (forall o, In o (all_subsets mask) -> walker o <> 0) ->
  exists tbl,
    magic_fill mask magic shift walker = Ok (Some tbl)
    /\ length tbl = N.to_nat tablen
    /\ forall occ, magic_lookup mask magic shift tbl occ = Ok (walker (N.land occ mask)).
Proof.
  intros mask magic shift tablen walker H Hnz.
  destruct (magic_entry_ok_parts _ _ _ _ H) as (Hnd & Hrange & Hlen & _).
  destruct (magic_fill_succeeds mask magic shift walker Hnd Hrange) as [tbl Hfill].
  exists tbl. split; [exact Hfill|]. split.
  - rewrite (magic_fill_length _ _ _ _ _ Hfill). rewrite <- Hlen. symmetry; apply Nat2N.id.
  - apply (magic_lookup_generic mask magic shift walker tbl Hfill Hnz).
    exact (subsets_complete _ _ _ _ H).
Qed.

(* ---------- 9. the check together with Go's implicit "attack sets are non-zero" premise,
   and a cheaper-to-evaluate but provably equal form (the model's [mul64]/[sub64] reduce a
   128-bit product with a generic [mod]; masking with [m64] is the same number) ---------- *)

Definition walker_nonzero_ok (walker : N -> N) (mask : N) : bool :=
  forallb (fun o => negb (walker o =? 0)) (all_subsets mask).

Lemma walker_nonzero_ok_sound : forall walker mask,
  walker_nonzero_ok walker mask = true ->
  forall o, In o (all_subsets mask) -> walker o <> 0.
Proof.
  intros walker mask H o Ho. unfold walker_nonzero_ok in H. rewrite forallb_forall in H.
  specialize (H o Ho). apply negb_true_iff in H. apply N.eqb_neq in H. exact H.
Qed.

Definition magic_square_ok (walker : N -> N) (mask magic shift tablen : N) : bool :=
  magic_entry_ok mask magic shift tablen && walker_nonzero_ok walker mask.

Lemma mod_two64_land : forall x, x mod two64 = N.land x m64.
Proof.
  intros x. change two64 with (2 ^ 64). change m64 with (N.ones 64).
  symmetry; apply N.land_ones.
Qed.

Definition magic_index_fast (mask magic shift occ : N) : N :=
  N.shiftr (N.land (N.land occ mask * magic) m64) shift.

Lemma magic_index_fast_eq : forall mask magic shift occ,
  magic_index_fast mask magic shift occ = magic_index mask magic shift occ.
Proof.
  intros mask magic shift occ. unfold magic_index_fast, magic_index, shr64, mul64.
  rewrite mod_two64_land. reflexivity.
Qed.

Fixpoint subsets_from_fast (fuel : nat) (mask sub : N) : list N :=
  match fuel with
  | O => []
  | S f => sub :: (let nxt := N.land (N.land (sub + two64 - mask) m64) mask in
                   if nxt =? 0 then [] else subsets_from_fast f mask nxt)
  end.
Definition all_subsets_fast (mask : N) : list N :=
  subsets_from_fast (N.to_nat (2 ^ popcount mask)) mask 0.

Lemma subsets_from_fast_eq : forall fuel mask sub,
  subsets_from_fast fuel mask sub = subsets_from fuel mask sub.
Proof.
  induction fuel as [|f IH]; intros mask sub; cbn [subsets_from_fast subsets_from].
  - reflexivity.
  - cbv zeta. unfold sub64. rewrite mod_two64_land. rewrite IH. reflexivity.
Qed.

Lemma all_subsets_fast_eq : forall mask, all_subsets_fast mask = all_subsets mask.
Proof. intros mask. apply subsets_from_fast_eq. Qed.

Definition magic_square_ok_fast (walker : N -> N) (mask magic shift tablen : N) : bool :=
  let subs := all_subsets_fast mask in
  let idxs := map (magic_index_fast mask magic shift) subs in
  distinctb idxs
  && forallb (fun i => i <? tablen) idxs
  && (N.of_nat (length subs) =? tablen)
  && Nat.eqb (length subs) (length (enum_subsets mask))
  && forallb (fun o => negb (walker o =? 0)) subs.

Lemma magic_square_ok_fast_eq : forall walker mask magic shift tablen,
  magic_square_ok_fast walker mask magic shift tablen
  = magic_square_ok walker mask magic shift tablen.
Proof.
  intros walker mask magic shift tablen.
  unfold magic_square_ok_fast, magic_square_ok, magic_entry_ok, walker_nonzero_ok. cbv zeta.
  rewrite all_subsets_fast_eq.
  rewrite (map_ext _ _ (magic_index_fast_eq mask magic shift)). reflexivity.
Qed.

Theorem magic_square_ok_correct : forall (walker : N -> N) mask magic shift tablen,
  magic_square_ok walker mask magic shift tablen = true ->
  exists tbl,
    magic_fill mask magic shift walker = Ok (Some tbl)
    /\ length tbl = N.to_nat tablen
    /\ forall occ, magic_lookup mask magic shift tbl occ = Ok (walker (N.land occ mask)).
Proof.
  intros walker mask magic shift tablen H. unfold magic_square_ok in H.
  apply andb_prop in H; destruct H as [Hok Hnz].
  apply (magic_entry_ok_correct _ _ _ _ walker Hok).
  exact (walker_nonzero_ok_sound _ _ Hnz).
Qed.

Print Assumptions fill_loop_exact.
Print Assumptions magic_fill_exact.
Print Assumptions fill_loop_succeeds.
Print Assumptions magic_fill_succeeds.
Print Assumptions magic_lookup_generic.
Print Assumptions subsets_complete_from_count.
Print Assumptions distinctb_NoDup.
Print Assumptions subsets_complete.
Print Assumptions magic_entry_ok_correct.
Print Assumptions magic_square_ok_fast_eq.
Print Assumptions magic_square_ok_correct.
