(* pkg/bitboard (shifts, fills), pkg/pieces/utils (ray walker), pkg/magic (mask), pkg/pieces/*
   (attack sets, pawn pushes, pawn-structure sets). Model file: transliteration, no proofs. *)
From Coq Require Import NArith List Bool.
From Clemens Require Import Base.Res Base.Word Pos.Types.
Import ListNotations.
Open Scope N_scope.

(* consts.go *)
Definition RankMask1 : N := 255.
Definition rank_mask (r : N) : N := shl64 RankMask1 (8 * r).
Definition RankMask2 : N := Eval compute in rank_mask 1.
Definition RankMask4 : N := Eval compute in rank_mask 3.
Definition RankMask5 : N := Eval compute in rank_mask 4.
Definition RankMask7 : N := Eval compute in rank_mask 6.
Definition RankMask8 : N := Eval compute in rank_mask 7.
Definition FileMaskA : N := 72340172838076673.            (* 0x0101010101010101 *)
Definition file_mask (f : N) : N := shl64 FileMaskA f.
Definition FileMaskH : N := Eval compute in file_mask 7.
Definition notAFile : N := Eval compute in not64 FileMaskA.
Definition notHFile : N := Eval compute in not64 FileMaskH.

(* setwise_operation.go: one-step shifts *)
Definition south_one (b : N) : N := shr64 b 8.
Definition north_one (b : N) : N := shl64 b 8.
Definition east_one (b : N) : N := N.land (shl64 b 1) notAFile.
Definition north_east_one (b : N) : N := N.land (shl64 b 9) notAFile.
Definition south_east_one (b : N) : N := N.land (shr64 b 7) notAFile.
Definition west_one (b : N) : N := N.land (shr64 b 1) notHFile.
Definition south_west_one (b : N) : N := N.land (shr64 b 9) notHFile.
Definition north_west_one (b : N) : N := N.land (shl64 b 7) notHFile.

(* fills.go *)
Definition north_fill (b : N) : N :=
  let b := N.lor b (shl64 b 8) in let b := N.lor b (shl64 b 16) in N.lor b (shl64 b 32).
Definition south_fill (b : N) : N :=
  let b := N.lor b (shr64 b 8) in let b := N.lor b (shr64 b 16) in N.lor b (shr64 b 32).
Definition file_fill (b : N) : N := N.lor (north_fill b) (south_fill b).

(* utils.SlidingAttacks: one direction. The loop tests the occupancy of the square it stands ON
   (including the origin) and stops before stepping off the board. Fuel 8 is enough: a ray has
   at most 7 steps (proved in Att/SlidingProofs.v: no result depends on the fuel running out). *)
Fixpoint walk (fuel : nat) (dir : N -> N) (b occ acc : N) : N :=
  match fuel with
  | O => acc
  | S f =>
    let nxt := dir b in
    if (nxt =? 0) || negb (N.land b occ =? 0) then acc
    else walk f dir nxt occ (N.lor acc nxt)
  end.
Definition sliding_attacks (sq : N) (dirs : list (N -> N)) (occ : N) : N :=
  fold_left (fun acc d => walk 8 d (bit sq) occ acc) dirs 0.

Definition rook_dirs : list (N -> N) := [north_one; south_one; east_one; west_one].
Definition bishop_dirs : list (N -> N) := [north_east_one; north_west_one; south_east_one; south_west_one].
Definition rook_walk (sq occ : N) : N := sliding_attacks sq rook_dirs occ.
Definition bishop_walk (sq occ : N) : N := sliding_attacks sq bishop_dirs occ.

(* magic.Init: the relevant-occupancy mask of a square *)
Definition magic_mask (walker : N -> N -> N) (sq : N) : N :=
  let sq_rank := shl64 RankMask1 (8 * rank_of sq) in
  let rankedges := N.land (N.lor RankMask1 RankMask8) (not64 sq_rank) in
  let sq_file := shl64 FileMaskA (file_of sq) in
  let fileedges := andnot64 (N.lor FileMaskA FileMaskH) sq_file in
  N.land (walker sq 0) (not64 (N.lor rankedges fileedges)).
Definition rook_mask (sq : N) : N := magic_mask rook_walk sq.
Definition bishop_mask (sq : N) : N := magic_mask bishop_walk sq.

(* Magic.Index and the lookup. The table of a square is filled in Init with
   Attacks[Index(o)] = walker(sq, o) for every subset o of the mask, the multiplier being accepted
   only if no two subsets share an index; so the lookup returns walker(sq, occ & Mask).
   Att/MagicInst.v re-checks that perfect-hash condition for the generated multipliers. *)
Definition magic_index (mask magic shift occ : N) : N := shr64 (mul64 (N.land occ mask) magic) shift.
Definition rook_attacks (sq occ : N) : N := rook_walk sq (N.land occ (rook_mask sq)).
Definition bishop_attacks (sq occ : N) : N := bishop_walk sq (N.land occ (bishop_mask sq)).
Definition queen_attacks (sq occ : N) : N := N.lor (rook_attacks sq occ) (bishop_attacks sq occ).

(* AllSubnetsOf (Carry-Rippler) with fuel = number of subsets *)
Fixpoint subsets_from (fuel : nat) (mask sub : N) : list N :=
  match fuel with
  | O => []
  | S f => sub :: (let nxt := N.land (sub64 sub mask) mask in
                   if nxt =? 0 then [] else subsets_from f mask nxt)
  end.
Definition all_subsets (mask : N) : list N := subsets_from (N.to_nat (2 ^ popcount mask)) mask 0.

(* knight.attacks, king.attacks, pawn.attacks: set-wise formulas; the tables hold formula(bit sq) *)
Definition knight_set (knights : N) : N :=
  let east := east_one knights in
  let west := west_one knights in
  let we := N.lor west east in
  let a := N.lor (shl64 we 16) (shr64 we 16) in
  let east2 := east_one east in
  let west2 := west_one west in
  let we2 := N.lor west2 east2 in
  N.lor a (N.lor (north_one we2) (south_one we2)).
Definition king_set (king : N) : N :=
  let a := N.lor (west_one king) (east_one king) in
  let kings := N.lor king a in
  N.lor a (N.lor (north_one kings) (south_one kings)).
Definition pawn_set (c pawns : N) : N :=
  if c =? WHITE then N.lor (north_east_one pawns) (north_west_one pawns)
  else N.lor (south_east_one pawns) (south_west_one pawns).
Definition knight_attacks (sq : N) : N := knight_set (bit sq).
Definition king_attacks (sq : N) : N := king_set (bit sq).
Definition pawn_attacks (c sq : N) : N := pawn_set c (bit sq).

(* pawn pushes *)
Definition single_push (c pawns occ : N) : N :=
  if c =? WHITE then N.land (north_one pawns) (not64 occ) else N.land (south_one pawns) (not64 occ).
Definition double_push (c pawns occ : N) : N :=
  let sp := single_push c pawns occ in
  if c =? WHITE then N.land (N.land (north_one sp) (not64 occ)) RankMask4
  else N.land (N.land (south_one sp) (not64 occ)) RankMask5.
Definition pawn_pushes (c pawns occ : N) : N := N.lor (single_push c pawns occ) (double_push c pawns occ).
Definition pushes_by_square (c sq occ : N) : N := pawn_pushes c (bit sq) occ.

(* pawn structure (pkg/pieces/pawn), as the evaluation uses it *)
Definition isolanis (pawns : N) : N :=
  let ff := file_fill pawns in
  N.land (N.land pawns (not64 (west_one ff))) (not64 (east_one ff)).
Definition passed (c wp bp : N) : N :=
  if c =? WHITE then
    let spans := south_fill bp in
    let spans := N.lor spans (N.lor (east_one spans) (west_one spans)) in
    let spans := N.lor spans (south_one (south_fill wp)) in
    N.land wp (not64 spans)
  else
    let spans := north_fill wp in
    let spans := N.lor spans (N.lor (east_one spans) (west_one spans)) in
    let spans := N.lor spans (north_one (north_fill bp)) in
    N.land bp (not64 spans).
Definition supported (c pawns : N) : N := N.land (pawn_set c pawns) pawns.
