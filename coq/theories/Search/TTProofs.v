(* Proofs about the transposition-table model (Search/TT.v): C14.
   Everything is proved for an arbitrary number of buckets [nb], bucket size [bs] and mate
   bound [inf]; Props/C14.v instantiates them with the generated constants. *)
From Coq Require Import NArith ZArith List Bool Lia.
From Clemens Require Import Base.Word Search.TT.
Import ListNotations.
Open Scope N_scope.
Ltac Zify.zify_post_hook ::= Z.to_euclidean_division_equations.

(* ------------------------------------------------------------------ the packed byte *)

(* What getNodeType reads back after setNodeType(nt): the two low bits of nt. *)
Definition stored_node_type (nt : N) : N := N.land nt 3.
(* What getAge reads back after setAge(age): the six low bits of age. *)
Definition stored_age (age : N) : N := age mod 64.

Definition pack (nt age : N) : N := N.lor (N.land nt 3) (shl8_2 age).

Lemma stored_node_type_id nt : nt <= 3 -> stored_node_type nt = nt.
Proof.
  intros H. unfold stored_node_type. change 3 with (N.ones 2).
  rewrite N.land_ones. apply N.mod_small. change (2 ^ 2) with 4. lia.
Qed.

Lemma w8_land x : w8 x = N.land x 255.
Proof. unfold w8. change 255 with (N.ones 8). rewrite N.land_ones. reflexivity. Qed.

Lemma land_shl2_3 a : N.land (N.shiftl a 2) 3 = 0.
Proof.
  apply N.bits_inj. intro i. rewrite N.land_spec, N.bits_0.
  destruct (N.lt_ge_cases i 2) as [Hlt | Hge].
  - rewrite N.shiftl_spec_low by exact Hlt. reflexivity.
  - change 3 with (N.ones 2). rewrite N.ones_spec_high by exact Hge. apply andb_false_r.
Qed.

Lemma land_shl8_2_3 age : N.land (shl8_2 age) 3 = 0.
Proof.
  unfold shl8_2. rewrite w8_land, <- N.land_assoc.
  change (N.land 255 3) with 3. apply land_shl2_3.
Qed.

(* The two read-modify-write steps of PotentiallySave leave nothing of the old byte. *)
Lemma write_ant old nt age : set_age (set_node_type old nt) age = pack nt age.
Proof.
  unfold set_age, set_node_type, pack. f_equal.
  rewrite N.land_lor_distr_l, <- N.land_assoc.
  change (N.land 252 3) with 0. rewrite N.land_0_r, N.lor_0_l.
  rewrite w8_land, <- N.land_assoc. reflexivity.
Qed.

Lemma get_node_type_pack nt age : get_node_type (pack nt age) = stored_node_type nt.
Proof.
  unfold get_node_type, pack, stored_node_type.
  rewrite N.land_lor_distr_l, land_shl8_2_3, N.lor_0_r, <- N.land_assoc. reflexivity.
Qed.

Lemma get_age_pack nt age : get_age (pack nt age) = stored_age age.
Proof.
  unfold get_age, pack, stored_age, shl8_2, w8.
  rewrite N.shiftr_lor, N.shiftr_land.
  change (N.shiftr 3 2) with 0. rewrite N.land_0_r, N.lor_0_l.
  rewrite N.shiftl_mul_pow2, N.shiftr_div_pow2. change (2 ^ 2) with 4.
  lia.
Qed.

(* ------------------------------------------------------------------ lists *)

Lemma In_upd {A} (l : list A) i v e : In e (upd l i v) -> e = v \/ In e l.
Proof.
  revert i. induction l as [| a l IH]; intros i H.
  - destruct i; cbn in H; contradiction.
  - destruct i as [| j]; cbn in H.
    + destruct H as [H | H]; [left; symmetry; exact H | right; right; exact H].
    + destruct H as [H | H]; [right; left; exact H |].
      destruct (IH _ H) as [H1 | H1]; [left; exact H1 | right; right; exact H1].
Qed.

Lemma upd_length {A} (l : list A) i v : length (upd l i v) = length l.
Proof.
  revert i. induction l as [| a l IH]; intros i; destruct i; cbn; try reflexivity.
  rewrite IH. reflexivity.
Qed.

Lemma get_scan_some b h e : get_scan b h = Some e -> In e b /\ te_hash e = h.
Proof.
  induction b as [| a b IH]; cbn; intros H; [discriminate |].
  destruct (N.eqb_spec (te_hash a) h) as [Heq | Hne].
  - injection H as <-. split; [left; reflexivity | exact Heq].
  - destruct (IH H) as [H1 H2]. split; [right; exact H1 | exact H2].
Qed.

Lemma saves_of_app a b : saves_of (a ++ b) = saves_of a ++ saves_of b.
Proof.
  induction a as [| o a IH]; cbn; [reflexivity |].
  destruct o; cbn; rewrite IH; reflexivity.
Qed.

(* ------------------------------------------------------------------ the specification *)

Section Spec.
Variable inf : Z.

(* A usable probe result (score [sc], move [mv]) for the window (alpha, beta) and requested
   depth [depth] at ply [ply] is explained by the stored payload [sv]. *)
Definition explains (sv : save_rec) (alpha beta : Z) (depth ply : N) (sc : Z) (mv : N) : Prop :=
  depth <= sv_depth sv /\ mv = sv_move sv /\
  (let a := mate_adjust inf (sv_score sv) ply in
   (stored_node_type (sv_nt sv) = PVNode /\ sc = a) \/
   (stored_node_type (sv_nt sv) = AlphaNode /\ (a <= alpha)%Z /\ sc = alpha) \/
   (stored_node_type (sv_nt sv) = BetaNode /\ (beta <= a)%Z /\ sc = beta)).

(* The complete result of a probe that finds the payload [sv]. *)
Definition hit (sv : save_rec) (alpha beta : Z) (depth ply : N) (r : Z * bool * N) : Prop :=
  let a := mate_adjust inf (sv_score sv) ply in
  let nt := stored_node_type (sv_nt sv) in
  let m := sv_move sv in
  (sv_depth sv < depth -> r = (0%Z, false, m)) /\
  (depth <= sv_depth sv ->
     (nt = PVNode -> r = (a, true, m)) /\
     (nt = AlphaNode -> ((a <= alpha)%Z -> r = (alpha, true, m)) /\ ((alpha < a)%Z -> r = (a, false, m))) /\
     (nt = BetaNode -> ((beta <= a)%Z -> r = (beta, true, m)) /\ ((a < beta)%Z -> r = (a, false, m))) /\
     (nt = 3 -> r = (a, false, m))).

Definition outside_mate_range (s : Z) : Prop := (- inf + 100 <= s <= inf - 100)%Z.

Lemma mate_adjust_outside s ply : outside_mate_range s -> mate_adjust inf s ply = s.
Proof.
  unfold outside_mate_range, mate_adjust. intros [H1 H2].
  destruct (Z.gtb_spec s (inf - 100)) as [H | H]; [lia |].
  destruct (Z.ltb_spec s (- inf + 100)) as [H' | H']; [lia | reflexivity].
Qed.

(* An entry of the table carries the payload [sv]. *)
Definition entry_of (sv : save_rec) (e : tt_entry) : Prop :=
  te_hash e = sv_hash sv /\ te_move e = sv_move sv /\ te_score e = sv_score sv /\
  te_depth e = sv_depth sv /\ te_ant e = pack (sv_nt sv) (sv_age sv).

Lemma get_entry_hit sv e alpha beta depth ply :
  entry_of sv e -> hit sv alpha beta depth ply (get_entry inf e alpha beta depth ply).
Proof.
  intros (Hh & Hm & Hs & Hd & Ha). unfold hit, get_entry.
  rewrite Hm, Hs, Hd, Ha, get_node_type_pack.
  set (a := mate_adjust inf (sv_score sv) ply).
  set (nt := stored_node_type (sv_nt sv)).
  destruct (N.ltb_spec (sv_depth sv) depth) as [Hlt | Hge].
  - split; [reflexivity | intros H; lia].
  - split; [intros H; lia |]. intros _.
    unfold PVNode, AlphaNode, BetaNode.
    destruct (N.eqb_spec nt 1) as [E1 | E1].
    { repeat split; intros; try lia.
      - destruct (Z.leb_spec a alpha); [reflexivity | lia].
      - destruct (Z.leb_spec a alpha); [lia | reflexivity]. }
    destruct (N.eqb_spec nt 2) as [E2 | E2].
    { rewrite Z.geb_leb. repeat split; intros; try lia.
      - destruct (Z.leb_spec beta a); [reflexivity | lia].
      - destruct (Z.leb_spec beta a); [lia | reflexivity]. }
    destruct (N.eqb_spec nt 0) as [E0 | E0].
    { repeat split; intros; try lia; reflexivity. }
    repeat split; intros; try lia; reflexivity.
Qed.

Lemma get_entry_sound sv e alpha beta depth ply sc use mv :
  entry_of sv e -> get_entry inf e alpha beta depth ply = (sc, use, mv) ->
  mv = sv_move sv /\ (use = true -> explains sv alpha beta depth ply sc mv).
Proof.
  intros (Hh & Hm & Hs & Hd & Ha). unfold explains, get_entry.
  rewrite Hm, Hs, Hd, Ha, get_node_type_pack.
  set (a := mate_adjust inf (sv_score sv) ply).
  set (nt := stored_node_type (sv_nt sv)).
  unfold PVNode, AlphaNode, BetaNode.
  destruct (N.ltb_spec (sv_depth sv) depth) as [Hlt | Hge].
  { intros H. injection H as <- <- <-. split; [reflexivity | discriminate]. }
  destruct (N.eqb_spec nt 1) as [E1 | E1].
  { destruct (Z.leb_spec a alpha) as [Hle | Hgt]; intros H; injection H as <- <- <-;
      (split; [reflexivity |]); [| discriminate].
    intros _. split; [exact Hge |]. split; [reflexivity |].
    right; left. repeat split; assumption. }
  destruct (N.eqb_spec nt 2) as [E2 | E2].
  { rewrite Z.geb_leb.
    destruct (Z.leb_spec beta a) as [Hle | Hgt]; intros H; injection H as <- <- <-;
      (split; [reflexivity |]); [| discriminate].
    intros _. split; [exact Hge |]. split; [reflexivity |].
    right; right. repeat split; assumption. }
  destruct (N.eqb_spec nt 0) as [E0 | E0].
  { intros H; injection H as <- <- <-. split; [reflexivity |].
    intros _. split; [exact Hge |]. split; [reflexivity |].
    left. split; [exact E0 | reflexivity]. }
  intros H; injection H as <- <- <-. split; [reflexivity | discriminate].
Qed.

End Spec.

(* ------------------------------------------------------------------ the invariant *)

Section Run.
Variable nb : N.
Variable bs : nat.
Variable inf : Z.

(* Ghost-log invariant: every bucket has [bs] slots, and every non-empty slot of the table
   carries the payload of a save in the log. *)
Definition inv (log : list save_rec) (st : tt_state) : Prop :=
  (forall k, length (st_tab st k) = bs) /\
  (forall k e, In e (st_tab st k) -> te_hash e <> 0 ->
     exists sv, In sv log /\ entry_of sv e).

Lemma in_empty k e : In e (tt_empty bs k) -> e = empty_entry.
Proof. unfold tt_empty. intros H. apply repeat_spec in H. exact H. Qed.

Lemma inv_empty log he : inv log {| st_tab := tt_empty bs; st_he := he |}.
Proof.
  split; cbn [st_tab].
  - intro k. apply repeat_length.
  - intros k e Hin Hne. apply in_empty in Hin. subst e. cbn in Hne. congruence.
Qed.

Lemma entry_of_write old sv :
  entry_of sv (write_entry old (sv_hash sv) (sv_move sv) (sv_depth sv) (sv_score sv) (sv_nt sv) (sv_age sv)).
Proof.
  unfold entry_of, write_entry. cbn [te_hash te_move te_score te_depth te_ant].
  rewrite write_ant. repeat split; reflexivity.
Qed.

Lemma inv_save log st sv : inv log st -> inv (log ++ [sv]) (tt_save_rec nb st sv).
Proof.
  intros [Hlen Hent]. unfold tt_save_rec, tt_save.
  destruct (save_scan (st_tab st (tt_index nb (sv_hash sv))) (sv_depth sv) (sv_age sv)) as [i we] eqn:Escan.
  split; cbn [st_tab].
  - intro k. unfold tab_upd. destruct (N.eqb_spec k (tt_index nb (sv_hash sv))) as [-> | Hk].
    + rewrite upd_length. apply Hlen.
    + apply Hlen.
  - intros k e Hin Hne.
    assert (Hold : In e (st_tab st k) -> exists sv0, In sv0 (log ++ [sv]) /\ entry_of sv0 e).
    { intros Hin0. destruct (Hent _ _ Hin0 Hne) as (sv0 & Hl & He).
      exists sv0. split; [apply in_or_app; left; exact Hl | exact He]. }
    unfold tab_upd in Hin. destruct (N.eqb_spec k (tt_index nb (sv_hash sv))) as [-> | Hk].
    + apply In_upd in Hin. destruct Hin as [-> | Hin].
      * exists sv. split; [apply in_or_app; right; left; reflexivity | apply entry_of_write].
      * apply Hold, Hin.
    + apply Hold, Hin.
Qed.

Lemma inv_fold ops : forall st log, inv log st ->
  inv (log ++ saves_of ops) (fold_left (tt_step nb bs) ops st).
Proof.
  induction ops as [| o ops IH]; intros st log Hinv; cbn [fold_left saves_of].
  - rewrite app_nil_r. exact Hinv.
  - destruct o as [sv | h alpha beta depth ply |]; cbn [tt_step].
    + replace (log ++ sv :: saves_of ops) with ((log ++ [sv]) ++ saves_of ops)
        by (rewrite <- app_assoc; reflexivity).
      apply IH, inv_save, Hinv.
    + apply IH, Hinv.
    + apply IH. unfold tt_reset. apply inv_empty.
Qed.

Lemma inv_run ops : inv (saves_of ops) (tt_run nb bs ops).
Proof. unfold tt_run, tt_init. apply (inv_fold ops _ []). apply inv_empty. Qed.

(* ------------------------------------------------------------------ soundness *)

Lemma tt_sound_inv log st h alpha beta depth ply sc use mv :
  inv log st -> h <> 0 ->
  tt_get nb inf st h alpha beta depth ply = (sc, use, mv) ->
  (use = true ->
     exists sv, In sv log /\ sv_hash sv = h /\ explains inf sv alpha beta depth ply sc mv) /\
  (use = false ->
     mv = NullMove \/ exists sv, In sv log /\ sv_hash sv = h /\ mv = sv_move sv).
Proof.
  intros [_ Hent] Hh. unfold tt_get.
  destruct (get_scan (st_tab st (tt_index nb h)) h) as [e |] eqn:Escan.
  - destruct (get_scan_some _ _ _ Escan) as [Hin Hhash].
    assert (Hne : te_hash e <> 0) by (rewrite Hhash; exact Hh).
    destruct (Hent _ _ Hin Hne) as (sv & Hlog & Hof).
    assert (Hsvh : sv_hash sv = h) by (destruct Hof as (H1 & _); rewrite <- H1; exact Hhash).
    intros Hget. destruct (get_entry_sound inf sv e _ _ _ _ _ _ _ Hof Hget) as [Hmv Hexp].
    split.
    + intros Hu. exists sv. split; [exact Hlog |]. split; [exact Hsvh | exact (Hexp Hu)].
    + intros _. right. exists sv. split; [exact Hlog |]. split; [exact Hsvh | exact Hmv].
  - intros H. injection H as <- <- <-. split; [discriminate |]. intros _. left. reflexivity.
Qed.

Lemma tt_sound ops h alpha beta depth ply sc use mv :
  h <> 0 ->
  tt_get nb inf (tt_run nb bs ops) h alpha beta depth ply = (sc, use, mv) ->
  (use = true ->
     exists sv, In sv (saves_of ops) /\ sv_hash sv = h /\ explains inf sv alpha beta depth ply sc mv) /\
  (use = false ->
     mv = NullMove \/ exists sv, In sv (saves_of ops) /\ sv_hash sv = h /\ mv = sv_move sv).
Proof. intros Hh Hget. exact (tt_sound_inv _ _ _ _ _ _ _ _ _ _ (inv_run ops) Hh Hget). Qed.

(* ------------------------------------------------------------------ never stored *)

Lemma tt_never_stored ops h alpha beta depth ply :
  h <> 0 -> (forall sv, In sv (saves_of ops) -> sv_hash sv <> h) ->
  tt_get nb inf (tt_run nb bs ops) h alpha beta depth ply = (0%Z, false, NullMove).
Proof.
  intros Hh Hnone. destruct (inv_run ops) as [_ Hent]. unfold tt_get.
  destruct (get_scan (st_tab (tt_run nb bs ops) (tt_index nb h)) h) as [e |] eqn:Escan; [| reflexivity].
  exfalso. destruct (get_scan_some _ _ _ Escan) as [Hin Hhash].
  assert (Hne : te_hash e <> 0) by (rewrite Hhash; exact Hh).
  destruct (Hent _ _ Hin Hne) as (sv & Hlog & Hof).
  apply (Hnone sv Hlog). destruct Hof as (H1 & _). rewrite <- H1. exact Hhash.
Qed.

(* ------------------------------------------------------------------ store, then probe *)

(* The slot chosen by PotentiallySave and the slot found by the next Get for the same hash:
   Get finds the written entry, or an entry for that hash in front of it which the
   replacement scan has passed over (deeper than the new depth, or of smaller stored age). *)
Lemma save_then_scan b depth age i we v h :
  b <> [] -> save_scan b depth age = (i, we) -> te_hash v = h -> h <> 0 ->
  exists e, get_scan (upd b i v) h = Some e /\
    (e = v \/ (In e b /\ te_hash e = h /\ (depth < te_depth e \/ get_age (te_ant e) < age))).
Proof.
  revert i we. induction b as [| a b IH]; intros i we Hnil Hscan Hv Hh; [congruence |].
  assert (Hzero : forall r, get_scan (upd (a :: r) 0 v) h = Some v).
  { intro r. cbn. rewrite Hv, N.eqb_refl. reflexivity. }
  cbn [save_scan] in Hscan.
  destruct (N.eqb_spec (te_hash a) 0) as [Ha0 | Ha0].
  { injection Hscan as <- <-. exists v. split; [apply Hzero | left; reflexivity]. }
  destruct ((te_depth a <=? depth) && (age <=? get_age (te_ant a))) eqn:Eworse.
  { injection Hscan as <- <-. exists v. split; [apply Hzero | left; reflexivity]. }
  destruct b as [| a' b'].
  { injection Hscan as <- <-. exists v. split; [apply Hzero | left; reflexivity]. }
  destruct (save_scan (a' :: b') depth age) as [j w] eqn:Erec.
  injection Hscan as <- <-.
  change (upd (a :: a' :: b') (S j) v) with (a :: upd (a' :: b') j v).
  cbn [get_scan].
  destruct (N.eqb_spec (te_hash a) h) as [Hah | Hah].
  - exists a. split; [reflexivity |]. right. split; [left; reflexivity |]. split; [exact Hah |].
    apply andb_false_iff in Eworse. destruct Eworse as [E | E].
    + left. apply N.leb_gt in E. exact E.
    + right. apply N.leb_gt in E. exact E.
  - destruct (IH j w) as (e & Hget & Hcase); try assumption; [discriminate | reflexivity |].
    exists e. split; [exact Hget |].
    destruct Hcase as [-> | (Hin & Heh & Hcmp)]; [left; reflexivity |].
    right. split; [right; exact Hin |]. split; assumption.
Qed.

Lemma tt_store_then_probe ops sv alpha beta depth ply :
  bs <> O -> sv_hash sv <> 0 ->
  exists sv',
    In sv' (saves_of ops ++ [sv]) /\ sv_hash sv' = sv_hash sv /\
    hit inf sv' alpha beta depth ply
      (tt_get nb inf (tt_save_rec nb (tt_run nb bs ops) sv) (sv_hash sv) alpha beta depth ply) /\
    (sv' = sv \/
     (In sv' (saves_of ops) /\
      (sv_depth sv < sv_depth sv' \/ stored_age (sv_age sv') < sv_age sv))).
Proof.
  intros Hbs Hh. destruct (inv_run ops) as [Hlen Hent].
  set (st := tt_run nb bs ops) in *.
  unfold tt_save_rec, tt_save, tt_get.
  set (key := tt_index nb (sv_hash sv)).
  destruct (save_scan (st_tab st key) (sv_depth sv) (sv_age sv)) as [i we] eqn:Escan.
  cbn [st_tab]. unfold tab_upd. rewrite N.eqb_refl.
  set (v := write_entry (nth i (st_tab st key) empty_entry) (sv_hash sv) (sv_move sv)
                        (sv_depth sv) (sv_score sv) (sv_nt sv) (sv_age sv)).
  assert (Hnil : st_tab st key <> []).
  { intro E. apply Hbs. rewrite <- (Hlen key), E. reflexivity. }
  destruct (save_then_scan _ _ _ _ _ v (sv_hash sv) Hnil Escan eq_refl Hh) as (e & Hget & Hcase).
  rewrite Hget.
  destruct Hcase as [-> | (Hin & Heh & Hcmp)].
  - exists sv. split; [apply in_or_app; right; left; reflexivity |]. split; [reflexivity |].
    split; [apply get_entry_hit, entry_of_write | left; reflexivity].
  - assert (Hne : te_hash e <> 0) by (rewrite Heh; exact Hh).
    destruct (Hent _ _ Hin Hne) as (sv' & Hlog & Hof).
    exists sv'. split; [apply in_or_app; left; exact Hlog |].
    split; [destruct Hof as (H1 & _); rewrite <- H1; exact Heh |].
    split; [apply get_entry_hit, Hof |].
    right. split; [exact Hlog |].
    destruct Hof as (_ & _ & _ & Hd & Ha).
    rewrite Ha, get_age_pack, Hd in Hcmp. exact Hcmp.
Qed.

(* ------------------------------------------------------------------ runs with output *)

Lemma tt_exec_state ops : forall st, fst (tt_exec nb bs inf st ops) = fold_left (tt_step nb bs) ops st.
Proof.
  induction ops as [| o ops IH]; intros st; cbn [tt_exec fold_left]; [reflexivity |].
  specialize (IH (tt_step nb bs st o)).
  destruct (tt_exec nb bs inf (tt_step nb bs st o) ops) as [stf outs].
  cbn [fst] in IH. destruct o; cbn [fst]; exact IH.
Qed.

(* The result recorded for a probe in the middle of a run is the probe of the table reached
   by the operations before it. *)
Lemma tt_exec_probe pre : forall st post h alpha beta depth ply,
  snd (tt_exec nb bs inf st (pre ++ OGet h alpha beta depth ply :: post)) =
  snd (tt_exec nb bs inf st pre) ++
  tt_get nb inf (fold_left (tt_step nb bs) pre st) h alpha beta depth ply ::
  snd (tt_exec nb bs inf (fold_left (tt_step nb bs) pre st) post).
Proof.
  induction pre as [| o pre IH]; intros st post h alpha beta depth ply.
  - cbn [app tt_exec fold_left snd tt_step].
    destruct (tt_exec nb bs inf st post) as [stf outs]. reflexivity.
  - cbn [app tt_exec fold_left].
    specialize (IH (tt_step nb bs st o) post h alpha beta depth ply).
    destruct (tt_exec nb bs inf (tt_step nb bs st o) (pre ++ OGet h alpha beta depth ply :: post)) as [stf outs].
    destruct (tt_exec nb bs inf (tt_step nb bs st o) pre) as [stf' outs'].
    cbn [snd] in IH. destruct o; cbn [snd]; rewrite IH; reflexivity.
Qed.

End Run.

(* ------------------------------------------------------------------ the naive reading is false *)

(* Two saves for one position: the second, shallower one goes to the next slot (the scan never
   looks for the hash), and the probe returns the first. *)
Definition naive_sv1 : save_rec :=
  {| sv_hash := 1; sv_move := 11; sv_depth := 5; sv_score := 100%Z; sv_nt := PVNode; sv_age := 0 |}.
Definition naive_sv2 : save_rec :=
  {| sv_hash := 1; sv_move := 22; sv_depth := 3; sv_score := 200%Z; sv_nt := PVNode; sv_age := 0 |}.
