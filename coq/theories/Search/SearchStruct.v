(* Structural facts about the search model (Search/Negamax.v) that C04 and C05 rest on.
   The model file is not touched.  Its two big functions are restated here in pieces, with the
   inner loops lambda-lifted over the recursive call ([q_loop], [nm_loop]) and the state-changing
   sub-expressions named ([nm_cut_state], [nm_snm], [nm_nmp], [nm_fpr], [nm_pvs], [nm_inner]); the
   text of the pieces is the model's text.  The unfolding equations [quiescence_eq], [negamax_eq]
   are proved by [reflexivity] (pure conversion), so any drift between the pieces and the model
   breaks the build.  All later reasoning is a symbolic walk over the pieces: the head [match] of
   the goal is destructed one scrutinee at a time ([stepA]), the calls that change the state put
   their fact into the context, and the leaves are closed by equational / linear reasoning.

   Part A (this file): the control part of the state (repetition stack, cancellation oracle, poll
   counter, adopted line, output) across a call: [negamax_A], [quiescence_A] and their
   consequences for C05 (a). *)
From Coq Require Import NArith ZArith List Bool FMapPositive Lia.
From Clemens Require Import Base.Res Base.Word Pos.Types Att.Attacks Pos.Position Eval.Eval
     Search.TT Search.Ordering Search.Negamax.
Import ListNotations.
Open Scope Z_scope.

(* ------------------------------------------------------------------ vocabulary (no section variables) *)
(* the next poll reports done *)
Definition cancelled (s : sst) : Prop :=
  match s_cancel s with Some k => (k <= s_polls s)%N | None => False end.
(* some poll has already reported done *)
Definition fired (s : sst) : Prop :=
  match s_cancel s with Some k => (k < s_polls s)%N | None => False end.

Lemma cancelled_iff : forall s, cancelled s <-> exists k, s_cancel s = Some k /\ (k <= s_polls s)%N.
Proof.
  intro s; unfold cancelled; destruct (s_cancel s) as [k|]; split.
  - intro H; exists k; auto.
  - intros (k' & E & H); inversion E; subst; auto.
  - intros [].
  - intros (k' & E & _); discriminate.
Qed.
Lemma fired_iff : forall s, fired s <-> exists k, s_cancel s = Some k /\ (k < s_polls s)%N.
Proof.
  intro s; unfold fired; destruct (s_cancel s) as [k|]; split.
  - intro H; exists k; auto.
  - intros (k' & E & H); inversion E; subst; auto.
  - intros [].
  - intros (k' & E & _); discriminate.
Qed.

(* what a call may change of the control part of the state: nothing but the poll counter *)
Record frame (s s' : sst) : Prop := mk_frame {
  fr_hist : s_hist s' = s_hist s;
  fr_cancel : s_cancel s' = s_cancel s;
  fr_polls : (s_polls s <= s_polls s')%N;
  fr_pv : s_pv s' = s_pv s;
  fr_out : s_out s' = s_out s }.

(* only tables, caches, heuristics and the node counter differ *)
Definition same (s s' : sst) : Prop :=
  s_hist s' = s_hist s /\ s_cancel s' = s_cancel s /\ s_polls s' = s_polls s /\
  s_pv s' = s_pv s /\ s_out s' = s_out s.

Definition is_rok {A} (r : sresult A) : bool := match r with ROk _ => true | _ => false end.

Definition specA {A} (s : sst) (x : sresult A * sst) : Prop :=
  frame s (snd x) /\
  (is_rok (fst x) = true -> ~ fired s -> ~ fired (snd x)) /\
  (fst x = RCancel -> fired (snd x)).

Ltac projs := cbn [fst snd is_rok s_tt s_cache s_nodes s_killers s_history s_counter s_hist s_pv s_out s_polls s_cancel
                   upd_tt upd_cache upd_nodes upd_killers upd_history upd_counter upd_hist upd_pv emit set_cancel set_polls
                   pop_history halve_history] in *.

Ltac prepA1 :=
  match goal with
  | H : specA _ _ |- _ => destruct H as ([? ? ? ? ?] & ? & ?)
  | H : same _ _ |- _ => destruct H as (? & ? & ? & ? & ?)
  | H : frame _ _ |- _ => destruct H as [? ? ? ? ?]
  | H : _ /\ _ |- _ => destruct H
  | H : ?a = ?a -> _ |- _ => specialize (H eq_refl)
  | H : false = true -> _ |- _ => clear H
  | H : true = false -> _ |- _ => clear H
  | H : ROk _ = RCancel -> _ |- _ => clear H
  | H : RPanic = RCancel -> _ |- _ => clear H
  | H : ROutOfFuel = RCancel -> _ |- _ => clear H
  end.
Ltac prepA := projs; repeat (prepA1; projs).

(* after [prepA]: every fact is an equation between projections or an arithmetic fact *)
Ltac arithA :=
  unfold fired, cancelled in *; projs;
  repeat match goal with
  | H : s_cancel ?a = s_cancel ?b |- _ => rewrite H in *; clear H
  end;
  repeat match goal with
  | H : context [match s_cancel ?s with _ => _ end] |- _ =>
      let E := fresh "E" in destruct (s_cancel s) eqn:E; rewrite ?E in *
  | |- context [match s_cancel ?s with _ => _ end] =>
      let E := fresh "E" in destruct (s_cancel s) eqn:E; rewrite ?E in *
  end;
  cbv beta iota in *;
  first [ lia | tauto | congruence | discriminate ].

Ltac leaf_hook := idtac.
Ltac leafA :=
  first [ contradiction
        | leaf_hook;
          try match goal with |- context [contempt ?e ?p] => destruct (contempt e p) end; cbn [of_res bind];
          prepA; unfold specA; projs;
          (split; [ constructor; projs; first [ congruence | arithA ] | split; intros; try discriminate; unfold fired in *; projs; arithA ]) ].

Section Struct.
Variable K : zkeys.
Variable EC : econsts.
Variable OC : oconsts.
Variable SC : sconsts.

Definition q_rec := sst -> position -> Z -> Z -> N -> sresult Z * sst.

Definition q_loop (rec : q_rec)
  (p : position) (stand_pat beta : Z) (ply : N) :=
  fix loop (k : nat) (i : nat) (ms : list N) (s : sst) (alpha : Z) {struct k} : sresult Z * sst :=
            match k with
            | O => (ROk alpha, s)
            | S k' =>
              let ms := sort_index ms i in
              match nth_error ms i with
              | None => (RPanic, s)
              | Some m =>
                let next := loop k' (S i) ms in
                (* delta pruning *)
                let delta_skip : res bool :=
                  if negb (mv_kind m =? EN_PASSANT)%N then
                    pv <- nthz (ec_piece_value EC) PAWN ;;
                    let margin := mul16 2 pv in
                    margin <- (if (mv_kind m =? PROMOTION)%N then
                                 (pp <- nthz (ec_piece_value EC) (mv_promo m) ;; Ok (add16 (sub16 margin pv) pp))
                               else Ok margin) ;;
                    tp <- get_piece p (mv_dst m) ;;
                    tv <- nthz (ec_piece_value EC) (piece_type tp) ;;
                    if add16 (add16 stand_pat tv) margin <? alpha then
                      (e <- is_endgame EC p ;; Ok (negb e))
                    else Ok false
                  else Ok false in
                match delta_skip with
                | Ok true => next s alpha
                | Ok false =>
                  let see_skip : res bool :=
                    if negb (mv_kind m =? EN_PASSANT)%N then (v <- see EC p m ;; Ok (v <? 0)) else Ok false in
                  match see_skip with
                  | Ok true => next s alpha
                  | Ok false =>
                    match make_move K p m with
                    | Ok q =>
                      match is_legal q with
                      | Ok false => next s alpha
                      | Ok true =>
                        match rec s q (neg16 beta) (neg16 alpha) (w8 (ply + 1)) with
                        | (ROk sc, s) =>
                          let sc := neg16 sc in
                          if beta <=? sc then (ROk beta, s)
                          else next s (if alpha <? sc then sc else alpha)
                        | (r, s) => (r, s)
                        end
                      | _ => (RPanic, s)
                      end
                    | _ => (RPanic, s)
                    end
                  | _ => (RPanic, s)
                  end
                | _ => (RPanic, s)
                end
              end
            end.

Lemma quiescence_eq : forall f s p alpha beta ply,
  quiescence K EC OC SC (S f) s p alpha beta ply =
    let s := upd_nodes s (w64 (s_nodes s + 1)) in
    let '(done, s) := poll s in
    if done then (RCancel, s) else
    match evaluate EC s p with
    | ROk (stand_pat, s) =>
      if beta <=? stand_pat then (ROk beta, s) else
      let alpha := if alpha <? stand_pat then stand_pat else alpha in
      if (ply =? sc_q_max_depth SC)%N then (ROk alpha, s) else
      match gen_captures p with
      | Ok caps =>
        match score_moves OC p (hctx_of s p NULL_MOVE NULL_MOVE ply) caps with
        | Ok ms =>
          q_loop (quiescence K EC OC SC f) p stand_pat beta ply (length ms) 0%nat ms s alpha
        | _ => (RPanic, s)
        end
      | _ => (RPanic, s)
      end
    | _ => (RPanic, s)
    end.
Proof. reflexivity. Qed.

Definition nm_rec := sst -> position -> Z -> Z -> N -> N -> bool -> N -> N -> sresult (Z * list N) * sst.

Definition nm_cut_state (s : sst) (p : position) (depth ply prev_move bm m : N) (qt : bool) : sst :=
                                      if qt then
                                        let '(k0, k1) := killers_at s ply in
                                        let k1 := if negb (k0 =? bm)%N then k0 else k1 in
                                        let s := upd_killers s (PositiveMap.add (key_of ply) (bm, k1) (s_killers s)) in
                                        let src := mv_src m in let dst := mv_dst m in
                                        let hv := w16 (history_at s (side p) src dst + w16 (depth * depth))%N in
                                        let s := upd_history s (PositiveMap.add (hkey (side p) src dst) hv (s_history s)) in
                                        let s := if (oc_killer OC - 2 <? hv)%N then halve_history s (side p) else s in
                                        if negb (prev_move =? NULL_MOVE)%N then
                                          upd_counter s (PositiveMap.add (hkey (side p) (mv_src prev_move) (mv_dst prev_move)) m (s_counter s))
                                        else s
                                      else s.

Definition nm_snm (s : sst) (p : position) (beta : Z) (depth : N) (in_check pv_node : bool) : sresult (option Z * sst) :=
          if negb in_check && negb pv_node && negb (is_checkmate_value EC beta) then
            match evaluate EC s p with
            | ROk (ev, s) =>
              let b := sub16 ev (mul16 (sc_static_null_margin SC) (Z.of_N depth)) in
              ROk (if beta <=? b then Some b else None, s)
            | RCancel => RCancel | RPanic => RPanic | ROutOfFuel => ROutOfFuel
            end
          else ROk (None, s).

Definition nm_nmp (rec : nm_rec) (s : sst) (p : position) (beta : Z) (depth ply : N) (can_null in_check pv_node : bool)
  (root_hmc : N) : sresult (option Z) * sst :=
            if (2 <? depth)%N && can_null && negb in_check && negb pv_node && negb (is_pawn_endgame p) then
              match evaluate EC s p with
              | ROk (ev, s) =>
                if beta <? ev then
                  match make_null_move K p with
                  | Ok (q, _) =>
                    let R := if (6 <? depth)%N then 3%N else 2%N in
                    match rec s q (neg16 beta) (add16 (neg16 beta) 1) (w8 (depth + 256 - R - 1)) (w8 (ply + 1))
                                  false NULL_MOVE root_hmc with
                    | (ROk (sc, _), s) =>
                      let sc := neg16 sc in
                      if beta <=? sc then (ROk (Some beta), s) else (ROk None, s)
                    | (RCancel, s) => (RCancel, s)
                    | (RPanic, s) => (RPanic, s)
                    | (ROutOfFuel, s) => (ROutOfFuel, s)
                    end
                  | _ => (RPanic, s)
                  end
                else (ROk None, s)
              | RCancel => (RCancel, s) | RPanic => (RPanic, s) | ROutOfFuel => (ROutOfFuel, s)
              end
            else (ROk None, s).

Definition nm_fpr (s : sst) (p : position) (alpha beta : Z) (depth : N) (in_check pv_node : bool) : sresult (bool * sst) :=
              if negb pv_node && (depth <? sc_fut_depth SC)%N && negb in_check
                 && negb (is_checkmate_value EC alpha) && negb (is_checkmate_value EC beta) then
                match evaluate EC s p, nthz (sc_fut_margin SC) depth with
                | ROk (ev, s), Ok mg => ROk (add16 ev mg <=? alpha, s)
                | _, _ => RPanic
                end
              else ROk (false, s).

Definition nm_pvs (rec : nm_rec) (s : sst) (q : position) (alpha beta : Z) (d1 pl1 prev_move root_hmc legal : N)
  : sresult (Z * list N) * sst :=
                                if (legal =? 1)%N then
                                  match rec s q (neg16 beta) (neg16 alpha) d1 pl1 true prev_move root_hmc with
                                  | (ROk (sc, line), s) => (ROk (neg16 sc, line), s)
                                  | (r, s) => (r, s)
                                  end
                                else
                                  match rec s q (sub16 (neg16 alpha) 1) (neg16 alpha) d1 pl1 true prev_move root_hmc with
                                  | (ROk (sc, _), s) =>
                                    let sc := neg16 sc in
                                    if alpha <? sc then
                                      match rec s q (neg16 beta) (neg16 alpha) d1 pl1 true prev_move root_hmc with
                                      | (ROk (sc2, line), s) => (ROk (neg16 sc2, line), s)
                                      | (r, s) => (r, s)
                                      end
                                    else (ROk (sc, []), s)
                                  | (r, s) => (r, s)
                                  end.

Definition nm_loop (rec : nm_rec) (p : position) (beta : Z) (depth ply prev_move root_hmc : N) (f_prune : bool) :=
  fix loop (k : nat) (i : nat) (ms : list N) (s : sst) (L : lst) {struct k} : sresult (lst * bool) * sst :=
                    match k with
                    | O => (ROk (L, false), s)
                    | S k' =>
                      let ms := sort_index ms i in
                      match nth_error ms i with
                      | None => (RPanic, s)
                      | Some m =>
                        let next := loop k' (S i) ms in
                        match make_move K p m with
                        | Ok q =>
                          match is_legal q with
                          | Ok false => next s L
                          | Ok true =>
                            let L := {| l_alpha := l_alpha L; l_best_score := l_best_score L; l_best_move := l_best_move L;
                                        l_legal := w8 (l_legal L + 1); l_node_type := l_node_type L; l_pvl := l_pvl L |} in
                            let fut_skip : res bool :=
                              if f_prune then
                                c <- is_capture p m ;;
                                if negb c && negb (mv_kind m =? PROMOTION)%N then
                                  (chk <- is_in_check q (side q) ;; Ok (negb chk))
                                else Ok false
                              else Ok false in
                            match fut_skip with
                            | Ok true => next s L
                            | Ok false =>
                              let alpha := l_alpha L in
                              let d1 := w8 (depth + 256 - 1) in
                              let pl1 := w8 (ply + 1) in
                              (* principal variation search *)
                              let searched := nm_pvs rec s q alpha beta d1 pl1 prev_move root_hmc (l_legal L) in
                              match searched with
                              | (ROk (score, child_line), s) =>
                                let '(bs, bm) := if l_best_score L <? score then (score, m) else (l_best_score L, l_best_move L) in
                                if beta <=? score then
                                  (* beta cutoff: killer / history / counter updates for quiet moves *)
                                  let quiet : res bool :=
                                    tp <- get_piece p (mv_dst m) ;;
                                    Ok ((tp =? NO_PIECE)%N && negb (mv_kind m =? EN_PASSANT)%N) in
                                  match quiet with
                                  | Ok qt =>
                                    let s := nm_cut_state s p depth ply prev_move bm m qt in
                                    (ROk ({| l_alpha := alpha; l_best_score := bs; l_best_move := bm; l_legal := l_legal L;
                                             l_node_type := BetaNode; l_pvl := l_pvl L |}, true), s)
                                  | _ => (RPanic, s)
                                  end
                                else if alpha <? score then
                                  next s {| l_alpha := score; l_best_score := bs; l_best_move := bm; l_legal := l_legal L;
                                            l_node_type := PVNode; l_pvl := bm :: child_line |}
                                else
                                  next s {| l_alpha := alpha; l_best_score := bs; l_best_move := bm; l_legal := l_legal L;
                                            l_node_type := l_node_type L; l_pvl := l_pvl L |}
                              | (RCancel, s) => (RCancel, s)
                              | (RPanic, s) => (RPanic, s)
                              | (ROutOfFuel, s) => (ROutOfFuel, s)
                              end
                            | _ => (RPanic, s)
                            end
                          | _ => (RPanic, s)
                          end
                        | _ => (RPanic, s)
                        end
                      end
                    end.

Definition nm_inner (rec : nm_rec) (s : sst) (p : position) (alpha beta : Z) (depth ply : N)
  (can_null : bool) (prev_move root_hmc : N) (in_check : bool) : sresult (Z * list N) * sst :=
  let is_root := (ply =? 0)%N in
  let mate_value := add16 (- (INF EC)) (Z.of_N ply) in
  let pv_node := negb (sub16 beta alpha =? 1) in
        let pv_move := nth (N.to_nat ply) (s_pv s) NULL_MOVE in
        let '(tt_score, tt_use, tt_move) :=
          tt_get (sc_tt_buckets SC) (INF EC) (s_tt s) (hash p) alpha beta depth ply in
        if negb is_root && negb pv_node && tt_use then (ROk (tt_score, []), s) else
        (* static null move pruning *)
        let snm := nm_snm s p beta depth in_check pv_node in
        match snm with
        | ROk (Some b, s) => (ROk (b, []), s)
        | ROk (None, s) =>
          (* null move pruning *)
          let nmp := nm_nmp rec s p beta depth ply can_null in_check pv_node root_hmc in
          match nmp with
          | (ROk (Some b), s) => (ROk (b, []), s)
          | (ROk None, s) =>
            (* futility pruning flag *)
            let fpr := nm_fpr s p alpha beta depth in_check pv_node in
            match fpr with
            | ROk (f_prune, s) =>
              match gen_moves p with
              | Ok gen =>
                match score_moves OC p (hctx_of s p pv_move tt_move ply) gen with
                | Ok ms =>
                  match nm_loop rec p beta depth ply prev_move root_hmc f_prune (length ms) 0%nat ms s
                             {| l_alpha := alpha; l_best_score := - (INF EC); l_best_move := NULL_MOVE; l_legal := 0%N;
                                l_node_type := AlphaNode; l_pvl := [] |} with
                  | (ROk (L, _), s) =>
                    if (l_legal L =? 0)%N then
                      if in_check then (ROk (mate_value, l_pvl L), s)
                      else (of_res (c <- contempt EC p ;; Ok (c, l_pvl L)), s)
                    else
                      let '(done, s) := poll s in
                      if done then (RCancel, s) else
                      let s := upd_tt s (tt_save (sc_tt_buckets SC) (s_tt s) (hash p) (l_best_move L) depth
                                                 (l_best_score L) (l_node_type L) root_hmc) in
                      (ROk (l_best_score L, l_pvl L), s)
                  | (RCancel, s) => (RCancel, s)
                  | (RPanic, s) => (RPanic, s)
                  | (ROutOfFuel, s) => (ROutOfFuel, s)
                  end
                | _ => (RPanic, s)
                end
              | _ => (RPanic, s)
              end
            | RCancel => (RCancel, s) | RPanic => (RPanic, s) | ROutOfFuel => (ROutOfFuel, s)
            end
          | (RCancel, s) => (RCancel, s)
          | (RPanic, s) => (RPanic, s)
          | (ROutOfFuel, s) => (ROutOfFuel, s)
          end
        | RCancel => (RCancel, s) | RPanic => (RPanic, s) | ROutOfFuel => (ROutOfFuel, s)
        end.

Lemma negamax_eq : forall f s p alpha beta depth ply can_null prev_move root_hmc,
  negamax K EC OC SC (S f) s p alpha beta depth ply can_null prev_move root_hmc =
    let '(done, s) := poll s in
    if done then (RCancel, s) else
    let is_root := (ply =? 0)%N in
    match is_in_check p (side p) with
    | Ok in_check =>
      let depth := if in_check then w8 (depth + 1) else depth in
      if (depth =? 0)%N then
        match quiescence K EC OC SC f s p alpha beta ply with
        | (ROk v, s) => (ROk (v, []), s)
        | (RCancel, s) => (RCancel, s)
        | (RPanic, s) => (RPanic, s)
        | (ROutOfFuel, s) => (ROutOfFuel, s)
        end
      else
      let s := upd_nodes s (w64 (s_nodes s + 1)) in
      let rep := negb is_root && negb in_check && is_repetition s p in
      if rep then (of_res (c <- contempt EC p ;; Ok (c, [])), s) else
      match push_history SC s p with
      | ROk s => let r := nm_inner (negamax K EC OC SC f) s p alpha beta depth ply can_null prev_move root_hmc in_check in
                 (fst r, pop_history (snd r))
      | _ => (RPanic, s)
      end
    | _ => (RPanic, s)
    end.
Proof. reflexivity. Qed.

(* ------------------------------------------------------------------ A: control part of the state *)
Lemma poll_A : forall s,
  frame s (snd (poll s)) /\ s_polls (snd (poll s)) = (s_polls s + 1)%N /\
  (fst (poll s) = true -> fired (snd (poll s)) /\ cancelled s) /\
  (fst (poll s) = false -> ~ fired (snd (poll s)) /\ ~ cancelled s).
Proof.
  intro s; unfold poll, fired, cancelled; projs.
  split; [constructor; projs; (reflexivity || lia)|].
  split; [reflexivity|].
  destruct (s_cancel s) as [k|]; split; intros H; try discriminate; try tauto.
  - apply N.leb_le in H. split; lia.
  - apply N.leb_gt in H. split; lia.
Qed.

Lemma evaluate_A : forall s p,
  match evaluate EC s p with ROk (_, s1) => same s s1 | RCancel => False | _ => True end.
Proof.
  intros; unfold evaluate. destruct (eval_cached EC (s_cache s) p) as [[v c]| |]; auto.
  unfold same; projs; auto.
Qed.

Lemma cut_same : forall s p depth ply pm bm m qt, same s (nm_cut_state s p depth ply pm bm m qt).
Proof.
  intros; unfold nm_cut_state, same.
  destruct qt; [|auto]. destruct (killers_at s ply) as [k0 k1].
  repeat match goal with |- context [if ?b then _ else _] => destruct b end; projs; auto.
Qed.

Ltac leaf_hook ::=
  repeat match goal with
  | |- context [nm_cut_state ?s ?p ?d ?pl ?pm ?bm ?m ?qt] =>
      let H := fresh "Hcut" in let sc := fresh "sc" in
      pose proof (cut_same s p d pl pm bm m qt) as H;
      set (sc := nm_cut_state s p d pl pm bm m qt) in *; clearbody sc
  end.

Lemma snm_A : forall s p beta depth ic pv,
  match nm_snm s p beta depth ic pv with ROk (_, s1) => same s s1 | RCancel => False | _ => True end.
Proof.
  intros; unfold nm_snm.
  destruct (negb ic && negb pv && negb (is_checkmate_value EC beta)).
  - pose proof (evaluate_A s p) as H. destruct (evaluate EC s p) as [[v s1]| | |]; auto.
  - unfold same; auto.
Qed.

Lemma fpr_A : forall s p alpha beta depth ic pv,
  match nm_fpr s p alpha beta depth ic pv with ROk (_, s1) => same s s1 | RCancel => False | _ => True end.
Proof.
  intros; unfold nm_fpr.
  match goal with |- context [if ?b then _ else _] => destruct b end.
  - pose proof (evaluate_A s p) as H. destruct (evaluate EC s p) as [[v s1]| | |]; auto;
    destruct (nthz (sc_fut_margin SC) depth); auto.
  - unfold same; auto.
Qed.

Lemma push_A : forall s p,
  match push_history SC s p with
  | ROk s1 => s1 = upd_hist s (hash p :: s_hist s)
  | RPanic => True | _ => False end.
Proof. intros; unfold push_history. destruct (_ <? _)%N; auto. Qed.

(* one step of the symbolic walk through a body: the head match of the goal is destructed; for the
   calls that change the state the corresponding fact is put into the context first *)
Ltac basicA x :=
  lazymatch x with
  | poll ?s =>
      let H := fresh "Hp" in pose proof (poll_A s) as H; destruct (poll s) as [[|] ?]
  | evaluate EC ?s ?p =>
      let H := fresh "He" in pose proof (evaluate_A s p) as H; destruct (evaluate EC s p) as [[? ?]| | |]
  | nm_snm ?s ?p ?b ?d ?ic ?pv =>
      let H := fresh "He" in pose proof (snm_A s p b d ic pv) as H;
      destruct (nm_snm s p b d ic pv) as [[[?|] ?]| | |]
  | nm_fpr ?s ?p ?a ?b ?d ?ic ?pv =>
      let H := fresh "He" in pose proof (fpr_A s p a b d ic pv) as H;
      destruct (nm_fpr s p a b d ic pv) as [[? ?]| | |]
  end.
Ltac stepA calls :=
  lazymatch goal with
  | |- specA _ (match ?x with _ => _ end) => first [ basicA x | calls x | destruct x ]
  end.
Ltac walkA calls := cbv zeta; repeat (stepA calls); try (leafA; fail).

Section WithRec.
Variable rec : nm_rec.
Hypothesis Hrec : forall s q a b d pl cn pm rh, specA s (rec s q a b d pl cn pm rh).

Ltac recA x :=
  lazymatch x with
  | rec ?s ?q ?a ?b ?d ?pl ?cn ?pm ?rh =>
      let H := fresh "Hc" in pose proof (Hrec s q a b d pl cn pm rh) as H;
      destruct (rec s q a b d pl cn pm rh) as [[[? ?]| | |] ?]
  end.

Lemma pvs_A : forall s q alpha beta d1 pl1 pm rh lg, specA s (nm_pvs rec s q alpha beta d1 pl1 pm rh lg).
Proof. intros; unfold nm_pvs. walkA recA. Qed.

Lemma nmp_A : forall s p beta depth ply cn ic pv rh, specA s (nm_nmp rec s p beta depth ply cn ic pv rh).
Proof. intros; unfold nm_nmp. walkA recA. Qed.

Ltac recA2 x :=
  lazymatch x with
  | nm_pvs rec ?s ?q ?a ?b ?d ?pl ?pm ?rh ?lg =>
      let H := fresh "Hc" in pose proof (pvs_A s q a b d pl pm rh lg) as H;
      destruct (nm_pvs rec s q a b d pl pm rh lg) as [[[? ?]| | |] ?]
  end.

Lemma loop_A : forall p beta depth ply pm rh fp k i ms s L,
  specA s (nm_loop rec p beta depth ply pm rh fp k i ms s L).
Proof.
  intros p beta depth ply pm rh fp k; induction k as [|k IH]; intros.
  - cbn. leafA.
  - unfold nm_loop; fold (nm_loop rec p beta depth ply pm rh fp).
    cbv zeta.
    repeat first [ lazymatch goal with
                   | |- specA _ (nm_loop rec p beta depth ply pm rh fp k ?i ?ms ?s ?L) =>
                       let H := fresh "Hl" in pose proof (IH i ms s L) as H;
                       destruct (nm_loop rec p beta depth ply pm rh fp k i ms s L) as [[?| | |] ?]
                   end
                 | stepA recA2 ].
    all: leafA.
Qed.

Ltac recA3 x :=
  lazymatch x with
  | nm_nmp rec ?s ?p ?b ?d ?pl ?cn ?ic ?pv ?rh =>
      let H := fresh "Hc" in pose proof (nmp_A s p b d pl cn ic pv rh) as H;
      destruct (nm_nmp rec s p b d pl cn ic pv rh) as [[[?|]| | |] ?]
  | nm_loop rec ?p ?b ?d ?pl ?pm ?rh ?fp ?k ?i ?ms ?s ?L =>
      let H := fresh "Hc" in pose proof (loop_A p b d pl pm rh fp k i ms s L) as H;
      destruct (nm_loop rec p b d pl pm rh fp k i ms s L) as [[[? ?]| | |] ?]
  end.

(* between pushHistory and the deferred popHistory *)
Lemma inner_A : forall s p alpha beta depth ply cn pm rh ic,
  specA s (nm_inner rec s p alpha beta depth ply cn pm rh ic).
Proof. intros; unfold nm_inner. walkA recA3. Qed.
End WithRec.

Section WithQRec.
Variable qrec : q_rec.
Hypothesis Hq : forall s q a b pl, specA s (qrec s q a b pl).

Ltac qrecA x :=
  lazymatch x with
  | qrec ?s ?q ?a ?b ?pl =>
      let H := fresh "Hc" in pose proof (Hq s q a b pl) as H;
      destruct (qrec s q a b pl) as [[?| | |] ?]
  end.

Lemma qloop_A : forall p sp beta ply k i ms s alpha,
  specA s (q_loop qrec p sp beta ply k i ms s alpha).
Proof.
  intros p sp beta ply k; induction k as [|k IH]; intros.
  - cbn. leafA.
  - unfold q_loop; fold (q_loop qrec p sp beta ply).
    cbv zeta.
    repeat first [ lazymatch goal with
                   | |- specA _ (q_loop qrec p sp beta ply k ?i ?ms ?s ?a) =>
                       let H := fresh "Hl" in pose proof (IH i ms s a) as H;
                       destruct (q_loop qrec p sp beta ply k i ms s a) as [[?| | |] ?]
                   end
                 | stepA qrecA ].
    all: leafA.
Qed.
End WithQRec.

Theorem quiescence_A : forall f s p alpha beta ply, specA s (quiescence K EC OC SC f s p alpha beta ply).
Proof.
  induction f as [|f IH]; intros.
  - cbn. leafA.
  - rewrite quiescence_eq. cbv zeta.
    repeat first [ lazymatch goal with
                   | |- specA _ (q_loop ?r ?p ?sp ?b ?pl ?k ?i ?ms ?s ?a) =>
                       let H := fresh "Hl" in pose proof (qloop_A r IH p sp b pl k i ms s a) as H;
                       destruct (q_loop r p sp b pl k i ms s a) as [[?| | |] ?]
                   end
                 | stepA ltac:(fun x => fail) ].
    all: leafA.
Qed.

Theorem negamax_A : forall f s p alpha beta depth ply cn pm rh,
  specA s (negamax K EC OC SC f s p alpha beta depth ply cn pm rh).
Proof.
  induction f as [|f IH]; intros.
  - cbn. leafA.
  - rewrite negamax_eq. cbv zeta.
    repeat stepA ltac:(fun x =>
      lazymatch x with
      | quiescence K EC OC SC ?f ?s ?p ?a ?b ?pl =>
          let H := fresh "Hc" in pose proof (quiescence_A f s p a b pl) as H;
          destruct (quiescence K EC OC SC f s p a b pl) as [[?| | |] ?]
      | push_history SC ?s ?p =>
          let H := fresh "Hh" in pose proof (push_A s p) as H;
          destruct (push_history SC s p) as [?| | |]; [subst| | |]
      end).
    all: try (leafA; fail).
    match goal with
    | |- context [nm_inner ?r ?s ?p ?a ?b ?d ?pl ?cn ?pm ?rh ?ic] =>
        pose proof (inner_A r IH s p a b d pl cn pm rh ic) as Hin;
        destruct (nm_inner r s p a b d pl cn pm rh ic) as [[?| | |] s1]
    end.
    all: prepA; unfold specA; projs;
      (split; [constructor; projs; try first [congruence | arithA]|]);
      [ match goal with H : s_hist _ = _ :: _ |- _ => rewrite H end; cbn [tl]; congruence
      | split; intros; try discriminate; unfold fired in *; projs; arithA ].
Qed.

(* ------------------------------------------------------------------ A: consequences *)
Lemma fired_cancelled : forall s, fired s -> cancelled s.
Proof. intro s; unfold fired, cancelled; destruct (s_cancel s); [lia|auto]. Qed.

Lemma fired_dec : forall s, fired s \/ ~ fired s.
Proof. intro s; unfold fired; destruct (s_cancel s) as [k|]; [|tauto]. destruct (N.lt_decidable k (s_polls s)); auto. Qed.

Lemma poll_cancelled : forall s, cancelled s -> poll s = (true, set_polls s (s_polls s + 1)).
Proof.
  intros s H. unfold poll, set_polls, cancelled in *.
  destruct (s_cancel s) as [k|]; [|tauto]. apply N.leb_le in H. rewrite H. reflexivity.
Qed.

(* C05 (a): a call entered with the oracle already due returns the error at once: only the poll
   counter moves (negamax), resp. the poll counter and the one node increment (quiescence) *)
Theorem negamax_cancelled : forall f s p alpha beta depth ply cn pm rh,
  cancelled s ->
  negamax K EC OC SC (S f) s p alpha beta depth ply cn pm rh = (RCancel, set_polls s (s_polls s + 1)).
Proof.
  intros. rewrite negamax_eq. rewrite (poll_cancelled s H). reflexivity.
Qed.

Theorem quiescence_cancelled : forall f s p alpha beta ply,
  cancelled s ->
  quiescence K EC OC SC (S f) s p alpha beta ply =
    (RCancel, set_polls (upd_nodes s (w64 (s_nodes s + 1))) (s_polls s + 1)).
Proof.
  intros. rewrite quiescence_eq. cbv zeta.
  rewrite (poll_cancelled (upd_nodes s (w64 (s_nodes s + 1))) H). reflexivity.
Qed.

Theorem negamax_frame : forall f s p alpha beta depth ply cn pm rh r s',
  negamax K EC OC SC f s p alpha beta depth ply cn pm rh = (r, s') -> frame s s'.
Proof. intros. pose proof (negamax_A f s p alpha beta depth ply cn pm rh) as H0. rewrite H in H0. apply H0. Qed.

Theorem quiescence_frame : forall f s p alpha beta ply r s',
  quiescence K EC OC SC f s p alpha beta ply = (r, s') -> frame s s'.
Proof. intros. pose proof (quiescence_A f s p alpha beta ply) as H0. rewrite H in H0. apply H0. Qed.

Lemma frame_cancelled : forall s s', frame s s' -> cancelled s -> cancelled s'.
Proof. intros s s' [? ? ? ? ?] H. unfold cancelled in *. rewrite fr_cancel0. destruct (s_cancel s); [lia|auto]. Qed.
Lemma frame_fired : forall s s', frame s s' -> fired s -> fired s'.
Proof. intros s s' [? ? ? ? ?] H. unfold fired in *. rewrite fr_cancel0. destruct (s_cancel s); [lia|auto]. Qed.

(* a call during which a poll reported done never returns a value *)
Theorem cancel_propagates : forall f s p alpha beta depth ply cn pm rh r s',
  negamax K EC OC SC f s p alpha beta depth ply cn pm rh = (r, s') ->
  fired s' -> r = RCancel \/ r = RPanic \/ r = ROutOfFuel.
Proof.
  intros f s p alpha beta depth ply cn pm rh r s' H Hf.
  destruct r as [x| | |]; auto. exfalso.
  destruct (fired_dec s) as [Hs|Hs].
  - destruct f; [cbn in H; discriminate|].
    rewrite (negamax_cancelled f s p alpha beta depth ply cn pm rh (fired_cancelled s Hs)) in H. discriminate.
  - pose proof (negamax_A f s p alpha beta depth ply cn pm rh) as H0. rewrite H in H0.
    destruct H0 as (_ & H0 & _). cbn [fst snd is_rok] in H0. exact (H0 eq_refl Hs Hf).
Qed.

Theorem cancel_propagates_q : forall f s p alpha beta ply r s',
  quiescence K EC OC SC f s p alpha beta ply = (r, s') ->
  fired s' -> r = RCancel \/ r = RPanic \/ r = ROutOfFuel.
Proof.
  intros f s p alpha beta ply r s' H Hf.
  destruct r as [x| | |]; auto. exfalso.
  destruct (fired_dec s) as [Hs|Hs].
  - destruct f; [cbn in H; discriminate|].
    rewrite (quiescence_cancelled f s p alpha beta ply (fired_cancelled s Hs)) in H. discriminate.
  - pose proof (quiescence_A f s p alpha beta ply) as H0. rewrite H in H0.
    destruct H0 as (_ & H0 & _). cbn [fst snd is_rok] in H0. exact (H0 eq_refl Hs Hf).
Qed.

(* the error is returned only if a poll reported done *)
Theorem rcancel_only_if_fired : forall f s p alpha beta depth ply cn pm rh s',
  negamax K EC OC SC f s p alpha beta depth ply cn pm rh = (RCancel, s') -> fired s'.
Proof.
  intros. pose proof (negamax_A f s p alpha beta depth ply cn pm rh) as H0. rewrite H in H0.
  destruct H0 as (_ & _ & H0). exact (H0 eq_refl).
Qed.

Theorem polls_monotone : forall f s p alpha beta depth ply cn pm rh r s',
  negamax K EC OC SC f s p alpha beta depth ply cn pm rh = (r, s') ->
  (s_polls s <= s_polls s')%N /\ s_cancel s' = s_cancel s.
Proof. intros. apply negamax_frame in H. destruct H; auto. Qed.

Theorem once_cancelled_always : forall f s p alpha beta depth ply cn pm rh r s',
  negamax K EC OC SC f s p alpha beta depth ply cn pm rh = (r, s') -> cancelled s -> cancelled s'.
Proof. intros. apply negamax_frame in H. eapply frame_cancelled; eauto. Qed.

(* the deferred popHistory: EVERY call, whatever it returns (value, error, panic, out of fuel),
   leaves the repetition stack as it found it; it never touches s.PV nor the output *)
Theorem history_balanced : forall f s p alpha beta depth ply cn pm rh r s',
  negamax K EC OC SC f s p alpha beta depth ply cn pm rh = (r, s') ->
  s_hist s' = s_hist s /\ s_pv s' = s_pv s /\ s_out s' = s_out s.
Proof. intros. apply negamax_frame in H. destruct H; auto. Qed.

(* after the oracle is due: no table, cache, heuristic, PV or output write, no node counted *)
Theorem no_write_after_cancel : forall f s p alpha beta depth ply cn pm rh r s',
  cancelled s ->
  negamax K EC OC SC f s p alpha beta depth ply cn pm rh = (r, s') ->
  s_tt s' = s_tt s /\ s_cache s' = s_cache s /\ s_nodes s' = s_nodes s /\
  s_killers s' = s_killers s /\ s_history s' = s_history s /\ s_counter s' = s_counter s /\
  s_hist s' = s_hist s /\ s_pv s' = s_pv s /\ s_out s' = s_out s /\
  (r = RCancel \/ r = ROutOfFuel).
Proof.
  intros f s p alpha beta depth ply cn pm rh r s' Hc H. destruct f.
  - cbn in H. inversion H; subst. repeat split; auto.
  - rewrite negamax_cancelled in H by assumption. inversion H; subst. projs. repeat split; auto.
Qed.

Theorem no_write_after_cancel_q : forall f s p alpha beta ply r s',
  cancelled s ->
  quiescence K EC OC SC f s p alpha beta ply = (r, s') ->
  s_tt s' = s_tt s /\ s_cache s' = s_cache s /\
  (s_nodes s' = s_nodes s \/ s_nodes s' = w64 (s_nodes s + 1)) /\
  s_killers s' = s_killers s /\ s_history s' = s_history s /\ s_counter s' = s_counter s /\
  s_hist s' = s_hist s /\ s_pv s' = s_pv s /\ s_out s' = s_out s /\
  (r = RCancel \/ r = ROutOfFuel).
Proof.
  intros f s p alpha beta ply r s' Hc H. destruct f.
  - cbn in H. inversion H; subst. repeat split; auto.
  - rewrite quiescence_cancelled in H by assumption. inversion H; subst. projs. repeat split; auto.
Qed.

End Struct.
