(* Further facts about calculateTime (model: Search/Time.v).
   1. The clock and movetime bounds hold for EVERY int64 input (no 2^40 range premise): whatever wraps
      happen on the way, the value finally subtracted from is at most the clock.
   2. The margin is the one the code intends: at least 50 ms and at least a tenth below the clock.
   3. Without a movetime the budget stays below the configured maximum; with nothing known it is 900. *)
From Coq Require Import ZArith Lia ZifyBool.
From Clemens Require Import Search.Time Search.TimeProofs.
Open Scope Z_scope.
Ltac Zify.zify_post_hook ::= Z.to_euclidean_division_equations.

Definition is_i64 (x : Z) : Prop := - two63 <= x < two63.

Definition all_i64 (plys : Z) (sp : go_params) : Prop :=
  is_i64 plys /\ is_i64 (gp_wtime sp) /\ is_i64 (gp_btime sp) /\
  is_i64 (gp_winc sp) /\ is_i64 (gp_binc sp) /\ is_i64 (gp_movetime sp).

Lemma i64_range x : is_i64 (i64 x).
Proof. unfold is_i64, i64, two63, two64. lia. Qed.

Lemma quot_shrinks y r : is_i64 y -> 20 <= r -> - 461168601842738791 <= Z.quot y r <= 461168601842738791.
Proof.
  unfold is_i64, two63. intros Hy Hr.
  assert (Hq := Z.quot_rem' y r).
  destruct (Z_le_gt_dec 0 y) as [Hy0|Hy0].
  - assert (H1 := Z.rem_bound_pos y r ltac:(lia) ltac:(lia)).
    assert (0 <= Z.quot y r) by (apply Z.quot_pos; lia).
    nia.
  - assert (H1 := Z.rem_opp_l' y r). assert (H2 := Z.quot_opp_l y r ltac:(lia)).
    assert (H3 := Z.rem_bound_pos (- y) r ltac:(lia) ltac:(lia)).
    assert (Hq' := Z.quot_rem' (- y) r).
    assert (0 <= Z.quot (- y) r) by (apply Z.quot_pos; lia).
    nia.
Qed.

(* the last two statements of calculateTime, on a value [m] that is not absurdly negative *)
Lemma tail_lt m t : - 461168601842738791 <= m -> is_i64 t -> 0 < t ->
  i64 (Z.min m t - Z.max (Z.quot (Z.min m t) 10) 50) <= t - Z.max (Z.quot t 10) 50.
Proof.
  unfold is_i64. intros Hm Ht H0.
  rewrite i64_id by (unfold two63 in *; lia).
  unfold two63 in *; lia.
Qed.

Theorem budget_margin_any_i64 max_ms (black : bool) plys sp :
  0 <= max_ms -> all_i64 plys sp ->
  let t := if black then gp_btime sp else gp_wtime sp in
  0 < t -> calc_time max_ms black plys sp <= t - Z.max (Z.quot t 10) 50.
Proof.
  intros Hmax (Hp & Hw & Hb & Hwi & Hbi & Hmt) t Ht.
  unfold calc_time. fold t.
  assert (Hti : is_i64 t) by (unfold t; destruct black; assumption).
  assert (E : (0 <? t) = true) by lia. rewrite E.
  set (rem := Z.max (i64 (60 - Z.quot plys 2)) 20).
  assert (Hrem : 20 <= rem) by (unfold rem; lia).
  set (inc := if black then gp_binc sp else gp_winc sp).
  assert (Hq := quot_shrinks (i64 (t + i64 (inc * rem))) rem (i64_range _) Hrem).
  set (q := Z.quot (i64 (t + i64 (inc * rem))) rem) in *.
  destruct (0 <? gp_movetime sp) eqn:E1.
  - apply tail_lt; [ unfold is_i64, two63 in *; lia | assumption | assumption ].
  - apply tail_lt; [ lia | assumption | assumption ].
Qed.

Corollary budget_lt_clock_any_i64 max_ms (black : bool) plys sp :
  0 <= max_ms -> all_i64 plys sp ->
  let t := if black then gp_btime sp else gp_wtime sp in
  0 < t -> calc_time max_ms black plys sp < t.
Proof.
  intros Hmax Hr t Ht.
  assert (H := budget_margin_any_i64 max_ms black plys sp Hmax Hr Ht). fold t in H. lia.
Qed.

Theorem budget_lt_movetime_any_i64 max_ms (black : bool) plys sp :
  all_i64 plys sp ->
  0 < gp_movetime sp -> calc_time max_ms black plys sp <= gp_movetime sp - 50.
Proof.
  intros (Hp & Hw & Hb & Hwi & Hbi & Hmt) Hm.
  unfold calc_time.
  set (t := if black then gp_btime sp else gp_wtime sp).
  assert (Hti : is_i64 t) by (unfold t; destruct black; assumption).
  assert (E : (0 <? gp_movetime sp) = true) by lia. rewrite E.
  unfold is_i64, two63 in *.
  destruct (0 <? t) eqn:E2; rewrite i64_id by (unfold two63; lia); lia.
Qed.

(* Without a movetime the budget is below the configured maximum. *)
Theorem budget_lt_max max_ms (black : bool) plys sp :
  0 <= max_ms < lim -> in_range plys sp -> gp_movetime sp = 0 ->
  let t := if black then gp_btime sp else gp_wtime sp in
  0 < t -> calc_time max_ms black plys sp <= max_ms - 50.
Proof.
  intros Hm Hr Hmt t Ht. rewrite calc_time_nowrap by assumption.
  unfold calc_time_ideal. fold t. rewrite Hmt.
  assert (E : (0 <? t) = true) by lia. rewrite E. cbn [Z.ltb Z.compare]. lia.
Qed.

(* Nothing known about the clock and no movetime: one second minus the tenth kept as margin (900 ms). *)
Theorem budget_unknown max_ms (black : bool) plys sp :
  (if black then gp_btime sp else gp_wtime sp) <= 0 -> gp_movetime sp <= 0 ->
  calc_time max_ms black plys sp = 900.
Proof.
  intros Ht Hm. unfold calc_time.
  assert (E : (0 <? (if black then gp_btime sp else gp_wtime sp)) = false) by lia.
  assert (E1 : (0 <? gp_movetime sp) = false) by lia.
  rewrite E, E1. vm_compute. reflexivity.
Qed.

