(* Model of pkg/search/transpositiontable (transposition_table.go, ttentry.go).

   The Go table is a global array [numberOfBuckets]bucket, bucket = [bucketSize]ttEntry
   (bucketSize = 4), plus the global counter hashEntries.  Here: a total function from bucket
   index to the list of the bucket's entries, and the counter next to it.  Both dimensions
   and evaluation.INF are generated data (coq/gen/GoConsts.v) and enter as parameters.

   Go types of the API: zobristHash uint64, bestMove move.Move (uint32), depth/ply/age uint8,
   score/alpha/beta int16, nodeType uint8 (the type is unexported but every untyped constant
   0..255 converts to it, so 3 and above are reachable through the API).
   All wraps are written out: int16 [score -= int16(ply)], uint8 [age << 2], uint8(nt),
   uint64 [hashEntries++] and [1000 * hashEntries].  No proofs here (model file). *)
From Coq Require Import NArith ZArith List Bool.
From Clemens Require Import Base.Word.
Import ListNotations.
Open Scope N_scope.

(* ttEntry *)
Record tt_entry := {
  te_hash : N;      (* zobristHash uint64; 0 marks an empty slot *)
  te_move : N;      (* bestMove move.Move (uint32) *)
  te_score : Z;     (* score int16 *)
  te_depth : N;     (* depth uint8 *)
  te_ant : N        (* ageAndNodeType uint8: bits 0-1 node type, bits 2-7 age *)
}.

Definition empty_entry : tt_entry :=
  {| te_hash := 0; te_move := 0; te_score := 0%Z; te_depth := 0; te_ant := 0 |}.

(* const ( PVNode nodeType = iota; AlphaNode; BetaNode ) *)
Definition PVNode : N := 0.
Definition AlphaNode : N := 1.
Definition BetaNode : N := 2.
Definition NullMove : N := 0.

(* ttentry.go *)
Definition get_node_type (ant : N) : N := N.land ant 3.                         (* & 0b11 *)
Definition set_node_type (ant nt : N) : N := N.lor (N.land ant 252) (w8 nt).   (* &0b11111100 | uint8(nt) *)
Definition get_age (ant : N) : N := N.shiftr ant 2.                            (* >> 2 *)
Definition shl8_2 (age : N) : N := w8 (N.shiftl age 2).                        (* uint8: age << 2 *)
Definition set_age (ant age : N) : N := N.lor (N.land ant 3) (shl8_2 age).     (* &0b11 | (age << 2) *)

(* The table: bucket index -> entries of that bucket; the counter hashEntries. *)
Definition table := N -> list tt_entry.
Record tt_state := { st_tab : table; st_he : N }.

(* var tt = [numberOfBuckets]bucket{} : every slot zero.  [bs] is bucketSize. *)
Definition tt_empty (bs : nat) : table := fun _ => repeat empty_entry bs.
Definition tt_init (bs : nat) : tt_state := {| st_tab := tt_empty bs; st_he := 0 |}.

Definition tab_upd (t : table) (k : N) (b : list tt_entry) : table :=
  fun i => if i =? k then b else t i.

(* key := zobristHash % numberOfBuckets *)
Definition tt_index (nb h : N) : N := h mod nb.

(* Reset: clear(tt[:]).  hashEntries is NOT reset by the code. *)
Definition tt_reset (bs : nat) (st : tt_state) : tt_state :=
  {| st_tab := tt_empty bs; st_he := st_he st |}.

(* HashFull: 1000 * hashEntries / (numberOfBuckets * bucketSize); the divisor is a constant
   expression, the product 1000 * hashEntries is uint64 arithmetic. *)
Definition hash_full (nb : N) (bs : nat) (he : N) : N :=
  mul64 1000 he / (nb * N.of_nat bs).

(* Get: the scan "for i := range tt[key] { te = &tt[key][i]; if te.zobristHash == h { found; break } }" *)
Fixpoint get_scan (b : list tt_entry) (h : N) : option tt_entry :=
  match b with
  | [] => None
  | e :: r => if te_hash e =? h then Some e else get_scan r h
  end.

(* Mate-range adjustment of a stored score, int16 arithmetic with int16(ply), ply uint8. *)
Definition mate_adjust (inf : Z) (score : Z) (ply : N) : Z :=
  if (score >? inf - 100)%Z then wrap16 (score - Z.of_N ply)
  else if (score <? - inf + 100)%Z then wrap16 (score + Z.of_N ply)
  else score.

(* The part of Get after an entry was found. *)
Definition get_entry (inf : Z) (e : tt_entry) (alpha beta : Z) (depth ply : N) : Z * bool * N :=
  if te_depth e <? depth then (0%Z, false, te_move e)
  else
    let score := mate_adjust inf (te_score e) ply in
    let nt := get_node_type (te_ant e) in
    if nt =? AlphaNode then
      if (score <=? alpha)%Z then (alpha, true, te_move e) else (score, false, te_move e)
    else if nt =? BetaNode then
      if (score >=? beta)%Z then (beta, true, te_move e) else (score, false, te_move e)
    else if nt =? PVNode then (score, true, te_move e)
    else (score, false, te_move e).

(* Get(zobristHash, alpha, beta, depth, ply) (score, use, move) *)
Definition tt_get (nb : N) (inf : Z) (st : tt_state) (h : N) (alpha beta : Z) (depth ply : N)
  : Z * bool * N :=
  match get_scan (st_tab st (tt_index nb h)) h with
  | None => (0%Z, false, NullMove)
  | Some e => get_entry inf e alpha beta depth ply
  end.

(* PotentiallySave: the scan
     for i := range tt[key] { te = &tt[key][i]
       if te.zobristHash == 0 { hashEntries++; break }
       if te.depth <= depth && te.getAge() >= age { break } }
   Result: index of the slot [te] points to after the loop, and whether the loop left through
   the empty-slot branch.  When no slot qualifies the loop runs out and [te] still points to
   the LAST slot (the [r = []] case).  The stored 6-bit age is compared with the full uint8
   [age] argument. *)
Fixpoint save_scan (b : list tt_entry) (depth age : N) : nat * bool :=
  match b with
  | [] => (O, false)
  | e :: r =>
    if te_hash e =? 0 then (O, true)
    else if (te_depth e <=? depth) && (age <=? get_age (te_ant e)) then (O, false)
    else match r with
         | [] => (O, false)
         | _ :: _ => let '(i, was_empty) := save_scan r depth age in (S i, was_empty)
         end
  end.

(* The six assignments through [te]; the packed byte is updated in two steps from its old value. *)
Definition write_entry (old : tt_entry) (h m depth : N) (score : Z) (nt age : N) : tt_entry :=
  {| te_hash := h; te_move := m; te_score := score; te_depth := depth;
     te_ant := set_age (set_node_type (te_ant old) nt) age |}.

(* PotentiallySave(zobristHash, bestMove, depth, score, nt, age).
   A bucket of size 0 would leave [te] nil (Go: nil dereference); bucketSize is the constant 4,
   and [upd] on the empty list is the identity. *)
Definition tt_save (nb : N) (st : tt_state) (h m depth : N) (score : Z) (nt age : N) : tt_state :=
  let key := tt_index nb h in
  let b := st_tab st key in
  let '(i, was_empty) := save_scan b depth age in
  let old := nth i b empty_entry in
  {| st_tab := tab_upd (st_tab st) key (upd b i (write_entry old h m depth score nt age));
     st_he := if was_empty then (st_he st + 1) mod two64 else st_he st |}.

(* Operation sequences on the table. *)
Record save_rec := {
  sv_hash : N; sv_move : N; sv_depth : N; sv_score : Z; sv_nt : N; sv_age : N
}.

Inductive tt_op :=
| OSave (sv : save_rec)
| OGet (h : N) (alpha beta : Z) (depth ply : N)
| OReset.

Definition tt_save_rec (nb : N) (st : tt_state) (sv : save_rec) : tt_state :=
  tt_save nb st (sv_hash sv) (sv_move sv) (sv_depth sv) (sv_score sv) (sv_nt sv) (sv_age sv).

Definition tt_step (nb : N) (bs : nat) (st : tt_state) (o : tt_op) : tt_state :=
  match o with
  | OSave sv => tt_save_rec nb st sv
  | OGet _ _ _ _ _ => st
  | OReset => tt_reset bs st
  end.

(* The table reached from the empty table by an operation sequence. *)
Definition tt_run (nb : N) (bs : nat) (ops : list tt_op) : tt_state :=
  fold_left (tt_step nb bs) ops (tt_init bs).

(* The ghost log: the saves of a sequence, in order. *)
Fixpoint saves_of (ops : list tt_op) : list save_rec :=
  match ops with
  | [] => []
  | OSave sv :: r => sv :: saves_of r
  | _ :: r => saves_of r
  end.

(* Executing a sequence and collecting what every probe returned (the observable of a run). *)
Fixpoint tt_exec (nb : N) (bs : nat) (inf : Z) (st : tt_state) (ops : list tt_op)
  : tt_state * list (Z * bool * N) :=
  match ops with
  | [] => (st, [])
  | o :: r =>
    let '(stf, outs) := tt_exec nb bs inf (tt_step nb bs st o) r in
    match o with
    | OGet h alpha beta depth ply => (stf, tt_get nb inf st h alpha beta depth ply :: outs)
    | _ => (stf, outs)
    end
  end.
