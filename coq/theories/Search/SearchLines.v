(* C04, structural part: every line the search model returns is a sequence of engine-legal moves
   (generated, made, and passing the legality test), each played from the successor of the previous
   one.  Pure structure of the move loop; no table, cache or heuristic content matters. *)
From Coq Require Import NArith ZArith List Bool FMapPositive Lia.
From Clemens Require Import Base.Res Base.Word Pos.Types Att.Attacks Pos.Position Eval.Eval
     Search.TT Search.Ordering Search.Negamax Search.SearchStruct.
Import ListNotations.
Open Scope Z_scope.

(* ------------------------------------------------------------------ move words *)
Lemma mv_low_set_score : forall m s, mv_low (mv_set_score m s) = mv_low m.
Proof.
  intros m s. unfold mv_low, mv_set_score, w32.
  apply N.bits_inj; intro n.
  change 65535%N with (N.ones 16). change 4294967295%N with (N.ones 32).
  rewrite !N.land_spec, N.lor_spec, N.land_spec.
  destruct (N.lt_ge_cases n 16) as [Hn|Hn].
  - rewrite N.shiftl_spec_low by assumption. cbn [andb orb]. rewrite orb_false_r. reflexivity.
  - rewrite (N.ones_spec_high 16 n) by assumption. rewrite !andb_false_r. reflexivity.
Qed.

(* MakeMove reads source, target, kind and promotion piece: the low 16 bits *)
Lemma land_low_mask : forall m k c, (N.land 65535 (N.shiftl c k) = N.shiftl c k)%N ->
  N.land (N.shiftr (N.land m 65535) k) c = N.land (N.shiftr m k) c.
Proof.
  intros m k c H. rewrite N.shiftr_land, <- N.land_assoc. f_equal.
  apply N.bits_inj; intro n. rewrite N.land_spec, N.shiftr_spec by apply N.le_0_l.
  assert (E : N.testbit (N.land 65535 (N.shiftl c k)) (n + k) = N.testbit (N.shiftl c k) (n + k)) by (rewrite H; reflexivity).
  rewrite N.land_spec, N.shiftl_spec_high in E by (try apply N.le_0_l; lia).
  replace (n + k - k)%N with n in E by lia.
  destruct (N.testbit c n); [|apply andb_false_r]. rewrite andb_true_r in *. exact E.
Qed.

Lemma mv_src_low : forall m, mv_src (mv_low m) = mv_src m.
Proof. intro m. unfold mv_src, mv_low. rewrite <- N.land_assoc. reflexivity. Qed.
Lemma mv_dst_low : forall m, mv_dst (mv_low m) = mv_dst m.
Proof. intro m. unfold mv_dst, mv_low. apply land_low_mask. reflexivity. Qed.
Lemma mv_kind_low : forall m, mv_kind (mv_low m) = mv_kind m.
Proof. intro m. unfold mv_kind, mv_low. apply land_low_mask. reflexivity. Qed.
Lemma mv_promo_low : forall m, mv_promo (mv_low m) = mv_promo m.
Proof. intro m. unfold mv_promo, mv_low. f_equal. apply land_low_mask. reflexivity. Qed.

Lemma make_move_low : forall K p m, make_move K p (mv_low m) = make_move K p m.
Proof.
  intros K p m. unfold make_move.
  rewrite mv_src_low, mv_dst_low, mv_kind_low, mv_promo_low. reflexivity.
Qed.

Lemma in_upd : forall (A : Type) (l : list A) i v x, In x (upd l i v) -> x = v \/ In x l.
Proof.
  induction l as [|h t IH]; intros i v x H; cbn in *.
  - destruct i; contradiction.
  - destruct i; cbn in H.
    + destruct H; auto.
    + destruct H as [H|H]; auto. apply IH in H. tauto.
Qed.

Lemma sort_index_in : forall l i x, In x (sort_index l i) -> In x l.
Proof.
  intros l i x; unfold sort_index.
  destruct (nth_error l i) as [cur|] eqn:Ei; auto.
  match goal with |- context [nth_error l ?j] => destruct (nth_error l j) as [b|] eqn:Ej end; auto.
  intro H. apply in_upd in H. destruct H as [->|H]; [eapply nth_error_In; eauto|].
  apply in_upd in H. destruct H as [->|H]; [eapply nth_error_In; eauto|auto].
Qed.

Lemma score_moves_cons : forall OC p h a g,
  score_moves OC p h (a :: g) =
  (l <- score_moves OC p h g ;; s <- score_of OC p h a ;; Ok (mv_set_score a s :: l)).
Proof. reflexivity. Qed.

Lemma score_moves_in : forall OC p h g ms m,
  score_moves OC p h g = Ok ms -> In m ms -> exists m0, In m0 g /\ mv_low m = mv_low m0.
Proof.
  intros OC p h g; induction g as [|a g IH]; intros ms m H Hin.
  - cbn in H. inversion H; subst. contradiction.
  - rewrite score_moves_cons in H.
    destruct (score_moves OC p h g) as [l| |] eqn:El; cbn [bind] in H; try discriminate.
    destruct (score_of OC p h a) as [sc| |]; cbn [bind] in H; try discriminate.
    inversion H; subst. destruct Hin as [<-|Hin].
    + exists a. split; [left; reflexivity|apply mv_low_set_score].
    + destruct (IH l m eq_refl Hin) as (m0 & ? & ?). exists m0. split; [right|]; assumption.
Qed.

Lemma neg16_small : forall x, -32767 <= x <= 32767 -> neg16 x = - x.
Proof. intros; unfold neg16, wrap16. rewrite Z.mod_small by lia. lia. Qed.

(* ------------------------------------------------------------------ vocabulary *)
Section Vocabulary.
Variable K : zkeys.

(* [m] is, up to its score bits (bits 16..31, written by scoreMoves, never read by MakeMove),
   one of the moves the generator produces for [p] *)
Definition gen_of (p : position) (m : N) : Prop :=
  exists g m0, gen_moves p = Ok g /\ In m0 g /\ mv_low m = mv_low m0.

(* generated, made, and the result passes the legality test *)
Definition move_ok (p : position) (m : N) : Prop :=
  gen_of p m /\ exists q, make_move K p m = Ok q /\ is_legal q = Ok true.

Inductive line_legal : position -> list N -> Prop :=
| LL_nil : forall p, line_legal p []
| LL_cons : forall p m q l,
    gen_of p m -> make_move K p m = Ok q -> is_legal q = Ok true -> line_legal q l ->
    line_legal p (m :: l).

Definition head_ok (p : position) (l : list N) : Prop :=
  match l with [] => True | m :: _ => m = NULL_MOVE \/ move_ok p m end.

Lemma line_legal_head : forall p l, line_legal p l -> head_ok p l.
Proof. intros p l H; destruct H; cbn; auto. right. split; eauto. Qed.
End Vocabulary.

Section Lines.
Variable K : zkeys.
Variable EC : econsts.
Variable OC : oconsts.
Variable SC : sconsts.

(* the window is closed (nothing can score strictly inside it) or lies within [-INF, INF] *)
Definition J (a b : Z) : Prop := b <= a + 1 \/ (- INF EC <= a /\ b <= INF EC).

Definition specB (p : position) (a b : Z) (x : sresult (Z * list N) * sst) : Prop :=
  match fst x with
  | ROk (_, line) => head_ok K p line /\ (J a b -> line_legal K p line)
  | _ => True
  end.

Ltac stepB calls :=
  lazymatch goal with
  | |- ?P (match ?x with _ => _ end) => first [ calls x | destruct x eqn:? ]
  end.
Ltac leafB :=
  unfold specB in *; cbn [fst snd] in *;
  first [ exact I | assumption | split; [exact I | intros; constructor] ].

Section WithRec.
Hypothesis inf_ok : 0 <= INF EC <= 32767.
Variable rec : nm_rec.
Hypothesis Hrec : forall s q a b d pl cn pm rh, specB q a b (rec s q a b d pl cn pm rh).

Ltac recB x :=
  lazymatch x with
  | rec ?s ?q ?a ?b ?d ?pl ?cn ?pm ?rh =>
      let H := fresh "Hc" in pose proof (Hrec s q a b d pl cn pm rh) as H;
      destruct (rec s q a b d pl cn pm rh) as [[[? ?]| | |] ?]
  end.

Lemma pvs_B : forall s q alpha beta d1 pl1 pm rh lg,
  specB q (neg16 beta) (neg16 alpha) (nm_pvs rec s q alpha beta d1 pl1 pm rh lg).
Proof. intros; unfold nm_pvs; cbv zeta; repeat stepB recB; leafB. Qed.

Section Loop.
Variables (p : position) (beta : Z) (depth ply pm rh : N) (fp : bool).

Definition LH (L : lst) : Prop :=
  (l_best_move L = NULL_MOVE \/ move_ok K p (l_best_move L)) /\ head_ok K p (l_pvl L).
Definition LJ (L : lst) : Prop :=
  (beta <= l_alpha L + 1 /\ l_pvl L = []) \/
  (l_best_score L <= l_alpha L /\ - INF EC <= l_alpha L /\ l_alpha L < beta /\ beta <= INF EC /\
   line_legal K p (l_pvl L)).
Definition specLB (L : lst) (x : sresult (lst * bool) * sst) : Prop :=
  match fst x with
  | ROk (L', _) => head_ok K p (l_pvl L') /\ (LJ L -> line_legal K p (l_pvl L'))
  | _ => True
  end.

Lemma specLB_mono : forall L L2 x, (LJ L -> LJ L2) -> specLB L2 x -> specLB L x.
Proof. unfold specLB; intros L L2 x H; destruct (fst x) as [[L' c]| | |]; tauto. Qed.

Lemma loop_B : forall k i ms s L,
  (forall m, In m ms -> gen_of p m) -> LH L ->
  specLB L (nm_loop K OC rec p beta depth ply pm rh fp k i ms s L).
Proof.
  induction k as [|k IH]; intros i ms s L Hms HL.
  - cbn. unfold specLB; cbn [fst]. split; [apply HL|].
    intros [[_ ->]|(_&_&_&_&H)]; [constructor|exact H].
  - unfold nm_loop; fold (nm_loop K OC rec p beta depth ply pm rh fp). cbv zeta.
    repeat stepB ltac:(fun x =>
      lazymatch x with
      | nm_pvs rec ?s ?q ?a ?b ?d ?pl ?pm ?rh ?lg =>
          let H := fresh "Hpvs" in pose proof (pvs_B s q a b d pl pm rh lg) as H;
          destruct (nm_pvs rec s q a b d pl pm rh lg) as [[[? ?]| | |] ?]
      end).
    all: try (unfold specLB; cbn [fst]; exact I).
    all: cbn [l_alpha l_best_score l_best_move l_legal l_node_type l_pvl] in *.
    all: assert (Hms' : forall m, In m (sort_index ms i) -> gen_of p m)
           by (intros; apply Hms; eapply sort_index_in; eauto).
    (* not legal: same loop state *)
    all: try (apply IH; assumption).
    (* futility skip: only the legal-move counter moved *)
    all: try (eapply specLB_mono; [|apply IH; [exact Hms'|exact HL]]; unfold LJ;
              cbn [l_alpha l_best_score l_best_move l_legal l_node_type l_pvl]; tauto).
    (* a searched move *)
    all: match goal with
         | Hn : nth_error _ _ = Some ?m, Hmk : make_move K p ?m = Ok ?q, Hl : is_legal ?q = Ok true |- _ =>
             assert (Hm : move_ok K p m)
               by (split; [apply Hms'; eapply nth_error_In; eauto | eauto])
         end.
    all: match goal with
         | Hp : (if ?c then _ else _) = (_, _) |- _ => destruct c eqn:Hbs; inversion Hp; subst; clear Hp
         end.
    all: repeat match goal with
         | H : (_ <? _) = true |- _ => apply Z.ltb_lt in H
         | H : (_ <? _) = false |- _ => apply Z.ltb_ge in H
         | H : (_ <=? _) = true |- _ => apply Z.leb_le in H
         | H : (_ <=? _) = false |- _ => apply Z.leb_gt in H
         end.
    (* beta cutoff: the caller's line is left as it was *)
    all: try (unfold specLB; cbn [fst l_pvl]; split; [apply HL|];
              intros [[_ ->]|(_&_&_&_&H)]; [constructor|exact H]).
    (* remaining: the loop continues with an updated state *)
    all: (eapply specLB_mono; [|apply IH; [exact Hms'|]]);
         [ unfold LJ; cbn [l_alpha l_best_score l_best_move l_legal l_node_type l_pvl]
         | unfold LH; cbn [l_alpha l_best_score l_best_move l_legal l_node_type l_pvl head_ok] ].
    all: try (split; [first [right; exact Hm | apply HL] | first [right; exact Hm | apply HL]]; fail).
    all: try (intros [[? ?]|(?&?&?&?&?)]; [left; split; [lia|assumption] | right; repeat split; first [lia|assumption]]; fail).
    all: intros [[? _]|(?&?&?&?&?)]; [exfalso; lia|]; right; repeat split; try lia.
    all: match goal with
         | Hmk : make_move K p ?m = Ok ?q, Hl : is_legal ?q = Ok true |- line_legal K p (?m :: _) =>
             destruct Hm as [Hg _]; apply (LL_cons K p m q); auto
         end.
    all: unfold specB in Hpvs; cbn [fst] in Hpvs; apply Hpvs; right; rewrite !neg16_small by lia; lia.
Qed.


Lemma J_LJ0 : forall alpha,
  J alpha beta ->
  LJ {| l_alpha := alpha; l_best_score := - INF EC; l_best_move := NULL_MOVE; l_legal := 0%N;
        l_node_type := AlphaNode; l_pvl := [] |}.
Proof.
  intros alpha HJ. unfold LJ; cbn [l_alpha l_best_score l_pvl].
  destruct HJ as [H|[H1 H2]]; [left; auto|].
  destruct (Z_lt_le_dec alpha beta); [right; repeat split; try lia; constructor | left; split; [lia|reflexivity]].
Qed.
End Loop.

Lemma inner_B : forall s p alpha beta depth ply cn pm rh ic,
  specB p alpha beta (nm_inner K EC OC SC rec s p alpha beta depth ply cn pm rh ic).
Proof.
  intros; unfold nm_inner; cbv zeta.
  repeat stepB ltac:(fun x =>
    lazymatch x with
    | nm_loop K OC rec ?p ?b ?d ?pl ?pm ?rh ?fp ?k ?i ?ms ?s ?L =>
        let Hms := fresh "Hms" in
        assert (Hms : forall m, In m ms -> gen_of p m)
          by (intros m0 Hin;
              match goal with
              | Hg : gen_moves p = Ok ?g, Hs : score_moves _ _ _ ?g = Ok ms |- _ =>
                  destruct (score_moves_in _ _ _ _ _ _ Hs Hin) as (m1 & ? & ?); exists g, m1; auto
              end);
        let H := fresh "Hloop" in
        pose proof (loop_B p b d pl pm rh fp k i ms s L Hms (conj (or_introl eq_refl) I)) as H;
        destruct (nm_loop K OC rec p b d pl pm rh fp k i ms s L) as [[[? ?]| | |] ?]
    end).
  all: try (leafB; fail).
  all: try match goal with |- context [contempt EC ?p] => destruct (contempt EC p) end; cbn [of_res bind].
  all: try (leafB; fail).
  all: unfold specB, specLB in *; cbn [fst] in *; destruct Hloop as [Hh Hl]; (split; [exact Hh|]);
       intro HJ; apply Hl; apply J_LJ0; exact HJ.
Qed.
End WithRec.

(* C04 (e), the central lemma: for ALL states (tables, caches, heuristics, repetition stack, adopted
   line), depths, plies and flags, a line returned by [negamax] from [p]
   - has a head that is the null move or a generated, made, legal move (every window), and
   - is engine-legal move by move when the window is closed or lies within [-INF, INF]. *)
Theorem negamax_B : 0 <= INF EC <= 32767 ->
  forall f s p alpha beta depth ply cn pm rh,
  specB p alpha beta (negamax K EC OC SC f s p alpha beta depth ply cn pm rh).
Proof.
  intros inf_ok. induction f as [|f IH]; intros.
  - cbn. leafB.
  - rewrite negamax_eq. cbv zeta.
    repeat stepB ltac:(fun x => fail).
    all: try (leafB; fail).
    all: try match goal with |- context [contempt EC ?p] => destruct (contempt EC p) end; cbn [of_res bind].
    all: try (leafB; fail).
    all: match goal with
         | |- context [nm_inner K EC OC SC ?r ?s ?p ?a ?b ?d ?pl ?cn ?pm ?rh ?ic] =>
             exact (inner_B inf_ok r IH s p a b d pl cn pm rh ic)
         end.
Qed.

Theorem negamax_pv_legal : 0 <= INF EC <= 32767 ->
  forall f s p alpha beta depth ply cn pm rh v line s',
  J alpha beta ->
  negamax K EC OC SC f s p alpha beta depth ply cn pm rh = (ROk (v, line), s') ->
  line_legal K p line.
Proof.
  intros Hinf f s p alpha beta depth ply cn pm rh v line s' HJ H.
  pose proof (negamax_B Hinf f s p alpha beta depth ply cn pm rh) as HB.
  rewrite H in HB. unfold specB in HB; cbn [fst] in HB. apply HB; exact HJ.
Qed.

(* every window, junk ones included *)
Theorem negamax_head_ok : 0 <= INF EC <= 32767 ->
  forall f s p alpha beta depth ply cn pm rh v line s',
  negamax K EC OC SC f s p alpha beta depth ply cn pm rh = (ROk (v, line), s') ->
  head_ok K p line.
Proof.
  intros Hinf f s p alpha beta depth ply cn pm rh v line s' H.
  pose proof (negamax_B Hinf f s p alpha beta depth ply cn pm rh) as HB.
  rewrite H in HB. unfold specB in HB; cbn [fst] in HB. apply HB.
Qed.
End Lines.
