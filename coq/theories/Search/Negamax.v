(* pkg/search/search.go: Search, SearchIterative, SearchRoot, negamax, quiescence; history.go;
   pvline. A full executable transliteration: int16 windows with their wrap, uint8 depth/ply,
   check extension, repetition test, table probe, static null move, null move, futility, PVS
   re-search, killer/history/counter updates, PV lines, delta pruning, SEE filter, the fallback
   depth-1 search, info lines as output events. The shared tables (transposition table, evaluation
   cache) and the heuristic tables are explicit state. Cancellation is an oracle: [s_cancel = Some k]
   means the k-th poll of ctx.Done() (counting from 0) and every later one report "done".
   Recursion is on fuel (recursion depth); [ROutOfFuel] is never a normal-looking value.
   Model file: no proofs. *)
From Coq Require Import NArith ZArith List Bool FMapPositive.
From Clemens Require Import Base.Res Base.Word Pos.Types Att.Attacks Pos.Position Eval.Eval
     Search.TT Search.Ordering.
Import ListNotations.
Open Scope Z_scope.

Record sconsts := {
  sc_widen : Z;                 (* widen_window *)
  sc_max_depth : N;             (* max_depth *)
  sc_q_max_depth : N;           (* quiescence_max_depth *)
  sc_fut_depth : N;             (* futility_pruning_depth *)
  sc_fut_margin : list Z;       (* futility_pruning_margin *)
  sc_static_null_margin : Z;    (* staticNullMovePruningMarging *)
  sc_tt_buckets : N;            (* numberOfBuckets *)
  sc_tt_bucket_size : nat;
  sc_hist_size : N              (* len(searchHistory) = 1024 *)
}.

Inductive sevent :=
| EInfo (depth : N) (score : Z) (nodes : N) (hashfull : N) (pv : list N)
| EWindow (alpha beta score : Z).

Record sst := {
  s_tt : tt_state;
  s_cache : ecache;
  s_nodes : N;
  s_killers : PositiveMap.t (N * N);      (* by ply *)
  s_history : PositiveMap.t N;            (* by side*4096 + src*64 + dst *)
  s_counter : PositiveMap.t N;
  s_hist : list N;                        (* searchHistory[0..searchHistoryPly), newest first *)
  s_pv : list N;                          (* s.PV *)
  s_out : list sevent;                     (* newest first *)
  s_polls : N;                            (* polls of ctx.Done() so far *)
  s_cancel : option N
}.

Inductive sresult (A : Type) :=
| ROk (a : A)
| RCancel            (* ctx.Err() *)
| RPanic
| ROutOfFuel.
Arguments ROk {A} a. Arguments RCancel {A}. Arguments RPanic {A}. Arguments ROutOfFuel {A}.

Definition of_res {A} (r : res A) : sresult A :=
  match r with Ok a => ROk a | Err => RPanic | Panic => RPanic end.

(* state updates *)
Definition upd_tt (s : sst) (t : tt_state) : sst :=
  {| s_tt := t; s_cache := s_cache s; s_nodes := s_nodes s; s_killers := s_killers s; s_history := s_history s;
     s_counter := s_counter s; s_hist := s_hist s; s_pv := s_pv s; s_out := s_out s; s_polls := s_polls s; s_cancel := s_cancel s |}.
Definition upd_cache (s : sst) (c : ecache) : sst :=
  {| s_tt := s_tt s; s_cache := c; s_nodes := s_nodes s; s_killers := s_killers s; s_history := s_history s;
     s_counter := s_counter s; s_hist := s_hist s; s_pv := s_pv s; s_out := s_out s; s_polls := s_polls s; s_cancel := s_cancel s |}.
Definition upd_nodes (s : sst) (n : N) : sst :=
  {| s_tt := s_tt s; s_cache := s_cache s; s_nodes := n; s_killers := s_killers s; s_history := s_history s;
     s_counter := s_counter s; s_hist := s_hist s; s_pv := s_pv s; s_out := s_out s; s_polls := s_polls s; s_cancel := s_cancel s |}.
Definition upd_killers (s : sst) (k : PositiveMap.t (N * N)) : sst :=
  {| s_tt := s_tt s; s_cache := s_cache s; s_nodes := s_nodes s; s_killers := k; s_history := s_history s;
     s_counter := s_counter s; s_hist := s_hist s; s_pv := s_pv s; s_out := s_out s; s_polls := s_polls s; s_cancel := s_cancel s |}.
Definition upd_history (s : sst) (h : PositiveMap.t N) : sst :=
  {| s_tt := s_tt s; s_cache := s_cache s; s_nodes := s_nodes s; s_killers := s_killers s; s_history := h;
     s_counter := s_counter s; s_hist := s_hist s; s_pv := s_pv s; s_out := s_out s; s_polls := s_polls s; s_cancel := s_cancel s |}.
Definition upd_counter (s : sst) (c : PositiveMap.t N) : sst :=
  {| s_tt := s_tt s; s_cache := s_cache s; s_nodes := s_nodes s; s_killers := s_killers s; s_history := s_history s;
     s_counter := c; s_hist := s_hist s; s_pv := s_pv s; s_out := s_out s; s_polls := s_polls s; s_cancel := s_cancel s |}.
Definition upd_hist (s : sst) (h : list N) : sst :=
  {| s_tt := s_tt s; s_cache := s_cache s; s_nodes := s_nodes s; s_killers := s_killers s; s_history := s_history s;
     s_counter := s_counter s; s_hist := h; s_pv := s_pv s; s_out := s_out s; s_polls := s_polls s; s_cancel := s_cancel s |}.
Definition upd_pv (s : sst) (pv : list N) : sst :=
  {| s_tt := s_tt s; s_cache := s_cache s; s_nodes := s_nodes s; s_killers := s_killers s; s_history := s_history s;
     s_counter := s_counter s; s_hist := s_hist s; s_pv := pv; s_out := s_out s; s_polls := s_polls s; s_cancel := s_cancel s |}.
Definition emit (s : sst) (e : sevent) : sst :=
  {| s_tt := s_tt s; s_cache := s_cache s; s_nodes := s_nodes s; s_killers := s_killers s; s_history := s_history s;
     s_counter := s_counter s; s_hist := s_hist s; s_pv := s_pv s; s_out := e :: s_out s; s_polls := s_polls s; s_cancel := s_cancel s |}.
Definition set_cancel (s : sst) (c : option N) : sst :=
  {| s_tt := s_tt s; s_cache := s_cache s; s_nodes := s_nodes s; s_killers := s_killers s; s_history := s_history s;
     s_counter := s_counter s; s_hist := s_hist s; s_pv := s_pv s; s_out := s_out s; s_polls := s_polls s; s_cancel := c |}.

Definition set_polls (s : sst) (n : N) : sst :=
  {| s_tt := s_tt s; s_cache := s_cache s; s_nodes := s_nodes s; s_killers := s_killers s; s_history := s_history s;
     s_counter := s_counter s; s_hist := s_hist s; s_pv := s_pv s; s_out := s_out s; s_polls := n; s_cancel := s_cancel s |}.

(* select { case <-ctx.Done(): ...; default: } *)
Definition poll (s : sst) : bool * sst :=
  let done := match s_cancel s with Some k => (k <=? s_polls s)%N | None => false end in
  (done,
   {| s_tt := s_tt s; s_cache := s_cache s; s_nodes := s_nodes s; s_killers := s_killers s; s_history := s_history s;
      s_counter := s_counter s; s_hist := s_hist s; s_pv := s_pv s; s_out := s_out s;
      s_polls := (s_polls s + 1)%N; s_cancel := s_cancel s |}).

Definition key_of (n : N) : positive := N.succ_pos n.
Definition hkey (side src dst : N) : positive := key_of (side * 4096 + src * 64 + dst)%N.
Definition killers_at (s : sst) (ply : N) : N * N :=
  match PositiveMap.find (key_of ply) (s_killers s) with Some k => k | None => (0%N, 0%N) end.
Definition history_at (s : sst) (side src dst : N) : N :=
  match PositiveMap.find (hkey side src dst) (s_history s) with Some v => v | None => 0%N end.
Definition counter_at (s : sst) (side src dst : N) : N :=
  match PositiveMap.find (hkey side src dst) (s_counter s) with Some v => v | None => 0%N end.

Section Search.
Variable K : zkeys.
Variable EC : econsts.
Variable OC : oconsts.
Variable SC : sconsts.

Definition INF : Z := ec_inf EC.

(* Evaluation(pos) through the cache *)
Definition evaluate (s : sst) (p : position) : sresult (Z * sst) :=
  match eval_cached EC (s_cache s) p with
  | Ok (v, c) => ROk (v, upd_cache s c)
  | _ => RPanic
  end.

Definition hctx_of (s : sst) (p : position) (pv tt : N) (ply : N) : hctx :=
  let '(k0, k1) := killers_at s ply in
  {| h_pv := pv; h_tt := tt; h_killer0 := k0; h_killer1 := k1;
     h_history := fun src dst => history_at s (side p) src dst;
     h_counter := fun src dst => counter_at s (side p) src dst |}.

(* history.go *)
Definition is_repetition (s : sst) (p : position) : bool := existsb (N.eqb (hash p)) (s_hist s).
Definition push_history (s : sst) (p : position) : sresult sst :=
  if (N.of_nat (length (s_hist s)) <? sc_hist_size SC)%N then ROk (upd_hist s (hash p :: s_hist s)) else RPanic.
Definition pop_history (s : sst) : sst := upd_hist s (tl (s_hist s)).

(* ---------------------------------------------------------------- quiescence *)
Fixpoint quiescence (fuel : nat) (s : sst) (p : position) (alpha beta : Z) (ply : N) : sresult Z * sst :=
  match fuel with
  | O => (ROutOfFuel, s)
  | S f =>
    let s := upd_nodes s (w64 (s_nodes s + 1)) in
    let '(done, s) := poll s in
    if done then (RCancel, s) else
    match evaluate s p with
    | ROk (stand_pat, s) =>
      if beta <=? stand_pat then (ROk beta, s) else
      let alpha := if alpha <? stand_pat then stand_pat else alpha in
      if (ply =? sc_q_max_depth SC)%N then (ROk alpha, s) else
      match gen_captures p with
      | Ok caps =>
        match score_moves OC p (hctx_of s p NULL_MOVE NULL_MOVE ply) caps with
        | Ok ms =>
          let fix loop (k : nat) (i : nat) (ms : list N) (s : sst) (alpha : Z) {struct k} : sresult Z * sst :=
            match k with
            | O => (ROk alpha, s)
            | S k' =>
              let ms := sort_index ms i in
              match nth_error ms i with
              | None => (RPanic, s)
              | Some m =>
                let next := loop k' (S i) ms in
                (* delta pruning *)
                let delta_skip : res bool :=
                  if negb (mv_kind m =? EN_PASSANT)%N then
                    pv <- nthz (ec_piece_value EC) PAWN ;;
                    let margin := mul16 2 pv in
                    margin <- (if (mv_kind m =? PROMOTION)%N then
                                 (pp <- nthz (ec_piece_value EC) (mv_promo m) ;; Ok (add16 (sub16 margin pv) pp))
                               else Ok margin) ;;
                    tp <- get_piece p (mv_dst m) ;;
                    tv <- nthz (ec_piece_value EC) (piece_type tp) ;;
                    if add16 (add16 stand_pat tv) margin <? alpha then
                      (e <- is_endgame EC p ;; Ok (negb e))
                    else Ok false
                  else Ok false in
                match delta_skip with
                | Ok true => next s alpha
                | Ok false =>
                  let see_skip : res bool :=
                    if negb (mv_kind m =? EN_PASSANT)%N then (v <- see EC p m ;; Ok (v <? 0)) else Ok false in
                  match see_skip with
                  | Ok true => next s alpha
                  | Ok false =>
                    match make_move K p m with
                    | Ok q =>
                      match is_legal q with
                      | Ok false => next s alpha
                      | Ok true =>
                        match quiescence f s q (neg16 beta) (neg16 alpha) (w8 (ply + 1)) with
                        | (ROk sc, s) =>
                          let sc := neg16 sc in
                          if beta <=? sc then (ROk beta, s)
                          else next s (if alpha <? sc then sc else alpha)
                        | (r, s) => (r, s)
                        end
                      | _ => (RPanic, s)
                      end
                    | _ => (RPanic, s)
                    end
                  | _ => (RPanic, s)
                  end
                | _ => (RPanic, s)
                end
              end
            end in
          loop (length ms) 0%nat ms s alpha
        | _ => (RPanic, s)
        end
      | _ => (RPanic, s)
      end
    | _ => (RPanic, s)
    end
  end.

(* ---------------------------------------------------------------- negamax *)
(* loop state of the move loop *)
Record lst := {
  l_alpha : Z; l_best_score : Z; l_best_move : N; l_legal : N; l_node_type : N;
  l_pvl : list N                 (* the caller's pvl as updated so far *)
}.

Definition halve_history (s : sst) (side : N) : sst :=
  upd_history s (PositiveMap.mapi (fun k v => if (N.pos k - 1) / 4096 =? side then (v / 2)%N else v)%N (s_history s)).

Fixpoint negamax (fuel : nat) (s : sst) (p : position) (alpha beta : Z) (depth ply : N)
         (can_null : bool) (prev_move : N) (root_hmc : N) {struct fuel} : sresult (Z * list N) * sst :=
  match fuel with
  | O => (ROutOfFuel, s)
  | S f =>
    let '(done, s) := poll s in
    if done then (RCancel, s) else
    let is_root := (ply =? 0)%N in
    let mate_value := add16 (- INF) (Z.of_N ply) in
    let pv_node := negb (sub16 beta alpha =? 1) in
    match is_in_check p (side p) with
    | Ok in_check =>
      let depth := if in_check then w8 (depth + 1) else depth in
      if (depth =? 0)%N then
        match quiescence f s p alpha beta ply with
        | (ROk v, s) => (ROk (v, []), s)
        | (RCancel, s) => (RCancel, s)
        | (RPanic, s) => (RPanic, s)
        | (ROutOfFuel, s) => (ROutOfFuel, s)
        end
      else
      let s := upd_nodes s (w64 (s_nodes s + 1)) in
      let rep := negb is_root && negb in_check && is_repetition s p in
      if rep then (of_res (c <- contempt EC p ;; Ok (c, [])), s) else
      match push_history s p with
      | ROk s =>
        (* everything below runs between pushHistory and the deferred popHistory *)
        let finish (r : sresult (Z * list N) * sst) : sresult (Z * list N) * sst :=
          (fst r, pop_history (snd r)) in
        finish (
        let pv_move := nth (N.to_nat ply) (s_pv s) NULL_MOVE in
        let '(tt_score, tt_use, tt_move) :=
          tt_get (sc_tt_buckets SC) INF (s_tt s) (hash p) alpha beta depth ply in
        if negb is_root && negb pv_node && tt_use then (ROk (tt_score, []), s) else
        (* static null move pruning *)
        let snm : sresult (option Z * sst) :=
          if negb in_check && negb pv_node && negb (is_checkmate_value EC beta) then
            match evaluate s p with
            | ROk (ev, s) =>
              let b := sub16 ev (mul16 (sc_static_null_margin SC) (Z.of_N depth)) in
              ROk (if beta <=? b then Some b else None, s)
            | RCancel => RCancel | RPanic => RPanic | ROutOfFuel => ROutOfFuel
            end
          else ROk (None, s) in
        match snm with
        | ROk (Some b, s) => (ROk (b, []), s)
        | ROk (None, s) =>
          (* null move pruning *)
          let nmp : sresult (option Z) * sst :=
            if (2 <? depth)%N && can_null && negb in_check && negb pv_node && negb (is_pawn_endgame p) then
              match evaluate s p with
              | ROk (ev, s) =>
                if beta <? ev then
                  match make_null_move K p with
                  | Ok (q, _) =>
                    let R := if (6 <? depth)%N then 3%N else 2%N in
                    match negamax f s q (neg16 beta) (add16 (neg16 beta) 1) (w8 (depth + 256 - R - 1)) (w8 (ply + 1))
                                  false NULL_MOVE root_hmc with
                    | (ROk (sc, _), s) =>
                      let sc := neg16 sc in
                      if beta <=? sc then (ROk (Some beta), s) else (ROk None, s)
                    | (RCancel, s) => (RCancel, s)
                    | (RPanic, s) => (RPanic, s)
                    | (ROutOfFuel, s) => (ROutOfFuel, s)
                    end
                  | _ => (RPanic, s)
                  end
                else (ROk None, s)
              | RCancel => (RCancel, s) | RPanic => (RPanic, s) | ROutOfFuel => (ROutOfFuel, s)
              end
            else (ROk None, s) in
          match nmp with
          | (ROk (Some b), s) => (ROk (b, []), s)
          | (ROk None, s) =>
            (* futility pruning flag *)
            let fpr : sresult (bool * sst) :=
              if negb pv_node && (depth <? sc_fut_depth SC)%N && negb in_check
                 && negb (is_checkmate_value EC alpha) && negb (is_checkmate_value EC beta) then
                match evaluate s p, nthz (sc_fut_margin SC) depth with
                | ROk (ev, s), Ok mg => ROk (add16 ev mg <=? alpha, s)
                | _, _ => RPanic
                end
              else ROk (false, s) in
            match fpr with
            | ROk (f_prune, s) =>
              match gen_moves p with
              | Ok gen =>
                match score_moves OC p (hctx_of s p pv_move tt_move ply) gen with
                | Ok ms =>
                  let fix loop (k : nat) (i : nat) (ms : list N) (s : sst) (L : lst) {struct k}
                      : sresult (lst * bool) * sst :=     (* bool: left by beta cutoff *)
                    match k with
                    | O => (ROk (L, false), s)
                    | S k' =>
                      let ms := sort_index ms i in
                      match nth_error ms i with
                      | None => (RPanic, s)
                      | Some m =>
                        let next := loop k' (S i) ms in
                        match make_move K p m with
                        | Ok q =>
                          match is_legal q with
                          | Ok false => next s L
                          | Ok true =>
                            let L := {| l_alpha := l_alpha L; l_best_score := l_best_score L; l_best_move := l_best_move L;
                                        l_legal := w8 (l_legal L + 1); l_node_type := l_node_type L; l_pvl := l_pvl L |} in
                            let fut_skip : res bool :=
                              if f_prune then
                                c <- is_capture p m ;;
                                if negb c && negb (mv_kind m =? PROMOTION)%N then
                                  (chk <- is_in_check q (side q) ;; Ok (negb chk))
                                else Ok false
                              else Ok false in
                            match fut_skip with
                            | Ok true => next s L
                            | Ok false =>
                              let alpha := l_alpha L in
                              let d1 := w8 (depth + 256 - 1) in
                              let pl1 := w8 (ply + 1) in
                              (* principal variation search *)
                              let searched : sresult (Z * list N) * sst :=
                                if (l_legal L =? 1)%N then
                                  match negamax f s q (neg16 beta) (neg16 alpha) d1 pl1 true prev_move root_hmc with
                                  | (ROk (sc, line), s) => (ROk (neg16 sc, line), s)
                                  | (r, s) => (r, s)
                                  end
                                else
                                  match negamax f s q (sub16 (neg16 alpha) 1) (neg16 alpha) d1 pl1 true prev_move root_hmc with
                                  | (ROk (sc, _), s) =>
                                    let sc := neg16 sc in
                                    if alpha <? sc then
                                      match negamax f s q (neg16 beta) (neg16 alpha) d1 pl1 true prev_move root_hmc with
                                      | (ROk (sc2, line), s) => (ROk (neg16 sc2, line), s)
                                      | (r, s) => (r, s)
                                      end
                                    else (ROk (sc, []), s)
                                  | (r, s) => (r, s)
                                  end in
                              match searched with
                              | (ROk (score, child_line), s) =>
                                let '(bs, bm) := if l_best_score L <? score then (score, m) else (l_best_score L, l_best_move L) in
                                if beta <=? score then
                                  (* beta cutoff: killer / history / counter updates for quiet moves *)
                                  let quiet : res bool :=
                                    tp <- get_piece p (mv_dst m) ;;
                                    Ok ((tp =? NO_PIECE)%N && negb (mv_kind m =? EN_PASSANT)%N) in
                                  match quiet with
                                  | Ok qt =>
                                    let s :=
                                      if qt then
                                        let '(k0, k1) := killers_at s ply in
                                        let k1 := if negb (k0 =? bm)%N then k0 else k1 in
                                        let s := upd_killers s (PositiveMap.add (key_of ply) (bm, k1) (s_killers s)) in
                                        let src := mv_src m in let dst := mv_dst m in
                                        let hv := w16 (history_at s (side p) src dst + w16 (depth * depth))%N in
                                        let s := upd_history s (PositiveMap.add (hkey (side p) src dst) hv (s_history s)) in
                                        let s := if (oc_killer OC - 2 <? hv)%N then halve_history s (side p) else s in
                                        if negb (prev_move =? NULL_MOVE)%N then
                                          upd_counter s (PositiveMap.add (hkey (side p) (mv_src prev_move) (mv_dst prev_move)) m (s_counter s))
                                        else s
                                      else s in
                                    (ROk ({| l_alpha := alpha; l_best_score := bs; l_best_move := bm; l_legal := l_legal L;
                                             l_node_type := BetaNode; l_pvl := l_pvl L |}, true), s)
                                  | _ => (RPanic, s)
                                  end
                                else if alpha <? score then
                                  next s {| l_alpha := score; l_best_score := bs; l_best_move := bm; l_legal := l_legal L;
                                            l_node_type := PVNode; l_pvl := bm :: child_line |}
                                else
                                  next s {| l_alpha := alpha; l_best_score := bs; l_best_move := bm; l_legal := l_legal L;
                                            l_node_type := l_node_type L; l_pvl := l_pvl L |}
                              | (RCancel, s) => (RCancel, s)
                              | (RPanic, s) => (RPanic, s)
                              | (ROutOfFuel, s) => (ROutOfFuel, s)
                              end
                            | _ => (RPanic, s)
                            end
                          | _ => (RPanic, s)
                          end
                        | _ => (RPanic, s)
                        end
                      end
                    end in
                  match loop (length ms) 0%nat ms s
                             {| l_alpha := alpha; l_best_score := - INF; l_best_move := NULL_MOVE; l_legal := 0%N;
                                l_node_type := AlphaNode; l_pvl := [] |} with
                  | (ROk (L, _), s) =>
                    if (l_legal L =? 0)%N then
                      if in_check then (ROk (mate_value, l_pvl L), s)
                      else (of_res (c <- contempt EC p ;; Ok (c, l_pvl L)), s)
                    else
                      let '(done, s) := poll s in
                      if done then (RCancel, s) else
                      let s := upd_tt s (tt_save (sc_tt_buckets SC) (s_tt s) (hash p) (l_best_move L) depth
                                                 (l_best_score L) (l_node_type L) root_hmc) in
                      (ROk (l_best_score L, l_pvl L), s)
                  | (RCancel, s) => (RCancel, s)
                  | (RPanic, s) => (RPanic, s)
                  | (ROutOfFuel, s) => (ROutOfFuel, s)
                  end
                | _ => (RPanic, s)
                end
              | _ => (RPanic, s)
              end
            | RCancel => (RCancel, s) | RPanic => (RPanic, s) | ROutOfFuel => (ROutOfFuel, s)
            end
          | (RCancel, s) => (RCancel, s)
          | (RPanic, s) => (RPanic, s)
          | (ROutOfFuel, s) => (ROutOfFuel, s)
          end
        | RCancel => (RCancel, s) | RPanic => (RPanic, s) | ROutOfFuel => (ROutOfFuel, s)
        end)
      | _ => (RPanic, s)
      end
    | _ => (RPanic, s)
    end
  end.

(* ---------------------------------------------------------------- root and iteration *)
Definition search_root (fuel : nat) (s : sst) (root : position) (depth : N) (alpha beta : Z)
  : sresult (Z * list N) * sst :=
  let s := upd_killers s (PositiveMap.empty _) in
  negamax fuel s root alpha beta depth 0%N true NULL_MOVE (hmc root).

(* SearchIterative(maxDepth), with the D5 repair: a result outside the window is re-searched only
   when the window was not already the full one. [iters] bounds the loop (2*maxDepth suffices). *)
Fixpoint search_iterative (iters : nat) (fuel : nat) (repaired : bool) (s : sst) (root : position)
         (max_depth depth : N) (alpha beta : Z) : sresult unit * sst :=
  match iters with
  | O => (ROutOfFuel, s)
  | S it =>
    if (max_depth <? depth)%N then (ROk tt, s) else
    match search_root fuel s root depth alpha beta with
    | (ROk (score, line), s) =>
      if ((score <=? alpha) || (beta <=? score))
         && (negb repaired || negb ((alpha =? - INF) && (beta =? INF))) then
        let s := emit s (EWindow alpha beta score) in
        search_iterative it fuel repaired s root max_depth depth (- INF) INF
      else
        let s := upd_pv s line in
        let s := emit s (EInfo depth score (s_nodes s)
                               (hash_full (sc_tt_buckets SC) (sc_tt_bucket_size SC) (st_he (s_tt s))) line) in
        search_iterative it fuel repaired s root max_depth (w8 (depth + 1))
                         (sub16 score (sc_widen SC)) (add16 score (sc_widen SC))
    | (RCancel, s) => (ROk tt, s)          (* timeout: return *)
    | (RPanic, s) => (RPanic, s)
    | (ROutOfFuel, s) => (ROutOfFuel, s)
    end
  end.

(* Search(ctx, sp): iterative deepening under the caller's cancellation, then, if no move is known,
   one depth-1 search that cannot be cancelled. Returns bestMove. *)
Definition best_move (s : sst) : N := nth 0 (s_pv s) NULL_MOVE.

Definition search (iters fuel : nat) (repaired : bool) (s : sst) (root : position) (req_depth : N)
  : sresult N * sst :=
  let depth := if (0 <? req_depth)%N then req_depth else sc_max_depth SC in
  match search_iterative iters fuel repaired s root depth 1%N (- INF) INF with
  | (ROk _, s) =>
    if (best_move s =? NULL_MOVE)%N then
      (* s.ctx = context.TODO(): the fallback polls a different context; [s_polls] keeps counting
         the polls of the caller's context only *)
      let polls := s_polls s in
      let s := set_cancel s None in
      match search_iterative iters fuel repaired s root 1%N 1%N (- INF) INF with
      | (ROk _, s) => let s := set_polls s polls in (ROk (best_move s), s)
      | (RCancel, s) => (RCancel, s)
      | (RPanic, s) => (RPanic, s)
      | (ROutOfFuel, s) => (ROutOfFuel, s)
      end
    else (ROk (best_move s), s)
  | (RCancel, s) => (RCancel, s)
  | (RPanic, s) => (RPanic, s)
  | (ROutOfFuel, s) => (ROutOfFuel, s)
  end.

End Search.
