From Coq Require Import ZArith Lia ZifyBool.
From Clemens Require Import Search.Time.
Open Scope Z_scope.
Ltac Zify.zify_post_hook ::= Z.to_euclidean_division_equations.

Definition lim : Z := Eval compute in 2^40.

Definition in_range (plys : Z) (sp : go_params) : Prop :=
  0 <= plys < lim /\ 0 <= gp_wtime sp < lim /\ 0 <= gp_btime sp < lim /\
  0 <= gp_winc sp < lim /\ 0 <= gp_binc sp < lim /\ 0 <= gp_movetime sp < lim.

Lemma i64_id x : - two63 <= x < two63 -> i64 x = x.
Proof.
  unfold i64, two63, two64. intros H.
  rewrite Z.mod_small; lia.
Qed.

(* calc_time without any wrap *)
Definition calc_time_ideal (max_ms : Z) (black : bool) (plys : Z) (sp : go_params) : Z :=
  let t := if black then gp_btime sp else gp_wtime sp in
  let inc := if black then gp_binc sp else gp_winc sp in
  let remaining := Z.max (60 - Z.quot plys 2) 20 in
  let movetime :=
    if 0 <? gp_movetime sp then gp_movetime sp
    else if 0 <? t then Z.min (Z.quot (t + inc * remaining) remaining) max_ms
    else 1000 in
  let movetime := if 0 <? t then Z.min movetime t else movetime in
  movetime - Z.max (Z.quot movetime 10) 50.

Lemma remaining_range plys : 0 <= plys < lim ->
  i64 (60 - Z.quot plys 2) = 60 - Z.quot plys 2 /\ 20 <= Z.max (60 - Z.quot plys 2) 20 <= 60.
Proof.
  unfold lim. intros H. split.
  - apply i64_id. unfold two63. lia.
  - lia.
Qed.

Lemma calc_time_nowrap max_ms (black : bool) plys sp :
  0 <= max_ms < lim -> in_range plys sp ->
  calc_time max_ms black plys sp = calc_time_ideal max_ms black plys sp.
Proof.
  intros Hm (Hp & Hw & Hb & Hwi & Hbi & Hmt).
  unfold calc_time, calc_time_ideal.
  destruct (remaining_range plys Hp) as [Hr Hrr].
  rewrite Hr.
  set (rem := Z.max (60 - Z.quot plys 2) 20) in *.
  set (t := if black then gp_btime sp else gp_wtime sp).
  set (inc := if black then gp_binc sp else gp_winc sp).
  assert (Ht : 0 <= t < lim) by (unfold t; destruct black; assumption).
  assert (Hi : 0 <= inc < lim) by (unfold inc; destruct black; assumption).
  unfold lim in *.
  assert (Hir : 0 <= inc * rem <= 60 * 1099511627776) by nia.
  rewrite (i64_id (inc * rem)) by (unfold two63; lia).
  rewrite (i64_id (t + inc * rem)) by (unfold two63; lia).
  apply i64_id. unfold two63.
  destruct (0 <? gp_movetime sp) eqn:E1; destruct (0 <? t) eqn:E2; lia.
Qed.

Lemma ideal_lt_clock max_ms (black : bool) plys sp :
  let t := if black then gp_btime sp else gp_wtime sp in
  0 < t -> calc_time_ideal max_ms black plys sp < t.
Proof.
  intros t Ht. unfold calc_time_ideal. fold t.
  assert (E : (0 <? t) = true) by lia. rewrite E.
  destruct (0 <? gp_movetime sp); lia.
Qed.

Lemma ideal_lt_movetime max_ms (black : bool) plys sp :
  0 < gp_movetime sp -> calc_time_ideal max_ms black plys sp < gp_movetime sp.
Proof.
  intros Hm. unfold calc_time_ideal.
  assert (E : (0 <? gp_movetime sp) = true) by lia. rewrite E.
  destruct (0 <? (if black then gp_btime sp else gp_wtime sp)); lia.
Qed.

Lemma budget_lt_clock max_ms (black : bool) plys sp :
  0 <= max_ms < lim -> in_range plys sp ->
  let t := if black then gp_btime sp else gp_wtime sp in
  0 < t -> calc_time max_ms black plys sp < t.
Proof.
  intros Hm Hr t Ht. rewrite calc_time_nowrap by assumption.
  now apply ideal_lt_clock.
Qed.

Lemma budget_lt_movetime max_ms (black : bool) plys sp :
  0 <= max_ms < lim -> in_range plys sp ->
  0 < gp_movetime sp -> calc_time max_ms black plys sp < gp_movetime sp.
Proof.
  intros Hm Hr Ht. rewrite calc_time_nowrap by assumption.
  now apply ideal_lt_movetime.
Qed.

(* The result is a function of the mover's clock, the mover's increment, movetime and the
   game length only: any two parameter records agreeing on those give the same budget
   (no range hypothesis needed: this holds for the wrapping arithmetic too). *)
Definition mover_view (black : bool) (sp : go_params) : Z * Z * Z :=
  (if black then gp_btime sp else gp_wtime sp,
   if black then gp_binc sp else gp_winc sp,
   gp_movetime sp).

Lemma budget_indep max_ms (black : bool) plys sp sp' :
  mover_view black sp = mover_view black sp' ->
  calc_time max_ms black plys sp = calc_time max_ms black plys sp'.
Proof.
  unfold mover_view, calc_time. intros H. inversion H as [[H1 H2 H3]].
  rewrite H1, H2, H3. reflexivity.
Qed.

(* D4: the formula before the repair exceeds the clock. *)
Definition d4_witness : go_params :=
  {| gp_wtime := 100; gp_btime := 0; gp_winc := 5000; gp_binc := 0;
     gp_movestogo := 0; gp_movetime := 0 |}.

Lemma unrepaired_exceeds_clock :
  exists plys sp, in_range plys sp /\ 0 < gp_wtime sp /\
    gp_wtime sp <= calc_time_unrepaired 1000000 false plys sp.
Proof.
  exists 0, d4_witness. unfold in_range, lim. cbn -[calc_time_unrepaired].
  repeat split; try lia. vm_compute. discriminate.
Qed.
