(* Facts about the constants of the Go build that the C04 / C05 theorems are instantiated with,
   and the executable witnesses (D5: the unrepaired iterative-deepening loop). *)
From Coq Require Import NArith ZArith List Bool FMapPositive Lia String.
From Clemens Require Import Base.Res Base.Word Pos.Types Att.Attacks Pos.Position Eval.Eval
     Search.TT Search.Ordering Search.Negamax Search.SearchStruct Search.SearchLines Search.SearchIter
     Search.GoInst.
Import ListNotations.
Open Scope Z_scope.

Lemma go_inf : INF go_econsts = 32767.
Proof. reflexivity. Qed.

Lemma go_inf_ok : 0 <= INF go_econsts <= 32767.
Proof. rewrite go_inf. lia. Qed.

(* INF is the largest int16: every int16 window except those with alpha = -32768 lies in [-INF, INF] *)
Lemma go_J_int16 : forall a b,
  -32768 <= a <= 32767 -> -32768 <= b <= 32767 -> (a <> -32768 \/ b <= a + 1) -> J go_econsts a b.
Proof. intros a b Ha Hb H. unfold J. rewrite go_inf. lia. Qed.

(* the aspiration window around an adopted score is covered unless the score is, as an int16,
   exactly -INF + 49 (then alpha wraps to -32768, the one int16 below -INF) *)
Lemma go_asp_ok : forall sc, (sc + 32718) mod 65536 <> 0 -> asp_ok go_econsts go_sconsts sc.
Proof.
  intros sc H. unfold asp_ok, J, sub16, add16, wrap16. rewrite go_inf.
  change (sc_widen go_sconsts) with 50.
  right.
  pose proof (Z.mod_pos_bound (sc - 50 + 32768) 65536 eq_refl).
  pose proof (Z.mod_pos_bound (sc + 50 + 32768) 65536 eq_refl).
  assert ((sc - 50 + 32768) mod 65536 <> 0).
  { intro E. apply H. replace (sc + 32718) with (sc - 50 + 32768) by lia. exact E. }
  lia.
Qed.

Lemma go_req_depth : forall req, (req < 255)%N -> (req_to_depth go_sconsts req < 255)%N.
Proof.
  intros req H. unfold req_to_depth. destruct (0 <? req)%N; [exact H|]. vm_compute. reflexivity.
Qed.

(* ---------------------------------------------------------------- D5, executable *)
Definition fools_mate_fen : string := "rnb1kbnr/pppp1ppp/8/4p3/6Pq/5P2/PPPPP2P/RNBQKBNR w KQkq - 1 3".

(* the result of SearchIterative(maxDepth) from a freshly started engine at the position [fen] *)
Definition iter_result (fen : string) (iters fuel : nat) (repaired : bool) (md : N) : option (sresult unit) :=
  match go_parse fen with
  | Ok root => Some (fst (go_search_iterative iters fuel repaired (go_empty_sst None) root md 1
                                              (- INF go_econsts) (INF go_econsts)))
  | _ => None
  end.

(* White is checkmated: the root score is -INF = alpha of the full window, "outside the window";
   the unrepaired test widens the already full window again, for ever.  50 rounds, fuel 400
   (never exhausted: the root has no legal move), requested depth 3. *)
Lemma unrepaired_loop_spins :
  iter_result fools_mate_fen 50 400 false 3 = Some ROutOfFuel /\
  iter_result fools_mate_fen 50 400 true 3 = Some (ROk tt).
Proof. split; vm_compute; reflexivity. Qed.

(* and no root search of that run is out of fuel: the same run with the iteration bound 8 that
   [id_loop_bound] gives for depth 3 already completes when repaired *)
Lemma repaired_loop_within_bound : iter_result fools_mate_fen 8 400 true 3 = Some (ROk tt).
Proof. vm_compute; reflexivity. Qed.

(* ---------------------------------------------------------------- C04 with the Go constants *)
(* the score of an info line is not, as an int16, -INF + 49 *)
Definition ev_score_ok (e : sevent) : Prop :=
  match e with EInfo _ sc _ _ _ => (sc + 32718) mod 65536 <> 0 | EWindow _ _ _ => True end.

Lemma go_ev_asp : forall new, Forall ev_score_ok new -> Forall (ev_asp go_econsts go_sconsts) new.
Proof.
  intros new H. eapply Forall_impl; [|exact H].
  intros [d sc n h pv|? ? ?] He; cbn in *; auto. apply go_asp_ok; exact He.
Qed.

Theorem go_search_spec : forall iters fuel rep s root req r s',
  (req < 255)%N ->
  go_search iters fuel rep s root req = (r, s') ->
  exists new,
    s_out s' = new ++ s_out s /\
    Forall (ev_ok go_keys go_econsts go_oconsts go_sconsts fuel rep root 1
                  (N.max 1 (req_to_depth go_sconsts req))) new /\
    s_pv s' = last_pv new (s_pv s) /\
    (Forall ev_score_ok new -> Forall (ev_legal go_keys root) new) /\
    (forall m, r = ROk m -> m = best_move s').
Proof.
  intros iters fuel rep s root req r s' Hreq H.
  destruct (search_spec go_keys go_econsts go_oconsts go_sconsts go_inf_ok _ _ _ _ _ _ _ _ (go_req_depth req Hreq) H)
    as (new & O1 & O2 & O3 & O4 & O5 & O6).
  exists new. repeat split; auto. intro Hs. apply O4. apply go_ev_asp; exact Hs.
Qed.

(* the adopted line stays legal *)
Theorem go_adopted_line_legal : forall iters fuel rep s root req r s',
  (req < 255)%N ->
  go_search iters fuel rep s root req = (r, s') ->
  exists new,
    s_out s' = new ++ s_out s /\
    (Forall ev_score_ok new -> line_legal go_keys root (s_pv s) -> line_legal go_keys root (s_pv s')).
Proof.
  intros iters fuel rep s root req r s' Hreq H.
  destruct (go_search_spec _ _ _ _ _ _ _ _ Hreq H) as (new & O1 & O2 & O3 & O4 & O5).
  exists new. split; [exact O1|]. intros Hs Hl. rewrite O3.
  apply last_pv_legal; [apply O4; exact Hs|exact Hl].
Qed.

(* the window hypothesis of [negamax_pv_legal] cannot be dropped for ARBITRARY states: with
   alpha = -32768 (the one int16 below -INF) and one junk evaluation-cache entry claiming -INF for a
   grandchild, the root (a position with a single legal move) returns the line [NULL_MOVE], which
   MakeMove rejects.  (Not a defect of /repo: no sane cache holds such an entry.) *)
Definition cx_fen : string := "k5r1/8/8/8/8/8/8/1r5K w - - 0 1".
Definition cx_run : option (sresult (Z * list N) * bool) :=
  match go_parse cx_fen with
  | Ok root =>
    match legal_moves go_keys root with
    | Ok [m1] =>
      match make_move go_keys root m1 with
      | Ok c1 =>
        match gen_moves c1 with
        | Ok (m2 :: _) =>
          match make_move go_keys c1 m2 with
          | Ok c2 =>
            let junk : ecache := cache_save go_econsts [] (hash c2) (-32767) in
            let s := go_init_sst go_tt_init junk [] None in
            Some (fst (go_negamax 10 s root (-32768) 32767 1 0 true NULL_MOVE (hmc root)),
                  match make_move go_keys root NULL_MOVE with Ok _ => true | _ => false end)
          | _ => None end
        | _ => None end
      | _ => None end
    | _ => None end
  | _ => None end.

Lemma pv_legal_needs_window : cx_run = Some (ROk (-32767, [NULL_MOVE]), false).
Proof. vm_compute. reflexivity. Qed.

(* [cancel_propagates] is stated with [fired s'] (a poll HAS reported done), not with [cancelled s']
   (the NEXT poll would): the latter can hold after a call that returned a value, because the call
   polled for the last time just before the oracle became due.  Witness: the mated root, oracle
   due at poll 1; the node polls once (poll 0), finds no legal move and returns the mate value. *)
Definition cx2_run : option (sresult (Z * list N) * N * option N) :=
  match go_parse fools_mate_fen with
  | Ok root =>
      let '(r, s') := go_negamax 10 (go_empty_sst (Some 1%N)) root (- INF go_econsts) (INF go_econsts)
                                 1 0 true NULL_MOVE (hmc root) in
      Some (r, s_polls s', s_cancel s')
  | _ => None
  end.
Lemma value_returned_with_oracle_due : cx2_run = Some (ROk (-32767, []), 1%N, Some 1%N).
Proof. vm_compute. reflexivity. Qed.
