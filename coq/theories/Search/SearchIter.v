(* C04 / C05 at the level of SearchIterative and Search: what the iterative-deepening loop emits and
   adopts, its iteration bound, and when the fallback search runs. *)
From Coq Require Import NArith ZArith List Bool FMapPositive Lia.
From Clemens Require Import Base.Res Base.Word Pos.Types Att.Attacks Pos.Position Eval.Eval
     Search.TT Search.Ordering Search.Negamax Search.SearchStruct Search.SearchLines Search.SearchRoot
     Pos.Inv Pos.GenWords.
Import ListNotations.
Open Scope Z_scope.

(* the pv of the newest info line, if any ([s_out] is newest first) *)
Fixpoint last_pv (new : list sevent) (dflt : list N) : list N :=
  match new with
  | [] => dflt
  | EInfo _ _ _ _ pv :: _ => pv
  | EWindow _ _ _ :: t => last_pv t dflt
  end.

Lemma last_pv_app : forall l1 l2 d, last_pv (l1 ++ l2) d = last_pv l1 (last_pv l2 d).
Proof. induction l1 as [|[? ? ? ? pv|? ? ?] t IH]; intros; cbn; auto. Qed.

Definition has_info (new : list sevent) : bool :=
  existsb (fun e => match e with EInfo _ _ _ _ _ => true | _ => false end) new.

Section Iter.
Variable K : zkeys.
Variable EC : econsts.
Variable OC : oconsts.
Variable SC : sconsts.

Definition full_window (a b : Z) : bool := (a =? - INF EC) && (b =? INF EC).

(* the aspiration window computed from an adopted score is one [negamax_pv_legal] covers *)
Definition asp_ok (sc : Z) : Prop := J EC (sub16 sc (sc_widen SC)) (add16 sc (sc_widen SC)).

(* ---------------------------------------------------------------- the root search *)
Lemma search_root_A : forall fuel s root d a b,
  specA s (search_root K EC OC SC fuel s root d a b).
Proof.
  intros. unfold search_root.
  pose proof (negamax_A K EC OC SC fuel (upd_killers s (PositiveMap.empty _)) root a b d 0%N true NULL_MOVE (hmc root)) as H.
  destruct (negamax K EC OC SC fuel (upd_killers s (PositiveMap.empty _)) root a b d 0%N true NULL_MOVE (hmc root)) as [r s'].
  destruct r; leafA.
Qed.

Lemma search_root_frame : forall fuel s root d a b r s',
  search_root K EC OC SC fuel s root d a b = (r, s') -> frame s s'.
Proof. intros. pose proof (search_root_A fuel s root d a b) as H0. rewrite H in H0. apply H0. Qed.

(* ---------------------------------------------------------------- events *)
(* an info line: its depth is within the bounds of the loop, and its pv is the line of a root
   search from [root] that completed with a score strictly inside its window (or, with the D5
   repair, under the full window) *)
Definition ev_ok (fuel : nat) (rep : bool) (root : position) (d md : N) (e : sevent) : Prop :=
  match e with
  | EInfo d' sc _ _ pv =>
      (d <= d' <= md)%N /\ head_ok K root pv /\
      exists s1 a1 b1 s2,
        search_root K EC OC SC fuel s1 root d' a1 b1 = (ROk (sc, pv), s2) /\
        ((a1 < sc < b1) \/ (rep = true /\ a1 = - INF EC /\ b1 = INF EC))
  | EWindow _ _ _ => True
  end.
Definition ev_legal (root : position) (e : sevent) : Prop :=
  match e with EInfo _ _ _ _ pv => line_legal K root pv | EWindow _ _ _ => True end.
Definition ev_asp (e : sevent) : Prop :=
  match e with EInfo _ sc _ _ _ => asp_ok sc | EWindow _ _ _ => True end.

Lemma ev_ok_weaken : forall fuel rep root d d0 md md0 e,
  (d0 <= d)%N -> (md <= md0)%N -> ev_ok fuel rep root d md e -> ev_ok fuel rep root d0 md0 e.
Proof.
  intros fuel rep root d d0 md md0 [d' sc n h pv|? ? ?] Hd Hm H; cbn in *; auto.
  destruct H as (? & ? & ?). repeat split; auto; lia.
Qed.

Lemma has_info_app : forall l1 l2, has_info (l1 ++ l2) = has_info l1 || has_info l2.
Proof. intros; unfold has_info; apply existsb_app. Qed.

Lemma root_not_cancel : forall fuel s root d a b s',
  s_cancel s = None -> search_root K EC OC SC fuel s root d a b <> (RCancel, s').
Proof.
  intros fuel s root d a b s' Hn H. pose proof (search_root_A fuel s root d a b) as HA.
  rewrite H in HA. destruct HA as ([_ Hc _ _ _] & _ & HA). cbn [fst snd] in *.
  specialize (HA eq_refl). unfold fired in HA. rewrite Hc, Hn in HA. exact HA.
Qed.

Hypothesis inf_ok : 0 <= INF EC <= 32767.

Lemma J_full : J EC (- INF EC) (INF EC).
Proof. right; lia. Qed.

(* C05 (b) + C04 (f): what one run of the loop does to the output and to s.PV *)
Theorem iter_spec : forall iters fuel rep root md,
  (md < 255)%N ->
  forall s d a b r s',
  search_iterative K EC OC SC iters fuel rep s root md d a b = (r, s') ->
  exists new,
    s_out s' = new ++ s_out s /\
    Forall (ev_ok fuel rep root d md) new /\
    s_pv s' = last_pv new (s_pv s) /\
    (J EC a b -> Forall ev_asp new -> Forall (ev_legal root) new) /\
    s_hist s' = s_hist s /\ s_cancel s' = s_cancel s /\ (s_polls s <= s_polls s')%N /\
    (s_cancel s = None -> (d <= md)%N -> r = ROk tt -> has_info new = true).
Proof.
  intros iters fuel rep root md Hmd. induction iters as [|it IH]; intros s d a b r s' H.
  - cbn in H. inversion H; subst. exists []. repeat split; auto; try lia. discriminate.
  - cbn [search_iterative] in H.
    destruct (md <? d)%N eqn:Hd.
    { inversion H; subst. exists []. apply N.ltb_lt in Hd. repeat split; auto; lia. }
    apply N.ltb_ge in Hd.
    pose proof (search_root_frame fuel s root d a b) as Hfr.
    pose proof (negamax_B K EC OC SC inf_ok fuel (upd_killers s (PositiveMap.empty _)) root a b d 0%N true NULL_MOVE (hmc root)) as HB.
    change (negamax K EC OC SC fuel (upd_killers s (PositiveMap.empty (N * N))) root a b d 0%N true NULL_MOVE (hmc root))
      with (search_root K EC OC SC fuel s root d a b) in HB.
    destruct (search_root K EC OC SC fuel s root d a b) as [[[score line]| | |] s0] eqn:Hsr.
    + specialize (Hfr _ _ eq_refl). destruct Hfr as [F1 F2 F3 F4 F5].
      unfold specB in HB; cbn [fst] in HB. destruct HB as [Hhead Hleg].
      match type of H with (if ?c then _ else _) = _ => destruct c eqn:Hc end.
      * (* outside the window: widen *)
        apply IH in H. destruct H as (new & O1 & O2 & O3 & O4 & O5 & O6 & O7 & O8). projs.
        exists (new ++ [EWindow a b score]). rewrite <- app_assoc. cbn [app].
        rewrite O1, F5, O3, F4, O5, O6, F1, F2. repeat split; auto; try lia.
        -- apply Forall_app; split; [exact O2 | constructor; [exact I|constructor]].
        -- rewrite last_pv_app. reflexivity.
        -- intros _ Hasp. apply Forall_app in Hasp. destruct Hasp as [Hasp _].
           apply Forall_app; split; [apply O4; [apply J_full|exact Hasp] | constructor; [exact I|constructor]].
        -- intros Hn _ Hr. rewrite has_info_app. rewrite O8; auto. congruence.
      * (* adopted *)
        assert (Hw : w8 (d + 1) = (d + 1)%N) by (unfold w8; apply N.mod_small; lia).
        rewrite Hw in H.
        apply IH in H. destruct H as (new & O1 & O2 & O3 & O4 & O5 & O6 & O7 & O8). projs.
        set (e := EInfo d score (s_nodes s0) (hash_full (sc_tt_buckets SC) (sc_tt_bucket_size SC) (st_he (s_tt s0))) line) in *.
        exists (new ++ [e]). rewrite <- app_assoc. cbn [app].
        rewrite O1, F5, O3, O5, O6, F1, F2. repeat split; auto; try lia.
        -- apply Forall_app; split.
           ++ eapply Forall_impl; [|exact O2]. intros e0; apply ev_ok_weaken; lia.
           ++ constructor; [|constructor]. cbn. repeat split; auto; try lia.
              exists s, a, b, s0. split; [exact Hsr|].
              apply andb_false_iff in Hc. destruct Hc as [Hc|Hc].
              ** apply orb_false_iff in Hc. destruct Hc as [H1 H2].
                 apply Z.leb_gt in H1. apply Z.leb_gt in H2. left; lia.
              ** apply orb_false_iff in Hc. destruct Hc as [H1 H2].
                 apply negb_false_iff in H1. apply negb_false_iff in H2.
                 apply andb_true_iff in H2. destruct H2 as [H2 H3].
                 apply Z.eqb_eq in H2. apply Z.eqb_eq in H3. right; auto.
        -- rewrite last_pv_app. reflexivity.
        -- intros HJ Hasp. apply Forall_app in Hasp. destruct Hasp as [Hasp1 Hasp2].
           apply Forall_app; split.
           ++ apply O4; [|exact Hasp1]. inversion Hasp2; subst. assumption.
           ++ constructor; [|constructor]. cbn. apply Hleg; exact HJ.
        -- intros _ _ _. rewrite has_info_app. cbn. apply orb_true_r.
    + specialize (Hfr _ _ eq_refl). destruct Hfr as [F1 F2 F3 F4 F5].
      inversion H; subst. exists []. repeat split; auto.
      intros Hn _ _. exfalso. eapply root_not_cancel; eauto.
    + specialize (Hfr _ _ eq_refl). destruct Hfr as [F1 F2 F3 F4 F5].
      inversion H; subst. exists []. repeat split; auto. discriminate.
    + specialize (Hfr _ _ eq_refl). destruct Hfr as [F1 F2 F3 F4 F5].
      inversion H; subst. exists []. repeat split; auto. discriminate.
Qed.

(* the loop itself never reports the error: a cancelled root search ends it with nil *)
Lemma iter_not_cancel : forall iters fuel rep s root md d a b s',
  search_iterative K EC OC SC iters fuel rep s root md d a b <> (RCancel, s').
Proof.
  induction iters as [|it IH]; intros; cbn [search_iterative]; [discriminate|].
  destruct (md <? d)%N; [discriminate|].
  destruct (search_root K EC OC SC fuel s root d a b) as [[[score line]| | |] s0]; try discriminate.
  match goal with |- (if ?c then _ else _) <> _ => destruct c end; apply IH.
Qed.

(* C05 (c): with the repaired window test the loop needs at most two root searches per depth (after
   a widening the window is the full one and a full-window result is always adopted), plus the
   final test.  So it runs out of [iters] only by running out of [fuel] in a root search:
   an [ROutOfFuel] of the loop IS the [ROutOfFuel] of one of its root searches. *)
Theorem id_loop_bound_gen : forall fuel root md,
  (md < 255)%N ->
  forall iters s d a b s',
  (d <= md + 1)%N ->
  (2 * (N.to_nat md + 1 - N.to_nat d) + 1 <= iters \/
   (full_window a b = true /\ (d <= md)%N /\ 2 * (N.to_nat md + 1 - N.to_nat d) <= iters))%nat ->
  search_iterative K EC OC SC iters fuel true s root md d a b = (ROutOfFuel, s') ->
  exists s1 d1 a1 b1, (d <= d1 <= md)%N /\
    search_root K EC OC SC fuel s1 root d1 a1 b1 = (ROutOfFuel, s').
Proof.
  intros fuel root md Hmd. induction iters as [|it IH]; intros s d a b s' Hd Hit H.
  - exfalso. destruct Hit as [Hit|(_ & Hle & Hit)]; lia.
  - cbn [search_iterative] in H.
    destruct (md <? d)%N eqn:Hlt; [discriminate|]. apply N.ltb_ge in Hlt.
    destruct (search_root K EC OC SC fuel s root d a b) as [[[score line]| | |] s0] eqn:Hsr; try discriminate.
    + match type of H with (if ?c then _ else _) = _ => destruct c eqn:Hc end.
      * (* widened: the window was not the full one *)
        apply andb_true_iff in Hc. destruct Hc as [_ Hc]. cbn [negb orb] in Hc.
        apply negb_true_iff in Hc.
        apply IH in H.
        -- destruct H as (s1 & d1 & a1 & b1 & ? & ?). exists s1, d1, a1, b1. split; auto.
        -- exact Hd.
        -- right. split; [unfold full_window; rewrite !Z.eqb_refl; reflexivity|]. split; [exact Hlt|].
           destruct Hit as [Hit|(Hf & _)]; [lia|]. unfold full_window in Hf. congruence.
      * assert (Hw : w8 (d + 1) = (d + 1)%N) by (unfold w8; apply N.mod_small; lia).
        rewrite Hw in H. apply IH in H.
        -- destruct H as (s1 & d1 & a1 & b1 & ? & ?). exists s1, d1, a1, b1. split; auto. lia.
        -- lia.
        -- left. destruct Hit as [Hit|(_ & _ & Hit)]; lia.
    + inversion H; subst. exists s, d, a, b. split; [lia|exact Hsr].
Qed.

Theorem id_loop_bound : forall fuel root md iters s d a b s',
  (md < 255)%N -> (d <= md + 1)%N ->
  (2 * (N.to_nat md + 1 - N.to_nat d) + 2 <= iters)%nat ->
  search_iterative K EC OC SC iters fuel true s root md d a b = (ROutOfFuel, s') ->
  exists s1 d1 a1 b1, (d <= d1 <= md)%N /\
    search_root K EC OC SC fuel s1 root d1 a1 b1 = (ROutOfFuel, s').
Proof.
  intros fuel root md iters s d a b s' Hmd Hd Hit H.
  apply (id_loop_bound_gen fuel root md Hmd iters s d a b s' Hd); [left; lia | exact H].
Qed.

(* ---------------------------------------------------------------- Search *)
Definition req_to_depth (req : N) : N := if (0 <? req)%N then req else sc_max_depth SC.

(* C05 (b), (d) and C04 (f) for Search: everything it emits, what it adopts, what it answers, and
   when the fallback runs *)
Theorem search_spec : forall iters fuel rep s root req r s',
  (req_to_depth req < 255)%N ->
  search K EC OC SC iters fuel rep s root req = (r, s') ->
  exists new,
    s_out s' = new ++ s_out s /\
    Forall (ev_ok fuel rep root 1 (N.max 1 (req_to_depth req))) new /\
    s_pv s' = last_pv new (s_pv s) /\
    (Forall ev_asp new -> Forall (ev_legal root) new) /\
    s_hist s' = s_hist s /\
    (forall m, r = ROk m -> m = best_move s').
Proof.
  intros iters fuel rep s root req r s' Hdep H. unfold search in H.
  fold (req_to_depth req) in H.
  destruct (search_iterative K EC OC SC iters fuel rep s root (req_to_depth req) 1 (- INF EC) (INF EC))
    as [r1 s1] eqn:H1.
  pose proof (iter_spec iters fuel rep root (req_to_depth req) Hdep _ _ _ _ _ _ H1)
    as (new1 & A1 & A2 & A3 & A4 & A5 & A6 & A7 & A8).
  assert (W1 : Forall (ev_ok fuel rep root 1 (N.max 1 (req_to_depth req))) new1)
    by (eapply Forall_impl; [|exact A2]; intros e0; apply ev_ok_weaken; lia).
  destruct r1 as [[]| | |].
  - destruct (best_move s1 =? NULL_MOVE)%N eqn:Hbm.
    + destruct (search_iterative K EC OC SC iters fuel rep (set_cancel s1 None) root 1 1 (- INF EC) (INF EC))
        as [r2 s2] eqn:H2.
      assert (H255 : (1 < 255)%N) by lia.
      pose proof (iter_spec iters fuel rep root 1%N H255 _ _ _ _ _ _ H2)
        as (new2 & B1 & B2 & B3 & B4 & B5 & B6 & B7 & B8). projs.
      assert (W2 : Forall (ev_ok fuel rep root 1 (N.max 1 (req_to_depth req))) new2)
        by (eapply Forall_impl; [|exact B2]; intros e0; apply ev_ok_weaken; lia).
      assert (R : s_out s2 = (new2 ++ new1) ++ s_out s /\
                  s_pv s2 = last_pv (new2 ++ new1) (s_pv s) /\ s_hist s2 = s_hist s).
      { rewrite B1, A1, B3, A3, B5, A5, last_pv_app, app_assoc. auto. }
      destruct R as (R1 & R2 & R3).
      assert (RL : Forall ev_asp (new2 ++ new1) -> Forall (ev_legal root) (new2 ++ new1)).
      { intro Hasp. apply Forall_app in Hasp. destruct Hasp.
        apply Forall_app; split; [apply B4; auto; apply J_full | apply A4; auto; apply J_full]. }
      exists (new2 ++ new1).
      destruct r2 as [[]| | |]; inversion H; subst; projs; repeat split; auto;
        try (apply Forall_app; split; assumption); try discriminate.
      intros m Hm. inversion Hm; subst. reflexivity.
    + inversion H; subst. exists new1. repeat split; auto.
      * intro Hasp; apply A4; auto; apply J_full.
      * intros m Hm. inversion Hm; subst. reflexivity.
  - exfalso. eapply iter_not_cancel; eauto.
  - inversion H; subst. exists new1. repeat split; auto; try discriminate.
    intro Hasp; apply A4; auto; apply J_full.
  - inversion H; subst. exists new1. repeat split; auto; try discriminate.
    intro Hasp; apply A4; auto; apply J_full.
Qed.

Lemma last_pv_head_ok : forall fuel rep root d md new dflt,
  Forall (ev_ok fuel rep root d md) new -> head_ok K root dflt -> head_ok K root (last_pv new dflt).
Proof.
  intros fuel rep root d md new dflt H Hd. induction H as [|e t He Ht IH]; cbn; auto.
  destruct e as [d' sc n h pv|? ? ?]; auto. apply He.
Qed.

Lemma last_pv_no_info : forall new dflt, has_info new = false -> last_pv new dflt = dflt.
Proof.
  induction new as [|[d' sc n h pv|? ? ?] t IH]; intros dflt H; cbn in *; auto. discriminate.
Qed.

Lemma last_pv_legal : forall root new dflt,
  Forall (ev_legal root) new -> line_legal K root dflt -> line_legal K root (last_pv new dflt).
Proof.
  intros root new dflt H Hd. induction H as [|e t He Ht IH]; cbn; auto.
  destruct e as [d' sc n h pv|? ? ?]; auto.
Qed.

(* C04 (f): the answer.  No hypothesis on tables, windows, scores or cancellation. *)
Theorem answer_legal_or_null : forall iters fuel rep s root req m s',
  (req_to_depth req < 255)%N -> s_pv s = [] ->
  search K EC OC SC iters fuel rep s root req = (ROk m, s') ->
  m = NULL_MOVE \/ move_ok K root m.
Proof.
  intros iters fuel rep s root req m s' Hd Hpv H.
  destruct (search_spec _ _ _ _ _ _ _ _ Hd H) as (new & O1 & O2 & O3 & O4 & O5 & O6).
  rewrite (O6 m eq_refl). unfold best_move. rewrite O3, Hpv.
  pose proof (last_pv_head_ok _ _ _ _ _ new [] O2 I) as Hh.
  destruct (last_pv new []) as [|m0 l]; cbn; auto.
Qed.

(* the answer is the head of the pv of the newest info line; without an info line it is null *)
Theorem answer_is_last_info : forall iters fuel rep s root req m s',
  (req_to_depth req < 255)%N -> s_pv s = [] ->
  search K EC OC SC iters fuel rep s root req = (ROk m, s') ->
  exists new, s_out s' = new ++ s_out s /\
    m = nth 0 (last_pv new []) NULL_MOVE /\ (has_info new = false -> m = NULL_MOVE).
Proof.
  intros iters fuel rep s root req m s' Hd Hpv H.
  destruct (search_spec _ _ _ _ _ _ _ _ Hd H) as (new & O1 & O2 & O3 & O4 & O5 & O6).
  exists new. split; [exact O1|].
  assert (E : m = nth 0 (last_pv new []) NULL_MOVE)
    by (rewrite (O6 m eq_refl); unfold best_move; rewrite O3, Hpv; reflexivity).
  split; [exact E|]. intro Hn. rewrite E, (last_pv_no_info new [] Hn). reflexivity.
Qed.

(* C05 (d): the second loop runs iff the first one returned normally with no move known; it runs
   with the cancellation oracle switched off, so none of its root searches can be cancelled, and
   if it returns normally it has printed an info line *)
Theorem fallback_only_if_nothing : forall iters fuel rep s root req r s',
  search K EC OC SC iters fuel rep s root req = (r, s') ->
  exists r1 s1,
    search_iterative K EC OC SC iters fuel rep s root (req_to_depth req) 1 (- INF EC) (INF EC) = (r1, s1) /\
    ( (r1 = ROk tt /\ best_move s1 <> NULL_MOVE /\ r = ROk (best_move s1) /\ s' = s1)
      \/
      (r1 = ROk tt /\ best_move s1 = NULL_MOVE /\
       exists r2 s2 new2,
         search_iterative K EC OC SC iters fuel rep (set_cancel s1 None) root 1 1 (- INF EC) (INF EC) = (r2, s2) /\
         s_cancel s2 = None /\ s_out s2 = new2 ++ s_out s1 /\
         match r2 with
         | ROk _ => r = ROk (best_move s2) /\ s' = set_polls s2 (s_polls s1) /\ has_info new2 = true
         | RCancel => False
         | RPanic => r = RPanic /\ s' = s2
         | ROutOfFuel => r = ROutOfFuel /\ s' = s2
         end)
      \/
      ((r1 = RPanic /\ r = RPanic \/ r1 = ROutOfFuel /\ r = ROutOfFuel) /\ s' = s1) ).
Proof.
  intros iters fuel rep s root req r s' H. unfold search in H. fold (req_to_depth req) in H.
  destruct (search_iterative K EC OC SC iters fuel rep s root (req_to_depth req) 1 (- INF EC) (INF EC))
    as [r1 s1] eqn:H1.
  exists r1, s1. split; [reflexivity|].
  destruct r1 as [[]| | |].
  - destruct (best_move s1 =? NULL_MOVE)%N eqn:Hbm.
    + right; left. apply N.eqb_eq in Hbm. repeat split; auto.
      destruct (search_iterative K EC OC SC iters fuel rep (set_cancel s1 None) root 1 1 (- INF EC) (INF EC))
        as [r2 s2] eqn:H2.
      assert (H255 : (1 < 255)%N) by lia.
      pose proof (iter_spec iters fuel rep root 1%N H255 _ _ _ _ _ _ H2)
        as (new2 & B1 & B2 & B3 & B4 & B5 & B6 & B7 & B8). projs.
      exists r2, s2, new2. repeat split; auto.
      destruct r2 as [[]| | |]; inversion H; subst; auto.
      * repeat split; auto. apply B8; auto. lia.
      * eapply iter_not_cancel; eauto.
    + left. apply N.eqb_neq in Hbm. inversion H; subst. auto.
  - exfalso. eapply iter_not_cancel; eauto.
  - right; right. inversion H; subst. auto.
  - right; right. inversion H; subst. auto.
Qed.

(* the fallback loop (depth 1 to 1, full window, oracle off), when it returns normally: exactly one
   info line, printed last, preceded only by window lines; its pv is the line of a depth-1
   full-window root search that completed; the score is strictly inside (-INF, INF) unless the
   repaired test adopted it under the full window *)
Definition is_window (e : sevent) : Prop := match e with EWindow _ _ _ => True | _ => False end.

Lemma fallback_spec : forall iters fuel rep root s s',
  s_cancel s = None ->
  search_iterative K EC OC SC iters fuel rep s root 1 1 (- INF EC) (INF EC) = (ROk tt, s') ->
  exists sc n h pv ws s1 s2,
    s_out s' = EInfo 1 sc n h pv :: ws ++ s_out s /\ Forall is_window ws /\ s_pv s' = pv /\
    search_root K EC OC SC fuel s1 root 1 (- INF EC) (INF EC) = (ROk (sc, pv), s2) /\
    ((- INF EC < sc < INF EC) \/ rep = true).
Proof.
  intros iters fuel rep root. induction iters as [|it IH]; intros s s' Hn H; [discriminate|].
  cbn [search_iterative] in H. change (1 <? 1)%N with false in H. cbv iota in H.
  pose proof (search_root_frame fuel s root 1 (- INF EC) (INF EC)) as Hfr.
  destruct (search_root K EC OC SC fuel s root 1 (- INF EC) (INF EC)) as [[[score line]| | |] s0] eqn:Hsr;
    try discriminate.
  - specialize (Hfr _ _ eq_refl). destruct Hfr as [F1 F2 F3 F4 F5].
    match type of H with (if ?c then _ else _) = _ => destruct c eqn:Hc end.
    + apply IH in H; [|projs; congruence].
      destruct H as (sc & n & h & pv & ws & s1 & s2 & O1 & O2 & O3 & O4 & O5). projs.
      exists sc, n, h, pv, (ws ++ [EWindow (- INF EC) (INF EC) score]), s1, s2.
      rewrite O1, F5, <- app_assoc. cbn [app]. repeat split; auto.
      apply Forall_app; split; [exact O2|constructor; [exact I|constructor]].
    + change (w8 (1 + 1)) with 2%N in H.
      destruct it as [|it]; [discriminate|]. cbn [search_iterative] in H.
      change (1 <? 2)%N with true in H. cbv iota in H. inversion H; subst. projs.
      do 4 eexists. exists [], s, s0. cbn [app]. rewrite F5. repeat split; auto.
      apply andb_false_iff in Hc. destruct Hc as [Hc|Hc].
      * apply orb_false_iff in Hc. destruct Hc as [H1 H2].
        apply Z.leb_gt in H1. apply Z.leb_gt in H2. left; lia.
      * apply orb_false_iff in Hc. destruct Hc as [H1 _]. apply negb_false_iff in H1. right; exact H1.
  - exfalso. eapply root_not_cancel; eauto.
Qed.

(* C04 (g), what is proved: a null answer comes from the uncancellable depth-1 full-window search,
   and then either its line begins with a GENERATED, MADE, LEGAL move that is the null word, or its
   line is empty and its score is the contempt value of the root, or (repaired test only) its
   score is not strictly inside (-INF, INF). *)
Theorem null_answer_partial : forall iters fuel rep s root req s',
  search K EC OC SC iters fuel rep s root req = (ROk NULL_MOVE, s') ->
  exists sc n h pv rest s1 s2,
    s_out s' = EInfo 1 sc n h pv :: rest /\
    search_root K EC OC SC fuel s1 root 1 (- INF EC) (INF EC) = (ROk (sc, pv), s2) /\
    ( (exists l, pv = NULL_MOVE :: l /\ move_ok K root NULL_MOVE)
      \/ (pv = [] /\ contempt EC root = Ok sc)
      \/ (pv = [] /\ rep = true /\ (sc <= - INF EC \/ INF EC <= sc)) ).
Proof.
  intros iters fuel rep s root req s' H.
  destruct (fallback_only_if_nothing _ _ _ _ _ _ _ _ H) as (r1 & s1 & H1 & [C|[C|C]]).
  - destruct C as (_ & Hne & Hr & _). inversion Hr. congruence.
  - destruct C as (_ & _ & r2 & s2 & new2 & H2 & Hc & Ho & Hm).
    destruct r2 as [[]| | |]; try contradiction; try (destruct Hm; discriminate).
    destruct Hm as (Hr & Hs & _).
    apply fallback_spec in H2; [|reflexivity].
    destruct H2 as (sc & n & h & pv & ws & s3 & s4 & O1 & O2 & O3 & O4 & O5).
    exists sc, n, h, pv, (ws ++ s_out (set_cancel s1 None)), s3, s4.
    subst s'. projs. split; [exact O1|]. split; [exact O4|].
    inversion Hr as [Hbm]. unfold best_move in Hbm. rewrite O3 in Hbm.
    assert (Hleg : line_legal K root pv).
    { unfold search_root in O4. eapply negamax_pv_legal; [exact inf_ok| |exact O4]. apply J_full. }
    destruct pv as [|m l].
    + destruct O5 as [O5|O5].
      * right; left. split; [reflexivity|].
        unfold search_root in O4.
        assert (Hd : (0 < 1 < 255)%N) by lia.
        destruct (root_line_nonempty_partial K EC OC SC _ _ _ _ _ _ _ _ _ _ _ _ Hd (Z.le_refl _) O4 O5)
          as [Hx|[Hx|Hx]]; [congruence| |exact Hx].
        exfalso. unfold add16, wrap16 in Hx. rewrite Z.mod_small in Hx by lia. lia.
      * destruct (Z_lt_le_dec (- INF EC) sc) as [Hlo|Hlo]; [|right; right; auto].
        destruct (Z_lt_le_dec sc (INF EC)) as [Hhi|Hhi]; [|right; right; auto].
        right; left. split; [reflexivity|].
        unfold search_root in O4.
        assert (Hd : (0 < 1 < 255)%N) by lia.
        destruct (root_line_nonempty_partial K EC OC SC _ _ _ _ _ _ _ _ _ _ _ _ Hd (Z.le_refl _) O4 (conj Hlo Hhi))
          as [Hx|[Hx|Hx]]; [congruence| |exact Hx].
        exfalso. unfold add16, wrap16 in Hx. rewrite Z.mod_small in Hx by lia. lia.
    + cbn in Hbm. subst m. left. exists l. split; [reflexivity|].
      inversion Hleg; subst. split; eauto.
  - destruct C as ([[_ Hr]|[_ Hr]] & _); discriminate.
Qed.

(* C05 (b) for Search: no info line reports a depth above the requested one (1 for the fallback) *)
Theorem depth_respected : forall iters fuel rep s root req r s',
  (req_to_depth req < 255)%N ->
  search K EC OC SC iters fuel rep s root req = (r, s') ->
  exists new, s_out s' = new ++ s_out s /\
    forall d sc n h pv, In (EInfo d sc n h pv) new -> (1 <= d <= N.max 1 (req_to_depth req))%N.
Proof.
  intros iters fuel rep s root req r s' Hd H.
  destruct (search_spec _ _ _ _ _ _ _ _ Hd H) as (new & O1 & O2 & _).
  exists new. split; [exact O1|]. intros d sc n h pv Hin.
  rewrite Forall_forall in O2. apply O2 in Hin. cbn in Hin. tauto.
Qed.
End Iter.

(* the generator's moves carry no score bits exactly when they are below 2^16; for such a list
   "generated up to score bits" is membership of the move proper *)
Lemma gen_of_low : forall p m g,
  gen_moves p = Ok g -> Forall (fun x => (x < 65536)%N) g -> gen_of p m -> In (mv_low m) g.
Proof.
  intros p m g Hg Hlt (g' & m0 & Hg' & Hin & E). rewrite Hg in Hg'. inversion Hg'; subst g'.
  rewrite E. rewrite Forall_forall in Hlt. specialize (Hlt _ Hin).
  unfold mv_low. change 65535%N with (N.ones 16). rewrite N.land_ones.
  rewrite N.mod_small by exact Hlt. exact Hin.
Qed.

(* ---------------------------------------------------------------- the answer among the engine's legal moves *)
Lemma legal_fold_in : forall K p g l m0 q,
  fold_right (fun m acc => l <- acc ;; q <- make_move K p m ;; ok <- is_legal q ;;
                           Ok (if ok then m :: l else l)) (Ok []) g = Ok l ->
  In m0 g -> make_move K p m0 = Ok q -> is_legal q = Ok true -> In m0 l.
Proof.
  intros K p g; induction g as [|a g IH]; intros l m0 q Hl Hin Hmk Hleg; [destruct Hin|].
  cbn [fold_right] in Hl.
  match type of Hl with bind ?r _ = _ => destruct r as [l0| |] eqn:El0; cbn [bind] in Hl; try discriminate end.
  destruct (make_move K p a) as [qa| |] eqn:Ea; cbn [bind] in Hl; try discriminate.
  destruct (is_legal qa) as [ok| |] eqn:Eok; cbn [bind] in Hl; try discriminate.
  inversion Hl; subst l. destruct Hin as [->|Hin].
  - rewrite Hmk in Ea. inversion Ea; subst qa. rewrite Hleg in Eok. inversion Eok; subst ok. left; reflexivity.
  - pose proof (IH l0 m0 q eq_refl Hin Hmk Hleg) as H. destruct ok; [right|]; exact H.
Qed.

Lemma legal_moves_in : forall K p g l m0 q,
  gen_moves p = Ok g -> legal_moves K p = Ok l ->
  In m0 g -> make_move K p m0 = Ok q -> is_legal q = Ok true -> In m0 l.
Proof.
  intros K p g l m0 q Hg Hl Hin Hmk Hleg. unfold legal_moves in Hl. rewrite Hg in Hl. cbn [bind] in Hl.
  eapply legal_fold_in; eauto.
Qed.

(* C04: at a root satisfying the C10 invariant, the answer's move proper is one of the moves
   [legal_moves] (generate, make, keep if legal: what perft and the search enumerate) returns,
   or it is the null move.  Every depth, cancellation point, table, cache, heuristic state. *)
Theorem answer_in_legal_moves : forall K EC OC SC,
  0 <= INF EC <= 32767 ->
  forall iters fuel rep s root req m s' l,
  Inv root -> (req_to_depth SC req < 255)%N -> s_pv s = [] ->
  legal_moves K root = Ok l ->
  search K EC OC SC iters fuel rep s root req = (ROk m, s') ->
  m = NULL_MOVE \/ In (mv_low m) l.
Proof.
  intros K EC OC SC Hinf iters fuel rep s root req m s' l HI Hd Hpv Hl H.
  destruct (answer_legal_or_null K EC OC SC Hinf _ _ _ _ _ _ _ _ Hd Hpv H) as [Hn|[Hg (q & Hmk & Hleg)]];
    [left; exact Hn|right].
  assert (Hg' := Hg). destruct Hg' as (g & m0 & Eg & Hin & E).
  pose proof (gen_moves_low16 root g HI Eg) as H16.
  pose proof (gen_of_low root m g Eg H16 Hg) as Hlow.
  eapply legal_moves_in; eauto. rewrite make_move_low. exact Hmk.
Qed.
