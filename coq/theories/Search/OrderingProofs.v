(* C19 - move ordering only reorders. Proofs over the model in Search/Ordering.v
   (pkg/search/move_ordering.go: scoreMoves; pkg/move/movelist.go: SortIndex and the loops
   `for i := range Length() { SortIndex(i); visit(Get(i)) }`).

   Contents
     A. lists: [upd], [best_from], [sort_index] (one selection step is a transposition),
        [sweep] / [visit_order] (permutation, non-increasing scores, prefix property).
     B. [mv_set_score] touches bits 16..31 only; [score_moves] keeps the low 16 bits of every entry
        in place and stores [score_of] modulo 2^16 in the score field.
     C. generated moves (both generators, under [Inv]) are words below 2^16 whose source square
        holds a piece of the side to move; [score_moves] does not panic on them as long as no move
        targets a king.
     D. the composed statements.

   All lists here are model lists of arbitrary length. The Go MoveList is an array of 255 moves
   indexed by uint8; the correspondence of the model with the Go code (tie ORDER) is therefore a
   statement about lists of length <= 255 (the generators would panic in Append before a longer list
   exists). Nothing below needs that bound. *)
From Coq Require Import NArith ZArith List Bool Lia ZifyBool ZifyN ZifyNat Permutation Sorted FinFun.
From Clemens Require Import Base.Res Base.Word Pos.Types Att.Attacks Pos.Position Pos.Inv.
From Clemens Require Import Pos.CapturesProofs Search.Ordering.
Import ListNotations.
Open Scope N_scope.

(* ------------------------------------------------------------------------------------------ *)
(* A. Lists.                                                                                    *)

Lemma length_upd {A} (l : list A) (i : nat) (v : A) : length (upd l i v) = length l.
Proof. revert i. induction l as [|a l IH]; intros [|i]; cbn [upd length]; auto. Qed.

Lemma nth_error_upd {A} (l : list A) (i : nat) (v : A) (k : nat) :
  nth_error (upd l i v) k =
  if (k =? i)%nat then match nth_error l k with Some _ => Some v | None => None end else nth_error l k.
Proof.
  revert i k. induction l as [|a l IH]; intros i k.
  - destruct i, k; cbn [upd nth_error]; destruct (_ =? _)%nat; reflexivity.
  - destruct i as [|i], k as [|k]; cbn [upd nth_error Nat.eqb]; try reflexivity. apply IH.
Qed.

Lemma nth_error_skipn {A} (l : list A) (n k : nat) : nth_error (skipn n l) k = nth_error l (n + k).
Proof.
  revert l. induction n as [|n IH]; intros [|a l]; cbn [skipn Nat.add nth_error]; auto.
  destruct k; reflexivity.
Qed.

Lemma skipn_nth_error_cons {A} (l : list A) (i : nat) (x : A) :
  nth_error l i = Some x -> skipn i l = x :: skipn (S i) l.
Proof.
  revert l. induction i as [|i IH]; intros [|a l] H; cbn [nth_error] in H; try discriminate.
  - injection H as <-. reflexivity.
  - cbn [skipn]. rewrite (IH l H). reflexivity.
Qed.

Lemma Forall_skipn_nth {A} (P : A -> Prop) (l : list A) (n : nat) :
  Forall P (skipn n l) -> forall k x, (n <= k)%nat -> nth_error l k = Some x -> P x.
Proof.
  intros HF k x Hk Hx. rewrite Forall_forall in HF. apply HF.
  apply (nth_error_In _ (k - n)). rewrite nth_error_skipn. replace (n + (k - n))%nat with k by lia. exact Hx.
Qed.

Lemma nth_error_ext_eq {A} (l l' : list A) : (forall k, nth_error l k = nth_error l' k) -> l = l'.
Proof.
  revert l'. induction l as [|a l IH]; intros [|b l'] H.
  - reflexivity.
  - specialize (H 0%nat). discriminate.
  - specialize (H 0%nat). discriminate.
  - pose proof (H 0%nat) as H0. cbn in H0. injection H0 as <-. f_equal. apply IH. intros k. exact (H (S k)).
Qed.

Lemma nth_error_firstn_lt {A} (l : list A) (n k : nat) : (k < n)%nat -> nth_error (firstn n l) k = nth_error l k.
Proof.
  revert l k. induction n as [|n IH]; intros l k Hk; [lia|].
  destruct l as [|a l]; [reflexivity|]. destruct k as [|k]; [reflexivity|]. cbn [firstn nth_error]. apply IH. lia.
Qed.

Lemma nth_error_firstn_ge {A} (l : list A) (n k : nat) : (n <= k)%nat -> nth_error (firstn n l) k = None.
Proof. intros H. apply nth_error_None. rewrite firstn_length. lia. Qed.

(* the scan of SortIndex: the result is the old best index when no later entry is strictly better,
   otherwise the index of the FIRST maximum of the scanned tail *)
Lemma best_from_spec : forall (t : list N) (a bi : nat) (bs : N) (j : nat),
  j = best_from t a bi bs ->
  (j = bi /\ Forall (fun m => mv_score m <= bs) t) \/
  (exists m, (a <= j)%nat /\ nth_error t (j - a) = Some m /\ bs < mv_score m /\
     Forall (fun x => mv_score x <= mv_score m) t /\
     forall k x, (k < j - a)%nat -> nth_error t k = Some x -> mv_score x < mv_score m).
Proof.
  induction t as [|m r IH]; intros a bi bs j Hj; cbn [best_from] in Hj.
  - left. split; [exact Hj|constructor].
  - destruct (bs <? mv_score m) eqn:E.
    + destruct (IH (S a) a (mv_score m) j Hj) as [[Hja HF]|(m' & Ha & Hn & Hlt & HF & Hfirst)].
      * right. exists m. clear Hj. subst j. split; [lia|]. rewrite Nat.sub_diag. cbn [nth_error].
        split; [reflexivity|]. split; [lia|]. split; [constructor; [lia|exact HF]|]. intros k x Hk. lia.
      * right. exists m'. split; [lia|]. replace (j - a)%nat with (S (j - S a)) by lia. cbn [nth_error].
        split; [exact Hn|]. split; [lia|]. split; [constructor; [lia|exact HF]|].
        intros [|k] x Hk Hx; cbn [nth_error] in Hx.
        -- injection Hx as <-. exact Hlt.
        -- apply (Hfirst k x); [lia|exact Hx].
    + destruct (IH (S a) bi bs j Hj) as [[Hja HF]|(m' & Ha & Hn & Hlt & HF & Hfirst)].
      * left. split; [exact Hja|]. constructor; [lia|exact HF].
      * right. exists m'. split; [lia|]. replace (j - a)%nat with (S (j - S a)) by lia. cbn [nth_error].
        split; [exact Hn|]. split; [exact Hlt|]. split; [constructor; [lia|exact HF]|].
        intros [|k] x Hk Hx; cbn [nth_error] in Hx.
        -- injection Hx as <-. lia.
        -- apply (Hfirst k x); [lia|exact Hx].
Qed.

(* the index map of a transposition of positions i and j *)
Definition transp (i j k : nat) : nat := if (k =? i)%nat then j else if (k =? j)%nat then i else k.
(* [l'] is [l] with the entries at positions i and j exchanged *)
Definition swapped (l l' : list N) (i j : nat) : Prop :=
  forall k, nth_error l' k = nth_error l (transp i j k).

Lemma sort_index_length (l : list N) (i : nat) : length (sort_index l i) = length l.
Proof.
  unfold sort_index. destruct (nth_error l i) as [cur|]; [|reflexivity].
  destruct (nth_error l _) as [b|]; [|reflexivity]. rewrite !length_upd. reflexivity.
Qed.

(* one call of SortIndex(i), i < Length(): entries i and j are exchanged, where j >= i is the first
   position of a maximal score among positions i, i+1, ... *)
Lemma sort_index_spec (l : list N) (i : nat) : (i < length l)%nat ->
  exists j cur b, (i <= j < length l)%nat /\ nth_error l i = Some cur /\ nth_error l j = Some b /\
    swapped l (sort_index l i) i j /\
    mv_score cur <= mv_score b /\
    (forall k x, (i < k)%nat -> nth_error l k = Some x -> mv_score x <= mv_score b) /\
    (forall k x, (i <= k < j)%nat -> nth_error l k = Some x -> mv_score x < mv_score b).
Proof.
  intros Hi. destruct (nth_error l i) as [cur|] eqn:Ec; [|apply nth_error_None in Ec; lia].
  unfold sort_index. rewrite Ec.
  destruct (best_from_spec (skipn (S i) l) (S i) i (mv_score cur) _ eq_refl)
    as [[Hj HF]|(m & Ha & Hn & Hlt & HF & Hfirst)].
  - rewrite Hj, Ec. exists i, cur, cur. split; [lia|]. split; [reflexivity|]. split; [exact Ec|].
    split; [|split; [lia|split]].
    + intros k. unfold transp. rewrite !nth_error_upd. destruct (Nat.eqb_spec k i) as [->|Hk]; [|reflexivity].
      rewrite Ec. reflexivity.
    + intros k x Hk Hx. exact (Forall_skipn_nth _ l (S i) HF k x Hk Hx).
    + intros k x Hk. lia.
  - set (j := best_from (skipn (S i) l) (S i) i (mv_score cur)) in *.
    rewrite nth_error_skipn in Hn. replace (S i + (j - S i))%nat with j in Hn by lia. rewrite Hn.
    assert (Hjl : (j < length l)%nat) by (apply nth_error_Some; congruence).
    exists j, cur, m. split; [lia|]. split; [reflexivity|]. split; [exact Hn|].
    split; [|split; [lia|split]].
    + intros k. unfold transp. rewrite !nth_error_upd.
      destruct (Nat.eqb_spec k j) as [->|Hkj].
      * destruct (Nat.eqb_spec j i) as [->|_]; [lia|]. rewrite Hn, Ec. reflexivity.
      * destruct (Nat.eqb_spec k i) as [->|Hki]; [|reflexivity]. rewrite Ec, Hn. reflexivity.
    + intros k x Hk Hx. exact (Forall_skipn_nth _ l (S i) HF k x Hk Hx).
    + intros k x Hk Hx. destruct (Nat.eq_dec k i) as [->|Hki].
      * rewrite Ec in Hx. injection Hx as <-. exact Hlt.
      * apply (Hfirst (k - S i)%nat x); [lia|]. rewrite nth_error_skipn.
        replace (S i + (k - S i))%nat with k by lia. exact Hx.
Qed.

Lemma transp_ge (n i j k : nat) : (n <= i)%nat -> (n <= j)%nat -> (n <= transp i j (n + k))%nat.
Proof. intros Hi Hj. unfold transp. destruct (_ =? i)%nat; [lia|]. destruct (_ =? j)%nat; lia. Qed.

(* a transposition of two positions >= n permutes the tail from n on (n = 0: the whole list) *)
Lemma swapped_skipn_perm (l l' : list N) (i j n : nat) :
  length l' = length l -> (n <= i)%nat -> (n <= j)%nat -> swapped l l' i j ->
  Permutation (skipn n l) (skipn n l').
Proof.
  intros Hlen Hi Hj Hsw. apply Permutation_nth_error. split; [rewrite !skipn_length; lia|].
  exists (fun k => (transp i j (n + k) - n)%nat). split.
  - intros x y. pose proof (transp_ge n i j x Hi Hj). pose proof (transp_ge n i j y Hi Hj).
    unfold transp in *.
    destruct (Nat.eqb_spec (n + x) i), (Nat.eqb_spec (n + x) j),
             (Nat.eqb_spec (n + y) i), (Nat.eqb_spec (n + y) j); lia.
  - intros k. rewrite !nth_error_skipn, Hsw. f_equal. pose proof (transp_ge n i j k Hi Hj). lia.
Qed.

(* C19, one step: SortIndex only exchanges two entries *)
Theorem sort_index_perm (l : list N) (i : nat) : (i < length l)%nat -> Permutation (sort_index l i) l.
Proof.
  intros Hi. destruct (sort_index_spec l i Hi) as (j & cur & b & Hj & _ & _ & Hsw & _).
  symmetry. apply (swapped_skipn_perm l (sort_index l i) i j 0); [apply sort_index_length|lia|lia|exact Hsw].
Qed.

(* for an index outside the list SortIndex is the identity (the loops never do that) *)
Lemma sort_index_out (l : list N) (i : nat) : (length l <= i)%nat -> sort_index l i = l.
Proof. intros H. unfold sort_index. apply nth_error_None in H. rewrite H. reflexivity. Qed.

Theorem sort_index_perm_any (l : list N) (i : nat) : Permutation (sort_index l i) l.
Proof.
  destruct (Nat.lt_ge_cases i (length l)) as [H|H]; [apply sort_index_perm; exact H|].
  rewrite sort_index_out by exact H. reflexivity.
Qed.

(* entries before i (the moves already visited) stay where they are *)
Theorem sort_index_prefix_nth (l : list N) (i k : nat) :
  (k < i)%nat -> nth_error (sort_index l i) k = nth_error l k.
Proof.
  intros Hk. destruct (Nat.lt_ge_cases i (length l)) as [Hi|Hi]; [|rewrite sort_index_out by exact Hi; reflexivity].
  destruct (sort_index_spec l i Hi) as (j & cur & b & Hj & _ & _ & Hsw & _).
  rewrite Hsw. unfold transp.
  destruct (Nat.eqb_spec k i); [lia|]. destruct (Nat.eqb_spec k j); [lia|]. reflexivity.
Qed.

Theorem sort_index_prefix (l : list N) (i : nat) : firstn i (sort_index l i) = firstn i l.
Proof.
  apply nth_error_ext_eq. intros k. destruct (Nat.lt_ge_cases k i) as [Hk|Hk].
  - rewrite !nth_error_firstn_lt by exact Hk. apply sort_index_prefix_nth. exact Hk.
  - rewrite !nth_error_firstn_ge by exact Hk. reflexivity.
Qed.

(* after the step the entry at i has a score >= every later entry *)
Theorem sort_index_max (l : list N) (i k : nat) (x y : N) :
  (i < k)%nat -> nth_error (sort_index l i) i = Some y -> nth_error (sort_index l i) k = Some x ->
  mv_score x <= mv_score y.
Proof.
  intros Hk Hy Hx.
  assert (Hi : (i < length l)%nat).
  { rewrite <- (sort_index_length l i). apply nth_error_Some. congruence. }
  destruct (sort_index_spec l i Hi) as (j & cur & b & Hj & Hc & Hb & Hsw & Hcb & Hmax & _).
  rewrite Hsw in Hy, Hx. unfold transp in Hy, Hx. rewrite Nat.eqb_refl in Hy.
  rewrite Hb in Hy. injection Hy as <-.
  destruct (Nat.eqb_spec k i); [lia|]. destruct (Nat.eqb_spec k j) as [->|Hkj].
  - rewrite Hc in Hx. injection Hx as <-. exact Hcb.
  - exact (Hmax k x Hk Hx).
Qed.

(* ... and it is the FIRST entry of maximal score among positions >= i of the list before the step
   (SortIndex replaces only on strictly greater): the visiting order is deterministic *)
Theorem sort_index_first_max (l : list N) (i : nat) : (i < length l)%nat ->
  exists j b, (i <= j)%nat /\ nth_error l j = Some b /\ nth_error (sort_index l i) i = Some b /\
    (forall k x, (i <= k)%nat -> nth_error l k = Some x -> mv_score x <= mv_score b) /\
    (forall k x, (i <= k < j)%nat -> nth_error l k = Some x -> mv_score x < mv_score b).
Proof.
  intros Hi. destruct (sort_index_spec l i Hi) as (j & cur & b & Hj & Hc & Hb & Hsw & Hcb & Hmax & Hfirst).
  exists j, b. split; [lia|]. split; [exact Hb|]. split; [|split; [|exact Hfirst]].
  - rewrite Hsw. unfold transp. rewrite Nat.eqb_refl. exact Hb.
  - intros k x Hk Hx. destruct (Nat.eq_dec k i) as [->|Hki].
    + rewrite Hc in Hx. injection Hx as <-. exact Hcb.
    + apply (Hmax k x); [lia|exact Hx].
Qed.

(* the sweep *)
Definition score_ge (a b : N) : Prop := mv_score b <= mv_score a.

Lemma sweep_step (f : nat) (l : list N) (i : nat) : (i < length l)%nat ->
  exists b, nth_error (sort_index l i) i = Some b /\ sweep (S f) l i = b :: sweep f (sort_index l i) (S i).
Proof.
  intros Hi. destruct (nth_error (sort_index l i) i) as [b|] eqn:E.
  - exists b. split; [reflexivity|]. cbn [sweep]. rewrite E. reflexivity.
  - apply nth_error_None in E. rewrite sort_index_length in E. lia.
Qed.

Lemma sweep_perm : forall (f : nat) (l : list N) (i : nat),
  f = (length l - i)%nat -> Permutation (sweep f l i) (skipn i l).
Proof.
  induction f as [|f IH]; intros l i Hf.
  - cbn [sweep]. rewrite skipn_all2 by lia. constructor.
  - assert (Hi : (i < length l)%nat) by lia.
    destruct (sweep_step f l i Hi) as (b & Hb & ->).
    destruct (sort_index_spec l i Hi) as (j & cur & b' & Hj & _ & _ & Hsw & _).
    transitivity (skipn i (sort_index l i)).
    + rewrite (skipn_nth_error_cons _ _ _ Hb). constructor. apply IH. rewrite sort_index_length. lia.
    + symmetry. apply (swapped_skipn_perm l (sort_index l i) i j i);
        [apply sort_index_length|lia|lia|exact Hsw].
Qed.

Lemma sweep_sorted : forall (f : nat) (l : list N) (i : nat),
  f = (length l - i)%nat -> StronglySorted score_ge (sweep f l i).
Proof.
  induction f as [|f IH]; intros l i Hf.
  - cbn [sweep]. constructor.
  - assert (Hi : (i < length l)%nat) by lia.
    destruct (sweep_step f l i Hi) as (b & Hb & ->).
    assert (Hf' : f = (length (sort_index l i) - S i)%nat) by (rewrite sort_index_length; lia).
    constructor; [apply IH; exact Hf'|].
    rewrite Forall_forall. intros x Hx.
    apply (Permutation_in _ (sweep_perm f (sort_index l i) (S i) Hf')) in Hx.
    apply In_nth_error in Hx. destruct Hx as [k Hk]. rewrite nth_error_skipn in Hk.
    unfold score_ge. apply (sort_index_max l i (S i + k) x b); [lia|exact Hb|exact Hk].
Qed.

(* C19: the visiting order is a permutation of the list - for EVERY list *)
Theorem visit_order_perm (l : list N) : Permutation (visit_order l) l.
Proof. unfold visit_order. apply (sweep_perm (length l) l 0). lia. Qed.

Theorem visit_order_length (l : list N) : length (visit_order l) = length l.
Proof. apply Permutation_length, visit_order_perm. Qed.

(* C19: ... visited in non-increasing score order (every earlier move has a score >= every later one) *)
Theorem visit_order_sorted (l : list N) : StronglySorted score_ge (visit_order l).
Proof. unfold visit_order. apply sweep_sorted. lia. Qed.

(* the adjacent-pairs form *)
Corollary visit_order_sorted_adjacent (l : list N) : Sorted score_ge (visit_order l).
Proof. apply StronglySorted_Sorted, visit_order_sorted. Qed.

Corollary visit_order_sorted_nth (l : list N) (a b : nat) (x y : N) :
  (a < b)%nat -> nth_error (visit_order l) a = Some x -> nth_error (visit_order l) b = Some y ->
  mv_score y <= mv_score x.
Proof.
  intros Hab. generalize (visit_order_sorted l). generalize (visit_order l). intros v Hs. revert a b Hab.
  induction Hs as [|z v Hs IH HF]; intros a b Hab Ha Hb.
  - destruct a; discriminate.
  - destruct b as [|b]; [lia|]. cbn [nth_error] in Hb. destruct a as [|a]; cbn [nth_error] in Ha.
    + injection Ha as <-. rewrite Forall_forall in HF. exact (HF y (nth_error_In _ _ Hb)).
    + apply (IH a b); [lia|exact Ha|exact Hb].
Qed.

(* Partial traversal (the search leaves the loop at a beta cutoff after k iterations): the moves
   visited so far are the first k of the full visiting order *)
Lemma sweep_firstn : forall (k n : nat) (l : list N) (i : nat),
  sweep k l i = firstn k (sweep (k + n) l i).
Proof.
  induction k as [|k IH]; intros n l i; [reflexivity|].
  cbn [sweep Nat.add]. destruct (nth_error (sort_index l i) i) as [m|]; [|reflexivity].
  cbn [firstn]. f_equal. apply IH.
Qed.

Theorem sweep_prefix (l : list N) (k : nat) :
  (k <= length l)%nat -> sweep k l 0 = firstn k (visit_order l).
Proof.
  intros Hk. unfold visit_order. rewrite (sweep_firstn k (length l - k)).
  replace (k + (length l - k))%nat with (length l) by lia. reflexivity.
Qed.

Corollary sweep_prefix_length (l : list N) (k : nat) : (k <= length l)%nat -> length (sweep k l 0) = k.
Proof. intros Hk. rewrite sweep_prefix by exact Hk. apply firstn_length_le. rewrite visit_order_length. exact Hk. Qed.

(* ... hence a sub-multiset of the list: together with the moves not yet visited they are the list *)
Corollary sweep_prefix_submultiset (l : list N) (k : nat) :
  (k <= length l)%nat -> Permutation (sweep k l 0 ++ skipn k (visit_order l)) l.
Proof.
  intros Hk. rewrite sweep_prefix by exact Hk. rewrite firstn_skipn. apply visit_order_perm.
Qed.

Corollary sweep_prefix_sorted (l : list N) (k : nat) :
  (k <= length l)%nat -> StronglySorted score_ge (sweep k l 0).
Proof.
  intros Hk. rewrite sweep_prefix by exact Hk.
  generalize (visit_order_sorted l). generalize (visit_order l). intros v Hs. revert k Hk.
  induction Hs as [|z v Hs IH HF]; intros k Hk.
  - rewrite firstn_nil. constructor.
  - destruct k as [|k]; [constructor|]. cbn [firstn]. constructor; [apply IH; lia|].
    rewrite Forall_forall in *. intros x Hx. apply HF.
    rewrite <- (firstn_skipn k v). apply in_or_app. left. exact Hx.
Qed.

(* every move not yet visited scores at most as much as every move visited so far *)
Corollary sweep_prefix_dominates (l : list N) (k : nat) (x y : N) :
  (k <= length l)%nat -> In x (sweep k l 0) -> In y (skipn k (visit_order l)) -> mv_score y <= mv_score x.
Proof.
  intros Hk Hx Hy. rewrite sweep_prefix in Hx by exact Hk.
  apply In_nth_error in Hx. destruct Hx as [a Ha]. apply In_nth_error in Hy. destruct Hy as [b Hb].
  assert (Hak : (a < k)%nat).
  { assert (H : nth_error (firstn k (visit_order l)) a <> None) by congruence.
    apply nth_error_Some in H. rewrite firstn_length in H. lia. }
  rewrite nth_error_firstn_lt in Ha by exact Hak. rewrite nth_error_skipn in Hb.
  apply (visit_order_sorted_nth l a (k + b) x y); [lia|exact Ha|exact Hb].
Qed.

(* ------------------------------------------------------------------------------------------ *)
(* B. SetScore and scoreMoves.                                                                  *)

Lemma tb_65535 (n : N) : N.testbit 65535 n = (n <? 16).
Proof.
  change 65535 with (N.ones 16). destruct (N.ltb_spec n 16) as [H|H].
  - apply N.ones_spec_low. exact H.
  - apply N.ones_spec_high. exact H.
Qed.

Lemma tb_mask32 (n : N) : N.testbit 4294967295 n = (n <? 32).
Proof.
  change 4294967295 with (N.ones 32). destruct (N.ltb_spec n 32) as [H|H].
  - apply N.ones_spec_low. exact H.
  - apply N.ones_spec_high. exact H.
Qed.

(* SetScore leaves source, target, kind and promotion piece alone - for every move word and score *)
Lemma mv_low_set_score (m s : N) : mv_low (mv_set_score m s) = mv_low m.
Proof.
  unfold mv_low, mv_set_score, w32. apply N.bits_inj. intros n.
  rewrite !N.land_spec, N.lor_spec, N.land_spec, tb_65535.
  destruct (N.ltb_spec n 16) as [H|H].
  - rewrite N.shiftl_spec_low by exact H. cbn [andb]. rewrite orb_false_r. reflexivity.
  - rewrite !andb_false_r. reflexivity.
Qed.

(* ... and ORs the score, truncated to 16 bits, into the score field *)
Lemma mv_score_set_score (m s : N) : mv_score (mv_set_score m s) = N.lor (mv_score m) (s mod 65536).
Proof.
  unfold mv_score, mv_set_score, w32. change 65536 with (2 ^ 16). rewrite <- N.land_ones.
  change (N.ones 16) with 65535.
  apply N.bits_inj. intros n.
  rewrite N.lor_spec, !N.land_spec, !N.shiftr_spec', N.lor_spec, N.land_spec, tb_65535, tb_mask32.
  destruct (N.ltb_spec n 16) as [H|H].
  - rewrite N.shiftl_spec_high' by lia. replace (n + 16 - 16) with n by lia.
    replace (n + 16 <? 32) with true by lia. rewrite !andb_true_r. reflexivity.
  - rewrite !andb_false_r. reflexivity.
Qed.

Lemma lt16_score0 (m : N) : m < 65536 -> mv_score m = 0.
Proof.
  intros H. unfold mv_score. rewrite N.shiftr_div_pow2. change (2 ^ 16) with 65536.
  rewrite N.div_small by exact H. reflexivity.
Qed.

Lemma lt16_low (m : N) : m < 65536 -> mv_low m = m.
Proof.
  intros H. unfold mv_low. change 65535 with (N.ones 16). rewrite N.land_ones.
  apply N.mod_small. exact H.
Qed.

Lemma mv_low_lt (m : N) : mv_low m < 65536.
Proof.
  unfold mv_low. change 65535 with (N.ones 16). rewrite N.land_ones. apply N.mod_lt. discriminate.
Qed.

(* the squares are read from the low 16 bits *)
Lemma mv_src_low (m : N) : mv_src (mv_low m) = mv_src m.
Proof.
  unfold mv_src, mv_low. apply N.bits_inj. intros n. rewrite !N.land_spec, tb_65535.
  change 63 with (N.ones 6). destruct (N.ltb_spec n 6) as [H|H].
  - rewrite N.ones_spec_low by exact H. replace (n <? 16) with true by lia. rewrite !andb_true_r. reflexivity.
  - rewrite N.ones_spec_high by exact H. rewrite !andb_false_r. reflexivity.
Qed.
Lemma mv_dst_low (m : N) : mv_dst (mv_low m) = mv_dst m.
Proof.
  unfold mv_dst, mv_low. apply N.bits_inj. intros n. rewrite !N.land_spec, !N.shiftr_spec', N.land_spec, tb_65535.
  change 63 with (N.ones 6). destruct (N.ltb_spec n 6) as [H|H].
  - rewrite N.ones_spec_low by exact H. replace (n + 6 <? 16) with true by lia. rewrite !andb_true_r. reflexivity.
  - rewrite N.ones_spec_high by exact H. rewrite !andb_false_r. reflexivity.
Qed.
Lemma mv_kind_low (m : N) : mv_kind (mv_low m) = mv_kind m.
Proof.
  unfold mv_kind, mv_low. apply N.bits_inj. intros n. rewrite !N.land_spec, !N.shiftr_spec', N.land_spec, tb_65535.
  change 3 with (N.ones 2). destruct (N.ltb_spec n 2) as [H|H].
  - rewrite N.ones_spec_low by exact H. replace (n + 12 <? 16) with true by lia. rewrite !andb_true_r. reflexivity.
  - rewrite N.ones_spec_high by exact H. rewrite !andb_false_r. reflexivity.
Qed.
Lemma mv_promo_low (m : N) : mv_promo (mv_low m) = mv_promo m.
Proof.
  unfold mv_promo, mv_low. f_equal. apply N.bits_inj. intros n.
  rewrite !N.land_spec, !N.shiftr_spec', N.land_spec, tb_65535.
  change 3 with (N.ones 2). destruct (N.ltb_spec n 2) as [H|H].
  - rewrite N.ones_spec_low by exact H. replace (n + 14 <? 16) with true by lia. rewrite !andb_true_r. reflexivity.
  - rewrite N.ones_spec_high by exact H. rewrite !andb_false_r. reflexivity.
Qed.

Section Scoring.
Variable C : oconsts.
Variable p : position.
Variable h : hctx.

(* the relation between the generated list and the list after scoreMoves, entry by entry *)
Definition scored_as (m m' : N) : Prop :=
  exists s, score_of C p h m = Ok s /\ m' = mv_set_score m s.

Lemma score_moves_spec (ms ms' : list N) :
  score_moves C p h ms = Ok ms' -> Forall2 scored_as ms ms'.
Proof.
  revert ms'. induction ms as [|m ms IH]; intros ms' H.
  - cbn in H. injection H as <-. constructor.
  - unfold score_moves in H. cbn [fold_right] in H. fold (score_moves C p h ms) in H.
    apply bind_ok in H. destruct H as (l & Hl & H).
    apply bind_ok in H. destruct H as (s & Hs & H). injection H as <-.
    constructor; [exists s; split; [exact Hs|reflexivity]|apply IH; exact Hl].
Qed.

(* conversely: scoreMoves fails only if scoring one of the entries fails *)
Lemma score_moves_total (ms : list N) :
  (forall m, In m ms -> exists s, score_of C p h m = Ok s) -> exists ms', score_moves C p h ms = Ok ms'.
Proof.
  induction ms as [|m ms IH]; intros H.
  - exists []. reflexivity.
  - destruct IH as [l Hl]; [intros x Hx; apply H; right; exact Hx|].
    destruct (H m (or_introl eq_refl)) as [s Hs].
    exists (mv_set_score m s :: l). unfold score_moves in *. cbn [fold_right]. rewrite Hl. cbn [bind].
    rewrite Hs. reflexivity.
Qed.

(* C19: scoring changes no source, target, kind or promotion piece, entry by entry, whatever the
   list and the heuristic state are *)
Theorem score_preserves_low (ms ms' : list N) :
  score_moves C p h ms = Ok ms' -> map mv_low ms' = map mv_low ms.
Proof.
  intros H. apply score_moves_spec in H. induction H as [|m m' ms ms' (s & _ & ->) _ IH]; [reflexivity|].
  cbn [map]. rewrite mv_low_set_score, IH. reflexivity.
Qed.

Theorem score_preserves_length (ms ms' : list N) :
  score_moves C p h ms = Ok ms' -> length ms' = length ms.
Proof.
  intros H. apply score_moves_spec in H. induction H as [|? ? ? ? _ _ IH]; [reflexivity|].
  cbn [length]. rewrite IH. reflexivity.
Qed.

Definition unscored (m : N) : Prop := mv_score m = 0 /\ m < 65536.

Lemma map_low_unscored (ms : list N) : Forall unscored ms -> map mv_low ms = ms.
Proof.
  induction 1 as [|m ms [_ Hm] _ IH]; [reflexivity|]. cbn [map]. rewrite IH, lt16_low by exact Hm. reflexivity.
Qed.

(* for a list as the generators produce it: stripping the score bits gives the generated list back,
   and the score field of every entry holds [score_of] of the generated move (modulo 2^16: SetScore
   takes a uint16) *)
Theorem score_preserves (ms ms' : list N) :
  score_moves C p h ms = Ok ms' -> Forall unscored ms ->
  map mv_low ms' = ms /\
  Forall2 (fun m m' => exists s, score_of C p h m = Ok s /\ mv_score m' = s mod 65536) ms ms'.
Proof.
  intros H Hu. split.
  - rewrite (score_preserves_low ms ms' H). apply map_low_unscored. exact Hu.
  - apply score_moves_spec in H. induction H as [|m m' ms ms' (s & Hs & ->) _ IH]; [constructor|].
    inversion Hu as [|? ? [Hm0 _] Hu']; subst. constructor; [|apply IH; exact Hu'].
    exists s. split; [exact Hs|]. rewrite mv_score_set_score, Hm0. apply N.lor_0_l.
Qed.

(* when is the stored score the value itself? all the constants fit 16 bits (and the table has the
   Go array's shape: 5 victim rows of 6 aggressors), and the history values are uint16 *)
Definition oconsts_ok : bool :=
  (oc_pv C <? 65536) && (oc_tt C <? 65536) && (oc_killer C <? 65536) && (oc_promo C <? 65536) &&
  (oc_counter_bonus C <? 65536) && (length (oc_mvv_lva C) =? 5)%nat &&
  forallb (fun r => (length r =? 6)%nat && forallb (fun v => v <? 65536) r) (oc_mvv_lva C).
Definition hctx_ok : Prop := forall a b, h_history h a b < 65536.

Lemma w16_lt (x : N) : w16 x < 65536.
Proof. unfold w16. apply N.mod_lt. discriminate. Qed.

Lemma score_of_bound (m s : N) : oconsts_ok = true -> hctx_ok -> score_of C p h m = Ok s -> s < 65536.
Proof.
  unfold oconsts_ok. rewrite !andb_true_iff, !N.ltb_lt. intros [[[[[[Hpv Htt] Hk] Hpr] _] _] _] Hh.
  unfold score_of.
  destruct (m =? h_pv h); [intros [= <-]; exact Hpv|].
  destruct (m =? h_tt h); [intros [= <-]; exact Htt|].
  intros H. apply bind_ok in H. destruct H as (target & _ & H).
  destruct (target =? NO_PIECE).
  - destruct (mv_kind m =? PROMOTION); [injection H as <-; exact Hpr|].
    destruct (m =? h_killer0 h); [injection H as <-; exact Hk|].
    destruct (m =? h_killer1 h); [injection H as <-; lia|].
    injection H as <-. destruct (_ =? m); [apply w16_lt|apply Hh].
  - apply bind_ok in H. destruct H as (source & _ & H).
    apply bind_ok in H. destruct H as (row & _ & H).
    apply bind_ok in H. destruct H as (v & _ & H). injection H as <-. apply w16_lt.
Qed.

Corollary score_preserves_exact (ms ms' : list N) :
  oconsts_ok = true -> hctx_ok ->
  score_moves C p h ms = Ok ms' -> Forall unscored ms ->
  Forall2 (fun m m' => score_of C p h m = Ok (mv_score m')) ms ms'.
Proof.
  intros HC Hh H Hu. destruct (score_preserves ms ms' H Hu) as [_ HF]. clear H Hu.
  induction HF as [|m m' ms0 ms0' (s & Hs & Hm') _ IH]; [constructor|]. constructor; [|exact IH].
  rewrite Hm', N.mod_small by (apply (score_of_bound m s HC Hh Hs)). exact Hs.
Qed.

End Scoring.

(* ------------------------------------------------------------------------------------------ *)
(* C. What the generators produce.                                                              *)

(* the four ways the generators build a move word from a source and a target square *)
Inductive move_shape (s t : N) : N -> Prop :=
| sh_move : move_shape s t (mk_move s t)
| sh_promo (pt : N) : In pt promo_types -> move_shape s t (mk_promo s t pt)
| sh_ep : move_shape s t (mk_move_kind s t EN_PASSANT)
| sh_castle : move_shape s t (castle_mv s t).

(* finite check over all 64 x 64 square pairs: each constructor gives a word below 2^16 (score bits
   0) whose source and target fields are the arguments *)
Definition word_ok (s t m : N) : bool :=
  (m <? 65536) && (mv_score m =? 0) && (mv_src m =? s) && (mv_dst m =? t).
Definition ctor_check (s t : N) : bool :=
  word_ok s t (mk_move s t) && forallb (fun pt => word_ok s t (mk_promo s t pt)) promo_types &&
  word_ok s t (mk_move_kind s t EN_PASSANT) && word_ok s t (castle_mv s t).

Lemma ctor_check_all :
  forallb (fun s => forallb (fun t => ctor_check s t) squares64) squares64 = true.
Proof. vm_compute. reflexivity. Qed.

Lemma ctor_ok (s t : N) : s < 64 -> t < 64 -> ctor_check s t = true.
Proof.
  intros Hs Ht. generalize ctor_check_all. rewrite forallb_forall. intros H.
  specialize (H s (in_squares64 s Hs)). rewrite forallb_forall in H.
  exact (H t (in_squares64 t Ht)).
Qed.

(* C19: the move constructors leave the score bits 0 - unconditionally for squares < 64 *)
Theorem constructors_unscored (s t m : N) :
  s < 64 -> t < 64 -> move_shape s t m ->
  m < 65536 /\ mv_score m = 0 /\ mv_src m = s /\ mv_dst m = t.
Proof.
  intros Hs Ht Hm. pose proof (ctor_ok s t Hs Ht) as H. unfold ctor_check in H.
  rewrite !andb_true_iff in H. destruct H as [[[H1 H2] H3] H4].
  assert (Hok : forall x, word_ok s t x = true ->
                x < 65536 /\ mv_score x = 0 /\ mv_src x = s /\ mv_dst x = t).
  { intros x Hx. unfold word_ok in Hx. rewrite !andb_true_iff, N.ltb_lt, !N.eqb_eq in Hx. tauto. }
  destruct Hm as [|pt Hpt| |].
  - apply Hok, H1.
  - rewrite forallb_forall in H2. apply Hok, (H2 pt Hpt).
  - apply Hok, H3.
  - apply Hok, H4.
Qed.

(* a generated move: built by one of the constructors from squares on the board, the source square
   holding a piece of the side to move *)
Definition generated_from (p : position) (m : N) : Prop :=
  exists s t ty, s < 64 /\ t < 64 /\ ty < 6 /\ piece_at p s = new_piece (side p) ty /\ move_shape s t m.

Lemma pmwp_shape (stm s t m : N) : In m (pawn_move_with_promotion stm s t) -> move_shape s t m.
Proof.
  unfold pawn_move_with_promotion.
  destruct (_ && _); [intros [<-|[]]; constructor|].
  destruct (_ && _); [intros [<-|[]]; constructor|].
  rewrite in_map_iff. intros (pt & <- & Hpt). constructor. exact Hpt.
Qed.

Section Generated.
Variable p : position.
Hypothesis F : facts p.

Lemma bb_piece (ty x s : N) :
  ty < 6 -> get_bb p (side p) ty = Ok x -> In s (bits x) -> s < 64 /\ piece_at p s = new_piece (side p) ty.
Proof.
  intros Hty Hx Hs. pose proof (side_lt p F) as Hside.
  pose proof (get_bb_bits_lt p F (side p) ty x s Hside Hty Hx Hs) as Hs64. split; [exact Hs64|].
  apply (get_bb_at p) in Hx; [|assumption..]. subst x.
  apply bits_in in Hs. rewrite (proj2 (F_bb p F (side p) ty Hside Hty) s Hs64) in Hs.
  apply N.eqb_eq. exact Hs.
Qed.

Lemma gen_helper_generated (ty x occ dest : N) (att : N -> N -> N) (m : N) :
  ty < 6 -> get_bb p (side p) ty = Ok x -> (forall t, N.testbit dest t = true -> t < 64) ->
  In m (gen_helper x occ dest att) -> generated_from p m.
Proof.
  intros Hty Hx Hd Hm. unfold gen_helper in Hm. apply in_flat_map in Hm. destruct Hm as (s & Hs & Hm).
  apply in_map_iff in Hm. destruct Hm as (t & <- & Ht).
  apply bits_in in Ht. rewrite N.land_spec in Ht. apply andb_true_iff in Ht. destruct Ht as [_ Ht].
  destruct (bb_piece ty x s Hty Hx Hs) as [Hs64 Hpc].
  exists s, t, ty. repeat split; try assumption; [apply Hd; exact Ht|constructor].
Qed.

Lemma pawn_moves_generated (co : bool) (pawns them m : N) :
  get_bb p (side p) PAWN = Ok pawns -> (forall t, N.testbit them t = true -> t < 64) ->
  In m (pawn_moves p co pawns them) -> generated_from p m.
Proof.
  intros Hx Hthem Hm. unfold pawn_moves in Hm. apply in_flat_map in Hm. destruct Hm as (s & Hs & Hm).
  destruct (bb_piece PAWN pawns s eq_refl Hx Hs) as [Hs64 Hpc].
  assert (Hgen : forall t, t < 64 -> move_shape s t m -> generated_from p m).
  { intros t Ht Hsh. exists s, t, PAWN. repeat split; assumption. }
  rewrite !in_app_iff in Hm. destruct Hm as [Hm|[Hm|Hm]].
  - destruct co; [destruct Hm|]. apply in_flat_map in Hm. destruct Hm as (t & Ht & Hm).
    apply bits_in, pushes_empty, not64_true in Ht. apply (Hgen t); [tauto|]. exact (pmwp_shape _ _ _ _ Hm).
  - apply in_flat_map in Hm. destruct Hm as (t & Ht & Hm).
    apply bits_in in Ht. rewrite N.land_spec in Ht. apply andb_true_iff in Ht. destruct Ht as [_ Ht].
    apply (Hgen t); [apply Hthem; exact Ht|]. exact (pmwp_shape _ _ _ _ Hm).
  - destruct (negb (ep p =? SQ_NONE)); [|destruct Hm].
    apply in_map_iff in Hm. destruct Hm as (t & <- & Ht).
    apply bits_in in Ht. rewrite N.land_spec in Ht. apply andb_true_iff in Ht. destruct Ht as [_ Ht].
    apply (Hgen t); [exact (bit_true _ _ Ht)|constructor].
Qed.

(* castling: the king's square is on the board, and so is the target, because the walk of
   CanCastleNow read the board there *)
Lemma castling_moves_generated (cm : list N) :
  castling_moves p = Ok cm -> forall m, In m cm -> generated_from p m.
Proof.
  unfold castling_moves.
  set (body := fun (acc : res (list N)) (c : N) => bind acc _).
  assert (Hstep : forall acc c l1,
            (forall l, acc = Ok l -> forall m, In m l -> generated_from p m) ->
            body acc c = Ok l1 -> forall m, In m l1 -> generated_from p m).
  { intros acc c l1 Hacc. unfold body. intros H.
    apply bind_ok in H. destruct H as (l & -> & H). specialize (Hacc l eq_refl).
    destruct (negb (castling_color c =? side p)); [injection H as <-; exact Hacc|].
    apply bind_ok in H. destruct H as (ok & Hok & H).
    destruct ok; cbn [negb] in H; [|injection H as <-; exact Hacc].
    apply bind_ok in H. destruct H as (kb & Hkb & H).
    apply bind_ok in H. destruct H as (src & Hsrc & H).
    injection H as <-.
    apply can_castle_now_true in Hok. destruct Hok as (kb' & sq' & Hkb' & Hsq' & Hw).
    rewrite Hkb in Hkb'. injection Hkb' as <-. rewrite Hsrc in Hsq'. injection Hsq' as <-.
    destruct (bb_piece KING kb src eq_refl Hkb) as [Hs64 Hpc]; [apply bits_in, lsb_testbit; exact Hsrc|].
    set (q := castling_is_queen_side c) in *.
    apply castle_walk_step in Hw; [|destruct q; reflexivity]. destruct Hw as [_ Hw].
    apply castle_walk_step in Hw; [|destruct q; reflexivity]. destruct Hw as [Hp _].
    assert (Edst : castle_step q (castle_step q src) = if q then sub8 src 2 else add8 src 2).
    { unfold castle_step. destruct q; [apply sub8_twice|apply add8_twice]. }
    rewrite Edst in Hp. apply (get_piece_ok p F) in Hp. destruct Hp as [Hd64 _].
    intros m Hm. apply in_app_iff in Hm. destruct Hm as [Hm|[<-|[]]]; [apply Hacc; exact Hm|].
    exists src, (if q then sub8 src 2 else add8 src 2), KING.
    repeat split; try assumption. exact (sh_castle src _). }
  clearbody body.
  assert (Hfold : forall cl acc l1,
            (forall l, acc = Ok l -> forall m, In m l -> generated_from p m) ->
            fold_left body cl acc = Ok l1 -> forall m, In m l1 -> generated_from p m).
  { induction cl as [|c cl IH]; intros acc l1 Hacc H; cbn [fold_left] in H.
    - apply Hacc. exact H.
    - apply (IH (body acc c) l1); [|exact H]. intros l Hl. apply (Hstep acc c l Hacc Hl). }
  intros H. apply (Hfold [WK; WQ; BK; BQ] (Ok []) cm); [|exact H].
  intros l E. injection E as <-. intros m [].
Qed.

Lemma not64_lt (x t : N) : N.testbit (not64 x) t = true -> t < 64.
Proof. intros H. apply not64_true in H. tauto. Qed.

Lemma gen_moves_generated (ms : list N) :
  gen_moves p = Ok ms -> forall m, In m ms -> generated_from p m.
Proof.
  intros Hm m Hin. unfold gen_moves in Hm. cbv zeta in Hm. inv_binds. injection Hm as <-.
  rewrite !in_app_iff in Hin.
  destruct Hin as [H|[H|[H|[H|[H|[H|H]]]]]].
  - eapply (gen_helper_generated ROOK); [reflexivity|eassumption|apply not64_lt|exact H].
  - eapply (gen_helper_generated BISHOP); [reflexivity|eassumption|apply not64_lt|exact H].
  - eapply (gen_helper_generated QUEEN); [reflexivity|eassumption|apply not64_lt|exact H].
  - eapply (gen_helper_generated KNIGHT); [reflexivity|eassumption|apply not64_lt|exact H].
  - eapply pawn_moves_generated; [eassumption| |exact H].
    match goal with E : color_bb p (switch_color (side p)) = Ok ?x |- _ =>
      apply (color_bb_union p F) in E; [|apply (switch_lt p F)]; subst x end.
    intros t Ht. apply (them_bit p F) in Ht. tauto.
  - eapply castling_moves_generated; eassumption.
  - eapply (gen_helper_generated KING); [reflexivity|eassumption|apply not64_lt|exact H].
Qed.

Lemma gen_captures_generated (ms : list N) :
  gen_captures p = Ok ms -> forall m, In m ms -> generated_from p m.
Proof.
  intros Hm m Hin. unfold gen_captures in Hm. cbv zeta in Hm. inv_binds. injection Hm as <-.
  match goal with E : color_bb p (switch_color (side p)) = Ok ?x |- _ =>
    apply (color_bb_union p F) in E; [|apply (switch_lt p F)]; subst x end.
  assert (Hthem : forall t, N.testbit (union6 p (switch_color (side p))) t = true -> t < 64).
  { intros t Ht. apply (them_bit p F) in Ht. tauto. }
  rewrite !in_app_iff in Hin.
  destruct Hin as [H|[H|[H|[H|[H|H]]]]].
  - eapply (gen_helper_generated ROOK); [reflexivity|eassumption|exact Hthem|exact H].
  - eapply (gen_helper_generated BISHOP); [reflexivity|eassumption|exact Hthem|exact H].
  - eapply (gen_helper_generated QUEEN); [reflexivity|eassumption|exact Hthem|exact H].
  - eapply (gen_helper_generated KNIGHT); [reflexivity|eassumption|exact Hthem|exact H].
  - eapply pawn_moves_generated; [eassumption|exact Hthem|exact H].
  - eapply (gen_helper_generated KING); [reflexivity|eassumption|exact Hthem|exact H].
Qed.

End Generated.

Lemma generated_from_unscored (p : position) (m : N) : generated_from p m -> unscored m.
Proof.
  intros (s & t & ty & Hs & Ht & _ & _ & Hsh).
  destruct (constructors_unscored s t m Hs Ht Hsh) as (H1 & H2 & _). split; assumption.
Qed.

(* C19: both generators leave the score bits 0 *)
Theorem generated_unscored (p : position) (ms : list N) :
  Inv p -> gen_moves p = Ok ms \/ gen_captures p = Ok ms -> Forall unscored ms.
Proof.
  intros HI Hg. pose proof (inv_facts p HI) as F. rewrite Forall_forall. intros m Hm.
  apply (generated_from_unscored p). destruct Hg as [Hg|Hg].
  - exact (gen_moves_generated p F ms Hg m Hm).
  - exact (gen_captures_generated p F ms Hg m Hm).
Qed.

(* ------------------------------------------------------------------------------------------ *)
(* D. No panic, and the composed statement.                                                     *)

(* The one array access of scoreMoves that can go wrong is MVV_LVA_SCORES[victim][aggressor] with
   its 5 victim rows: a KING on the target square would index row 5. That no generated move targets
   the enemy king follows from [Inv]'s clause "the side that just moved is not in check" together
   with the exactness of the attack tables (C12, proved separately); here it is an explicit, named
   hypothesis. It is checked empirically on every case of the differential runs (tie ORDER: the
   oracle fails on any panic of scoreMoves on a position satisfying the invariant). *)
Definition no_king_target (p : position) (ms : list N) : Prop :=
  forall m, In m ms -> piece_type (piece_at p (mv_dst m)) <> KING.

Lemma piece_type_valid (pc : N) : pc_ok pc = true -> pc <> 0 -> piece_type pc < 6.
Proof.
  intros H Hn.
  assert (Hlt : pc < 15) by (unfold pc_ok, valid_piece in H; lia).
  assert (Hall : forallb (fun pc => (pc =? 0) || negb (pc_ok pc) || (piece_type pc <? 6))
                         (map N.of_nat (seq 0 15)) = true) by (vm_compute; reflexivity).
  rewrite forallb_forall in Hall. specialize (Hall pc (in_Nrange 15 pc Hlt)).
  rewrite H in Hall. cbn [negb] in Hall. rewrite orb_false_r in Hall.
  apply orb_true_iff in Hall. destruct Hall as [E|E]; [apply N.eqb_eq in E; contradiction|].
  apply N.ltb_lt. exact E.
Qed.

Lemma piece_type_new_piece (c ty : N) : c < 2 -> ty < 6 -> piece_type (new_piece c ty) = ty.
Proof.
  intros Hc Hty.
  assert (Hall : forallb (fun c => forallb (fun ty => piece_type (new_piece c ty) =? ty)
            (map N.of_nat (seq 0 6))) (map N.of_nat (seq 0 2)) = true) by (vm_compute; reflexivity).
  rewrite forallb_forall in Hall. specialize (Hall c (in_Nrange 2 c Hc)).
  rewrite forallb_forall in Hall. specialize (Hall ty (in_Nrange 6 ty Hty)).
  apply N.eqb_eq. exact Hall.
Qed.

Lemma mv_src_lt (m : N) : mv_src m < 64.
Proof.
  unfold mv_src. change 63 with (N.ones 6). rewrite N.land_ones. apply N.mod_lt. discriminate.
Qed.

Section Total.
Variable C : oconsts.
Hypothesis HC : oconsts_ok C = true.

Lemma mvv_lva_lookup (v a : N) : v < 5 -> a < 6 ->
  exists row x, nth_res (oc_mvv_lva C) (N.to_nat v) = Ok row /\ nth_res row (N.to_nat a) = Ok x.
Proof.
  intros Hv Ha. unfold oconsts_ok in HC. rewrite !andb_true_iff in HC.
  destruct HC as [[_ Hlen] Hrows]. apply Nat.eqb_eq in Hlen. rewrite forallb_forall in Hrows.
  destruct (nth_error (oc_mvv_lva C) (N.to_nat v)) as [row|] eqn:E;
    [|apply nth_error_None in E; lia].
  specialize (Hrows row (nth_error_In _ _ E)). apply andb_true_iff in Hrows. destruct Hrows as [Hl _].
  apply Nat.eqb_eq in Hl.
  destruct (nth_error row (N.to_nat a)) as [x|] eqn:E2; [|apply nth_error_None in E2; lia].
  exists row, x. unfold nth_res. rewrite E, E2. split; reflexivity.
Qed.

Lemma score_of_total (p : position) (h : hctx) (m : N) :
  facts p ->
  (exists ty, ty < 6 /\ piece_at p (mv_src m) = new_piece (side p) ty) ->
  piece_type (piece_at p (mv_dst m)) <> KING ->
  exists s, score_of C p h m = Ok s.
Proof.
  intros F (ty & Hty & Hsrc) Hnk. unfold score_of.
  destruct (m =? h_pv h); [eauto|]. destruct (m =? h_tt h); [eauto|].
  assert (Hcap : forall target, piece_type target < 5 ->
            exists s, (source <- get_piece p (mv_src m) ;;
                       row <- nth_res (oc_mvv_lva C) (N.to_nat (piece_type target)) ;;
                       v <- nth_res row (N.to_nat (piece_type source)) ;;
                       Ok (w16 (v + oc_promo C))) = Ok s).
  { intros target Ht. rewrite (get_piece_at p F _ (mv_src_lt m)). cbn [bind].
    rewrite Hsrc, (piece_type_new_piece _ _ (side_lt p F) Hty).
    destruct (mvv_lva_lookup (piece_type target) ty Ht Hty) as (row & x & -> & Hx). cbn [bind].
    rewrite Hx. cbn [bind]. eauto. }
  destruct (mv_kind m =? EN_PASSANT).
  - cbn [bind]. destruct (side p =? BLACK).
    + change (1 =? NO_PIECE) with false. cbv iota. apply Hcap. reflexivity.
    + change (9 =? NO_PIECE) with false. cbv iota. apply Hcap. reflexivity.
  - rewrite (get_piece_at p F _ (mv_dst_lt m)). cbn [bind].
    destruct (piece_at p (mv_dst m) =? NO_PIECE) eqn:E.
    + destruct (mv_kind m =? PROMOTION); [eauto|]. destruct (m =? h_killer0 h); [eauto|].
      destruct (m =? h_killer1 h); eauto.
    + apply Hcap. apply N.eqb_neq in E.
      pose proof (piece_type_valid _ (F_valid p F _ (mv_dst_lt m)) E) as Hlt.
      unfold KING in Hnk. lia.
Qed.

(* C19: scoreMoves does not panic on a generated list (under the named hypothesis) *)
Theorem ordering_total (p : position) (h : hctx) (ms : list N) :
  Inv p -> gen_moves p = Ok ms \/ gen_captures p = Ok ms -> no_king_target p ms ->
  exists ms', score_moves C p h ms = Ok ms'.
Proof.
  intros HI Hg Hnk. pose proof (inv_facts p HI) as F. apply score_moves_total. intros m Hm.
  assert (Hgen : generated_from p m).
  { destruct Hg as [Hg|Hg]; [exact (gen_moves_generated p F ms Hg m Hm)|exact (gen_captures_generated p F ms Hg m Hm)]. }
  destruct Hgen as (s & t & ty & Hs & Ht & Hty & Hpc & Hsh).
  destruct (constructors_unscored s t m Hs Ht Hsh) as (_ & _ & Esrc & _).
  apply (score_of_total p h m F); [|exact (Hnk m Hm)].
  exists ty. rewrite Esrc. split; assumption.
Qed.

Corollary ordering_no_panic (p : position) (h : hctx) (ms : list N) :
  Inv p -> gen_moves p = Ok ms \/ gen_captures p = Ok ms -> no_king_target p ms ->
  score_moves C p h ms <> Panic.
Proof. intros HI Hg Hnk. destruct (ordering_total p h ms HI Hg Hnk) as [ms' ->]. discriminate. Qed.

End Total.

(* the hypothesis is also necessary, for the table of the Go build (5 rows): a generated capture of
   a king makes scoreMoves index row 5 - unless the move is the PV or the table move *)
Lemma king_target_panics (C : oconsts) (p : position) (h : hctx) (m : N) :
  facts p -> length (oc_mvv_lva C) = 5%nat ->
  m <> h_pv h -> m <> h_tt h -> mv_kind m <> EN_PASSANT ->
  piece_type (piece_at p (mv_dst m)) = KING ->
  score_of C p h m = Panic.
Proof.
  intros F Hlen Hpv Htt Hk Hking. unfold score_of.
  apply N.eqb_neq in Hpv. apply N.eqb_neq in Htt. apply N.eqb_neq in Hk. rewrite Hpv, Htt, Hk.
  rewrite (get_piece_at p F _ (mv_dst_lt m)). cbn [bind].
  destruct (piece_at p (mv_dst m) =? NO_PIECE) eqn:E.
  { apply N.eqb_eq in E. rewrite E in Hking. vm_compute in Hking. discriminate. }
  rewrite (get_piece_at p F _ (mv_src_lt m)). cbn [bind]. rewrite Hking.
  unfold nth_res. replace (nth_error (oc_mvv_lva C) (N.to_nat KING)) with (@None (list N)); [reflexivity|].
  symmetry. apply nth_error_None. rewrite Hlen. vm_compute. lia.
Qed.

(* C19, composed: for ARBITRARY constants and heuristic state, under [Inv], for a list from either
   generator: if scoreMoves returns, then
   - stripping the score bits of the scored list gives the generated list back, entry by entry;
   - the moves visited by the SortIndex loop, with their score bits stripped, are a permutation of
     the generated moves; as many as were generated;
   - they are visited in non-increasing score order;
   - each visited move carries the score [score_of] assigns to it (modulo 2^16). *)
Theorem ordering_main (C : oconsts) (p : position) (h : hctx) (ms ms' : list N) :
  Inv p -> gen_moves p = Ok ms \/ gen_captures p = Ok ms ->
  score_moves C p h ms = Ok ms' ->
  map mv_low ms' = ms /\
  Permutation (map mv_low (visit_order ms')) ms /\
  StronglySorted score_ge (visit_order ms') /\
  length (visit_order ms') = length ms /\
  Forall (fun v => exists s, score_of C p h (mv_low v) = Ok s /\ mv_score v = s mod 65536) (visit_order ms').
Proof.
  intros HI Hg Hs. pose proof (generated_unscored p ms HI Hg) as Hu.
  destruct (score_preserves C p h ms ms' Hs Hu) as [Hlow HF2].
  split; [exact Hlow|]. split; [|split; [apply visit_order_sorted|split]].
  - rewrite <- Hlow. apply Permutation_map, visit_order_perm.
  - rewrite visit_order_length. apply (score_preserves_length C p h ms ms' Hs).
  - assert (Hall : Forall (fun v => exists s, score_of C p h (mv_low v) = Ok s /\ mv_score v = s mod 65536) ms').
    { clear Hs Hg. revert Hlow Hu. induction HF2 as [|m m' l l' (s & Hsc & Hm') _ IH]; intros Hlow Hu; [constructor|].
      cbn [map] in Hlow. injection Hlow as Hm Hl. inversion Hu as [|? ? _ Hu']; subst. constructor.
      - exists s. split; [exact Hsc|exact Hm'].
      - apply IH; [reflexivity|exact Hu']. }
    rewrite Forall_forall in *. intros v Hv. apply Hall.
    exact (Permutation_in _ (visit_order_perm ms') Hv).
Qed.

(* with the constants of the Go build and uint16 history values the stored score is the value *)
Corollary ordering_main_exact (C : oconsts) (p : position) (h : hctx) (ms ms' : list N) :
  oconsts_ok C = true -> hctx_ok h ->
  Inv p -> gen_moves p = Ok ms \/ gen_captures p = Ok ms ->
  score_moves C p h ms = Ok ms' ->
  Forall (fun v => score_of C p h (mv_low v) = Ok (mv_score v)) (visit_order ms').
Proof.
  intros HC Hh HI Hg Hs. destruct (ordering_main C p h ms ms' HI Hg Hs) as (_ & _ & _ & _ & HF).
  rewrite Forall_forall in *. intros v Hv. destruct (HF v Hv) as (s & Hsc & Hm).
  rewrite Hm, N.mod_small by (apply (score_of_bound C p h _ s HC Hh Hsc)). exact Hsc.
Qed.

(* ------------------------------------------------------------------------------------------ *)
(* The statements of Props/C19.v that bundle several of the lemmas above.                       *)

Lemma score_preserves_low_length (C : oconsts) (p : position) (h : hctx) (ms ms' : list N) :
  score_moves C p h ms = Ok ms' -> map mv_low ms' = map mv_low ms /\ length ms' = length ms.
Proof.
  intros H. split; [exact (score_preserves_low C p h ms ms' H)|exact (score_preserves_length C p h ms ms' H)].
Qed.

Lemma sort_index_step (l : list N) (i : nat) : (i < length l)%nat ->
  Permutation (sort_index l i) l /\
  firstn i (sort_index l i) = firstn i l /\
  forall k x y, (i < k)%nat -> nth_error (sort_index l i) i = Some y -> nth_error (sort_index l i) k = Some x ->
    mv_score x <= mv_score y.
Proof.
  intros Hi. split; [exact (sort_index_perm l i Hi)|]. split; [exact (sort_index_prefix l i)|].
  intros k x y. exact (sort_index_max l i k x y).
Qed.

Lemma sweep_prefix_all (l : list N) (k : nat) : (k <= length l)%nat ->
  sweep k l 0 = firstn k (visit_order l) /\
  length (sweep k l 0) = k /\
  Permutation (sweep k l 0 ++ skipn k (visit_order l)) l /\
  StronglySorted score_ge (sweep k l 0) /\
  forall x y, In x (sweep k l 0) -> In y (skipn k (visit_order l)) -> mv_score y <= mv_score x.
Proof.
  intros Hk. split; [exact (sweep_prefix l k Hk)|]. split; [exact (sweep_prefix_length l k Hk)|].
  split; [exact (sweep_prefix_submultiset l k Hk)|]. split; [exact (sweep_prefix_sorted l k Hk)|].
  intros x y. exact (sweep_prefix_dominates l k x y Hk).
Qed.
