(* The search model instantiated with the constants of the current Go build (coq/gen/GoConsts.v):
   the same records as coq/extract/Extract.v builds, for use in property files. *)
From Coq Require Import ZArith NArith List FMapPositive.
From Clemens Require Import Base.Res Base.Word Pos.Types Att.Attacks Pos.Position Pos.Fen
     Eval.Eval Search.TT Search.Ordering Search.Negamax.
From ClemensGen Require Import GoConsts.

Definition go_keys : zkeys :=
  {| zk_piece := zk_piece_tbl; zk_side := zk_side_key; zk_castling := zk_castling_tbl; zk_ep := zk_ep_tbl |}.

Definition go_econsts : econsts :=
  {| ec_piece_value := ev_piece_value; ec_mid_pst := ev_mid_pst; ec_end_pst := ev_end_pst;
     ec_isolani := ev_isolani; ec_passed_scalar := ev_passed_scalar; ec_supported_scalar := ev_supported_scalar;
     ec_rook_pair := ev_rook_pair; ec_knight_pair := ev_knight_pair; ec_bishop_pair := ev_bishop_pair;
     ec_knight_pawn_adj := ev_knight_pawn_adj; ec_rook_pawn_adj := ev_rook_pawn_adj; ec_king_att := ev_king_att;
     ec_phase_knight := ev_phase_knight; ec_phase_bishop := ev_phase_bishop; ec_phase_rook := ev_phase_rook;
     ec_phase_queen := ev_phase_queen; ec_max_phase := ev_max_phase; ec_endgame_border := ev_endgame_border;
     ec_contempt := ev_contempt; ec_inf := ev_inf; ec_max_plies := ev_max_plies; ec_cache_size := ev_cache_size |}.

Definition go_oconsts : oconsts :=
  {| oc_pv := mo_pv_score; oc_tt := mo_tt_score; oc_killer := mo_killer_score; oc_promo := mo_promotion_score;
     oc_counter_bonus := mo_counter_bonus; oc_mvv_lva := mo_mvv_lva |}.

Definition go_sconsts : sconsts :=
  {| sc_widen := se_widen_window; sc_max_depth := se_max_depth; sc_q_max_depth := se_quiescence_max_depth;
     sc_fut_depth := se_futility_depth; sc_fut_margin := se_futility_margin;
     sc_static_null_margin := se_static_null_margin; sc_tt_buckets := tt_numberOfBuckets;
     sc_tt_bucket_size := N.to_nat tt_bucketSize; sc_hist_size := se_history_size |}.

Definition go_init_sst (t : tt_state) (c : ecache) (hist : list N) (cancel : option N) : sst :=
  {| s_tt := t; s_cache := c; s_nodes := 0; s_killers := PositiveMap.empty _; s_history := PositiveMap.empty _;
     s_counter := PositiveMap.empty _; s_hist := hist; s_pv := nil; s_out := nil; s_polls := 0; s_cancel := cancel |}.
Definition go_tt_init : tt_state := tt_init (N.to_nat tt_bucketSize).
(* the state of a freshly started engine: empty tables, empty cache, no game history *)
Definition go_empty_sst (cancel : option N) : sst := go_init_sst go_tt_init nil nil cancel.

Definition go_new_from_fen := new_from_fen go_keys unicode_digit_tbl.
Definition go_new_position := new_position go_keys.

Definition go_search := search go_keys go_econsts go_oconsts go_sconsts.
Definition go_search_iterative := search_iterative go_keys go_econsts go_oconsts go_sconsts.
Definition go_search_root := search_root go_keys go_econsts go_oconsts go_sconsts.
Definition go_negamax := negamax go_keys go_econsts go_oconsts go_sconsts.
Definition go_quiescence := quiescence go_keys go_econsts go_oconsts go_sconsts.

From Coq Require Import String Ascii.
Definition fen_bytes (s : string) : Bytes.bytes := map N_of_ascii (list_ascii_of_string s).
Definition go_parse (s : string) : res position := go_new_from_fen (fen_bytes s).
