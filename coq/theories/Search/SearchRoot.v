(* C04 (g), structural part: when does a root search return a non-empty line. *)
From Coq Require Import NArith ZArith List Bool FMapPositive Lia.
From Clemens Require Import Base.Res Base.Word Pos.Types Att.Attacks Pos.Position Eval.Eval
     Search.TT Search.Ordering Search.Negamax Search.SearchStruct.
Import ListNotations.
Open Scope Z_scope.

(* ------------------------------------------------------------------ C04 (g), the structural part *)
(* A result strictly inside a window whose alpha is not below -INF carries a non-empty line, unless
   it is one of the two no-legal-move exits (mate value, contempt value).  Root node (ply 0, never
   cut by the table or the repetition test), depth not exhausted. *)
Section NonEmpty.
Variable K : zkeys.
Variable EC : econsts.
Variable OC : oconsts.
Variable SC : sconsts.

Section WithRecC.
Variable rec : nm_rec.

Section LoopC.
Variables (p : position) (alpha0 beta : Z) (depth ply pm rh : N) (fp : bool).

Definition LC (L : lst) : Prop :=
  l_best_score L <= l_alpha L /\ alpha0 <= l_alpha L /\ (alpha0 < l_alpha L -> l_pvl L <> []).
Definition specLC (x : sresult (lst * bool) * sst) : Prop :=
  match fst x with
  | ROk (L', false) => LC L'
  | ROk (L', true) => beta <= l_best_score L'
  | _ => True
  end.

Lemma loop_C : forall k i ms s L, LC L -> specLC (nm_loop K OC rec p beta depth ply pm rh fp k i ms s L).
Proof.
  induction k as [|k IH]; intros i ms s L HL.
  - cbn. exact HL.
  - unfold nm_loop; fold (nm_loop K OC rec p beta depth ply pm rh fp). cbv zeta.
    repeat lazymatch goal with
           | |- specLC (match ?x with _ => _ end) => destruct x eqn:?
           end.
    all: try (unfold specLC; cbn [fst]; exact I).
    all: cbn [l_alpha l_best_score l_best_move l_legal l_node_type l_pvl] in *.
    all: try (apply IH; exact HL).
    all: match goal with
         | Hp : (if ?c then _ else _) = (_, _) |- _ => destruct c eqn:Hbs; inversion Hp; subst; clear Hp
         end.
    all: repeat match goal with
         | H : (_ <? _) = true |- _ => apply Z.ltb_lt in H
         | H : (_ <? _) = false |- _ => apply Z.ltb_ge in H
         | H : (_ <=? _) = true |- _ => apply Z.leb_le in H
         | H : (_ <=? _) = false |- _ => apply Z.leb_gt in H
         end.
    all: destruct HL as (H1 & H2 & H3).
    all: try (unfold specLC; cbn [fst l_best_score]; lia).
    all: apply IH; unfold LC; cbn [l_alpha l_best_score l_pvl]; repeat split; try lia;
         first [ intros _; discriminate | intro; apply H3; lia ].
Qed.
End LoopC.

Lemma snm_C : forall s p beta depth ic pv b s1,
  nm_snm EC SC s p beta depth ic pv = ROk (Some b, s1) -> beta <= b.
Proof.
  intros s p beta depth ic pv b s1; unfold nm_snm.
  destruct (negb ic && negb pv && negb (is_checkmate_value EC beta)); [|discriminate].
  destruct (evaluate EC s p) as [[ev s2]| | |]; try discriminate. cbv zeta.
  destruct (beta <=? _) eqn:E; intro H; inversion H; subst. apply Z.leb_le in E. exact E.
Qed.

Lemma nmp_C : forall s p beta depth ply cn ic pv rh b s1,
  nm_nmp K EC rec s p beta depth ply cn ic pv rh = (ROk (Some b), s1) -> b = beta.
Proof.
  intros s p beta depth ply cn ic pv rh b s1; unfold nm_nmp. cbv zeta.
  repeat lazymatch goal with
         | |- (match ?x with _ => _ end) = _ -> _ => destruct x
         end; intro H; inversion H; reflexivity.
Qed.

Definition specC (p : position) (alpha beta : Z) (ply : N) (x : sresult (Z * list N) * sst) : Prop :=
  match fst x with
  | ROk (v, line) =>
      alpha < v < beta -> line <> [] \/ v = add16 (- INF EC) (Z.of_N ply) \/ contempt EC p = Ok v
  | _ => True
  end.

Lemma inner_C : forall s p alpha beta depth cn pm rh ic,
  - INF EC <= alpha ->
  specC p alpha beta 0 (nm_inner K EC OC SC rec s p alpha beta depth 0 cn pm rh ic).
Proof.
  intros s p alpha beta depth cn pm rh ic Hinf; unfold nm_inner; cbv zeta. cbn [N.eqb negb andb].
  repeat lazymatch goal with
         | |- specC _ _ _ _ (match ?x with _ => _ end) =>
           lazymatch x with
           | nm_snm EC SC ?s ?p ?b ?d ?ic ?pv =>
               let H := fresh "Hsnm" in
               pose proof (snm_C s p b d ic pv) as H; destruct (nm_snm EC SC s p b d ic pv) as [[[?|] ?]| | |]
           | nm_nmp K EC rec ?s ?p ?b ?d ?pl ?cn ?ic ?pv ?rh =>
               let H := fresh "Hnmp" in
               pose proof (nmp_C s p b d pl cn ic pv rh) as H;
               destruct (nm_nmp K EC rec s p b d pl cn ic pv rh) as [[[?|]| | |] ?]
           | nm_loop K OC rec ?p ?b ?d ?pl ?pm ?rh ?fp ?k ?i ?ms ?s ?L =>
               let H := fresh "Hloop" in
               pose proof (loop_C p alpha b d pl pm rh fp k i ms s L) as H;
               destruct (nm_loop K OC rec p b d pl pm rh fp k i ms s L) as [[[? [|]]| | |] ?]
           | _ => destruct x eqn:?
           end
         end.
  all: try (unfold specC; cbn [fst]; exact I).
  all: try match goal with |- context [contempt EC ?p] => destruct (contempt EC p) eqn:Hct end; cbn [of_res bind].
  all: try (unfold specC; cbn [fst]; exact I).
  all: unfold specC; cbn [fst]; intros [Hlo Hhi].
  all: try (right; left; reflexivity).
  all: try (right; right; exact Hct).
  all: try (specialize (Hsnm _ _ eq_refl); lia).
  all: try (specialize (Hnmp _ _ eq_refl); lia).
  all: unfold specLC in Hloop; cbn [fst] in Hloop.
  all: try lia.
  all: assert (HL0 : LC alpha {| l_alpha := alpha; l_best_score := - INF EC; l_best_move := NULL_MOVE;
                               l_legal := 0%N; l_node_type := AlphaNode; l_pvl := [] |})
         by (unfold LC; cbn [l_alpha l_best_score l_pvl]; repeat split; try lia; intro; lia).
  all: specialize (Hloop HL0); try lia.
  all: destruct Hloop as (H1 & H2 & H3); left; apply H3; lia.
Qed.

End WithRecC.

(* the root node of a search *)
Theorem root_line_nonempty_partial : forall f s p alpha beta depth cn pm rh v line s',
  (0 < depth < 255)%N -> - INF EC <= alpha ->
  negamax K EC OC SC f s p alpha beta depth 0 cn pm rh = (ROk (v, line), s') ->
  alpha < v < beta ->
  line <> [] \/ v = add16 (- INF EC) 0 \/ contempt EC p = Ok v.
Proof.
  intros f s p alpha beta depth cn pm rh v line s' Hd Hinf H.
  assert (HC : specC p alpha beta 0 (negamax K EC OC SC f s p alpha beta depth 0 cn pm rh)).
  { clear H. destruct f as [|f]; [cbn; exact I|].
    rewrite negamax_eq. cbv zeta. cbn [N.eqb negb andb].
    repeat lazymatch goal with
           | |- specC _ _ _ _ (match ?x with _ => _ end) => destruct x eqn:?
           end.
    all: try (unfold specC; cbn [fst]; exact I).
    all: try (exfalso;
              match goal with
              | Hz : ((if ?b then _ else _) =? 0)%N = true |- _ =>
                  apply N.eqb_eq in Hz; destruct b; [unfold w8 in Hz; rewrite N.mod_small in Hz by lia|]; lia
              end).
    all: match goal with
         | |- context [nm_inner K EC OC SC ?r ?s ?p ?a ?b ?d 0%N ?cn ?pm ?rh ?ic] =>
             exact (inner_C r s p a b d cn pm rh ic Hinf)
         end. }
  rewrite H in HC. exact HC.
Qed.
End NonEmpty.
