(* Model of pkg/search/search.go: calculateTime.
   Go's [int] is int64 on the platform the engine is built for; every arithmetic
   operation is written with its two's-complement wrap ([i64]).  Go's [/] on ints
   truncates toward zero: [Z.quot]. *)
From Coq Require Import ZArith.
Open Scope Z_scope.

Definition two63 : Z := Eval compute in 2^63.
Definition two64 : Z := Eval compute in 2^64.
Definition i64 (x : Z) : Z := (x + two63) mod two64 - two63.

(* maxTimeInMs is generated data (coq/gen/GoConsts.v); the model takes it as a parameter. *)
Record go_params := {
  gp_wtime : Z; gp_btime : Z; gp_winc : Z; gp_binc : Z;
  gp_movestogo : Z; gp_movetime : Z
}.

Definition calc_time (max_ms : Z) (black : bool) (plys : Z) (sp : go_params) : Z :=
  let t := if black then gp_btime sp else gp_wtime sp in
  let inc := if black then gp_binc sp else gp_winc sp in
  let remaining := Z.max (i64 (60 - Z.quot plys 2)) 20 in
  let movetime :=
    if 0 <? gp_movetime sp then gp_movetime sp
    else if 0 <? t then Z.min (Z.quot (i64 (t + i64 (inc * remaining))) remaining) max_ms
    else 1000 in
  (* fix for D4: never plan with more time than is left on the mover's clock *)
  let movetime := if 0 <? t then Z.min movetime t else movetime in
  i64 (movetime - Z.max (Z.quot movetime 10) 50).

(* The formula as it stood before the repair (kept for the refutation witness). *)
Definition calc_time_unrepaired (max_ms : Z) (black : bool) (plys : Z) (sp : go_params) : Z :=
  let t := if black then gp_btime sp else gp_wtime sp in
  let inc := if black then gp_binc sp else gp_winc sp in
  let remaining := Z.max (i64 (60 - Z.quot plys 2)) 20 in
  let movetime :=
    if 0 <? gp_movetime sp then gp_movetime sp
    else if 0 <? t then Z.min (Z.quot (i64 (t + i64 (inc * remaining))) remaining) max_ms
    else 1000 in
  i64 (movetime - Z.max (Z.quot movetime 10) 50).
