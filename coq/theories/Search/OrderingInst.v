(* C19: the ordering constants of the current Go build (coq/gen/GoConsts.v, the mo_ section) satisfy
   [oconsts_ok]; boolean checkers for "is a permutation" / "scores non-increasing" with their
   soundness; the data of the non-vacuity example. *)
From Coq Require Import NArith ZArith List Bool Lia ZifyBool ZifyN ZifyNat Permutation Sorted.
From Clemens Require Import Base.Res Base.Word Pos.Types Att.Attacks Pos.Position Pos.Inv.
From Clemens Require Import Pos.CapturesExample Search.Ordering Search.OrderingProofs.
From ClemensGen Require Import GoConsts.
Import ListNotations.
Open Scope N_scope.

(* the same record as [go_oconsts] in extract/Extract.v (the one the extracted model is run with) *)
Definition gen_oconsts : oconsts :=
  {| oc_pv := mo_pv_score; oc_tt := mo_tt_score; oc_killer := mo_killer_score; oc_promo := mo_promotion_score;
     oc_counter_bonus := mo_counter_bonus; oc_mvv_lva := mo_mvv_lva |}.

(* pvMoveScore ... MVV_LVA_SCORES fit 16 bits; the table is 5 x 6 *)
Lemma gen_oconsts_ok : oconsts_ok gen_oconsts = true.
Proof. vm_compute. reflexivity. Qed.

(* ------------------------------------------------------------------------------------------ *)
(* boolean checkers used by the example (independent of the theorems about [visit_order])       *)

Definition perm_b (l1 l2 : list N) : bool :=
  forallb (fun x => (count_occ N.eq_dec l1 x =? count_occ N.eq_dec l2 x)%nat) (l1 ++ l2).

Lemma perm_b_sound (l1 l2 : list N) : perm_b l1 l2 = true -> Permutation l1 l2.
Proof.
  unfold perm_b. rewrite forallb_forall. intros H.
  apply (Permutation_count_occ N.eq_dec). intros x.
  destruct (in_dec N.eq_dec x (l1 ++ l2)) as [Hin|Hout].
  - apply Nat.eqb_eq, H, Hin.
  - assert (H1 : ~ In x l1) by (intros X; apply Hout, in_or_app; left; exact X).
    assert (H2 : ~ In x l2) by (intros X; apply Hout, in_or_app; right; exact X).
    rewrite (proj1 (count_occ_not_In N.eq_dec l1 x) H1), (proj1 (count_occ_not_In N.eq_dec l2 x) H2).
    reflexivity.
Qed.

Fixpoint sorted_b (l : list N) : bool :=
  match l with
  | [] => true
  | a :: r => forallb (fun b => mv_score b <=? mv_score a) r && sorted_b r
  end.

Lemma sorted_b_sound (l : list N) : sorted_b l = true -> StronglySorted score_ge l.
Proof.
  induction l as [|a r IH]; intros H; [constructor|].
  cbn [sorted_b] in H. apply andb_true_iff in H. destruct H as [H1 H2].
  constructor; [apply IH; exact H2|]. rewrite forallb_forall in H1. rewrite Forall_forall.
  intros b Hb. unfold score_ge. apply N.leb_le, H1, Hb.
Qed.

Definition unscored_b (ms : list N) : bool := forallb (fun m => (mv_score m =? 0) && (m <? 65536)) ms.

Lemma unscored_b_sound (ms : list N) : unscored_b ms = true -> Forall unscored ms.
Proof.
  unfold unscored_b. rewrite forallb_forall, Forall_forall. intros H m Hm. specialize (H m Hm).
  apply andb_true_iff in H. destruct H as [H1 H2]. split; [apply N.eqb_eq; exact H1|apply N.ltb_lt; exact H2].
Qed.

Definition no_king_target_b (p : position) (ms : list N) : bool :=
  forallb (fun m => negb (piece_type (piece_at p (mv_dst m)) =? KING)) ms.

Lemma no_king_target_b_sound (p : position) (ms : list N) :
  no_king_target_b p ms = true -> no_king_target p ms.
Proof.
  unfold no_king_target_b, no_king_target. rewrite forallb_forall. intros H m Hm.
  specialize (H m Hm). apply negb_true_iff, N.eqb_neq in H. exact H.
Qed.

(* ------------------------------------------------------------------------------------------ *)
(* example data: position a of Pos/CapturesExample.v
     rnbqkb1r/pp1p1pPp/8/2p1pP2/1P1P4/3P3P/P1P1P3/RNBQKBNR w KQkq e6 0 1
   (42 moves: captures, the en-passant capture f5xe6, capturing and pushing promotions) with a
   heuristic state in which every source of a score is present:
     PV move b1c3, table move g1f3, killers a2a3 and h3h4,
     history[c2][c3] = 37, history[d1][d2] = 65530 (so that adding the counter bonus wraps: 4),
     counter moves e2e3 (for the key e2,e3) and d1d2 (for the key d1,d2). *)
Definition c19_pos : position := c17_pos_a.
Definition c19_h : hctx :=
  {| h_pv := mk_move 1 18; h_tt := mk_move 6 21; h_killer0 := mk_move 8 16; h_killer1 := mk_move 23 31;
     h_history := fun a b => if (a =? 10) && (b =? 18) then 37 else if (a =? 3) && (b =? 11) then 65530 else 0;
     h_counter := fun a b => if (a =? 12) && (b =? 20) then mk_move 12 20
                             else if (a =? 3) && (b =? 11) then mk_move 3 11 else 0 |}.

Lemma c19_h_ok : hctx_ok c19_h.
Proof.
  intros a b. unfold c19_h, h_history.
  destruct (_ && _); [reflexivity|]. destruct (_ && _); reflexivity.
Qed.

(* the scores along the visiting order, for the full list and for the capture list *)
Definition c19_scores_all : list N :=
  [1000; 900; 640; 640; 640; 640; 630; 630; 630; 630; 610; 610; 610; 610; 500; 500; 500; 500;
   100; 99; 37; 10; 4; 0; 0; 0; 0; 0; 0; 0; 0; 0; 0; 0; 0; 0; 0; 0; 0; 0; 0; 0].
Definition c19_scores_captures : list N :=
  [640; 640; 640; 640; 630; 630; 630; 630; 610; 610; 610; 610].

(* ------------------------------------------------------------------------------------------ *)
(* the statements of Props/C19.v that speak about the constants of the Go build                 *)

Lemma score_preserves_exact_go (p : position) (h : hctx) (ms ms' : list N) :
  hctx_ok h -> score_moves gen_oconsts p h ms = Ok ms' -> Forall unscored ms ->
  Forall2 (fun m m' => score_of gen_oconsts p h m = Ok (mv_score m')) ms ms'.
Proof. exact (score_preserves_exact gen_oconsts p h ms ms' gen_oconsts_ok). Qed.

Lemma ordering_total_go (p : position) (h : hctx) (ms : list N) :
  Inv p -> gen_moves p = Ok ms \/ gen_captures p = Ok ms -> no_king_target p ms ->
  exists ms', score_moves gen_oconsts p h ms = Ok ms'.
Proof. exact (ordering_total gen_oconsts gen_oconsts_ok p h ms). Qed.

Lemma king_target_panics_go (p : position) (h : hctx) (m : N) :
  Inv p -> m <> h_pv h -> m <> h_tt h -> mv_kind m <> EN_PASSANT ->
  piece_type (piece_at p (mv_dst m)) = KING -> score_of gen_oconsts p h m = Panic.
Proof. intros HI. exact (king_target_panics gen_oconsts p h m (CapturesProofs.inv_facts p HI) eq_refl). Qed.

Lemma ordering_main_exact_go (p : position) (h : hctx) (ms ms' : list N) :
  hctx_ok h -> Inv p -> gen_moves p = Ok ms \/ gen_captures p = Ok ms ->
  score_moves gen_oconsts p h ms = Ok ms' ->
  Forall (fun v => score_of gen_oconsts p h (mv_low v) = Ok (mv_score v)) (visit_order ms').
Proof. exact (ordering_main_exact gen_oconsts p h ms ms' gen_oconsts_ok). Qed.
