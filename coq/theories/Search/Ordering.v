(* pkg/search/move_ordering.go (scoreMoves) and pkg/move/movelist.go (SortIndex, the incremental
   selection sort the search loops use). Model file: transliteration, no proofs. *)
From Coq Require Import NArith ZArith List Bool.
From Clemens Require Import Base.Res Base.Word Pos.Types Pos.Position.
Import ListNotations.
Open Scope N_scope.

Record oconsts := {
  oc_pv : N; oc_tt : N; oc_killer : N; oc_promo : N; oc_counter_bonus : N;
  oc_mvv_lva : list (list N)           (* MVV_LVA_SCORES[victim 0..4][aggressor 0..5] *)
}.

(* the heuristic state scoreMoves reads, for the side to move and the current ply *)
Record hctx := {
  h_pv : N; h_tt : N;
  h_killer0 : N; h_killer1 : N;
  h_history : N -> N -> N;             (* history[side][src][dst], uint16 *)
  h_counter : N -> N -> N              (* counter[side][src][dst] *)
}.

Definition w16 (x : N) : N := x mod 65536.

Section Ordering.
Variable C : oconsts.

Definition score_of (p : position) (h : hctx) (m : N) : res N :=
  if m =? h_pv h then Ok (oc_pv C) else
  if m =? h_tt h then Ok (oc_tt C) else
  let dst := mv_dst m in
  let src := mv_src m in
  target <- (if mv_kind m =? EN_PASSANT then Ok (if side p =? BLACK then 1 else 9)
             else get_piece p dst) ;;
  if target =? NO_PIECE then
    if mv_kind m =? PROMOTION then Ok (oc_promo C)
    else if m =? h_killer0 h then Ok (oc_killer C)
    else if m =? h_killer1 h then Ok (oc_killer C - 1)
    else
      let s := h_history h src dst in
      Ok (if h_counter h src dst =? m then w16 (s + oc_counter_bonus C) else s)
  else
    source <- get_piece p src ;;
    row <- nth_res (oc_mvv_lva C) (N.to_nat (piece_type target)) ;;
    v <- nth_res row (N.to_nat (piece_type source)) ;;
    Ok (w16 (v + oc_promo C)).

(* SetScore ORs the score into the upper 16 bits *)
Definition score_moves (p : position) (h : hctx) (ms : list N) : res (list N) :=
  fold_right (fun m acc => l <- acc ;; s <- score_of p h m ;; Ok (mv_set_score m s :: l)) (Ok []) ms.

(* MoveList.SortIndex(currIdx): one selection step — the first maximum of the tail (strictly
   greater replaces) is swapped into currIdx *)
Fixpoint best_from (l : list N) (idx : nat) (best_idx : nat) (best_score : N) : nat :=
  match l with
  | [] => best_idx
  | m :: r =>
    if best_score <? mv_score m then best_from r (S idx) idx (mv_score m)
    else best_from r (S idx) best_idx best_score
  end.
Definition sort_index (l : list N) (i : nat) : list N :=
  match nth_error l i with
  | None => l                 (* not reached: the loops call it with i < length *)
  | Some cur =>
    let j := best_from (skipn (S i) l) (S i) i (mv_score cur) in
    match nth_error l j with
    | None => l
    | Some b => upd (upd l i b) j cur
    end
  end.

(* the visiting order of `for i := range Length() { SortIndex(i); visit(Get(i)) }` when the loop
   runs to the end *)
Fixpoint sweep (fuel : nat) (l : list N) (i : nat) : list N :=
  match fuel with
  | O => []
  | S f =>
    let l' := sort_index l i in
    match nth_error l' i with
    | None => []
    | Some m => m :: sweep f l' (S i)
    end
  end.
Definition visit_order (l : list N) : list N := sweep (length l) l 0.

End Ordering.
