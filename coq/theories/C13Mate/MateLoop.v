(* C13: structure of the move loop that does not depend on what the recursive calls return:
   every entry of the move list is visited, the legal-move counter. *)
From Coq Require Import NArith ZArith List Bool FMapPositive Lia Permutation.
From Clemens Require Import Base.Res Base.Word Pos.Types Att.Attacks Pos.Position Eval.Eval
     Search.TT Search.TTProofs Search.Ordering Search.OrderingProofs Search.Negamax Search.SearchStruct Search.SearchLines.
From Clemens.C13Mate Require Import MateDefs MateChild.
Import ListNotations.
Open Scope Z_scope.

(* SortIndex(i) permutes the entries from i on among themselves *)
Lemma sort_index_skipn_perm : forall l i, Permutation (skipn i (sort_index l i)) (skipn i l).
Proof.
  intros l i.
  assert (Hp : Permutation (firstn i (sort_index l i) ++ skipn i (sort_index l i)) (firstn i l ++ skipn i l))
    by (rewrite !firstn_skipn; apply sort_index_perm_any).
  rewrite sort_index_prefix in Hp.
  eapply Permutation_app_inv_l; exact Hp.
Qed.

Lemma skipn_nth_cons : forall (A : Type) (l : list A) i x,
  nth_error l i = Some x -> skipn i l = x :: skipn (S i) l.
Proof.
  intros A l; induction l as [|a l IH]; intros i x H; destruct i; cbn in *; try discriminate.
  - inversion H; reflexivity.
  - apply IH; exact H.
Qed.

(* what is left to visit after SortIndex(i): the entry now at i, and the rest *)
Lemma remaining_split : forall l i m x,
  nth_error (sort_index l i) i = Some m -> In x (skipn i l) ->
  x = m \/ In x (skipn (S i) (sort_index l i)).
Proof.
  intros l i m x Hn Hin.
  apply (Permutation_in x (Permutation_sym (sort_index_skipn_perm l i))) in Hin.
  rewrite (skipn_nth_cons _ _ _ _ Hn) in Hin. destruct Hin as [<-|Hin]; auto.
Qed.

Lemma in_skipn_S : forall (A : Type) (l : list A) i x, In x (skipn (S i) l) -> In x (skipn i l).
Proof.
  intros A l; induction l as [|a l IH]; intros i x H; [destruct i; exact H|].
  destruct i; [right; exact H|]. cbn [skipn] in *. apply IH; exact H.
Qed.

Lemma remaining_back : forall l i x,
  In x (skipn (S i) (sort_index l i)) -> In x (skipn i l).
Proof.
  intros l i x Hin.
  apply (Permutation_in x (sort_index_skipn_perm l i)).
  apply in_skipn_S; exact Hin.
Qed.

Lemma remaining_head : forall l i m,
  nth_error (sort_index l i) i = Some m -> In m (skipn i l).
Proof.
  intros l i m Hn. apply (Permutation_in m (sort_index_skipn_perm l i)).
  rewrite (skipn_nth_cons _ _ _ _ Hn). left; reflexivity.
Qed.

(* every generated move has its scored copy in the scored list *)
Lemma score_moves_in_rev : forall OC p h g ms m0,
  score_moves OC p h g = Ok ms -> In m0 g -> exists m, In m ms /\ mv_low m = mv_low m0.
Proof.
  intros OC p h g; induction g as [|a g IH]; intros ms m0 H Hin; [destruct Hin|].
  rewrite score_moves_cons in H.
  destruct (score_moves OC p h g) as [l| |] eqn:El; cbn [bind] in H; try discriminate.
  destruct (score_of OC p h a) as [sc| |]; cbn [bind] in H; try discriminate.
  inversion H; subst. destruct Hin as [<-|Hin].
  - exists (mv_set_score a sc). split; [left; reflexivity|apply mv_low_set_score].
  - destruct (IH l m0 eq_refl Hin) as (m & ? & ?). exists m. split; [right|]; assumption.
Qed.

Section Loop.
Variable K : zkeys.
Variable OC : oconsts.

Lemma scored_illegal_mated : forall p g h ms,
  is_in_check p (side p) = Ok true ->
  gen_moves p = Ok g -> score_moves OC p h g = Ok ms ->
  (forall m, In m ms -> illegal_move K p m) -> mated K p.
Proof.
  intros p g h ms Hc Hg Hs Hill. split; [exact Hc|].
  unfold legal_moves. rewrite Hg. cbn [bind]. apply all_illegal_nil.
  intros m0 Hin. destruct (score_moves_in_rev _ _ _ _ _ _ Hs Hin) as (m & Hm & E).
  eapply illegal_low; [symmetry; exact E|apply Hill; exact Hm].
Qed.

(* the legal-move counter of a loop over fewer than 256 entries does not wrap: it is zero at the end
   only if every entry visited was made and found illegal *)
Lemma loop_count : forall rec p beta depth ply pm rh fp k i ms s L L' c s',
  (i + k = length ms)%nat -> (length ms < 256)%nat -> (l_legal L <= N.of_nat i)%N ->
  nm_loop K OC rec p beta depth ply pm rh fp k i ms s L = (ROk (L', c), s') ->
  (l_legal L <= l_legal L')%N /\
  (l_legal L' = 0%N -> forall m, In m (skipn i ms) -> illegal_move K p m).
Proof.
  intros rec p beta depth ply pm rh fp k; induction k as [|k IH]; intros i ms s L L' c s' Hlen H256 Hle Hrun.
  - cbn in Hrun. inversion Hrun; subst. split; [lia|]. intros _ m Hin.
    rewrite skipn_all2 in Hin by lia. destruct Hin.
  - unfold nm_loop in Hrun; fold (nm_loop K OC rec p beta depth ply pm rh fp) in Hrun. cbv zeta in Hrun.
    assert (Hlen' : (S i + k = length (sort_index ms i))%nat) by (rewrite sort_index_length; lia).
    assert (H256' : (length (sort_index ms i) < 256)%nat) by (rewrite sort_index_length; lia).
    destruct (nth_error (sort_index ms i) i) as [m|] eqn:En; [|discriminate].
    destruct (make_move K p m) as [q| |] eqn:Emk; try discriminate.
    destruct (is_legal q) as [[|]| |] eqn:Eleg; try discriminate.
    + (* a legal move: the counter becomes positive and stays so *)
      assert (Hw : w8 (l_legal L + 1) = (l_legal L + 1)%N) by (unfold w8; apply N.mod_small; lia).
      rewrite Hw in Hrun.
      assert (Hfin : (l_legal L + 1 <= l_legal L')%N).
      { repeat match type of Hrun with
               | (match ?x with _ => _ end) = _ => destruct x eqn:?
               end; try discriminate.
        all: try (inversion Hrun; subst; cbn [l_legal]; lia).
        all: match type of Hrun with nm_loop _ _ _ _ _ _ _ _ _ _ _ _ _ _ ?L1 = _ =>
               eapply (IH _ _ _ L1) in Hrun; [cbn [l_legal] in Hrun; destruct Hrun as [Hrun _]; exact Hrun
                                              |exact Hlen'|exact H256'|cbn [l_legal]; lia]
             end. }
      split; [lia|]. intro Hz. exfalso. lia.
    + (* an illegal move *)
      eapply IH in Hrun; [|exact Hlen'|exact H256'|lia].
      destruct Hrun as [H1 H2]. split; [exact H1|].
      intros Hz x Hin. destruct (remaining_split _ _ _ _ En Hin) as [->|Hx].
      * exists q; auto.
      * apply H2; assumption.
Qed.

(* the score a PVS step reports is an int16 *)
Lemma pvs_range : forall rec s q alpha beta d1 pl1 pm rh lg v line s',
  nm_pvs rec s q alpha beta d1 pl1 pm rh lg = (ROk (v, line), s') -> -32768 <= v <= 32767.
Proof.
  intros rec s q alpha beta d1 pl1 pm rh lg v line s'. unfold nm_pvs. cbv zeta.
  repeat match goal with
         | |- (match ?x with _ => _ end) = _ -> _ => destruct x
         end; intro E; inversion E; subst; apply neg16_range.
Qed.
End Loop.
