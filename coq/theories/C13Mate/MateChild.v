(* C13 (1): the value of a checkmated node. *)
From Coq Require Import NArith ZArith List Bool FMapPositive Lia.
From Clemens Require Import Base.Res Base.Word Pos.Types Att.Attacks Pos.Position Eval.Eval
     Search.TT Search.TTProofs Search.Ordering Search.OrderingProofs Search.Negamax Search.SearchStruct Search.SearchLines.
From Clemens.C13Mate Require Import MateDefs.
Import ListNotations.
Open Scope Z_scope.

Section Child.
Variable K : zkeys.
Variable EC : econsts.
Variable OC : oconsts.
Variable SC : sconsts.

(* a move loop over moves that are all made and found illegal leaves its loop state as it was *)
Lemma loop_all_illegal : forall rec p beta depth ply pm rh fp k i ms s L,
  (i + k = length ms)%nat ->
  (forall m, In m ms -> illegal_move K p m) ->
  nm_loop K OC rec p beta depth ply pm rh fp k i ms s L = (ROk (L, false), s).
Proof.
  intros rec p beta depth ply pm rh fp k; induction k as [|k IH]; intros i ms s L Hlen Hill.
  - reflexivity.
  - unfold nm_loop; fold (nm_loop K OC rec p beta depth ply pm rh fp). cbv zeta.
    destruct (nth_error (sort_index ms i) i) as [m|] eqn:En.
    + assert (Hin : In m ms) by (eapply sort_index_in; eapply nth_error_In; eauto).
      destruct (Hill m Hin) as (q & E1 & E2). rewrite E1, E2.
      apply IH.
      * rewrite sort_index_length. lia.
      * intros m0 H0. apply Hill. eapply sort_index_in; eauto.
    + exfalso. apply nth_error_None in En. rewrite sort_index_length in En. lia.
Qed.

Lemma scored_all_illegal : forall q g h ms,
  mated K q -> gen_moves q = Ok g -> score_moves OC q h g = Ok ms ->
  forall m, In m ms -> illegal_move K q m.
Proof.
  intros q g h ms Hm Hg Hs m Hin.
  destruct (score_moves_in _ _ _ _ _ _ Hs Hin) as (m0 & Hin0 & E).
  eapply illegal_low; [exact E|]. eapply mated_all_illegal; eauto.
Qed.

Lemma mated_gen : forall q, mated K q -> exists g, gen_moves q = Ok g.
Proof.
  intros q [_ H]. unfold legal_moves in H. destruct (gen_moves q) as [g| |]; cbn [bind] in H; try discriminate.
  eauto.
Qed.

(* between pushHistory and popHistory, at a checkmated node the table probe does not cut off *)
Lemma inner_mated : forall rec s q alpha beta depth ply cn pm rh,
  mated K q ->
  negb (ply =? 0)%N && negb (negb (sub16 beta alpha =? 1))
    && snd (fst (tt_get (sc_tt_buckets SC) (INF EC) (s_tt s) (hash q) alpha beta depth ply)) = false ->
  nm_inner K EC OC SC rec s q alpha beta depth ply cn pm rh true = (RPanic, s) \/
  nm_inner K EC OC SC rec s q alpha beta depth ply cn pm rh true = (ROk (add16 (- INF EC) (Z.of_N ply), []), s).
Proof.
  intros rec s q alpha beta depth ply cn pm rh Hm Htt.
  unfold nm_inner. cbv zeta.
  destruct (tt_get (sc_tt_buckets SC) (INF EC) (s_tt s) (hash q) alpha beta depth ply) as [[tsc tuse] tmv].
  cbn [fst snd] in Htt. rewrite Htt.
  assert (E1 : forall pv, nm_snm EC SC s q beta depth true pv = ROk (None, s)) by reflexivity.
  rewrite E1.
  assert (E2 : forall pv, nm_nmp K EC rec s q beta depth ply cn true pv rh = (ROk None, s)).
  { intro pv. unfold nm_nmp. destruct (2 <? depth)%N, cn; reflexivity. }
  rewrite E2.
  assert (E3 : forall pv, nm_fpr EC SC s q alpha beta depth true pv = ROk (false, s)).
  { intro pv. unfold nm_fpr. destruct (negb pv), (depth <? sc_fut_depth SC)%N; reflexivity. }
  rewrite E3.
  destruct (mated_gen q Hm) as (g & Hg). rewrite Hg.
  match goal with |- context [score_moves OC q ?h g] => destruct (score_moves OC q h g) as [ms| |] eqn:Hs end;
    auto.
  rewrite loop_all_illegal; [|reflexivity|eapply scored_all_illegal; eauto].
  cbn [l_legal l_pvl N.eqb]. right; reflexivity.
Qed.

(* C13 (1).  A checkmated node that the table does not cut off returns exactly the mate value of its
   ply with the empty line: for every window, every depth below 255, every cache and heuristic
   state.  The call writes nothing: the table, the cache, the heuristics, the repetition stack, the
   adopted line and the output are as before; one poll and one node are counted. *)
Theorem mated_node_value : forall f s q alpha beta depth ply cn pm rh v line s',
  mated K q -> (depth < 255)%N ->
  negb (ply =? 0)%N && negb (negb (sub16 beta alpha =? 1))
    && snd (fst (tt_get (sc_tt_buckets SC) (INF EC) (s_tt s) (hash q) alpha beta (w8 (depth + 1)) ply)) = false ->
  negamax K EC OC SC f s q alpha beta depth ply cn pm rh = (ROk (v, line), s') ->
  v = add16 (- INF EC) (Z.of_N ply) /\ line = [] /\
  s_tt s' = s_tt s /\ s_cache s' = s_cache s /\ s_killers s' = s_killers s /\
  s_history s' = s_history s /\ s_counter s' = s_counter s /\ s_hist s' = s_hist s /\
  s_pv s' = s_pv s /\ s_out s' = s_out s /\ s_cancel s' = s_cancel s /\
  s_polls s' = (s_polls s + 1)%N /\ s_nodes s' = w64 (s_nodes s + 1).
Proof.
  intros f s q alpha beta depth ply cn pm rh v line s' Hm Hd Htt H.
  destruct f as [|f]; [discriminate|].
  rewrite negamax_eq in H.
  destruct (poll s) as [done s1] eqn:Hp.
  destruct done; [discriminate|].
  cbv zeta in H.
  assert (Hs1 : s1 = snd (poll s)) by (rewrite Hp; reflexivity). unfold poll in Hs1. cbn [snd] in Hs1.
  destruct Hm as [Hc Hl]. rewrite Hc in H.
  assert (Hw : w8 (depth + 1) = (depth + 1)%N) by (unfold w8; apply N.mod_small; lia).
  rewrite Hw in *.
  destruct (N.eqb_spec (depth + 1) 0) as [E|_]; [lia|].
  rewrite !andb_false_r in H. cbn [andb] in H. cbv iota in H.
  unfold push_history in H.
  match type of H with (match (if ?c then _ else _) with _ => _ end) = _ => destruct c end; [|discriminate].
  match type of H with context [nm_inner K EC OC SC ?r ?s0 q alpha beta ?d ply cn pm rh true] =>
    destruct (inner_mated r s0 q alpha beta d ply cn pm rh (conj Hc Hl)) as [E|E];
      [ subst s1; exact Htt | rewrite E in H; discriminate | rewrite E in H ]
  end.
  cbn [fst snd] in H. inversion H; subst. projs. cbn [tl].
  repeat split; reflexivity.
Qed.

(* the same with the table hypothesis stated by [tt_clean] *)
Theorem mated_child_value : forall (H : N -> Prop) f s q alpha beta depth ply cn pm rh v line s',
  mated K q -> (depth < 255)%N -> tt_clean H (s_tt s) -> H (hash q) ->
  negamax K EC OC SC f s q alpha beta depth ply cn pm rh = (ROk (v, line), s') ->
  v = add16 (- INF EC) (Z.of_N ply) /\ line = [] /\
  s_tt s' = s_tt s /\ s_cache s' = s_cache s /\ s_killers s' = s_killers s /\
  s_history s' = s_history s /\ s_counter s' = s_counter s /\ s_hist s' = s_hist s /\
  s_pv s' = s_pv s /\ s_out s' = s_out s /\ s_cancel s' = s_cancel s /\
  s_polls s' = (s_polls s + 1)%N /\ s_nodes s' = w64 (s_nodes s + 1).
Proof.
  intros H f s q alpha beta depth ply cn pm rh v line s' Hm Hd Hc Hh Hn.
  eapply mated_node_value; eauto.
  rewrite (tt_clean_get H _ _ _ _ _ _ _ _ Hc Hh); [apply andb_false_r|].
  unfold w8. rewrite N.mod_small by lia. lia.
Qed.
End Child.
