(* C13: the sanity of the shared state (no usable table entry under a protected hash, no mate value in
   the evaluation cache) is kept by every call of the search, whatever it returns. *)
From Coq Require Import NArith ZArith List Bool FMapPositive Lia.
From Clemens Require Import Base.Res Base.Word Pos.Types Att.Attacks Pos.Position Eval.Eval
     Search.TT Search.TTProofs Search.Ordering Search.OrderingProofs Search.Negamax Search.SearchStruct Search.SearchLines.
From Clemens.C13Mate Require Import MateDefs MateChild.
Import ListNotations.
Open Scope Z_scope.

Section Sane.
Variable K : zkeys.
Variable EC : econsts.
Variable OC : oconsts.
Variable SC : sconsts.
(* the protected hashes *)
Variable H : N -> Prop.
(* the universe of positions the search may visit *)
Variable U : position -> Prop.
(* closed under the legal generated moves, and under null moves when the mover is not in check *)
Hypothesis U_move : forall p m q, U p -> movable p m -> make_move K p m = Ok q -> is_legal q = Ok true -> U q.
Hypothesis U_null : forall p q x, U p -> is_in_check p (side p) = Ok false -> make_null_move K p = Ok (q, x) -> U q.
Hypothesis U_eval : forall p, U p -> eval_sane_at EC p.
Hypothesis U_coll : forall p, U p -> H (hash p) -> mated K p.

Definition SaneTC (t : tt_state) (c : ecache) : Prop := tt_clean H t /\ cache_sane EC c.
Definition Sane (s : sst) : Prop := SaneTC (s_tt s) (s_cache s).
Definition specS {A} (x : sresult A * sst) : Prop := Sane (snd x).

Lemma poll_S : forall s, Sane s -> Sane (snd (poll s)).
Proof. intros s Hs. exact Hs. Qed.

Lemma evaluate_S : forall s p, U p -> Sane s ->
  match evaluate EC s p with ROk (v, s1) => Sane s1 /\ sane_score EC v | _ => True end.
Proof.
  intros s p Hu [Ht Hc]. unfold evaluate.
  destruct (eval_cached EC (s_cache s) p) as [[v c]| |] eqn:E; auto.
  destruct (eval_cached_sane EC _ _ _ _ Hc (U_eval p Hu) E) as [Hv Hc'].
  split; [split; assumption|assumption].
Qed.

Lemma cut_S : forall s p depth ply pm bm m qt, Sane s -> Sane (nm_cut_state OC s p depth ply pm bm m qt).
Proof.
  intros s p depth ply pm bm m qt Hs. unfold nm_cut_state, Sane.
  destruct qt; [|exact Hs]. destruct (killers_at s ply) as [k0 k1].
  repeat match goal with |- context [if ?b then _ else _] => destruct b end; projs; exact Hs.
Qed.

Lemma snm_S : forall s p beta depth ic pv, U p -> Sane s ->
  match nm_snm EC SC s p beta depth ic pv with ROk (_, s1) => Sane s1 | _ => True end.
Proof.
  intros s p beta depth ic pv Hu Hs; unfold nm_snm.
  destruct (negb ic && negb pv && negb (is_checkmate_value EC beta)); [|exact Hs].
  pose proof (evaluate_S s p Hu Hs) as He. destruct (evaluate EC s p) as [[v s1]| | |]; auto. apply He.
Qed.

Lemma fpr_S : forall s p alpha beta depth ic pv, U p -> Sane s ->
  match nm_fpr EC SC s p alpha beta depth ic pv with ROk (_, s1) => Sane s1 | _ => True end.
Proof.
  intros s p alpha beta depth ic pv Hu Hs; unfold nm_fpr.
  match goal with |- context [if ?b then _ else _] => destruct b end; [|exact Hs].
  pose proof (evaluate_S s p Hu Hs) as He. destruct (evaluate EC s p) as [[v s1]| | |]; auto.
  destruct (nthz (sc_fut_margin SC) depth); auto. apply He.
Qed.

Ltac saneS := first [ assumption | projs; assumption | apply cut_S; saneS ].
Ltac movS :=
  match goal with
  | Hm : forall x, In x ?ms -> movable ?p x |- movable ?p ?m =>
      apply Hm; first [ eapply nth_error_In; eassumption
                      | eapply sort_index_in; eapply nth_error_In; eassumption ]
  end.
Ltac uS := first [ assumption
                 | eapply U_move; [ | | eassumption | eassumption]; [assumption|movS]
                 | eapply U_null; [ | | eassumption]; assumption ].

Ltac basicS x :=
  lazymatch x with
  | poll ?s =>
      let Hp := fresh "Hp" in
      assert (Hp : Sane (snd (poll s))) by (apply poll_S; saneS);
      destruct (poll s) as [[|] ?]; cbn [snd] in Hp
  | evaluate EC ?s ?p =>
      let He := fresh "He" in
      assert (He := evaluate_S s p ltac:(uS) ltac:(saneS));
      destruct (evaluate EC s p) as [[? ?]| | |]; [destruct He as [He ?]| | |]
  | nm_snm EC SC ?s ?p ?b ?d ?ic ?pv =>
      let He := fresh "He" in
      assert (He := snm_S s p b d ic pv ltac:(uS) ltac:(saneS));
      destruct (nm_snm EC SC s p b d ic pv) as [[[?|] ?]| | |]
  | nm_fpr EC SC ?s ?p ?a ?b ?d ?ic ?pv =>
      let He := fresh "He" in
      assert (He := fpr_S s p a b d ic pv ltac:(uS) ltac:(saneS));
      destruct (nm_fpr EC SC s p a b d ic pv) as [[? ?]| | |]
  end.
Ltac stepS calls :=
  lazymatch goal with
  | |- specS (match ?x with _ => _ end) => first [ basicS x | calls x | destruct x eqn:? ]
  end.
Ltac leafS :=
  try match goal with |- context [contempt EC ?p] => destruct (contempt EC p) end; cbn [of_res bind];
  unfold specS; cbn [snd]; saneS.

Section WithQRec.
Variable qrec : q_rec.
Hypothesis Hq : forall s q a b pl, U q -> Sane s -> specS (qrec s q a b pl).

Ltac qrecS x :=
  lazymatch x with
  | qrec ?s ?q ?a ?b ?pl =>
      let Hc := fresh "Hc" in
      assert (Hc := Hq s q a b pl ltac:(uS) ltac:(saneS));
      destruct (qrec s q a b pl) as [[?| | |] ?]; unfold specS in Hc; cbn [snd] in Hc
  end.

Lemma qloop_S : forall p sp beta ply k i ms s alpha, U p -> (forall x, In x ms -> movable p x) -> Sane s ->
  specS (q_loop K EC qrec p sp beta ply k i ms s alpha).
Proof.
  intros p sp beta ply k; induction k as [|k IH]; intros i ms s alpha Hu Hms Hs.
  - cbn. leafS.
  - unfold q_loop; fold (q_loop K EC qrec p sp beta ply). cbv zeta.
    repeat first [ lazymatch goal with
                   | |- specS (q_loop K EC qrec p sp beta ply k ?i ?ms ?s ?a) =>
                       apply IH; [exact Hu|apply movable_sorted; exact Hms|saneS]
                   end
                 | stepS qrecS ].
    all: leafS.
Qed.
End WithQRec.

Theorem quiescence_S : forall f s p alpha beta ply, U p -> Sane s ->
  specS (quiescence K EC OC SC f s p alpha beta ply).
Proof.
  induction f as [|f IH]; intros s p alpha beta ply Hu Hs.
  - cbn. leafS.
  - rewrite quiescence_eq. cbv zeta.
    repeat first [ lazymatch goal with
                   | |- specS (q_loop K EC ?r ?p ?sp ?b ?pl ?k ?i ?ms ?s ?a) =>
                       apply (qloop_S r IH); [exact Hu|eapply movable_scored; [right; eassumption|eassumption]|saneS]
                   end
                 | stepS ltac:(fun x => fail) ].
    all: leafS.
Qed.

Section WithRec.
Variable rec : nm_rec.
Hypothesis Hrec : forall s q a b d pl cn pm rh, U q -> Sane s -> specS (rec s q a b d pl cn pm rh).

Ltac recS x :=
  lazymatch x with
  | rec ?s ?q ?a ?b ?d ?pl ?cn ?pm ?rh =>
      let Hc := fresh "Hc" in
      assert (Hc := Hrec s q a b d pl cn pm rh ltac:(uS) ltac:(saneS));
      destruct (rec s q a b d pl cn pm rh) as [[[? ?]| | |] ?]; unfold specS in Hc; cbn [snd] in Hc
  end.

Lemma pvs_S : forall s q alpha beta d1 pl1 pm rh lg, U q -> Sane s ->
  specS (nm_pvs rec s q alpha beta d1 pl1 pm rh lg).
Proof. intros; unfold nm_pvs. cbv zeta. repeat stepS recS. all: leafS. Qed.

Lemma nmp_S : forall s p beta depth ply cn ic pv rh, U p -> is_in_check p (side p) = Ok ic -> Sane s ->
  specS (nm_nmp K EC rec s p beta depth ply cn ic pv rh).
Proof.
  intros s p beta depth ply cn ic pv rh Hu Hic Hs; unfold nm_nmp. cbv zeta.
  destruct ic; [rewrite !andb_false_r; cbn [andb]; leafS|].
  repeat stepS recS. all: leafS.
Qed.

Ltac recS2 x :=
  lazymatch x with
  | nm_pvs rec ?s ?q ?a ?b ?d ?pl ?pm ?rh ?lg =>
      let Hc := fresh "Hc" in
      assert (Hc := pvs_S s q a b d pl pm rh lg ltac:(uS) ltac:(saneS));
      destruct (nm_pvs rec s q a b d pl pm rh lg) as [[[? ?]| | |] ?]; unfold specS in Hc; cbn [snd] in Hc
  end.

Lemma loop_S : forall p beta depth ply pm rh fp k i ms s L, U p -> (forall x, In x ms -> movable p x) -> Sane s ->
  specS (nm_loop K OC rec p beta depth ply pm rh fp k i ms s L).
Proof.
  intros p beta depth ply pm rh fp k; induction k as [|k IH]; intros i ms s L Hu Hms Hs.
  - cbn. leafS.
  - unfold nm_loop; fold (nm_loop K OC rec p beta depth ply pm rh fp). cbv zeta.
    repeat first [ lazymatch goal with
                   | |- specS (nm_loop K OC rec p beta depth ply pm rh fp k ?i ?ms ?s ?L) =>
                       apply IH; [exact Hu|apply movable_sorted; exact Hms|saneS]
                   end
                 | stepS recS2 ].
    all: leafS.
Qed.

(* a node that has the hash of a protected position is checkmated: its loop counts no legal move *)
Lemma protected_no_legal : forall p g h ms beta depth ply pm rh fp s L0 L c s1,
  U p -> gen_moves p = Ok g -> score_moves OC p h g = Ok ms ->
  nm_loop K OC rec p beta depth ply pm rh fp (length ms) 0 ms s L0 = (ROk (L, c), s1) ->
  l_legal L0 = 0%N -> (l_legal L =? 0)%N = false -> ~ H (hash p).
Proof.
  intros p g h ms beta depth ply pm rh fp s L0 L c s1 Hu Hg Hsc Hl H0 Hn Hh.
  pose proof (U_coll p Hu Hh) as Hm.
  rewrite loop_all_illegal in Hl; [|reflexivity|eapply scored_all_illegal; eauto].
  inversion Hl; subst. rewrite H0 in Hn. discriminate.
Qed.

Lemma inner_S : forall s p alpha beta depth ply cn pm rh ic, U p -> is_in_check p (side p) = Ok ic -> Sane s ->
  specS (nm_inner K EC OC SC rec s p alpha beta depth ply cn pm rh ic).
Proof.
  intros s p alpha beta depth ply cn pm rh ic Hu Hic Hs; unfold nm_inner. cbv zeta.
  repeat stepS ltac:(fun x =>
    lazymatch x with
    | nm_nmp K EC rec ?s ?p ?b ?d ?pl ?cn ?ic ?pv ?rh =>
        let Hc := fresh "Hc" in
        assert (Hc := nmp_S s p b d pl cn ic pv rh ltac:(uS) Hic ltac:(saneS));
        destruct (nm_nmp K EC rec s p b d pl cn ic pv rh) as [[[?|]| | |] ?]; unfold specS in Hc; cbn [snd] in Hc
    | nm_loop K OC rec ?p ?b ?d ?pl ?pm ?rh ?fp ?k ?i ?ms ?s ?L =>
        let Hc := fresh "Hc" in let El := fresh "El" in
        assert (Hc := loop_S p b d pl pm rh fp k i ms s L ltac:(uS)
                              ltac:(eapply movable_scored; [left; eassumption|eassumption]) ltac:(saneS));
        destruct (nm_loop K OC rec p b d pl pm rh fp k i ms s L) as [[[? ?]| | |] ?] eqn:El; unfold specS in Hc; cbn [snd] in Hc
    end).
  all: try (leafS; fail).
  (* the table write *)
  unfold specS; cbn [snd]. unfold Sane; projs.
  match goal with |- SaneTC (tt_save _ (s_tt ?s) _ _ _ _ _ _) _ =>
    match goal with Hp : Sane s |- _ => destruct Hp as [Htt4 Hcc4] end end.
  split; [|exact Hcc4]. apply tt_clean_save; [exact Htt4|].
  eapply protected_no_legal; eauto.
Qed.
End WithRec.

Theorem negamax_S : forall f s p alpha beta depth ply cn pm rh, U p -> Sane s ->
  specS (negamax K EC OC SC f s p alpha beta depth ply cn pm rh).
Proof.
  induction f as [|f IH]; intros s p alpha beta depth ply cn pm rh Hu Hs.
  - cbn. leafS.
  - rewrite negamax_eq. cbv zeta.
    repeat stepS ltac:(fun x =>
      lazymatch x with
      | quiescence K EC OC SC ?f ?s ?p ?a ?b ?pl =>
          let Hc := fresh "Hc" in
          assert (Hc := quiescence_S f s p a b pl ltac:(uS) ltac:(saneS));
          destruct (quiescence K EC OC SC f s p a b pl) as [[?| | |] ?]; unfold specS in Hc; cbn [snd] in Hc
      | push_history SC ?s ?p =>
          let Hh := fresh "Hh" in pose proof (push_A SC s p) as Hh;
          destruct (push_history SC s p) as [?| | |]; [subst| | |]
      end).
    all: try (leafS; fail).
    match goal with
    | |- context [nm_inner K EC OC SC ?r ?s ?p ?a ?b ?d ?pl ?cn ?pm ?rh ?ic] =>
        pose proof (inner_S r IH s p a b d pl cn pm rh ic Hu ltac:(eassumption) ltac:(saneS)) as Hin;
        destruct (nm_inner K EC OC SC r s p a b d pl cn pm rh ic) as [r1 s1]
    end.
    unfold specS in *; cbn [fst snd] in *. unfold Sane in *; projs. exact Hin.
Qed.

Corollary negamax_sane : forall f s p alpha beta depth ply cn pm rh r s',
  U p -> Sane s -> negamax K EC OC SC f s p alpha beta depth ply cn pm rh = (r, s') -> Sane s'.
Proof.
  intros f s p alpha beta depth ply cn pm rh r s' Hu Hs E.
  pose proof (negamax_S f s p alpha beta depth ply cn pm rh Hu Hs) as X. rewrite E in X. exact X.
Qed.

Corollary quiescence_sane : forall f s p alpha beta ply r s',
  U p -> Sane s -> quiescence K EC OC SC f s p alpha beta ply = (r, s') -> Sane s'.
Proof.
  intros f s p alpha beta ply r s' Hu Hs E.
  pose proof (quiescence_S f s p alpha beta ply Hu Hs) as X. rewrite E in X. exact X.
Qed.
End Sane.
