(* C13: score bounds for the quiescence search.  INF = 32767 (the largest int16). *)
From Coq Require Import NArith ZArith List Bool FMapPositive Lia.
From Clemens Require Import Base.Res Base.Word Pos.Types Att.Attacks Pos.Position Eval.Eval
     Search.TT Search.TTProofs Search.Ordering Search.OrderingProofs Search.Negamax Search.SearchStruct Search.SearchLines.
From Clemens.C13Mate Require Import MateDefs MateChild MateSane MateLoop.
Import ListNotations.
Open Scope Z_scope.

Section Q.
Variable K : zkeys.
Variable EC : econsts.
Variable OC : oconsts.
Variable SC : sconsts.
Variable H : N -> Prop.
Variable U : position -> Prop.
Hypothesis U_move : forall p m q, U p -> movable p m -> make_move K p m = Ok q -> is_legal q = Ok true -> U q.
Hypothesis U_eval : forall p, U p -> eval_sane_at EC p.
Hypothesis Hinf : INF EC = 32767.
Hypothesis Hplies : 2 <= ec_max_plies EC.

Lemma sane_range : forall v, sane_score EC v -> -32765 <= v <= 32765.
Proof.
  intros v Hv. unfold sane_score, is_checkmate_value in Hv. unfold INF in Hinf. rewrite Hinf in Hv.
  apply orb_false_iff in Hv. destruct Hv as [H1 H2].
  apply Z.ltb_ge in H1. apply Z.ltb_ge in H2. lia.
Qed.

(* the loop of the quiescence search is fail-hard and monotone, whatever the recursive calls return *)
Lemma qloop_mono : forall qrec p sp beta ply k i ms s alpha v s',
  q_loop K EC qrec p sp beta ply k i ms s alpha = (ROk v, s') ->
  v = beta \/ (alpha <= v <= Z.max alpha 32767).
Proof.
  intros qrec p sp beta ply k; induction k as [|k IH]; intros i ms s alpha v s' Hrun.
  - cbn in Hrun. inversion Hrun; subst. right. lia.
  - unfold q_loop in Hrun; fold (q_loop K EC qrec p sp beta ply) in Hrun. cbv zeta in Hrun.
    repeat match type of Hrun with
           | (match ?x with _ => _ end) = _ => destruct x eqn:?
           end; try discriminate.
    all: try (apply IH in Hrun; exact Hrun).
    all: try (inversion Hrun; subst; left; reflexivity).
    all: apply IH in Hrun;
         match type of Hrun with context [if ?a <? neg16 ?z then _ else _] =>
           pose proof (neg16_range z); destruct (a <? neg16 z) eqn:E; [apply Z.ltb_lt in E|apply Z.ltb_ge in E]
         end; lia.
Qed.

(* a quiescence result is the upper window bound or not below the (sane) static evaluation *)
Theorem quiescence_lo : forall f s p a b ply v s',
  U p -> Sane EC H s ->
  quiescence K EC OC SC f s p a b ply = (ROk v, s') ->
  v = b \/ (-32765 <= v <= Z.max a 32767).
Proof.
  intros f s p a b ply v s' Hu Hs Hrun. destruct f as [|f]; [discriminate|].
  rewrite quiescence_eq in Hrun. cbv zeta in Hrun.
  assert (Hp : Sane EC H (snd (poll (upd_nodes s (w64 (s_nodes s + 1)))))) by (apply poll_S; exact Hs).
  destruct (poll (upd_nodes s (w64 (s_nodes s + 1)))) as [[|] s0]; [discriminate|]. cbn [snd] in Hp.
  pose proof (evaluate_S EC H U U_eval s0 p Hu Hp) as He.
  destruct (evaluate EC s0 p) as [[sp s1]| | |]; try discriminate.
  destruct He as [Hs1 Hsp]. apply sane_range in Hsp.
  destruct (b <=? sp) eqn:Eb; [inversion Hrun; subst; left; reflexivity|].
  apply Z.leb_gt in Eb.
  destruct (ply =? sc_q_max_depth SC)%N.
  { inversion Hrun; subst. right. destruct (a <? sp) eqn:E; [apply Z.ltb_lt in E|apply Z.ltb_ge in E]; lia. }
  destruct (gen_captures p); try discriminate.
  match type of Hrun with context [score_moves OC p ?h ?l] => destruct (score_moves OC p h l) end; try discriminate.
  apply qloop_mono in Hrun.
  destruct (a <? sp) eqn:E; [apply Z.ltb_lt in E|apply Z.ltb_ge in E]; lia.
Qed.

(* under a window (a, INF) with a <= INF - 2 *)
Lemma qloop_hi : forall f p sp ply k i ms s alpha v s',
  U p -> (forall x, In x ms -> movable p x) -> Sane EC H s -> -32767 <= alpha <= 32765 ->
  q_loop K EC (quiescence K EC OC SC f) p sp 32767 ply k i ms s alpha = (ROk v, s') ->
  alpha <= v <= 32765.
Proof.
  intros f p sp ply k; induction k as [|k IH]; intros i ms s alpha v s' Hu Hms Hs Ha Hrun.
  - cbn in Hrun. inversion Hrun; subst. lia.
  - unfold q_loop in Hrun; fold (q_loop K EC (quiescence K EC OC SC f) p sp 32767 ply) in Hrun. cbv zeta in Hrun.
    repeat match type of Hrun with
           | (match ?x with _ => _ end) = _ => destruct x eqn:?
           end; try discriminate;
    pose proof (movable_sorted _ _ i Hms) as Hms';
    try (apply IH in Hrun; auto; fail).
    all: match goal with
         | Hq : quiescence K EC OC SC _ ?s0 ?q ?a0 ?b0 ?pl = (ROk ?v0, ?s1), Hmk : make_move K _ ?m = Ok ?q,
           Hn : nth_error _ _ = Some ?m, Hl : is_legal ?q = Ok true |- _ =>
             assert (Huq : U q) by (eapply U_move; [exact Hu| |exact Hmk|exact Hl]; apply Hms'; eapply nth_error_In; exact Hn);
             pose proof (quiescence_lo _ _ _ _ _ _ _ _ Huq Hs Hq) as Hlo;
             pose proof (quiescence_sane K EC OC SC H U U_move U_eval _ _ _ _ _ _ _ _ Huq Hs Hq) as Hs1
         end.
    all: rewrite !neg16_exact in Hlo by lia.
    all: match goal with Hc : (32767 <=? neg16 ?z) = _ |- _ =>
           assert (Hz : -32765 <= z <= 32767) by lia; rewrite (neg16_exact z) in * by lia end.
    all: match goal with
         | Hc : (32767 <=? - ?z) = true |- _ => apply Z.leb_le in Hc; lia
         | Hc : (32767 <=? - ?z) = false |- _ =>
             apply Z.leb_gt in Hc;
             match type of Hrun with context [if ?a <? - z then _ else _] =>
               destruct (a <? - z) eqn:E; [apply Z.ltb_lt in E|apply Z.ltb_ge in E] end;
             apply IH in Hrun; auto; lia
         end.
Qed.

Theorem quiescence_hi : forall f s p a ply v s',
  U p -> Sane EC H s -> -32767 <= a <= 32765 ->
  quiescence K EC OC SC f s p a 32767 ply = (ROk v, s') ->
  a <= v <= 32765.
Proof.
  intros f s p a ply v s' Hu Hs Ha Hrun. destruct f as [|f]; [discriminate|].
  rewrite quiescence_eq in Hrun. cbv zeta in Hrun.
  assert (Hp : Sane EC H (snd (poll (upd_nodes s (w64 (s_nodes s + 1)))))) by (apply poll_S; exact Hs).
  destruct (poll (upd_nodes s (w64 (s_nodes s + 1)))) as [[|] s0]; [discriminate|]. cbn [snd] in Hp.
  pose proof (evaluate_S EC H U U_eval s0 p Hu Hp) as He.
  destruct (evaluate EC s0 p) as [[sp s1]| | |]; try discriminate.
  destruct He as [Hs1 Hsp]. apply sane_range in Hsp.
  destruct (32767 <=? sp) eqn:Eb; [apply Z.leb_le in Eb; lia|].
  assert (Ha' : a <= (if a <? sp then sp else a) <= 32765)
    by (destruct (a <? sp) eqn:E; [apply Z.ltb_lt in E|apply Z.ltb_ge in E]; lia).
  destruct (ply =? sc_q_max_depth SC)%N.
  { inversion Hrun; subst. lia. }
  destruct (gen_captures p) as [caps| |] eqn:Hcap; try discriminate.
  match type of Hrun with context [score_moves OC p ?h ?l] => destruct (score_moves OC p h l) eqn:Hsc end; try discriminate.
  apply qloop_hi in Hrun; auto; try lia.
  eapply movable_scored; [right; exact Hcap|exact Hsc].
Qed.
End Q.
