(* C13 - a mate in one is always played.
   "Whenever the side to move can give checkmate with its next move, the move the engine answers with
   delivers checkmate - for every such position, every depth or time limit (including an immediate
   timeout) and whatever earlier searches left in the shared tables."

   Main statements of this file: [C13_mate_in_one] (Search), [C13_depth1_partial] (one depth-1
   full-window root search), [C13_immediate_timeout], [C13_depth1] (instances of the first),
   [C13_mated_child_value] (the value of a checkmated node).  The hypotheses are collected in four
   named groups whose unfoldings are [C13_defs]. *)
From Coq Require Import NArith ZArith List Bool FMapPositive Lia.
From Clemens Require Import Base.Res Base.Word Pos.Types Att.Attacks Pos.Position Eval.Eval
     Search.TT Search.TTProofs Search.Ordering Search.OrderingProofs Search.Negamax Search.SearchStruct Search.SearchLines
     Search.SearchRoot Search.SearchIter Pos.Inv Pos.GenWords.
From Clemens.C13Mate Require Import MateDefs MateChild MateSane MateLoop MateQ MateRange MateNega MateRoot MateRoot2 MateIter.
Import ListNotations.
Open Scope Z_scope.

(* ------------------------------------------------------------------ the hypotheses *)
(* the constants: INF is the largest int16 (as in the Go build), at least two plies of mate values,
   a positive aspiration half-width *)
Definition C13_consts (EC : econsts) (SC : sconsts) : Prop :=
  INF EC = 32767 /\ 2 <= ec_max_plies EC /\ 1 <= sc_widen SC <= 32767.

(* the root: the C10 invariant; it and its successors have fewer than 256 generated (pseudo-legal)
   moves (the legal-move counter of the move loop is a uint8); a mating move exists *)
Definition C13_root (K : zkeys) (root : position) : Prop :=
  Inv root /\ few_gen root /\
  (forall m q, gen_of root m -> make_move K root m = Ok q -> few_gen q) /\
  (exists m0, mating K root m0).

(* the universe of positions the search may visit: contains the root, closed under generated moves
   that pass the legality test and under null moves made when not in check; on it the static
   evaluation and the contempt value are not mate values (C15's bound), and no position that has a
   legal move shares its 64-bit hash with a checkmated successor of the root (no collision) *)
Definition C13_universe (K : zkeys) (EC : econsts) (root : position) (U : position -> Prop) : Prop :=
  U root /\
  (forall p m q, U p -> movable p m -> make_move K p m = Ok q -> is_legal q = Ok true -> U q) /\
  (forall p q x, U p -> is_in_check p (side p) = Ok false -> make_null_move K p = Ok (q, x) -> U q) /\
  (forall p, U p -> eval_sane_at EC p) /\
  (forall p, U p -> mate_hash K root (hash p) -> mated K p).

(* the shared state before the search: no table entry of depth >= 1 under the hash of a checkmated
   successor of the root (the engine never stores a checkmated node), no mate value in the
   evaluation cache, no line adopted yet (Search starts with s.PV = nil) *)
Definition C13_state (K : zkeys) (EC : econsts) (root : position) (s : sst) : Prop :=
  tt_clean (mate_hash K root) (s_tt s) /\ cache_sane EC (s_cache s) /\ s_pv s = [].

Theorem C13_defs : forall K EC root p q m h t c,
  (mated K q <-> is_in_check q (side q) = Ok true /\ legal_moves K q = Ok []) /\
  (mating K p m <-> exists l q, legal_moves K p = Ok l /\ In (mv_low m) l /\ make_move K p m = Ok q /\ mated K q) /\
  (few_gen p <-> forall g, gen_moves p = Ok g -> (length g < 256)%nat) /\
  (movable p m <-> exists g m0, (gen_moves p = Ok g \/ gen_captures p = Ok g) /\ In m0 g /\ mv_low m = mv_low m0) /\
  (eval_sane_at EC p <-> (forall v, eval_raw EC p = Ok v -> is_checkmate_value EC v = false) /\
                         (forall v, contempt EC p = Ok v -> is_checkmate_value EC v = false)) /\
  (mate_hash K root h <-> exists m q, gen_of root m /\ make_move K root m = Ok q /\ mated K q /\ h = hash q) /\
  (tt_clean (mate_hash K root) t <->
     forall k e, In e (st_tab t k) -> mate_hash K root (te_hash e) -> te_depth e = 0%N) /\
  (cache_sane EC c <-> forall slot, is_checkmate_value EC (snd (cache_lookup c slot)) = false).
Proof. intros. repeat match goal with |- _ /\ _ => split end; apply iff_refl. Qed.

(* ------------------------------------------------------------------ the results *)
Section Main.
Variable K : zkeys.
Variable EC : econsts.
Variable OC : oconsts.
Variable SC : sconsts.

Lemma mate_move_mating : forall root m,
  Inv root -> (exists m0, mating K root m0) -> gen_of root m -> mate_move K root m -> mating K root m.
Proof.
  intros root m HI (m0 & l & q0 & Hl & _) Hg (q & Hmk & Hleg & Hm).
  exists l, q. split; [exact Hl|]. split; [|split; assumption].
  assert (Hg' := Hg). destruct Hg' as (g & m1 & Eg & Hin & E).
  pose proof (gen_moves_low16 root g HI Eg) as H16.
  pose proof (gen_of_low root m g Eg H16 Hg) as Hlow.
  eapply legal_moves_in; eauto. rewrite make_move_low. exact Hmk.
Qed.

(* C13.  Search answers a mating move: every requested depth (0 = default), every cancellation
   point [s_cancel s] (None, Some 0 = immediate timeout, ...), repaired or unrepaired window test,
   every heuristic state and node counter, every sane table and cache. *)
Theorem C13_mate_in_one : forall (U : position -> Prop) root iters fuel rep s req answer s',
  C13_consts EC SC -> C13_root K root -> C13_universe K EC root U -> C13_state K EC root s ->
  (fuel <= 255)%nat -> (req_to_depth SC req <= 254)%N ->
  search K EC OC SC iters fuel rep s root req = (ROk answer, s') ->
  mating K root answer.
Proof.
  intros U root iters fuel rep s req answer s' (C1 & C2 & C3) (R1 & R2 & R3 & R4) (U1 & U2 & U3 & U4 & U5)
         (S1 & S2 & S3) Hf Hreq E.
  destruct R4 as (m0 & Hm0).
  pose proof (mating_has_mating_move K root m0 Hm0) as Hex.
  assert (Hs : Sane EC (mate_hash K root) s) by (split; assumption).
  assert (Hgm : gen_of root answer /\ mate_move K root answer)
    by (eapply (search_answers_mate_move K EC OC SC root U); eassumption).
  destruct Hgm as [Hg Hm].
  apply mate_move_mating; eauto.
Qed.

(* the immediate timeout: only the uncancellable depth-1 fallback search runs to completion *)
Corollary C13_immediate_timeout : forall (U : position -> Prop) root iters fuel rep s req answer s',
  C13_consts EC SC -> C13_root K root -> C13_universe K EC root U -> C13_state K EC root s ->
  (fuel <= 255)%nat -> (req_to_depth SC req <= 254)%N ->
  s_cancel s = Some 0%N ->
  search K EC OC SC iters fuel rep s root req = (ROk answer, s') ->
  mating K root answer.
Proof. intros; eapply C13_mate_in_one; eauto. Qed.

(* requested depth 1 *)
Corollary C13_depth1 : forall (U : position -> Prop) root iters fuel rep s answer s',
  C13_consts EC SC -> C13_root K root -> C13_universe K EC root U -> C13_state K EC root s ->
  (fuel <= 255)%nat ->
  search K EC OC SC iters fuel rep s root 1 = (ROk answer, s') ->
  mating K root answer.
Proof. intros; eapply C13_mate_in_one; eauto. unfold req_to_depth. cbn. lia. Qed.

(* one root search under a window (a, INF), -INF <= a <= INF - 2 (the full window; the aspiration
   window around INF - widen): the line returned is headed by a mating move.  In particular the
   depth-1 full-window root search of the first iteration and of the fallback. *)
Theorem C13_root_search : forall (U : position -> Prop) root fuel s a depth v line s',
  C13_consts EC SC -> C13_root K root -> C13_universe K EC root U ->
  tt_clean (mate_hash K root) (s_tt s) -> cache_sane EC (s_cache s) ->
  (fuel <= 255)%nat -> (1 <= depth <= 254)%N -> -32767 <= a <= 32765 ->
  search_root K EC OC SC fuel s root depth a 32767 = (ROk (v, line), s') ->
  exists m t, line = m :: t /\ mating K root m.
Proof.
  intros U root fuel s a depth v line s' (C1 & C2 & C3) (R1 & R2 & R3 & R4) (U1 & U2 & U3 & U4 & U5)
         S1 S2 Hf Hd Ha E.
  assert (Hex : has_mating_move K root) by (destruct R4 as (m0 & Hm0); eapply mating_has_mating_move; eauto).
  assert (Hs : Sane EC (mate_hash K root) s) by (split; assumption).
  assert (Hh : headed K root line) by (eapply (root_pv_mates K EC OC SC root U); eassumption).
  destruct Hh as (m & t & El & Hg & Hm).
  exists m, t. split; [exact El|]. apply mate_move_mating; auto.
Qed.

Corollary C13_depth1_partial : forall (U : position -> Prop) root fuel s v line s',
  C13_consts EC SC -> C13_root K root -> C13_universe K EC root U ->
  tt_clean (mate_hash K root) (s_tt s) -> cache_sane EC (s_cache s) ->
  (fuel <= 255)%nat ->
  search_root K EC OC SC fuel s root 1 (- INF EC) (INF EC) = (ROk (v, line), s') ->
  exists m t, line = m :: t /\ mating K root m.
Proof.
  intros U root fuel s v line s' HC HR HU S1 S2 Hf E.
  assert (C1 : INF EC = 32767) by apply HC. rewrite C1 in E.
  eapply C13_root_search; eauto; lia.
Qed.

(* under any other PV window the root search fails high, and the loop rejects the result *)
Theorem C13_root_search_fails_high : forall (U : position -> Prop) root fuel s a b depth v line s',
  C13_consts EC SC -> C13_root K root -> C13_universe K EC root U ->
  tt_clean (mate_hash K root) (s_tt s) -> cache_sane EC (s_cache s) ->
  (fuel <= 255)%nat -> (1 <= depth <= 254)%N -> b <= 32766 -> sub16 b a <> 1 ->
  search_root K EC OC SC fuel s root depth a b = (ROk (v, line), s') ->
  b <= v.
Proof.
  intros U root fuel s a b depth v line s' (C1 & C2 & C3) (R1 & R2 & R3 & R4) (U1 & U2 & U3 & U4 & U5)
         S1 S2 Hf Hd Hb Hpv E.
  assert (Hex : has_mating_move K root) by (destruct R4 as (m0 & Hm0); eapply mating_has_mating_move; eauto).
  apply Z.eqb_neq in Hpv.
  assert (Hs : Sane EC (mate_hash K root) s) by (split; assumption).
  eapply (root_cut_fails_high K EC OC SC root U); eassumption.
Qed.

(* C13 (1): the value of a checkmated node *)
Theorem C13_mated_child_value : forall (P : N -> Prop) f s q alpha beta depth ply cn pm rh v line s',
  mated K q -> (depth < 255)%N -> tt_clean P (s_tt s) -> P (hash q) ->
  negamax K EC OC SC f s q alpha beta depth ply cn pm rh = (ROk (v, line), s') ->
  v = add16 (- INF EC) (Z.of_N ply) /\ line = [] /\
  s_tt s' = s_tt s /\ s_cache s' = s_cache s /\ s_killers s' = s_killers s /\
  s_history s' = s_history s /\ s_counter s' = s_counter s /\ s_hist s' = s_hist s /\
  s_pv s' = s_pv s /\ s_out s' = s_out s /\ s_cancel s' = s_cancel s /\
  s_polls s' = (s_polls s + 1)%N /\ s_nodes s' = w64 (s_nodes s + 1).
Proof. exact (mated_child_value K EC OC SC). Qed.

(* the shared state stays sane across a whole Search (so C13 holds for a sequence of searches from
   positions of the same universe, as long as [s.PV] is reset, which Search's caller does) *)
Theorem C13_state_preserved : forall (U : position -> Prop) root fuel s a b depth r s',
  C13_universe K EC root U ->
  tt_clean (mate_hash K root) (s_tt s) -> cache_sane EC (s_cache s) ->
  search_root K EC OC SC fuel s root depth a b = (r, s') ->
  tt_clean (mate_hash K root) (s_tt s') /\ cache_sane EC (s_cache s').
Proof.
  intros U root fuel s a b depth r s' (U1 & U2 & U3 & U4 & U5) S1 S2 E.
  assert (Hs : Sane EC (mate_hash K root) s) by (split; assumption).
  assert (Hs' : Sane EC (mate_hash K root) s') by (eapply (root_sane K EC OC SC root U); eassumption).
  exact Hs'.
Qed.
End Main.

Print Assumptions C13_mate_in_one.
Print Assumptions C13_immediate_timeout.
Print Assumptions C13_depth1.
Print Assumptions C13_root_search.
Print Assumptions C13_depth1_partial.
Print Assumptions C13_root_search_fails_high.
Print Assumptions C13_mated_child_value.
Print Assumptions C13_state_preserved.
Print Assumptions C13_defs.

(* the names used in the task description *)
Definition depth1_full_window_mates := C13_depth1_partial.
