(* C13: the hypotheses are satisfiable (constants of the Go build, empty tables, two concrete roots),
   and executable instances of the conclusion. *)
From Coq Require Import NArith ZArith List Bool FMapPositive Lia String.
From Clemens Require Import Base.Res Base.Word Pos.Types Att.Attacks Pos.Position Pos.Inv Eval.Eval
     Search.TT Search.Ordering Search.Negamax Search.SearchStruct Search.SearchLines Search.SearchIter Search.GoInst.
From Clemens.C13Mate Require Import MateDefs MateChild MateSane MateLoop MateQ MateRange MateNega MateRoot MateRoot2 MateIter MateMain.
Import ListNotations.
Open Scope Z_scope.

(* ------------------------------------------------------------------ constants, empty state *)
Example go_consts_ok : C13_consts go_econsts go_sconsts.
Proof. unfold C13_consts. split; [reflexivity|]. split; vm_compute; intuition discriminate. Qed.

Example go_depth_ok : forall req, (req <= 254)%N -> (req_to_depth go_sconsts req <= 254)%N.
Proof. intros req H. unfold req_to_depth. destruct (0 <? req)%N; [exact H|]. vm_compute. discriminate. Qed.

(* a freshly started engine (empty table, empty cache), any cancellation point, any root *)
Example empty_state_ok : forall root c, C13_state go_keys go_econsts root (go_empty_sst c).
Proof.
  intros root c. split; [apply tt_clean_empty|]. split; [|reflexivity].
  apply cache_sane_nil. reflexivity.
Qed.

(* ------------------------------------------------------------------ checking a root by computation *)
Definition few_b (p : position) : bool :=
  match gen_moves p with Ok g => (List.length g <? 256)%nat | _ => true end.
Lemma few_b_sound : forall p, few_b p = true -> few_gen p.
Proof.
  intros p H g Hg. unfold few_b in H. rewrite Hg in H. apply Nat.ltb_lt in H. exact H.
Qed.

Definition few_children_b (K : zkeys) (p : position) : bool :=
  match gen_moves p with
  | Ok g => forallb (fun m0 => match make_move K p m0 with Ok q => few_b q | _ => true end) g
  | _ => true
  end.
Lemma few_children_b_sound : forall K p, few_children_b K p = true ->
  forall m q, gen_of p m -> make_move K p m = Ok q -> few_gen q.
Proof.
  intros K p H m q (g & m0 & Hg & Hin & E) Hmk. unfold few_children_b in H. rewrite Hg in H.
  rewrite forallb_forall in H. specialize (H m0 Hin).
  rewrite <- make_move_low, E, make_move_low in Hmk. rewrite Hmk in H. apply few_b_sound; exact H.
Qed.

Definition mating_b (K : zkeys) (p : position) (m : N) : bool :=
  match legal_moves K p, make_move K p m with
  | Ok l, Ok q =>
      existsb (N.eqb (mv_low m)) l &&
      match is_in_check q (side q), legal_moves K q with
      | Ok true, Ok [] => true
      | _, _ => false
      end
  | _, _ => false
  end.
Lemma mating_b_sound : forall K p m, mating_b K p m = true -> mating K p m.
Proof.
  intros K p m H. unfold mating_b in H.
  destruct (legal_moves K p) as [l| |] eqn:El; try discriminate.
  destruct (make_move K p m) as [q| |] eqn:Eq; try discriminate.
  apply andb_true_iff in H. destruct H as [H1 H2].
  exists l, q. split; [exact El|]. split.
  - apply existsb_exists in H1. destruct H1 as (x & Hx & Ex). apply N.eqb_eq in Ex. subst x. exact Hx.
  - split; [exact Eq|]. unfold mated.
    destruct (is_in_check q (side q)) as [[|]| |]; try discriminate.
    destruct (legal_moves K q) as [[|? ?]| |]; try discriminate. auto.
Qed.

Definition root_b (K : zkeys) (p : position) (m : N) : bool :=
  inv_b p && few_b p && few_children_b K p && mating_b K p m.
Lemma root_b_sound : forall K p m, root_b K p m = true -> C13_root K p.
Proof.
  intros K p m H. unfold root_b in H.
  apply andb_true_iff in H. destruct H as [H H4].
  apply andb_true_iff in H. destruct H as [H H3].
  apply andb_true_iff in H. destruct H as [H1 H2].
  split; [exact H1|]. split; [apply few_b_sound; exact H2|].
  split; [apply few_children_b_sound; exact H3|]. exists m. apply mating_b_sound; exact H4.
Qed.

(* ------------------------------------------------------------------ two roots *)
(* back-rank mate Ra1-a8; Black's fool's-mate Qd8-h4 *)
Definition fen1 : string := "6k1/5ppp/8/8/8/8/8/R3K3 w - - 0 1".
Definition fen2 : string := "rnbqkbnr/pppp1ppp/8/4p3/6P1/5P2/PPPPP2P/RNBQKBNR b KQkq - 0 2".
Definition root_of (fen : string) : position :=
  match go_parse fen with Ok r => r | _ => empty_position end.
Definition a1a8 : N := 3584.
Definition d8h4 : N := 2043.

Example a1a8_squares : (mv_src a1a8, mv_dst a1a8) = (0%N, 56%N). Proof. reflexivity. Qed.
Example d8h4_squares : (mv_src d8h4, mv_dst d8h4) = (59%N, 31%N). Proof. reflexivity. Qed.

Example root1_ok : C13_root go_keys (root_of fen1).
Proof. apply (root_b_sound go_keys _ a1a8). vm_compute. reflexivity. Qed.
Example root2_ok : C13_root go_keys (root_of fen2).
Proof. apply (root_b_sound go_keys _ d8h4). vm_compute. reflexivity. Qed.

(* the only mating moves *)
Definition mating_moves (fen : string) : list N :=
  match legal_moves go_keys (root_of fen) with
  | Ok l => filter (mating_b go_keys (root_of fen)) l
  | _ => []
  end.
Example mates1 : mating_moves fen1 = [a1a8]. Proof. vm_compute. reflexivity. Qed.
Example mates2 : mating_moves fen2 = [d8h4]. Proof. vm_compute. reflexivity. Qed.

(* C13 with the constants of the Go build *)
Theorem C13_go : forall (U : position -> Prop) root iters fuel rep s req answer s',
  C13_root go_keys root -> C13_universe go_keys go_econsts root U -> C13_state go_keys go_econsts root s ->
  (fuel <= 255)%nat -> (req <= 254)%N ->
  go_search iters fuel rep s root req = (ROk answer, s') ->
  mating go_keys root answer.
Proof.
  intros U root iters fuel rep s req answer s' HR HU HS Hf Hreq E.
  eapply (C13_mate_in_one go_keys go_econsts go_oconsts go_sconsts U); eauto.
  - exact go_consts_ok.
  - apply go_depth_ok; exact Hreq.
Qed.
Print Assumptions C13_go.
