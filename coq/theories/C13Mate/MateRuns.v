(* C13: executable instances of the conclusion (constants and Zobrist keys of the Go build). *)
From Coq Require Import NArith ZArith List Bool FMapPositive Lia String.
From Clemens Require Import Base.Res Base.Word Pos.Types Att.Attacks Pos.Position Pos.Inv Eval.Eval
     Search.TT Search.Ordering Search.Negamax Search.SearchStruct Search.SearchLines Search.SearchIter Search.GoInst.
From Clemens.C13Mate Require Import MateDefs MateRoot MateMain MateExamples.
Import ListNotations.
Open Scope Z_scope.

(* ------------------------------------------------------------------ the engine's answers *)
(* Search from a freshly started engine: recursion bound 200, repaired window test *)
Definition answer (fen : string) (d : N) (c : option N) : sresult N :=
  match fst (go_search 20 200 true (go_empty_sst c) (root_of fen) d) with
  | ROk m => ROk (mv_low m)
  | r => r
  end.

Example answer1_d1 : answer fen1 1 None = ROk a1a8. Proof. vm_compute. reflexivity. Qed.
Example answer1_d2 : answer fen1 2 None = ROk a1a8. Proof. vm_compute. reflexivity. Qed.
Example answer1_d1_timeout : answer fen1 1 (Some 0%N) = ROk a1a8. Proof. vm_compute. reflexivity. Qed.
Example answer1_d2_timeout : answer fen1 2 (Some 0%N) = ROk a1a8. Proof. vm_compute. reflexivity. Qed.
Example answer1_d3_cancel7 : answer fen1 3 (Some 7%N) = ROk a1a8. Proof. vm_compute. reflexivity. Qed.

Example answer2_d1 : answer fen2 1 None = ROk d8h4. Proof. vm_compute. reflexivity. Qed.
Example answer2_d2 : answer fen2 2 None = ROk d8h4. Proof. vm_compute. reflexivity. Qed.
Example answer2_d1_timeout : answer fen2 1 (Some 0%N) = ROk d8h4. Proof. vm_compute. reflexivity. Qed.
Example answer2_d2_timeout : answer fen2 2 (Some 0%N) = ROk d8h4. Proof. vm_compute. reflexivity. Qed.
Example answer2_d3_cancel7 : answer fen2 3 (Some 7%N) = ROk d8h4. Proof. vm_compute. reflexivity. Qed.

(* whatever an earlier search left in the shared tables: a depth-3 search, then (s.PV and the output
   reset, as Search's caller does) a second search from the state it left *)
Definition second_answer (fen : string) (d1 d2 : N) (c : option N) : sresult N :=
  let '(_, s1) := go_search 20 200 true (go_empty_sst None) (root_of fen) d1 in
  let s2 := set_cancel (upd_pv s1 []) c in
  match fst (go_search 20 200 true s2 (root_of fen) d2) with
  | ROk m => ROk (mv_low m)
  | r => r
  end.
Example again1 : second_answer fen1 3 2 None = ROk a1a8. Proof. vm_compute. reflexivity. Qed.
Example again2 : second_answer fen2 3 2 None = ROk d8h4. Proof. vm_compute. reflexivity. Qed.
Example again2_timeout : second_answer fen2 3 4 (Some 0%N) = ROk d8h4. Proof. vm_compute. reflexivity. Qed.


(* ------------------------------------------------------------------ the state hypotheses cannot be dropped *)
(* One junk table entry under the hash of the checkmated successor (node type PV, score 0, depth 200:
   nothing the engine itself ever stores, it never stores a checkmated node) and the null-window
   probe of the mating move is cut off: the engine answers another move.  Only a collision of
   64-bit hashes could make a real run produce such an entry. *)
Definition junk_table_answer (fen : string) (mate : N) (d : N) : option (sresult N) :=
  match make_move go_keys (root_of fen) mate with
  | Ok q =>
    let t := tt_save (sc_tt_buckets go_sconsts) go_tt_init (hash q) 0 200 0 PVNode 0 in
    let s := go_init_sst t [] [] None in
    Some (match fst (go_search 20 200 true s (root_of fen) d) with ROk m => ROk (mv_low m) | r => r end)
  | _ => None
  end.
Example table_hypothesis_needed :
  junk_table_answer fen2 d8h4 1 = Some (ROk 2745%N) /\ junk_table_answer fen1 a1a8 1 = Some (ROk 708%N).
Proof. split; vm_compute; reflexivity. Qed.

(* One junk evaluation-cache entry claiming a mate value (-INF + 1) for the successor of a
   non-mating move searched before the mating move: that move scores INF - 1 first and keeps the
   line.  (No sane cache holds a mate value: the evaluation is bounded, C15.) *)
Definition junk_cache_answer (fen : string) (mv : N) (d : N) (sc : Z) : option (sresult N) :=
  match make_move go_keys (root_of fen) mv with
  | Ok q =>
    let c := cache_save go_econsts [] (hash q) sc in
    let s := go_init_sst go_tt_init c [] None in
    Some (match fst (go_search 20 200 true s (root_of fen) d) with ROk m => ROk (mv_low m) | r => r end)
  | _ => None
  end.
Example cache_hypothesis_needed : junk_cache_answer fen2 1661 1 (-32766) = Some (ROk 1661%N).
Proof. vm_compute; reflexivity. Qed.
