(* C13: the root search. *)
From Coq Require Import NArith ZArith List Bool FMapPositive Lia.
From Clemens Require Import Base.Res Base.Word Pos.Types Att.Attacks Pos.Position Eval.Eval
     Search.TT Search.TTProofs Search.Ordering Search.OrderingProofs Search.Negamax Search.SearchStruct Search.SearchLines.
From Clemens.C13Mate Require Import MateDefs MateChild MateSane MateLoop MateQ MateRange MateNega MateRoot.
Import ListNotations.
Open Scope Z_scope.

(* the root has a (generated, legal) move after which the opponent is checkmated *)
Definition has_mating_move (K : zkeys) (root : position) : Prop :=
  exists g m0, gen_moves root = Ok g /\ In m0 g /\ mate_move K root m0.

Section Root2.
Variable K : zkeys.
Variable EC : econsts.
Variable OC : oconsts.
Variable SC : sconsts.
Variable root : position.
Variable U : position -> Prop.
Hypothesis U_move : forall p m q, U p -> movable p m -> make_move K p m = Ok q -> is_legal q = Ok true -> U q.
Hypothesis U_null : forall p q x, U p -> is_in_check p (side p) = Ok false -> make_null_move K p = Ok (q, x) -> U q.
Hypothesis U_eval : forall p, U p -> eval_sane_at EC p.
Hypothesis U_coll : forall p, U p -> mate_hash K root (hash p) -> mated K p.
Hypothesis Hinf : INF EC = 32767.
Hypothesis Hplies : 2 <= ec_max_plies EC.
Hypothesis U_root : U root.
Hypothesis few_root : few_gen root.
Hypothesis few_child : forall m q, gen_of root m -> make_move K root m = Ok q -> few_gen q.
(* the root has a mating move *)
Hypothesis Hex : has_mating_move K root.

Notation SaneR := (Sane EC (mate_hash K root)).

Lemma scored_has_mate : forall g h ms,
  gen_moves root = Ok g -> score_moves OC root h g = Ok ms -> has_mate K root (skipn 0 ms).
Proof.
  intros g h ms Hg Hs. destruct Hex as (g' & m0 & Hg' & Hin & Hm).
  rewrite Hg in Hg'. inversion Hg'; subst g'.
  destruct (score_moves_in_rev _ _ _ _ _ _ Hs Hin) as (m & Hm1 & Hm2).
  exists m. split; [exact Hm1|]. eapply mate_move_low; eauto.
Qed.

Section Inner.
Variable f : nat.
Hypothesis Hfuel : (N.of_nat f + 1 <= 255)%N.
Notation rec := (negamax K EC OC SC f).

Lemma inner_root_pv : forall s a depth cn pm rh ic v line s',
  SaneR s -> -32767 <= a <= 32765 -> (1 <= depth <= 255)%N ->
  nm_inner K EC OC SC rec s root a 32767 depth 0 cn pm rh ic = (ROk (v, line), s') ->
  headed K root line.
Proof.
  intros s a depth cn pm rh ic v line s' Hs Ha Hd E. unfold nm_inner in E. cbv zeta in E.
  destruct (tt_get (sc_tt_buckets SC) (INF EC) (s_tt s) (hash root) a 32767 depth 0) as [[tsc tuse] tmv].
  cbn [N.eqb negb andb] in E.
  rewrite (pv_hi a Ha) in E. cbn [negb] in E.
  rewrite snm_pv, nmp_pv, fpr_pv in E.
  destruct (gen_moves root) as [g| |] eqn:Hg; try discriminate.
  match type of E with context [score_moves OC root ?h g] => destruct (score_moves OC root h g) as [ms| |] eqn:Hsc end;
    try discriminate.
  pose proof (scored_has_mate _ _ _ Hg Hsc) as Hm.
  match type of E with context [nm_loop K OC rec root 32767 depth 0 pm rh false (length ms) 0 ms s ?L0] =>
    destruct (nm_loop K OC rec root 32767 depth 0 pm rh false (length ms) 0 ms s L0) as [[[L' c]| | |] s1] eqn:El;
    try discriminate
  end.
  assert (Hgen : forall x, In x ms -> gen_of root x).
  { intros x Hx. destruct (score_moves_in _ _ _ _ _ _ Hsc Hx) as (m1 & ? & ?). exists g, m1; auto. }
  eapply (loop_root_pv K EC OC SC root U) in El; eauto.
  - destruct (l_legal L' =? 0)%N.
    + destruct ic; [inversion E; subst; exact El|].
      destruct (contempt EC root) as [ct| |]; cbn [of_res bind] in E; inversion E; subst; exact El.
    + destruct (poll s1) as [[|] s2]; [discriminate|]. inversion E; subst. exact El.
  - left. split; [cbn [l_alpha]; lia|]. split; [cbn [l_best_score]; rewrite Hinf; lia|exact Hm].
Qed.

Lemma inner_root_cut : forall s a b depth cn pm rh ic v line s',
  SaneR s -> b <= 32766 -> (sub16 b a =? 1) = false -> (1 <= depth <= 255)%N ->
  nm_inner K EC OC SC rec s root a b depth 0 cn pm rh ic = (ROk (v, line), s') ->
  b <= v.
Proof.
  intros s a b depth cn pm rh ic v line s' Hs Hb Hpv Hd E. unfold nm_inner in E. cbv zeta in E.
  destruct (tt_get (sc_tt_buckets SC) (INF EC) (s_tt s) (hash root) a b depth 0) as [[tsc tuse] tmv].
  cbn [N.eqb negb andb] in E.
  rewrite Hpv in E. cbn [negb] in E.
  rewrite snm_pv, nmp_pv, fpr_pv in E.
  destruct (gen_moves root) as [g| |] eqn:Hg; try discriminate.
  match type of E with context [score_moves OC root ?h g] => destruct (score_moves OC root h g) as [ms| |] eqn:Hsc end;
    try discriminate.
  pose proof (scored_has_mate _ _ _ Hg Hsc) as Hm.
  match type of E with context [nm_loop K OC rec root b depth 0 pm rh false (length ms) 0 ms s ?L0] =>
    pose proof (loop_count K OC rec root b depth 0 pm rh false (length ms) 0%nat ms s L0) as Hcnt;
    destruct (nm_loop K OC rec root b depth 0 pm rh false (length ms) 0 ms s L0) as [[[L' c]| | |] s1] eqn:El;
    try discriminate
  end.
  assert (Hlen : length ms = length g) by (eapply score_preserves_length; eauto).
  specialize (Hcnt L' c s1 eq_refl ltac:(pose proof (few_root g Hg); lia) ltac:(cbn; lia) eq_refl).
  assert (Hgen : forall x, In x ms -> gen_of root x).
  { intros x Hx. destruct (score_moves_in _ _ _ _ _ _ Hsc Hx) as (m1 & ? & ?). exists g, m1; auto. }
  eapply (loop_root_cut K EC OC SC root U) in El; eauto.
  destruct (l_legal L' =? 0)%N eqn:Ez.
  - exfalso. apply N.eqb_eq in Ez. destruct Hcnt as [_ Hcnt].
    destruct Hm as (x & Hin & (q & E1 & E2 & _)).
    destruct (Hcnt Ez x Hin) as (q' & E1' & E2'). rewrite E1 in E1'. inversion E1'; subst q'.
    rewrite E2 in E2'. discriminate.
  - destruct (poll s1) as [[|] s2]; [discriminate|]. inversion E; subst. exact El.
Qed.
End Inner.

Lemma root_depth : forall (depth : N) (ic : bool), (1 <= depth <= 254)%N ->
  (1 <= (if ic then w8 (depth + 1) else depth) <= 255)%N.
Proof.
  intros depth ic Hd. destruct ic; [|lia]. unfold w8. rewrite N.mod_small by lia. lia.
Qed.

(* what the root node returns, in terms of its inner part *)
Lemma root_unfold : forall f s a b depth v line s',
  (1 <= depth <= 254)%N -> SaneR s ->
  search_root K EC OC SC (S f) s root depth a b = (ROk (v, line), s') ->
  exists s1 d ic s2, SaneR s1 /\ (1 <= d <= 255)%N /\
    nm_inner K EC OC SC (negamax K EC OC SC f) s1 root a b d 0 true NULL_MOVE (hmc root) ic = (ROk (v, line), s2).
Proof.
  intros f s a b depth v line s' Hd Hs E. unfold search_root in E. rewrite negamax_eq in E. cbv zeta in E.
  match type of E with context [poll ?s0] =>
    assert (Hp : SaneR (snd (poll s0))) by (apply poll_S; exact Hs);
    destruct (poll s0) as [[|] s1]; [discriminate|]; cbn [snd] in Hp
  end.
  destruct (is_in_check root (side root)) as [ic| |]; try discriminate.
  pose proof (root_depth depth ic Hd) as Hd'.
  destruct (N.eqb_spec (if ic then w8 (depth + 1) else depth) 0) as [E0|_]; [lia|].
  cbn [N.eqb negb andb] in E.
  pose proof (push_A SC (upd_nodes s1 (w64 (s_nodes s1 + 1))) root) as Hh.
  destruct (push_history SC (upd_nodes s1 (w64 (s_nodes s1 + 1))) root) as [s2| | |]; try discriminate. subst s2.
  match type of E with context [nm_inner K EC OC SC ?r ?s0 root a b ?d 0 true NULL_MOVE (hmc root) ic] =>
    destruct (nm_inner K EC OC SC r s0 root a b d 0 true NULL_MOVE (hmc root) ic) as [r1 s3] eqn:Ein;
    exists s0, d, ic, s3
  end.
  cbn [fst snd] in E. inversion E; subst. split; [exact Hp|]. split; [exact Hd'|exact Ein].
Qed.

(* C13, root level.  Under a window (a, INF) with -INF <= a <= INF - 2 the line a completed root
   search returns is headed by a mating move. *)
Theorem root_pv_mates : forall fuel s a depth v line s',
  (fuel <= 255)%nat -> (1 <= depth <= 254)%N -> SaneR s -> -32767 <= a <= 32765 ->
  search_root K EC OC SC fuel s root depth a 32767 = (ROk (v, line), s') ->
  headed K root line.
Proof.
  intros fuel s a depth v line s' Hf Hd Hs Ha E. destruct fuel as [|f]; [discriminate|].
  destruct (root_unfold _ _ _ _ _ _ _ _ Hd Hs E) as (s1 & d & ic & s2 & Hs1 & Hd1 & Ein).
  eapply inner_root_pv; eauto. lia.
Qed.

(* Under a PV window with beta < INF a completed root search returns a score >= beta. *)
Theorem root_cut_fails_high : forall fuel s a b depth v line s',
  (fuel <= 255)%nat -> (1 <= depth <= 254)%N -> SaneR s -> b <= 32766 -> (sub16 b a =? 1) = false ->
  search_root K EC OC SC fuel s root depth a b = (ROk (v, line), s') ->
  b <= v.
Proof.
  intros fuel s a b depth v line s' Hf Hd Hs Hb Hpv E. destruct fuel as [|f]; [discriminate|].
  destruct (root_unfold _ _ _ _ _ _ _ _ Hd Hs E) as (s1 & d & ic & s2 & Hs1 & Hd1 & Ein).
  eapply inner_root_cut; eauto. lia.
Qed.

(* the state stays sane, whatever the root search returns *)
Theorem root_sane : forall fuel s a b depth r s',
  SaneR s -> search_root K EC OC SC fuel s root depth a b = (r, s') -> SaneR s'.
Proof.
  intros fuel s a b depth r s' Hs E. unfold search_root in E.
  eapply (negamax_sane K EC OC SC (mate_hash K root) U U_move U_null U_eval U_coll); [exact U_root| |exact E].
  exact Hs.
Qed.
End Root2.
