(* C13 (a mate in one is always played): vocabulary, sanity predicates on the shared state and
   their preservation by the primitive state changes. *)
From Coq Require Import NArith ZArith List Bool FMapPositive Lia.
From Clemens Require Import Base.Res Base.Word Pos.Types Att.Attacks Pos.Position Eval.Eval
     Search.TT Search.TTProofs Search.Ordering Search.Negamax Search.SearchStruct Search.SearchLines.
Import ListNotations.
Open Scope Z_scope.

(* ------------------------------------------------------------------ positions *)
Section Defs.
Variable K : zkeys.

(* the side to move is in check and has no legal move *)
Definition mated (q : position) : Prop :=
  is_in_check q (side q) = Ok true /\ legal_moves K q = Ok [].

(* [m] (compared by its low 16 bits: the search works on scored copies of the generated moves)
   is a legal move of [p] and the position it leads to is checkmate *)
Definition mating (p : position) (m : N) : Prop :=
  exists l q, legal_moves K p = Ok l /\ In (mv_low m) l /\ make_move K p m = Ok q /\ mated q.

(* proof-internal form: made, legal, and the result is mate *)
Definition mate_move (p : position) (m : N) : Prop :=
  exists q, make_move K p m = Ok q /\ is_legal q = Ok true /\ mated q.

Definition illegal_move (p : position) (m : N) : Prop :=
  exists q, make_move K p m = Ok q /\ is_legal q = Ok false.

Lemma legal_fold_nil : forall p g,
  fold_right (fun m acc => l <- acc ;; q <- make_move K p m ;; ok <- is_legal q ;;
                           Ok (if ok then m :: l else l)) (Ok []) g = Ok [] ->
  forall m, In m g -> illegal_move p m.
Proof.
  intros p g; induction g as [|a g IH]; intros H m Hin; [destruct Hin|].
  cbn [fold_right] in H.
  match type of H with bind ?r _ = _ => destruct r as [l0| |] eqn:El0; cbn [bind] in H; try discriminate end.
  destruct (make_move K p a) as [qa| |] eqn:Ea; cbn [bind] in H; try discriminate.
  destruct (is_legal qa) as [ok| |] eqn:Eok; cbn [bind] in H; try discriminate.
  destruct ok; [inversion H|]. inversion H; subst l0.
  destruct Hin as [<-|Hin]; [exists qa; auto | apply IH; auto].
Qed.

Lemma mated_all_illegal : forall q g m,
  mated q -> gen_moves q = Ok g -> In m g -> illegal_move q m.
Proof.
  intros q g m [_ Hl] Hg Hin. unfold legal_moves in Hl. rewrite Hg in Hl. cbn [bind] in Hl.
  eapply legal_fold_nil; eauto.
Qed.

(* the converse, for the search: if every generated move is made and found illegal there is no legal move *)
Lemma all_illegal_nil : forall p g,
  (forall m, In m g -> illegal_move p m) ->
  fold_right (fun m acc => l <- acc ;; q <- make_move K p m ;; ok <- is_legal q ;;
                           Ok (if ok then m :: l else l)) (Ok []) g = Ok [].
Proof.
  intros p g; induction g as [|a g IH]; intros H; [reflexivity|].
  cbn [fold_right]. rewrite IH by (intros; apply H; right; assumption). cbn [bind].
  destruct (H a (or_introl eq_refl)) as (q & E1 & E2). rewrite E1. cbn [bind]. rewrite E2. reflexivity.
Qed.

Lemma illegal_low : forall p m m0, mv_low m = mv_low m0 -> illegal_move p m0 -> illegal_move p m.
Proof.
  intros p m m0 E (q & H1 & H2). exists q. split; [|exact H2].
  rewrite <- make_move_low, E, make_move_low. exact H1.
Qed.
End Defs.

(* [m] is, up to its score bits, one of the moves or captures generated for [p]: the only moves the
   search ever makes *)
Definition movable (p : position) (m : N) : Prop :=
  exists g m0, (gen_moves p = Ok g \/ gen_captures p = Ok g) /\ In m0 g /\ mv_low m = mv_low m0.

Lemma movable_scored : forall OC p h g ms,
  (gen_moves p = Ok g \/ gen_captures p = Ok g) -> score_moves OC p h g = Ok ms ->
  forall x, In x ms -> movable p x.
Proof.
  intros OC p h g ms Hg Hs x Hx. destruct (score_moves_in _ _ _ _ _ _ Hs Hx) as (m0 & Hin & E).
  exists g, m0. auto.
Qed.

Lemma movable_sorted : forall p ms i,
  (forall x, In x ms -> movable p x) -> forall x, In x (sort_index ms i) -> movable p x.
Proof. intros p ms i H x Hx. apply H. eapply sort_index_in; eauto. Qed.

Lemma gen_of_movable : forall p m, gen_of p m -> movable p m.
Proof. intros p m (g & m0 & Hg & Hin & E). exists g, m0. auto. Qed.

(* ------------------------------------------------------------------ int16 arithmetic at INF = 32767 *)
Lemma wrap16_small : forall x, -32768 <= x <= 32767 -> wrap16 x = x.
Proof. intros; unfold wrap16. rewrite Z.mod_small by lia. lia. Qed.

Lemma wrap16_range : forall x, -32768 <= wrap16 x <= 32767.
Proof. intro x; unfold wrap16. pose proof (Z.mod_pos_bound (x + 32768) 65536 eq_refl). lia. Qed.

Lemma neg16_range : forall x, -32768 <= neg16 x <= 32767.
Proof. intro; apply wrap16_range. Qed.

Lemma neg16_exact : forall x, -32767 <= x <= 32767 -> neg16 x = - x.
Proof. exact neg16_small. Qed.

Lemma sub16_null_window : forall b, sub16 b (sub16 b 1) = 1.
Proof.
  intro b. unfold sub16, wrap16.
  Ltac Zify.zify_post_hook ::= Z.to_euclidean_division_equations.
  lia.
Qed.

(* ------------------------------------------------------------------ the transposition table *)
(* no entry whose hash is protected by [H] can ever be used by a probe of depth >= 1 *)
Definition tt_clean (H : N -> Prop) (t : tt_state) : Prop :=
  forall k e, In e (st_tab t k) -> H (te_hash e) -> te_depth e = 0%N.

Lemma tt_clean_get : forall H nb inf t h a b d pl,
  tt_clean H t -> H h -> (0 < d)%N ->
  snd (fst (tt_get nb inf t h a b d pl)) = false.
Proof.
  intros H nb inf t h a b d pl Hc Hh Hd. unfold tt_get.
  destruct (get_scan (st_tab t (tt_index nb h)) h) as [e|] eqn:E; [|reflexivity].
  apply get_scan_some in E. destruct E as [Hin Hhash].
  assert (Hz : te_depth e = 0%N) by (apply (Hc _ _ Hin); rewrite Hhash; exact Hh).
  unfold get_entry. rewrite Hz. destruct (N.ltb_spec 0 d); [reflexivity|lia].
Qed.

Lemma tt_clean_save : forall H nb t h m d sc nt age,
  tt_clean H t -> ~ H h -> tt_clean H (tt_save nb t h m d sc nt age).
Proof.
  intros H nb t h m d sc nt age Hc Hh. unfold tt_save.
  destruct (save_scan (st_tab t (tt_index nb h)) d age) as [i we].
  intros k e Hin He. cbn [st_tab] in Hin. unfold tab_upd in Hin.
  destruct (k =? tt_index nb h)%N eqn:Ek; [|eapply Hc; eauto].
  apply In_upd in Hin. destruct Hin as [->|Hin].
  - cbn [write_entry te_hash] in He. contradiction.
  - apply N.eqb_eq in Ek. subst k. eapply Hc; eauto.
Qed.

Lemma tt_clean_empty : forall H bs, tt_clean H (tt_init bs).
Proof.
  intros H bs k e Hin _. cbn [tt_init st_tab] in Hin. unfold tt_empty in Hin.
  apply repeat_spec in Hin. subst e. reflexivity.
Qed.

(* ------------------------------------------------------------------ the evaluation cache *)
Section Cache.
Variable EC : econsts.

Definition sane_score (v : Z) : Prop := is_checkmate_value EC v = false.

Definition cache_sane (c : ecache) : Prop := forall slot, sane_score (snd (cache_lookup c slot)).

Lemma cache_sane_nil : sane_score 0 -> cache_sane [].
Proof. intros H slot. exact H. Qed.

Lemma cache_sane_save : forall c h s, cache_sane c -> sane_score s -> cache_sane (cache_save EC c h s).
Proof.
  intros c h s Hc Hs slot. unfold cache_save. cbn [cache_lookup].
  destruct (_ =? slot)%N; [exact Hs|apply Hc].
Qed.

(* what the evaluation may return at a position: the uncached evaluation and the contempt value are
   not mate values *)
Definition eval_sane_at (p : position) : Prop :=
  (forall v, eval_raw EC p = Ok v -> sane_score v) /\ (forall v, contempt EC p = Ok v -> sane_score v).

Lemma eval_cached_sane : forall c p v c',
  cache_sane c -> eval_sane_at p -> eval_cached EC c p = Ok (v, c') -> sane_score v /\ cache_sane c'.
Proof.
  intros c p v c' Hc [He Hct] H. unfold eval_cached in H.
  destruct (100 <=? hmc p)%N.
  - destruct (contempt EC p) as [s| |] eqn:E; cbn [bind] in H; inversion H; subst. split; [apply Hct; reflexivity|exact Hc].
  - unfold cache_get in H. pose proof (Hc (hash p mod ec_cache_size EC)%N) as Hs.
    destruct (cache_lookup c (hash p mod ec_cache_size EC)%N) as [eh es]. cbn [snd] in Hs.
    destruct (eh =? hash p)%N.
    + inversion H; subst. split; assumption.
    + destruct (eval_raw EC p) as [s| |] eqn:E; cbn [bind] in H; inversion H; subst.
      split; [apply He; reflexivity|]. apply cache_sane_save; [exact Hc|apply He; reflexivity].
Qed.
End Cache.
