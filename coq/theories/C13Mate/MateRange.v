(* C13: score bounds along the principal-variation windows of negamax.
   Lo: under a window (-INF, b), b >= -INF + 2, a node returns at least -INF + 2 (at ply 1: or it
       is checkmated and returns -INF + 1).
   Hi: under a window (a, INF), a <= INF - 2, a node returns at most INF - 2.
   Such nodes are PV nodes: no table cutoff, no static-null / null-move / futility pruning; the
   results of the null-window searches below them do not matter.  INF = 32767. *)
From Coq Require Import NArith ZArith List Bool FMapPositive Lia.
From Clemens Require Import Base.Res Base.Word Pos.Types Att.Attacks Pos.Position Eval.Eval
     Search.TT Search.TTProofs Search.Ordering Search.OrderingProofs Search.Negamax Search.SearchStruct Search.SearchLines.
From Clemens.C13Mate Require Import MateDefs MateChild MateSane MateLoop MateQ.
Import ListNotations.
Open Scope Z_scope.

Definition few_gen (p : position) : Prop := forall g, gen_moves p = Ok g -> (length g < 256)%nat.

Section Range.
Variable K : zkeys.
Variable EC : econsts.
Variable OC : oconsts.
Variable SC : sconsts.
Variable H : N -> Prop.
Variable U : position -> Prop.
Hypothesis U_move : forall p m q, U p -> movable p m -> make_move K p m = Ok q -> is_legal q = Ok true -> U q.
Hypothesis U_null : forall p q x, U p -> is_in_check p (side p) = Ok false -> make_null_move K p = Ok (q, x) -> U q.
Hypothesis U_eval : forall p, U p -> eval_sane_at EC p.
Hypothesis U_coll : forall p, U p -> H (hash p) -> mated K p.
Hypothesis Hinf : INF EC = 32767.
Hypothesis Hplies : 2 <= ec_max_plies EC.

Definition specLo (p : position) (ply : N) (x : sresult (Z * list N) * sst) : Prop :=
  match fst x with
  | ROk (v, _) => v <= 32767 /\
                  (-32765 <= v \/ (ply = 1%N /\ v = -32766 /\ (few_gen p -> mated K p)))
  | _ => True
  end.
Definition specHi (x : sresult (Z * list N) * sst) : Prop :=
  match fst x with
  | ROk (v, _) => -32767 <= v <= 32765
  | _ => True
  end.

Lemma contempt_range : forall p c, U p -> contempt EC p = Ok c -> -32765 <= c <= 32765.
Proof. intros p c Hu Hc. apply (sane_range EC Hinf Hplies). apply (U_eval p Hu). exact Hc. Qed.

Lemma pv_lo : forall b, -32765 <= b <= 32767 -> (sub16 b (-32767) =? 1) = false.
Proof.
  intros b Hb. apply Z.eqb_neq. unfold sub16, wrap16.
  Ltac Zify.zify_post_hook ::= Z.to_euclidean_division_equations.
  lia.
Qed.
Lemma pv_hi : forall a, -32767 <= a <= 32765 -> (sub16 32767 a =? 1) = false.
Proof. intros a Ha. apply Z.eqb_neq. unfold sub16, wrap16. lia. Qed.

Lemma snm_pv : forall s p b d ic, nm_snm EC SC s p b d ic true = ROk (None, s).
Proof. intros. unfold nm_snm. destruct ic; reflexivity. Qed.
Lemma nmp_pv : forall rec s p b d pl cn ic rh, nm_nmp K EC rec s p b d pl cn ic true rh = (ROk None, s).
Proof. intros. unfold nm_nmp. destruct (2 <? d)%N, cn, ic; reflexivity. Qed.
Lemma fpr_pv : forall s p a b d ic, nm_fpr EC SC s p a b d ic true = ROk (false, s).
Proof. reflexivity. Qed.

Lemma mate_value_exact : forall ply, (ply <= 255)%N -> add16 (- INF EC) (Z.of_N ply) = -32767 + Z.of_N ply.
Proof. intros ply Hp. rewrite Hinf. unfold add16. apply wrap16_small. lia. Qed.

Section WithRec.
Variable rec : nm_rec.
Variable PB : N.
Hypothesis HPB : (PB <= 255)%N.
Hypothesis Hrec_S : forall s q a b d pl cn pm rh, U q -> Sane EC H s -> specS EC H (rec s q a b d pl cn pm rh).
Hypothesis Hrec_lo : forall s q b d pl cn pm rh, U q -> Sane EC H s -> -32765 <= b <= 32767 -> (1 <= pl <= PB)%N ->
  specLo q pl (rec s q (-32767) b d pl cn pm rh).
Hypothesis Hrec_hi : forall s q a d pl cn pm rh, U q -> Sane EC H s -> -32767 <= a <= 32765 -> (1 <= pl <= PB)%N ->
  specHi (rec s q a 32767 d pl cn pm rh).

(* the first legal move of a Lo node is searched under (-b, INF) *)
Lemma pvs_first : forall s q b d1 pl1 pm rh v line s',
  U q -> Sane EC H s -> -32765 <= b <= 32767 -> (1 <= pl1 <= PB)%N ->
  nm_pvs rec s q (-32767) b d1 pl1 pm rh 1 = (ROk (v, line), s') -> -32765 <= v <= 32767.
Proof.
  intros s q b d1 pl1 pm rh v line s' Hu Hs Hb Hpl. unfold nm_pvs. cbn [N.eqb Pos.eqb].
  rewrite !neg16_exact by lia. change (- -32767) with 32767.
  pose proof (Hrec_hi s q (- b) d1 pl1 true pm rh Hu Hs ltac:(lia) Hpl) as Hh.
  destruct (rec s q (- b) 32767 d1 pl1 true pm rh) as [[[v0 l0]| | |] s0]; try discriminate.
  unfold specHi in Hh; cbn [fst] in Hh. intro E; inversion E; subst.
  rewrite neg16_exact by lia. lia.
Qed.

(* a move of a Hi node: PVS under (alpha, INF) *)
Lemma pvs_hi : forall s q alpha d1 pl1 pm rh lg v line s',
  U q -> Sane EC H s -> -32767 <= alpha <= 32765 -> (2 <= pl1 <= PB)%N ->
  nm_pvs rec s q alpha 32767 d1 pl1 pm rh lg = (ROk (v, line), s') -> -32768 <= v <= 32765.
Proof.
  intros s q alpha d1 pl1 pm rh lg v line s' Hu Hs Ha Hpl. unfold nm_pvs. cbv zeta.
  rewrite !(neg16_exact alpha) by lia. change (neg16 32767) with (-32767).
  assert (Hfull : forall s0, Sane EC H s0 ->
            match rec s0 q (-32767) (- alpha) d1 pl1 true pm rh with
            | (ROk (v0, _), _) => -32765 <= v0 <= 32767 | _ => True end).
  { intros s0 Hs0.
    pose proof (Hrec_lo s0 q (- alpha) d1 pl1 true pm rh Hu Hs0 ltac:(lia) ltac:(lia)) as Hl.
    destruct (rec s0 q (-32767) (- alpha) d1 pl1 true pm rh) as [[[v0 l0]| | |] s1]; auto.
    unfold specLo in Hl; cbn [fst] in Hl. destruct Hl as [Hl1 [Hl2|(Hl2 & _)]]; lia. }
  destruct (lg =? 1)%N.
  - specialize (Hfull s Hs).
    destruct (rec s q (-32767) (- alpha) d1 pl1 true pm rh) as [[[v0 l0]| | |] s0]; try discriminate.
    intro E; inversion E; subst. rewrite neg16_exact by lia. lia.
  - pose proof (Hrec_S s q (sub16 (- alpha) 1) (- alpha) d1 pl1 true pm rh Hu Hs) as Hs0.
    destruct (rec s q (sub16 (- alpha) 1) (- alpha) d1 pl1 true pm rh) as [[[v0 l0]| | |] s0]; try discriminate.
    unfold specS in Hs0; cbn [snd] in Hs0.
    destruct (alpha <? neg16 v0) eqn:E0.
    + specialize (Hfull s0 Hs0).
      destruct (rec s0 q (-32767) (- alpha) d1 pl1 true pm rh) as [[[v1 l1]| | |] s1]; try discriminate.
      intro E; inversion E; subst. rewrite neg16_exact by lia. lia.
    + apply Z.ltb_ge in E0. intro E; inversion E; subst. pose proof (neg16_range v0). lia.
Qed.

Section Loops.
Variables (p : position) (depth ply pm rh : N).
Hypothesis Hu : U p.
Hypothesis Hply : (1 <= ply < PB)%N.

Lemma w8_ply : w8 (ply + 1) = (ply + 1)%N.
Proof. unfold w8. apply N.mod_small. lia. Qed.

(* ---- Lo *)
Section Lo.
Variable beta : Z.
Hypothesis Hbeta : -32765 <= beta <= 32767.

Definition S0 (L : lst) : Prop := l_legal L = 0%N /\ l_alpha L = -32767.
Definition S1 (L : lst) : Prop := -32765 <= l_best_score L.
Definition specLL (x : sresult (lst * bool) * sst) : Prop :=
  match fst x with
  | ROk (L', _) => l_best_score L' <= 32767 /\ (S0 L' \/ S1 L')
  | _ => True
  end.

Lemma loop_lo : forall k i ms s L,
  (forall x, In x ms -> movable p x) -> Sane EC H s -> l_best_score L <= 32767 -> (S0 L \/ S1 L) ->
  specLL (nm_loop K OC rec p beta depth ply pm rh false k i ms s L).
Proof.
  induction k as [|k IH]; intros i ms s L Hms Hs Hb HS.
  - cbn. unfold specLL; cbn [fst]. auto.
  - unfold nm_loop; fold (nm_loop K OC rec p beta depth ply pm rh false). cbv zeta.
    pose proof (movable_sorted _ _ i Hms) as Hms'.
    destruct (nth_error (sort_index ms i) i) as [m|] eqn:En; [|exact I].
    destruct (make_move K p m) as [q| |] eqn:Emk; try exact I.
    destruct (is_legal q) as [[|]| |] eqn:Eleg; try exact I; [|apply IH; assumption].
    cbv iota. cbn [l_alpha l_best_score l_best_move l_legal l_node_type l_pvl].
    rewrite w8_ply.
    assert (Huq : U q) by (eapply U_move; [exact Hu| |exact Emk|exact Eleg]; apply Hms'; eapply nth_error_In; exact En).
    pose proof (pvs_S EC H U rec Hrec_S s q (l_alpha L) beta (w8 (depth + 256 - 1)) (ply + 1)%N pm rh
                      (w8 (l_legal L + 1)) Huq Hs) as Hs1.
    pose proof (pvs_range rec s q (l_alpha L) beta (w8 (depth + 256 - 1)) (ply + 1)%N pm rh (w8 (l_legal L + 1))) as Hr.
    assert (Hf : S0 L -> forall v line s', nm_pvs rec s q (l_alpha L) beta (w8 (depth + 256 - 1)) (ply + 1)%N pm rh
                                                 (w8 (l_legal L + 1)) = (ROk (v, line), s') -> -32765 <= v).
    { intros [E1 E2] v line s' E. rewrite E1, E2 in E. change (w8 (0 + 1)) with 1%N in E.
      apply pvs_first in E; auto; lia. }
    destruct (nm_pvs rec s q (l_alpha L) beta (w8 (depth + 256 - 1)) (ply + 1)%N pm rh (w8 (l_legal L + 1)))
      as [[[score cl]| | |] s1]; try exact I.
    unfold specS in Hs1; cbn [snd] in Hs1.
    specialize (Hr _ _ _ eq_refl).
    assert (Hbs : forall bs bm, (if l_best_score L <? score then (score, m) else (l_best_score L, l_best_move L)) = (bs, bm) ->
                  bs <= 32767 /\ -32765 <= bs).
    { intros bs bm E. destruct (l_best_score L <? score) eqn:E1; inversion E; subst;
        [apply Z.ltb_lt in E1|apply Z.ltb_ge in E1].
      - split; [lia|]. destruct HS as [HS|HS]; [apply (Hf HS _ _ _ eq_refl)|unfold S1 in HS; lia].
      - split; [lia|]. destruct HS as [HS|HS]; [pose proof (Hf HS _ _ _ eq_refl); lia|exact HS]. }
    destruct (if l_best_score L <? score then (score, m) else (l_best_score L, l_best_move L)) as [bs bm].
    specialize (Hbs _ _ eq_refl).
    destruct (beta <=? score).
    + destruct (bind (get_piece p (mv_dst m)) _) as [qt| |]; try exact I.
      unfold specLL; cbn [fst l_best_score]. split; [lia|right; unfold S1; cbn [l_best_score]; lia].
    + destruct (l_alpha L <? score); apply IH; auto; cbn [l_best_score]; try lia;
        right; unfold S1; cbn [l_best_score]; lia.
Qed.

End Lo.

(* ---- Hi *)
Definition LHi (L : lst) : Prop := -32767 <= l_alpha L <= 32765 /\ -32767 <= l_best_score L <= 32765.
Definition specLH (x : sresult (lst * bool) * sst) : Prop :=
  match fst x with
  | ROk (L', _) => LHi L'
  | _ => True
  end.

Lemma loop_hi : forall k i ms s L,
  (forall x, In x ms -> movable p x) -> Sane EC H s -> LHi L ->
  specLH (nm_loop K OC rec p 32767 depth ply pm rh false k i ms s L).
Proof.
  induction k as [|k IH]; intros i ms s L Hms Hs HL.
  - cbn. exact HL.
  - unfold nm_loop; fold (nm_loop K OC rec p 32767 depth ply pm rh false). cbv zeta.
    pose proof (movable_sorted _ _ i Hms) as Hms'.
    destruct (nth_error (sort_index ms i) i) as [m|] eqn:En; [|exact I].
    destruct (make_move K p m) as [q| |] eqn:Emk; try exact I.
    destruct (is_legal q) as [[|]| |] eqn:Eleg; try exact I; [|apply IH; assumption].
    cbv iota. cbn [l_alpha l_best_score l_best_move l_legal l_node_type l_pvl].
    rewrite w8_ply. destruct HL as [HLa HLb].
    assert (Huq : U q) by (eapply U_move; [exact Hu| |exact Emk|exact Eleg]; apply Hms'; eapply nth_error_In; exact En).
    pose proof (pvs_S EC H U rec Hrec_S s q (l_alpha L) 32767 (w8 (depth + 256 - 1)) (ply + 1)%N pm rh
                      (w8 (l_legal L + 1)) Huq Hs) as Hs1.
    pose proof (pvs_hi s q (l_alpha L) (w8 (depth + 256 - 1)) (ply + 1)%N pm rh (w8 (l_legal L + 1))) as Hr.
    destruct (nm_pvs rec s q (l_alpha L) 32767 (w8 (depth + 256 - 1)) (ply + 1)%N pm rh (w8 (l_legal L + 1)))
      as [[[score cl]| | |] s1]; try exact I.
    unfold specS in Hs1; cbn [snd] in Hs1.
    specialize (Hr _ _ _ Huq Hs HLa ltac:(lia) eq_refl).
    assert (Hbs : forall bs bm, (if l_best_score L <? score then (score, m) else (l_best_score L, l_best_move L)) = (bs, bm) ->
                  -32767 <= bs <= 32765).
    { intros bs bm E. destruct (l_best_score L <? score) eqn:E1; inversion E; subst;
        [apply Z.ltb_lt in E1|apply Z.ltb_ge in E1]; lia. }
    destruct (if l_best_score L <? score then (score, m) else (l_best_score L, l_best_move L)) as [bs bm].
    specialize (Hbs _ _ eq_refl).
    destruct (32767 <=? score) eqn:Ecut; [apply Z.leb_le in Ecut; lia|].
    destruct (l_alpha L <? score) eqn:Er; [apply Z.ltb_lt in Er|]; apply IH; auto;
      unfold LHi; cbn [l_alpha l_best_score]; lia.
Qed.
End Loops.

(* ---- the node between pushHistory and popHistory *)
Lemma inner_lo : forall s p beta depth ply cn pm rh ic,
  U p -> Sane EC H s -> -32765 <= beta <= 32767 -> (1 <= ply < PB)%N ->
  is_in_check p (side p) = Ok ic ->
  specLo p ply (nm_inner K EC OC SC rec s p (-32767) beta depth ply cn pm rh ic).
Proof.
  intros s p beta depth ply cn pm rh ic Hu Hs Hb Hply Hic. unfold nm_inner. cbv zeta.
  destruct (tt_get (sc_tt_buckets SC) (INF EC) (s_tt s) (hash p) (-32767) beta depth ply) as [[tsc tuse] tmv].
  rewrite (pv_lo beta Hb). cbn [negb]. rewrite andb_false_r. cbn [andb].
  rewrite snm_pv, nmp_pv, fpr_pv.
  destruct (gen_moves p) as [g| |] eqn:Hg; try exact I.
  match goal with |- context [score_moves OC p ?h g] => destruct (score_moves OC p h g) as [ms| |] eqn:Hsc end;
    try exact I.
  set (L0 := {| l_alpha := -32767; l_best_score := - INF EC; l_best_move := NULL_MOVE; l_legal := 0%N;
                l_node_type := AlphaNode; l_pvl := [] |}).
  assert (HL0 : l_best_score L0 <= 32767 /\ (S0 L0 \/ S1 L0)).
  { split; [cbn; rewrite Hinf; lia|left; split; reflexivity]. }
  pose proof (loop_lo p depth ply pm rh Hu Hply beta Hb (length ms) 0%nat ms s L0
                      (movable_scored _ _ _ _ _ (or_introl Hg) Hsc) Hs (proj1 HL0) (proj2 HL0)) as Hl.
  pose proof (loop_count K OC rec p beta depth ply pm rh false (length ms) 0%nat ms s L0) as Hcnt.
  destruct (nm_loop K OC rec p beta depth ply pm rh false (length ms) 0 ms s L0) as [[[L' c]| | |] s1];
    try exact I.
  unfold specLL in Hl; cbn [fst] in Hl. destruct Hl as [Hl1 Hl2].
  destruct (l_legal L' =? 0)%N eqn:Ez.
  - apply N.eqb_eq in Ez. destruct ic.
    + unfold specLo; cbn [fst]. rewrite mate_value_exact by lia. split; [lia|].
      destruct (N.eq_dec ply 1) as [E1|E1]; [|left; lia].
      right. subst ply. split; [reflexivity|]. split; [reflexivity|].
      intro Hfew. specialize (Hfew g Hg).
      assert (Hlen : length ms = length g) by (eapply score_preserves_length; eauto).
      specialize (Hcnt L' c s1 eq_refl ltac:(lia) ltac:(cbn; lia) eq_refl).
      destruct Hcnt as [_ Hcnt]. eapply scored_illegal_mated; eauto.
    + destruct (contempt EC p) as [ct| |] eqn:Ect; cbn [of_res bind]; try exact I.
      unfold specLo; cbn [fst]. pose proof (contempt_range p ct Hu Ect). lia.
  - destruct (poll s1) as [[|] s2]; [exact I|].
    unfold specLo; cbn [fst]. split; [exact Hl1|]. left.
    destruct Hl2 as [[E0 _]|Hl2]; [rewrite E0 in Ez; discriminate|exact Hl2].
Qed.

Lemma inner_hi : forall s p a depth ply cn pm rh ic,
  U p -> Sane EC H s -> -32767 <= a <= 32765 -> (1 <= ply < PB)%N ->
  specHi (nm_inner K EC OC SC rec s p a 32767 depth ply cn pm rh ic).
Proof.
  intros s p a depth ply cn pm rh ic Hu Hs Ha Hply. unfold nm_inner. cbv zeta.
  destruct (tt_get (sc_tt_buckets SC) (INF EC) (s_tt s) (hash p) a 32767 depth ply) as [[tsc tuse] tmv].
  rewrite (pv_hi a Ha). cbn [negb]. rewrite andb_false_r. cbn [andb].
  rewrite snm_pv, nmp_pv, fpr_pv.
  destruct (gen_moves p) as [g| |] eqn:Hg; try exact I.
  match goal with |- context [score_moves OC p ?h g] => destruct (score_moves OC p h g) as [ms| |] eqn:Hsc end;
    try exact I.
  set (L0 := {| l_alpha := a; l_best_score := - INF EC; l_best_move := NULL_MOVE; l_legal := 0%N;
                l_node_type := AlphaNode; l_pvl := [] |}).
  assert (HL0 : LHi L0) by (unfold LHi; cbn; rewrite Hinf; lia).
  pose proof (loop_hi p depth ply pm rh Hu Hply (length ms) 0%nat ms s L0
                      (movable_scored _ _ _ _ _ (or_introl Hg) Hsc) Hs HL0) as Hl.
  destruct (nm_loop K OC rec p 32767 depth ply pm rh false (length ms) 0 ms s L0) as [[[L' c]| | |] s1];
    try exact I.
  unfold specLH in Hl; cbn [fst] in Hl. destruct Hl as [Hl1 Hl2].
  destruct (l_legal L' =? 0)%N.
  - destruct ic.
    + unfold specHi; cbn [fst]. rewrite mate_value_exact by lia. lia.
    + destruct (contempt EC p) as [ct| |] eqn:Ect; cbn [of_res bind]; try exact I.
      unfold specHi; cbn [fst]. pose proof (contempt_range p ct Hu Ect). lia.
  - destruct (poll s1) as [[|] s2]; [exact I|].
    unfold specHi; cbn [fst]. exact Hl2.
Qed.
End WithRec.
End Range.
