(* C13: iterative deepening and Search.  Every line the loop adopts is headed by a mating move. *)
From Coq Require Import NArith ZArith List Bool FMapPositive Lia.
From Clemens Require Import Base.Res Base.Word Pos.Types Att.Attacks Pos.Position Eval.Eval
     Search.TT Search.TTProofs Search.Ordering Search.OrderingProofs Search.Negamax Search.SearchStruct Search.SearchLines
     Search.SearchRoot Search.SearchIter Pos.Inv Pos.GenWords.
From Clemens.C13Mate Require Import MateDefs MateChild MateSane MateLoop MateQ MateRange MateNega MateRoot MateRoot2.
Import ListNotations.
Open Scope Z_scope.
Ltac Zify.zify_post_hook ::= Z.to_euclidean_division_equations.

(* ------------------------------------------------------------------ windows *)
Definition win_ok (a b : Z) : Prop :=
  (sub16 b a =? 1) = false /\ b <= 32767 /\ (b = 32767 -> -32767 <= a <= 32765).

Lemma win_full : win_ok (-32767) 32767.
Proof. split; [reflexivity|]. split; lia. Qed.

Lemma win_asp : forall sc w, 1 <= w <= 32767 -> win_ok (sub16 sc w) (add16 sc w).
Proof.
  intros sc w Hw. unfold win_ok, sub16, add16.
  split; [|split].
  - apply Z.eqb_neq. unfold wrap16. lia.
  - apply wrap16_range.
  - unfold wrap16. lia.
Qed.

(* ------------------------------------------------------------------ legal_moves *)
Lemma legal_fold_inv : forall K p g l m,
  fold_right (fun m acc => l <- acc ;; q <- make_move K p m ;; ok <- is_legal q ;;
                           Ok (if ok then m :: l else l)) (Ok []) g = Ok l ->
  In m l -> In m g /\ exists q, make_move K p m = Ok q /\ is_legal q = Ok true.
Proof.
  intros K p g; induction g as [|a g IH]; intros l m Hl Hin.
  - cbn in Hl. inversion Hl; subst. destruct Hin.
  - cbn [fold_right] in Hl.
    match type of Hl with bind ?r _ = _ => destruct r as [l0| |] eqn:El0; cbn [bind] in Hl; try discriminate end.
    destruct (make_move K p a) as [qa| |] eqn:Ea; cbn [bind] in Hl; try discriminate.
    destruct (is_legal qa) as [ok| |] eqn:Eok; cbn [bind] in Hl; try discriminate.
    inversion Hl; subst l. destruct ok.
    + destruct Hin as [<-|Hin]; [split; [left; reflexivity|eauto]|].
      destruct (IH l0 m eq_refl Hin) as [H1 H2]. split; [right; exact H1|exact H2].
    + destruct (IH l0 m eq_refl Hin) as [H1 H2]. split; [right; exact H1|exact H2].
Qed.

Lemma mating_has_mating_move : forall K root m0, mating K root m0 -> has_mating_move K root.
Proof.
  intros K root m0 (l & q & Hl & Hin & Hmk & Hm). unfold legal_moves in Hl.
  destruct (gen_moves root) as [g| |] eqn:Hg; cbn [bind] in Hl; try discriminate.
  destruct (legal_fold_inv _ _ _ _ _ Hl Hin) as (Hing & q' & E1 & E2).
  exists g, (mv_low m0). split; [exact Hg|]. split; [exact Hing|].
  exists q'. split; [exact E1|]. split; [exact E2|].
  rewrite make_move_low in E1. rewrite Hmk in E1. inversion E1; subst. exact Hm.
Qed.

Section Iter.
Variable K : zkeys.
Variable EC : econsts.
Variable OC : oconsts.
Variable SC : sconsts.
Variable root : position.
Variable U : position -> Prop.
Hypothesis U_move : forall p m q, U p -> movable p m -> make_move K p m = Ok q -> is_legal q = Ok true -> U q.
Hypothesis U_null : forall p q x, U p -> is_in_check p (side p) = Ok false -> make_null_move K p = Ok (q, x) -> U q.
Hypothesis U_eval : forall p, U p -> eval_sane_at EC p.
Hypothesis U_coll : forall p, U p -> mate_hash K root (hash p) -> mated K p.
Hypothesis Hinf : INF EC = 32767.
Hypothesis Hplies : 2 <= ec_max_plies EC.
Hypothesis Hwiden : 1 <= sc_widen SC <= 32767.
Hypothesis U_root : U root.
Hypothesis few_root : few_gen root.
Hypothesis few_child : forall m q, gen_of root m -> make_move K root m = Ok q -> few_gen q.
Hypothesis Hex : has_mating_move K root.

Notation SaneR := (Sane EC (mate_hash K root)).
Notation headedR := (headed K root).

(* one completed root search of the loop: it is rejected, or its line is headed by a mating move *)
Lemma adopted_headed : forall fuel rep s d a b score line s0,
  (fuel <= 255)%nat -> (1 <= d <= 254)%N -> SaneR s -> win_ok a b ->
  search_root K EC OC SC fuel s root d a b = (ROk (score, line), s0) ->
  ((score <=? a) || (b <=? score)) && (negb rep || negb ((a =? - INF EC) && (b =? INF EC))) = false ->
  headedR line.
Proof.
  intros fuel rep s d a b score line s0 Hf Hd Hs (W1 & W2 & W3) E Hc.
  destruct (Z.eq_dec b 32767) as [Eb|Eb].
  - subst b. eapply (root_pv_mates K EC OC SC root U); eauto.
  - exfalso.
    assert (Hb : b <= score) by (eapply (root_cut_fails_high K EC OC SC root U); eauto; lia).
    apply Z.leb_le in Hb. rewrite Hb, orb_true_r in Hc. cbn [andb] in Hc.
    rewrite Hinf in Hc. destruct (Z.eqb_spec b 32767) as [E1|_]; [contradiction|].
    rewrite andb_false_r, orb_true_r in Hc. discriminate.
Qed.

Theorem iter_mates : forall iters fuel rep md,
  (fuel <= 255)%nat -> (md <= 254)%N ->
  forall s d a b r s',
  (1 <= d)%N -> SaneR s -> win_ok a b ->
  search_iterative K EC OC SC iters fuel rep s root md d a b = (r, s') ->
  SaneR s' /\ (s_pv s' = s_pv s \/ headedR (s_pv s')) /\
  (s_cancel s = None -> (d <= md)%N -> r = ROk tt -> headedR (s_pv s')).
Proof.
  intros iters fuel rep md Hf Hmd. induction iters as [|it IH]; intros s d a b r s' Hd Hs Hw E.
  - cbn in E. inversion E; subst. split; [exact Hs|]. split; [left; reflexivity|]. discriminate.
  - cbn [search_iterative] in E.
    destruct (md <? d)%N eqn:Hlt.
    { inversion E; subst. apply N.ltb_lt in Hlt. split; [exact Hs|]. split; [left; reflexivity|]. lia. }
    apply N.ltb_ge in Hlt.
    pose proof (search_root_frame K EC OC SC fuel s root d a b) as Hfr.
    pose proof (root_sane K EC OC SC root U U_move U_null U_eval U_coll U_root fuel s a b d) as Hrs.
    destruct (search_root K EC OC SC fuel s root d a b) as [[[score line]| | |] s0] eqn:Hsr.
    + specialize (Hfr _ _ eq_refl). destruct Hfr as [F1 F2 F3 F4 F5].
      specialize (Hrs _ _ Hs eq_refl).
      match type of E with (if ?c then _ else _) = _ => destruct c eqn:Hc end.
      * (* rejected: full window next *)
        apply IH in E; auto.
        -- destruct E as (E1 & E2 & E3). projs. split; [exact E1|]. split; [rewrite <- F4; exact E2|].
           intros Hn Hle Hr. apply E3; auto. congruence.
        -- rewrite Hinf. exact win_full.
      * (* adopted *)
        assert (Hh : headedR line) by (apply (adopted_headed fuel rep s d a b score line s0); auto; lia).
        assert (Hw8 : w8 (d + 1) = (d + 1)%N) by (unfold w8; apply N.mod_small; lia).
        rewrite Hw8 in E.
        apply IH in E; auto.
        -- destruct E as (E1 & E2 & E3). projs. split; [exact E1|].
           assert (Hfin : headedR (s_pv s')) by (destruct E2 as [E2|E2]; [rewrite E2; exact Hh|exact E2]).
           split; [right; exact Hfin|]. intros; exact Hfin.
        -- lia.
        -- apply win_asp. exact Hwiden.
    + specialize (Hfr _ _ eq_refl). destruct Hfr as [F1 F2 F3 F4 F5].
      inversion E; subst. split; [eapply Hrs; eauto|]. split; [left; exact F4|].
      intros Hn _ _. exfalso. eapply root_not_cancel; eauto.
    + specialize (Hfr _ _ eq_refl). destruct Hfr as [F1 F2 F3 F4 F5].
      inversion E; subst. split; [eapply Hrs; eauto|]. split; [left; exact F4|]. discriminate.
    + specialize (Hfr _ _ eq_refl). destruct Hfr as [F1 F2 F3 F4 F5].
      inversion E; subst. split; [eapply Hrs; eauto|]. split; [left; exact F4|]. discriminate.
Qed.

(* Search: the answer is the head of a line headed by a mating move *)
Theorem search_answers_mate_move : forall iters fuel rep s req m s',
  (fuel <= 255)%nat -> (req_to_depth SC req <= 254)%N ->
  SaneR s -> s_pv s = [] ->
  search K EC OC SC iters fuel rep s root req = (ROk m, s') ->
  gen_of root m /\ mate_move K root m.
Proof.
  intros iters fuel rep s req m s' Hf Hreq Hs Hpv E. unfold search in E. fold (req_to_depth SC req) in E.
  destruct (search_iterative K EC OC SC iters fuel rep s root (req_to_depth SC req) 1 (- INF EC) (INF EC))
    as [r1 s1] eqn:E1.
  assert (Hwf : win_ok (- INF EC) (INF EC)) by (rewrite Hinf; exact win_full).
  assert (H11 : (1 <= 1)%N) by lia.
  destruct (iter_mates _ _ _ _ Hf Hreq _ _ _ _ _ _ H11 Hs Hwf E1) as (A1 & A2 & _).
  destruct r1 as [[]| | |]; try discriminate.
  destruct (best_move s1 =? NULL_MOVE)%N eqn:Hbm.
  - destruct (search_iterative K EC OC SC iters fuel rep (set_cancel s1 None) root 1 1 (- INF EC) (INF EC))
      as [r2 s2] eqn:E2.
    assert (H1 : (1 <= 254)%N) by lia.
    assert (A1' : SaneR (set_cancel s1 None)) by exact A1.
    destruct (iter_mates _ _ _ _ Hf H1 _ _ _ _ _ _ H11 A1' Hwf E2) as (B1 & _ & B3).
    destruct r2 as [[]| | |]; try discriminate.
    inversion E; subst. unfold best_move; projs.
    destruct (B3 eq_refl ltac:(lia) eq_refl) as (m0 & t & Ep & Hg & Hm). rewrite Ep. cbn. auto.
  - inversion E; subst. apply N.eqb_neq in Hbm. unfold best_move in *.
    destruct A2 as [A2|(m0 & t & Ep & Hg & Hm)].
    + rewrite A2, Hpv in Hbm. cbn in Hbm. contradiction.
    + rewrite Ep. cbn. auto.
Qed.
End Iter.
