(* C13: the root node.  A root search over a position with a mating move
   - under a window (a, INF), -INF <= a <= INF - 2, returns a line headed by a mating move;
   - under a window (a, b) with b < INF returns a score >= b (which the iteration rejects). *)
From Coq Require Import NArith ZArith List Bool FMapPositive Lia.
From Clemens Require Import Base.Res Base.Word Pos.Types Att.Attacks Pos.Position Eval.Eval
     Search.TT Search.TTProofs Search.Ordering Search.OrderingProofs Search.Negamax Search.SearchStruct Search.SearchLines.
From Clemens.C13Mate Require Import MateDefs MateChild MateSane MateLoop MateQ MateRange MateNega.
Import ListNotations.
Open Scope Z_scope.

(* the hashes of the checkmated successors of the root *)
Definition mate_hash (K : zkeys) (root : position) (h : N) : Prop :=
  exists m q, gen_of root m /\ make_move K root m = Ok q /\ mated K q /\ h = hash q.

Lemma mated_dec : forall K q, mated K q \/ ~ mated K q.
Proof.
  intros K q. unfold mated.
  destruct (is_in_check q (side q)) as [[|]| |]; try (right; intros [E _]; discriminate).
  destruct (legal_moves K q) as [[|x l]| |]; try (right; intros [_ E]; discriminate).
  left; auto.
Qed.

Section Root.
Variable K : zkeys.
Variable EC : econsts.
Variable OC : oconsts.
Variable SC : sconsts.
Variable root : position.
Variable U : position -> Prop.
Hypothesis U_move : forall p m q, U p -> movable p m -> make_move K p m = Ok q -> is_legal q = Ok true -> U q.
Hypothesis U_null : forall p q x, U p -> is_in_check p (side p) = Ok false -> make_null_move K p = Ok (q, x) -> U q.
Hypothesis U_eval : forall p, U p -> eval_sane_at EC p.
Hypothesis U_coll : forall p, U p -> mate_hash K root (hash p) -> mated K p.
Hypothesis Hinf : INF EC = 32767.
Hypothesis Hplies : 2 <= ec_max_plies EC.
Hypothesis U_root : U root.
Hypothesis few_root : few_gen root.
Hypothesis few_child : forall m q, gen_of root m -> make_move K root m = Ok q -> few_gen q.

Notation SaneR := (Sane EC (mate_hash K root)).

Variable f : nat.
Hypothesis Hfuel : (N.of_nat f + 1 <= 255)%N.
Notation rec := (negamax K EC OC SC f).

Lemma rec_S : forall s q a b d pl cn pm rh, U q -> SaneR s -> specS EC (mate_hash K root) (rec s q a b d pl cn pm rh).
Proof. intros. apply (negamax_S K EC OC SC (mate_hash K root) U); assumption. Qed.

Lemma mate_move_low : forall m m0, mv_low m = mv_low m0 -> mate_move K root m0 -> mate_move K root m.
Proof.
  intros m m0 E (q & H1 & H2 & H3). exists q. split; [|auto].
  rewrite <- make_move_low, E, make_move_low. exact H1.
Qed.

(* ---- one move of the root: the PVS step *)
(* a mating move scores INF - 1, under every window *)
Lemma pvs_mate : forall s m q alpha beta d1 pm rh lg v line s',
  gen_of root m -> make_move K root m = Ok q -> is_legal q = Ok true -> mated K q -> SaneR s -> (d1 < 255)%N ->
  nm_pvs rec s q alpha beta d1 1 pm rh lg = (ROk (v, line), s') -> v = 32766.
Proof.
  intros s m q alpha beta d1 pm rh lg v line s' Hgm Hmk Hleg Hm Hs Hd. unfold nm_pvs. cbv zeta.
  assert (Hh : mate_hash K root (hash q)) by (exists m, q; split; [exact Hgm|split; [exact Hmk|split; [exact Hm|reflexivity]]]).
  assert (Huq : U q) by (eapply U_move; [exact U_root|apply gen_of_movable; exact Hgm|exact Hmk|exact Hleg]).
  assert (Hv : forall s0 a b v0 l0 s1, SaneR s0 ->
            rec s0 q a b d1 1 true pm rh = (ROk (v0, l0), s1) -> neg16 v0 = 32766 /\ SaneR s1).
  { intros s0 a b v0 l0 s1 Hs0 E.
    pose proof (mated_child_value K EC OC SC (mate_hash K root) f s0 q a b d1 1 true pm rh v0 l0 s1
                                  Hm Hd (proj1 Hs0) Hh E) as (Ev & _).
    subst v0. rewrite Hinf. split; [reflexivity|].
    eapply (negamax_sane K EC OC SC (mate_hash K root) U); eauto. }
  destruct (lg =? 1)%N.
  - destruct (rec s q (neg16 beta) (neg16 alpha) d1 1 true pm rh) as [[[v0 l0]| | |] s0] eqn:E; try discriminate.
    destruct (Hv _ _ _ _ _ _ Hs E) as [E1 _]. intro X; inversion X; subst. exact E1.
  - destruct (rec s q (sub16 (neg16 alpha) 1) (neg16 alpha) d1 1 true pm rh) as [[[v0 l0]| | |] s0] eqn:E; try discriminate.
    destruct (Hv _ _ _ _ _ _ Hs E) as [E1 Hs0]. rewrite E1.
    destruct (alpha <? 32766).
    + destruct (rec s0 q (neg16 beta) (neg16 alpha) d1 1 true pm rh) as [[[v1 l1]| | |] s1] eqn:E2; try discriminate.
      destruct (Hv _ _ _ _ _ _ Hs0 E2) as [E3 _]. intro X; inversion X; subst. exact E3.
    + intro X; inversion X; subst. reflexivity.
Qed.

(* a legal move that does not mate scores at most INF - 2 under (alpha, INF), alpha <= INF - 2 *)
Lemma pvs_nonmate : forall s m q alpha d1 pm rh lg v line s',
  gen_of root m -> make_move K root m = Ok q -> is_legal q = Ok true -> ~ mated K q -> SaneR s -> -32767 <= alpha <= 32765 ->
  nm_pvs rec s q alpha 32767 d1 1 pm rh lg = (ROk (v, line), s') -> -32768 <= v <= 32765.
Proof.
  intros s m q alpha d1 pm rh lg v line s' Hgm Hmk Hleg Hnm Hs Ha. unfold nm_pvs. cbv zeta.
  rewrite !(neg16_exact alpha) by lia. change (neg16 32767) with (-32767).
  assert (Huq : U q) by (eapply U_move; [exact U_root|apply gen_of_movable; exact Hgm|exact Hmk|exact Hleg]).
  assert (Hfull : forall s0 v0 l0 s1, SaneR s0 ->
            rec s0 q (-32767) (- alpha) d1 1 true pm rh = (ROk (v0, l0), s1) -> -32765 <= v0 <= 32767).
  { intros s0 v0 l0 s1 Hs0 E.
    eapply (negamax_lo K EC OC SC (mate_hash K root) U) in E; eauto; try lia.
    destruct E as [E1 [E2|(_ & _ & E2)]]; [lia|]. exfalso. apply Hnm, E2. eapply few_child; eauto. }
  destruct (lg =? 1)%N.
  - destruct (rec s q (-32767) (- alpha) d1 1 true pm rh) as [[[v0 l0]| | |] s0] eqn:E; try discriminate.
    pose proof (Hfull _ _ _ _ Hs E). intro X; inversion X; subst. rewrite neg16_exact by lia. lia.
  - destruct (rec s q (sub16 (- alpha) 1) (- alpha) d1 1 true pm rh) as [[[v0 l0]| | |] s0] eqn:E; try discriminate.
    assert (Hs0 : SaneR s0) by (eapply (negamax_sane K EC OC SC (mate_hash K root) U); eauto).
    destruct (alpha <? neg16 v0) eqn:E0.
    + destruct (rec s0 q (-32767) (- alpha) d1 1 true pm rh) as [[[v1 l1]| | |] s1] eqn:E2; try discriminate.
      pose proof (Hfull _ _ _ _ Hs0 E2). intro X; inversion X; subst. rewrite neg16_exact by lia. lia.
    + apply Z.ltb_ge in E0. intro X; inversion X; subst. pose proof (neg16_range v0). lia.
Qed.

Section Loops.
Variables (depth pm rh : N).
Hypothesis Hdepth : (1 <= depth <= 255)%N.

Lemma d1_lt : (w8 (depth + 256 - 1) < 255)%N.
Proof. unfold w8. Ltac Zify.zify_post_hook ::= Z.to_euclidean_division_equations. lia. Qed.

Definition has_mate (l : list N) : Prop := exists x, In x l /\ mate_move K root x.

Lemma has_mate_next : forall ms i m q,
  nth_error (sort_index ms i) i = Some m -> make_move K root m = Ok q ->
  (is_legal q = Ok false \/ ~ mated K q) ->
  has_mate (skipn i ms) -> has_mate (skipn (S i) (sort_index ms i)).
Proof.
  intros ms i m q En Hmk Hno (x & Hin & Hx).
  destruct (remaining_split _ _ _ _ En Hin) as [->|Hin']; [|exists x; auto].
  exfalso. destruct Hx as (q' & E1 & E2 & E3). rewrite Hmk in E1. inversion E1; subst q'.
  destruct Hno as [Hno|Hno]; [rewrite E2 in Hno; discriminate|contradiction].
Qed.

(* ---- windows below INF: the score reaches beta *)
Lemma loop_root_cut : forall beta k i ms s L L' c s',
  beta <= 32766 -> (i + k = length ms)%nat -> (forall x, In x ms -> gen_of root x) -> SaneR s -> has_mate (skipn i ms) ->
  nm_loop K OC rec root beta depth 0 pm rh false k i ms s L = (ROk (L', c), s') ->
  beta <= l_best_score L'.
Proof.
  intros beta k; induction k as [|k IH]; intros i ms s L L' c s' Hb Hlen Hgen Hs Hm Hrun.
  - exfalso. destruct Hm as (x & Hin & _). rewrite skipn_all2 in Hin by lia. destruct Hin.
  - unfold nm_loop in Hrun; fold (nm_loop K OC rec root beta depth 0 pm rh false) in Hrun. cbv zeta in Hrun.
    assert (Hlen' : (S i + k = length (sort_index ms i))%nat) by (rewrite sort_index_length; lia).
    assert (Hgen' : forall x, In x (sort_index ms i) -> gen_of root x)
      by (intros x Hx; apply Hgen; eapply sort_index_in; eauto).
    destruct (nth_error (sort_index ms i) i) as [m|] eqn:En; [|discriminate].
    assert (Hgm : gen_of root m) by (apply Hgen'; eapply nth_error_In; eauto).
    destruct (make_move K root m) as [q| |] eqn:Emk; try discriminate.
    destruct (is_legal q) as [[|]| |] eqn:Eleg; try discriminate.
    2: { eapply IH in Hrun; eauto. eapply has_mate_next; eauto. }
    cbv iota in Hrun. cbn [l_alpha l_best_score l_best_move l_legal l_node_type l_pvl] in Hrun.
    change (w8 (0 + 1)) with 1%N in Hrun.
    assert (Huq : U q) by (eapply U_move; [exact U_root|apply gen_of_movable; exact Hgm|exact Emk|exact Eleg]).
    pose proof (pvs_S EC (mate_hash K root) U rec rec_S s q (l_alpha L) beta (w8 (depth + 256 - 1)) 1%N pm rh
                      (w8 (l_legal L + 1)) Huq Hs) as Hs1.
    destruct (nm_pvs rec s q (l_alpha L) beta (w8 (depth + 256 - 1)) 1 pm rh (w8 (l_legal L + 1)))
      as [[[score cl]| | |] s1] eqn:Epvs; try discriminate.
    unfold specS in Hs1; cbn [snd] in Hs1.
    assert (Hbs : forall bs bm, (if l_best_score L <? score then (score, m) else (l_best_score L, l_best_move L)) = (bs, bm) ->
                  score <= bs).
    { intros bs bm E. destruct (l_best_score L <? score) eqn:E1; inversion E; subst;
        [apply Z.ltb_lt in E1|apply Z.ltb_ge in E1]; lia. }
    destruct (if l_best_score L <? score then (score, m) else (l_best_score L, l_best_move L)) as [bs bm].
    specialize (Hbs _ _ eq_refl).
    destruct (beta <=? score) eqn:Ecut.
    + apply Z.leb_le in Ecut.
      destruct (bind (get_piece root (mv_dst m)) _) as [qt| |]; try discriminate.
      inversion Hrun; subst. cbn [l_best_score]. lia.
    + apply Z.leb_gt in Ecut.
      assert (Hnm : ~ mated K q).
      { intro Hmq. pose proof (pvs_mate _ _ _ _ _ _ _ _ _ _ _ _ Hgm Emk Eleg Hmq Hs d1_lt Epvs). lia. }
      destruct (l_alpha L <? score); eapply IH in Hrun; eauto; eapply has_mate_next; eauto.
Qed.

(* ---- windows (a, INF) *)
Definition PhA (i : nat) (ms : list N) (L : lst) : Prop :=
  -32767 <= l_alpha L <= 32765 /\ l_best_score L <= 32765 /\ has_mate (skipn i ms).
Definition headed (l : list N) : Prop := exists m t, l = m :: t /\ gen_of root m /\ mate_move K root m.
Definition PhB (L : lst) : Prop := l_alpha L = 32766 /\ headed (l_pvl L).

Lemma loop_root_pv : forall k i ms s L L' c s',
  (i + k = length ms)%nat -> (forall x, In x ms -> gen_of root x) -> SaneR s -> (PhA i ms L \/ PhB L) ->
  nm_loop K OC rec root 32767 depth 0 pm rh false k i ms s L = (ROk (L', c), s') ->
  headed (l_pvl L').
Proof.
  induction k as [|k IH]; intros i ms s L L' c s' Hlen Hgen Hs Hph Hrun.
  - cbn in Hrun. inversion Hrun; subst. destruct Hph as [(_ & _ & (x & Hin & _))|[_ Hh]]; [|exact Hh].
    exfalso. rewrite skipn_all2 in Hin by lia. destruct Hin.
  - unfold nm_loop in Hrun; fold (nm_loop K OC rec root 32767 depth 0 pm rh false) in Hrun. cbv zeta in Hrun.
    assert (Hlen' : (S i + k = length (sort_index ms i))%nat) by (rewrite sort_index_length; lia).
    assert (Hgen' : forall x, In x (sort_index ms i) -> gen_of root x)
      by (intros x Hx; apply Hgen; eapply sort_index_in; eauto).
    destruct (nth_error (sort_index ms i) i) as [m|] eqn:En; [|discriminate].
    assert (Hgm : gen_of root m) by (apply Hgen'; eapply nth_error_In; eauto).
    destruct (make_move K root m) as [q| |] eqn:Emk; try discriminate.
    destruct (is_legal q) as [[|]| |] eqn:Eleg; try discriminate.
    2: { eapply IH in Hrun; eauto. destruct Hph as [(A1 & A2 & A3)|B]; [left|right; exact B].
         split; [exact A1|split; [exact A2|eapply has_mate_next; eauto]]. }
    cbv iota in Hrun. cbn [l_alpha l_best_score l_best_move l_legal l_node_type l_pvl] in Hrun.
    change (w8 (0 + 1)) with 1%N in Hrun.
    assert (Huq : U q) by (eapply U_move; [exact U_root|apply gen_of_movable; exact Hgm|exact Emk|exact Eleg]).
    pose proof (pvs_S EC (mate_hash K root) U rec rec_S s q (l_alpha L) 32767 (w8 (depth + 256 - 1)) 1%N pm rh
                      (w8 (l_legal L + 1)) Huq Hs) as Hs1.
    destruct (nm_pvs rec s q (l_alpha L) 32767 (w8 (depth + 256 - 1)) 1 pm rh (w8 (l_legal L + 1)))
      as [[[score cl]| | |] s1] eqn:Epvs; try discriminate.
    unfold specS in Hs1; cbn [snd] in Hs1.
    pose proof (pvs_range _ _ _ _ _ _ _ _ _ _ _ _ _ Epvs) as Hr.
    destruct Hph as [(A1 & A2 & A3)|[B1 B2]].
    + (* before the first mating move *)
      destruct (mated_dec K q) as [Hmq|Hnm].
      * pose proof (pvs_mate _ _ _ _ _ _ _ _ _ _ _ _ Hgm Emk Eleg Hmq Hs d1_lt Epvs) as Esc. subst score.
        assert (E1 : (l_best_score L <? 32766) = true) by (apply Z.ltb_lt; lia).
        assert (E2 : (l_alpha L <? 32766) = true) by (apply Z.ltb_lt; lia).
        rewrite E1, E2 in Hrun. change (32767 <=? 32766) with false in Hrun. cbv iota in Hrun.
        eapply IH in Hrun; eauto. right. split; [reflexivity|]. cbn [l_pvl].
        exists m, cl. split; [reflexivity|]. split; [exact Hgm|]. exists q; auto.
      * pose proof (pvs_nonmate _ _ _ _ _ _ _ _ _ _ _ Hgm Emk Eleg Hnm Hs A1 Epvs) as Hsc.
        assert (Hbs : forall bs bm, (if l_best_score L <? score then (score, m) else (l_best_score L, l_best_move L)) = (bs, bm) ->
                      bs <= 32765).
        { intros bs bm E. destruct (l_best_score L <? score) eqn:E1; inversion E; subst; lia. }
        destruct (if l_best_score L <? score then (score, m) else (l_best_score L, l_best_move L)) as [bs bm].
        specialize (Hbs _ _ eq_refl).
        destruct (32767 <=? score) eqn:Ecut; [apply Z.leb_le in Ecut; lia|].
        destruct (l_alpha L <? score) eqn:Er; [apply Z.ltb_lt in Er|]; eapply IH in Hrun; eauto; left;
          (split; [cbn [l_alpha]; lia|split; [cbn [l_best_score]; lia|eapply has_mate_next; eauto]]).
    + (* after it: the line is never rewritten *)
      destruct (if l_best_score L <? score then (score, m) else (l_best_score L, l_best_move L)) as [bs bm].
      destruct (32767 <=? score) eqn:Ecut.
      * destruct (bind (get_piece root (mv_dst m)) _) as [qt| |]; try discriminate.
        inversion Hrun; subst. cbn [l_pvl]. exact B2.
      * apply Z.leb_gt in Ecut.
        destruct (l_alpha L <? score) eqn:Er; [apply Z.ltb_lt in Er; lia|].
        eapply IH in Hrun; eauto. right. split; cbn [l_alpha l_pvl]; assumption.
Qed.
End Loops.
End Root.
