(* C13: the score bounds Lo / Hi for negamax, by induction on the recursion depth.
   Plies stay below 256 (ply is a uint8 in the Go code): recursion depth + ply <= 255. *)
From Coq Require Import NArith ZArith List Bool FMapPositive Lia.
From Clemens Require Import Base.Res Base.Word Pos.Types Att.Attacks Pos.Position Eval.Eval
     Search.TT Search.TTProofs Search.Ordering Search.OrderingProofs Search.Negamax Search.SearchStruct Search.SearchLines.
From Clemens.C13Mate Require Import MateDefs MateChild MateSane MateLoop MateQ MateRange.
Import ListNotations.
Open Scope Z_scope.

Section Nega.
Variable K : zkeys.
Variable EC : econsts.
Variable OC : oconsts.
Variable SC : sconsts.
Variable H : N -> Prop.
Variable U : position -> Prop.
Hypothesis U_move : forall p m q, U p -> movable p m -> make_move K p m = Ok q -> is_legal q = Ok true -> U q.
Hypothesis U_null : forall p q x, U p -> is_in_check p (side p) = Ok false -> make_null_move K p = Ok (q, x) -> U q.
Hypothesis U_eval : forall p, U p -> eval_sane_at EC p.
Hypothesis U_coll : forall p, U p -> H (hash p) -> mated K p.
Hypothesis Hinf : INF EC = 32767.
Hypothesis Hplies : 2 <= ec_max_plies EC.

Definition LoAt (f : nat) : Prop :=
  forall s p b depth ply cn pm rh, U p -> Sane EC H s -> -32765 <= b <= 32767 ->
    (1 <= ply)%N -> (N.of_nat f + ply <= 255)%N ->
    specLo K p ply (negamax K EC OC SC f s p (-32767) b depth ply cn pm rh).
Definition HiAt (f : nat) : Prop :=
  forall s p a depth ply cn pm rh, U p -> Sane EC H s -> -32767 <= a <= 32765 ->
    (1 <= ply)%N -> (N.of_nat f + ply <= 255)%N ->
    specHi (negamax K EC OC SC f s p a 32767 depth ply cn pm rh).

Lemma negamax_lohi : forall f, LoAt f /\ HiAt f.
Proof.
  induction f as [|f [IHlo IHhi]].
  - split; intros s p; intros; cbn; exact I.
  - assert (HS : forall s q a b d pl cn pm rh, U q -> Sane EC H s ->
                   specS EC H (negamax K EC OC SC f s q a b d pl cn pm rh))
      by (intros; apply (negamax_S K EC OC SC H U); assumption).
    assert (HPB : (255 - N.of_nat f <= 255)%N) by lia.
    assert (HL : forall s q b d pl cn pm rh, U q -> Sane EC H s -> -32765 <= b <= 32767 ->
                   (1 <= pl <= 255 - N.of_nat f)%N ->
                   specLo K q pl (negamax K EC OC SC f s q (-32767) b d pl cn pm rh))
      by (intros; apply IHlo; auto; lia).
    assert (HH : forall s q a d pl cn pm rh, U q -> Sane EC H s -> -32767 <= a <= 32765 ->
                   (1 <= pl <= 255 - N.of_nat f)%N ->
                   specHi (negamax K EC OC SC f s q a 32767 d pl cn pm rh))
      by (intros; apply IHhi; auto; lia).
    split.
    + intros s p b depth ply cn pm rh Hu Hs Hb Hp1 Hpf.
      rewrite negamax_eq. cbv zeta.
      assert (Hp : Sane EC H (snd (poll s))) by (apply poll_S; exact Hs).
      destruct (poll s) as [[|] s0]; [exact I|]. cbn [snd] in Hp.
      destruct (is_in_check p (side p)) as [ic| |] eqn:Hic; try exact I.
      destruct ((if ic then w8 (depth + 1) else depth) =? 0)%N.
      { destruct (quiescence K EC OC SC f s0 p (-32767) b ply) as [[v| | |] s1] eqn:Eq; try exact I.
        eapply (quiescence_lo K EC OC SC H U) in Eq; eauto.
        unfold specLo; cbn [fst]. lia. }
      match goal with |- context [if ?c then _ else _] => destruct c end.
      { destruct (contempt EC p) as [ct| |] eqn:Ect; cbn [of_res bind]; try exact I.
        unfold specLo; cbn [fst]. pose proof (contempt_range EC U U_eval Hinf Hplies p ct Hu Ect) as Hcr. lia. }
      pose proof (push_A SC (upd_nodes s0 (w64 (s_nodes s0 + 1))) p) as Hh.
      destruct (push_history SC (upd_nodes s0 (w64 (s_nodes s0 + 1))) p) as [s1| | |]; try exact I. subst s1.
      match goal with |- context [nm_inner K EC OC SC ?r ?s1 p ?a ?bb ?d ply cn pm rh ic] =>
        assert (Hin : specLo K p ply (nm_inner K EC OC SC r s1 p a bb d ply cn pm rh ic))
          by (eapply (inner_lo K EC OC SC H U) with (PB := (255 - N.of_nat f)%N); eauto; lia)
      end.
      unfold specLo in *; cbn [fst] in *. exact Hin.
    + intros s p a depth ply cn pm rh Hu Hs Ha Hp1 Hpf.
      rewrite negamax_eq. cbv zeta.
      assert (Hp : Sane EC H (snd (poll s))) by (apply poll_S; exact Hs).
      destruct (poll s) as [[|] s0]; [exact I|]. cbn [snd] in Hp.
      destruct (is_in_check p (side p)) as [ic| |] eqn:Hic; try exact I.
      destruct ((if ic then w8 (depth + 1) else depth) =? 0)%N.
      { destruct (quiescence K EC OC SC f s0 p a 32767 ply) as [[v| | |] s1] eqn:Eq; try exact I.
        eapply (quiescence_hi K EC OC SC H U) in Eq; eauto.
        unfold specHi; cbn [fst]. lia. }
      match goal with |- context [if ?c then _ else _] => destruct c end.
      { destruct (contempt EC p) as [ct| |] eqn:Ect; cbn [of_res bind]; try exact I.
        unfold specHi; cbn [fst]. pose proof (contempt_range EC U U_eval Hinf Hplies p ct Hu Ect) as Hcr. lia. }
      pose proof (push_A SC (upd_nodes s0 (w64 (s_nodes s0 + 1))) p) as Hh.
      destruct (push_history SC (upd_nodes s0 (w64 (s_nodes s0 + 1))) p) as [s1| | |]; try exact I. subst s1.
      match goal with |- context [nm_inner K EC OC SC ?r ?s1 p ?aa ?bb ?d ply cn pm rh ic] =>
        assert (Hin : specHi (nm_inner K EC OC SC r s1 p aa bb d ply cn pm rh ic))
          by (eapply (inner_hi K EC OC SC H U) with (PB := (255 - N.of_nat f)%N); eauto; lia)
      end.
      unfold specHi in *; cbn [fst] in *. exact Hin.
Qed.

(* Lo, as an implication: under (-INF, b) with b >= -INF + 2 at ply >= 1 *)
Theorem negamax_lo : forall f s p b depth ply cn pm rh v line s',
  U p -> Sane EC H s -> -32765 <= b <= 32767 -> (1 <= ply)%N -> (N.of_nat f + ply <= 255)%N ->
  negamax K EC OC SC f s p (-32767) b depth ply cn pm rh = (ROk (v, line), s') ->
  v <= 32767 /\ (-32765 <= v \/ (ply = 1%N /\ v = -32766 /\ (few_gen p -> mated K p))).
Proof.
  intros f s p b depth ply cn pm rh v line s' Hu Hs Hb H1 Hf E.
  pose proof (proj1 (negamax_lohi f) s p b depth ply cn pm rh Hu Hs Hb H1 Hf) as X.
  rewrite E in X. exact X.
Qed.
End Nega.
