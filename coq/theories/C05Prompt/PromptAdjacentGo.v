(* C05, whole-call form: "the stop j polls later costs at most j more nodes" and the Go build instances
   of the comparison theorems of PromptAdjacent.v. *)
From Coq Require Import NArith ZArith List Bool FMapPositive Lia.
From Clemens Require Import Base.Res Base.Word Pos.Types Att.Attacks Pos.Position Eval.Eval
     Search.TT Search.Ordering Search.Negamax Search.SearchStruct Search.GoInst.
From Clemens.C05Prompt Require Import PromptBase PromptWalk PromptSyncBase PromptSync PromptAdjacent.
Import ListNotations.
Open Scope Z_scope.

Section Later.
Variable K : zkeys.
Variable EC : econsts.
Variable OC : oconsts.
Variable SC : sconsts.

(* by induction on j from the adjacent case and the determinism of the prefix *)
Theorem negamax_stop_later : forall j f s p alpha beta depth ply cn pm rh k sx r2 sy,
  s_cancel s = Some k ->
  negamax K EC OC SC f s p alpha beta depth ply cn pm rh = (RCancel, sx) ->
  negamax K EC OC SC f (set_cancel s (Some (k + j)%N)) p alpha beta depth ply cn pm rh = (r2, sy) ->
  exists e, (e <= j)%N /\ s_nodes sy = addw (s_nodes sx) e.
Proof.
  induction j as [|j IH] using N.peano_ind; intros f s p alpha beta depth ply cn pm rh k sx r2 sy Hk Hx Hy.
  - exists 0%N. split; [lia|]. rewrite N.add_0_r in Hy.
    assert (E : set_cancel s (Some k) = s) by (destruct s; cbn in *; subst; reflexivity).
    rewrite E, Hx in Hy. inversion Hy; subst. symmetry; apply addw_0.
  - destruct (negamax K EC OC SC f (set_cancel s (Some (k + j)%N)) p alpha beta depth ply cn pm rh) as [r1 s1] eqn:H1.
    destruct (IH f s p alpha beta depth ply cn pm rh k sx r1 s1 Hk Hx H1) as (e & He & Hn).
    replace (k + N.succ j)%N with (k + j + 1)%N in Hy by lia.
    destruct r1 as [v| | |].
    + assert (Hirr := negamax_oracle_irrelevant K EC OC SC (Some (k + j + 1)%N) f (set_cancel s (Some (k + j)%N))
                       p alpha beta depth ply cn pm rh (ROk v) s1).
      rewrite sc_sc in Hirr. rewrite Hirr in Hy; [|cbn; lia|exact H1|discriminate].
      inversion Hy; subst. exists e. split; [lia|]. rewrite sc_nodes. exact Hn.
    + assert (Hadj := negamax_stop_one_poll_later K EC OC SC f (set_cancel s (Some (k + j)%N))
                       p alpha beta depth ply cn pm rh (k + j)%N s1 r2 sy eq_refl H1).
      rewrite sc_sc in Hadj. destruct (Hadj Hy) as [[E|E] _].
      * exists e. split; [lia|]. rewrite E. exact Hn.
      * exists (e + 1)%N. split; [lia|]. rewrite E, Hn, <- addw_1, addw_addw. reflexivity.
    + assert (Hirr := negamax_oracle_irrelevant K EC OC SC (Some (k + j + 1)%N) f (set_cancel s (Some (k + j)%N))
                       p alpha beta depth ply cn pm rh RPanic s1).
      rewrite sc_sc in Hirr. rewrite Hirr in Hy; [|cbn; lia|exact H1|discriminate].
      inversion Hy; subst. exists e. split; [lia|]. rewrite sc_nodes. exact Hn.
    + assert (Hirr := negamax_oracle_irrelevant K EC OC SC (Some (k + j + 1)%N) f (set_cancel s (Some (k + j)%N))
                       p alpha beta depth ply cn pm rh ROutOfFuel s1).
      rewrite sc_sc in Hirr. rewrite Hirr in Hy; [|cbn; lia|exact H1|discriminate].
      inversion Hy; subst. exists e. split; [lia|]. rewrite sc_nodes. exact Hn.
Qed.
End Later.

(* ------------------------------------------------------------------ Go build instances *)
(* Had the stop come one poll later, the call would have counted at most one more node. *)
Theorem go_negamax_stop_one_poll_later : forall f s p alpha beta depth ply cn pm rh k sx r2 sy,
  s_cancel s = Some k ->
  go_negamax f s p alpha beta depth ply cn pm rh = (RCancel, sx) ->
  go_negamax f (set_cancel s (Some (k + 1)%N)) p alpha beta depth ply cn pm rh = (r2, sy) ->
  (s_nodes sy = s_nodes sx \/ s_nodes sy = w64 (s_nodes sx + 1)) /\
  (r2 <> RCancel -> s_polls sy = (k + 1)%N).
Proof. exact (negamax_stop_one_poll_later go_keys go_econsts go_oconsts go_sconsts). Qed.

Theorem go_quiescence_stop_one_poll_later : forall f s p alpha beta ply k sx r2 sy,
  s_cancel s = Some k ->
  go_quiescence f s p alpha beta ply = (RCancel, sx) ->
  go_quiescence f (set_cancel s (Some (k + 1)%N)) p alpha beta ply = (r2, sy) ->
  (s_nodes sy = s_nodes sx \/ s_nodes sy = w64 (s_nodes sx + 1)) /\
  (r2 <> RCancel -> s_polls sy = (k + 1)%N /\ s_nodes sy = s_nodes sx).
Proof. exact (quiescence_stop_one_poll_later go_keys go_econsts go_oconsts go_sconsts). Qed.

Theorem go_search_root_stop_one_poll_later : forall fuel s root d a b k sx r2 sy,
  s_cancel s = Some k ->
  go_search_root fuel s root d a b = (RCancel, sx) ->
  go_search_root fuel (set_cancel s (Some (k + 1)%N)) root d a b = (r2, sy) ->
  (s_nodes sy = s_nodes sx \/ s_nodes sy = w64 (s_nodes sx + 1)) /\
  (r2 <> RCancel -> s_polls sy = (k + 1)%N).
Proof. exact (search_root_stop_one_poll_later go_keys go_econsts go_oconsts go_sconsts). Qed.

(* j polls later: at most j more nodes ([addw]: unwrapped count) *)
Theorem go_negamax_stop_later : forall j f s p alpha beta depth ply cn pm rh k sx r2 sy,
  s_cancel s = Some k ->
  go_negamax f s p alpha beta depth ply cn pm rh = (RCancel, sx) ->
  go_negamax f (set_cancel s (Some (k + j)%N)) p alpha beta depth ply cn pm rh = (r2, sy) ->
  exists e, (e <= j)%N /\ s_nodes sy = addw (s_nodes sx) e.
Proof. exact (negamax_stop_later go_keys go_econsts go_oconsts go_sconsts). Qed.

(* ------------------------------------------------------------------ non-vacuity *)
(* start position, depth 2, full window: node counter and poll counter when stopped at poll k *)
Definition ex_stop_at (c : N) : option (N * N) :=
  match go_new_position with
  | Ok root =>
      let '(r, s) := go_search_root 50 (go_empty_sst (Some c)) root 2 (- INF go_econsts) (INF go_econsts) in
      match r with RCancel => Some (s_nodes s, s_polls s) | _ => None end
  | _ => None
  end.
Example ex_stop_profile :
  map ex_stop_at [0; 1; 2; 3; 4; 5; 6; 7; 8; 9]%N =
  [Some (0, 1); Some (1, 2); Some (2, 3); Some (3, 4); Some (3, 5); Some (4, 6); Some (4, 7); Some (5, 8);
   Some (5, 9); Some (6, 10)]%N.
Proof. vm_compute. reflexivity. Qed.

Print Assumptions go_negamax_stop_one_poll_later.
Print Assumptions go_quiescence_stop_one_poll_later.
Print Assumptions go_search_root_stop_one_poll_later.
Print Assumptions go_negamax_stop_later.
