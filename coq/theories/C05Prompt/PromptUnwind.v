(* C05, whole-call form, goal 3 per frame: EVERY FRAME ABOVE THE STOP RETURNS THE ERROR AND NOTHING ELSE.
   The bodies of [negamax] and [quiescence] are taken with their recursive calls abstracted
   ([nm_body rec qrec], [q_body qrec]; the model is [nm_body (negamax f) (quiescence f)], by conversion).
   For ARBITRARY functions [rec], [qrec] in the place of the recursive calls: if the body returns the
   error, the state it returns is - untouched - the state in which one of its callees returned the error,
   or the state in which one of its own polls reported done; negamax pops its own entry off the
   repetition stack and does nothing else.  No table, cache or heuristic write, no node counted, no
   poll after the stop, in any frame.  (Because [rec] is arbitrary this is a statement about the code of
   the frame alone.) *)
From Coq Require Import NArith ZArith List Bool FMapPositive Lia.
From Clemens Require Import Base.Res Base.Word Pos.Types Att.Attacks Pos.Position Eval.Eval
     Search.TT Search.Ordering Search.Negamax Search.SearchStruct.
Import ListNotations.
Open Scope Z_scope.

(* [s'] is the state in which a poll reported done: the polled state with the poll counted *)
Definition poll_out (s' : sst) : Prop := exists s0, poll s0 = (true, s').
(* [s'] is the state in which a call of [rec] / [qrec] returned the error *)
Definition rec_out (rec : nm_rec) (s' : sst) : Prop :=
  exists s0 q a b d pl cn pm rh, rec s0 q a b d pl cn pm rh = (RCancel, s').
Definition qrec_out (qrec : q_rec) (s' : sst) : Prop :=
  exists s0 q a b pl, qrec s0 q a b pl = (RCancel, s').

Lemma poll_out_spec : forall s', poll_out s' <->
  exists s0, cancelled s0 /\ s' = set_polls s0 (s_polls s0 + 1).
Proof.
  intro s'. split.
  - intros (s0 & H). exists s0. unfold poll in H. inversion H as [[H1 H2]]. split.
    + unfold cancelled. destruct (s_cancel s0); [apply N.leb_le; exact H1|discriminate].
    + reflexivity.
  - intros (s0 & Hc & ->). exists s0. apply poll_cancelled. exact Hc.
Qed.

Section Unwind.
Variable K : zkeys.
Variable EC : econsts.
Variable OC : oconsts.
Variable SC : sconsts.

Definition nm_body (rec : nm_rec) (qrec : q_rec) (s : sst) (p : position) (alpha beta : Z) (depth ply : N)
  (can_null : bool) (prev_move root_hmc : N) : sresult (Z * list N) * sst :=
    let '(done, s) := poll s in
    if done then (RCancel, s) else
    let is_root := (ply =? 0)%N in
    match is_in_check p (side p) with
    | Ok in_check =>
      let depth := if in_check then w8 (depth + 1) else depth in
      if (depth =? 0)%N then
        match qrec s p alpha beta ply with
        | (ROk v, s) => (ROk (v, []), s)
        | (RCancel, s) => (RCancel, s)
        | (RPanic, s) => (RPanic, s)
        | (ROutOfFuel, s) => (ROutOfFuel, s)
        end
      else
      let s := upd_nodes s (w64 (s_nodes s + 1)) in
      let rep := negb is_root && negb in_check && is_repetition s p in
      if rep then (of_res (c <- contempt EC p ;; Ok (c, [])), s) else
      match push_history SC s p with
      | ROk s => let r := nm_inner K EC OC SC rec s p alpha beta depth ply can_null prev_move root_hmc in_check in
                 (fst r, pop_history (snd r))
      | _ => (RPanic, s)
      end
    | _ => (RPanic, s)
    end.

Definition q_body (qrec : q_rec) (s : sst) (p : position) (alpha beta : Z) (ply : N) : sresult Z * sst :=
    let s := upd_nodes s (w64 (s_nodes s + 1)) in
    let '(done, s) := poll s in
    if done then (RCancel, s) else
    match evaluate EC s p with
    | ROk (stand_pat, s) =>
      if beta <=? stand_pat then (ROk beta, s) else
      let alpha := if alpha <? stand_pat then stand_pat else alpha in
      if (ply =? sc_q_max_depth SC)%N then (ROk alpha, s) else
      match gen_captures p with
      | Ok caps =>
        match score_moves OC p (hctx_of s p NULL_MOVE NULL_MOVE ply) caps with
        | Ok ms =>
          q_loop K EC qrec p stand_pat beta ply (length ms) 0%nat ms s alpha
        | _ => (RPanic, s)
        end
      | _ => (RPanic, s)
      end
    | _ => (RPanic, s)
    end.

(* the model IS these bodies applied to itself *)
Lemma negamax_is_body : forall f s p alpha beta depth ply can_null prev_move root_hmc,
  negamax K EC OC SC (S f) s p alpha beta depth ply can_null prev_move root_hmc =
  nm_body (negamax K EC OC SC f) (quiescence K EC OC SC f) s p alpha beta depth ply can_null prev_move root_hmc.
Proof. reflexivity. Qed.

Lemma quiescence_is_body : forall f s p alpha beta ply,
  quiescence K EC OC SC (S f) s p alpha beta ply = q_body (quiescence K EC OC SC f) s p alpha beta ply.
Proof. reflexivity. Qed.

Definition specU {A} (R : sst -> Prop) (x : sresult A * sst) : Prop := fst x = RCancel -> R (snd x).

Ltac walkU := cbv zeta;
  repeat lazymatch goal with
         | |- specU _ (match ?x with _ => _ end) => destruct x eqn:?
         end.
Ltac trivU := unfold specU; cbn [fst snd]; intro; discriminate.

Lemma evaluate_not_cancel : forall s p, evaluate EC s p <> RCancel.
Proof. intros s p. unfold evaluate. destruct (eval_cached EC (s_cache s) p) as [[? ?]| |]; discriminate. Qed.

Section WithRec.
Variable rec : nm_rec.

Lemma pvs_U : forall s q alpha beta d1 pl1 pm rh lg,
  specU (rec_out rec) (nm_pvs rec s q alpha beta d1 pl1 pm rh lg).
Proof.
  intros. unfold nm_pvs. walkU. all: try trivU.
  all: unfold specU; cbn [fst snd]; intros _; unfold rec_out; eauto 12.
Qed.

Lemma nmp_U : forall s p beta depth ply cn ic pv rh,
  specU (rec_out rec) (nm_nmp K EC rec s p beta depth ply cn ic pv rh).
Proof.
  intros. unfold nm_nmp. walkU. all: try trivU.
  all: try (exfalso; eapply evaluate_not_cancel; eassumption).
  all: unfold specU; cbn [fst snd]; intros _; unfold rec_out; eauto 12.
Qed.

Lemma loop_U : forall p beta depth ply pm rh fp k i ms s L,
  specU (rec_out rec) (nm_loop K OC rec p beta depth ply pm rh fp k i ms s L).
Proof.
  intros p beta depth ply pm rh fp k; induction k as [|k IH]; intros.
  - cbn. trivU.
  - unfold nm_loop; fold (nm_loop K OC rec p beta depth ply pm rh fp). cbv zeta.
    repeat lazymatch goal with
           | |- specU _ (nm_loop K OC rec p beta depth ply pm rh fp k _ _ _ _) => apply IH
           | |- specU _ (match ?x with _ => _ end) => destruct x eqn:?
           end.
    all: try trivU.
    all: unfold specU; cbn [fst snd]; intros _.
    all: match goal with
         | H : nm_pvs rec ?s ?q ?a ?b ?d ?pl ?pm ?rh ?lg = (RCancel, ?s1) |- _ =>
             pose proof (pvs_U s q a b d pl pm rh lg) as HU; rewrite H in HU; exact (HU eq_refl)
         end.
Qed.

Lemma nm_snm_not_cancel : forall s p beta depth ic pv, nm_snm EC SC s p beta depth ic pv <> RCancel.
Proof.
  intros. unfold nm_snm. destruct (negb ic && negb pv && negb (is_checkmate_value EC beta)); [|discriminate].
  pose proof (evaluate_not_cancel s p). destruct (evaluate EC s p) as [[? ?]| | |]; try discriminate. congruence.
Qed.
Lemma nm_fpr_not_cancel : forall s p alpha beta depth ic pv, nm_fpr EC SC s p alpha beta depth ic pv <> RCancel.
Proof.
  intros. unfold nm_fpr. match goal with |- context [if ?b then _ else _] => destruct b end; [|discriminate].
  destruct (evaluate EC s p) as [[? ?]| | |]; try discriminate; destruct (nthz (sc_fut_margin SC) depth); discriminate.
Qed.

Lemma inner_U : forall s p alpha beta depth ply cn pm rh ic,
  specU (fun s' => rec_out rec s' \/ poll_out s') (nm_inner K EC OC SC rec s p alpha beta depth ply cn pm rh ic).
Proof.
  intros. unfold nm_inner. walkU. all: try trivU.
  all: try (exfalso; eapply nm_snm_not_cancel; eassumption).
  all: try (exfalso; eapply nm_fpr_not_cancel; eassumption).
  all: try match goal with |- context [contempt EC ?p] => destruct (contempt EC p); cbn [of_res bind]; trivU end.
  all: unfold specU; cbn [fst snd]; intros _.
  all: try match goal with
         | H : nm_nmp K EC rec ?s ?p ?b ?d ?pl ?cn ?ic ?pv ?rh = (RCancel, ?s1) |- _ =>
             left; pose proof (nmp_U s p b d pl cn ic pv rh) as HU; rewrite H in HU; exact (HU eq_refl)
         | H : nm_loop K OC rec ?p ?b ?d ?pl ?pm ?rh ?fp ?k ?i ?ms ?s ?L = (RCancel, ?s1) |- _ =>
             left; pose proof (loop_U p b d pl pm rh fp k i ms s L) as HU; rewrite H in HU; exact (HU eq_refl)
         end.
  all: right; unfold poll_out; eauto.
Qed.
End WithRec.

Section WithQRec.
Variable qrec : q_rec.

Lemma qloop_U : forall p sp beta ply k i ms s alpha,
  specU (qrec_out qrec) (q_loop K EC qrec p sp beta ply k i ms s alpha).
Proof.
  intros p sp beta ply k; induction k as [|k IH]; intros.
  - cbn. trivU.
  - unfold q_loop; fold (q_loop K EC qrec p sp beta ply). cbv zeta.
    repeat lazymatch goal with
           | |- specU _ (q_loop K EC qrec p sp beta ply k _ _ _ _) => apply IH
           | |- specU _ (match ?x with _ => _ end) => destruct x eqn:?
           end.
    all: try trivU.
    all: unfold specU; cbn [fst snd]; intros _; unfold qrec_out; eauto 8.
Qed.

(* quiescence: the state returned with the error is the one in which its own poll, or a callee, stopped *)
Theorem q_body_unwinds : forall s p alpha beta ply s',
  q_body qrec s p alpha beta ply = (RCancel, s') -> poll_out s' \/ qrec_out qrec s'.
Proof.
  intros s p alpha beta ply s' H.
  assert (HU : specU (fun s' => poll_out s' \/ qrec_out qrec s') (q_body qrec s p alpha beta ply)).
  { clear H. unfold q_body.
    cbv zeta.
    repeat lazymatch goal with
           | |- specU _ (q_loop K EC qrec ?p ?sp ?b ?pl ?k ?i ?ms ?s ?a) =>
               let HU := fresh "HU" in
               pose proof (qloop_U p sp b pl k i ms s a) as HU;
               unfold specU in *; intro Hc; right; exact (HU Hc)
           | |- specU _ (match ?x with _ => _ end) => destruct x eqn:?
           end.
    all: try trivU.
    all: try (exfalso; eapply evaluate_not_cancel; eassumption).
    all: unfold specU; cbn [fst snd]; intros _; left; unfold poll_out; eauto. }
  rewrite H in HU. exact (HU eq_refl).
Qed.
End WithQRec.

(* negamax: the same, and its own entry is popped off the repetition stack (the deferred popHistory) *)
Theorem nm_body_unwinds : forall rec qrec s p alpha beta depth ply cn pm rh s',
  nm_body rec qrec s p alpha beta depth ply cn pm rh = (RCancel, s') ->
  poll_out s' \/ qrec_out qrec s' \/
  exists s1, (rec_out rec s1 \/ poll_out s1) /\ s' = pop_history s1.
Proof.
  intros rec qrec s p alpha beta depth ply cn pm rh s' H.
  assert (HU : specU (fun s' => poll_out s' \/ qrec_out qrec s' \/
                        exists s1, (rec_out rec s1 \/ poll_out s1) /\ s' = pop_history s1)
                     (nm_body rec qrec s p alpha beta depth ply cn pm rh)).
  { clear H. unfold nm_body. cbv zeta.
    repeat lazymatch goal with
           | |- specU _ (fst ?r, pop_history (snd ?r)) => idtac
           | |- specU _ (match ?x with _ => _ end) => destruct x eqn:?
           end.
    all: try trivU.
    all: try match goal with |- context [contempt EC ?p] => destruct (contempt EC p); cbn [of_res bind]; trivU end.
    all: try (unfold specU; cbn [fst snd]; intros _; left; unfold poll_out; eauto; fail).
    all: try (unfold specU; cbn [fst snd]; intros _; right; left; unfold qrec_out; eauto 8; fail).
    all: match goal with
         | |- specU _ (fst ?r, pop_history (snd ?r)) =>
             lazymatch r with
             | nm_inner K EC OC SC ?rc ?s1 ?p ?a ?b ?d ?pl ?cn ?pm ?rh ?ic =>
                 pose proof (inner_U rc s1 p a b d pl cn pm rh ic) as HU;
                 unfold specU in *; cbn [fst snd]; intro Hc; right; right;
                 exists (snd r); split; [exact (HU Hc)|reflexivity]
             end
         end. }
  rewrite H in HU. exact (HU eq_refl).
Qed.

End Unwind.
