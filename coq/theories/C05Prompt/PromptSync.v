(* C05, whole-call form, goal 4 (determinism of the prefix): a call that is not cancelled under its
   oracle runs identically (same result; same tables, caches, heuristics, node count, poll count) under
   every oracle that reports done no earlier.  Two-sided walk over the bodies of [quiescence] and
   [negamax]: the second run is kept in step with the first by the commutation lemmas of
   PromptSyncBase.v. *)
From Coq Require Import NArith ZArith List Bool FMapPositive Lia.
From Clemens Require Import Base.Res Base.Word Pos.Types Att.Attacks Pos.Position Eval.Eval
     Search.TT Search.Ordering Search.Negamax Search.SearchStruct Search.SearchLines Search.SearchIter.
From Clemens.C05Prompt Require Import PromptBase PromptSyncBase.
Import ListNotations.
Open Scope Z_scope.

(* [X]: the run from [s]; [Y]: the run from [set_cancel s c2] *)
Definition lockG {A} (c2 : option N) (s : sst) (X Y : sresult A * sst) : Prop :=
  s_cancel (snd X) = s_cancel s /\ (fst X <> RCancel -> Y = tr c2 X).

Ltac projL := cbn [fst snd lift1 lift0 s_tt s_cache s_nodes s_killers s_history s_counter s_hist s_pv s_out s_polls s_cancel
                   upd_tt upd_cache upd_nodes upd_killers upd_history upd_counter upd_hist upd_pv emit set_polls
                   pop_history halve_history] in *.

Ltac leafL_hook := idtac.
Ltac leafL :=
  autorewrite with scp; leafL_hook;
  try match goal with |- context [contempt ?e ?p] => destruct (contempt e p) end; cbn [of_res bind];
  unfold lockG, tr; cbn [fst snd];
  (split; [ projL; congruence
          | first [ intros _; reflexivity | let Hne := fresh "Hne" in intro Hne; exfalso; apply Hne; reflexivity ] ]).

Section Sync.
Variable K : zkeys.
Variable EC : econsts.
Variable OC : oconsts.
Variable SC : sconsts.
Variable c2 : option N.

Ltac earlierL s :=
  lazymatch goal with
  | H : earlier (s_cancel s) c2 |- _ => idtac
  | _ => let He := fresh "He" in assert (He : earlier (s_cancel s) c2) by (projL; congruence)
  end.

Ltac leafL_hook ::=
  repeat match goal with
  | |- context [nm_cut_state OC ?s ?p ?d ?pl ?pm ?bm ?m ?qt] =>
      let H := fresh "Hcut" in let sc := fresh "sc" in
      pose proof (cut_same OC s p d pl pm bm m qt) as H; destruct H as (_ & H & _);
      set (sc := nm_cut_state OC s p d pl pm bm m qt) in *; clearbody sc
  end.

(* scrutinees that are the same on both sides, or a lifted copy on the second *)
Ltac basicL :=
  lazymatch goal with
  | |- lockG _ _ (match poll ?s with _ => _ end) (match poll (set_cancel ?s c2) with _ => _ end) =>
      earlierL s;
      let Hp := fresh "Hp" in let Hc := fresh "Hc" in
      pose proof (poll_sync s c2) as Hp; pose proof (poll_cancel s) as Hc;
      destruct (poll s) as [[|] ?]; cbn [fst snd] in Hp, Hc;
      [ clear Hp
      | match goal with He : earlier (s_cancel s) c2 |- _ => rewrite (Hp He eq_refl) end; clear Hp ]
  | |- lockG _ _ (match ?sx with _ => _ end) (match lift1 c2 ?sx with _ => _ end) =>
      let H := fresh "He" in
      lazymatch sx with
      | evaluate EC ?s ?p => pose proof (evaluate_A EC s p) as H
      | nm_snm EC SC ?s ?p ?b ?d ?ic ?pv => pose proof (snm_A EC SC s p b d ic pv) as H
      | nm_fpr EC SC ?s ?p ?a ?b ?d ?ic ?pv => pose proof (fpr_A EC SC s p a b d ic pv) as H
      end;
      destruct sx as [[? ?]| | |]; cbn [lift1];
      try (destruct H as (_ & H & _))
  | |- lockG _ _ (match ?sx with _ => _ end) (match lift0 c2 ?sx with _ => _ end) =>
      lazymatch sx with
      | push_history SC ?s ?p =>
          let H := fresh "Hh" in pose proof (push_A SC s p) as H;
          destruct (push_history SC s p) as [?| | |]; cbn [lift0]; [subst| | |]
      end
  | |- lockG _ _ (match ?sx with _ => _ end) (match ?sx with _ => _ end) => destruct sx
  end.

Ltac stepL calls := autorewrite with scp; cbv beta iota; first [ calls tt | basicL ].

Section WithRec.
Variable rec : nm_rec.
Hypothesis Hrec : forall s q a b d pl cn pm rh,
  earlier (s_cancel s) c2 ->
  lockG c2 s (rec s q a b d pl cn pm rh) (rec (set_cancel s c2) q a b d pl cn pm rh).

Ltac recL u :=
  lazymatch goal with
  | |- lockG _ _ (match rec ?s ?q ?a ?b ?d ?pl ?cn ?pm ?rh with _ => _ end) _ =>
      earlierL s;
      let H := fresh "Hc" in
      match goal with He : earlier (s_cancel s) c2 |- _ => pose proof (Hrec s q a b d pl cn pm rh He) as H end;
      destruct (rec s q a b d pl cn pm rh) as [[[? ?]| | |] ?];
      destruct H as [? H]; cbn [fst snd] in *;
      [ rewrite (H ltac:(discriminate)) | clear H | rewrite (H ltac:(discriminate)) | rewrite (H ltac:(discriminate)) ];
      unfold tr; cbn [fst snd]
  end.

Lemma pvs_L : forall s q alpha beta d1 pl1 pm rh lg,
  earlier (s_cancel s) c2 ->
  lockG c2 s (nm_pvs rec s q alpha beta d1 pl1 pm rh lg) (nm_pvs rec (set_cancel s c2) q alpha beta d1 pl1 pm rh lg).
Proof. intros until lg. intro He0. unfold nm_pvs. cbv zeta. repeat stepL recL. all: leafL. Qed.

Lemma nmp_L : forall s p beta depth ply cn ic pv rh,
  earlier (s_cancel s) c2 ->
  lockG c2 s (nm_nmp K EC rec s p beta depth ply cn ic pv rh) (nm_nmp K EC rec (set_cancel s c2) p beta depth ply cn ic pv rh).
Proof. intros until rh. intro He0. unfold nm_nmp. cbv zeta. repeat stepL recL. all: leafL. Qed.

Ltac recL2 u :=
  lazymatch goal with
  | |- lockG _ _ (match nm_pvs rec ?s ?q ?a ?b ?d ?pl ?pm ?rh ?lg with _ => _ end) _ =>
      earlierL s;
      let H := fresh "Hc" in
      match goal with He : earlier (s_cancel s) c2 |- _ => pose proof (pvs_L s q a b d pl pm rh lg He) as H end;
      destruct (nm_pvs rec s q a b d pl pm rh lg) as [[[? ?]| | |] ?];
      destruct H as [? H]; cbn [fst snd] in *;
      [ rewrite (H ltac:(discriminate)) | clear H | rewrite (H ltac:(discriminate)) | rewrite (H ltac:(discriminate)) ];
      unfold tr; cbn [fst snd]
  end.

Lemma loop_L : forall p beta depth ply pm rh fp k i ms s L,
  earlier (s_cancel s) c2 ->
  lockG c2 s (nm_loop K OC rec p beta depth ply pm rh fp k i ms s L)
             (nm_loop K OC rec p beta depth ply pm rh fp k i ms (set_cancel s c2) L).
Proof.
  intros p beta depth ply pm rh fp k; induction k as [|k IH]; intros i ms s L He0.
  - cbn. leafL.
  - unfold nm_loop; fold (nm_loop K OC rec p beta depth ply pm rh fp).
    cbv zeta.
    repeat first [ lazymatch goal with
                   | |- lockG _ _ (nm_loop K OC rec p beta depth ply pm rh fp k ?i ?ms ?s1 ?L) _ =>
                       earlierL s1;
                       let H := fresh "Hl" in
                       match goal with He : earlier (s_cancel s1) c2 |- _ => pose proof (IH i ms s1 L He) as H end;
                       destruct H as [H1 H2]; unfold lockG; split; [projL; congruence|exact H2]
                   end
                 | stepL recL2 ].
    all: leafL.
Qed.

Ltac recL3 u :=
  lazymatch goal with
  | |- lockG _ _ (match nm_nmp K EC rec ?s ?p ?b ?d ?pl ?cn ?ic ?pv ?rh with _ => _ end) _ =>
      earlierL s;
      let H := fresh "Hc" in
      match goal with He : earlier (s_cancel s) c2 |- _ => pose proof (nmp_L s p b d pl cn ic pv rh He) as H end;
      destruct (nm_nmp K EC rec s p b d pl cn ic pv rh) as [[[?|]| | |] ?];
      destruct H as [? H]; cbn [fst snd] in *;
      [ rewrite (H ltac:(discriminate)) | rewrite (H ltac:(discriminate)) | clear H
      | rewrite (H ltac:(discriminate)) | rewrite (H ltac:(discriminate)) ];
      unfold tr; cbn [fst snd]
  | |- lockG _ _ (match nm_loop K OC rec ?p ?b ?d ?pl ?pm ?rh ?fp ?k ?i ?ms ?s ?L with _ => _ end) _ =>
      earlierL s;
      let H := fresh "Hc" in
      match goal with He : earlier (s_cancel s) c2 |- _ => pose proof (loop_L p b d pl pm rh fp k i ms s L He) as H end;
      destruct (nm_loop K OC rec p b d pl pm rh fp k i ms s L) as [[[? ?]| | |] ?];
      destruct H as [? H]; cbn [fst snd] in *;
      [ rewrite (H ltac:(discriminate)) | clear H | rewrite (H ltac:(discriminate)) | rewrite (H ltac:(discriminate)) ];
      unfold tr; cbn [fst snd]
  end.

Lemma inner_L : forall s p alpha beta depth ply cn pm rh ic,
  earlier (s_cancel s) c2 ->
  lockG c2 s (nm_inner K EC OC SC rec s p alpha beta depth ply cn pm rh ic)
             (nm_inner K EC OC SC rec (set_cancel s c2) p alpha beta depth ply cn pm rh ic).
Proof. intros until ic. intro He0. unfold nm_inner. cbv zeta. repeat stepL recL3. all: leafL. Qed.

End WithRec.
Section WithQRec.
Variable qrec : q_rec.
Hypothesis Hq : forall s q a b pl,
  earlier (s_cancel s) c2 ->
  lockG c2 s (qrec s q a b pl) (qrec (set_cancel s c2) q a b pl).

Ltac qrecL u :=
  lazymatch goal with
  | |- lockG _ _ (match qrec ?s ?q ?a ?b ?pl with _ => _ end) _ =>
      earlierL s;
      let H := fresh "Hc" in
      match goal with He : earlier (s_cancel s) c2 |- _ => pose proof (Hq s q a b pl He) as H end;
      destruct (qrec s q a b pl) as [[?| | |] ?];
      destruct H as [? H]; cbn [fst snd] in *;
      [ rewrite (H ltac:(discriminate)) | clear H | rewrite (H ltac:(discriminate)) | rewrite (H ltac:(discriminate)) ];
      unfold tr; cbn [fst snd]
  end.

Lemma qloop_L : forall p sp beta ply k i ms s alpha,
  earlier (s_cancel s) c2 ->
  lockG c2 s (q_loop K EC qrec p sp beta ply k i ms s alpha) (q_loop K EC qrec p sp beta ply k i ms (set_cancel s c2) alpha).
Proof.
  intros p sp beta ply k; induction k as [|k IH]; intros i ms s alpha He0.
  - cbn. leafL.
  - unfold q_loop; fold (q_loop K EC qrec p sp beta ply).
    cbv zeta.
    repeat first [ lazymatch goal with
                   | |- lockG _ _ (q_loop K EC qrec p sp beta ply k ?i ?ms ?s1 ?a) _ =>
                       earlierL s1;
                       let H := fresh "Hl" in
                       match goal with He : earlier (s_cancel s1) c2 |- _ => pose proof (IH i ms s1 a He) as H end;
                       destruct H as [H1 H2]; unfold lockG; split; [projL; congruence|exact H2]
                   end
                 | stepL qrecL ].
    all: leafL.
Qed.
End WithQRec.

Theorem quiescence_L : forall f s p alpha beta ply,
  earlier (s_cancel s) c2 ->
  lockG c2 s (quiescence K EC OC SC f s p alpha beta ply) (quiescence K EC OC SC f (set_cancel s c2) p alpha beta ply).
Proof.
  induction f as [|f IH]; intros s p alpha beta ply He0.
  - cbn. leafL.
  - rewrite !quiescence_eq. cbv zeta.
    repeat stepL ltac:(fun u =>
      lazymatch goal with
      | |- lockG _ _ (q_loop K EC ?r ?p ?sp ?b ?pl ?k ?i ?ms ?s1 ?a) _ =>
          earlierL s1;
          let H := fresh "Hl" in
          match goal with He : earlier (s_cancel s1) c2 |- _ => pose proof (qloop_L r IH p sp b pl k i ms s1 a He) as H end;
          destruct H as [H1 H2]; unfold lockG; split; [projL; congruence|exact H2]
      end).
    all: leafL.
Qed.

Theorem negamax_L : forall f s p alpha beta depth ply cn pm rh,
  earlier (s_cancel s) c2 ->
  lockG c2 s (negamax K EC OC SC f s p alpha beta depth ply cn pm rh)
             (negamax K EC OC SC f (set_cancel s c2) p alpha beta depth ply cn pm rh).
Proof.
  induction f as [|f IH]; intros s p alpha beta depth ply cn pm rh He0.
  - cbn. leafL.
  - rewrite !negamax_eq. cbv zeta.
    repeat stepL ltac:(fun u =>
      lazymatch goal with
      | |- lockG _ _ (match quiescence K EC OC SC ?f ?s1 ?p ?a ?b ?pl with _ => _ end) _ =>
          earlierL s1;
          let H := fresh "Hc" in
          match goal with He : earlier (s_cancel s1) c2 |- _ => pose proof (quiescence_L f s1 p a b pl He) as H end;
          destruct (quiescence K EC OC SC f s1 p a b pl) as [[?| | |] ?];
          destruct H as [? H]; cbn [fst snd] in *;
          [ rewrite (H ltac:(discriminate)) | clear H | rewrite (H ltac:(discriminate)) | rewrite (H ltac:(discriminate)) ];
          unfold tr; cbn [fst snd]
      end).
    all: try (leafL; fail).
    all: autorewrite with scp.
    all: match goal with
    | |- context [nm_inner K EC OC SC ?r ?s1 ?p ?a ?b ?d ?pl ?cn ?pm ?rh ?ic] =>
        assert (He1 : earlier (s_cancel s1) c2) by (projL; congruence);
        pose proof (inner_L r IH s1 p a b d pl cn pm rh ic He1) as Hin;
        destruct (nm_inner K EC OC SC r s1 p a b d pl cn pm rh ic) as [[?| | |] s2]
    end.
    all: destruct Hin as [Hin1 Hin2]; cbn [fst snd] in *.
    all: try rewrite (Hin2 ltac:(discriminate)).
    all: leafL.
Qed.

End Sync.

(* ------------------------------------------------------------------ whole calls *)
Section SyncCalls.
Variable K : zkeys.
Variable EC : econsts.
Variable OC : oconsts.
Variable SC : sconsts.

(* A call that does not return the error under its own oracle runs identically under every oracle
   that fires no earlier: same result, and the same final state up to the oracle itself (tables,
   cache, heuristics, node counter, poll counter, repetition stack, line, output). *)
Theorem negamax_oracle_irrelevant : forall c2 f s p alpha beta depth ply cn pm rh r s',
  earlier (s_cancel s) c2 ->
  negamax K EC OC SC f s p alpha beta depth ply cn pm rh = (r, s') -> r <> RCancel ->
  negamax K EC OC SC f (set_cancel s c2) p alpha beta depth ply cn pm rh = (r, set_cancel s' c2).
Proof.
  intros c2 f s p alpha beta depth ply cn pm rh r s' He H Hr.
  destruct (negamax_L K EC OC SC c2 f s p alpha beta depth ply cn pm rh He) as [_ HL].
  rewrite H in HL. exact (HL Hr).
Qed.

Theorem quiescence_oracle_irrelevant : forall c2 f s p alpha beta ply r s',
  earlier (s_cancel s) c2 ->
  quiescence K EC OC SC f s p alpha beta ply = (r, s') -> r <> RCancel ->
  quiescence K EC OC SC f (set_cancel s c2) p alpha beta ply = (r, set_cancel s' c2).
Proof.
  intros c2 f s p alpha beta ply r s' He H Hr.
  destruct (quiescence_L K EC OC SC c2 f s p alpha beta ply He) as [_ HL].
  rewrite H in HL. exact (HL Hr).
Qed.

Theorem search_root_oracle_irrelevant : forall c2 fuel s root d a b r s',
  earlier (s_cancel s) c2 ->
  search_root K EC OC SC fuel s root d a b = (r, s') -> r <> RCancel ->
  search_root K EC OC SC fuel (set_cancel s c2) root d a b = (r, set_cancel s' c2).
Proof.
  intros c2 fuel s root d a b r s' He H Hr. unfold search_root in *.
  rewrite sc_upd_killers. apply negamax_oracle_irrelevant; assumption.
Qed.

(* the loop swallows the error, so the condition is on the poll counter: no poll reported done *)
Theorem search_iterative_oracle_irrelevant : forall c2 iters fuel rep root md s d a b r s',
  earlier (s_cancel s) c2 ->
  search_iterative K EC OC SC iters fuel rep s root md d a b = (r, s') -> ~ fired s' ->
  search_iterative K EC OC SC iters fuel rep (set_cancel s c2) root md d a b = (r, set_cancel s' c2).
Proof.
  intros c2. induction iters as [|it IH]; intros fuel rep root md s d a b r s' He H Hnf.
  - cbn in *. inversion H; subst. reflexivity.
  - cbn [search_iterative] in *.
    destruct (md <? d)%N; [inversion H; subst; reflexivity|].
    pose proof (search_root_oracle_irrelevant c2 fuel s root d a b) as HR.
    pose proof (search_root_A K EC OC SC fuel s root d a b) as HA.
    destruct (search_root K EC OC SC fuel s root d a b) as [[[score line]| | |] s0].
    + rewrite (HR _ _ He eq_refl ltac:(discriminate)).
      destruct HA as ([_ Fc _ _ _] & _ & _). cbn [fst snd] in Fc.
      match type of H with (if ?c then _ else _) = _ => destruct c end.
      * rewrite sc_emit. apply IH; [cbn [s_cancel emit]; congruence|exact H|exact Hnf].
      * autorewrite with scp. apply IH; [cbn [s_cancel emit upd_pv]; congruence|exact H|exact Hnf].
    + exfalso. destruct HA as (_ & _ & HA). cbn [fst snd] in HA. inversion H; subst. exact (Hnf (HA eq_refl)).
    + rewrite (HR _ _ He eq_refl ltac:(discriminate)). inversion H; subst. reflexivity.
    + rewrite (HR _ _ He eq_refl ltac:(discriminate)). inversion H; subst. reflexivity.
Qed.

End SyncCalls.
