(* C05, whole-call form: vocabulary and the walk machinery.
   [jfired s]  : the LAST poll made is the one that reported done (s_polls s = k + 1).
   [addw a n]  : the uint64 node counter [a] after [n] increments (n = 0: untouched, so that the
                 statements also hold for an ARBITRARY initial counter, even one >= 2^64).
   [specW d s x] : what a call [x] started in state [s] does to the poll counter and to the node
                 counter; [d] = 1 for the negamax-like pieces (the firing poll pays for no node),
                 [d] = 0 for quiescence (its node is counted just before its poll). *)
From Coq Require Import NArith ZArith List Bool FMapPositive Lia.
From Clemens Require Import Base.Res Base.Word Pos.Types Att.Attacks Pos.Position Eval.Eval
     Search.TT Search.Ordering Search.Negamax Search.SearchStruct.
Import ListNotations.
Open Scope Z_scope.

Definition jfired (s : sst) : Prop :=
  match s_cancel s with Some k => s_polls s = (k + 1)%N | None => False end.

Lemma jfired_iff : forall s, jfired s <-> exists k, s_cancel s = Some k /\ s_polls s = (k + 1)%N.
Proof.
  intro s; unfold jfired; destruct (s_cancel s) as [k|]; split.
  - intro H; exists k; auto.
  - intros (k' & E & H); inversion E; subst; auto.
  - intros [].
  - intros (k' & E & _); discriminate.
Qed.

Lemma jfired_fired : forall s, jfired s -> fired s.
Proof. intro s; unfold jfired, fired; destruct (s_cancel s); [lia|auto]. Qed.

(* ------------------------------------------------------------------ the wrapping node counter *)
Definition addw (a n : N) : N := if (n =? 0)%N then a else w64 (a + n).

Lemma w64_mod : forall x, w64 x = (x mod two64)%N.
Proof. intro x. unfold w64. change m64 with (N.ones 64). rewrite N.land_ones. reflexivity. Qed.

Lemma two64_nz : two64 <> 0%N.
Proof. discriminate. Qed.

Lemma addw_0 : forall a, addw a 0 = a.
Proof. reflexivity. Qed.

Lemma addw_1 : forall a, addw a 1 = w64 (a + 1).
Proof. reflexivity. Qed.

Lemma addw_addw : forall a n m, addw (addw a n) m = addw a (n + m).
Proof.
  intros a n m. unfold addw.
  destruct (N.eqb_spec n 0) as [->|Hn]; [reflexivity|].
  destruct (N.eqb_spec m 0) as [->|Hm].
  - rewrite N.add_0_r. destruct (N.eqb_spec n 0); [contradiction|reflexivity].
  - destruct (N.eqb_spec (n + m) 0) as [E|_]; [lia|].
    rewrite !w64_mod. rewrite N.add_mod_idemp_l by exact two64_nz. f_equal. lia.
Qed.

(* without wrap the count is the plain sum *)
Lemma addw_small : forall a n, (a + n < two64)%N -> addw a n = (a + n)%N.
Proof.
  intros a n H. unfold addw. destruct (N.eqb_spec n 0) as [->|Hn]; [lia|].
  rewrite w64_mod. apply N.mod_small. exact H.
Qed.

(* ------------------------------------------------------------------ the specification *)
(* only tables, caches and heuristics differ *)
Definition sameN (s s' : sst) : Prop := same s s' /\ s_nodes s' = s_nodes s.

Definition specW (d : N) {A} (s : sst) (x : sresult A * sst) : Prop :=
  frame s (snd x) /\
  (fst x = RCancel -> fired (snd x)) /\
  (fst x = RCancel -> ~ fired s -> jfired (snd x)) /\
  (fst x <> RCancel -> ~ fired s -> ~ fired (snd x)) /\
  exists n, s_nodes (snd x) = addw (s_nodes s) n /\
     (n <= s_polls (snd x) - s_polls s)%N /\
     (fst x = RCancel -> (n + d <= s_polls (snd x) - s_polls s)%N).

Ltac prepW1 :=
  match goal with
  | H : specW _ _ _ |- _ => destruct H as ([? ? ? ? ?] & ? & ? & ? & (? & ? & ? & ?))
  | H : sameN _ _ |- _ => destruct H as ((? & ? & ? & ? & ?) & ?)
  | H : RCancel <> RCancel -> _ |- _ => clear H
  | H : ROk _ <> RCancel -> _ |- _ => specialize (H ltac:(discriminate))
  | H : RPanic <> RCancel -> _ |- _ => specialize (H ltac:(discriminate))
  | H : ROutOfFuel <> RCancel -> _ |- _ => specialize (H ltac:(discriminate))
  | _ => prepA1
  end.
Ltac prepW := projs; repeat (prepW1; projs).

Ltac arithW := try unfold jfired in *; arithA.

(* the node counter of the final state as [addw (s_nodes s) ?n] *)
Ltac nodesW :=
  projs;
  repeat match goal with
  | H : s_nodes ?a = _ |- context [s_nodes ?a] => rewrite H
  end;
  rewrite <- ?addw_1, ?addw_addw;
  first [ reflexivity | symmetry; apply addw_0 ].

Ltac leaf_hookW := idtac.
Ltac leafW :=
  first [ contradiction
        | leaf_hookW;
          try match goal with |- context [contempt ?e ?p] => destruct (contempt e p) end; cbn [of_res bind];
          prepW; unfold specW; projs;
          (split; [constructor; projs; first [ congruence | arithW ] |]);
          (split; [intros; try discriminate; arithW |]);
          (split; [intros; try discriminate; arithW |]);
          (split; [intros; try congruence; arithW |]);
          eexists; (split; [nodesW | split; [arithW | intros; try discriminate; arithW]]) ].
