(* C05, whole-call form, goal 4 for the Go build instances: determinism of the prefix. *)
From Coq Require Import NArith ZArith List Bool FMapPositive Lia.
From Clemens Require Import Base.Res Base.Word Pos.Types Att.Attacks Pos.Position Eval.Eval
     Search.TT Search.Ordering Search.Negamax Search.SearchStruct Search.GoInst.
From Clemens.C05Prompt Require Import PromptBase PromptWalk PromptCalls PromptSyncBase PromptSync.
Import ListNotations.
Open Scope Z_scope.

Lemma earlier_total : forall c1 c2, earlier c1 c2 \/ earlier c2 c1.
Proof.
  intros [k1|] [k2|]; cbn; try tauto.
  destruct (N.le_ge_cases k1 k2); [left|right]; assumption.
Qed.

(* [later k c2]: the oracle [c2] is [None] or [Some k'] with k <= k' *)
Definition later (k : N) (c2 : option N) : Prop := match c2 with None => True | Some k' => (k <= k')%N end.

Lemma later_earlier : forall s k c2, s_cancel s = Some k -> later k c2 -> earlier (s_cancel s) c2.
Proof. intros s k c2 E H. rewrite E. destruct c2; exact H. Qed.

(* Two runs of the same call from the same state that differ only in the oracle (Some k against a later
   Some k' or None): unless the first is cancelled they are the same run - same result, same node
   count, same tables, cache, heuristics, same number of polls.  (The stop "lands wherever" in ONE
   fixed search tree.) *)
Theorem go_negamax_prefix_deterministic : forall f s p alpha beta depth ply cn pm rh k c2 r s',
  s_cancel s = Some k -> later k c2 ->
  go_negamax f s p alpha beta depth ply cn pm rh = (r, s') -> r <> RCancel ->
  go_negamax f (set_cancel s c2) p alpha beta depth ply cn pm rh = (r, set_cancel s' c2).
Proof.
  intros f s p alpha beta depth ply cn pm rh k c2 r s' Ek Hl H Hr.
  exact (negamax_oracle_irrelevant go_keys go_econsts go_oconsts go_sconsts c2 _ _ _ _ _ _ _ _ _ _ _ _
           (later_earlier s k c2 Ek Hl) H Hr).
Qed.

Theorem go_quiescence_prefix_deterministic : forall f s p alpha beta ply k c2 r s',
  s_cancel s = Some k -> later k c2 ->
  go_quiescence f s p alpha beta ply = (r, s') -> r <> RCancel ->
  go_quiescence f (set_cancel s c2) p alpha beta ply = (r, set_cancel s' c2).
Proof.
  intros f s p alpha beta ply k c2 r s' Ek Hl H Hr.
  exact (quiescence_oracle_irrelevant go_keys go_econsts go_oconsts go_sconsts c2 _ _ _ _ _ _ _ _
           (later_earlier s k c2 Ek Hl) H Hr).
Qed.

Theorem go_search_root_prefix_deterministic : forall fuel s root d a b k c2 r s',
  s_cancel s = Some k -> later k c2 ->
  go_search_root fuel s root d a b = (r, s') -> r <> RCancel ->
  go_search_root fuel (set_cancel s c2) root d a b = (r, set_cancel s' c2).
Proof.
  intros fuel s root d a b k c2 r s' Ek Hl H Hr.
  exact (search_root_oracle_irrelevant go_keys go_econsts go_oconsts go_sconsts c2 _ _ _ _ _ _ _ _
           (later_earlier s k c2 Ek Hl) H Hr).
Qed.

(* the loop: as long as no poll of it reported done *)
Theorem go_search_iterative_prefix_deterministic : forall iters fuel rep s root md d a b k c2 r s',
  s_cancel s = Some k -> later k c2 ->
  go_search_iterative iters fuel rep s root md d a b = (r, s') -> (s_polls s' <= k)%N ->
  go_search_iterative iters fuel rep (set_cancel s c2) root md d a b = (r, set_cancel s' c2).
Proof.
  intros iters fuel rep s root md d a b k c2 r s' Ek Hl H Hp.
  apply (search_iterative_oracle_irrelevant go_keys go_econsts go_oconsts go_sconsts c2 _ _ _ _ _ _ _ _ _ _ _
           (later_earlier s k c2 Ek Hl) H).
  pose proof (search_iterative_I go_keys go_econsts go_oconsts go_sconsts iters fuel rep root md s d a b) as HI.
  unfold go_search_iterative in H. rewrite H in HI. destruct HI as (_ & Hc & _). cbn [fst snd] in Hc.
  unfold fired. rewrite Hc, Ek. lia.
Qed.

(* symmetric form: any two oracles; if neither run is cancelled the runs are the same *)
Theorem go_negamax_same_unless_cancelled : forall f s c1 c2 p alpha beta depth ply cn pm rh r1 s1 r2 s2,
  go_negamax f (set_cancel s c1) p alpha beta depth ply cn pm rh = (r1, s1) ->
  go_negamax f (set_cancel s c2) p alpha beta depth ply cn pm rh = (r2, s2) ->
  r1 <> RCancel -> r2 <> RCancel ->
  r1 = r2 /\ s2 = set_cancel s1 c2 /\ s1 = set_cancel s2 c1.
Proof.
  intros f s c1 c2 p alpha beta depth ply cn pm rh r1 s1 r2 s2 H1 H2 Hr1 Hr2.
  destruct (earlier_total c1 c2) as [He|He].
  - pose proof (negamax_oracle_irrelevant go_keys go_econsts go_oconsts go_sconsts c2 f (set_cancel s c1)
                  p alpha beta depth ply cn pm rh r1 s1 He H1 Hr1) as E.
    rewrite sc_sc in E. unfold go_negamax in H2. rewrite H2 in E. inversion E; subst.
    split; [reflexivity|]. split; [reflexivity|].
    pose proof (negamax_frame go_keys go_econsts go_oconsts go_sconsts _ _ _ _ _ _ _ _ _ _ _ _ H1) as [_ Fc _ _ _].
    cbn [s_cancel set_cancel] in Fc. rewrite sc_sc. destruct s1; cbn in *; subst; reflexivity.
  - pose proof (negamax_oracle_irrelevant go_keys go_econsts go_oconsts go_sconsts c1 f (set_cancel s c2)
                  p alpha beta depth ply cn pm rh r2 s2 He H2 Hr2) as E.
    rewrite sc_sc in E. unfold go_negamax in H1. rewrite H1 in E. inversion E; subst.
    split; [reflexivity|]. split; [|reflexivity].
    pose proof (negamax_frame go_keys go_econsts go_oconsts go_sconsts _ _ _ _ _ _ _ _ _ _ _ _ H2) as [_ Fc _ _ _].
    cbn [s_cancel set_cancel] in Fc. rewrite sc_sc. destruct s2; cbn in *; subst; reflexivity.
Qed.

(* ------------------------------------------------------------------ non-vacuity *)
(* start position, depth 2: the run under Some 1000 is not cancelled; under None it is the same run *)
Definition ex_sync (c : option N) : option (sresult unit * N * N) :=
  match go_new_position with
  | Ok root =>
      let '(r, s) := go_search_root 50 (go_empty_sst c) root 2 (- INF go_econsts) (INF go_econsts) in
      Some (match r with ROk _ => ROk tt | RCancel => RCancel | RPanic => RPanic | ROutOfFuel => ROutOfFuel end,
            s_nodes s, s_polls s)
  | _ => None
  end.
Example ex_sync_1000_none : ex_sync (Some 1000%N) = ex_sync None /\ ex_sync None = Some (ROk tt, 104%N, 208%N).
Proof. split; vm_compute; reflexivity. Qed.
(* the hypothesis "not cancelled" cannot be dropped: under Some 7 the run stops after 8 polls and 5 nodes *)
Example ex_sync_7 : ex_sync (Some 7%N) = Some (RCancel, 5%N, 8%N).
Proof. vm_compute; reflexivity. Qed.

Print Assumptions go_negamax_prefix_deterministic.
Print Assumptions go_quiescence_prefix_deterministic.
Print Assumptions go_search_root_prefix_deterministic.
Print Assumptions go_search_iterative_prefix_deterministic.
Print Assumptions go_negamax_same_unless_cancelled.
