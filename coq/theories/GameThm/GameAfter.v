(* Whole-game theorems, part 2 (goal 1, consequences): monotonicity of the engine function in the two bounds of the
   model, and the end-to-end theorems with the hypothesis on the engine state replaced by "reached from process start
   by an in-domain session". *)
From Coq Require Import NArith ZArith List Bool Lia.
From Clemens Require Import Base.Res Base.Word Base.Bytes Pos.Types Pos.Position Pos.Fen Pos.Inv Pos.ZobristInst
     Eval.Eval Search.TT Search.Negamax Search.SearchStruct Search.GoInst
     Uci.ParseGo Uci.ParseGoProofs Uci.Input Uci.InputProofs Uci.GoLineSpec Uci.Game Uci.Engine Uci.EngineInst.
From Clemens.C13Mate Require Import MateDefs MateExamples.
From Clemens.C13Bridge Require Import Bridge Seq.
From Clemens.C05Term Require Import Mono.
From Clemens Require Import Rules.Abs Rules.Fide.
From Clemens.C01Att Require Import FideFacts.
From Clemens.C03Recon Require Import FideText Recon.
From ClemensGen Require Import GoConsts.
From Clemens.EngineE2E Require Import EngBase EngDispatch EngState EngSearch EngE2E EngText EngFinal.
From Clemens.GameThm Require Import GameInv.
Import ListNotations.
Open Scope list_scope.

(* ------------------------------------------------------------------ the bounds: more is the same *)
(* if the engine function answers under the bounds (it0, f0) it gives the same answer under all larger bounds *)
Lemma start_search_mono : forall it0 f0 iters fuel e ts c,
  (it0 <= iters)%nat -> (f0 <= fuel)%nat -> go_start_search it0 f0 e ts c <> EStuck ->
  go_start_search iters fuel e ts c = go_start_search it0 f0 e ts c.
Proof.
  intros it0 f0 iters fuel e ts c Hit Hfu Hns.
  destruct (en_game e) as [g|] eqn:Eg.
  2:{ rewrite !start_search_refused; [reflexivity| |]; intros [_ X]; contradiction. }
  destruct (N.eq_dec (en_state e) ST_POSITION_SET) as [Es|Es].
  2:{ rewrite !start_search_refused; [reflexivity| |]; intros [X _]; contradiction. }
  destruct (parse_go_returns ts) as [[sp evs] Ep].
  rewrite (start_search_accepted it0 f0 e ts c g sp evs Es Eg Ep) in Hns |- *.
  rewrite (start_search_accepted iters fuel e ts c g sp evs Es Eg Ep).
  destruct (go_search it0 f0 true (go_sst e g c) (g_pos g) (Z.to_N (sp_depth sp))) as [r s'] eqn:E.
  assert (Hr : r <> ROutOfFuel) by (intros ->; apply Hns; reflexivity).
  pose proof (search_fuel_irrelevant go_keys go_econsts go_oconsts go_sconsts it0 iters f0 fuel true (go_sst e g c)
                (g_pos g) (Z.to_N (sp_depth sp)) r s' E Hr Hit Hfu) as E'.
  unfold go_search. rewrite E'. reflexivity.
Qed.

Theorem handle_mono : forall it0 f0 iters fuel e line c,
  (it0 <= iters)%nat -> (f0 <= fuel)%nat -> go_handle it0 f0 e line c <> EStuck ->
  go_handle iters fuel e line c = go_handle it0 f0 e line c.
Proof.
  intros it0 f0 iters fuel e line c Hit Hfu Hns. rewrite !go_handle_eq in *.
  destruct (handle_line V line) as [| | | |ts|ts| |]; try reflexivity.
  apply start_search_mono; assumption.
Qed.

Theorem run_mono : forall it0 f0 iters fuel ls e,
  (it0 <= iters)%nat -> (f0 <= fuel)%nat -> fst (go_run it0 f0 e ls) <> SStuck ->
  go_run iters fuel e ls = go_run it0 f0 e ls.
Proof.
  intros it0 f0 iters fuel ls. induction ls as [|[l c] r IH]; intros e Hit Hfu Hns; [reflexivity|].
  rewrite !go_run_cons in *.
  assert (Hh : go_handle it0 f0 e l c <> EStuck).
  { intro X. rewrite X in Hns. apply Hns. reflexivity. }
  rewrite (handle_mono it0 f0 iters fuel e l c Hit Hfu Hh).
  destruct (go_handle it0 f0 e l c) as [e1 o1| |o1|]; try reflexivity.
  rewrite (IH e1 Hit Hfu); [reflexivity|].
  intro X. apply Hns. destruct (go_run it0 f0 e1 r) as [fin o2]. cbn [fst] in *. exact X.
Qed.

(* ------------------------------------------------------------------ the lines of one round are in the domain *)
Lemma startpos_line_plain : forall fms, Forall plain_token (w_position :: startpos_tokens fms).
Proof.
  intro fms. destruct word_plain as (W1 & W2 & W3 & _).
  constructor; [exact W1|]. constructor; [exact W2|]. constructor; [exact W3|]. apply fide_texts_plain.
Qed.

Lemma startpos_line_in_domain : forall fms s, fide_game initial fms s -> (List.length fms <= 1024)%nat ->
  in_domain_text (join (w_position :: startpos_tokens fms)).
Proof.
  intros fms s G B. right. left. exists fms, s. split; [exact G|]. split; [exact B|].
  apply first_command_join0. apply startpos_line_plain.
Qed.

Lemma fen_line_plain : forall six fms, Forall plain_token six -> Forall plain_token (w_position :: fen_tokens six fms).
Proof.
  intros six fms P6. destruct word_plain as (W1 & W2 & W3 & W4 & _).
  constructor; [exact W1|]. unfold fen_tokens. constructor; [exact W4|]. apply Forall_app. split; [exact P6|].
  constructor; [exact W3|]. apply fide_texts_plain.
Qed.

Lemma fen_line_in_domain : forall six p0 fms s,
  List.length six = 6%nat -> Forall plain_token six ->
  new_from_fen go_keys unicode_digit_tbl (join_sp six) = Ok p0 -> legal_pos p0 ->
  fide_game (abs p0) fms s -> (List.length fms <= 1024)%nat ->
  in_domain_text (join (w_position :: fen_tokens six fms)).
Proof.
  intros six p0 fms s L6 P6 Fen HP G B. right. right. left. exists six, p0, fms, s.
  repeat (split; [assumption|]). apply first_command_join0. apply fen_line_plain. exact P6.
Qed.

Lemma go_line_cgo : forall garbage ps,
  Forall plain_token garbage -> all_unknown V garbage -> NoDup (map kind ps) -> Forall param_ok ps ->
  handle_line V (join (garbage ++ w_go :: GoLineSpec.render ps)) = CGo (GoLineSpec.render ps) /\
  parse_go (GoLineSpec.render ps) = Ok (denote ps, acks ps).
Proof.
  intros garbage ps Hpl Hg Hnd Hok.
  exact (go_line_exact V garbage ps
           (command_word_valid V command_words_valid w_go ltac:(unfold command_words; cbn [In]; tauto))
           Hpl Hg Hnd Hok).
Qed.

Lemma go_line_in_domain : forall garbage ps,
  Forall plain_token garbage -> all_unknown V garbage -> NoDup (map kind ps) -> Forall param_ok ps ->
  in_domain_text (join (garbage ++ w_go :: GoLineSpec.render ps)).
Proof.
  intros garbage ps Hpl Hg Hnd Hok. left. intros ts X.
  rewrite (proj1 (go_line_cgo garbage ps Hpl Hg Hnd Hok)) in X. discriminate.
Qed.

(* ------------------------------------------------------------------ a `position` line then a `go` line *)
Lemma reached_two : forall roots e iters fuel l1 c1 l2 c2 g e' out,
  reached roots e -> in_domain_line e l1 -> is_go_line l1 = false ->
  (forall iters fuel c, go_handle iters fuel e l1 c = EOk (with_game e g) []) ->
  in_domain_text l2 -> is_go_line l2 = true ->
  go_run iters fuel e [(l1, c1); (l2, c2)] = (SEof e', out) ->
  reached (g_pos g :: roots) e'.
Proof.
  intros roots e iters fuel l1 c1 l2 c2 g e' out HR Hd1 Hg1 Hpos Hd2 Hg2 Hrun.
  pose proof (reached_line roots e iters fuel l1 c1 _ _ HR Hd1 (Hpos iters fuel c1)) as R1.
  unfold searched_by in R1. rewrite Hg1 in R1. cbn [andb app] in R1.
  rewrite (run_two iters fuel e l1 c1 l2 c2 _ _ (Hpos iters fuel c1)) in Hrun.
  destruct (go_handle iters fuel (with_game e g) l2 c2) as [e3 o3| |o3|] eqn:E3; try discriminate.
  injection Hrun as -> _.
  pose proof (reached_line roots (with_game e g) iters fuel l2 c2 _ _ R1 (in_domain_text_line _ _ Hd2) E3) as R2.
  unfold searched_by in R2. rewrite Hg2 in R2.
  cbn [andb with_game accepts_go_b en_state en_game N.eqb ST_POSITION_SET Pos.eqb app] in R2. exact R2.
Qed.

Lemma position_line_not_go : forall line rest, first_command line w_position rest -> is_go_line line = false.
Proof.
  intros line rest H. unfold is_go_line.
  rewrite (first_command_line line w_position rest H) by (unfold command_words; cbn [In]; tauto). reflexivity.
Qed.

Lemma go_line_is_go : forall garbage ps,
  Forall plain_token garbage -> all_unknown V garbage -> NoDup (map kind ps) -> Forall param_ok ps ->
  is_go_line (join (garbage ++ w_go :: GoLineSpec.render ps)) = true.
Proof.
  intros garbage ps Hpl Hg Hnd Hok. unfold is_go_line.
  rewrite (proj1 (go_line_cgo garbage ps Hpl Hg Hnd Hok)). reflexivity.
Qed.

(* ------------------------------------------------------------------ the root the engine sets for a game *)
Definition game_root (fms : list fmove) : position :=
  match new_position_cmd go_keys unicode_digit_tbl se_history_size (startpos_tokens fms) with
  | NPSet g => g_pos g
  | _ => hm_p0
  end.

Lemma position_sets_root : forall e fms g line,
  first_command line w_position (startpos_tokens fms) ->
  (forall iters fuel c, go_handle iters fuel e line c = EOk (with_game e g) []) ->
  g_pos g = game_root fms.
Proof.
  intros e fms g line Hfc Hpos. specialize (Hpos 0%nat 0%nat None).
  rewrite (handle_position _ _ e line None _ Hfc) in Hpos.
  unfold go_new_position_e, Engine.new_position in Hpos. unfold game_root.
  destruct (en_state e =? ST_RUNNING)%N; [discriminate|].
  unfold startpos_tokens in *. change (sc_hist_size go_sconsts) with se_history_size in Hpos.
  destruct (new_position_cmd go_keys unicode_digit_tbl se_history_size (w_startpos :: w_moves :: map fide_text fms))
    as [b|g'|g'|]; try discriminate.
  injection Hpos as ->. reflexivity.
Qed.

(* ------------------------------------------------------------------ goal 1, the corollaries *)
(* THE END-TO-END THEOREM AFTER ANY SESSION, start position: [e] is any engine reached from process start by in-domain
   lines.  The search hypothesis may be given under any loop bound it0 <= 510.  In addition to the conclusion of
   [engine_answers_startpos]: the engine after the answer is again a reached one, the root added to the searched
   positions. *)
Theorem engine_answers_after_any_session_startpos :
  forall roots e iters fuel it0 f0 c0 c fms s garbage ps,
  reached roots e ->
  (510 <= iters)%nat -> (f0 <= fuel)%nat -> (f0 <= 255)%nat -> (it0 <= 510)%nat ->
  fide_game initial fms s -> (List.length fms + f0 <= 1024)%nat ->
  Forall plain_token garbage -> all_unknown V garbage ->
  NoDup (map kind ps) -> Forall param_ok ps -> value_of KDepth ps <> 255%Z ->
  let pos_line := join (w_position :: startpos_tokens fms) in
  let go_line := join (garbage ++ w_go :: GoLineSpec.render ps) in
  fst (go_run it0 f0 e [(pos_line, c0); (go_line, c)]) <> SStuck ->
  exists g,
    same_core (abs (g_pos g)) s /\ ((List.length fms <= 255)%nat -> abs (g_pos g) = s) /\
    legal_pos (g_pos g) /\ List.length (g_hist g) = List.length fms /\ g_pos g = game_root fms /\
    e2e_result s g (denote ps) (acks ps) (go_run iters fuel e [(pos_line, c0); (go_line, c)]) /\
    (forall e' out, go_run iters fuel e [(pos_line, c0); (go_line, c)] = (SEof e', out) -> reached (g_pos g :: roots) e').
Proof.
  intros roots e iters fuel it0 f0 c0 c fms s garbage ps HR Hit Hfu Hf0 Hit0 G B Hpl Hg Hnd Hok Hd pos_line go_line Hns.
  destruct (reached_facts roots e HR) as (Hnr & _ & Hc & _).
  assert (Hns' : fst (go_run 510 f0 e [(pos_line, c0); (go_line, c)]) <> SStuck).
  { revert Hit0. generalize 510%nat. intros n Hn.
    rewrite (run_mono it0 f0 n f0 _ e Hn (le_n _) Hns). exact Hns. }
  assert (Hfc : first_command pos_line w_position (startpos_tokens fms))
    by (apply first_command_join0; apply startpos_line_plain).
  destruct (position_startpos_sets e fms s pos_line Hnr G ltac:(lia) Hfc) as (g & Hpos & Hcore & Hex & HL & Hlen).
  exists g. split; [exact Hcore|]. split; [exact Hex|]. split; [exact HL|]. split; [exact Hlen|].
  split; [exact (position_sets_root e fms g pos_line Hfc Hpos)|]. split.
  - apply (e2e_compose no_panic_holds iters fuel f0 e g s c0 c pos_line garbage ps); auto. rewrite Hlen. exact B.
  - intros e' out Hrun.
    refine (reached_two roots e iters fuel pos_line c0 go_line c g e' out HR _ (position_line_not_go _ _ Hfc) Hpos
              (go_line_in_domain garbage ps Hpl Hg Hnd Hok) (go_line_is_go garbage ps Hpl Hg Hnd Hok) Hrun).
    apply in_domain_text_line. apply (startpos_line_in_domain fms s G). lia.
Qed.

(* THE END-TO-END THEOREM AFTER ANY SESSION, FEN *)
Theorem engine_answers_after_any_session_fen :
  forall roots e iters fuel it0 f0 c0 c six p0 fms s garbage ps,
  reached roots e ->
  (510 <= iters)%nat -> (f0 <= fuel)%nat -> (f0 <= 255)%nat -> (it0 <= 510)%nat ->
  List.length six = 6%nat -> Forall plain_token six ->
  new_from_fen go_keys unicode_digit_tbl (join_sp six) = Ok p0 -> legal_pos p0 ->
  fide_game (abs p0) fms s -> (List.length fms + f0 <= 1024)%nat ->
  Forall plain_token garbage -> all_unknown V garbage ->
  NoDup (map kind ps) -> Forall param_ok ps -> value_of KDepth ps <> 255%Z ->
  let pos_line := join (w_position :: fen_tokens six fms) in
  let go_line := join (garbage ++ w_go :: GoLineSpec.render ps) in
  fst (go_run it0 f0 e [(pos_line, c0); (go_line, c)]) <> SStuck ->
  exists g,
    same_core (abs (g_pos g)) s /\
    ((ply p0 + N.of_nat (List.length fms) <= 255)%N -> (hmc p0 + N.of_nat (List.length fms) <= 255)%N ->
       abs (g_pos g) = s) /\
    legal_pos (g_pos g) /\ List.length (g_hist g) = List.length fms /\
    e2e_result s g (denote ps) (acks ps) (go_run iters fuel e [(pos_line, c0); (go_line, c)]) /\
    (forall e' out, go_run iters fuel e [(pos_line, c0); (go_line, c)] = (SEof e', out) -> reached (g_pos g :: roots) e').
Proof.
  intros roots e iters fuel it0 f0 c0 c six p0 fms s garbage ps HR Hit Hfu Hf0 Hit0 L6 P6 Fen HP G B Hpl Hg Hnd Hok Hd
         pos_line go_line Hns.
  destruct (reached_facts roots e HR) as (Hnr & _ & Hc & _).
  assert (Hns' : fst (go_run 510 f0 e [(pos_line, c0); (go_line, c)]) <> SStuck).
  { revert Hit0. generalize 510%nat. intros n Hn.
    rewrite (run_mono it0 f0 n f0 _ e Hn (le_n _) Hns). exact Hns. }
  assert (Hfc : first_command pos_line w_position (fen_tokens six fms))
    by (apply first_command_join0; apply fen_line_plain; exact P6).
  destruct (position_fen_sets e six p0 fms s pos_line Hnr L6 Fen HP G ltac:(lia) Hfc)
    as (g & Hpos & Hcore & Hex & HL & Hlen).
  exists g. split; [exact Hcore|]. split; [exact Hex|]. split; [exact HL|]. split; [exact Hlen|]. split.
  - apply (e2e_compose no_panic_holds iters fuel f0 e g s c0 c pos_line garbage ps); auto. rewrite Hlen. exact B.
  - intros e' out Hrun.
    refine (reached_two roots e iters fuel pos_line c0 go_line c g e' out HR _ (position_line_not_go _ _ Hfc) Hpos
              (go_line_in_domain garbage ps Hpl Hg Hnd Hok) (go_line_is_go garbage ps Hpl Hg Hnd Hok) Hrun).
    apply in_domain_text_line. apply (fen_line_in_domain six p0 fms s L6 P6 Fen HP G). lia.
Qed.

Print Assumptions handle_mono.
Print Assumptions run_mono.
Print Assumptions engine_answers_after_any_session_startpos.
Print Assumptions engine_answers_after_any_session_fen.
