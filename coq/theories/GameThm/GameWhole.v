(* Whole-game theorems, part 3 (goal 2): a GUI plays a whole game against the engine.
   Round k: `position startpos moves <all moves so far>` / `go <parameters of round k>`; the engine answers `bestmove`;
   the GUI appends the answer and the opponent's reply (ANY FIDE-legal move, chosen by a strategy that sees the whole
   game) and goes on, until the rounds are used up or the side to move has no legal move.
   [gui_game] is that dialogue as an executable function of the engine model; [whole_game] says what it computes. *)
From Coq Require Import NArith ZArith List Bool Lia.
From Clemens Require Import Base.Res Base.Word Base.Bytes Pos.Types Pos.Position Pos.Fen Pos.Inv Pos.ZobristInst
     Eval.Eval Search.TT Search.Negamax Search.SearchStruct Search.GoInst
     Uci.ParseGo Uci.ParseGoProofs Uci.Input Uci.InputProofs Uci.GoLineSpec Uci.Game Uci.Engine Uci.EngineInst.
From Clemens.C13Mate Require Import MateDefs MateExamples.
From Clemens.C13Bridge Require Import Bridge Seq.
From Clemens Require Import Rules.Abs Rules.Fide.
From Clemens.C01Att Require Import FideFacts.
From Clemens.C03Text Require Import GameReplay TextExamples.
From Clemens.C03Recon Require Import FideText Recon.
From ClemensGen Require Import GoConsts.
From Clemens.EngineE2E Require Import EngBase EngDispatch EngState EngSearch EngE2E EngText EngFinal.
From Clemens.GameThm Require Import GameInv GameAfter.
Import ListNotations.
Open Scope list_scope.

(* ------------------------------------------------------------------ the GUI *)
(* what the GUI chooses in a round: the `go` parameters (and junk before the word `go`), and - the clock - the two
   cancellation oracles of the round's lines *)
Record round := { rd_garbage : list token; rd_ps : list param; rd_c0 : option N; rd_c : option N }.

Definition round_ok (rd : round) : Prop :=
  Forall plain_token (rd_garbage rd) /\ all_unknown V (rd_garbage rd) /\
  NoDup (map kind (rd_ps rd)) /\ Forall param_ok (rd_ps rd) /\ value_of KDepth (rd_ps rd) <> 255%Z.

Definition position_line (fms : list fmove) : bytes := join (w_position :: startpos_tokens fms).
Definition go_line (rd : round) : bytes := join (rd_garbage rd ++ w_go :: GoLineSpec.render (rd_ps rd)).
Definition round_lines (fms : list fmove) (rd : round) : list (bytes * option N) :=
  [(position_line fms, rd_c0 rd); (go_line rd, rd_c rd)].

(* the GUI reads the answer off the last thing printed *)
Definition answer_of (out : list oev) : option N :=
  match last out OReadyOk with OBestMove m => Some m | _ => None end.

(* the FIDE position after the moves [fms] from the initial position *)
Definition fide_after (fms : list fmove) : bstate := fold_left apply fms initial.

Inductive game_end :=
| GAllRounds              (* all rounds played *)
| GEngineHasNoMove        (* the engine was asked in a position without legal move (mate or stalemate) *)
| GOpponentHasNoMove      (* the engine's answer left the opponent without legal move *)
| GNoAnswer               (* the engine printed no bestmove (never, see below) *)
| GBroken (fin : session_end).   (* quit, panic or a bound of the model (never, see below) *)

Record round_log := {
  rl_moves : list fmove;     (* the game before the round *)
  rl_round : round;
  rl_before : engine;
  rl_after : engine;
  rl_out : list oev;         (* everything printed in the round *)
  rl_best : N                (* the answer *)
}.

Record game_log := { gl_end : game_end; gl_engine : engine; gl_moves : list fmove; gl_rounds : list round_log }.

Fixpoint gui_game (iters fuel : nat) (opp : list fmove -> fmove) (e : engine) (fms : list fmove)
         (rds : list round) : game_log :=
  match rds with
  | [] => {| gl_end := GAllRounds; gl_engine := e; gl_moves := fms; gl_rounds := [] |}
  | rd :: rest =>
    match go_run iters fuel e (round_lines fms rd) with
    | (SEof e', out) =>
      match answer_of out with
      | None => {| gl_end := GNoAnswer; gl_engine := e'; gl_moves := fms; gl_rounds := [] |}
      | Some m =>
        let log := {| rl_moves := fms; rl_round := rd; rl_before := e; rl_after := e'; rl_out := out; rl_best := m |} in
        match legal_moves_fast (fide_after fms) with
        | [] => {| gl_end := GEngineHasNoMove; gl_engine := e'; gl_moves := fms; gl_rounds := [log] |}
        | _ :: _ =>
          let fms1 := fms ++ [decode m] in
          match legal_moves_fast (fide_after fms1) with
          | [] => {| gl_end := GOpponentHasNoMove; gl_engine := e'; gl_moves := fms1; gl_rounds := [log] |}
          | _ :: _ =>
            let r := gui_game iters fuel opp e' (fms1 ++ [opp fms1]) rest in
            {| gl_end := gl_end r; gl_engine := gl_engine r; gl_moves := gl_moves r; gl_rounds := log :: gl_rounds r |}
          end
        end
      end
    | (fin, _) => {| gl_end := GBroken fin; gl_engine := e; gl_moves := fms; gl_rounds := [] |}
    end
  end.

Lemma gui_game_cons : forall iters fuel opp e fms rd rest,
  gui_game iters fuel opp e fms (rd :: rest) =
  match go_run iters fuel e (round_lines fms rd) with
  | (SEof e', out) =>
    match answer_of out with
    | None => {| gl_end := GNoAnswer; gl_engine := e'; gl_moves := fms; gl_rounds := [] |}
    | Some m =>
      let log := {| rl_moves := fms; rl_round := rd; rl_before := e; rl_after := e'; rl_out := out; rl_best := m |} in
      match legal_moves_fast (fide_after fms) with
      | [] => {| gl_end := GEngineHasNoMove; gl_engine := e'; gl_moves := fms; gl_rounds := [log] |}
      | _ :: _ =>
        let fms1 := fms ++ [decode m] in
        match legal_moves_fast (fide_after fms1) with
        | [] => {| gl_end := GOpponentHasNoMove; gl_engine := e'; gl_moves := fms1; gl_rounds := [log] |}
        | _ :: _ =>
          let r := gui_game iters fuel opp e' (fms1 ++ [opp fms1]) rest in
          {| gl_end := gl_end r; gl_engine := gl_engine r; gl_moves := gl_moves r; gl_rounds := log :: gl_rounds r |}
        end
      end
    end
  | (fin, _) => {| gl_end := GBroken fin; gl_engine := e; gl_moves := fms; gl_rounds := [] |}
  end.
Proof. reflexivity. Qed.

(* ------------------------------------------------------------------ the opponent *)
(* any strategy that answers a FIDE-legal move wherever there is one *)
Definition legal_strategy (opp : list fmove -> fmove) : Prop :=
  forall fms s, fide_game initial fms s -> Fide.legal_moves s <> [] -> In (opp fms) (Fide.legal_moves s).

(* ------------------------------------------------------------------ what a game log must satisfy *)
(* one round: the lines sent, run from the engine the round met, printed exactly the block of one `go` - one bestmove,
   last -, left the engine IDLE; the answer is a FIDE-legal move of the position the game had reached if there is
   one, else the null move *)
Definition round_log_ok (iters fuel it0 f0 : nat) (l : round_log) : Prop :=
  round_ok (rl_round l) /\
  go_run iters fuel (rl_before l) (round_lines (rl_moves l) (rl_round l)) = (SEof (rl_after l), rl_out l) /\
  (* the same under the bounds of the search hypothesis; room on the repetition stack *)
  go_run it0 f0 (rl_before l) (round_lines (rl_moves l) (rl_round l)) = (SEof (rl_after l), rl_out l) /\
  (List.length (rl_moves l) + f0 <= 1024)%nat /\
  go_block (rl_out l) (rl_best l) /\ count_best (rl_out l) = 1%nat /\
  en_state (rl_after l) = ST_IDLE /\
  exists s, fide_game initial (rl_moves l) s /\ answer_spec s (rl_best l) /\
    same_core (abs (game_root (rl_moves l))) s /\ legal_pos (game_root (rl_moves l)).

(* the rounds in order: [roots] = the positions searched before the round (newest first), [fms] = the game before
   the round; the next round starts from this round's game with the answer and the opponent's reply appended *)
Fixpoint logs_ok (iters fuel it0 f0 : nat) (opp : list fmove -> fmove) (roots : list position) (fms : list fmove)
         (logs : list round_log) : Prop :=
  match logs with
  | [] => True
  | l :: rest =>
    rl_moves l = fms /\ reached roots (rl_before l) /\ round_log_ok iters fuel it0 f0 l /\
    (rest <> [] -> Fide.legal_moves (fide_after (fms ++ [decode (rl_best l)])) <> []) /\
    let fms1 := fms ++ [decode (rl_best l)] in
    logs_ok iters fuel it0 f0 opp (game_root fms :: roots) (fms1 ++ [opp fms1]) rest
  end.

Definition searched_roots (roots0 : list position) (logs : list round_log) : list position :=
  rev (map (fun l => game_root (rl_moves l)) logs) ++ roots0.

Definition game_ok (iters fuel it0 f0 : nat) (opp : list fmove -> fmove) (roots0 : list position) (fms0 : list fmove)
           (nrounds : nat) (r : game_log) : Prop :=
  logs_ok iters fuel it0 f0 opp roots0 fms0 (gl_rounds r) /\
  reached (searched_roots roots0 (gl_rounds r)) (gl_engine r) /\
  (gl_rounds r <> [] -> en_state (gl_engine r) = ST_IDLE) /\
  (exists s, fide_game initial (gl_moves r) s) /\
  match gl_end r with
  | GAllRounds =>
      List.length (gl_rounds r) = nrounds /\ List.length (gl_moves r) = (List.length fms0 + 2 * nrounds)%nat
  | GEngineHasNoMove =>
      Fide.legal_moves (fide_after (gl_moves r)) = [] /\
      exists logs l, gl_rounds r = logs ++ [l] /\ rl_moves l = gl_moves r /\ rl_best l = NULL_MOVE
  | GOpponentHasNoMove =>
      Fide.legal_moves (fide_after (gl_moves r)) = [] /\
      exists logs l, gl_rounds r = logs ++ [l] /\ gl_moves r = rl_moves l ++ [decode (rl_best l)] /\
                     rl_best l <> NULL_MOVE
  | GNoAnswer => False
  | GBroken _ => False
  end.

(* ------------------------------------------------------------------ small facts *)
Lemma fide_game_snoc : forall s0 fms s fm,
  fide_game s0 fms s -> In fm (Fide.legal_moves s) -> fide_game s0 (fms ++ [fm]) (apply s fm).
Proof.
  intros s0 fms s fm G Hin. induction G as [s1|s1 fm1 fms1 r L G IH]; cbn [app].
  - constructor; [exact Hin|constructor].
  - constructor; [exact L|]. apply IH. exact Hin.
Qed.

Lemma fide_after_game : forall fms s, fide_game initial fms s -> fide_after fms = s.
Proof. intros fms s G. symmetry. exact (fide_game_final initial fms s G). Qed.

Lemma answer_of_block : forall out m, go_block out m -> answer_of out = Some m.
Proof. intros out m H. unfold answer_of. rewrite (proj2 (go_block_one_best out m H)). reflexivity. Qed.

Lemma e2e_block : forall g sp evs infos m,
  go_block (map OGo evs ++ timeout_line g sp ++ map OSearch infos ++ [OBestMove m]) m.
Proof. intros. exists evs, (timeout_line g sp), infos. split; [reflexivity|apply timeout_line_shape]. Qed.

(* ------------------------------------------------------------------ the bounds *)
Theorem gui_game_mono : forall it0 f0 iters fuel opp rds e fms,
  (it0 <= iters)%nat -> (f0 <= fuel)%nat -> gl_end (gui_game it0 f0 opp e fms rds) <> GBroken SStuck ->
  gui_game iters fuel opp e fms rds = gui_game it0 f0 opp e fms rds.
Proof.
  intros it0 f0 iters fuel opp rds. induction rds as [|rd rest IH]; intros e fms Hit Hfu Hns; [reflexivity|].
  rewrite !gui_game_cons in *.
  assert (Hrun : fst (go_run it0 f0 e (round_lines fms rd)) <> SStuck).
  { intro X. destruct (go_run it0 f0 e (round_lines fms rd)) as [fin out]. cbn [fst] in X. subst fin.
    apply Hns. reflexivity. }
  rewrite (run_mono it0 f0 iters fuel _ e Hit Hfu Hrun).
  destruct (go_run it0 f0 e (round_lines fms rd)) as [[e'| | |] out]; try reflexivity.
  destruct (answer_of out) as [m|]; [|reflexivity].
  cbv zeta in *.
  destruct (legal_moves_fast (fide_after fms)); [reflexivity|].
  destruct (legal_moves_fast (fide_after (fms ++ [decode m]))); [reflexivity|].
  cbn [gl_end] in Hns. rewrite (IH _ _ Hit Hfu Hns). reflexivity.
Qed.

(* ------------------------------------------------------------------ one round *)
Lemma round_runs : forall roots e iters fuel it0 f0 fms s rd,
  reached roots e ->
  (510 <= iters)%nat -> (f0 <= fuel)%nat -> (f0 <= 255)%nat -> (it0 <= 510)%nat ->
  fide_game initial fms s -> (List.length fms + f0 <= 1024)%nat -> round_ok rd ->
  fst (go_run it0 f0 e (round_lines fms rd)) <> SStuck ->
  exists e' out m,
    go_run iters fuel e (round_lines fms rd) = (SEof e', out) /\
    go_run it0 f0 e (round_lines fms rd) = (SEof e', out) /\
    go_block out m /\ en_state e' = ST_IDLE /\ answer_spec s m /\
    same_core (abs (game_root fms)) s /\ legal_pos (game_root fms) /\
    reached (game_root fms :: roots) e'.
Proof.
  intros roots e iters fuel it0 f0 fms s rd HR Hit Hfu Hf0 Hit0 G B (Hpl & Hg & Hnd & Hok & Hd) Hns.
  destruct (engine_answers_after_any_session_startpos roots e iters fuel it0 f0 (rd_c0 rd) (rd_c rd) fms s
              (rd_garbage rd) (rd_ps rd) HR Hit Hfu Hf0 Hit0 G B Hpl Hg Hnd Hok Hd Hns)
    as (g & Hcore & _ & HL & _ & Hroot & (e' & infos & m & Eq & Hidle & _ & _ & Hans & _) & Hreach).
  exists e', (map OGo (acks (rd_ps rd)) ++ timeout_line g (denote (rd_ps rd)) ++ map OSearch infos ++ [OBestMove m]), m.
  split; [exact Eq|]. split.
  - rewrite <- (run_mono it0 f0 iters fuel (round_lines fms rd) e ltac:(lia) Hfu Hns). exact Eq.
  - split; [apply e2e_block|]. split; [exact Hidle|]. split; [exact Hans|].
    rewrite <- Hroot. split; [exact Hcore|]. split; [exact HL|]. exact (Hreach _ _ Eq).
Qed.

(* ------------------------------------------------------------------ THE WHOLE GAME *)
(* [e]: any engine reached from process start by in-domain lines ([roots]: what it searched); [fms0]: the game so far
   (nothing: the engine plays White; one move: the engine plays Black; any FIDE game: adjourned play); the opponent
   plays any FIDE-legal moves; every round's `go` has standard parameters, depth not 255.
   Repetition-stack room: all plies + f0 <= 1024, f0 <= 255 the recursion bound of the search hypothesis:
   played under the bounds (it0, f0), it0 <= 510, the game meets no bound of the model.
   Then, under all bounds iters >= 510, fuel >= f0, the same game is played, and it is [game_ok]. *)
Theorem whole_game : forall iters fuel it0 f0 opp rds roots e fms0 s0,
  (510 <= iters)%nat -> (f0 <= fuel)%nat -> (f0 <= 255)%nat -> (it0 <= 510)%nat ->
  reached roots e -> fide_game initial fms0 s0 -> legal_strategy opp -> Forall round_ok rds ->
  (List.length fms0 + 2 * List.length rds + f0 <= 1024)%nat ->
  gl_end (gui_game it0 f0 opp e fms0 rds) <> GBroken SStuck ->
  gui_game iters fuel opp e fms0 rds = gui_game it0 f0 opp e fms0 rds /\
  game_ok iters fuel it0 f0 opp roots fms0 (List.length rds) (gui_game iters fuel opp e fms0 rds).
Proof.
  intros iters fuel it0 f0 opp rds roots e fms0 s0 Hit Hfu Hf0 Hit0 HR G Hopp Hrds B Hns.
  split; [apply gui_game_mono; [lia|exact Hfu|exact Hns]|].
  revert roots e fms0 s0 HR G Hrds B Hns.
  induction rds as [|rd rest IH]; intros roots e fms0 s0 HR G Hrds B Hns.
  - cbn [gui_game]. unfold game_ok. cbn [gl_rounds gl_engine gl_moves gl_end logs_ok List.length].
    unfold searched_roots. cbn [map rev app].
    split; [exact I|]. split; [exact HR|]. split; [intro X; contradiction|]. split; [exists s0; exact G|].
    split; [reflexivity|lia].
  - inversion Hrds as [|x y Hrd Hrest]; subst x y. cbn [List.length] in B.
    rewrite gui_game_cons in Hns |- *.
    assert (Hrun : fst (go_run it0 f0 e (round_lines fms0 rd)) <> SStuck).
    { intro X. destruct (go_run it0 f0 e (round_lines fms0 rd)) as [fin out]. cbn [fst] in X. subst fin.
      apply Hns. reflexivity. }
    destruct (round_runs roots e iters fuel it0 f0 fms0 s0 rd HR Hit Hfu Hf0 Hit0 G ltac:(lia) Hrd Hrun)
      as (e' & out & m & Eq & Eq0 & Hblock & Hidle & Hans & Hcore & HL & HR').
    rewrite Eq0 in Hns. rewrite Eq. rewrite (answer_of_block out m Hblock) in Hns |- *.
    cbv zeta in Hns |- *.
    rewrite (legal_moves_fast_eq (fide_after fms0)), (fide_after_game fms0 s0 G) in Hns |- *.
    set (log := {| rl_moves := fms0; rl_round := rd; rl_before := e; rl_after := e'; rl_out := out; rl_best := m |}).
    assert (Hlog : round_log_ok iters fuel it0 f0 log).
    { split; [exact Hrd|]. split; [exact Eq|]. split; [exact Eq0|]. split; [cbn [log rl_moves]; lia|].
      split; [exact Hblock|].
      split; [exact (proj1 (go_block_one_best out m Hblock))|]. split; [exact Hidle|].
      exists s0. auto. }
    assert (Hcase0 : Fide.legal_moves s0 = [] \/ exists a l, Fide.legal_moves s0 = a :: l)
      by (destruct (Fide.legal_moves s0); eauto).
    destruct Hcase0 as [El0|(fm0 & l0 & El0)]; rewrite El0 in Hns |- *.
    + (* the engine has no move *)
      unfold game_ok. cbn [gl_rounds gl_engine gl_moves gl_end logs_ok].
      unfold searched_roots, log. cbn [map rev app rl_moves].
      split; [split; [reflexivity|split; [exact HR|split; [exact Hlog|split; [intro X; contradiction|exact I]]]]|].
      split; [exact HR'|]. split; [intros _; exact Hidle|]. split; [exists s0; exact G|].
      split; [rewrite (fide_after_game fms0 s0 G); exact El0|].
      exists [], log. split; [reflexivity|]. split; [reflexivity|]. exact (proj2 Hans El0).
    + assert (Hne : Fide.legal_moves s0 <> []) by (rewrite El0; discriminate).
      clear El0 fm0 l0.
      destruct (proj1 Hans Hne) as [Hm Hin].
      pose proof (fide_game_snoc initial fms0 s0 (decode m) G Hin) as G1.
      rewrite (legal_moves_fast_eq (fide_after (fms0 ++ [decode m]))), (fide_after_game _ _ G1) in Hns |- *.
      assert (Hcase1 : Fide.legal_moves (apply s0 (decode m)) = [] \/
                       exists a l, Fide.legal_moves (apply s0 (decode m)) = a :: l)
        by (destruct (Fide.legal_moves (apply s0 (decode m))); eauto).
      destruct Hcase1 as [El1|(fm1 & l1 & El1)]; rewrite El1 in Hns |- *.
      * (* the opponent has no move *)
        unfold game_ok. cbn [gl_rounds gl_engine gl_moves gl_end logs_ok].
        unfold searched_roots, log. cbn [map rev app rl_moves].
        split; [split; [reflexivity|split; [exact HR|split; [exact Hlog|split; [intro X; contradiction|exact I]]]]|].
        split; [exact HR'|]. split; [intros _; exact Hidle|]. split; [eexists; exact G1|].
        split; [rewrite (fide_after_game _ _ G1); exact El1|].
        exists [], log. split; [reflexivity|]. split; [reflexivity|]. exact Hm.
      * assert (Hne1 : Fide.legal_moves (apply s0 (decode m)) <> []) by (rewrite El1; discriminate).
        clear El1 fm1 l1.
        set (fms1 := fms0 ++ [decode m]) in *.
        pose proof (Hopp fms1 _ G1 Hne1) as Hreply.
        pose proof (fide_game_snoc initial fms1 _ (opp fms1) G1 Hreply) as G2.
        cbn [gl_end] in Hns.
        assert (B' : (List.length (fms1 ++ [opp fms1]) + 2 * List.length rest + f0 <= 1024)%nat).
        { unfold fms1. rewrite !app_length. cbn [List.length]. lia. }
        specialize (IH (game_root fms0 :: roots) e' (fms1 ++ [opp fms1]) _ HR' G2 Hrest B' Hns).
        destruct IH as (I1 & I2 & I3 & I4 & I5).
        set (r := gui_game iters fuel opp e' (fms1 ++ [opp fms1]) rest) in *.
        unfold game_ok. cbn [gl_rounds gl_engine gl_moves gl_end logs_ok].
        split; [|split; [|split; [|split; [exact I4|]]]].
        -- split; [reflexivity|]. split; [exact HR|]. split; [exact Hlog|]. unfold log. cbn [rl_best rl_moves].
           fold fms1. split; [intros _; rewrite (fide_after_game _ _ G1); exact Hne1|]. exact I1.
        -- unfold searched_roots in *. unfold log. cbn [map rev rl_moves]. rewrite <- app_assoc. cbn [app]. exact I2.
        -- intros _. destruct (gl_rounds r) as [|l1 ls1] eqn:Er; [|apply I3; discriminate].
           (* no further round: the engine is the one this round left *)
           destruct rest as [|rd2 rest2].
           ++ cbn [gui_game] in r. subst r. cbn [gl_engine]. exact Hidle.
           ++ (* a further round was due and left no log: impossible for an ok game *)
              exfalso. destruct (gl_end r) eqn:Ee; try contradiction.
              ** destruct I5 as [X _]. discriminate X.
              ** destruct I5 as (_ & lg & l & X & _). destruct lg; discriminate X.
              ** destruct I5 as (_ & lg & l & X & _). destruct lg; discriminate X.
        -- destruct (gl_end r) eqn:Ee; try contradiction.
           ++ destruct I5 as [X Y]. cbn [List.length]. split; [lia|].
              rewrite Y. unfold fms1. rewrite !app_length. cbn [List.length]. lia.
           ++ destruct I5 as (X & lg & l & Y1 & Y2). split; [exact X|].
              exists (log :: lg), l. rewrite Y1. split; [reflexivity|exact Y2].
           ++ destruct I5 as (X & lg & l & Y1 & Y2). split; [exact X|].
              exists (log :: lg), l. rewrite Y1. split; [reflexivity|exact Y2].
Qed.

(* ------------------------------------------------------------------ what [game_ok] says round by round *)
Lemma logs_ok_rounds : forall iters fuel it0 f0 opp logs roots fms,
  logs_ok iters fuel it0 f0 opp roots fms logs -> Forall (round_log_ok iters fuel it0 f0) logs.
Proof.
  intros iters fuel it0 f0 opp logs. induction logs as [|l rest IH]; intros roots fms H; [constructor|].
  cbn [logs_ok] in H. destruct H as (_ & _ & Hl & _ & Hrest). constructor; [exact Hl|]. eapply IH; exact Hrest.
Qed.

(* every round printed exactly one bestmove - the last thing printed -, a FIDE-legal move of the FIDE position of
   the game so far (the null move iff there is none), the game so far is a FIDE game, the engine is IDLE afterwards *)
Theorem game_ok_rounds : forall iters fuel it0 f0 opp roots fms0 n r,
  game_ok iters fuel it0 f0 opp roots fms0 n r ->
  Forall (fun l =>
    count_best (rl_out l) = 1%nat /\ last (rl_out l) OReadyOk = OBestMove (rl_best l) /\
    en_state (rl_after l) = ST_IDLE /\
    exists s, fide_game initial (rl_moves l) s /\
      (Fide.legal_moves s <> [] -> rl_best l <> NULL_MOVE /\ In (decode (rl_best l)) (Fide.legal_moves s)) /\
      (Fide.legal_moves s = [] -> rl_best l = NULL_MOVE)) (gl_rounds r).
Proof.
  intros iters fuel it0 f0 opp roots fms0 n r (H & _). apply logs_ok_rounds in H.
  eapply Forall_impl; [|exact H]. intros l (_ & _ & _ & _ & Hb & Hc & Hi & s & G & A & _).
  split; [exact Hc|]. split; [exact (proj2 (go_block_one_best _ _ Hb))|]. split; [exact Hi|].
  exists s. split; [exact G|]. exact A.
Qed.

(* the engine plays White from the start position *)
Corollary engine_plays_white : forall iters fuel it0 f0 opp rds roots e,
  (510 <= iters)%nat -> (f0 <= fuel)%nat -> (f0 <= 255)%nat -> (it0 <= 510)%nat ->
  reached roots e -> legal_strategy opp -> Forall round_ok rds ->
  (2 * List.length rds + f0 <= 1024)%nat ->
  gl_end (gui_game it0 f0 opp e [] rds) <> GBroken SStuck ->
  gui_game iters fuel opp e [] rds = gui_game it0 f0 opp e [] rds /\
  game_ok iters fuel it0 f0 opp roots [] (List.length rds) (gui_game iters fuel opp e [] rds).
Proof.
  intros iters fuel it0 f0 opp rds roots e Hit Hfu Hf0 Hit0 HR Hopp Hrds B Hns.
  apply (whole_game iters fuel it0 f0 opp rds roots e [] initial); auto. constructor.
Qed.

(* the engine plays Black: the GUI's first line already contains White's first move *)
Corollary engine_plays_black : forall iters fuel it0 f0 opp rds roots e first,
  (510 <= iters)%nat -> (f0 <= fuel)%nat -> (f0 <= 255)%nat -> (it0 <= 510)%nat ->
  reached roots e -> In first (Fide.legal_moves initial) -> legal_strategy opp -> Forall round_ok rds ->
  (1 + 2 * List.length rds + f0 <= 1024)%nat ->
  gl_end (gui_game it0 f0 opp e [first] rds) <> GBroken SStuck ->
  gui_game iters fuel opp e [first] rds = gui_game it0 f0 opp e [first] rds /\
  game_ok iters fuel it0 f0 opp roots [first] (List.length rds) (gui_game iters fuel opp e [first] rds).
Proof.
  intros iters fuel it0 f0 opp rds roots e first Hit Hfu Hf0 Hit0 HR Hfirst Hopp Hrds B Hns.
  apply (whole_game iters fuel it0 f0 opp rds roots e [first] (apply initial first)); auto.
  constructor; [exact Hfirst|constructor].
Qed.

Print Assumptions gui_game_mono.
Print Assumptions whole_game.
Print Assumptions game_ok_rounds.
Print Assumptions engine_plays_white.
Print Assumptions engine_plays_black.
