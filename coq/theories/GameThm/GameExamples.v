(* Whole-game theorems, part 5: non-vacuity.  Concrete sessions and games evaluated by the kernel, and instances of
   the main theorems with every hypothesis discharged. *)
From Coq Require Import NArith ZArith List Bool Lia String Ascii.
From Clemens Require Import Base.Res Base.Word Base.Bytes Pos.Types Pos.Position Pos.Fen Pos.Inv
     Pos.ZobristInst Eval.Eval Search.TT Search.Negamax Search.SearchStruct Search.SearchLines Search.GoInst
     Uci.ParseGo Uci.ParseGoProofs Uci.Input Uci.InputProofs Uci.GoLineSpec Uci.Game Uci.Engine Uci.EngineInst.
From Clemens.C13Mate Require Import MateDefs MateRange MateExamples.
From Clemens.C13Bridge Require Import Bridge Seq.
From Clemens Require Import Rules.Abs Rules.Fide.
From Clemens.C01Att Require Import FideFacts.
From Clemens.C03Recon Require Import FideText Recon.
From ClemensGen Require Import GoConsts.
From Clemens.EngineE2E Require Import EngBase EngDispatch EngState EngSearch EngE2E EngText EngExamples EngFinal.
From Clemens.GameThm Require Import GameInv GameAfter GameWhole GameMate GameExDefs.
Import ListNotations.
Open Scope list_scope.
Open Scope string_scope.

(* ================================================================== goal 1: a session and the invariant *)
Definition session2 : list (bytes * option N) :=
  [(bs "uci", None); (bs "isready", None);
   (bs "position startpos moves e2e4 e7e5", None); (bs "go depth 1", None);
   (bs "go depth 1", None);                                        (* refused: IDLE *)
   (bs "position", None);                                          (* rejected: no tokens *)
   (bs "position fen 8/8/8 w", None);                              (* rejected: FEN too short *)
   (bs "ucinewgame", None);
   (bs ("position fen " ++ mate_fen ++ " moves"), None); (bs "go depth 2", Some 3%N)].

Lemma not_position : forall line,
  match handle_line V line with CPosition _ => false | _ => true end = true -> in_domain_text line.
Proof. intros line H. left. intros ts E. rewrite E in H. discriminate. Qed.

Lemma session2_in_domain : forall iters fuel e, in_domain_session iters fuel e session2.
Proof.
  intros iters fuel e. apply in_domain_text_session. unfold session2.
  repeat (apply Forall_cons || apply Forall_nil); cbn [fst];
    try (apply not_position; vm_compute; reflexivity).
  - (* position startpos moves e2e4 e7e5 *)
    right. left. exists ex_fms, ex_s. split; [exact ex_game|]. split; [cbn; lia|].
    exists []. split; [vm_compute; reflexivity|constructor].
  - (* position *)
    right. right. right. left. exists []. split; [vm_compute; reflexivity|left; reflexivity].
  - (* position fen 8/8/8 w *)
    right. right. right. left. eexists. split; [vm_compute; reflexivity|]. right. eexists. vm_compute. reflexivity.
  - (* position fen 6k1/5ppp/8/8/8/8/8/R3K3 w Q - 0 1 moves *)
    right. right. left. exists mate_six, mate_p0, [], (abs mate_p0).
    split; [reflexivity|]. split; [exact mate_p0_fen|]. split; [exact mate_p0_legal|].
    split; [constructor|]. split; [cbn; lia|].
    exists []. split; [vm_compute; reflexivity|constructor].
Qed.

(* the session runs to the end of its input (kernel evaluation); hence the engine it leaves meets the invariant, with
   the two searched roots on record *)
Definition run_ends (iters fuel : nat) (e : engine) (ls : list (bytes * option N)) : bool :=
  match fst (go_run iters fuel e ls) with SEof _ => true | _ => false end.
Definition run_end (iters fuel : nat) (e : engine) (ls : list (bytes * option N)) : engine :=
  match fst (go_run iters fuel e ls) with SEof e' => e' | _ => e end.

Lemma run_ends_spec : forall iters fuel e ls, run_ends iters fuel e ls = true ->
  go_run iters fuel e ls = (SEof (run_end iters fuel e ls), snd (go_run iters fuel e ls)).
Proof.
  intros iters fuel e ls. unfold run_ends, run_end.
  destruct (go_run iters fuel e ls) as [[e'| | |] out]; cbn [fst snd]; intro H; try discriminate. reflexivity.
Qed.

Definition session2_end : engine := run_end 10 60 go_engine_init session2.

Example session2_reached :
  reached (searched_in 10 60 go_engine_init session2) session2_end /\
  map (fun p => to_fen p) (searched_in 10 60 go_engine_init session2) =
    [Ok (bs mate_fen); Ok (bs "rnbqkbnr/pppp1ppp/8/4p3/4P3/8/PPPP1PPP/RNBQKBNR w KQkq e6 0 2")] /\
  en_state session2_end = ST_IDLE /\ cache_sane go_econsts (en_cache session2_end) /\
  st_he (en_tt session2_end) <> 0%N.
Proof.
  assert (E : run_ends 10 60 go_engine_init session2 = true) by (vm_compute; reflexivity).
  assert (R : reached (searched_in 10 60 go_engine_init session2) session2_end)
    by exact (session_from_start 10 60 session2 _ _ (session2_in_domain 10 60 _) (run_ends_spec _ _ _ _ E)).
  split; [exact R|]. split; [vm_compute; reflexivity|]. split; [vm_compute; reflexivity|].
  split; [exact (proj1 (proj2 (proj2 (reached_facts _ _ R))))|]. vm_compute. discriminate.
Qed.

(* ================================================================== goal 2: whole games *)
Definition rd1 : round := {| rd_garbage := []; rd_ps := [PInt KDepth 1]; rd_c0 := None; rd_c := None |}.
Definition rd2 : round :=
  {| rd_garbage := [bs "xyzzy"]; rd_ps := [PInt KDepth 2; PInt KWtime 60000; PInt KBtime 60000];
     rd_c0 := None; rd_c := Some 40%N |}.

Lemma rd1_ok : round_ok rd1.
Proof.
  unfold round_ok, rd1; cbn [rd_garbage rd_ps]. split; [constructor|]. split; [constructor|].
  split; [repeat constructor; cbn; tauto|]. split; [constructor; [cbn; lia|constructor]|cbn; discriminate].
Qed.

Lemma rd2_ok : round_ok rd2.
Proof.
  unfold round_ok, rd2; cbn [rd_garbage rd_ps].
  split; [repeat constructor; discriminate|]. split; [repeat constructor|].
  split; [repeat constructor; cbn; intuition discriminate|].
  split; [repeat constructor; cbn; unfold min_int, max_int; lia|cbn; discriminate].
Qed.

(* an opponent: plays the scripted reply if it is legal, else the first legal move *)
Definition script_opp (script : list fmove) (fms : list fmove) : fmove :=
  let s := fide_after fms in
  let want := nth (List.length fms / 2) script (mv 0 0 0 0) in
  if legal s want then want else hd want (legal_moves_fast s).

Lemma script_opp_legal : forall script, legal_strategy (script_opp script).
Proof.
  intros script fms s G Hne. unfold script_opp. rewrite (fide_after_game fms s G).
  destruct (legal s (nth (List.length fms / 2) script (mv 0 0 0 0))) eqn:E; [apply legal_moves_iff; exact E|].
  rewrite legal_moves_fast_eq. destruct (Fide.legal_moves s); [contradiction|left; reflexivity].
Qed.

Definition black_script : list fmove := [mv 4 6 4 4; mv 1 7 2 5; mv 6 7 5 5].     (* e7e5 b8c6 g8f6 *)
Definition white_script : list fmove := [mv 4 1 4 3; mv 6 0 5 2; mv 5 0 2 3].     (* (e2e4) g1f3 f1c4 *)

Definition show (r : game_log) :=
  (gl_end r, map (fun m => text (fide_text m)) (gl_moves r),
   map (fun l => (map (fun lc => text (fst lc)) (round_lines (rl_moves l) (rl_round l)), printed_lines (rl_out l)))
       (gl_rounds r),
   en_state (gl_engine r)).

(* THREE ROUNDS, the engine plays White: what the kernel computes *)
Example white_game_computed :
  show (gui_game 10 60 (script_opp black_script) go_engine_init [] [rd1; rd2; rd1]) =
  (GAllRounds, ["b1c3"; "e7e5"; "g1f3"; "b8c6"; "d2d4"; "g8f6"],
   [(["position startpos moves"; "go depth 1"],
     ["info string calculated timeout 900";
      "info depth 1 score cp 50 time * nodes 22 nps * hashfull 0 pv b1c3"; "bestmove b1c3"]);
    (["position startpos moves b1c3 e7e5"; "xyzzy go depth 2 wtime 60000 btime 60000"],
     ["info string calculated timeout 915";
      "info depth 1 score cp 50 time * nodes 45 nps * hashfull 0 pv g1f3"; "bestmove g1f3"]);
    (["position startpos moves b1c3 e7e5 g1f3 b8c6"; "go depth 1"],
     ["info string calculated timeout 900";
      "info depth 1 score cp 48 time * nodes 47 nps * hashfull 0 pv d2d4"; "bestmove d2d4"])],
   ST_IDLE).
Proof. vm_compute. reflexivity. Qed.

(* ... and what the theorem says about the same game under the bounds of C05: every hypothesis discharged (the search
   hypothesis by running the game under the bounds 10 / 60) *)
Example white_game_instance :
  let opp := script_opp black_script in
  gui_game 510 1282 opp go_engine_init [] [rd1; rd2; rd1] = gui_game 10 60 opp go_engine_init [] [rd1; rd2; rd1] /\
  game_ok 510 1282 10 60 opp [] [] 3 (gui_game 510 1282 opp go_engine_init [] [rd1; rd2; rd1]).
Proof.
  cbv zeta.
  apply (engine_plays_white 510 1282 10 60 (script_opp black_script) [rd1; rd2; rd1] [] go_engine_init); try lia.
  - exact reached_init.
  - apply script_opp_legal.
  - constructor; [exact rd1_ok|constructor; [exact rd2_ok|constructor; [exact rd1_ok|constructor]]].
  - cbn [List.length]. lia.
  - (* the search hypothesis: the game played under the bounds 10 / 60 ends regularly (computed above) *)
    pose proof (f_equal (fun x => fst (fst (fst x))) white_game_computed) as H.
    change (gl_end (gui_game 10 60 (script_opp black_script) go_engine_init [] [rd1; rd2; rd1]) = GAllRounds) in H.
    rewrite H. discriminate.
Qed.

Print Assumptions session2_reached.
Print Assumptions white_game_computed.
Print Assumptions white_game_instance.
