(* Whole-game theorems, part 4 (goal 3): a mate in one is played, end to end.
   The FIDE notion (a legal move after which the opponent is in check and has no legal move) is related to the
   engine-level [mating go_keys root m] of C13 through [abs] / [decode]; C13's session theorem is then applied to
   the search a `go` line starts from an engine reached from process start by any in-domain session. *)
From Coq Require Import NArith ZArith List Bool Lia Permutation.
From Clemens Require Import Base.Res Base.Word Base.Bytes Pos.Types Pos.Position Pos.Fen Pos.Inv Pos.GenWords
     Pos.ZobristProofs Pos.ZobristInst Eval.Eval Search.TT Search.Ordering Search.OrderingProofs Search.Negamax
     Search.SearchStruct Search.SearchLines Search.SearchIter Search.GoInst
     Uci.ParseGo Uci.ParseGoProofs Uci.Input Uci.InputProofs Uci.GoLineSpec Uci.Game Uci.Engine Uci.EngineInst.
From Clemens.C10Inv Require Import InvGen InvStep InvTotal InvReach.
From Clemens.C13Mate Require Import MateDefs MateRange MateExamples.
From Clemens.C13Bridge Require Import Bridge Seq.
From Clemens.C05Term Require Import Mono.
From Clemens Require Import Rules.Abs Rules.Fide.
From Clemens.C01Att Require Import AttRefines FideFacts Final.
From Clemens.C03Text Require Import GameReplay TextExamples.
From Clemens.C03Recon Require Import FideText Recon.
From ClemensGen Require Import GoConsts.
From Clemens.EngineE2E Require Import EngBase EngDispatch EngState EngSearch EngE2E EngText EngFinal.
From Clemens.GameThm Require Import GameInv GameAfter GameWhole.
Import ListNotations.
Open Scope list_scope.

(* ------------------------------------------------------------------ the FIDE notion *)
(* the side to move in [s] is checkmated *)
Definition fide_mated (s : bstate) : Prop := in_check s (b_turn s) = true /\ Fide.legal_moves s = [].

(* [fm] is a legal move of [s] that checkmates *)
Definition fide_mating (s : bstate) (fm : fmove) : Prop := In fm (Fide.legal_moves s) /\ fide_mated (apply s fm).

Definition fide_mate_in_one (s : bstate) : Prop := exists fm, fide_mating s fm.

(* it is the executable [checkmate] of Rules/Fide.v *)
Lemma fide_mated_checkmate : forall s, fide_mated s <-> checkmate s = true.
Proof.
  intro s. unfold fide_mated, checkmate. rewrite legal_moves_fast_eq, andb_true_iff.
  destruct (Fide.legal_moves s); intuition discriminate.
Qed.

Lemma fide_mated_core : forall a b, same_core a b -> fide_mated a -> fide_mated b.
Proof.
  intros a b C [H1 H2]. unfold fide_mated. rewrite <- (legal_moves_core a b C), <- (in_check_core a b _ C).
  destruct C as (_ & Ht & _). rewrite <- Ht. split; assumption.
Qed.

Lemma fide_mating_core : forall a b fm, same_core a b -> fide_mating a fm -> fide_mating b fm.
Proof.
  intros a b fm C [H1 H2]. split; [rewrite <- (legal_moves_core a b C); exact H1|].
  exact (fide_mated_core _ _ (apply_same_core a b fm C) H2).
Qed.

(* ------------------------------------------------------------------ engine level = FIDE level *)
Lemma mated_iff_fide : forall q, Inv q -> (mated go_keys q <-> fide_mated (abs q)).
Proof.
  intros q HI. unfold mated, fide_mated.
  rewrite (in_check_refines_inv q (side q) HI (inv_side_lt q HI)).
  change (b_turn (abs q)) with (abs_color (side q)).
  destruct (legal_moves_total go_keys go_keys_wf q HI) as [l Hl].
  pose proof (legal_moves_nil_iff q l HI Hl) as Hnil. rewrite Hl. split.
  - intros [H1 H2]. injection H1 as H1. injection H2 as H2. split; [exact H1|apply Hnil; exact H2].
  - intros [H1 H2]. rewrite H1. split; [reflexivity|]. f_equal. apply Hnil. exact H2.
Qed.

(* the engine's mating moves are, read through [decode], FIDE mating moves of the abstracted position *)
Theorem mating_fide : forall root m, Inv root -> mating go_keys root m -> fide_mating (abs root) (decode m).
Proof.
  intros root m HI (l & q & Hl & Hin & Hmk & Hm).
  destruct (legal_moves_kept go_keys root l (mv_low m) Hl Hin) as (ms & q' & Hg & Hin' & Hmk' & Hleg).
  rewrite make_move_low, Hmk in Hmk'. injection Hmk' as <-.
  assert (Hgen : gen_of root m).
  { exists ms, (mv_low m). split; [exact Hg|]. split; [exact Hin'|]. symmetry. apply lt16_low. apply mv_low_lt. }
  destruct (move_ok_fide root m q HI Hgen Hmk Hleg) as (Hfin & Iq & Cq).
  split; [exact Hfin|]. apply (fide_mated_core (abs q)); [exact Cq|]. apply mated_iff_fide; assumption.
Qed.

(* ... and every FIDE mating move is the reading of an engine mating move *)
Theorem fide_mating_exists : forall root fm, Inv root -> fide_mating (abs root) fm ->
  exists m, mating go_keys root m /\ decode m = fm.
Proof.
  intros root fm HI [Hin Hm].
  destruct (legal_moves_total go_keys go_keys_wf root HI) as [l Hl].
  pose proof (C01_movegen_closed go_keys root l HI Hl) as Hperm.
  apply (Permutation_in _ (Permutation_sym Hperm)) in Hin. apply in_map_iff in Hin. destruct Hin as (m & <- & Hinl).
  destruct (legal_moves_kept go_keys root l m Hl Hinl) as (ms & q & Hg & Hin' & Hmk & Hleg).
  assert (Hlow : mv_low m = m).
  { apply lt16_low. pose proof (gen_moves_low16 root ms HI Hg) as F. rewrite Forall_forall in F. exact (F m Hin'). }
  assert (Hgen : gen_of root m) by (exists ms, m; auto).
  destruct (move_ok_fide root m q HI Hgen Hmk Hleg) as (_ & Iq & Cq).
  exists m. split; [|reflexivity]. exists l, q. rewrite Hlow. split; [exact Hl|]. split; [exact Hinl|]. split; [exact Hmk|].
  apply mated_iff_fide; [exact Iq|]. apply (fide_mated_core _ _ (same_core_sym _ _ Cq)). exact Hm.
Qed.

Corollary mate_in_one_iff : forall root, Inv root ->
  ((exists m, mating go_keys root m) <-> fide_mate_in_one (abs root)).
Proof.
  intros root HI. split.
  - intros [m H]. exists (decode m). apply mating_fide; assumption.
  - intros [fm H]. destruct (fide_mating_exists root fm HI H) as (m & Hm & _). exists m. exact Hm.
Qed.

(* ------------------------------------------------------------------ the hypotheses of C13 about a root *)
(* the uint8 legal-move counter: fewer than 256 generated moves at the root and at its successors; no position the
   search can visit from [root], or could visit in the earlier searches of the session, shares its 64-bit hash
   with a checkmated successor of [root] *)
Definition c13_root_hyps (roots : list position) (root : position) : Prop :=
  few_gen root /\
  (forall m q, gen_of root m -> make_move go_keys root m = Ok q -> few_gen q) /\
  no_collision root /\
  (forall root1, In root1 roots -> no_collision_from root1 root).

(* ------------------------------------------------------------------ the `go` line *)
(* an accepted `go` in an engine whose tables are those of a session: under the recursion bound f0 <= 255 the engine
   answers, and the answer is a FIDE mating move *)
Theorem go_plays_mate : forall roots it0 f0 iters fuel e g c line ts sp evs e' out,
  engine_ok roots e -> en_state e = ST_POSITION_SET -> en_game e = Some g ->
  handle_line V line = CGo ts -> parse_go ts = Ok (sp, evs) -> sp_depth sp <> 255%Z ->
  c13_root_hyps roots (g_pos g) -> fide_mate_in_one (abs (g_pos g)) ->
  (f0 <= 255)%nat -> (it0 <= iters)%nat -> (f0 <= fuel)%nat ->
  go_handle it0 f0 e line c <> EStuck ->
  go_handle iters fuel e line c = EOk e' out ->
  exists m, last out OReadyOk = OBestMove m /\ fide_mating (abs (g_pos g)) (decode m).
Proof.
  intros roots it0 f0 iters fuel e g c line ts sp evs e' out Hok Es Eg Hl Ep Hd (F1 & F2 & N1 & N2) Hmate
         Hf0 Hit Hfu Hns H.
  rewrite (handle_mono it0 f0 iters fuel e line c Hit Hfu Hns) in H.
  rewrite go_handle_eq, Hl, (start_search_accepted it0 f0 e ts c g sp evs Es Eg Ep) in H.
  destruct (go_search it0 f0 true (go_sst e g c) (g_pos g) (Z.to_N (sp_depth sp))) as [r s'] eqn:E.
  destruct r as [m| | |]; try discriminate. injection H as _ <-.
  exists m. split.
  { rewrite !app_assoc. apply last_last. }
  destruct Hok as (_ & Hg & _ & HS). destruct (Hg g Eg) as [HL _].
  apply mating_fide; [exact (proj1 HL)|].
  pose proof (parse_go_depth ts sp evs Ep) as Hrange.
  refine (Seq.C13_mate_in_one_session (g_pos g) roots it0 f0 true (go_sst e g c) (Z.to_N (sp_depth sp)) m s'
            _ eq_refl HL F1 F2 _ N1 N2 Hf0 ltac:(lia) E).
  - apply (session_caller roots _ _ HS); reflexivity.
  - apply mate_in_one_iff; [exact (proj1 HL)|exact Hmate].
Qed.

(* ------------------------------------------------------------------ `position ...` then `go ...` *)
(* the root a `position` command with the tokens [toks] sets *)
Definition cmd_root (toks : list token) : position :=
  match new_position_cmd go_keys unicode_digit_tbl se_history_size toks with
  | NPSet g => g_pos g
  | _ => hm_p0
  end.
Definition fen_root (six : list bytes) (fms : list fmove) : position := cmd_root (fen_tokens six fms).

Lemma game_root_cmd : forall fms, game_root fms = cmd_root (startpos_tokens fms).
Proof. reflexivity. Qed.

Lemma position_sets_cmd_root : forall e toks g line,
  first_command line w_position toks ->
  (forall iters fuel c, go_handle iters fuel e line c = EOk (with_game e g) []) ->
  g_pos g = cmd_root toks.
Proof.
  intros e toks g line Hfc Hpos. specialize (Hpos 0%nat 0%nat None).
  rewrite (handle_position _ _ e line None _ Hfc) in Hpos.
  unfold go_new_position_e, Engine.new_position in Hpos. unfold cmd_root.
  destruct (en_state e =? ST_RUNNING)%N; [discriminate|].
  destruct toks as [|t toks']; [discriminate|].
  change (sc_hist_size go_sconsts) with se_history_size in Hpos.
  destruct (new_position_cmd go_keys unicode_digit_tbl se_history_size (t :: toks')) as [b|g'|g'|]; try discriminate.
  - destruct (_ && _); discriminate.
  - injection Hpos as ->. reflexivity.
Qed.

(* the two lines, from an engine that meets the invariant, the `position` line known to set the game [g] *)
Lemma two_lines_mate : forall roots e iters fuel it0 f0 c0 c pos_line g s garbage ps,
  reached roots e ->
  (510 <= iters)%nat -> (f0 <= fuel)%nat -> (f0 <= 255)%nat -> (it0 <= 510)%nat ->
  in_domain_line e pos_line -> is_go_line pos_line = false ->
  (forall iters fuel c, go_handle iters fuel e pos_line c = EOk (with_game e g) []) ->
  same_core (abs (g_pos g)) s -> legal_pos (g_pos g) -> (List.length (g_hist g) + f0 <= 1024)%nat ->
  Forall plain_token garbage -> all_unknown V garbage ->
  NoDup (map kind ps) -> Forall param_ok ps -> value_of KDepth ps <> 255%Z ->
  fide_mate_in_one s -> c13_root_hyps roots (g_pos g) ->
  let go_line := join (garbage ++ w_go :: GoLineSpec.render ps) in
  fst (go_run it0 f0 e [(pos_line, c0); (go_line, c)]) <> SStuck ->
  exists e' infos m,
    go_run iters fuel e [(pos_line, c0); (go_line, c)] =
      (SEof e', map OGo (acks ps) ++ timeout_line g (denote ps) ++ map OSearch infos ++ [OBestMove m]) /\
    en_state e' = ST_IDLE /\ fide_mating s (decode m) /\ reached (g_pos g :: roots) e'.
Proof.
  intros roots e iters fuel it0 f0 c0 c pos_line g s garbage ps HR Hit Hfu Hf0 Hit0 Hdom Hng Hpos Hcore HL Hroom
         Hpl Hg Hnd Hok Hd Hmate Hroot go_line Hns.
  subst go_line. set (go_line := join (garbage ++ w_go :: GoLineSpec.render ps)) in *.
  destruct (reached_facts roots e HR) as (Hnr & _ & Hc & _).
  assert (Hns' : fst (go_run 510 f0 e [(pos_line, c0); (go_line, c)]) <> SStuck).
  { revert Hit0. generalize 510%nat. intros n Hn.
    rewrite (run_mono it0 f0 n f0 _ e Hn (le_n _) Hns). exact Hns. }
  destruct (e2e_compose no_panic_holds iters fuel f0 e g s c0 c pos_line garbage ps Hit Hfu Hf0 Hc Hpos Hcore HL Hroom
              Hpl Hg Hnd Hok Hd Hns') as (e' & infos & m & Eq & Hidle & _).
  exists e', infos, m. split; [exact Eq|]. split; [exact Hidle|].
  assert (Hreach : reached (g_pos g :: roots) e').
  { exact (reached_two roots e iters fuel pos_line c0 go_line c g e' _ HR Hdom Hng Hpos
             (go_line_in_domain garbage ps Hpl Hg Hnd Hok) (go_line_is_go garbage ps Hpl Hg Hnd Hok) Eq). }
  split; [|exact Hreach].
  (* the `go` line alone *)
  destruct (go_line_cgo garbage ps Hpl Hg Hnd Hok) as [Hl Ep]. fold go_line in Hl.
  pose proof (eq_trans (eq_sym (run_two iters fuel e pos_line c0 go_line c _ _ (Hpos iters fuel c0))) Eq) as Eq2.
  clear Eq. rename Eq2 into Eq.
  destruct (go_handle iters fuel (with_game e g) go_line c) as [e2 o2| |o2|] eqn:E2; try discriminate.
  injection Eq as -> Eo. cbn [app] in Eo. rewrite app_nil_r in Eo. subst o2.
  assert (Hns2 : go_handle it0 f0 (with_game e g) go_line c <> EStuck).
  { intro X. apply Hns.
    refine (eq_trans (f_equal fst (run_two it0 f0 e pos_line c0 go_line c _ _ (Hpos it0 f0 c0))) _).
    rewrite X. reflexivity. }
  assert (Hok2 : engine_ok roots (with_game e g)).
  { apply position_sets_ok; [apply reached_ok; exact HR|exact HL|lia]. }
  destruct (go_plays_mate roots it0 f0 iters fuel (with_game e g) g c go_line _ _ _ e' _ Hok2 eq_refl eq_refl Hl Ep
              ltac:(cbn [denote sp_depth]; exact Hd) Hroot
              ltac:(destruct Hmate as [fm Hfm]; exists fm; exact (fide_mating_core _ _ _ (same_core_sym _ _ Hcore) Hfm))
              Hf0 ltac:(lia) Hfu Hns2 E2) as (m' & Hlast & Hm').
  rewrite !app_assoc, last_last in Hlast. injection Hlast as <-.
  exact (fide_mating_core _ _ _ Hcore Hm').
Qed.

(* MATE IN ONE, END TO END, start position.  After ANY in-domain session from process start:
     position startpos moves m1 .. mn      (a FIDE-legal game; the FIDE position reached has a mate in one)
     go <standard parameters>              (depth not 255)
   prints one bestmove, and it is a FIDE mating move.  Hypotheses of C13 on the root the engine sets
   ([game_root fms], a function of the moves): the uint8 move counter ([few_gen]), no hash collision on the visited
   sets.  Search hypothesis as in the end-to-end theorem. *)
Theorem mate_in_one_after_any_session_startpos :
  forall roots e iters fuel it0 f0 c0 c fms s garbage ps,
  reached roots e ->
  (510 <= iters)%nat -> (f0 <= fuel)%nat -> (f0 <= 255)%nat -> (it0 <= 510)%nat ->
  fide_game initial fms s -> (List.length fms + f0 <= 1024)%nat ->
  Forall plain_token garbage -> all_unknown V garbage ->
  NoDup (map kind ps) -> Forall param_ok ps -> value_of KDepth ps <> 255%Z ->
  fide_mate_in_one s -> c13_root_hyps roots (game_root fms) ->
  let pos_line := join (w_position :: startpos_tokens fms) in
  let go_line := join (garbage ++ w_go :: GoLineSpec.render ps) in
  fst (go_run it0 f0 e [(pos_line, c0); (go_line, c)]) <> SStuck ->
  exists e' out m,
    go_run iters fuel e [(pos_line, c0); (go_line, c)] = (SEof e', out) /\
    count_best out = 1%nat /\ last out OReadyOk = OBestMove m /\
    en_state e' = ST_IDLE /\ fide_mating s (decode m) /\ reached (game_root fms :: roots) e'.
Proof.
  intros roots e iters fuel it0 f0 c0 c fms s garbage ps HR Hit Hfu Hf0 Hit0 G B Hpl Hg Hnd Hok Hd Hmate Hroot
         pos_line go_line Hns.
  destruct (reached_facts roots e HR) as (Hnr & _).
  assert (Hfc : first_command pos_line w_position (startpos_tokens fms))
    by (apply first_command_join0; apply startpos_line_plain).
  destruct (position_startpos_sets e fms s pos_line Hnr G ltac:(lia) Hfc) as (g & Hpos & Hcore & _ & HL & Hlen).
  pose proof (position_sets_root e fms g pos_line Hfc Hpos) as Hr. rewrite <- Hr in *.
  destruct (two_lines_mate roots e iters fuel it0 f0 c0 c pos_line g s garbage ps HR Hit Hfu Hf0 Hit0
              ltac:(apply in_domain_text_line; apply (startpos_line_in_domain fms s G); lia)
              (position_line_not_go _ _ Hfc) Hpos Hcore HL ltac:(lia) Hpl Hg Hnd Hok Hd Hmate Hroot Hns)
    as (e' & infos & m & Eq & Hidle & Hm & Hreach).
  eexists e', _, m. split; [exact Eq|].
  pose proof (go_block_one_best _ _ (e2e_block g (denote ps) (acks ps) infos m)) as [Hcount Hlast].
  split; [exact Hcount|]. split; [exact Hlast|]. split; [exact Hidle|]. split; [exact Hm|exact Hreach].
Qed.

(* MATE IN ONE, END TO END, FEN *)
Theorem mate_in_one_after_any_session_fen :
  forall roots e iters fuel it0 f0 c0 c six p0 fms s garbage ps,
  reached roots e ->
  (510 <= iters)%nat -> (f0 <= fuel)%nat -> (f0 <= 255)%nat -> (it0 <= 510)%nat ->
  List.length six = 6%nat -> Forall plain_token six ->
  new_from_fen go_keys unicode_digit_tbl (join_sp six) = Ok p0 -> legal_pos p0 ->
  fide_game (abs p0) fms s -> (List.length fms + f0 <= 1024)%nat ->
  Forall plain_token garbage -> all_unknown V garbage ->
  NoDup (map kind ps) -> Forall param_ok ps -> value_of KDepth ps <> 255%Z ->
  fide_mate_in_one s -> c13_root_hyps roots (fen_root six fms) ->
  let pos_line := join (w_position :: fen_tokens six fms) in
  let go_line := join (garbage ++ w_go :: GoLineSpec.render ps) in
  fst (go_run it0 f0 e [(pos_line, c0); (go_line, c)]) <> SStuck ->
  exists e' out m,
    go_run iters fuel e [(pos_line, c0); (go_line, c)] = (SEof e', out) /\
    count_best out = 1%nat /\ last out OReadyOk = OBestMove m /\
    en_state e' = ST_IDLE /\ fide_mating s (decode m) /\ reached (fen_root six fms :: roots) e'.
Proof.
  intros roots e iters fuel it0 f0 c0 c six p0 fms s garbage ps HR Hit Hfu Hf0 Hit0 L6 P6 Fen HP G B Hpl Hg Hnd Hok Hd
         Hmate Hroot pos_line go_line Hns.
  destruct (reached_facts roots e HR) as (Hnr & _).
  assert (Hfc : first_command pos_line w_position (fen_tokens six fms))
    by (apply first_command_join0; apply fen_line_plain; exact P6).
  destruct (position_fen_sets e six p0 fms s pos_line Hnr L6 Fen HP G ltac:(lia) Hfc)
    as (g & Hpos & Hcore & _ & HL & Hlen).
  pose proof (position_sets_cmd_root e _ g pos_line Hfc Hpos) as Hr. fold (fen_root six fms) in Hr. rewrite <- Hr in *.
  destruct (two_lines_mate roots e iters fuel it0 f0 c0 c pos_line g s garbage ps HR Hit Hfu Hf0 Hit0
              ltac:(apply in_domain_text_line; apply (fen_line_in_domain six p0 fms s L6 P6 Fen HP G); lia)
              (position_line_not_go _ _ Hfc) Hpos Hcore HL ltac:(lia) Hpl Hg Hnd Hok Hd Hmate Hroot Hns)
    as (e' & infos & m & Eq & Hidle & Hm & Hreach).
  eexists e', _, m. split; [exact Eq|].
  pose proof (go_block_one_best _ _ (e2e_block g (denote ps) (acks ps) infos m)) as [Hcount Hlast].
  split; [exact Hcount|]. split; [exact Hlast|]. split; [exact Hidle|]. split; [exact Hm|exact Hreach].
Qed.

(* ------------------------------------------------------------------ mates in one in a whole game *)
(* round by round, [roots] = the positions searched before the round: if the FIDE position of the game has a mate in one
   and the round's root meets the hypotheses of C13, the round's answer is a FIDE mating move *)
Fixpoint logs_mate (roots : list position) (logs : list round_log) : Prop :=
  match logs with
  | [] => True
  | l :: rest =>
    (fide_mate_in_one (fide_after (rl_moves l)) -> c13_root_hyps roots (game_root (rl_moves l)) ->
     fide_mating (fide_after (rl_moves l)) (decode (rl_best l))) /\
    logs_mate (game_root (rl_moves l) :: roots) rest
  end.

Lemma logs_ok_mate : forall iters fuel it0 f0 opp logs roots fms,
  (510 <= iters)%nat -> (f0 <= fuel)%nat -> (f0 <= 255)%nat -> (it0 <= 510)%nat ->
  logs_ok iters fuel it0 f0 opp roots fms logs -> logs_mate roots logs.
Proof.
  intros iters fuel it0 f0 opp logs. induction logs as [|l rest IH]; intros roots fms Hit Hfu Hf0 Hit0 H; [exact I|].
  cbn [logs_ok logs_mate] in *. destruct H as (Hm & HR & Hlog & _ & Hrest). subst fms. split.
  - intros Hmate Hroot.
    destruct Hlog as ((Hpl & Hg & Hnd & Hok & Hd) & Eq & Eq0 & Broom & Hblock & _ & _ & s & G & _).
    rewrite (fide_after_game _ _ G) in *.
    assert (Hns : fst (go_run it0 f0 (rl_before l) (round_lines (rl_moves l) (rl_round l))) <> SStuck)
      by (rewrite Eq0; discriminate).
    destruct (mate_in_one_after_any_session_startpos roots (rl_before l) iters fuel it0 f0 (rd_c0 (rl_round l))
                (rd_c (rl_round l)) (rl_moves l) s (rd_garbage (rl_round l)) (rd_ps (rl_round l)) HR Hit Hfu Hf0 Hit0
                G Broom Hpl Hg Hnd Hok Hd Hmate Hroot Hns) as (e' & out & m & X1 & _ & Hlast & _ & Hmating & _).
    pose proof (eq_trans (eq_sym X1) Eq) as Y. injection Y as _ ->.
    rewrite (proj2 (go_block_one_best _ _ Hblock)) in Hlast. injection Hlast as <-. exact Hmating.
  - exact (IH _ _ Hit Hfu Hf0 Hit0 Hrest).
Qed.

Theorem game_plays_mates : forall iters fuel it0 f0 opp roots fms0 n r,
  (510 <= iters)%nat -> (f0 <= fuel)%nat -> (f0 <= 255)%nat -> (it0 <= 510)%nat ->
  game_ok iters fuel it0 f0 opp roots fms0 n r -> logs_mate roots (gl_rounds r).
Proof.
  intros iters fuel it0 f0 opp roots fms0 n r Hit Hfu Hf0 Hit0 (H & _).
  exact (logs_ok_mate iters fuel it0 f0 opp (gl_rounds r) roots fms0 Hit Hfu Hf0 Hit0 H).
Qed.

(* ------------------------------------------------------------------ one collision hypothesis for a whole game *)
(* the roots of a game from the start position are positions the search can visit from the start position *)
Lemma game_line_visited : forall p ms qs, game_line go_keys p ms qs -> visited go_keys p (last qs p).
Proof.
  intros p ms qs H. induction H as [p|p ls m q ms qs Hl Hin Hmk Hg IH]; [constructor|].
  rewrite last_cons. apply (visited_trans go_keys p q); [|exact IH].
  destruct (legal_moves_kept go_keys p ls m Hl Hin) as (g & q' & Hgm & Hin' & Hmk' & Hleg).
  rewrite Hmk in Hmk'. injection Hmk' as <-.
  apply (visited_move go_keys p p m q); [constructor| |exact Hmk|exact Hleg].
  exists g, m. split; [left; exact Hgm|]. split; [exact Hin'|reflexivity].
Qed.

Lemma game_root_visited : forall fms s, fide_game initial fms s -> (List.length fms <= 1024)%nat ->
  visited go_keys hm_p0 (game_root fms).
Proof.
  intros fms s G B.
  destruct (position_startpos_reconstructs_core go_keys unicode_digit_tbl se_history_size go_keys_wf
              hm_p0 fms s TextExamples.go_new_position G ltac:(change se_history_size with 1024%N; lia))
    as (g & C & _ & _ & _ & _ & _ & _ & ms & qs & GL & _ & Eg & _).
  unfold game_root, startpos_tokens. rewrite C, Eg. apply (game_line_visited hm_p0 ms qs GL).
Qed.

(* the hypotheses of C13 for a root of a start-position game, with ONE collision clause: no position the search can visit
   from the START position shares its hash with a checkmated successor of the root (unless checkmated itself) *)
Definition c13_game_hyps (root : position) : Prop :=
  few_gen root /\ (forall m q, gen_of root m -> make_move go_keys root m = Ok q -> few_gen q) /\
  no_collision_from hm_p0 root.

Lemma c13_game_root_hyps : forall roots fms s,
  fide_game initial fms s -> (List.length fms <= 1024)%nat ->
  (forall r, In r roots -> visited go_keys hm_p0 r) ->
  c13_game_hyps (game_root fms) -> c13_root_hyps roots (game_root fms).
Proof.
  intros roots fms s G B HV (F1 & F2 & HN). split; [exact F1|]. split; [exact F2|]. split.
  - exact (no_collision_from_later hm_p0 _ _ (game_root_visited fms s G B) HN).
  - intros r Hin. exact (no_collision_from_later hm_p0 r _ (HV r Hin) HN).
Qed.

(* every mate in one of a whole game is played, the earlier searches of the session being of positions reachable from
   the start position (true of a fresh engine, and of an engine that has only played start-position games) *)
Theorem game_plays_mates_one_hyp : forall iters fuel it0 f0 opp roots fms0 n r,
  (510 <= iters)%nat -> (f0 <= fuel)%nat -> (f0 <= 255)%nat -> (it0 <= 510)%nat ->
  game_ok iters fuel it0 f0 opp roots fms0 n r ->
  (forall p, In p roots -> visited go_keys hm_p0 p) ->
  Forall (fun l => fide_mate_in_one (fide_after (rl_moves l)) -> c13_game_hyps (game_root (rl_moves l)) ->
                   fide_mating (fide_after (rl_moves l)) (decode (rl_best l))) (gl_rounds r).
Proof.
  intros iters fuel it0 f0 opp roots fms0 n r Hit Hfu Hf0 Hit0 Hok HV.
  pose proof (game_plays_mates iters fuel it0 f0 opp roots fms0 n r Hit Hfu Hf0 Hit0 Hok) as HM.
  destruct Hok as (HL & _). revert roots fms0 HV HM HL.
  induction (gl_rounds r) as [|l rest IH]; intros roots fms HV HM HL; [constructor|].
  cbn [logs_mate logs_ok] in HM, HL. destruct HM as [HM1 HM2]. destruct HL as (Hm & _ & Hlog & _ & HLrest).
  rewrite <- Hm in HLrest.
  destruct Hlog as (_ & _ & _ & Broom & _ & _ & _ & s & G & _).
  assert (B : (List.length (rl_moves l) <= 1024)%nat) by lia.
  constructor.
  - intros Hmate Hg. apply HM1; [exact Hmate|]. exact (c13_game_root_hyps roots (rl_moves l) s G B HV Hg).
  - refine (IH (game_root (rl_moves l) :: roots) _ _ HM2 HLrest).
    intros p [<-|Hin]; [exact (game_root_visited _ s G B)|exact (HV p Hin)].
Qed.

Print Assumptions mating_fide.
Print Assumptions fide_mating_exists.
Print Assumptions go_plays_mate.
Print Assumptions mate_in_one_after_any_session_startpos.
Print Assumptions mate_in_one_after_any_session_fen.
Print Assumptions game_plays_mates.
Print Assumptions game_plays_mates_one_hyp.
