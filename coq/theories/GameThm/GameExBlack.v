(* Whole-game theorems, part 5b: non-vacuity of goal 2, the engine plays Black. *)
From Coq Require Import NArith ZArith List Bool Lia String Ascii.
From Clemens Require Import Base.Res Base.Word Base.Bytes Pos.Types Pos.Position
     Uci.ParseGo Uci.Input Uci.GoLineSpec Uci.Game Uci.Engine Uci.EngineInst.
From Clemens Require Import Rules.Abs Rules.Fide.
From Clemens.C01Att Require Import FideFacts.
From Clemens.C03Recon Require Import FideText Recon.
From Clemens.EngineE2E Require Import EngBase EngState EngExamples.
From Clemens.GameThm Require Import GameInv GameAfter GameWhole GameExamples.
Import ListNotations.
Open Scope list_scope.
Open Scope string_scope.

(* TWO ROUNDS, the engine plays Black *)
Example black_game_computed :
  show (gui_game 10 60 (script_opp white_script) go_engine_init [mv 4 1 4 3] [rd1; rd2]) =
  (GAllRounds, ["e2e4"; "b8c6"; "g1f3"; "g8f6"; "f1c4"],
   [(["position startpos moves e2e4"; "go depth 1"],
     ["info string calculated timeout 900";
      "info depth 1 score cp 0 time * nodes 24 nps * hashfull 0 pv b8c6"; "bestmove b8c6"]);
    (["position startpos moves e2e4 b8c6 g1f3"; "xyzzy go depth 2 wtime 60000 btime 60000"],
     ["info string calculated timeout 915";
      "info depth 1 score cp 3 time * nodes 49 nps * hashfull 0 pv g8f6"; "bestmove g8f6"])],
   ST_IDLE).
Proof. vm_compute. reflexivity. Qed.

Example black_game_instance :
  let opp := script_opp white_script in
  gui_game 510 1282 opp go_engine_init [mv 4 1 4 3] [rd1; rd2] = gui_game 10 60 opp go_engine_init [mv 4 1 4 3] [rd1; rd2] /\
  game_ok 510 1282 10 60 opp [] [mv 4 1 4 3] 2 (gui_game 510 1282 opp go_engine_init [mv 4 1 4 3] [rd1; rd2]).
Proof.
  cbv zeta.
  apply (engine_plays_black 510 1282 10 60 (script_opp white_script) [rd1; rd2] [] go_engine_init (mv 4 1 4 3)); try lia.
  - exact reached_init.
  - apply (proj2 (legal_moves_iff _ _)). vm_compute. reflexivity.
  - apply script_opp_legal.
  - constructor; [exact rd1_ok|constructor; [exact rd2_ok|constructor]].
  - cbn [List.length]. lia.
  - pose proof (f_equal (fun x => fst (fst (fst x))) black_game_computed) as H.
    change (gl_end (gui_game 10 60 (script_opp white_script) go_engine_init [mv 4 1 4 3] [rd1; rd2]) = GAllRounds) in H.
    rewrite H. discriminate.
Qed.

Print Assumptions black_game_computed.
Print Assumptions black_game_instance.
