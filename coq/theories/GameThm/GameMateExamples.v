(* Whole-game theorems, part 6: non-vacuity of goal 3.  The back-rank mate of the task (bestmove a1a8), and an instance of
   the end-to-end mate theorem with EVERY hypothesis discharged - including the no-collision hypothesis, which is
   provable when the set of positions the search can visit is small: a position in which the side to move is in
   check and its only legal move mates. *)
From Coq Require Import NArith ZArith List Bool Lia String Ascii.
From Clemens Require Import Base.Res Base.Word Base.Bytes Pos.Types Pos.Position Pos.Fen Pos.Inv
     Pos.ZobristInst Eval.Eval Search.TT Search.Negamax Search.SearchStruct Search.SearchLines Search.GoInst
     Uci.ParseGo Uci.ParseGoProofs Uci.Input Uci.InputProofs Uci.GoLineSpec Uci.Game Uci.Engine Uci.EngineInst.
From Clemens.C13Mate Require Import MateDefs MateRange MateRoot MateExamples.
From Clemens.C13Bridge Require Import Bridge Seq.
From Clemens Require Import Rules.Abs Rules.Fide.
From Clemens.C01Att Require Import FideFacts.
From Clemens.C03Recon Require Import FideText Recon.
From ClemensGen Require Import GoConsts.
From Clemens.EngineE2E Require Import EngBase EngDispatch EngState EngSearch EngE2E EngText EngExamples EngFinal.
From Clemens.GameThm Require Import GameInv GameAfter GameWhole GameMate GameExDefs.
Import ListNotations.
Open Scope list_scope.
Open Scope string_scope.

Definition depth1 : list param := [PInt KDepth 1].
Lemma depth1_ok : NoDup (map kind depth1) /\ Forall param_ok depth1 /\ value_of KDepth depth1 <> 255%Z.
Proof.
  split; [repeat constructor; cbn; tauto|]. split; [constructor; [cbn; lia|constructor]|cbn; discriminate].
Qed.

(* ================================================================== the back-rank mate of the task *)
Definition mate_session : list (bytes * option N) :=
  [(join (w_position :: fen_tokens mate_six []), None); (join ([] ++ w_go :: GoLineSpec.render depth1), None)].

(* what the kernel computes: bestmove a1a8, a FIDE mating move (with and without the word `moves`) *)
Example mate_session_computed :
  map (fun lc => text (fst lc)) mate_session = ["position fen 6k1/5ppp/8/8/8/8/8/R3K3 w Q - 0 1 moves"; "go depth 1"] /\
  printed_lines (snd (go_run 10 60 go_engine_init mate_session)) =
    ["info string calculated timeout 900";
     "info depth 1 score cp 32766 time * nodes 20 nps * hashfull 0 pv a1a8"; "bestmove a1a8"] /\
  printed_lines (snd (go_run 10 60 go_engine_init
                        [(bs "position fen 6k1/5ppp/8/8/8/8/8/R3K3 w Q - 0 1", None); (bs "go depth 1", None)])) =
    ["info string calculated timeout 900";
     "info depth 1 score cp 32766 time * nodes 20 nps * hashfull 0 pv a1a8"; "bestmove a1a8"] /\
  text (fide_text (decode a1a8)) = "a1a8" /\
  legal (abs mate_p0) (decode a1a8) = true /\ checkmate (apply (abs mate_p0) (decode a1a8)) = true.
Proof. repeat split; vm_compute; reflexivity. Qed.

Lemma mate_root : fen_root mate_six [] = mate_p0.
Proof. vm_compute. reflexivity. Qed.

Lemma mate_p0_mate_in_one : fide_mate_in_one (abs mate_p0).
Proof.
  exists (decode a1a8). split; [apply (proj2 (legal_moves_iff _ _)); vm_compute; reflexivity|].
  apply fide_mated_checkmate. vm_compute. reflexivity.
Qed.

(* the theorem applied to it, from a freshly started engine, bounds of C05; what remains is the one hypothesis no
   proof can remove for this root (it has thousands of reachable positions): no hash collision on the visited set *)
Example mate_session_instance : no_collision mate_p0 ->
  exists e' out m,
    go_run 510 1282 go_engine_init mate_session = (SEof e', out) /\
    count_best out = 1%nat /\ last out OReadyOk = OBestMove m /\ en_state e' = ST_IDLE /\
    fide_mating (abs mate_p0) (decode m) /\ reached [mate_p0] e'.
Proof.
  intro HN. destruct depth1_ok as (D1 & D2 & D3).
  assert (Hroot : c13_root_hyps [] (fen_root mate_six [])).
  { rewrite mate_root. split; [apply few_b_sound; vm_compute; reflexivity|].
    split; [apply few_children_b_sound; vm_compute; reflexivity|]. split; [exact HN|]. intros r []. }
  assert (P6 : Forall plain_token mate_six) by (repeat constructor; discriminate).
  assert (Hns : fst (go_run 10 60 go_engine_init mate_session) <> SStuck) by (vm_compute; discriminate).
  pose proof (mate_in_one_after_any_session_fen [] go_engine_init 510 1282 10 60 None None mate_six mate_p0 [] (abs mate_p0)
            [] depth1 reached_init ltac:(lia) ltac:(lia) ltac:(lia) ltac:(lia) eq_refl P6 mate_p0_fen mate_p0_legal
            (fg_nil _) ltac:(cbn; lia) (Forall_nil _) (Forall_nil _) D1 D2 D3 mate_p0_mate_in_one Hroot Hns) as H.
  rewrite mate_root in H. exact H.
Qed.

(* ================================================================== every hypothesis discharged *)
(* White is in check by the rook c1; the only legal move is Bh6xc1, which uncovers the rook h2: mate *)
Definition om_fen : string := "6rk/6p1/7B/8/8/8/PP5R/K1r5 w - - 0 1".
Definition om_six : list bytes := [bs "6rk/6p1/7B/8/8/8/PP5R/K1r5"; bs "w"; bs "-"; bs "-"; bs "0"; bs "1"].
Definition om_p0 : position := root_of om_fen.
Definition h6c1 : N := 175.
Definition om_q1 : position := match make_move go_keys om_p0 h6c1 with Ok q => q | _ => om_p0 end.

Lemma om_p0_fen : new_from_fen go_keys unicode_digit_tbl (join_sp om_six) = Ok om_p0.
Proof. vm_compute. reflexivity. Qed.
Lemma om_p0_legal : legal_pos om_p0.
Proof. apply legal_pos_b_sound. vm_compute. reflexivity. Qed.
Lemma om_root : fen_root om_six [] = om_p0.
Proof. vm_compute. reflexivity. Qed.

Example om_facts :
  is_in_check om_p0 (side om_p0) = Ok true /\ Position.legal_moves go_keys om_p0 = Ok [h6c1] /\
  make_move go_keys om_p0 h6c1 = Ok om_q1 /\
  is_in_check om_q1 (side om_q1) = Ok true /\ Position.legal_moves go_keys om_q1 = Ok [] /\
  text (fide_text (decode h6c1)) = "h6c1".
Proof. repeat split; vm_compute; reflexivity. Qed.

(* the moves the search can make at a position: the generated moves and captures *)
Definition all_moves (p : position) : list N :=
  (match gen_moves p with Ok g => g | _ => [] end) ++ (match gen_captures p with Ok g => g | _ => [] end).

Definition children_b (p : position) (ok : N -> bool) : bool :=
  forallb (fun m0 => match make_move go_keys p m0 with
                     | Ok q => match is_legal q with Ok true => ok m0 | _ => true end
                     | _ => true
                     end) (all_moves p).

Lemma children_b_sound : forall p ok m q,
  children_b p ok = true -> movable p m -> make_move go_keys p m = Ok q -> is_legal q = Ok true ->
  exists m0, make_move go_keys p m0 = Ok q /\ ok m0 = true.
Proof.
  intros p ok m q H (g & m0 & Hg & Hin & E) Hmk Hleg.
  rewrite <- (make_move_low go_keys p m), E, make_move_low in Hmk.
  assert (Hall : In m0 (all_moves p)).
  { unfold all_moves. apply in_or_app. destruct Hg as [Hg|Hg]; rewrite Hg; [left|right]; exact Hin. }
  unfold children_b in H. rewrite forallb_forall in H. specialize (H m0 Hall). rewrite Hmk, Hleg in H.
  exists m0. split; [exact Hmk|exact H].
Qed.

Lemma om_children_root : children_b om_p0 (fun m0 => (m0 =? h6c1)%N) = true.
Proof. vm_compute. reflexivity. Qed.
Lemma om_children_q1 : children_b om_q1 (fun _ => false) = true.
Proof. vm_compute. reflexivity. Qed.

Lemma Ok_inj : forall (A : Type) (a b : A), Ok a = Ok b -> a = b.
Proof. intros A a b H. injection H as H. exact H. Qed.

(* the positions the search can visit from the root: the root and the mated position *)
Lemma om_visited : forall p, visited go_keys om_p0 p -> p = om_p0 \/ p = om_q1.
Proof.
  intros p V. destruct om_facts as (C0 & _ & M1 & C1 & _).
  induction V as [|p m q V IH Hmv Hmk Hl|p q x V IH Hc Hn].
  - left. reflexivity.
  - destruct IH as [->| ->].
    + right.
      destruct (children_b_sound om_p0 (fun m0 => (m0 =? h6c1)%N) m q om_children_root Hmv Hmk Hl)
        as (m0 & Hm0 & E). apply N.eqb_eq in E. subst m0. rewrite M1 in Hm0. symmetry. exact (Ok_inj _ _ _ Hm0).
    + exfalso.
      destruct (children_b_sound om_q1 (fun _ => false) m q om_children_q1 Hmv Hmk Hl)
        as (m0 & _ & E). discriminate E.
  - exfalso. destruct IH as [->| ->]; [rewrite C0 in Hc|rewrite C1 in Hc]; discriminate Hc.
Qed.

(* no generated move of the root leads to a position with the root's hash *)
Lemma om_root_hash_fresh : forall m q, gen_of om_p0 m -> make_move go_keys om_p0 m = Ok q -> hash q <> hash om_p0.
Proof.
  intros m q (g & m0 & Hg & Hin & E) Hmk.
  rewrite <- (make_move_low go_keys om_p0 m), E, make_move_low in Hmk.
  assert (H : forallb (fun m0 => match make_move go_keys om_p0 m0 with
                                 | Ok q => negb (hash q =? hash om_p0)%N | _ => true end)
                      (match gen_moves om_p0 with Ok g => g | _ => [] end) = true) by (vm_compute; reflexivity).
  rewrite forallb_forall in H. rewrite Hg in H. specialize (H m0 Hin). rewrite Hmk in H.
  apply negb_true_iff, N.eqb_neq in H. exact H.
Qed.

Theorem om_no_collision : no_collision om_p0.
Proof.
  intros p V (m & q & Hg & Hmk & _ & Hh). destruct om_facts as (_ & _ & _ & C1 & L1 & _).
  destruct (om_visited p V) as [->| ->].
  - exfalso. exact (om_root_hash_fresh m q Hg Hmk (eq_sym Hh)).
  - split; assumption.
Qed.

Lemma om_mate_in_one : fide_mate_in_one (abs om_p0).
Proof.
  exists (decode h6c1). split; [apply (proj2 (legal_moves_iff _ _)); vm_compute; reflexivity|].
  apply fide_mated_checkmate. vm_compute. reflexivity.
Qed.

Definition om_session : list (bytes * option N) :=
  [(join (w_position :: fen_tokens om_six []), None); (join ([] ++ w_go :: GoLineSpec.render depth1), None)].

(* MATE IN ONE END TO END, all hypotheses discharged: fresh engine, `position fen ... moves` / `go depth 1`, bounds of C05 *)
Theorem om_mate_instance :
  exists e' out m,
    go_run 510 1282 go_engine_init om_session = (SEof e', out) /\
    count_best out = 1%nat /\ last out OReadyOk = OBestMove m /\ en_state e' = ST_IDLE /\
    fide_mating (abs om_p0) (decode m) /\ reached [om_p0] e'.
Proof.
  destruct depth1_ok as (D1 & D2 & D3).
  assert (Hroot : c13_root_hyps [] (fen_root om_six [])).
  { rewrite om_root. split; [apply few_b_sound; vm_compute; reflexivity|].
    split; [apply few_children_b_sound; vm_compute; reflexivity|]. split; [exact om_no_collision|]. intros r []. }
  assert (P6 : Forall plain_token om_six) by (repeat constructor; discriminate).
  assert (Hns : fst (go_run 10 60 go_engine_init om_session) <> SStuck) by (vm_compute; discriminate).
  pose proof (mate_in_one_after_any_session_fen [] go_engine_init 510 1282 10 60 None None om_six om_p0 [] (abs om_p0)
            [] depth1 reached_init ltac:(lia) ltac:(lia) ltac:(lia) ltac:(lia) eq_refl P6 om_p0_fen om_p0_legal
            (fg_nil _) ltac:(cbn; lia) (Forall_nil _) (Forall_nil _) D1 D2 D3 om_mate_in_one Hroot Hns) as H.
  rewrite om_root in H. exact H.
Qed.

Example om_session_computed :
  map (fun lc => text (fst lc)) om_session = ["position fen 6rk/6p1/7B/8/8/8/PP5R/K1r5 w - - 0 1 moves"; "go depth 1"] /\
  printed_lines (snd (go_run 10 60 go_engine_init om_session)) =
    ["info string calculated timeout 900";
     "info depth 1 score cp 32766 time * nodes 2 nps * hashfull 0 pv h6c1"; "bestmove h6c1"].
Proof. split; vm_compute; reflexivity. Qed.

Print Assumptions mate_session_computed.
Print Assumptions mate_session_instance.
Print Assumptions om_no_collision.
Print Assumptions om_mate_instance.
Print Assumptions om_session_computed.
