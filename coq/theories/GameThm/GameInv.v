(* Whole-game theorems, part 1 (goal 1): the session invariant.
   From process start ([go_engine_init]) every session whose `position` lines are in the domain of the
   end-to-end theorems leaves - when it reaches the end of its input - an engine that is not RUNNING, whose
   evaluation cache holds no mate value, whose game (if any) has a [legal_pos] root and fits the repetition stack,
   and whose two shared tables are those of a C13 [session] (a sequence of searches from legal positions, started
   on empty tables).  Hence the end-to-end theorems hold after ANY such session. *)
From Coq Require Import NArith ZArith List Bool Lia.
From Clemens Require Import Base.Res Base.Word Base.Bytes Pos.Types Pos.Position Pos.Fen Pos.Inv Pos.ZobristProofs
     Pos.ZobristInst Eval.Eval Search.TT Search.Negamax Search.SearchStruct Search.GoInst
     Uci.ParseGo Uci.ParseGoProofs Uci.Input Uci.InputProofs Uci.GoLineSpec Uci.Game Uci.Engine Uci.EngineInst.
From Clemens.C13Mate Require Import MateDefs MateExamples.
From Clemens.C13Bridge Require Import Bridge Seq.
From Clemens Require Import Rules.Abs Rules.Fide.
From Clemens.C03Text Require Import GameReplay TextExamples.
From Clemens.C03Recon Require Import FideText Recon.
From Clemens.C15Bound Require Import Material Play.
From ClemensGen Require Import GoConsts.
From Clemens.EngineE2E Require Import EngBase EngDispatch EngState EngSearch EngE2E EngText.
Import ListNotations.
Open Scope list_scope.

(* ------------------------------------------------------------------ lines in the domain *)
(* a `position` command the engine rejects without touching its state: no tokens, a FEN that is too short or
   does not parse (or, never between two lines of the sequential model, state RUNNING) *)
Definition position_rejected (e : engine) (line : bytes) : Prop :=
  exists ts out, handle_line V line = CPosition ts /\ go_new_position_e e ts = EOk e out.

(* `position startpos moves m1 .. mn`, a FIDE-legal game from the initial position that fits the repetition stack *)
Definition position_startpos_line (line : bytes) : Prop :=
  exists fms s, fide_game initial fms s /\ (List.length fms <= 1024)%nat /\
    first_command line w_position (startpos_tokens fms).

(* `position fen F1 .. F6 moves m1 .. mn`, the FEN a [legal_pos], the moves a FIDE-legal game from it *)
Definition position_fen_line (line : bytes) : Prop :=
  exists six p0 fms s, List.length six = 6%nat /\
    new_from_fen go_keys unicode_digit_tbl (join_sp six) = Ok p0 /\ legal_pos p0 /\
    fide_game (abs p0) fms s /\ (List.length fms <= 1024)%nat /\
    first_command line w_position (fen_tokens six fms).

(* the general form: any `position` command that sets a game whose root is a [legal_pos] and which fits the repetition
   stack (instances: the two above; `position startpos` and `position fen F1 .. F6` without the word `moves`) *)
Definition position_sets_legal (line : bytes) : Prop :=
  exists toks g, first_command line w_position toks /\ toks <> [] /\
    new_position_cmd go_keys unicode_digit_tbl se_history_size toks = NPSet g /\
    legal_pos (g_pos g) /\ (List.length (g_hist g) <= 1024)%nat.

(* [in_domain_line e line]: every line that is not a `position` command (uci, isready, ucinewgame, stop, go with any
   parameters, garbage ...), and the `position` commands above *)
Definition in_domain_line (e : engine) (line : bytes) : Prop :=
  (forall ts, handle_line V line <> CPosition ts) \/
  position_startpos_line line \/ position_fen_line line \/ position_rejected e line \/ position_sets_legal line.

(* a session all of whose lines are in the domain, each judged in the engine state it meets *)
Fixpoint in_domain_session (iters fuel : nat) (e : engine) (ls : list (bytes * option N)) : Prop :=
  match ls with
  | [] => True
  | (l, c) :: r =>
    in_domain_line e l /\
    match go_handle iters fuel e l c with
    | EOk e' _ => in_domain_session iters fuel e' r
    | _ => True
    end
  end.

(* the part that does not depend on the engine state; rejected in every state: `position` without tokens, and
   a FEN that is too short or does not parse *)
Definition position_never_set (line : bytes) : Prop :=
  exists ts, handle_line V line = CPosition ts /\
    (ts = [] \/ exists b, new_position_cmd go_keys unicode_digit_tbl se_history_size ts = NPNone b).

Definition in_domain_text (line : bytes) : Prop :=
  (forall ts, handle_line V line <> CPosition ts) \/ position_startpos_line line \/ position_fen_line line \/
  position_never_set line \/ position_sets_legal line.

Lemma position_never_set_rejected : forall e line, position_never_set line -> position_rejected e line.
Proof.
  intros e line (ts & Hl & H). exists ts. unfold go_new_position_e, Engine.new_position.
  destruct (en_state e =? ST_RUNNING)%N; [eexists; split; [exact Hl|reflexivity]|].
  destruct H as [->|[b Hb]]; [eexists; split; [exact Hl|reflexivity]|].
  destruct ts as [|t ts']; [eexists; split; [exact Hl|reflexivity]|].
  change (sc_hist_size go_sconsts) with se_history_size. rewrite Hb.
  destruct (_ && _); eexists; (split; [exact Hl|reflexivity]).
Qed.

Lemma in_domain_text_line : forall e line, in_domain_text line -> in_domain_line e line.
Proof.
  intros e line [H|[H|[H|[H|H]]]]; unfold in_domain_line.
  - left. exact H.
  - right. left. exact H.
  - right. right. left. exact H.
  - right. right. right. left. apply position_never_set_rejected. exact H.
  - right. right. right. right. exact H.
Qed.

(* `position startpos` and `position fen F1 .. F6`, without moves *)
Lemma startpos_only_in_domain : in_domain_text (join [w_position; w_startpos]).
Proof.
  right. right. right. right. exists [w_startpos], {| g_pos := hm_p0; g_hist := [] |}.
  split; [apply first_command_join0; destruct word_plain as (W1 & W2 & _);
          constructor; [exact W1|constructor; [exact W2|constructor]]|].
  split; [discriminate|].
  pose proof TextExamples.go_new_position as N0. change ZobristInst.go_keys with go_keys in N0.
  split; [exact (proj1 (position_startpos_only go_keys unicode_digit_tbl se_history_size hm_p0 N0))|].
  split; [|cbn; lia]. cbn [g_pos].
  split; [exact (new_position_inv _ _ TextExamples.go_new_position)|
          exact (material_new_position _ _ TextExamples.go_new_position)].
Qed.

Lemma fen_only_in_domain : forall six p0, List.length six = 6%nat -> Forall plain_token six ->
  new_from_fen go_keys unicode_digit_tbl (join_sp six) = Ok p0 -> legal_pos p0 ->
  in_domain_text (join (w_position :: w_fen :: six)).
Proof.
  intros six p0 L6 P6 Fen HP. right. right. right. right. exists (w_fen :: six), {| g_pos := p0; g_hist := [] |}.
  split; [apply first_command_join0; destruct word_plain as (W1 & _ & _ & W4 & _);
          constructor; [exact W1|constructor; [exact W4|exact P6]]|].
  split; [discriminate|].
  split; [exact (proj1 (position_fen_only go_keys unicode_digit_tbl se_history_size six p0 L6 Fen))|].
  split; [exact HP|cbn; lia].
Qed.

Lemma in_domain_text_session : forall iters fuel ls e,
  Forall (fun lc => in_domain_text (fst lc)) ls -> in_domain_session iters fuel e ls.
Proof.
  intros iters fuel ls. induction ls as [|[l c] r IH]; intros e H; cbn [in_domain_session]; [exact I|].
  inversion H as [|x y H1 H2]; subst. cbn [fst] in H1. split; [apply in_domain_text_line; exact H1|].
  destruct (go_handle iters fuel e l c); auto.
Qed.

(* ------------------------------------------------------------------ the invariant *)
(* [engine_ok roots e]: [roots] = the positions searched so far, newest first *)
Definition engine_ok (roots : list position) (e : engine) : Prop :=
  state_ok e /\
  (forall g, en_game e = Some g -> legal_pos (g_pos g) /\ (List.length (g_hist g) <= 1024)%nat) /\
  Forall legal_pos roots /\
  session roots (go_init_sst (en_tt e) (en_cache e) [] None).

Lemma session_cache_sane : forall roots s, session roots s -> cache_sane go_econsts (s_cache s).
Proof.
  intros roots s H. induction H as [c|roots s root1 iters fuel rep req r s' Hs IH H1 E|roots s s2 Hs IH Et Ec].
  - apply cache_sane_nil. reflexivity.
  - eapply search_keeps_cache_sane; eauto.
  - rewrite Ec. exact IH.
Qed.

Lemma engine_ok_cache : forall roots e, engine_ok roots e -> cache_sane go_econsts (en_cache e).
Proof. intros roots e (_ & _ & _ & H). exact (session_cache_sane _ _ H). Qed.

Lemma engine_ok_not_running : forall roots e, engine_ok roots e -> en_state e <> ST_RUNNING.
Proof. intros roots e (H & _). apply state_ok_not_running. exact H. Qed.

Lemma engine_init_ok : engine_ok [] go_engine_init.
Proof.
  split; [exact engine_init_state_ok|]. split; [intros g H; discriminate|]. split; [constructor|].
  exact (session_fresh None).
Qed.

(* the tables are all that matters of [e] for the last clause *)
Lemma engine_ok_tables : forall roots e e',
  engine_ok roots e -> en_tt e' = en_tt e -> en_cache e' = en_cache e -> state_ok e' ->
  (forall g, en_game e' = Some g -> legal_pos (g_pos g) /\ (List.length (g_hist g) <= 1024)%nat) ->
  engine_ok roots e'.
Proof.
  intros roots e e' (_ & _ & HR & HS) Et Ec Hst Hg. split; [exact Hst|]. split; [exact Hg|]. split; [exact HR|].
  rewrite Et, Ec. exact HS.
Qed.

(* ------------------------------------------------------------------ one line *)
Lemma position_sets_ok : forall roots e g,
  engine_ok roots e -> legal_pos (g_pos g) -> (List.length (g_hist g) <= 1024)%nat ->
  engine_ok roots (with_game e g).
Proof.
  intros roots e g H HL HB. apply (engine_ok_tables roots e); [exact H|reflexivity|reflexivity|right; reflexivity|].
  intros g' Hg. cbn [with_game en_game] in Hg. injection Hg as <-. split; assumption.
Qed.

(* an accepted `go` that returns to the read loop: the root joins the searched positions *)
Lemma go_keeps_ok : forall roots iters fuel e ts c e' out,
  engine_ok roots e -> go_start_search iters fuel e ts c = EOk e' out ->
  (e' = e /\ out = [ONoPosition]) \/
  (exists g, en_state e = ST_POSITION_SET /\ en_game e = Some g /\ en_state e' = ST_IDLE /\ en_game e' = Some g /\
             engine_ok (g_pos g :: roots) e').
Proof.
  intros roots iters fuel e ts c e' out Hok H.
  destruct (en_game e) as [g|] eqn:Eg.
  2:{ rewrite start_search_refused in H by (intros [_ X]; contradiction). injection H as <- <-. left. auto. }
  destruct (N.eq_dec (en_state e) ST_POSITION_SET) as [Es|Es].
  2:{ rewrite start_search_refused in H by (intros [X _]; contradiction). injection H as <- <-. left. auto. }
  right. exists g.
  destruct (parse_go_returns ts) as [[sp evs] Ep].
  rewrite (start_search_accepted iters fuel e ts c g sp evs Es Eg Ep) in H.
  destruct (go_search iters fuel true (go_sst e g c) (g_pos g) (Z.to_N (sp_depth sp))) as [r s'] eqn:E.
  destruct r as [m| | |]; try discriminate. injection H as <- <-.
  destruct Hok as (Hst & Hg & HR & HS). destruct (Hg g Eg) as [HL HB].
  split; [exact Es|]. split; [reflexivity|]. split; [reflexivity|]. split; [reflexivity|].
  split; [left; reflexivity|]. split; [|split].
  - intros g' X. cbn [after_search en_game] in X. injection X as <-. split; assumption.
  - constructor; assumption.
  - cbn [after_search en_tt en_cache].
    apply (session_caller (g_pos g :: roots) s'); [|reflexivity|reflexivity].
    apply (session_search roots (go_sst e g c) (g_pos g) iters fuel true (Z.to_N (sp_depth sp)) (ROk m) s');
      [|exact HL|exact E].
    apply (session_caller roots _ _ HS); reflexivity.
Qed.

(* the searched positions of one line: the root if the line is an accepted `go`, nothing otherwise *)
Definition searched_by (e : engine) (line : bytes) : list position :=
  if is_go_line line && accepts_go_b e then
    match en_game e with Some g => [g_pos g] | None => [] end
  else [].

Theorem handle_keeps_ok : forall roots iters fuel e line c e' out,
  engine_ok roots e -> in_domain_line e line -> go_handle iters fuel e line c = EOk e' out ->
  engine_ok (searched_by e line ++ roots) e'.
Proof.
  intros roots iters fuel e line c e' out Hok Hdom H.
  unfold searched_by, is_go_line.
  destruct (handle_line V line) as [| | | |ts|ts| |] eqn:El;
    try (rewrite go_handle_eq, El in H; injection H as <- <-; exact Hok).
  - (* quit *) rewrite go_handle_eq, El in H. discriminate.
  - (* ucinewgame *)
    rewrite go_handle_eq, El in H. injection H as <- <-. cbn [andb app].
    apply (engine_ok_tables roots e); [exact Hok|reflexivity|reflexivity|left; reflexivity|].
    intros g X. discriminate.
  - (* position *)
    cbn [andb app].
    destruct Hdom as [Hn|[(fms & s & G & B & Hfc)|[(six & p0 & fms & s & L6 & Fen & HP & G & B & Hfc)|
                      [(ts' & out' & El' & Hrej)|(toks & g & Hfc & Hne & Hcmd & HL & HB)]]]].
    + exfalso. exact (Hn ts El).
    + destruct (position_startpos_sets e fms s line (engine_ok_not_running _ _ Hok) G B Hfc)
        as (g & Hpos & _ & _ & HL & Hlen).
      rewrite (Hpos iters fuel c) in H. injection H as <- <-.
      apply position_sets_ok; [exact Hok|exact HL|lia].
    + destruct (position_fen_sets e six p0 fms s line (engine_ok_not_running _ _ Hok) L6 Fen HP G B Hfc)
        as (g & Hpos & _ & _ & HL & Hlen).
      rewrite (Hpos iters fuel c) in H. injection H as <- <-.
      apply position_sets_ok; [exact Hok|exact HL|lia].
    + rewrite El in El'. injection El' as <-. rewrite go_handle_eq, El, Hrej in H. injection H as <- _. exact Hok.
    + rewrite (handle_position iters fuel e line c _ Hfc),
              (new_position_e_set e toks g (engine_ok_not_running _ _ Hok) Hne Hcmd) in H.
      injection H as <- <-. apply position_sets_ok; assumption.
  - (* go *)
    rewrite go_handle_eq, El in H. cbn [andb].
    destruct (go_keeps_ok roots iters fuel e ts c e' out Hok H) as [[-> _]|(g & Es & Eg & _ & _ & Hok')].
    + destruct (accepts_go_b e) eqn:Ea; [|exact Hok].
      apply accepts_go_b_spec in Ea. destruct Ea as [Es Eg].
      destruct (en_game e) as [g|] eqn:Eg'; [|contradiction].
      (* accepted but unchanged: impossible only by inspection of the handler; handled by the other branch *)
      exfalso. destruct (parse_go_returns ts) as [[sp evs] Ep].
      rewrite (start_search_accepted iters fuel e ts c g sp evs Es Eg' Ep) in H.
      destruct (go_search iters fuel true (go_sst e g c) (g_pos g) (Z.to_N (sp_depth sp))) as [[m| | |] s'];
        try discriminate.
      injection H as H1 H2. apply (f_equal en_state) in H1. cbn [after_search en_state] in H1.
      rewrite Es in H1. discriminate.
    + unfold accepts_go_b. rewrite Eg, Es. cbn [N.eqb ST_POSITION_SET Pos.eqb andb app]. exact Hok'.
Qed.

(* ------------------------------------------------------------------ a session *)
Fixpoint searched_in (iters fuel : nat) (e : engine) (ls : list (bytes * option N)) : list position :=
  match ls with
  | [] => []
  | (l, c) :: r =>
    match go_handle iters fuel e l c with
    | EOk e' _ => searched_in iters fuel e' r ++ searched_by e l
    | _ => []
    end
  end.

(* THE SESSION INVARIANT *)
Theorem session_invariant : forall iters fuel ls roots e e' out,
  engine_ok roots e -> in_domain_session iters fuel e ls -> go_run iters fuel e ls = (SEof e', out) ->
  engine_ok (searched_in iters fuel e ls ++ roots) e'.
Proof.
  intros iters fuel ls. induction ls as [|[l c] r IH]; intros roots e e' out Hok Hdom H.
  - cbn in H. injection H as <- _. exact Hok.
  - rewrite go_run_cons in H. cbn [in_domain_session searched_in] in *. destruct Hdom as [Hd Hrest].
    destruct (go_handle iters fuel e l c) as [e1 o1| |o1|] eqn:E1; try discriminate.
    + destruct (go_run iters fuel e1 r) as [fin o2] eqn:E2. injection H as -> _.
      rewrite <- app_assoc.
      exact (IH _ e1 e' o2 (handle_keeps_ok roots iters fuel e l c e1 o1 Hok Hd E1) Hrest E2).
Qed.

(* ------------------------------------------------------------------ engines reached from process start *)
(* [reached roots e]: [e] is the engine after some in-domain lines from process start, each of which returned to the
   read loop (the bounds of the model may differ from line to line); [roots] = the positions searched, newest first *)
Inductive reached : list position -> engine -> Prop :=
| reached_init : reached [] go_engine_init
| reached_line : forall roots e iters fuel line c e' out,
    reached roots e -> in_domain_line e line -> go_handle iters fuel e line c = EOk e' out ->
    reached (searched_by e line ++ roots) e'.

Theorem reached_ok : forall roots e, reached roots e -> engine_ok roots e.
Proof.
  intros roots e H. induction H as [|roots e iters fuel line c e' out H IH Hd E]; [exact engine_init_ok|].
  eapply handle_keeps_ok; eauto.
Qed.

Theorem reached_run : forall iters fuel ls roots e e' out,
  reached roots e -> in_domain_session iters fuel e ls -> go_run iters fuel e ls = (SEof e', out) ->
  reached (searched_in iters fuel e ls ++ roots) e'.
Proof.
  intros iters fuel ls. induction ls as [|[l c] r IH]; intros roots e e' out Hok Hdom H.
  - cbn in H. injection H as <- _. exact Hok.
  - rewrite go_run_cons in H. cbn [in_domain_session searched_in] in *. destruct Hdom as [Hd Hrest].
    destruct (go_handle iters fuel e l c) as [e1 o1| |o1|] eqn:E1; try discriminate.
    destruct (go_run iters fuel e1 r) as [fin o2] eqn:E2. injection H as -> _.
    rewrite <- app_assoc.
    exact (IH _ e1 e' o2 (reached_line roots e iters fuel l c e1 o1 Hok Hd E1) Hrest E2).
Qed.

(* from process start, as in the task: an in-domain session that reaches the end of its input *)
Corollary session_from_start : forall iters fuel ls e' out,
  in_domain_session iters fuel go_engine_init ls -> go_run iters fuel go_engine_init ls = (SEof e', out) ->
  reached (searched_in iters fuel go_engine_init ls) e'.
Proof.
  intros iters fuel ls e' out Hd H. rewrite <- (app_nil_r (searched_in _ _ _ _)).
  exact (reached_run iters fuel ls [] go_engine_init e' out reached_init Hd H).
Qed.

(* what the invariant says, spelt out *)
Theorem reached_facts : forall roots e, reached roots e ->
  en_state e <> ST_RUNNING /\ (en_state e = ST_IDLE \/ en_state e = ST_POSITION_SET) /\
  cache_sane go_econsts (en_cache e) /\
  (forall g, en_game e = Some g -> legal_pos (g_pos g) /\ (List.length (g_hist g) <= 1024)%nat) /\
  Forall legal_pos roots /\
  session roots (go_init_sst (en_tt e) (en_cache e) [] None).
Proof.
  intros roots e H. apply reached_ok in H. pose proof (engine_ok_cache _ _ H) as Hc.
  pose proof (engine_ok_not_running _ _ H) as Hr. destruct H as (A & B & C & D). tauto.
Qed.

Corollary session_from_start_facts : forall iters fuel ls e' out,
  in_domain_session iters fuel go_engine_init ls -> go_run iters fuel go_engine_init ls = (SEof e', out) ->
  en_state e' <> ST_RUNNING /\ cache_sane go_econsts (en_cache e') /\
  (forall g, en_game e' = Some g -> legal_pos (g_pos g) /\ (List.length (g_hist g) <= 1024)%nat) /\
  session (searched_in iters fuel go_engine_init ls) (go_init_sst (en_tt e') (en_cache e') [] None).
Proof.
  intros iters fuel ls e' out Hd H. pose proof (reached_facts _ _ (session_from_start iters fuel ls e' out Hd H)). tauto.
Qed.

Print Assumptions handle_keeps_ok.
Print Assumptions session_invariant.
Print Assumptions reached_ok.
Print Assumptions reached_run.
Print Assumptions session_from_start_facts.
