(* Whole-game theorems, examples: shared definitions (the back-rank mate position of the task). *)
From Coq Require Import NArith ZArith List Bool Lia String Ascii.
From Clemens Require Import Base.Res Base.Word Base.Bytes Pos.Types Pos.Position Pos.Fen Pos.Inv
     Pos.ZobristInst Search.GoInst Uci.Input Uci.Game Uci.Engine Uci.EngineInst.
From Clemens.C13Mate Require Import MateDefs MateExamples.
From Clemens.C13Bridge Require Import Bridge.
From ClemensGen Require Import GoConsts.
From Clemens.EngineE2E Require Import EngExamples.
Import ListNotations.
Open Scope list_scope.
Open Scope string_scope.

Definition mate_fen : string := "6k1/5ppp/8/8/8/8/8/R3K3 w Q - 0 1".
Definition mate_six : list bytes := [bs "6k1/5ppp/8/8/8/8/8/R3K3"; bs "w"; bs "Q"; bs "-"; bs "0"; bs "1"].
Definition mate_p0 : position := root_of mate_fen.

Lemma mate_p0_fen : new_from_fen go_keys unicode_digit_tbl (join_sp mate_six) = Ok mate_p0.
Proof. vm_compute. reflexivity. Qed.
Lemma mate_p0_legal : legal_pos mate_p0.
Proof. apply legal_pos_b_sound. vm_compute. reflexivity. Qed.

