(* C06, part 2: the inductive invariant of the repaired engine under well-formed dialogues, and its preservation
   by every step (hence by every schedule). *)
From Coq Require Import List Bool Arith Lia.
From Clemens Require Import Uci.Conc.
From Clemens.C06Conc Require Import ConcLemmas.
Import ListNotations.

(* ------------------------------------------------------------------ auxiliary notions *)

Definition locked_pc (r : option hpc) : bool :=
  match r with
  | Some (HStartLocked _) | Some (HStartSpawn _) | Some HStartSpawned | Some HStartEnd => true
  | _ => false
  end.
(* a consumed `go` whose search goroutine has not been spawned yet *)
Definition pend (r : option hpc) : nat :=
  match r with Some (HLock (CGo _)) | Some (HStartLocked _) | Some (HStartSpawn _) => 1 | _ => 0 end.
Definition pre_spawn (r : option hpc) : bool :=
  match r with Some (HLock (CGo _)) | Some (HStartLocked _) => true | _ => false end.
Definition is_spawn (r : option hpc) : bool :=
  match r with Some (HStartSpawn _) => true | _ => false end.
Definition in_start (r : option hpc) : bool :=
  match r with
  | Some (HLock (CGo _)) | Some (HStartLocked _) | Some (HStartSpawn _) | Some HStartSpawned | Some HStartEnd => true
  | _ => false
  end.
Definition pend_ready (r : option hpc) : nat :=
  match r with Some (HLock CReady) => 1 | _ => 0 end.

Definition last_prop (f : sthread -> bool) (l : list sthread) : bool :=
  match last_opt l with Some t => f t | None => false end.
Definition live_last := last_prop live.
Definition uncancelled_inf (t : sthread) : bool := s_inf t && negb (s_cancelled t).

(* is a `stop` still owed by the GUI? *)
Definition need_of (r : option hpc) (l : list sthread) : bool :=
  match r with
  | Some (HLock CStop) => false
  | Some (HLock (CGo inf)) | Some (HStartLocked inf) | Some (HStartSpawn inf) => inf
  | _ => last_prop uncancelled_inf l
  end.

Definition all_printed (l : list sthread) : Prop := forall i t, nth_error l i = Some t -> printed t = true.
Definition butlast_printed (l : list sthread) : Prop :=
  forall i t, nth_error l i = Some t -> S i < length l -> printed t = true.

Definition occ_spec (l : list sthread) (k : nat) : nat :=
  match nth_error l k with Some t => if printed t then 1 else 0 | None => 0 end.

Record Inv (d : list cmd) (s : cstate) : Prop := {
  I_gs : c_gs s = [];
  I_wf : wf (c_phase s) (c_lines s) = true;
  I_lock : c_lock s = locked_pc (c_rpc s);
  I_bl : butlast_printed (c_searches s);
  I_gos : c_gos s = length (c_searches s) + pend (c_rpc s);
  I_gst : gst_eqb (c_gst s) RUNNING = is_spawn (c_rpc s) || live_last (c_searches s);
  I_phpc : c_phase s = true -> in_start (c_rpc s) = false;
  I_pospc : c_rpc s = Some (HLock CPos) -> c_phase s = true;
  I_quiet : c_phase s = true \/ pend (c_rpc s) = 1 -> all_printed (c_searches s);
  I_posset : (c_phase s = true /\ c_rpc s <> Some (HLock CPos)) \/ pre_spawn (c_rpc s) = true ->
             c_gst s = POSSET /\ c_has_search s = true;
  I_noref : forall e, In e (c_out s) -> is_refusal e = false;
  I_occ : forall k, best_occ k (c_out s) = occ_spec (c_searches s) k;
  I_cb : count_best (c_out s) = count_printed (c_searches s);
  I_inf : forall i t, nth_error (c_searches s) i = Some t -> uncancelled_inf t = true -> live t = true;
  I_stops : forall m, In m (c_stops s) -> 1 <= m ->
            exists t, nth_error (c_searches s) (m - 1) = Some t /\ s_cancelled t || past t = true;
  I_go : c_gos s + count_cgos (c_lines s) = count_cgos d;
  I_rdy : count_ready (c_out s) + pend_ready (c_rpc s) + count_creadys (c_lines s) = count_creadys d;
  I_need : stopped false d = true -> stopped (need_of (c_rpc s) (c_searches s)) (c_lines s) = true
}.

(* reduce field projections of updated states only *)
Ltac scbn := cbn [c_lines c_gos c_phase c_rpc c_gs c_lock c_gst c_has_search c_searches c_out c_stops
                  set_lines set_rpc set_gs set_lock set_gst set_has_search set_searches emit note_stop].
Tactic Notation "scbn" "in" hyp(H) :=
  cbn [c_lines c_gos c_phase c_rpc c_gs c_lock c_gst c_has_search c_searches c_out c_stops
       set_lines set_rpc set_gs set_lock set_gst set_has_search set_searches emit note_stop] in H.

(* ------------------------------------------------------------------ list lemmas for the clauses *)

Lemma nth_error_upd_nth_inv {A} (l : list A) k v i t :
  nth_error (upd_nth l k v) i = Some t ->
  (i = k /\ t = v /\ k < length l) \/ (i <> k /\ nth_error l i = Some t).
Proof.
  intros H. destruct (Nat.eq_dec i k) as [->|Hne].
  - left. pose proof (nth_error_Some_lt _ _ _ H) as Hlt. rewrite length_upd_nth in Hlt.
    rewrite nth_error_upd_nth_eq in H by exact Hlt. split; [reflexivity|split;[congruence|exact Hlt]].
  - right. rewrite nth_error_upd_nth_neq in H by exact Hne. auto.
Qed.

Lemma all_printed_upd l k v : all_printed l -> printed v = true -> all_printed (upd_nth l k v).
Proof.
  intros H Hv i t Hn. apply nth_error_upd_nth_inv in Hn as [(_ & -> & _)|(_ & Hn)]; eauto.
Qed.

Lemma all_printed_butlast l : all_printed l -> butlast_printed l.
Proof. intros H i t Hn _. eauto. Qed.

Lemma butlast_printed_upd l k t v :
  butlast_printed l -> nth_error l k = Some t -> (printed t = true -> printed v = true) ->
  butlast_printed (upd_nth l k v).
Proof.
  intros H Hk Hv i u Hn Hlt. rewrite length_upd_nth in Hlt.
  apply nth_error_upd_nth_inv in Hn as [(-> & -> & _)|(_ & Hn)]; eauto.
Qed.

Lemma butlast_printed_snoc l x : all_printed l -> butlast_printed (l ++ [x]).
Proof.
  intros H i t Hn Hlt. rewrite app_length in Hlt; simpl in Hlt.
  apply nth_error_snoc_inv in Hn as [(_ & Hn)|(-> & _)]; [eauto|lia].
Qed.

Lemma butlast_not_printed_last l k t :
  butlast_printed l -> nth_error l k = Some t -> printed t = false -> k = length l - 1.
Proof.
  intros H Hk Hp. pose proof (nth_error_Some_lt _ _ _ Hk) as Hlt.
  destruct (Nat.eq_dec k (length l - 1)) as [|Hne]; auto.
  rewrite (H k t Hk) in Hp by lia. discriminate.
Qed.

Lemma last_opt_nth l k (t : sthread) : nth_error l k = Some t -> k = length l - 1 -> last_opt l = Some t.
Proof. intros H ->. exact H. Qed.

Lemma last_prop_upd f l k t v :
  nth_error l k = Some t -> f v = f t -> last_prop f (upd_nth l k v) = last_prop f l.
Proof.
  intros Hk Hf. unfold last_prop. pose proof (nth_error_Some_lt _ _ _ Hk) as Hlt.
  rewrite last_opt_upd_nth by exact Hlt. destruct (k =? length l - 1) eqn:E; auto.
  apply Nat.eqb_eq in E. now rewrite (last_opt_nth _ _ _ Hk E).
Qed.

Lemma last_prop_upd_last f l k t v :
  nth_error l k = Some t -> k = length l - 1 -> last_prop f (upd_nth l k v) = f v.
Proof.
  intros Hk E. unfold last_prop. pose proof (nth_error_Some_lt _ _ _ Hk) as Hlt.
  rewrite last_opt_upd_nth by exact Hlt. apply Nat.eqb_eq in E. now rewrite E.
Qed.

Lemma last_prop_snoc f l x : last_prop f (l ++ [x]) = f x.
Proof. unfold last_prop. now rewrite last_opt_snoc. Qed.

Lemma last_prop_all_printed f l :
  all_printed l -> (forall t, printed t = true -> f t = false) -> last_prop f l = false.
Proof.
  intros H Hf. unfold last_prop. destruct (last_opt l) as [t|] eqn:E; auto.
  apply Hf. apply (H _ _ E).
Qed.

Lemma printed_not_live t : printed t = true -> live t = false.
Proof. unfold printed, live. destruct (s_pc t); congruence. Qed.

Lemma past_not_live t : past t = negb (live t).
Proof. unfold past, live. destruct (s_pc t); reflexivity. Qed.

Lemma occ_spec_upd_same l k t v j :
  nth_error l k = Some t -> printed v = printed t -> occ_spec (upd_nth l k v) j = occ_spec l j.
Proof.
  intros Hk Hp. unfold occ_spec. pose proof (nth_error_Some_lt _ _ _ Hk) as Hlt.
  destruct (Nat.eq_dec j k) as [->|Hne].
  - rewrite nth_error_upd_nth_eq by exact Hlt. now rewrite Hk, Hp.
  - now rewrite nth_error_upd_nth_neq by exact Hne.
Qed.

Lemma occ_spec_snoc l x j : printed x = false -> occ_spec (l ++ [x]) j = occ_spec l j.
Proof.
  intros Hp. unfold occ_spec. destruct (nth_error (l ++ [x]) j) as [y|] eqn:E.
  - apply nth_error_snoc_inv in E as [(_ & E)|(-> & ->)].
    + now rewrite E.
    + rewrite Hp. assert (nth_error l (length l) = None) as -> by (apply nth_error_None; lia). reflexivity.
  - apply nth_error_None in E. rewrite app_length in E; simpl in E.
    assert (nth_error l j = None) as -> by (apply nth_error_None; lia). reflexivity.
Qed.

Lemma count_printed_upd_same l k t v :
  nth_error l k = Some t -> printed v = printed t -> count_printed (upd_nth l k v) = count_printed l.
Proof.
  intros Hk Hp. pose proof (count_printed_upd_nth l k t v Hk) as H. rewrite Hp in H. lia.
Qed.

Lemma best_occ_cons_other k e o : is_best_of k e = false -> best_occ k (e :: o) = best_occ k o.
Proof. intros H. unfold best_occ. simpl. now rewrite H. Qed.

Lemma count_best_cons_other e o : is_best e = false -> count_best (e :: o) = count_best o.
Proof. intros H. unfold count_best. simpl. now rewrite H. Qed.

Lemma count_ready_cons_other e o : is_ready e = false -> count_ready (e :: o) = count_ready o.
Proof. intros H. unfold count_ready. simpl. now rewrite H. Qed.

Lemma stopped_true_false d : stopped true d = true -> stopped false d = true.
Proof.
  induction d as [|c d IH]; simpl; [discriminate|]. destruct c; auto; simpl; discriminate.
Qed.

(* ------------------------------------------------------------------ the initial state *)

Lemma inv_init d : wf false d = true -> Inv d (init d).
Proof.
  intros Hwf. constructor; cbn; auto; try discriminate; try tauto.
  all: try (intros i t H; destruct i; discriminate).
  all: try (intros [H|H]; discriminate).
  - intros [[H _]|H]; discriminate.
  - intros k. unfold occ_spec. destruct k; reflexivity.
Qed.
