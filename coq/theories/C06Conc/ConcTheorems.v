(* C06: the UCI dialogue stays live under every interleaving (repaired engine).
   Main theorems T1-T7, proved for ALL well-formed dialogues and ALL schedules from the inductive invariant. *)
From Coq Require Import List Bool Arith Lia.
From Clemens Require Import Uci.Conc.
From Clemens.C06Conc Require Import ConcLemmas ConcInv ConcInvS ConcInvR.
Import ListNotations.

(* ------------------------------------------------------------------ T1 *)

Theorem no_refusal d sched :
  wf false d = true ->
  let s := run repaired (init d) sched in
  ~ In ERefusePos (c_out s) /\ ~ In ERefuseGo (c_out s).
Proof.
  intros Hwf s. pose proof (inv_run d sched Hwf) as HI. fold s in HI.
  split; intros H; apply (I_noref _ _ HI) in H; discriminate.
Qed.

(* ------------------------------------------------------------------ T2 *)

Lemma occ_spec_le l k : occ_spec l k <= 1.
Proof. unfold occ_spec. destruct (nth_error l k) as [t|]; [destruct (printed t)|]; lia. Qed.

Lemma printed_iff t : printed t = true <-> s_pc t = SEnd \/ s_pc t = SDone.
Proof. unfold printed. destruct (s_pc t); split; intros H; try discriminate; auto; destruct H; discriminate. Qed.

Lemma inv_best_iff d s k :
  Inv d s -> (In (EBest k) (c_out s) <-> exists t, nth_error (c_searches s) k = Some t /\ printed t = true).
Proof.
  intros HI. rewrite best_occ_In, (I_occ _ _ HI). unfold occ_spec. split.
  - destruct (nth_error (c_searches s) k) as [t|]; [|lia]. destruct (printed t) eqn:E; [|lia]. eauto.
  - intros (t & -> & ->). lia.
Qed.

Theorem at_most_one_bestmove d sched :
  wf false d = true ->
  let s := run repaired (init d) sched in
  (forall k, best_occ k (c_out s) <= 1) /\
  (forall k, In (EBest k) (c_out s) -> k < c_gos s /\ exists t, nth_error (c_searches s) k = Some t) /\
  count_best (c_out s) <= c_gos s.
Proof.
  intros Hwf s. pose proof (inv_run d sched Hwf) as HI. fold s in HI.
  pose proof (I_gos _ _ HI) as Hgos.
  split; [|split].
  - intros k. rewrite (I_occ _ _ HI). apply occ_spec_le.
  - intros k H. apply (inv_best_iff _ _ _ HI) in H as (t & Ht & _).
    pose proof (nth_error_Some_lt _ _ _ Ht). split; [lia|eauto].
  - rewrite (I_cb _ _ HI). pose proof (count_printed_le (c_searches s)). lia.
Qed.

(* bestmove k has been printed exactly when search goroutine k is past its print statement *)
Theorem bestmove_iff_printed d sched k :
  wf false d = true ->
  let s := run repaired (init d) sched in
  In (EBest k) (c_out s) <->
  exists t, nth_error (c_searches s) k = Some t /\ (s_pc t = SEnd \/ s_pc t = SDone).
Proof.
  intros Hwf s. pose proof (inv_run d sched Hwf) as HI. fold s in HI.
  rewrite (inv_best_iff _ _ _ HI). split; intros (t & Ht & Hp); exists t; split; auto; now apply printed_iff.
Qed.

(* all searches but the last have printed their bestmove *)
Theorem at_most_one_live_search d sched :
  wf false d = true ->
  let s := run repaired (init d) sched in
  forall i t, nth_error (c_searches s) i = Some t -> S i < length (c_searches s) ->
    s_pc t = SEnd \/ s_pc t = SDone.
Proof.
  intros Hwf s. pose proof (inv_run d sched Hwf) as HI. fold s in HI.
  intros i t Hn Hlt. apply printed_iff. eapply (I_bl _ _ HI); eauto.
Qed.

(* ------------------------------------------------------------------ T4 *)

Theorem stop_not_lost d sched :
  wf false d = true ->
  let s := run repaired (init d) sched in
  forall m, In m (c_stops s) -> 1 <= m ->
    exists t, nth_error (c_searches s) (m - 1) = Some t /\
      (s_cancelled t = true \/ s_pc t = SMid \/ s_pc t = SEnd \/ s_pc t = SDone).
Proof.
  intros Hwf s. pose proof (inv_run d sched Hwf) as HI. fold s in HI.
  intros m Hm H1. destruct (I_stops _ _ HI m Hm H1) as (t & Ht & Hc). exists t. split; auto.
  apply orb_true_iff in Hc as [Hc|Hc]; [now left|right].
  unfold past in Hc. destruct (s_pc t); try discriminate; auto.
Qed.

(* ------------------------------------------------------------------ T5: the reader never blocks *)

Lemma cancel_last_lines s : c_lines (cancel_last s) = c_lines s.
Proof. unfold cancel_last. destruct (rev (c_searches s)); reflexivity. Qed.
Lemma cancel_last_out s : c_out (cancel_last s) = c_out s.
Proof. unfold cancel_last. destruct (rev (c_searches s)); reflexivity. Qed.

Lemma hmeasure_bound h : 1 <= hmeasure h <= 5.
Proof. destruct h as [[]| | | |]; simpl; lia. Qed.

(* inside a handler the reader can always take its next step, the unconsumed lines are untouched,
   and the handler gets strictly closer to returning *)
Lemma handler_step d s h :
  Inv d s -> c_rpc s = Some h ->
  exists s', rstep repaired s = Some s' /\ c_lines s' = c_lines s /\
    (c_rpc s' = None \/ exists h', c_rpc s' = Some h' /\ hmeasure h' < hmeasure h).
Proof.
  intros HI Hr. unfold rstep. rewrite Hr.
  pose proof (I_lock _ _ HI) as Hlock. rewrite Hr in Hlock.
  unfold hstep. destruct h as [c|inf|inf| |]; cbn [locked_pc] in Hlock.
  - rewrite Hlock. destruct c as [|inf| |].
    + destruct (inv_h_pos _ _ HI Hr) as [Hg _]. rewrite Hg. eexists. split; [reflexivity|]. split; [reflexivity|now left].
    + eexists. split; [reflexivity|]. split; [reflexivity|]. right. eexists. split; [reflexivity|simpl; lia].
    + cbv zeta. destruct (gst_eqb (c_gst (note_stop s)) RUNNING); eexists; (split; [reflexivity|]); scbn.
      * split; [rewrite cancel_last_lines; reflexivity|now left].
      * split; [reflexivity|now left].
    + eexists. split; [reflexivity|]. split; [reflexivity|now left].
  - destruct (inv_h_locked _ _ _ HI Hr) as [Hc _]. rewrite Hc. cbn [v_running_first repaired].
    eexists. split; [reflexivity|]. split; [reflexivity|]. right. eexists. split; [reflexivity|simpl; lia].
  - eexists. split; [reflexivity|]. split; [reflexivity|]. right. eexists. split; [reflexivity|simpl; lia].
  - cbn [v_running_first repaired].
    eexists. split; [reflexivity|]. split; [reflexivity|]. right. eexists. split; [reflexivity|simpl; lia].
  - eexists. split; [reflexivity|]. split; [reflexivity|now left].
Qed.

Theorem reader_never_blocks d sched :
  wf false d = true ->
  let s := run repaired (init d) sched in
  (* inside a handler: the mutex is free or held by the reader itself; the handler returns after <= 5 own steps *)
  (forall h, c_rpc s = Some h ->
     hmeasure h <= 5 /\
     exists s', step repaired s LR = Some s' /\
       (c_rpc s' = None \/ exists h', c_rpc s' = Some h' /\ hmeasure h' < hmeasure h)) /\
  (* between lines: isready and stop are always consumed *)
  (forall c rest, c_rpc s = None -> c_lines s = c :: rest -> c = CReady \/ c = CStop ->
     step repaired s LR <> None).
Proof.
  intros Hwf s. pose proof (inv_run d sched Hwf) as HI. fold s in HI. split.
  - intros h Hr. split; [apply hmeasure_bound|].
    destruct (handler_step _ _ _ HI Hr) as (s' & Hs & _ & Hm). exists s'. split; auto.
  - intros c rest Hr Hl Hc. simpl. unfold rstep. rewrite Hr, Hl.
    destruct Hc as [-> | ->]; simpl; discriminate.
Qed.

(* ---- frames: what the other threads leave alone *)

Lemma sstep_frame s k s' :
  sstep repaired s k = Some s' ->
  c_lines s' = c_lines s /\ c_rpc s' = c_rpc s /\ count_ready (c_out s') = count_ready (c_out s).
Proof.
  intros H. apply sstep_cases in H as (t & Hk & [(Hpc & ->)|[(Hpc & Hc & ->)|[(Hpc & ->)|(Hpc & ->)]]]);
    repeat split; reflexivity.
Qed.

Lemma hstep_count_ready_mono s h s1 h1 :
  hstep repaired s h = Some (s1, h1) -> count_ready (c_out s) <= count_ready (c_out s1).
Proof.
  intros H. unfold hstep in H. cbn [repaired v_sync_go v_running_first v_idle_first] in H.
  repeat match type of H with context [match ?x with _ => _ end] => destruct x end;
    try discriminate; injection H as <- <-; scbn; rewrite ?cancel_last_out; scbn; auto;
    unfold count_ready; simpl; lia.
Qed.

Lemma rstep_count_ready_mono s s' :
  rstep repaired s = Some s' -> count_ready (c_out s) <= count_ready (c_out s').
Proof.
  unfold rstep. destruct (c_rpc s) as [h|].
  - destruct (hstep repaired s h) as [[s1 h1]|] eqn:Eh; [|discriminate].
    intros H; injection H as <-. scbn. eapply hstep_count_ready_mono; eauto.
  - destruct (c_lines s) as [|c rest]; [discriminate|].
    destruct (gui_ready s c); [|discriminate].
    destruct c; cbn [repaired v_sync_go]; intros H; injection H as <-; scbn; lia.
Qed.

Lemma step_or_stay_count_ready_mono d s l :
  Inv d s -> count_ready (c_out s) <= count_ready (c_out (step_or_stay repaired s l)).
Proof.
  intros HI. unfold step_or_stay. destruct (step repaired s l) as [s'|] eqn:E; [|lia].
  destruct l as [|i|k]; simpl in E.
  - now apply rstep_count_ready_mono.
  - rewrite (gstep_none _ _ _ HI) in E. discriminate.
  - apply sstep_frame in E as (_ & _ & E). lia.
Qed.

(* ---- the reader's distance to having answered the isready line that precedes [rest] *)
Definition rphase (d rest : list cmd) (n : nat) (s : cstate) : Prop :=
  (c_lines s = CReady :: rest /\
     ((exists h, c_rpc s = Some h /\ n = hmeasure h + 2) \/ (c_rpc s = None /\ n = 2)))
  \/ (c_lines s = rest /\ c_rpc s = Some (HLock CReady) /\ n = 1)
  \/ (n = 0 /\ count_creadys d <= count_ready (c_out s) + count_creadys rest).

Lemma rphase_step d rest n s l :
  Inv d s -> rphase d rest n s ->
  exists n', rphase d rest n' (step_or_stay repaired s l) /\ n' <= n - (if is_LR l then 1 else 0).
Proof.
  intros HI Hp. destruct Hp as [(Hl & Hp)|[(Hl & Hr & ->)|(-> & Hp)]].
  - (* the line is still unconsumed *)
    destruct l as [|i|k].
    + unfold step_or_stay; simpl. destruct Hp as [(h & Hr & ->)|(Hr & ->)].
      * destruct (handler_step _ _ _ HI Hr) as (s' & Hs & Hl' & Hm). rewrite Hs.
        pose proof (hmeasure_bound h).
        destruct Hm as [Hn|(h' & Hr' & Hlt)].
        -- exists 2. split; [|lia]. left. split; [congruence|]. right. auto.
        -- exists (hmeasure h' + 2). split; [|lia]. left. split; [congruence|]. left. eauto.
      * unfold rstep. rewrite Hr, Hl. simpl.
        exists 1. split; [|lia]. right; left. scbn. auto.
    + unfold step_or_stay; simpl. rewrite (gstep_none _ _ _ HI). exists n. split; [|simpl; lia].
      left. auto.
    + unfold step_or_stay; simpl. exists n. split; [|simpl; lia].
      destruct (sstep repaired s k) as [s'|] eqn:E; [|left; auto].
      apply sstep_frame in E as (E1 & E2 & _). left. rewrite E1, E2. auto.
  - (* consumed, about to be answered *)
    destruct l as [|i|k].
    + unfold step_or_stay; simpl. unfold rstep, hstep. rewrite Hr.
      pose proof (I_lock _ _ HI) as Hlock. rewrite Hr in Hlock. cbn [locked_pc] in Hlock. rewrite Hlock.
      exists 0. split; [|lia]. right; right. split; [reflexivity|]. scbn.
      pose proof (I_rdy _ _ HI) as Hrdy. rewrite Hr, Hl in Hrdy. cbn [pend_ready] in Hrdy.
      change (count_ready (EReady :: c_out s)) with (S (count_ready (c_out s))). lia.
    + unfold step_or_stay; simpl. rewrite (gstep_none _ _ _ HI). exists 1. split; [|simpl; lia].
      right; left. auto.
    + unfold step_or_stay; simpl. exists 1. split; [|simpl; lia].
      destruct (sstep repaired s k) as [s'|] eqn:E; [|right; left; auto].
      apply sstep_frame in E as (E1 & E2 & _). right; left. rewrite E1, E2. auto.
  - exists 0. split; [|lia]. right; right. split; [reflexivity|].
    pose proof (step_or_stay_count_ready_mono _ _ l HI). lia.
Qed.

Lemma rphase_run d rest sched2 : forall n s,
  Inv d s -> rphase d rest n s ->
  exists n', rphase d rest n' (run repaired s sched2) /\ n' <= n - count_LR sched2.
Proof.
  induction sched2 as [|l sched2 IH]; intros n s HI Hp.
  - exists n. split; [exact Hp|unfold count_LR; simpl; lia].
  - rewrite run_cons. destruct (rphase_step _ _ _ _ l HI Hp) as (n1 & Hp1 & Hle1).
    destruct (IH n1 _ (inv_step_or_stay _ _ l HI) Hp1) as (n2 & Hp2 & Hle2).
    exists n2. split; [exact Hp2|].
    unfold count_LR in *. simpl. destruct (is_LR l); simpl; lia.
Qed.

(* Whenever the next unconsumed line is `isready`, then after at most 7 further steps of the reader thread,
   however they are interleaved with the other threads, every `isready` up to and including this one has been
   answered: the output contains as many `readyok` as the dialogue has `isready` lines before [rest]. *)
Theorem isready_answered d sched rest sched2 :
  wf false d = true ->
  let s := run repaired (init d) sched in
  c_lines s = CReady :: rest ->
  7 <= count_LR sched2 ->
  let s' := run repaired s sched2 in
  count_creadys d <= count_ready (c_out s') + count_creadys rest.
Proof.
  intros Hwf s Hl H7 s'. pose proof (inv_run d sched Hwf) as HI. fold s in HI.
  assert (exists n, rphase d rest n s /\ n <= 7) as (n & Hp & Hn).
  { destruct (c_rpc s) as [h|] eqn:Hr.
    - exists (hmeasure h + 2). pose proof (hmeasure_bound h). split; [|lia]. left. split; eauto.
    - exists 2. split; [|lia]. left. split; auto. }
  destruct (rphase_run _ _ sched2 _ _ HI Hp) as (n' & Hp' & Hle). fold s' in Hp'.
  assert (n' = 0) as -> by lia.
  destruct Hp' as [(_ & [(h & _ & E)|(_ & E)])|[(_ & _ & E)|(_ & E)]]; try lia.
Qed.

(* exact accounting of readyok: nothing spurious, at most one isready in flight *)
Theorem readyok_accounting d sched :
  wf false d = true ->
  let s := run repaired (init d) sched in
  count_ready (c_out s) + count_creadys (c_lines s) <= count_creadys d <=
  count_ready (c_out s) + count_creadys (c_lines s) + 1.
Proof.
  intros Hwf s. pose proof (inv_run d sched Hwf) as HI. fold s in HI.
  pose proof (I_rdy _ _ HI) as H. destruct (c_rpc s) as [[[]| | | |]|]; cbn [pend_ready] in H; lia.
Qed.

(* ------------------------------------------------------------------ T6: a cancelled or finite search answers promptly *)

(* holds in every state of every variant *)
Theorem cancelled_search_enabled v s k t :
  nth_error (c_searches s) k = Some t ->
  s_cancelled t = true \/ s_inf t = false ->
  s_pc t <> SDone ->
  step v s (LS k) <> None.
Proof.
  intros Hk Hc Hpc. simpl. unfold sstep. rewrite Hk.
  destruct (s_pc t); try discriminate; [|congruence].
  destruct Hc as [-> | ->]; [rewrite orb_true_r|]; discriminate.
Qed.

Definition same_search (t t' : sthread) : Prop :=
  s_inf t' = s_inf t /\ s_pc t' = s_pc t /\ (s_cancelled t = true -> s_cancelled t' = true).

Lemma same_search_refl t : same_search t t.
Proof. repeat split; auto. Qed.

Lemma cancel_last_nth s k t :
  nth_error (c_searches s) k = Some t ->
  exists t', nth_error (c_searches (cancel_last s)) k = Some t' /\ same_search t t'.
Proof.
  intros Hk. rewrite cancel_last_eq. destruct (last_opt (c_searches s)) as [u|] eqn:El.
  - scbn. pose proof (nth_error_Some_lt _ _ _ Hk) as Hlt.
    destruct (Nat.eq_dec k (length (c_searches s) - 1)) as [E|E].
    + rewrite <- E. rewrite nth_error_upd_nth_eq by exact Hlt.
      unfold last_opt in El. rewrite <- E, Hk in El. injection El as <-.
      eexists. split; [reflexivity|]. repeat split; auto.
    + rewrite nth_error_upd_nth_neq by exact E. exists t. split; [exact Hk|apply same_search_refl].
  - exists t. split; [exact Hk|apply same_search_refl].
Qed.

Lemma hstep_search_frame s h s1 h1 k t :
  hstep repaired s h = Some (s1, h1) -> nth_error (c_searches s) k = Some t ->
  exists t', nth_error (c_searches s1) k = Some t' /\ same_search t t'.
Proof.
  intros H Hk. unfold hstep in H. cbn [repaired v_sync_go v_running_first v_idle_first] in H.
  destruct h as [c|inf|inf| |].
  - destruct (c_lock s); [discriminate|]. destruct c as [|inf| |].
    + destruct (gst_eqb (c_gst s) RUNNING); injection H as <- <-; exists t; split; auto using same_search_refl.
    + injection H as <- <-; exists t; split; auto using same_search_refl.
    + cbv zeta in H. destruct (gst_eqb (c_gst (note_stop s)) RUNNING); injection H as <- <-.
      * apply (cancel_last_nth (note_stop s) k t Hk).
      * exists t; split; auto using same_search_refl.
    + injection H as <- <-; exists t; split; auto using same_search_refl.
  - destruct (negb (gst_eqb (c_gst s) POSSET) || negb (c_has_search s)); injection H as <- <-;
      exists t; split; auto using same_search_refl.
  - injection H as <- <-. exists t. split; [|apply same_search_refl]. scbn.
    rewrite nth_error_app1; auto. eapply nth_error_Some_lt; eauto.
  - injection H as <- <-; exists t; split; auto using same_search_refl.
  - injection H as <- <-; exists t; split; auto using same_search_refl.
Qed.

Lemma rstep_search_frame s s' k t :
  rstep repaired s = Some s' -> nth_error (c_searches s) k = Some t ->
  exists t', nth_error (c_searches s') k = Some t' /\ same_search t t'.
Proof.
  unfold rstep. intros H Hk. destruct (c_rpc s) as [h|].
  - destruct (hstep repaired s h) as [[s1 h1]|] eqn:Eh; [|discriminate].
    injection H as <-. scbn. eapply hstep_search_frame; eauto.
  - destruct (c_lines s) as [|c rest]; [discriminate|].
    destruct (gui_ready s c); [|discriminate].
    destruct c; cbn [repaired v_sync_go] in H; injection H as <-; scbn; exists t; split;
      auto using same_search_refl.
Qed.

(* search k is cancelled or finite and at most n of its own steps away from having printed bestmove *)
Definition sphase (k n : nat) (s : cstate) : Prop :=
  exists t, nth_error (c_searches s) k = Some t /\ (s_cancelled t = true \/ s_inf t = false) /\
            smeasure (s_pc t) <= n.

Lemma sphase_step d k n s l :
  Inv d s -> sphase k n s -> sphase k (n - (if is_LS k l then 1 else 0)) (step_or_stay repaired s l).
Proof.
  intros HI (t & Hk & Hc & Hm). unfold step_or_stay. destruct l as [|i|j]; simpl.
  - rewrite Nat.sub_0_r. destruct (rstep repaired s) as [s'|] eqn:E; [|exists t; auto].
    destruct (rstep_search_frame _ _ _ _ E Hk) as (t' & Hk' & Hi & Hp & Hcc).
    exists t'. split; [exact Hk'|]. split; [|now rewrite Hp].
    destruct Hc as [Hc|Hc]; [left; auto|right; congruence].
  - rewrite Nat.sub_0_r. rewrite (gstep_none _ _ _ HI). exists t; auto.
  - destruct (sstep repaired s j) as [s'|] eqn:E.
    + apply sstep_cases in E as (u & Hj & E).
      destruct (Nat.eq_dec j k) as [->|Hne].
      * rewrite Nat.eqb_refl. rewrite Hk in Hj. injection Hj as <-.
        pose proof (nth_error_Some_lt _ _ _ Hk) as Hlt.
        destruct E as [(Hpc & ->)|[(Hpc & _ & ->)|[(Hpc & ->)|(Hpc & ->)]]]; unfold sphase; scbn;
          rewrite nth_error_upd_nth_eq by exact Hlt; eexists; (split; [reflexivity|]); cbn;
          rewrite Hpc in Hm; simpl in Hm; (split; [auto|lia]).
      * assert (j =? k = false) as -> by (now apply Nat.eqb_neq). rewrite Nat.sub_0_r.
        exists t. split; [|auto].
        destruct E as [(Hpc & ->)|[(Hpc & _ & ->)|[(Hpc & ->)|(Hpc & ->)]]]; scbn;
          rewrite nth_error_upd_nth_neq by congruence; exact Hk.
    + exists t. split; [exact Hk|]. split; [exact Hc|].
      destruct (j =? k) eqn:Ejk; [|lia]. apply Nat.eqb_eq in Ejk. subst j.
      unfold sstep in E. rewrite Hk in E. destruct (s_pc t) eqn:Hpc; try discriminate; simpl in *; try lia.
      destruct Hc as [Hc|Hc]; rewrite Hc in E; [rewrite orb_true_r in E|]; discriminate.
Qed.

Lemma sphase_run d k sched2 : forall n s,
  Inv d s -> sphase k n s -> sphase k (n - count_LS k sched2) (run repaired s sched2).
Proof.
  induction sched2 as [|l sched2 IH]; intros n s HI Hp.
  - unfold count_LS; simpl. now rewrite Nat.sub_0_r.
  - rewrite run_cons. pose proof (sphase_step _ _ _ _ l HI Hp) as Hp1.
    pose proof (IH _ _ (inv_step_or_stay _ _ l HI) Hp1) as Hp2.
    replace (n - count_LS k (l :: sched2)) with (n - (if is_LS k l then 1 else 0) - count_LS k sched2); auto.
    unfold count_LS. simpl. destruct (is_LS k l); simpl; lia.
Qed.

(* If search k is cancelled (e.g. by a stop, T4) or finite, then it is enabled until it is done (previous theorem) and
   after at most 3 (a fortiori 4) of its own steps, however interleaved with the other threads, bestmove k is out. *)
Theorem prompt_after_cancel d sched k t sched2 :
  wf false d = true ->
  let s := run repaired (init d) sched in
  nth_error (c_searches s) k = Some t ->
  s_cancelled t = true \/ s_inf t = false ->
  3 <= count_LS k sched2 ->
  In (EBest k) (c_out (run repaired s sched2)).
Proof.
  intros Hwf s Hk Hc H3. pose proof (inv_run d sched Hwf) as HI. fold s in HI.
  assert (Hp : sphase k 3 s).
  { exists t. split; [exact Hk|]. split; [exact Hc|]. destruct (s_pc t); simpl; lia. }
  pose proof (sphase_run _ _ sched2 _ _ HI Hp) as (t' & Hk' & _ & Hm).
  pose proof (inv_run_from d sched2 _ HI) as HI'.
  apply (inv_best_iff _ _ _ HI'). exists t'. split; [exact Hk'|].
  replace (3 - count_LS k sched2) with 0 in Hm by lia.
  unfold printed. destruct (s_pc t'); cbn [smeasure] in Hm; try lia; reflexivity.
Qed.

(* ------------------------------------------------------------------ T7: deadlock freedom *)

Lemma sstep_none_shape s k t :
  nth_error (c_searches s) k = Some t -> sstep repaired s k = None ->
  s_pc t = SDone \/ (s_pc t = SRunning /\ s_inf t = true /\ s_cancelled t = false).
Proof.
  intros Hk. unfold sstep. rewrite Hk. destruct (s_pc t); try discriminate; auto.
  destruct (s_inf t), (s_cancelled t); simpl; try discriminate; auto.
Qed.

Lemma stuck_shape d s :
  Inv d s -> stuck repaired s = true ->
  c_rpc s = None /\
  (forall i t, nth_error (c_searches s) i = Some t ->
     s_pc t = SDone \/
     (i = length (c_searches s) - 1 /\ s_pc t = SRunning /\ s_inf t = true /\ s_cancelled t = false)) /\
  (c_lines s = [] \/ exists c rest, c_lines s = c :: rest /\ gui_ready s c = false).
Proof.
  intros HI Hst. pose proof (stuck_LR _ _ Hst) as HLR. simpl in HLR.
  assert (Hr : c_rpc s = None).
  { destruct (c_rpc s) as [h|] eqn:Hr; auto.
    destruct (handler_step _ _ _ HI Hr) as (s' & Hs & _). congruence. }
  split; [exact Hr|]. split.
  - intros i t Hn. pose proof (nth_error_Some_lt _ _ _ Hn) as Hlt.
    pose proof (stuck_LS _ _ i Hst Hlt) as HLS. simpl in HLS.
    destruct (sstep_none_shape _ _ _ Hn HLS) as [Hd|(Hpc & Hi & Hc)]; [now left|right].
    split; auto. eapply butlast_not_printed_last; eauto using (I_bl _ _ HI).
    unfold printed. now rewrite Hpc.
  - unfold rstep in HLR. rewrite Hr in HLR. destruct (c_lines s) as [|c rest]; [now left|right].
    exists c, rest. split; auto. destruct (gui_ready s c); auto.
    destruct c; discriminate.
Qed.

(* A state in which no thread can move is either the end of the dialogue (everything consumed and answered, all
   goroutines gone) or the engine is searching `go infinite` and waits for the GUI: the latest search is an
   uncancelled infinite one, its bestmove is outstanding, and the GUI has either nothing more to say or holds
   back a position/go until that bestmove (which a well-behaved GUI obtains by sending stop). *)
Theorem progress d sched :
  wf false d = true ->
  let s := run repaired (init d) sched in
  stuck repaired s = true ->
  c_rpc s = None /\
  ( (c_lines s = [] /\ forall t, In t (c_searches s) -> s_pc t = SDone)
    \/
    (exists t, length (c_searches s) = c_gos s /\ nth_error (c_searches s) (c_gos s - 1) = Some t /\
       s_inf t = true /\ s_cancelled t = false /\ s_pc t = SRunning /\
       count_best (c_out s) < c_gos s /\
       (c_lines s = [] \/ exists c rest, c_lines s = c :: rest /\ gui_ready s c = false /\
                                        (c = CPos \/ exists inf, c = CGo inf))) ).
Proof.
  intros Hwf s Hst. pose proof (inv_run d sched Hwf) as HI. fold s in HI.
  destruct (stuck_shape _ _ HI Hst) as (Hr & Hsh & Hli). split; [exact Hr|].
  pose proof (I_gos _ _ HI) as Hgos. rewrite Hr in Hgos. cbn [pend] in Hgos.
  pose proof (I_cb _ _ HI) as Hcb.
  destruct (last_opt (c_searches s)) as [t|] eqn:El.
  - pose proof El as Hn. unfold last_opt in Hn.
    destruct (Hsh _ _ Hn) as [Hd|(_ & Hpc & Hi & Hc)].
    + (* the last search is done: all are, so the GUI is ready, so the lines are exhausted *)
      left.
      assert (Hall : forall i u, nth_error (c_searches s) i = Some u -> s_pc u = SDone).
      { intros i u Hu. destruct (Hsh _ _ Hu) as [H|(E & Hpc & _)]; auto.
        rewrite E, Hn in Hu. injection Hu as <-. congruence. }
      split.
      * destruct Hli as [Hl|(c & rest & Hl & Hg)]; auto. exfalso.
        assert (count_printed (c_searches s) = length (c_searches s)) as Hcp.
        { apply all_printed_count. intros i u Hu. unfold printed. now rewrite (Hall _ _ Hu). }
        destruct c; simpl in Hg; try discriminate; apply Nat.eqb_neq in Hg; lia.
      * intros u Hin. apply In_nth_error in Hin as (i & Hu). eauto.
    + right. exists t. pose proof (last_opt_Some_len _ _ El) as Hlen.
      split; [lia|]. split; [now replace (c_gos s - 1) with (length (c_searches s) - 1) by lia|].
      repeat (split; auto).
      * pose proof (count_printed_le (c_searches s)) as Hle.
        destruct (Nat.eq_dec (count_printed (c_searches s)) (length (c_searches s))) as [E|E]; [|lia].
        pose proof (count_printed_full _ E _ _ Hn) as Hp. unfold printed in Hp. rewrite Hpc in Hp. discriminate.
      * destruct Hli as [Hl|(c & rest & Hl & Hg)]; [now left|right].
        exists c, rest. repeat (split; auto).
        destruct c; simpl in Hg; try discriminate; eauto.
  - left. apply last_opt_None in El. rewrite El in *. simpl in Hgos. split.
    + destruct Hli as [Hl|(c & rest & Hl & Hg)]; auto. exfalso.
      unfold count_printed in Hcb; simpl in Hcb.
      destruct c; simpl in Hg; try discriminate; apply Nat.eqb_neq in Hg; lia.
    + intros u [].
Qed.

(* ------------------------------------------------------------------ T3 *)

(* Every maximal execution on a dialogue that stops its infinite searches answers every go exactly once
   and every isready. *)
Theorem exactly_one_when_quiescent d sched :
  wf false d = true -> stopped false d = true ->
  let s := run repaired (init d) sched in
  stuck repaired s = true ->
  c_lines s = [] /\ c_rpc s = None /\
  (forall t, In t (c_searches s) -> s_pc t = SDone) /\
  length (c_searches s) = c_gos s /\ c_gos s = count_cgos d /\
  (forall k, k < c_gos s -> best_occ k (c_out s) = 1) /\
  count_best (c_out s) = c_gos s /\
  count_ready (c_out s) = count_creadys d.
Proof.
  intros Hwf Hstp s Hst. pose proof (inv_run d sched Hwf) as HI. fold s in HI.
  destruct (progress d sched Hwf Hst) as (Hr & Hcase). fold s in Hr, Hcase.
  pose proof (I_gos _ _ HI) as Hgos. rewrite Hr in Hgos. cbn [pend] in Hgos.
  destruct Hcase as [(Hl & Hall)|(t & Hlen & Hn & Hi & Hc & Hpc & _ & Hli)].
  - pose proof (I_go _ _ HI) as Hgo. rewrite Hl in Hgo.
    pose proof (I_rdy _ _ HI) as Hrdy. rewrite Hl, Hr in Hrdy.
    change (count_cgos []) with 0 in Hgo. change (count_creadys []) with 0 in Hrdy. cbn [pend_ready] in Hrdy.
    assert (Hpr : forall i u, nth_error (c_searches s) i = Some u -> printed u = true).
    { intros i u Hu. unfold printed. now rewrite (Hall u (nth_error_In _ _ Hu)). }
    split; [exact Hl|]. split; [exact Hr|]. split; [exact Hall|]. split; [lia|]. split; [lia|].
    split; [|split]; [| |lia].
    + intros k Hk. rewrite (I_occ _ _ HI). unfold occ_spec.
      destruct (nth_error (c_searches s) k) as [u|] eqn:Hu.
      * now rewrite (Hpr _ _ Hu).
      * apply nth_error_None in Hu. lia.
    + rewrite (I_cb _ _ HI). rewrite (all_printed_count _ Hpr). lia.
  - (* waiting for a stop the dialogue does not contain: excluded by [stopped] *)
    exfalso. pose proof (I_need _ _ HI Hstp) as Hneed. rewrite Hr in Hneed. cbn [need_of] in Hneed.
    assert (last_prop uncancelled_inf (c_searches s) = true) as E.
    { unfold last_prop, last_opt. rewrite Hlen, Hn. unfold uncancelled_inf. now rewrite Hi, Hc. }
    rewrite E in Hneed.
    destruct Hli as [Hl|(c & rest & Hl & _ & Hcc)]; rewrite Hl in Hneed.
    + discriminate.
    + destruct Hcc as [->|(inf & ->)]; discriminate.
Qed.

(* ------------------------------------------------------------------ corollaries for the write-up *)

(* T4 + T6: a stop executed after m >= 1 go lines makes bestmove m-1 appear after at most 3 steps of that search *)
Corollary stop_answered d sched m sched2 :
  wf false d = true ->
  let s := run repaired (init d) sched in
  In m (c_stops s) -> 1 <= m ->
  3 <= count_LS (m - 1) sched2 ->
  In (EBest (m - 1)) (c_out (run repaired s sched2)).
Proof.
  intros Hwf s Hm H1 H3. pose proof (inv_run d sched Hwf) as HI. fold s in HI.
  destruct (I_stops _ _ HI m Hm H1) as (t & Ht & Hc).
  apply (prompt_after_cancel d sched (m - 1) t sched2 Hwf Ht); [|exact H3].
  destruct (s_cancelled t) eqn:Ec; [now left|right]. simpl in Hc.
  destruct (s_inf t) eqn:Ei; auto.
  assert (uncancelled_inf t = true) as Hu by (unfold uncancelled_inf; now rewrite Ei, Ec).
  pose proof (I_inf _ _ HI _ _ Ht Hu) as Hl. rewrite past_not_live, Hl in Hc. discriminate.
Qed.

(* once every bestmove is out, the reader takes the next position/go (and by T1 the handler accepts it);
   holds in every state of every variant *)
Theorem position_go_consumed v s c rest :
  c_rpc s = None -> c_lines s = c :: rest -> count_best (c_out s) = c_gos s ->
  step v s LR <> None.
Proof.
  intros Hr Hl Hc. simpl. unfold rstep. rewrite Hr, Hl.
  assert (gui_ready s c = true) as -> by (destruct c; simpl; auto; now apply Nat.eqb_eq).
  destruct c; try discriminate. destruct (v_sync_go v); discriminate.
Qed.

Print Assumptions no_refusal.
Print Assumptions at_most_one_bestmove.
Print Assumptions bestmove_iff_printed.
Print Assumptions at_most_one_live_search.
Print Assumptions exactly_one_when_quiescent.
Print Assumptions stop_not_lost.
Print Assumptions reader_never_blocks.
Print Assumptions isready_answered.
Print Assumptions readyok_accounting.
Print Assumptions cancelled_search_enabled.
Print Assumptions prompt_after_cancel.
Print Assumptions progress.
Print Assumptions stop_answered.
Print Assumptions position_go_consumed.
