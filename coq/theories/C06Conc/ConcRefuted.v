(* C06, refutations for the engine as it stands (defects D6, D7, D8): each of the three statement orders of the
   original code, taken alone, allows a schedule that violates the property. Witnesses by computation. *)
From Coq Require Import List Bool Arith Lia.
From Clemens Require Import Uci.Conc.
From Clemens.C06Conc Require Import ConcLemmas.
Import ListNotations.

Definition only_async_go : variant := {| v_sync_go := false; v_running_first := true; v_idle_first := true |}.
Definition only_running_late : variant := {| v_sync_go := true; v_running_first := false; v_idle_first := true |}.
Definition only_idle_late : variant := {| v_sync_go := true; v_running_first := true; v_idle_first := false |}.

(* ---- R1 (D6): `go` is dispatched asynchronously, `stop` synchronously: the stop overtakes StartSearch *)
Definition d_stop : list cmd := [CPos; CGo true; CStop].
Definition sched_stop_lost : list label :=
  [LR; LR;            (* position: consumed, handled (POSSET) *)
   LR;                (* go infinite: consumed, `go g.StartSearch` spawned *)
   LR; LR;            (* stop: consumed, handled while the state is still POSSET: nothing is cancelled *)
   LG 0; LG 0; LG 0; LG 0; LG 0;   (* only now StartSearch takes the lock, spawns the search, returns *)
   LS 0].             (* the infinite search runs and is never cancelled *)

Definition stop_lost_in (v : variant) : Prop :=
  let s := run v (init d_stop) sched_stop_lost in
  wf false d_stop = true /\ stopped false d_stop = true /\
  stuck v s = true /\ c_lines s = [] /\ c_rpc s = None /\ In 1 (c_stops s) /\ count_best (c_out s) = 0 /\
  exists t, nth_error (c_searches s) 0 = Some t /\ s_inf t = true /\ s_cancelled t = false /\ s_pc t = SRunning.

Theorem async_go_stop_lost : stop_lost_in only_async_go.
Proof. unfold stop_lost_in. vm_compute. repeat split; auto. eexists. repeat split. Qed.

Theorem original_stop_lost : stop_lost_in original.
Proof. unfold stop_lost_in. vm_compute. repeat split; auto. eexists. repeat split. Qed.

(* general form: the conclusion of T3 (every go answered when the dialogue is `stopped` and the run is maximal) fails *)
Corollary original_not_exactly_one :
  exists d sched, wf false d = true /\ stopped false d = true /\
    let s := run original (init d) sched in stuck original s = true /\ c_gos s = 1 /\ best_occ 0 (c_out s) = 0.
Proof. exists d_stop, sched_stop_lost. vm_compute. repeat split; auto. Qed.

(* ---- R2 (D7): RUNNING is stored after the goroutine has been spawned: a fast search stores IDLE first and
        the engine is left in state RUNNING with no search: the next position is refused *)
Definition d_two : list cmd := [CPos; CGo false; CPos; CGo false].
Definition sched_stuck_running : list label :=
  [LR; LR;            (* position *)
   LR; LR; LR; LR;    (* go: consumed, Lock, state test, `go func` *)
   LS 0; LS 0;        (* the search starts, returns and stores IDLE *)
   LR; LR;            (* StartSearch stores RUNNING, returns *)
   LS 0;              (* bestmove printed *)
   LR; LR].           (* the GUI's next position: refused *)

Theorem original_stuck_running :
  let s := run only_running_late (init d_two) sched_stuck_running in
  wf false d_two = true /\ stopped false d_two = true /\
  In (EBest 0) (c_out s) /\ In ERefusePos (c_out s) /\ c_gst s = RUNNING /\
  (forall t, In t (c_searches s) -> printed t = true).
Proof. vm_compute. repeat split; auto. intros t [<-|[]]. reflexivity. Qed.

(* the same schedule is possible in the code as it stands *)
Theorem original_stuck_running_orig :
  exists sched, let s := run original (init d_two) sched in
  In (EBest 0) (c_out s) /\ In ERefusePos (c_out s).
Proof.
  exists [LR; LR; LR; LG 0; LG 0; LG 0; LS 0; LS 0; LS 0; LG 0; LG 0; LR; LR].
  vm_compute. auto.
Qed.

(* ---- R3 (D8): bestmove is printed before IDLE is stored: the GUI's reaction to bestmove finds RUNNING *)
Definition sched_refused_after_bestmove : list label :=
  [LR; LR;                  (* position *)
   LR; LR; LR; LR; LR; LR;  (* go: consumed, Lock, test + RUNNING, `go func`, -, Unlock *)
   LS 0; LS 0;              (* the search starts, returns and prints bestmove *)
   LR; LR].                 (* position: handled before the goroutine stores IDLE: refused *)

Theorem original_refused_after_bestmove :
  let s := run only_idle_late (init d_two) sched_refused_after_bestmove in
  wf false d_two = true /\ stopped false d_two = true /\
  c_out s = [ERefusePos; EBest 0].
Proof. vm_compute. auto. Qed.

Theorem original_refused_after_bestmove_orig :
  exists sched, c_out (run original (init d_two) sched) = [ERefusePos; EBest 0].
Proof.
  exists [LR; LR; LR; LG 0; LG 0; LG 0; LG 0; LG 0; LS 0; LS 0; LR; LR].
  vm_compute. auto.
Qed.

Print Assumptions async_go_stop_lost.
Print Assumptions original_stop_lost.
Print Assumptions original_not_exactly_one.
Print Assumptions original_stuck_running.
Print Assumptions original_stuck_running_orig.
Print Assumptions original_refused_after_bestmove.
Print Assumptions original_refused_after_bestmove_orig.
