(* C10, part 6: every kind of generated move (see InvGen.move_desc) changes the square array in one of the
   two shapes of InvClauses, and meets the side conditions of the clause lemmas there. *)
From Coq Require Import NArith ZArith List Bool Lia ZifyBool ZifyN ZifyNat.
From Clemens Require Import Base.Res Base.Word Pos.Types Att.Attacks Att.Geometry Att.ShiftsProofs Att.SlidingProofs
  Att.LeaperInst Pos.Position Pos.Inv Pos.ZobristProofs Att.AttackersProofs.
From Clemens Require Pos.CapturesProofs.
From Clemens.C10Inv Require Import InvViews InvMake InvGen InvKing InvClauses.
Import ListNotations.
Open Scope N_scope.
Ltac Zify.zify_post_hook ::= Z.to_euclidean_division_equations.

(* ------------------------------------------------------------------------------------------ *)
(* geometry in numbers                                                                          *)

Definition pa_arith (s t : N) : bool :=
  implb (geo_pawn_attack 0 s t) ((t =? s + 7) || (t =? s + 9)) &&
  implb (geo_pawn_attack 1 s t) ((s =? t + 7) || (s =? t + 9)).
Lemma pa_arith_all : forallb (fun s => forallb (pa_arith s) squares) squares = true.
Proof. vm_compute. reflexivity. Qed.

Lemma pawn_attack_arith c s t : s < 64 -> t < 64 -> geo_pawn_attack c s t = true ->
  (c = 0 -> t = s + 7 \/ t = s + 9) /\ (c = 1 -> s = t + 7 \/ s = t + 9).
Proof.
  intros Ls Lt H. pose proof (forall_squares2 _ pa_arith_all s t Ls Lt) as A. unfold pa_arith in A.
  apply andb_true_iff in A. destruct A as [A0 A1]. split; intros ->; [rewrite H in A0 | rewrite H in A1]; cbn in *; lia.
Qed.

Lemma push_white s occ t : s < 64 -> geo_pawn_push 0 s occ t = true ->
  t < 64 /\ N.testbit occ t = false /\
  (t = s + 8 \/ (t = s + 16 /\ 8 <= s < 16 /\ N.testbit occ (s + 8) = false)).
Proof.
  intros Ls. unfold geo_pawn_push, is_square, on_board, sq_fr, pawn_dir, pawn_start_rank. cbn [fst snd N.eqb].
  replace (fr_sq (sq_file s, (sq_rank s + 1)%Z)) with (s + 8) by (unfold fr_sq, sq_file, sq_rank; cbn [fst snd]; lia).
  unfold sq_file, sq_rank. destruct (N.testbit occ t), (N.testbit occ (s + 8)); cbn [negb]; lia.
Qed.

Lemma push_black s occ t : s < 64 -> geo_pawn_push 1 s occ t = true ->
  t < 64 /\ N.testbit occ t = false /\
  (s = t + 8 \/ (s = t + 16 /\ 48 <= s < 56 /\ N.testbit occ (t + 8) = false)).
Proof.
  intros Ls. unfold geo_pawn_push, is_square, on_board, sq_fr, pawn_dir, pawn_start_rank. cbn [fst snd N.eqb].
  intros H.
  assert (Lt : t < 64). { revert H. unfold sq_file, sq_rank. lia. }
  destruct (N.lt_ge_cases s 8) as [L8|G8].
  - revert H. unfold sq_file, sq_rank. destruct (N.testbit occ t); cbn [negb]; lia.
  - revert H.
    replace (fr_sq (sq_file s, (sq_rank s + -1)%Z)) with (s - 8) by (unfold fr_sq, sq_file, sq_rank; cbn [fst snd]; lia).
    destruct (N.eq_dec s (t + 16)) as [->|n].
    + replace (t + 16 - 8) with (t + 8) by lia. unfold sq_file, sq_rank.
      destruct (N.testbit occ t), (N.testbit occ (t + 8)); cbn [negb]; lia.
    + unfold sq_file, sq_rank. destruct (N.testbit occ t), (N.testbit occ (s - 8)); cbn [negb]; lia.
Qed.

Lemma pmwp_cases stm s t m : stm = 0 \/ stm = 1 -> t < 64 -> In m (pawn_move_with_promotion stm s t) ->
  (m = mk_move s t /\ (stm = 0 -> t < 56) /\ (stm = 1 -> 8 <= t)) \/
  (exists pt, In pt promo_types /\ m = mk_promo s t pt /\ (stm = 0 -> 56 <= t) /\ (stm = 1 -> t < 8)).
Proof.
  intros Hs Lt. unfold pawn_move_with_promotion.
  destruct Hs as [-> | ->]; unfold WHITE, BLACK; cbn [N.eqb Pos.eqb andb].
  - destruct (rank_of t =? 7) eqn:E; rewrite rank_of_eq in E; cbn [negb].
    + rewrite in_map_iff. intros (pt & <- & Hpt). right. exists pt. repeat split; auto; lia.
    + intros [<-|[]]. left. repeat split; lia.
  - destruct (rank_of t =? 0) eqn:E; rewrite rank_of_eq in E; cbn [negb].
    + rewrite in_map_iff. intros (pt & <- & Hpt). right. exists pt. repeat split; auto; lia.
    + intros [<-|[]]. left. repeat split; lia.
Qed.

(* ------------------------------------------------------------------------------------------ *)
(* pieces and colours in numbers                                                                *)

Lemma np_white T : new_piece 0 T = T + 1.
Proof. unfold new_piece. lia. Qed.
Lemma np_black T : new_piece 1 T = T + 9.
Proof. unfold new_piece. lia. Qed.

Lemma is_piece_of_spec c pc : is_piece_of c pc = true <-> pc <> 0 /\ pc / 8 = c.
Proof.
  unfold is_piece_of, piece_color, NO_PIECE. rewrite N.shiftr_div_pow2. change (2 ^ 3) with 8.
  rewrite andb_true_iff, negb_true_iff, N.eqb_neq, N.eqb_eq. tauto.
Qed.

Lemma own_new p s T : side p = 0 \/ side p = 1 -> T < 6 -> piece_at p s = new_piece (side p) T -> own p s = true.
Proof.
  intros Hs HT Hpc. unfold own. rewrite Hpc. apply is_piece_of_spec. unfold new_piece. lia.
Qed.

Lemma noking_own p t : side p = 0 \/ side p = 1 -> own p t = false -> piece_at p t <> new_piece (side p) KING.
Proof.
  intros Hs Ho e. assert (X : own p t = true) by (eapply own_new; eauto; reflexivity). congruence.
Qed.

Lemma noking_enemy p t : side p = 0 \/ side p = 1 -> enemy p t = true -> piece_at p t <> new_piece (side p) KING.
Proof.
  intros Hs He e. unfold enemy in He. rewrite e in He.
  destruct Hs as [Es|Es]; rewrite Es in He; vm_compute in He; discriminate.
Qed.

Lemma kings_both p t : side p = 0 \/ side p = 1 ->
  piece_at p t <> new_piece (side p) KING -> piece_at p t <> new_piece (switch_color (side p)) KING ->
  piece_at p t <> 6 /\ piece_at p t <> 14.
Proof. intros [Es|Es]; rewrite Es; cbn; tauto. Qed.

Lemma abs_diff_cases s t : abs_diff s t = 16 -> t = s + 16 \/ s = t + 16.
Proof. unfold abs_diff. destruct (N.ltb_spec s t); lia. Qed.

Lemma ep_after_none p m :
  piece_type (piece_at p (mv_src m)) <> PAWN \/ abs_diff (mv_src m) (mv_dst m) <> 16 -> ep_after p m = SQ_NONE.
Proof.
  intros H. unfold ep_after.
  destruct (N.eqb_spec (piece_type (piece_at p (mv_src m))) PAWN); cbn [andb]; auto.
  destruct (N.eqb_spec (abs_diff (mv_src m) (mv_dst m)) 16); auto. tauto.
Qed.

Lemma ep_ok_none f sd : ep_ok f sd SQ_NONE.
Proof. left. reflexivity. Qed.

(* ------------------------------------------------------------------------------------------ *)
(* [after] by kind                                                                              *)

Lemma after_normal p m x : mv_kind m = NORMAL ->
  after p m x = simple_after (piece_at p) (mv_src m) (mv_dst m) (mv_src m) (piece_at p (mv_src m)) x.
Proof.
  intros Hk. unfold after, base_after, simple_after. rewrite Hk.
  change (NORMAL =? CASTLING) with false. change (NORMAL =? EN_PASSANT) with false.
  change (NORMAL =? PROMOTION) with false. cbv iota.
  destruct (x =? mv_dst m), (x =? mv_src m); reflexivity.
Qed.

Lemma after_promo p m x : mv_kind m = PROMOTION ->
  after p m x = simple_after (piece_at p) (mv_src m) (mv_dst m) (mv_src m) (new_piece (side p) (mv_promo m)) x.
Proof.
  intros Hk. unfold after, base_after, simple_after. rewrite Hk.
  change (PROMOTION =? CASTLING) with false. change (PROMOTION =? EN_PASSANT) with false.
  change (PROMOTION =? PROMOTION) with true. cbv iota.
  destruct (x =? mv_dst m), (x =? mv_src m); reflexivity.
Qed.

Lemma after_ep p m x : mv_kind m = EN_PASSANT -> victim_sq (side p) (mv_dst m) <> mv_dst m ->
  after p m x =
  simple_after (piece_at p) (mv_src m) (mv_dst m) (victim_sq (side p) (mv_dst m)) (piece_at p (mv_src m)) x.
Proof.
  intros Hk Hv. unfold after, base_after, simple_after. rewrite Hk.
  change (EN_PASSANT =? CASTLING) with false. change (EN_PASSANT =? EN_PASSANT) with true. cbv iota.
  destruct (N.eqb_spec x (victim_sq (side p) (mv_dst m))) as [->|n].
  - destruct (N.eqb_spec (victim_sq (side p) (mv_dst m)) (mv_dst m)); [contradiction|].
    destruct (victim_sq (side p) (mv_dst m) =? mv_src m); reflexivity.
  - reflexivity.
Qed.

Lemma after_castle p m x : mv_kind m = CASTLING ->
  rook_src (mv_dst m) <> mv_dst m -> rook_src (mv_dst m) <> mv_src m ->
  after p m x = castle_after (piece_at p) (mv_src m) (mv_dst m) (rook_src (mv_dst m)) (rook_dst (mv_dst m)) x.
Proof.
  intros Hk N1 N2. unfold after, base_after, castle_after. rewrite Hk.
  change (CASTLING =? CASTLING) with true. cbv iota.
  destruct (N.eqb_spec (rook_src (mv_dst m)) (mv_dst m)); [contradiction|].
  destruct (N.eqb_spec (rook_src (mv_dst m)) (mv_src m)); [contradiction|]. reflexivity.
Qed.

(* ------------------------------------------------------------------------------------------ *)
(* what the clause lemmas need from a non-castling move                                         *)

Record simple_move (p : position) (m s t v fp : N) : Prop := {
  SM_s : s < 64;
  SM_t : t < 64;
  SM_src : mv_src m = s;
  SM_dst : mv_dst m = t;
  SM_kind : mv_kind m <> CASTLING;
  SM_after : forall x, after p m x = simple_after (piece_at p) s t v fp x;
  SM_noking : piece_at p t <> 6 /\ piece_at p t <> 14;
  SM_v : v = s \/ (v <> t /\ 24 <= v < 40 /\ (piece_at p v = 1 \/ piece_at p v = 9));
  SM_fp : (fp = 6 <-> piece_at p s = 6) /\ (fp = 14 <-> piece_at p s = 14);
  SM_pawn : fp = 1 \/ fp = 9 -> 8 <= t < 56;
  SM_ep : ep_ok (simple_after (piece_at p) s t v fp) (switch_color (side p)) (ep_after p m);
  SM_ne : s <> t;
  SM_nz : piece_at p s <> 0;
  SM_epv : mv_kind m = EN_PASSANT ->
           v = victim_sq (side p) t /\ v <> s /\ v <> t /\ piece_at p v <> 0
}.

Section Builders.
Variable p : position.
Hypothesis HI : Inv p.

Lemma Hside : side p = 0 \/ side p = 1. Proof. exact (inv_side p HI). Qed.

Lemma Hpawns : pawns_ok (piece_at p).
Proof. apply pawns_read; try apply (inv_parts p HI). Qed.

Lemma empty_of_occ t : t < 64 -> N.testbit (all_pieces p) t = false -> piece_at p t = 0.
Proof.
  intros Lt H. rewrite (occ_spec p (Hwf p HI) (Hag p HI) (Hhe p HI) t Lt) in H. unfold occupied_in in H.
  apply negb_false_iff, N.eqb_eq in H. exact H.
Qed.

(* a piece other than a pawn *)
Lemma sm_piece s t T : s < 64 -> t < 64 -> 1 <= T <= 5 ->
  piece_at p s = new_piece (side p) T -> own p t = false -> attacks_geo p s t = true ->
  simple_move p (mk_move s t) s t s (piece_at p s).
Proof.
  intros Ls Lt HT Hpc Ho Ha.
  pose proof (CapturesProofs.mv_src_mk_move s t Ls Lt) as Esrc.
  pose proof (CapturesProofs.mv_dst_mk_move s t Ls Lt) as Edst.
  pose proof (CapturesProofs.mv_kind_mk_move s t Ls Lt) as Ek.
  assert (Hos : own p s = true) by (eapply own_new; eauto using Hside; lia).
  assert (Hne : s <> t) by (intros ->; congruence).
  assert (Hnz : piece_at p s <> 0) by (rewrite Hpc; unfold new_piece; lia).
  assert (Hepv : mv_kind (mk_move s t) = EN_PASSANT ->
           s = victim_sq (side p) t /\ s <> s /\ s <> t /\ piece_at p s <> 0) by (rewrite Ek; discriminate).
  constructor; auto.
  - rewrite Ek. discriminate.
  - intros x. rewrite (after_normal _ _ _ Ek), Esrc, Edst. reflexivity.
  - apply kings_both; auto using Hside, noking_own. now apply no_king_capture with (s := s).
  - tauto.
  - rewrite Hpc. unfold new_piece. pose proof Hside. lia.
  - rewrite ep_after_none; [apply ep_ok_none|]. left. rewrite Esrc, Hpc.
    destruct Hside as [Es|Es]; rewrite Es; rewrite piece_type_new; unfold PAWN; lia.
Qed.

(* a pawn, not en passant: push or capture, promoting or not *)
Lemma sm_pawn s t m : s < 64 -> t < 64 -> In m (pawn_move_with_promotion (side p) s t) ->
  piece_at p s = new_piece (side p) PAWN ->
  piece_at p t <> 6 /\ piece_at p t <> 14 ->
  (* the geometry: a step forward, or a double step over an empty square *)
  ((side p = 0 -> t = s + 7 \/ t = s + 8 \/ t = s + 9 \/ (t = s + 16 /\ 8 <= s < 16 /\ piece_at p (s + 8) = 0)) /\
   (side p = 1 -> s = t + 7 \/ s = t + 8 \/ s = t + 9 \/ (s = t + 16 /\ 48 <= s < 56 /\ piece_at p (t + 8) = 0))) ->
  exists fp, simple_move p m s t s fp.
Proof.
  intros Ls Lt Hm Hpc Hnk [G0 G1].
  assert (Hs8 : 8 <= s < 56). { apply Hpawns; auto. rewrite Hpc. unfold new_piece, PAWN. pose proof Hside. lia. }
  assert (Hpt : piece_type (piece_at p s) = PAWN).
  { rewrite Hpc. destruct Hside as [Es|Es]; rewrite Es; reflexivity. }
  assert (Hne : s <> t).
  { destruct Hside as [Es|Es]; [specialize (G0 Es)|specialize (G1 Es)]; lia. }
  assert (Hnz : piece_at p s <> 0) by (rewrite Hpc; unfold new_piece; lia).
  destruct (pmwp_cases _ _ _ _ Hside Lt Hm) as [(-> & P0 & P1) | (pt & Hpt' & -> & P0 & P1)].
  - pose proof (CapturesProofs.mv_src_mk_move s t Ls Lt) as Esrc.
    pose proof (CapturesProofs.mv_dst_mk_move s t Ls Lt) as Edst.
    pose proof (CapturesProofs.mv_kind_mk_move s t Ls Lt) as Ek.
    assert (Hepv : mv_kind (mk_move s t) = EN_PASSANT ->
             s = victim_sq (side p) t /\ s <> s /\ s <> t /\ piece_at p s <> 0) by (rewrite Ek; discriminate).
    exists (piece_at p s). constructor; auto.
    + rewrite Ek. discriminate.
    + intros x. rewrite (after_normal _ _ _ Ek), Esrc, Edst. reflexivity.
    + tauto.
    + intros _. destruct Hside as [Es|Es]; [specialize (G0 Es); specialize (P0 Es)|specialize (G1 Es); specialize (P1 Es)]; lia.
    + destruct (N.eq_dec (abs_diff s t) 16) as [e|n].
      * unfold ep_after. rewrite Esrc, Edst, Hpt, e. cbn [N.eqb Pos.eqb PAWN andb].
        apply abs_diff_cases in e.
        destruct Hside as [Es|Es]; rewrite Es in *; cbn [N.eqb BLACK Pos.eqb switch_color].
        -- destruct (G0 eq_refl) as [G|[G|[G|(G & G' & G'')]]]; try lia. subst t.
           apply double_push_white; auto.
        -- destruct (G1 eq_refl) as [G|[G|[G|(G & G' & G'')]]]; try lia. subst s.
           apply double_push_black; auto. lia.
      * rewrite ep_after_none; [apply ep_ok_none|]. right. now rewrite Esrc, Edst.
  - destruct (CapturesProofs.mk_promo_fields s t Ls Lt pt Hpt') as (Edst & Ek & Epr & Esrc).
    assert (Hepv : mv_kind (mk_promo s t pt) = EN_PASSANT ->
             s = victim_sq (side p) t /\ s <> s /\ s <> t /\ piece_at p s <> 0) by (rewrite Ek; discriminate).
    exists (new_piece (side p) pt). constructor; auto.
    + rewrite Ek. discriminate.
    + intros x. rewrite (after_promo _ _ _ Ek), Esrc, Edst, Epr. reflexivity.
    + rewrite Hpc. unfold new_piece, PAWN. pose proof Hside.
      assert (pt = 1 \/ pt = 2 \/ pt = 3 \/ pt = 4) by (cbn in Hpt'; unfold KNIGHT, BISHOP, ROOK, QUEEN in Hpt'; lia).
      lia.
    + unfold new_piece. pose proof Hside.
      assert (pt = 1 \/ pt = 2 \/ pt = 3 \/ pt = 4) by (cbn in Hpt'; unfold KNIGHT, BISHOP, ROOK, QUEEN in Hpt'; lia).
      lia.
    + rewrite ep_after_none; [apply ep_ok_none|]. right. rewrite Esrc, Edst. intros e. apply abs_diff_cases in e.
      destruct Hside as [Es|Es]; [specialize (G0 Es); specialize (P0 Es)|specialize (G1 Es); specialize (P1 Es)]; lia.
Qed.

Lemma sm_push s t m : s < 64 -> t < 64 -> In m (pawn_move_with_promotion (side p) s t) ->
  piece_at p s = new_piece (side p) PAWN -> geo_pawn_push (side p) s (all_pieces p) t = true ->
  exists fp, simple_move p m s t s fp.
Proof.
  intros Ls Lt Hm Hpc Hg.
  assert (Hs8 : 8 <= s < 56). { apply Hpawns; auto. rewrite Hpc. unfold new_piece, PAWN. pose proof Hside. lia. }
  assert (E : piece_at p t = 0 /\
    ((side p = 0 -> t = s + 8 \/ (t = s + 16 /\ 8 <= s < 16 /\ piece_at p (s + 8) = 0)) /\
     (side p = 1 -> s = t + 8 \/ (s = t + 16 /\ 48 <= s < 56 /\ piece_at p (t + 8) = 0)))).
  { destruct Hside as [Es|Es]; rewrite Es in Hg.
    - apply push_white in Hg; auto. destruct Hg as (_ & Z & G). split; [now apply empty_of_occ|].
      split; [|intros; congruence]. intros _. destruct G as [G|(G1 & G2 & G3)]; auto. right.
      repeat split; auto; try lia. apply empty_of_occ; auto. lia.
    - apply push_black in Hg; auto. destruct Hg as (_ & Z & G). split; [now apply empty_of_occ|].
      split; [intros; congruence|]. intros _. destruct G as [G|(G1 & G2 & G3)]; auto. right.
      repeat split; auto; try lia. apply empty_of_occ; auto. lia. }
  destruct E as (Z & G0 & G1).
  apply sm_pawn; auto.
  - rewrite Z. split; discriminate.
  - split; intros Es; [specialize (G0 Es)|specialize (G1 Es)]; tauto.
Qed.

Lemma pawn_geo s t : s < 64 -> piece_at p s = new_piece (side p) PAWN ->
  geo_pawn_attack (side p) s t = true -> attacks_geo p s t = true.
Proof.
  intros Ls Hpc H. unfold attacks_geo. rewrite Hpc. destruct Hside as [Es|Es]; rewrite Es in *; exact H.
Qed.

Lemma sm_pcap s t m : s < 64 -> t < 64 -> In m (pawn_move_with_promotion (side p) s t) ->
  piece_at p s = new_piece (side p) PAWN -> enemy p t = true -> geo_pawn_attack (side p) s t = true ->
  exists fp, simple_move p m s t s fp.
Proof.
  intros Ls Lt Hm Hpc He Hg.
  assert (Hos : own p s = true) by (eapply own_new; eauto using Hside; reflexivity).
  destruct (pawn_attack_arith _ _ _ Ls Lt Hg) as [G0 G1].
  apply sm_pawn; auto.
  - apply kings_both; auto using Hside, noking_enemy.
    apply no_king_capture with (s := s); auto. now apply pawn_geo.
  - split; intros Es; [specialize (G0 Es)|specialize (G1 Es)]; tauto.
Qed.

Lemma sm_ep s : s < 64 -> ep p < 64 ->
  piece_at p s = new_piece (side p) PAWN -> geo_pawn_attack (side p) s (ep p) = true ->
  simple_move p (mk_move_kind s (ep p) EN_PASSANT) s (ep p) (victim_sq (side p) (ep p)) (piece_at p s).
Proof.
  intros Ls Le Hpc Hg. set (t := ep p) in *.
  pose proof (CapturesProofs.mv_kind_ep s t Ls Le) as Ek.
  pose proof (CapturesProofs.mv_dst_ep s t Ls Le) as Edst.
  destruct (decode_simple (mk_move_kind s t EN_PASSANT) s t Ls Le (or_intror (or_intror eq_refl))) as (Esrc & _ & Hnc).
  destruct (pawn_attack_arith _ _ _ Ls Le Hg) as [G0 G1].
  pose proof (ep_read p (proj1 (proj2 (proj2 (proj2 (proj2 (proj2 (proj2 (inv_parts p HI))))))))) as EO.
  fold t in EO.
  assert (V : victim_sq (side p) t <> t /\ 24 <= victim_sq (side p) t < 40 /\
              (piece_at p (victim_sq (side p) t) = 1 \/ piece_at p (victim_sq (side p) t) = 9) /\
              piece_at p t = 0 /\ 8 <= t < 56).
  { unfold victim_sq, ep_ok in *. destruct EO as [EO|[(Es & R & Z & Vi & _)|(Es & R & Z & Vi & _)]]; [lia| |].
    - rewrite Es. cbn [N.eqb WHITE]. unfold sub8. replace ((t + 256 - 8 mod 256) mod 256) with (t - 8) by lia.
      repeat split; auto; lia.
    - destruct (N.eqb_spec (side p) WHITE); [contradiction|]. unfold add8.
      replace ((t + 8) mod 256) with (t + 8) by lia. repeat split; auto; lia. }
  destruct V as (V1 & V2 & V3 & Z & Ht).
  assert (Hne : s <> t).
  { destruct Hside as [Es|Es]; [specialize (G0 Es)|specialize (G1 Es)]; lia. }
  assert (Hnz : piece_at p s <> 0) by (rewrite Hpc; unfold new_piece; lia).
  assert (Hvs : victim_sq (side p) t <> s).
  { clear V1 V3. unfold victim_sq, sub8, add8 in *.
    destruct Hside as [Es|Es]; rewrite Es in *; cbn [N.eqb WHITE Pos.eqb] in *;
      [specialize (G0 eq_refl)|specialize (G1 eq_refl)]; lia. }
  assert (Hvz : piece_at p (victim_sq (side p) t) <> 0) by (destruct V3 as [e|e]; rewrite e; discriminate).
  constructor; auto.
  - intros x. rewrite (after_ep _ _ _ Ek), Esrc, Edst; auto. now rewrite Edst.
  - rewrite Z. split; discriminate.
  - tauto.
  - rewrite ep_after_none; [apply ep_ok_none|]. right. rewrite Esrc, Edst. intros e. apply abs_diff_cases in e.
    destruct Hside as [Es|Es]; [specialize (G0 Es)|specialize (G1 Es)]; lia.
Qed.

(* ------------------------------------------------------------------------------------------ *)
(* the clauses after a non-castling move                                                        *)

Lemma simple_move_clauses m s t v fp cs' :
  simple_move p m s t v fp -> s <> t ->
  rights_sub cs' (castling p) ->
  (forall j, j < 4 -> N.testbit (lost_rights s) j = true \/ N.testbit (lost_rights t) j = true ->
             N.testbit cs' j = false) ->
  kings_ok (after p m) /\ pawns_ok (after p m) /\ rights_ok (after p m) cs' /\
  ep_ok (after p m) (switch_color (side p)) (ep_after p m).
Proof.
  intros [Ls Lt Esrc Edst Hk Haf [NK6 NK14] Hv [F6 F14] Hpw Hep _ _ _] Hne S L.
  destruct (inv_parts p HI) as (Hwf & Hag & _ & Hone & Hnb & Hcc & _).
  pose proof (kings_read p Hwf Hag Hone) as [[k0 K0] [k1 K1]].
  pose proof (rights_read p Hcc) as RO.
  assert (E : forall x, after p m x = simple_after (piece_at p) s t v fp x) by exact Haf.
  split; [|split; [|split]].
  - split.
    + destruct (simple_kings (piece_at p) s t v fp 0 k0) as [k' Hk']; auto; [reflexivity| |].
      { destruct Hv as [->|(V1 & _ & [V|V])]; [left; reflexivity|right|right]; split; auto; rewrite V; discriminate. }
      exists k'. eapply uniq_king_ext; eauto.
    + destruct (simple_kings (piece_at p) s t v fp 1 k1) as [k' Hk']; auto; [reflexivity| |].
      { destruct Hv as [->|(V1 & _ & [V|V])]; [left; reflexivity|right|right]; split; auto; rewrite V; discriminate. }
      exists k'. eapply uniq_king_ext; eauto.
  - eapply pawns_ok_ext; [exact E|]. apply simple_pawns; auto. apply Hpawns.
  - eapply rights_ok_ext; [exact E|]. eapply simple_rights; eauto. tauto.
  - eapply ep_ok_ext; [exact E|]. exact Hep.
Qed.

(* ------------------------------------------------------------------------------------------ *)
(* castling                                                                                     *)

Lemma castle_clauses m ks kt rs rd cs' :
  mv_kind m = CASTLING -> mv_src m = ks -> mv_dst m = kt -> rook_src kt = rs -> rook_dst kt = rd ->
  ks < 64 -> kt < 64 -> rs < 64 -> rd < 64 -> distinct4 ks kt rs rd ->
  (piece_at p ks = 6 \/ piece_at p ks = 14) -> (piece_at p rs = 4 \/ piece_at p rs = 12) ->
  piece_at p kt = 0 -> piece_at p rd = 0 ->
  ((ks < 8 /\ kt < 8 /\ rs < 8 /\ rd < 8 /\ N.testbit cs' 0 = false /\ N.testbit cs' 1 = false) \/
   (56 <= ks /\ 56 <= kt /\ 56 <= rs /\ 56 <= rd /\ N.testbit cs' 2 = false /\ N.testbit cs' 3 = false)) ->
  rights_sub cs' (castling p) ->
  kings_ok (after p m) /\ pawns_ok (after p m) /\ rights_ok (after p m) cs' /\
  ep_ok (after p m) (switch_color (side p)) (ep_after p m).
Proof.
  intros Ek Esrc Edst Ers Erd L1 L2 L3 L4 D HK HR Zk Zr Rk S.
  destruct (inv_parts p HI) as (Hwf & Hag & _ & Hone & Hnb & Hcc & _).
  pose proof (kings_read p Hwf Hag Hone) as [[k0 K0] [k1 K1]].
  pose proof (rights_read p Hcc) as RO.
  assert (E : forall x, after p m x = castle_after (piece_at p) ks kt rs rd x).
  { intros x. destruct D as (D1 & D2 & D3 & D4 & D5 & D6).
    rewrite after_castle; auto; rewrite ?Esrc, ?Edst, ?Ers, ?Erd; auto. }
  split; [|split; [|split]].
  - split.
    + destruct (castle_kings (piece_at p) ks kt rs rd 0 k0) as [k' Hk']; auto; [reflexivity| |].
      { destruct HR as [e|e]; rewrite e; discriminate. }
      exists k'. eapply uniq_king_ext; eauto.
    + destruct (castle_kings (piece_at p) ks kt rs rd 1 k1) as [k' Hk']; auto; [reflexivity| |].
      { destruct HR as [e|e]; rewrite e; discriminate. }
      exists k'. eapply uniq_king_ext; eauto.
  - eapply pawns_ok_ext; [exact E|]. apply castle_pawns; [apply Hpawns| |].
    + destruct HK as [e|e]; rewrite e; split; discriminate.
    + destruct HR as [e|e]; rewrite e; split; discriminate.
  - eapply rights_ok_ext; [exact E|].
    destruct Rk as [(A1 & A2 & A3 & A4 & T0 & T1)|(A1 & A2 & A3 & A4 & T2 & T3)].
    + eapply castle_rights_white; eauto.
    + eapply castle_rights_black; eauto.
  - rewrite ep_after_none; [apply ep_ok_none|]. left. rewrite Esrc.
    destruct HK as [e|e]; rewrite e; discriminate.
Qed.

End Builders.
