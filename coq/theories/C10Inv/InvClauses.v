(* C10, part 5: the board clauses of the invariant read square by square (on a function N -> N giving the
   piece on each square), and how they survive the two shapes of board change MakeMove performs:
   [simple_after] (one piece moves, possibly capturing, promoting, or removing an en-passant victim) and
   [castle_after] (king and rook move). *)
From Coq Require Import NArith ZArith List Bool Lia ZifyBool ZifyN ZifyNat.
From Clemens Require Import Base.Res Base.Word Pos.Types Att.Attacks Att.Geometry Att.ShiftsProofs Att.SlidingProofs
  Att.LeaperInst Pos.Position Pos.Inv Pos.ZobristProofs Att.AttackersProofs.
From Clemens.C10Inv Require Import InvViews InvMake.
Import ListNotations.
Open Scope N_scope.
Ltac Zify.zify_post_hook ::= Z.to_euclidean_division_equations.

(* ------------------------------------------------------------------------------------------ *)
(* the clauses, pointwise                                                                       *)

Definition uniq_king (f : N -> N) (c k : N) : Prop :=
  k < 64 /\ f k = new_piece c KING /\ forall x, x < 64 -> f x = new_piece c KING -> x = k.
Definition kings_ok (f : N -> N) : Prop := (exists k, uniq_king f 0 k) /\ (exists k, uniq_king f 1 k).
Definition pawns_ok (f : N -> N) : Prop := forall x, x < 64 -> f x = 1 \/ f x = 9 -> 8 <= x < 56.
Definition rights_ok (f : N -> N) (cs : N) : Prop :=
  cs < 16 /\
  (N.testbit cs 0 = true -> f E1 = 6 /\ f H1 = 4) /\ (N.testbit cs 1 = true -> f E1 = 6 /\ f A1 = 4) /\
  (N.testbit cs 2 = true -> f E8 = 14 /\ f H8 = 12) /\ (N.testbit cs 3 = true -> f E8 = 14 /\ f A8 = 12).
Definition ep_ok (f : N -> N) (sd e : N) : Prop :=
  e = 64 \/
  (sd = WHITE /\ 40 <= e < 48 /\ f e = 0 /\ f (e - 8) = 9 /\ f (e + 8) = 0) \/
  (sd <> WHITE /\ 16 <= e < 24 /\ f e = 0 /\ f (e + 8) = 1 /\ f (e - 8) = 0).

Lemma uniq_king_ext f g c k : (forall x, g x = f x) -> uniq_king f c k -> uniq_king g c k.
Proof. intros E (A & B & C). split; auto. split; [now rewrite E|]. intros x Hx Hg. rewrite E in Hg. auto. Qed.
Lemma kings_ok_ext f g : (forall x, g x = f x) -> kings_ok f -> kings_ok g.
Proof. intros E [[k0 H0] [k1 H1]]. split; eexists; eapply uniq_king_ext; eauto. Qed.
Lemma pawns_ok_ext f g : (forall x, g x = f x) -> pawns_ok f -> pawns_ok g.
Proof. intros E H x Hx Hg. rewrite E in Hg. auto. Qed.
Lemma rights_ok_ext f g cs : (forall x, g x = f x) -> rights_ok f cs -> rights_ok g cs.
Proof. intros E. unfold rights_ok. rewrite !E. tauto. Qed.
Lemma ep_ok_ext f g sd e : (forall x, g x = f x) -> ep_ok f sd e -> ep_ok g sd e.
Proof. intros E. unfold ep_ok. rewrite !E. tauto. Qed.

(* ------------------------------------------------------------------------------------------ *)
(* boolean clause <-> pointwise clause                                                          *)

Lemma popcount_bit k : k < 64 -> popcount (bit k) = 1.
Proof.
  intros Hk. apply N.eqb_eq. revert k Hk. apply (forall_sq (fun k => popcount (bit k) =? 1)). vm_compute. reflexivity.
Qed.

Lemma single_bit b k : b < two64 -> k < 64 -> (forall s, s < 64 -> N.testbit b s = (s =? k)) -> b = bit k.
Proof.
  intros Hb Hk H. apply N.bits_inj. intros s. destruct (N.lt_ge_cases s 64) as [L|G].
  - rewrite (H s L), (bit_spec _ _ Hk). apply N.eqb_sym.
  - rewrite (testbit_high _ _ Hb G), (testbit_high _ _ (bit_lt k) G). reflexivity.
Qed.

Section Read.
Variable p : position.
Hypothesis Hwf : board_wf p = true.
Hypothesis Hag : bbs_agree p = true.

Lemma kings_read : one_king_each p = true -> kings_ok (piece_at p).
Proof.
  unfold one_king_each. rewrite andb_true_iff, !N.eqb_eq. intros [H0 H1]. split.
  - destruct (king_square p 0 Hwf Hag eq_refl H0) as (k & A & B & C). exists k. split; auto.
  - destruct (king_square p 1 Hwf Hag eq_refl H1) as (k & A & B & C). exists k. split; auto.
Qed.

Lemma king_bb c k : c < 2 -> uniq_king (piece_at p) c k -> popcount (bb_at p c 5) = 1.
Proof.
  intros Hc (Lk & Hk & U). destruct (bb_spec p Hag c 5 Hc eq_refl) as [Hlt Hb].
  rewrite (single_bit _ k Hlt Lk); [now apply popcount_bit|].
  intros s Hs. rewrite (Hb s Hs). destruct (N.eqb_spec s k) as [->|n].
  - now apply N.eqb_eq.
  - apply N.eqb_neq. intros e. apply n. auto.
Qed.

Lemma kings_write : kings_ok (piece_at p) -> one_king_each p = true.
Proof.
  intros [[k0 H0] [k1 H1]]. unfold one_king_each.
  rewrite (king_bb 0 k0 eq_refl H0), (king_bb 1 k1 eq_refl H1). reflexivity.
Qed.

Lemma back_ranks x : x < 64 -> N.testbit (N.lor RankMask1 RankMask8) x = (x <? 8) || (56 <=? x).
Proof.
  intros Hx. apply eqb_prop. revert x Hx.
  apply (forall_sq (fun x => Bool.eqb (N.testbit (N.lor RankMask1 RankMask8) x) ((x <? 8) || (56 <=? x)))).
  vm_compute. reflexivity.
Qed.

Lemma pawn_bits x : x < 64 ->
  N.testbit (N.lor (bb_at p 0 0) (bb_at p 1 0)) x = (piece_at p x =? 1) || (piece_at p x =? 9).
Proof. intros Hx. rewrite N.lor_spec, !(bb_bit p Hag) by (auto; reflexivity). reflexivity. Qed.

Lemma pawns_read : no_back_rank_pawns p = true -> pawns_ok (piece_at p).
Proof.
  unfold no_back_rank_pawns. rewrite N.eqb_eq. intros Z x Hx Hp.
  assert (E : N.testbit (N.land (N.lor (bb_at p 0 0) (bb_at p 1 0)) (N.lor RankMask1 RankMask8)) x = false)
    by (rewrite Z; apply N.bits_0).
  rewrite N.land_spec, (pawn_bits x Hx), (back_ranks x Hx) in E.
  replace ((piece_at p x =? 1) || (piece_at p x =? 9)) with true in E by lia. cbn [andb] in E. lia.
Qed.

Lemma pawns_write : pawns_ok (piece_at p) -> no_back_rank_pawns p = true.
Proof.
  intros H. unfold no_back_rank_pawns. apply N.eqb_eq. apply N.bits_inj. intros x. rewrite N.bits_0, N.land_spec.
  destruct (N.lt_ge_cases x 64) as [L|G].
  - rewrite (pawn_bits x L), (back_ranks x L). specialize (H x L).
    destruct (N.eqb_spec (piece_at p x) 1), (N.eqb_spec (piece_at p x) 9); cbn [orb andb]; auto; lia.
  - rewrite (testbit_high (N.lor _ _) x); auto. apply lor_lt; apply (bb_lt p Hag); reflexivity.
Qed.

End Read.

Lemma rights_read p : castling_consistent p = true -> rights_ok (piece_at p) (castling p).
Proof.
  unfold castling_consistent, rights_ok. rewrite !andb_true_iff, N.ltb_lt, !orb_true_iff, !negb_true_iff, !andb_true_iff, !N.eqb_eq.
  intros ((((A & B) & C) & D) & E). split; [exact A|].
  split; [intros T; rewrite T in B; destruct B as [B|B]; [discriminate|exact B]|].
  split; [intros T; rewrite T in C; destruct C as [C|C]; [discriminate|exact C]|].
  split; [intros T; rewrite T in D; destruct D as [D|D]; [discriminate|exact D]|].
  intros T; rewrite T in E; destruct E as [E|E]; [discriminate|exact E].
Qed.

Lemma rights_write p : rights_ok (piece_at p) (castling p) -> castling_consistent p = true.
Proof.
  unfold castling_consistent, rights_ok. rewrite !andb_true_iff, N.ltb_lt, !orb_true_iff, !negb_true_iff, !andb_true_iff, !N.eqb_eq.
  intros (A & B & C & D & E). repeat split; auto.
  - destruct (N.testbit (castling p) 0); auto.
  - destruct (N.testbit (castling p) 1); auto.
  - destruct (N.testbit (castling p) 2); auto.
  - destruct (N.testbit (castling p) 3); auto.
Qed.

Lemma rank_of_eq e r : (rank_of e =? r) = (8 * r <=? e) && (e <? 8 * r + 8).
Proof. unfold rank_of. rewrite N.shiftr_div_pow2. change (2 ^ 3) with 8. lia. Qed.

Lemma ep_read p : ep_consistent p = true -> ep_ok (piece_at p) (side p) (ep p).
Proof.
  unfold ep_consistent, ep_ok. cbv zeta. rewrite orb_true_iff, N.eqb_eq. intros [H|H]; [left; exact H|right].
  destruct (N.eqb_spec (side p) WHITE) as [e|n].
  - left. rewrite !andb_true_iff, rank_of_eq, !N.eqb_eq in H. split; auto. repeat split; try tauto; lia.
  - right. rewrite !andb_true_iff, rank_of_eq, !N.eqb_eq in H. split; auto. repeat split; try tauto; lia.
Qed.

Lemma ep_write p : ep_ok (piece_at p) (side p) (ep p) -> ep_consistent p = true.
Proof.
  unfold ep_consistent, ep_ok. cbv zeta. rewrite orb_true_iff, N.eqb_eq. intros [H|[H|H]]; [left; exact H| |]; right.
  - destruct H as (-> & H1 & H2 & H3 & H4). rewrite N.eqb_refl, !andb_true_iff, rank_of_eq, !N.eqb_eq.
    repeat split; auto; lia.
  - destruct H as (Hs & H1 & H2 & H3 & H4). apply N.eqb_neq in Hs. rewrite Hs, !andb_true_iff, rank_of_eq, !N.eqb_eq.
    repeat split; auto; lia.
Qed.

(* ------------------------------------------------------------------------------------------ *)
(* castling rights: bits of [lost_rights], bounds                                               *)

Lemma lost_bits sq : sq < 64 ->
  N.testbit (lost_rights sq) 0 = ((sq =? E1) || (sq =? H1)) /\
  N.testbit (lost_rights sq) 1 = ((sq =? E1) || (sq =? A1)) /\
  N.testbit (lost_rights sq) 2 = ((sq =? E8) || (sq =? H8)) /\
  N.testbit (lost_rights sq) 3 = ((sq =? E8) || (sq =? A8)).
Proof.
  intros Hs.
  pose proof (forall_sq (fun sq =>
     Bool.eqb (N.testbit (lost_rights sq) 0) ((sq =? E1) || (sq =? H1)) &&
     Bool.eqb (N.testbit (lost_rights sq) 1) ((sq =? E1) || (sq =? A1)) &&
     Bool.eqb (N.testbit (lost_rights sq) 2) ((sq =? E8) || (sq =? H8)) &&
     Bool.eqb (N.testbit (lost_rights sq) 3) ((sq =? E8) || (sq =? A8))) eq_refl sq Hs) as H.
  cbv beta in H. rewrite !andb_true_iff in H. destruct H as (((A & B) & C) & D).
  repeat split; now apply eqb_prop.
Qed.

Lemma sub_lt16 cs' cs : rights_sub cs' cs -> cs < 16 -> cs' < 16.
Proof.
  intros S H. change 16 with (2 ^ 4) in *.
  destruct (N.eq_dec cs' 0) as [->|n]; [reflexivity|].
  apply N.log2_lt_pow2; [lia|]. pose proof (N.bit_log2 cs' n) as B. apply S in B.
  eapply testbit_bound; eauto.
Qed.

(* ------------------------------------------------------------------------------------------ *)
(* one piece moves: s -> t, the piece arriving is fp, the extra square v is cleared              *)

Definition simple_after (f : N -> N) (s t v fp : N) (x : N) : N :=
  if x =? t then fp else if x =? s then 0 else if x =? v then 0 else f x.

Ltac eqb_cases :=
  repeat match goal with
  | |- context [N.eqb ?a ?b] => destruct (N.eqb_spec a b)
  | H : context [N.eqb ?a ?b] |- _ => destruct (N.eqb_spec a b)
  end.

Lemma king_nz c : c < 2 -> new_piece c KING <> 0.
Proof. unfold new_piece, KING. lia. Qed.

Lemma simple_kings f s t v fp c k :
  c < 2 -> uniq_king f c k -> s < 64 -> t < 64 -> s <> t ->
  f t <> new_piece c KING -> (v = s \/ (v <> t /\ f v <> new_piece c KING)) ->
  (fp = new_piece c KING <-> f s = new_piece c KING) ->
  exists k', uniq_king (simple_after f s t v fp) c k'.
Proof.
  intros Hc (Lk & Hk & U) Ls Lt Hne Ht Hv Hfp. pose proof (king_nz c Hc) as NZ.
  destruct (N.eq_dec (f s) (new_piece c KING)) as [e|n].
  - assert (s = k) by auto. subst k. exists t. split; auto. split.
    + unfold simple_after. rewrite N.eqb_refl. now apply Hfp.
    + intros x Lx. unfold simple_after. eqb_cases; auto; try congruence.
      intros Hx. apply U in Hx; auto. congruence.
  - assert (fp <> new_piece c KING) by tauto.
    assert (k <> t) by congruence. assert (k <> s) by congruence.
    assert (k <> v). { destruct Hv as [->|[_ Hv]]; congruence. }
    exists k. split; auto. split.
    + unfold simple_after. eqb_cases; auto; congruence.
    + intros x Lx. unfold simple_after. eqb_cases; auto; congruence.
Qed.

Lemma simple_pawns f s t v fp :
  pawns_ok f -> (fp = 1 \/ fp = 9 -> 8 <= t < 56) -> pawns_ok (simple_after f s t v fp).
Proof.
  intros H Hfp x Lx. unfold simple_after. eqb_cases; subst; auto; lia.
Qed.

Lemma simple_rights f s t v fp cs cs' :
  rights_ok f cs -> rights_sub cs' cs ->
  (forall j, j < 4 -> N.testbit (lost_rights s) j = true \/ N.testbit (lost_rights t) j = true ->
             N.testbit cs' j = false) ->
  s < 64 -> t < 64 -> (v = s \/ 24 <= v < 40) ->
  rights_ok (simple_after f s t v fp) cs'.
Proof.
  intros (Hlt & R0 & R1 & R2 & R3) S L Ls Lt Hv.
  destruct (lost_bits s Ls) as (A0 & A1' & A2 & A3). destruct (lost_bits t Lt) as (B0 & B1 & B2 & B3).
  assert (X : forall j a b c0 c1, j < 4 -> N.testbit cs' j = true ->
            N.testbit (lost_rights s) j = ((s =? a) || (s =? b)) ->
            N.testbit (lost_rights t) j = ((t =? a) || (t =? b)) ->
            (a < 8 \/ 56 <= a) -> (b < 8 \/ 56 <= b) ->
            (N.testbit cs j = true -> f a = c0 /\ f b = c1) ->
            simple_after f s t v fp a = c0 /\ simple_after f s t v fp b = c1).
  { intros j a b c0 c1 Hj T As At Ha Hb R.
    specialize (R (S _ T)).
    assert (Zs : N.testbit (lost_rights s) j = false).
    { destruct (N.testbit (lost_rights s) j) eqn:Z; auto. rewrite (L j Hj (or_introl Z)) in T. discriminate. }
    assert (Zt : N.testbit (lost_rights t) j = false).
    { destruct (N.testbit (lost_rights t) j) eqn:Z; auto. rewrite (L j Hj (or_intror Z)) in T. discriminate. }
    rewrite Zs in As. rewrite Zt in At.
    assert (s <> a /\ s <> b /\ t <> a /\ t <> b) as (N1 & N2 & N3 & N4) by lia.
    clear A0 A1' A2 A3 B0 B1 B2 B3 As At Zs Zt L S.
    unfold simple_after. destruct R as [<- <-].
    replace (a =? t) with false by lia. replace (a =? s) with false by lia.
    replace (b =? t) with false by lia. replace (b =? s) with false by lia.
    replace (a =? v) with false by lia. replace (b =? v) with false by lia. auto. }
  split; [eapply sub_lt16; eauto|].
  split; [intros T; apply (X 0 E1 H1 6 4); auto; unfold E1, H1; lia|].
  split; [intros T; apply (X 1 E1 A1 6 4); auto; unfold E1, A1; lia|].
  split; [intros T; apply (X 2 E8 H8 14 12); auto; unfold E8, H8; lia|].
  intros T; apply (X 3 E8 A8 14 12); auto; unfold E8, A8; lia.
Qed.

(* ------------------------------------------------------------------------------------------ *)
(* castling: king ks -> kt, rook rs -> rd                                                       *)

Definition castle_after (f : N -> N) (ks kt rs rd : N) (x : N) : N :=
  if x =? rd then f rs else if x =? rs then 0 else if x =? kt then f ks else if x =? ks then 0 else f x.

Definition distinct4 (a b c d : N) : Prop := a <> b /\ a <> c /\ a <> d /\ b <> c /\ b <> d /\ c <> d.

Lemma castle_kings f ks kt rs rd c k :
  c < 2 -> uniq_king f c k -> ks < 64 -> kt < 64 -> rs < 64 -> rd < 64 -> distinct4 ks kt rs rd ->
  f kt = 0 -> f rd = 0 -> f rs <> new_piece c KING ->
  exists k', uniq_king (castle_after f ks kt rs rd) c k'.
Proof.
  intros Hc (Lk & Hk & U) L1 L2 L3 L4 (D1 & D2 & D3 & D4 & D5 & D6) Z1 Z2 NR. pose proof (king_nz c Hc) as NZ.
  destruct (N.eq_dec (f ks) (new_piece c KING)) as [e|n].
  - assert (ks = k) by auto. subst k. exists kt. split; auto. split.
    + unfold castle_after. eqb_cases; try congruence.
    + intros x Lx. unfold castle_after. eqb_cases; auto; try congruence.
      intros Hx. apply U in Hx; auto. congruence.
  - assert (k <> ks) by congruence. assert (k <> kt) by congruence.
    assert (k <> rs) by congruence. assert (k <> rd) by congruence.
    exists k. split; auto. split.
    + unfold castle_after. eqb_cases; auto; congruence.
    + intros x Lx. unfold castle_after. eqb_cases; auto; congruence.
Qed.

Lemma castle_pawns f ks kt rs rd :
  pawns_ok f -> (f ks <> 1 /\ f ks <> 9) -> (f rs <> 1 /\ f rs <> 9) -> pawns_ok (castle_after f ks kt rs rd).
Proof.
  intros H [K1 K2] [R1 R2] x Lx. unfold castle_after. eqb_cases; subst; auto; lia.
Qed.

(* white castles: everything happens on rank 1 and both white rights are gone *)
Lemma castle_rights_white f ks kt rs rd cs cs' :
  rights_ok f cs -> rights_sub cs' cs -> N.testbit cs' 0 = false -> N.testbit cs' 1 = false ->
  ks < 8 -> kt < 8 -> rs < 8 -> rd < 8 ->
  rights_ok (castle_after f ks kt rs rd) cs'.
Proof.
  intros (Hlt & R0 & R1 & R2 & R3) S T0 T1 L1 L2 L3 L4.
  split; [eapply sub_lt16; eauto|]. split; [congruence|]. split; [congruence|].
  unfold castle_after, E8, H8, A8. split; intros T; apply S in T.
  - destruct (R2 T). eqb_cases; try lia. auto.
  - destruct (R3 T). eqb_cases; try lia. auto.
Qed.

Lemma castle_rights_black f ks kt rs rd cs cs' :
  rights_ok f cs -> rights_sub cs' cs -> N.testbit cs' 2 = false -> N.testbit cs' 3 = false ->
  56 <= ks -> 56 <= kt -> 56 <= rs -> 56 <= rd ->
  rights_ok (castle_after f ks kt rs rd) cs'.
Proof.
  intros (Hlt & R0 & R1 & R2 & R3) S T2 T3 L1 L2 L3 L4.
  split; [eapply sub_lt16; eauto|].
  unfold castle_after, E1, H1, A1. split; [|split; [|split; congruence]]; intros T; apply S in T.
  - destruct (R0 T). eqb_cases; try lia. auto.
  - destruct (R1 T). eqb_cases; try lia. auto.
Qed.

(* ------------------------------------------------------------------------------------------ *)
(* a double pawn push leaves a consistent en-passant square                                     *)

Lemma double_push_white f s fp :
  8 <= s < 16 -> f (s + 8) = 0 -> fp = 1 ->
  ep_ok (simple_after f s (s + 16) s fp) BLACK (sub8 (s + 16) 8).
Proof.
  intros Hs Hm Hfp. right. right. unfold sub8.
  replace ((s + 16 + 256 - 8 mod 256) mod 256) with (s + 8) by lia.
  split; [discriminate|]. split; [lia|]. unfold simple_after.
  replace (s + 8 + 8) with (s + 16) by lia. replace (s + 8 - 8) with s by lia.
  rewrite !N.eqb_refl. replace (s + 8 =? s + 16) with false by lia. replace (s + 8 =? s) with false by lia.
  replace (s =? s + 16) with false by lia. auto.
Qed.

Lemma double_push_black f t fp :
  32 <= t < 40 -> f (t + 8) = 0 -> fp = 9 ->
  ep_ok (simple_after f (t + 16) t (t + 16) fp) WHITE (add8 t 8).
Proof.
  intros Ht Hm Hfp. right. left. unfold add8.
  replace ((t + 8) mod 256) with (t + 8) by lia.
  split; [reflexivity|]. split; [lia|]. unfold simple_after.
  replace (t + 8 + 8) with (t + 16) by lia. replace (t + 8 - 8) with t by lia.
  rewrite !N.eqb_refl. replace (t + 8 =? t) with false by lia. replace (t + 8 =? t + 16) with false by lia.
  replace (t + 16 =? t) with false by lia. auto.
Qed.
