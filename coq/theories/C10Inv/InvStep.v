(* C10: the invariant is preserved by every generated move except possibly for the clause "the side that
   just moved is not in check" ([gen_step_nocheck]); legal moves are those whose successor meets that clause
   too, so legal moves preserve the whole invariant ([inv_step]). *)
From Coq Require Import NArith ZArith List Bool Lia ZifyBool ZifyN ZifyNat.
From Clemens Require Import Base.Res Base.Word Pos.Types Att.Attacks Att.Geometry Att.ShiftsProofs Att.SlidingProofs
  Att.LeaperInst Pos.Position Pos.Inv Pos.ZobristProofs Att.AttackersProofs.
From Clemens Require Pos.CapturesProofs.
From Clemens.C10Inv Require Import InvViews InvMake InvGen InvKing InvClauses InvMoves.
Import ListNotations.
Open Scope N_scope.
Ltac Zify.zify_post_hook ::= Z.to_euclidean_division_equations.

Lemma base_after_other p m x : x <> mv_dst m -> x <> mv_src m -> base_after p m x = piece_at p x.
Proof.
  intros N1 N2. unfold base_after.
  destruct (N.eqb_spec x (mv_dst m)); [contradiction|]. destruct (N.eqb_spec x (mv_src m)); [contradiction|]. reflexivity.
Qed.

(* what a generated move does to the board clauses, for whatever rights survive *)
Definition step_clauses (p : position) (m : N) : Prop :=
  (mv_kind m = CASTLING -> base_after p m (rook_dst (mv_dst m)) = 0) /\
  (forall cs', mv_src m <> mv_dst m -> rights_sub cs' (castling p) ->
     (forall j, j < 4 -> N.testbit (lost_rights (mv_src m)) j = true \/ N.testbit (lost_rights (mv_dst m)) j = true ->
                N.testbit cs' j = false) ->
     kings_ok (after p m) /\ pawns_ok (after p m) /\ rights_ok (after p m) cs' /\
     ep_ok (after p m) (switch_color (side p)) (ep_after p m)).

Lemma step_simple p m s t v fp : Inv p -> simple_move p m s t v fp -> step_clauses p m.
Proof.
  intros HI SM. split.
  - intros Ek. destruct (SM_kind _ _ _ _ _ _ SM Ek).
  - intros cs' Hne S L. rewrite (SM_src _ _ _ _ _ _ SM), (SM_dst _ _ _ _ _ _ SM) in *.
    eapply simple_move_clauses; eauto.
Qed.

Ltac closed := vm_compute; reflexivity.

Lemma step_castle p m : Inv p -> castle_case p m -> step_clauses p m.
Proof.
  intros HI CC.
  pose proof (rights_read p (proj1 (proj2 (proj2 (proj2 (proj2 (proj2 (inv_parts p HI)))))))) as (_ & R0 & R1 & R2 & R3).
  destruct CC as [(Es & -> & T & Z1 & Z2) | [(Es & -> & T & Z1 & Z2 & Z3) | [(Es & -> & T & Z1 & Z2) | (Es & -> & T & Z1 & Z2 & Z3)]]].
  - destruct (R0 T) as [HK HR]. split.
    + intros _. rewrite base_after_other; [exact Z1 | vm_compute; discriminate | vm_compute; discriminate].
    + intros cs' Hne S L. apply (castle_clauses p HI _ E1 G1 H1 F1 cs'); auto; try closed.
      * unfold distinct4. repeat split; discriminate.
      * left. split; [closed|]. split; [closed|]. split; [closed|]. split; [closed|].
        split; [apply (L 0)|apply (L 1)]; try closed; left; closed.
  - destruct (R1 T) as [HK HR]. split.
    + intros _. rewrite base_after_other; [exact Z1 | vm_compute; discriminate | vm_compute; discriminate].
    + intros cs' Hne S L. apply (castle_clauses p HI _ E1 C1 A1 D1 cs'); auto; try closed.
      * unfold distinct4. repeat split; discriminate.
      * left. split; [closed|]. split; [closed|]. split; [closed|]. split; [closed|].
        split; [apply (L 0)|apply (L 1)]; try closed; left; closed.
  - destruct (R2 T) as [HK HR]. split.
    + intros _. rewrite base_after_other; [exact Z1 | vm_compute; discriminate | vm_compute; discriminate].
    + intros cs' Hne S L. apply (castle_clauses p HI _ E8 G8 H8 F8 cs'); auto; try closed.
      * unfold distinct4. repeat split; discriminate.
      * right. split; [vm_compute; discriminate|]. split; [vm_compute; discriminate|].
        split; [vm_compute; discriminate|]. split; [vm_compute; discriminate|].
        split; [apply (L 2)|apply (L 3)]; try closed; left; closed.
  - destruct (R3 T) as [HK HR]. split.
    + intros _. rewrite base_after_other; [exact Z1 | vm_compute; discriminate | vm_compute; discriminate].
    + intros cs' Hne S L. apply (castle_clauses p HI _ E8 C8 A8 D8 cs'); auto; try closed.
      * unfold distinct4. repeat split; discriminate.
      * right. split; [vm_compute; discriminate|]. split; [vm_compute; discriminate|].
        split; [vm_compute; discriminate|]. split; [vm_compute; discriminate|].
        split; [apply (L 2)|apply (L 3)]; try closed; left; closed.
Qed.

Lemma step_desc p m : Inv p -> move_desc p m -> step_clauses p m.
Proof.
  intros HI [s t T Ls Lt -> HT Hpc Ho Ha | s t Ls Lt Hm Hpc Hg | s t Ls Lt Hm Hpc He Hg | s Ls Le -> Hpc Hg | CC].
  - eapply step_simple; eauto. eapply sm_piece; eauto.
  - destruct (sm_push p HI s t m Ls Lt Hm Hpc Hg) as [fp SM]. eapply step_simple; eauto.
  - destruct (sm_pcap p HI s t m Ls Lt Hm Hpc He Hg) as [fp SM]. eapply step_simple; eauto.
  - eapply step_simple; eauto. eapply sm_ep; eauto.
  - now apply step_castle.
Qed.

Section Step.
Variable K : zkeys.

(* every generated move leads to a position satisfying all clauses but "mover not in check" *)
Theorem gen_step_nocheck p ms m q :
  Inv p -> gen_moves p = Ok ms -> In m ms -> make_move K p m = Ok q -> inv_nocheck_b q = true.
Proof.
  intros HI G Hin M.
  pose proof (gen_moves_desc p HI ms m G Hin) as D.
  destruct (step_desc p m HI D) as [CH CL].
  destruct (inv_parts p HI) as (Hwf & Hag & _ & _ & _ & _ & _ & Hsc & _).
  apply scalars_ok_spec in Hsc. destruct Hsc as (Hside & Hh & Hp & _).
  assert (Hs2 : side p < 2) by (destruct Hside as [-> | ->]; reflexivity).
  destruct (make_move_views K p m q (proj1 (board_wf_iff p) Hwf) (proj1 (bbs_agree_iff p) Hag) Hs2 CH M)
    as (BOq & BBq & Hhq & _ & Hne & PA & Sq & Pq & Hq & RS & RL & Eq).
  destruct (CL (castling q) Hne RS RL) as (CK & CP & CR & CE).
  assert (Hwfq : board_wf q = true) by now apply board_wf_iff.
  assert (Hagq : bbs_agree q = true) by now apply bbs_agree_iff.
  unfold inv_nocheck_b. rewrite Hwfq, Hagq, Hhq. cbn [andb].
  rewrite (kings_write q Hagq (kings_ok_ext _ _ PA CK)).
  rewrite (pawns_write q Hagq (pawns_ok_ext _ _ PA CP)).
  rewrite (rights_write q (rights_ok_ext _ _ _ PA CR)). cbn [andb].
  assert (EO : ep_ok (piece_at q) (side q) (ep q)).
  { rewrite Sq, Eq. eapply ep_ok_ext; eauto. }
  rewrite (ep_write q EO). cbn [andb].
  unfold scalars_ok. rewrite !andb_true_iff, orb_true_iff, !N.eqb_eq, !N.ltb_lt, N.leb_le.
  repeat split.
  - rewrite Sq. destruct Hside as [-> | ->]; cbn; auto.
  - destruct Hq as [-> | ->]; [reflexivity|]. unfold add8. lia.
  - rewrite Pq. unfold add8. lia.
  - rewrite Eq. rewrite Eq in EO. unfold ep_ok in EO. lia.
Qed.

(* the successors the legality filter keeps *)
Lemma legal_fold_kept p ms : forall ls m,
  fold_right (fun m acc => l <- acc ;; q <- make_move K p m ;; ok <- is_legal q ;; Ok (if ok then m :: l else l))
             (Ok []) ms = Ok ls ->
  In m ls -> In m ms /\ exists q, make_move K p m = Ok q /\ is_legal q = Ok true.
Proof.
  induction ms as [|x ms IH]; cbn [fold_right]; intros ls m H Hin.
  - injection H as <-. destruct Hin.
  - bind_inv H. rename a into l. bind_inv H. rename a into qx. bind_inv H. rename a into ok. injection H as <-.
    destruct ok.
    + destruct Hin as [<-|Hin].
      * split; [now left|]. exists qx. auto.
      * destruct (IH _ _ E Hin) as [I X]. split; [now right|exact X].
    + destruct (IH _ _ E Hin) as [I X]. split; [now right|exact X].
Qed.

Lemma legal_moves_kept p ls m : legal_moves K p = Ok ls -> In m ls ->
  exists ms q, gen_moves p = Ok ms /\ In m ms /\ make_move K p m = Ok q /\ is_legal q = Ok true.
Proof.
  unfold legal_moves. intros H Hin. bind_inv H. rename a into ms.
  destruct (legal_fold_kept _ _ _ _ H Hin) as [I (q & Mq & Lq)]. exists ms, q. auto.
Qed.

(* C10: legal moves preserve the invariant *)
Theorem inv_step p m q ls :
  Inv p -> legal_moves K p = Ok ls -> In m ls -> make_move K p m = Ok q -> Inv q.
Proof.
  intros HI L Hin M. destruct (legal_moves_kept _ _ _ L Hin) as (ms & q' & G & Hin' & M' & Lq).
  rewrite M in M'. injection M' as <-.
  pose proof (gen_step_nocheck p ms m q HI G Hin' M) as NC.
  unfold Inv, inv_b. unfold inv_nocheck_b in NC. rewrite NC. cbn [andb].
  unfold mover_not_in_check. unfold is_legal in Lq. bind_inv Lq. rewrite E. injection Lq as Lq.
  destruct a; [discriminate|reflexivity].
Qed.

End Step.
