(* C10, part 2: MakeMove, stage by stage, on the views.  For ANY move word: if the board views agree before,
   the rook's destination of a castling move is empty, and MakeMove succeeds, then the views agree afterwards
   and the new square array, rights, en-passant square, side and counters are given by closed formulas
   ([after], ...).  No hash, no key-table assumption. *)
From Coq Require Import NArith ZArith List Bool Lia ZifyBool ZifyN ZifyNat.
From Clemens Require Import Base.Res Base.Word Pos.Types Att.Attacks Att.ShiftsProofs Pos.Position Pos.Inv
  Pos.ZobristProofs.
From Clemens.C10Inv Require Import InvViews.
Import ListNotations.
Open Scope N_scope.

(* ------------------------------------------------------------------------------------------ *)
(* the square array after a move, square by square                                              *)

Definition victim_sq (stm t : N) : N := if stm =? WHITE then sub8 t 8 else add8 t 8.

Definition base_after (p : position) (m : N) (x : N) : N :=
  if x =? mv_dst m then piece_at p (mv_src m) else if x =? mv_src m then 0 else piece_at p x.

Definition after (p : position) (m : N) (x : N) : N :=
  let t := mv_dst m in
  if mv_kind m =? CASTLING then
    (if x =? rook_dst t then base_after p m (rook_src t) else if x =? rook_src t then 0 else base_after p m x)
  else if mv_kind m =? EN_PASSANT then
    (if x =? victim_sq (side p) t then 0 else base_after p m x)
  else if mv_kind m =? PROMOTION then
    (if x =? t then new_piece (side p) (mv_promo m) else base_after p m x)
  else base_after p m x.

Definition ep_after (p : position) (m : N) : N :=
  if (piece_type (piece_at p (mv_src m)) =? PAWN) && (abs_diff (mv_src m) (mv_dst m) =? 16)
  then (if side p =? BLACK then add8 (mv_dst m) 8 else sub8 (mv_dst m) 8) else SQ_NONE.

Definition rights_sub (cs' cs : N) : Prop := forall j, N.testbit cs' j = true -> N.testbit cs j = true.

Lemma rights_sub_refl cs : rights_sub cs cs.
Proof. intros j H. exact H. Qed.
Lemma rights_sub_trans a b c : rights_sub a b -> rights_sub b c -> rights_sub a c.
Proof. intros H1 H2 j H. auto. Qed.

Lemma land_zero_mono X a b : rights_sub b a -> N.land X a = 0 -> N.land X b = 0.
Proof.
  intros S H. apply N.bits_inj. intros j. rewrite N.land_spec, N.bits_0.
  assert (E : N.testbit (N.land X a) j = false) by (rewrite H; apply N.bits_0). rewrite N.land_spec in E.
  destruct (N.testbit X j); auto. cbn in *. destruct (N.testbit b j) eqn:B; auto. apply S in B. congruence.
Qed.

Lemma rights_sub_ldiff cs c : rights_sub (N.ldiff cs c) cs.
Proof. intros j. rewrite N.ldiff_spec, andb_true_iff. tauto. Qed.

Definition same_views (p q : position) : Prop := bbs q = bbs p /\ board q = board p.

Section Make.
Variable K : zkeys.

(* ------------------------------------------------------------------------------------------ *)
(* revoke                                                                                       *)

Definition rstep (lost : N) (q : position) (ci : N * nat) : res position :=
  let '(c, i) := ci in
  if negb (N.land (N.land lost c) (castling q) =? 0) then
    k <- key_castling_idx K i ;;
    Ok (toggle (set_castling q (N.ldiff (castling q) c)) k)
  else Ok q.

Definition rframe (p q : position) : Prop :=
  same_views p q /\ side q = side p /\ ep q = ep p /\ hmc q = hmc p /\ ply q = ply p /\
  rights_sub (castling q) (castling p).

Lemma rframe_refl p : rframe p p.
Proof. repeat split. apply rights_sub_refl. Qed.
Lemma rframe_trans p q r : rframe p q -> rframe q r -> rframe p r.
Proof.
  intros ((A1 & A2) & A3 & A4 & A5 & A6 & A7) ((B1 & B2) & B3 & B4 & B5 & B6 & B7).
  repeat split; try congruence. eapply rights_sub_trans; eauto.
Qed.

Lemma rstep_spec lost q c i q' : rstep lost q (c, i) = Ok q' ->
  rframe q q' /\ N.land (N.land lost c) (castling q') = 0.
Proof.
  unfold rstep. destruct (N.land (N.land lost c) (castling q) =? 0) eqn:E; cbn [negb].
  - intros [= <-]. split; [apply rframe_refl|]. now apply N.eqb_eq.
  - intros H. bind_inv H. injection H as <-. cbn. split.
    + repeat split. apply rights_sub_ldiff.
    + apply N.bits_inj. intros j. rewrite !N.land_spec, N.ldiff_spec, N.bits_0.
      destruct (N.testbit lost j), (N.testbit c j), (N.testbit (castling q) j); reflexivity.
Qed.

Lemma revoke_fold lost l : forall p q,
  fold_left (fun acc ci => q <- acc ;; rstep lost q ci) l (Ok p) = Ok q ->
  rframe p q /\ forall c i, In (c, i) l -> N.land (N.land lost c) (castling q) = 0.
Proof.
  induction l as [|[c i] l IH]; intros p q H.
  - cbn in H. injection H as <-. split; [apply rframe_refl|]. intros c i [].
  - cbn [fold_left bind] in H. destruct (rstep lost p (c, i)) as [p1| |] eqn:E.
    + destruct (rstep_spec _ _ _ _ _ E) as [F1 Z1]. destruct (IH _ _ H) as [F2 Z2].
      split; [eapply rframe_trans; eauto|]. intros c' i' [e|Hin]; [|eauto].
      injection e as <- <-. eapply land_zero_mono; [|exact Z1]. apply F2.
    + exfalso. eapply fold_bind_fail; [|exact H]. discriminate.
    + exfalso. eapply fold_bind_fail; [|exact H]. discriminate.
Qed.

Lemma pow2_bit_zero lost j cs : N.land (N.land lost (2 ^ j)) cs = 0 -> N.testbit lost j = true -> N.testbit cs j = false.
Proof.
  intros Z T. assert (E : N.testbit (N.land (N.land lost (2 ^ j)) cs) j = false) by (rewrite Z; apply N.bits_0).
  rewrite !N.land_spec, T, N.pow2_bits_true in E. exact E.
Qed.

Lemma revoke_spec p sq q : revoke K p sq = Ok q ->
  rframe p q /\
  (forall j, j < 4 -> N.testbit (lost_rights sq) j = true -> N.testbit (castling q) j = false).
Proof.
  intros R. change (revoke K p sq) with
    (fold_left (fun acc ci => q <- acc ;; rstep (lost_rights sq) q ci) castling_list (Ok p)) in R.
  apply revoke_fold in R. destruct R as [F Z]. split; auto. intros j Hj T.
  assert (j = 0 \/ j = 1 \/ j = 2 \/ j = 3) as [-> | [-> | [-> | ->]]] by lia.
  - apply (pow2_bit_zero (lost_rights sq) 0); auto. apply (Z WK 0%nat). cbn; tauto.
  - apply (pow2_bit_zero (lost_rights sq) 1); auto. apply (Z WQ 1%nat). cbn; tauto.
  - apply (pow2_bit_zero (lost_rights sq) 2); auto. apply (Z BK 2%nat). cbn; tauto.
  - apply (pow2_bit_zero (lost_rights sq) 3); auto. apply (Z BQ 3%nat). cbn; tauto.
Qed.

(* ------------------------------------------------------------------------------------------ *)
(* the scalar stages                                                                            *)

Lemma st_ep_fields p p1 : st_ep K p = Ok p1 ->
  same_views p p1 /\ side p1 = side p /\ castling p1 = castling p /\ hmc p1 = hmc p /\ ply p1 = ply p /\
  ep p1 = SQ_NONE.
Proof.
  unfold st_ep. destruct (ep p =? SQ_NONE) eqn:E; cbn [negb].
  - intros [= <-]. apply N.eqb_eq in E. repeat split; auto.
  - intros H. bind_inv H. injection H as <-. repeat split.
Qed.

Lemma st_pawn_fields stm p piece s t reset q reset' : st_pawn K stm p piece s t reset = Ok (q, reset') ->
  same_views p q /\ side q = side p /\ castling q = castling p /\ hmc q = hmc p /\ ply q = ply p /\
  ep q = (if (piece_type piece =? PAWN) && (abs_diff s t =? 16)
          then (if stm =? BLACK then add8 t 8 else sub8 t 8) else ep p).
Proof.
  unfold st_pawn. destruct (piece_type piece =? PAWN); cbn [andb].
  - destruct (abs_diff s t =? 16).
    + intros H. bind_inv H. injection H as <- <-. repeat split.
    + intros [= <- <-]. repeat split.
  - intros [= <- <-]. repeat split.
Qed.

Lemma get_piece_at p sq pc : get_piece p sq = Ok pc -> piece_at p sq = pc.
Proof. unfold get_piece, piece_at. intros H. apply nth_res_ok in H. eapply nth_error_nth; eauto. Qed.

Lemma same_views_ok p q : same_views p q ->
  (board_ok p -> board_ok q) /\ (bbs_ok p -> bbs_ok q) /\ (forall x, piece_at q x = piece_at p x).
Proof. intros [A B]. now apply views_ext. Qed.

Lemma promo_piece_valid stm m : stm < 2 -> valid_piece (new_piece stm (mv_promo m)) = true.
Proof.
  intros Hs. unfold mv_promo.
  assert (N.land (N.shiftr m 14) 3 < 4). { change 3 with (N.ones 2). rewrite N.land_ones. apply N.mod_lt. discriminate. }
  unfold valid_piece, new_piece. lia.
Qed.

(* ------------------------------------------------------------------------------------------ *)
(* MakeMove                                                                                     *)

Theorem make_move_views p m q :
  board_ok p -> bbs_ok p -> side p < 2 ->
  (mv_kind m = CASTLING -> base_after p m (rook_dst (mv_dst m)) = 0) ->
  make_move K p m = Ok q ->
  board_ok q /\ bbs_ok q /\ helpers_agree q = true /\
  valid_piece (piece_at p (mv_src m)) = true /\ mv_src m <> mv_dst m /\
  (forall x, piece_at q x = after p m x) /\
  side q = switch_color (side p) /\ ply q = add8 (ply p) 1 /\ (hmc q = 0 \/ hmc q = add8 (hmc p) 1) /\
  rights_sub (castling q) (castling p) /\
  (forall j, j < 4 -> N.testbit (lost_rights (mv_src m)) j = true \/ N.testbit (lost_rights (mv_dst m)) j = true ->
             N.testbit (castling q) j = false) /\
  ep q = ep_after p m.
Proof.
  intros BO BB Hside CH M. rewrite make_move_stages in M.
  set (s := mv_src m) in *. set (t := mv_dst m) in *.
  (* clear en passant *)
  bind_inv M. rename a into p1. destruct (st_ep_fields _ _ E) as (V1 & S1 & Cs1 & Hm1 & P1 & E1).
  destruct (same_views_ok _ _ V1) as (BO1 & BB1 & PA1). specialize (BO1 BO). specialize (BB1 BB).
  (* capture *)
  bind_inv M. rename a into target. apply get_piece_at in E0. rewrite PA1 in E0.
  bind_inv M. destruct a as [p2 reset].
  assert (X2 : board_ok p2 /\ bbs_ok p2 /\ (forall x, piece_at p2 x = if x =? t then 0 else piece_at p x) /\
               same_sc p1 p2).
  { unfold st_cap in E2. destruct (target =? NO_PIECE) eqn:ET; cbn [negb] in E2.
    - injection E2 as <- <-. apply N.eqb_eq in ET. split; [exact BO1|]. split; [exact BB1|].
      split; [|apply same_sc_refl].
      intros x. rewrite PA1. destruct (N.eqb_spec x t) as [->|]; auto. rewrite E0, ET. reflexivity.
    - bind_inv E2. destruct a as [p2' pc]. injection E2 as <- <-. cbn [fst].
      destruct (delete_views _ _ _ _ _ BO1 BB1 E3) as (A1 & A2 & _ & _ & _ & A3 & A4).
      split; auto. split; auto. split; auto. intros x. rewrite A3, PA1. reflexivity. }
  destruct X2 as (BO2 & BB2 & PA2 & (S2 & C2 & E2' & H2 & P2)).
  (* rights *)
  bind_inv M. rename a into p3. destruct (revoke_spec _ _ _ E3) as ((V3 & S3 & E3' & H3 & P3 & R3) & L3).
  destruct (same_views_ok _ _ V3) as (BO3 & BB3 & PA3). specialize (BO3 BO2). specialize (BB3 BB2).
  bind_inv M. rename a into p4. destruct (revoke_spec _ _ _ E4) as ((V4 & S4 & E4' & H4 & P4 & R4) & L4).
  destruct (same_views_ok _ _ V4) as (BO4 & BB4 & PA4). specialize (BO4 BO3). specialize (BB4 BB3).
  (* the piece moves *)
  bind_inv M. destruct a as [p5 piece].
  assert (Hemp : piece_at p4 t = 0). { rewrite PA4, PA3, PA2, N.eqb_refl. reflexivity. }
  destruct (move_views _ _ _ _ _ _ BO4 BB4 Hemp E5) as (BO5 & BB5 & Ls & Lt & Hne & Hpc & Vpc & PA5 & (S5 & C5 & E5' & H5 & P5)).
  assert (Hpc' : piece_at p s = piece).
  { rewrite PA4, PA3, PA2 in Hpc. destruct (N.eqb_spec s t); [contradiction|exact Hpc]. }
  assert (PB5 : forall x, piece_at p5 x = base_after p m x).
  { intros x. rewrite PA5, PA4, PA3, PA2. unfold base_after. fold s t. rewrite Hpc'.
    destruct (x =? t); auto. }
  (* pawn: en-passant square *)
  bind_inv M. destruct a as [p6 reset'].
  destruct (st_pawn_fields _ _ _ _ _ _ _ _ E6) as (V6 & S6 & C6 & H6 & P6 & E6').
  destruct (same_views_ok _ _ V6) as (BO6 & BB6 & PA6). specialize (BO6 BO5). specialize (BB6 BB5).
  (* kind *)
  bind_inv M. rename a into p7. injection M as <-.
  assert (X7 : board_ok p7 /\ bbs_ok p7 /\ (forall x, piece_at p7 x = after p m x) /\ same_sc p6 p7).
  { unfold st_kind in E7. unfold after. fold t in E7 |- *.
    assert (CM : forall rs rd, rook_dst t = rd -> rook_src t = rs -> mv_kind m = CASTLING ->
              (r <- move_piece K p6 rs rd ;; Ok (fst r)) = Ok p7 ->
              board_ok p7 /\ bbs_ok p7 /\
              (forall x, piece_at p7 x =
                 if x =? rd then base_after p m rs else if x =? rs then 0 else base_after p m x) /\ same_sc p6 p7).
    { intros rs rd Erd Ers Ek S'. bind_inv S'. destruct a as [q' pc]. injection S' as <-.
      assert (Hemp' : piece_at p6 rd = 0). { rewrite PA6, PB5, <- Erd. apply CH. exact Ek. }
      destruct (move_views _ _ _ _ _ _ BO6 BB6 Hemp' E8) as (B1 & B2 & _ & _ & _ & B3 & _ & B4 & B5).
      split; auto. split; auto. split; auto. intros x. rewrite B4, <- B3, !PA6, !PB5. reflexivity. }
    destruct (mv_kind m =? CASTLING) eqn:Ek.
    { apply N.eqb_eq in Ek. unfold rook_dst, rook_src in CM |- *.
      destruct (t =? C1); [eapply CM; eauto|].
      destruct (t =? G1); [eapply CM; eauto|].
      destruct (t =? C8); [eapply CM; eauto|].
      destruct (t =? G8); [eapply CM; eauto|]. discriminate. }
    clear CM. destruct (mv_kind m =? EN_PASSANT).
    { bind_inv E7. destruct a as [q' pc]. injection E7 as <-. cbn [fst].
      destruct (delete_views _ _ _ _ _ BO6 BB6 E8) as (B1 & B2 & _ & _ & _ & B3 & B4).
      split; auto. split; auto. split; auto. intros x. rewrite B3, PA6, PB5. unfold victim_sq. reflexivity. }
    destruct (mv_kind m =? PROMOTION).
    { bind_inv E7. destruct a as [q' pc]. cbn [fst] in E7.
      destruct (delete_views _ _ _ _ _ BO6 BB6 E8) as (B1 & B2 & _ & _ & _ & B3 & B4).
      assert (Hemp' : piece_at q' t = 0) by (rewrite B3, N.eqb_refl; reflexivity).
      destruct (set_views _ _ _ _ _ B1 B2 Hemp' (promo_piece_valid _ m Hside) E7) as (D1 & D2 & _ & D3 & D4).
      split; auto. split; auto. split; [|eapply same_sc_trans; eauto].
      intros x. rewrite D3, B3, PA6, PB5. destruct (x =? t); reflexivity. }
    injection E7 as <-. split; auto. split; auto. split; [|apply same_sc_refl].
    intros x. rewrite PA6, PB5. reflexivity. }
  destruct X7 as (BO7 & BB7 & PA7 & (S7 & C7 & E7' & H7 & P7)).
  (* the end: side, counters, helpers *)
  unfold st_fin.
  match goal with |- context [gen_helpers ?x] => set (pf := x) end.
  assert (VF : same_views p7 (gen_helpers pf)) by (split; reflexivity).
  destruct (same_views_ok _ _ VF) as (BOF & BBF & PAF).
  split; [auto|]. split; [auto|]. split; [apply gen_helpers_agree; apply BB7|].
  split; [rewrite Hpc'; exact Vpc|]. split; [exact Hne|].
  split; [intros x; rewrite PAF; apply PA7|].
  split; [reflexivity|].
  split. { cbn. congruence. }
  split. { cbn. destruct reset'; [left; reflexivity|right; congruence]. }
  split. { cbn. rewrite C7, C6, C5. intros j Hj. apply R4 in Hj. apply R3 in Hj. congruence. }
  split.
  { cbn. rewrite C7, C6, C5. intros j Hj [T|T]; [|eapply L4; eauto].
    destruct (N.testbit (castling p4) j) eqn:B; auto. apply R4 in B. rewrite (L3 j Hj T) in B. discriminate. }
  cbn. rewrite E7', E6', E5', E4', E3', E2', E1. unfold ep_after. fold s t. rewrite Hpc'. reflexivity.
Qed.

End Make.
