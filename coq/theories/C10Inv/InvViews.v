(* C10, part 1: the piece primitives (DeletePiece, SetPiece, MovePiece) keep the square array and the
   twelve bitboards in step, provided SetPiece is applied to an EMPTY square with a valid piece;
   generateHelperBitboards re-establishes the occupancy sets.
   Prop-level readings of the boolean clauses [board_wf], [bbs_agree]. *)
From Coq Require Import NArith ZArith List Bool Lia ZifyBool ZifyN ZifyNat.
From Clemens Require Import Base.Res Base.Word Pos.Types Att.Attacks Att.ShiftsProofs Pos.Position Pos.Inv
  Pos.ZobristProofs.
Import ListNotations.
Open Scope N_scope.

(* ------------------------------------------------------------------------------------------ *)
(* lists                                                                                        *)

Lemma nth_upd {A} (l : list A) i j v d :
  nth j (upd l i v) d = if (Nat.eqb i j) && (Nat.ltb i (length l)) then v else nth j l d.
Proof.
  revert i j. induction l as [|a l IH]; intros i j.
  - destruct i, j; cbn; rewrite ?andb_false_r; reflexivity.
  - destruct i as [|i], j as [|j]; cbn [upd nth length]; try reflexivity.
    rewrite IH. reflexivity.
Qed.

(* ------------------------------------------------------------------------------------------ *)
(* Prop-level readings                                                                          *)

Definition board_ok (p : position) : Prop :=
  length (board p) = 64%nat /\ forall s, s < 64 -> sq_ok (piece_at p s) = true.

Definition bbs_ok (p : position) : Prop :=
  length (bbs p) = 12%nat /\
  forall c t, c < 2 -> t < 6 ->
    bb_at p c t < two64 /\
    forall s, s < 64 -> N.testbit (bb_at p c t) s = (piece_at p s =? new_piece c t).

Lemma board_wf_iff p : board_wf p = true <-> board_ok p.
Proof.
  unfold board_wf, board_ok. rewrite andb_true_iff, Nat.eqb_eq, forallb_forall. split.
  - intros [L H]. split; auto. intros s Hs. apply H. unfold piece_at. apply nth_In. lia.
  - intros [L H]. split; auto. intros x Hx. destruct (In_nth _ _ 0 Hx) as (n & Hn & <-).
    specialize (H (N.of_nat n)). unfold piece_at in H. rewrite Nat2N.id in H. apply H. lia.
Qed.

Lemma ct_pairs_in c t : In (c, t) ct_pairs -> c < 2 /\ t < 6.
Proof.
  unfold ct_pairs. cbn [flat_map map app]. intros H.
  repeat (destruct H as [H|H]; [injection H as <- <-; lia|]). destruct H.
Qed.

Lemma bbs_agree_iff p : bbs_agree p = true <-> bbs_ok p.
Proof.
  unfold bbs_agree, bbs_ok. rewrite andb_true_iff, Nat.eqb_eq, forallb_forall. split.
  - intros [L H]. split; auto. intros c t Hc Ht. specialize (H _ (in_ct_pairs _ _ Hc Ht)). cbv beta iota in H.
    apply andb_true_iff in H. destruct H as [H1 H2]. split; [now apply N.ltb_lt|].
    intros s Hs. rewrite forallb_forall in H2. apply eqb_prop. apply H2. now apply sq_list_in.
  - intros [L H]. split; auto. intros [c t] Hin. destruct (ct_pairs_in _ _ Hin) as [Hc Ht].
    destruct (H c t Hc Ht) as [H1 H2]. apply andb_true_iff. split; [now apply N.ltb_lt|].
    apply forallb_forall. intros s Hs. apply sq_list_in in Hs. rewrite (H2 s Hs). apply eqb_reflx.
Qed.

Lemma piece_at_upd p q sq v x :
  board q = upd (board p) (N.to_nat sq) v -> length (board p) = 64%nat -> sq < 64 ->
  piece_at q x = if x =? sq then v else piece_at p x.
Proof.
  intros Hb L Hsq. unfold piece_at. rewrite Hb, nth_upd, L.
  destruct (N.eqb_spec x sq) as [->|n].
  - rewrite Nat.eqb_refl. replace (N.to_nat sq <? 64)%nat with true by lia. reflexivity.
  - replace (N.to_nat sq =? N.to_nat x)%nat with false by lia. reflexivity.
Qed.

Lemma sq_ok_cases pc : sq_ok pc = true -> pc = 0 \/ valid_piece pc = true.
Proof. unfold sq_ok. rewrite orb_true_iff, N.eqb_eq. tauto. Qed.

Lemma bb_index_spec c t i : bb_index c t = Ok i -> c < 2 /\ t < 6 /\ i = N.to_nat (c * 6 + t).
Proof.
  unfold bb_index. destruct ((c <? 2) && (t <? 6)) eqn:E; [|discriminate]. intros [= <-].
  apply andb_true_iff in E. rewrite !N.ltb_lt in E. tauto.
Qed.

Lemma bb_index_valid pc : valid_piece pc = true ->
  bb_index (piece_color pc) (piece_type pc) = Ok (N.to_nat (piece_color pc * 6 + piece_type pc)).
Proof.
  intros V. destruct (valid_piece_spec _ V) as (Hc & Ht & _). unfold bb_index.
  replace ((piece_color pc <? 2) && (piece_type pc <? 6)) with true by lia. reflexivity.
Qed.

(* the scalar fields a primitive leaves alone *)
Definition same_sc (p q : position) : Prop :=
  side q = side p /\ castling q = castling p /\ ep q = ep p /\ hmc q = hmc p /\ ply q = ply p.

Lemma same_sc_refl p : same_sc p p.
Proof. repeat split. Qed.
Lemma same_sc_trans p q r : same_sc p q -> same_sc q r -> same_sc p r.
Proof. unfold same_sc. intros (A1 & A2 & A3 & A4 & A5) (B1 & B2 & B3 & B4 & B5). repeat split; congruence. Qed.

(* the views read only [bbs] and [board] *)
Lemma views_ext p q : bbs q = bbs p -> board q = board p ->
  (board_ok p -> board_ok q) /\ (bbs_ok p -> bbs_ok q) /\ (forall x, piece_at q x = piece_at p x).
Proof.
  intros Hb Hd. unfold board_ok, bbs_ok, piece_at, bb_at. rewrite Hb, Hd. tauto.
Qed.

Section Prims.
Variable K : zkeys.

(* ------------------------------------------------------------------------------------------ *)
(* DeletePiece                                                                                  *)

Lemma delete_piece_full p sq q pc : delete_piece K p sq = Ok (q, pc) ->
  exists i old, bb_index (piece_color pc) (piece_type pc) = Ok i /\ nth_error (bbs p) i = Some old /\
    nth_error (board p) (N.to_nat sq) = Some pc /\
    bbs q = upd (bbs p) i (N.land old (not64 (bit sq))) /\
    board q = upd (board p) (N.to_nat sq) NO_PIECE /\ same_sc p q.
Proof.
  unfold delete_piece, get_piece. intros H. bind_inv H. bind_inv H. bind_inv H. bind_inv H.
  inversion H; subst q pc; clear H. exists a0, a1. cbn. rewrite <- !nth_res_ok. repeat split; auto.
Qed.

Lemma delete_views p sq q pc :
  board_ok p -> bbs_ok p -> delete_piece K p sq = Ok (q, pc) ->
  board_ok q /\ bbs_ok q /\ sq < 64 /\ piece_at p sq = pc /\ valid_piece pc = true /\
  (forall x, piece_at q x = if x =? sq then 0 else piece_at p x) /\ same_sc p q.
Proof.
  intros [L BW] [LB BB] D. destruct (delete_piece_full _ _ _ _ D) as (i & old & I & O & G & Hbbs & Hbd & SC).
  assert (Hsq : sq < 64).
  { assert (N.to_nat sq < length (board p))%nat by (apply nth_error_Some; congruence). lia. }
  assert (Hpa : piece_at p sq = pc) by (unfold piece_at; erewrite nth_error_nth; eauto).
  assert (Hnz : pc <> 0) by (eapply bb_index_piece; eauto).
  assert (V : valid_piece pc = true).
  { specialize (BW sq Hsq). rewrite Hpa in BW. destruct (sq_ok_cases _ BW) as [e|e]; [contradiction|exact e]. }
  pose proof (piece_at_upd p q sq NO_PIECE) as PW. specialize (fun x => PW x Hbd L Hsq).
  destruct (valid_piece_spec _ V) as (Hc & Ht & _ & Hnp).
  apply bb_index_spec in I. destruct I as (_ & _ & Hi).
  assert (Hold : old = bb_at p (piece_color pc) (piece_type pc)).
  { unfold bb_at. rewrite <- Hi. symmetry. eapply nth_error_nth; eauto. }
  assert (BOq : board_ok q).
  { split; [now rewrite Hbd, upd_length|]. intros x Hx. rewrite PW. destruct (x =? sq); auto. }
  assert (BBq : bbs_ok q).
  { split; [now rewrite Hbbs, upd_length|]. intros c t Hc' Ht'. split.
    - unfold bb_at. rewrite Hbbs, nth_upd, LB.
      destruct ((i =? N.to_nat (c * 6 + t))%nat && (i <? 12)%nat) eqn:E.
      + apply land_lt_l. rewrite Hold. apply BB; auto.
      + apply BB; auto.
    - intros s Hs. unfold bb_at at 1. rewrite Hbbs, nth_upd, LB, PW.
      destruct (BB c t Hc' Ht') as [_ BT]. specialize (BT s Hs).
      destruct ((i =? N.to_nat (c * 6 + t))%nat && (i <? 12)%nat) eqn:E.
      + apply andb_true_iff in E. destruct E as [E _]. apply Nat.eqb_eq in E.
        assert (c = piece_color pc /\ t = piece_type pc) as [-> ->] by lia.
        rewrite N.land_spec, not64_spec, (bit_spec _ _ Hsq), Hold, BT.
        destruct (N.eqb_spec s sq) as [->|n].
        * rewrite N.eqb_refl. cbn [negb]. rewrite !andb_false_r. symmetry. apply N.eqb_neq.
          unfold new_piece, NO_PIECE. lia.
        * replace (sq =? s) with false by lia. replace (s <? 64) with true by lia. cbn. now rewrite andb_true_r.
      + fold (bb_at p c t). rewrite BT. destruct (N.eqb_spec s sq) as [->|n]; auto.
        rewrite Hpa, <- Hnp. apply andb_false_iff in E.
        transitivity false; [|symmetry]; apply N.eqb_neq; unfold new_piece, NO_PIECE; [|lia].
        intros e. destruct E as [E|E]; [apply Nat.eqb_neq in E|apply Nat.ltb_ge in E]; lia. }
  exact (conj BOq (conj BBq (conj Hsq (conj Hpa (conj V (conj PW SC)))))).
Qed.

(* ------------------------------------------------------------------------------------------ *)
(* SetPiece                                                                                     *)

Lemma set_piece_full p pc sq q : set_piece K p pc sq = Ok q ->
  exists i old, sq < 64 /\ bb_index (piece_color pc) (piece_type pc) = Ok i /\ nth_error (bbs p) i = Some old /\
    bbs q = upd (bbs p) i (N.lor old (bit sq)) /\
    board q = upd (board p) (N.to_nat sq) pc /\ same_sc p q.
Proof.
  unfold set_piece. destruct (sq <? 64) eqn:Hsq; cbn [negb]; [|discriminate].
  intros H. bind_inv H. bind_inv H. bind_inv H. inversion H; subst q; clear H.
  exists a, a0. cbn. rewrite <- !nth_res_ok. repeat split; auto. lia.
Qed.

(* onto an EMPTY square *)
Lemma set_views p pc sq q :
  board_ok p -> bbs_ok p -> piece_at p sq = 0 -> valid_piece pc = true -> set_piece K p pc sq = Ok q ->
  board_ok q /\ bbs_ok q /\ sq < 64 /\
  (forall x, piece_at q x = if x =? sq then pc else piece_at p x) /\ same_sc p q.
Proof.
  intros [L BW] [LB BB] Hemp V S. destruct (set_piece_full _ _ _ _ S) as (i & old & Hsq & I & O & Hbbs & Hbd & SC).
  pose proof (piece_at_upd p q sq pc) as PW. specialize (fun x => PW x Hbd L Hsq).
  destruct (valid_piece_spec _ V) as (Hc & Ht & _ & Hnp).
  apply bb_index_spec in I. destruct I as (_ & _ & Hi).
  assert (Hold : old = bb_at p (piece_color pc) (piece_type pc)).
  { unfold bb_at. rewrite <- Hi. symmetry. eapply nth_error_nth; eauto. }
  assert (BOq : board_ok q).
  { split; [now rewrite Hbd, upd_length|]. intros x Hx. rewrite PW. destruct (x =? sq); auto.
    unfold sq_ok. rewrite V. apply orb_true_r. }
  assert (BBq : bbs_ok q).
  { split; [now rewrite Hbbs, upd_length|]. intros c t Hc' Ht'. split.
    - unfold bb_at. rewrite Hbbs, nth_upd, LB.
      destruct ((i =? N.to_nat (c * 6 + t))%nat && (i <? 12)%nat) eqn:E.
      + apply lor_lt; [|apply bit_lt]. rewrite Hold. apply BB; auto.
      + apply BB; auto.
    - intros s Hs. unfold bb_at at 1. rewrite Hbbs, nth_upd, LB, PW.
      destruct (BB c t Hc' Ht') as [_ BT]. specialize (BT s Hs).
      destruct ((i =? N.to_nat (c * 6 + t))%nat && (i <? 12)%nat) eqn:E.
      + apply andb_true_iff in E. destruct E as [E _]. apply Nat.eqb_eq in E.
        assert (c = piece_color pc /\ t = piece_type pc) as [-> ->] by lia.
        rewrite N.lor_spec, (bit_spec _ _ Hsq), Hold, BT.
        destruct (N.eqb_spec s sq) as [->|n].
        * rewrite N.eqb_refl, orb_true_r, Hnp. symmetry. apply N.eqb_refl.
        * replace (sq =? s) with false by lia. now rewrite orb_false_r.
      + fold (bb_at p c t). rewrite BT. destruct (N.eqb_spec s sq) as [->|n]; auto.
        rewrite Hemp, <- Hnp. apply andb_false_iff in E.
        transitivity false; [|symmetry]; apply N.eqb_neq; unfold new_piece; [lia|].
        intros e. destruct E as [E|E]; [apply Nat.eqb_neq in E|apply Nat.ltb_ge in E]; lia. }
  exact (conj BOq (conj BBq (conj Hsq (conj PW SC)))).
Qed.

(* ------------------------------------------------------------------------------------------ *)
(* MovePiece onto an empty square                                                               *)

Lemma move_views p from to q pc :
  board_ok p -> bbs_ok p -> piece_at p to = 0 -> move_piece K p from to = Ok (q, pc) ->
  board_ok q /\ bbs_ok q /\ from < 64 /\ to < 64 /\ from <> to /\ piece_at p from = pc /\ valid_piece pc = true /\
  (forall x, piece_at q x = if x =? to then pc else if x =? from then 0 else piece_at p x) /\ same_sc p q.
Proof.
  intros BO BB Hemp M. apply move_piece_spec in M. destruct M as (p1 & D & S).
  destruct (delete_views _ _ _ _ BO BB D) as (BO1 & BB1 & Hf & Hpa & V & PW1 & SC1).
  assert (Hne : from <> to).
  { intros ->. rewrite Hemp in Hpa. subst pc. discriminate V. }
  assert (Hemp1 : piece_at p1 to = 0).
  { rewrite PW1. destruct (N.eqb_spec to from); auto. }
  destruct (set_views _ _ _ _ BO1 BB1 Hemp1 V S) as (BO2 & BB2 & Ht & PW2 & SC2).
  assert (PW : forall x, piece_at q x = if x =? to then pc else if x =? from then 0 else piece_at p x).
  { intros x. rewrite PW2, PW1. reflexivity. }
  exact (conj BO2 (conj BB2 (conj Hf (conj Ht (conj Hne (conj Hpa (conj V (conj PW (same_sc_trans _ _ _ SC1 SC2))))))))).
Qed.

End Prims.

(* ------------------------------------------------------------------------------------------ *)
(* generateHelperBitboards                                                                      *)

Lemma color_union_union6 p c : length (bbs p) = 12%nat -> c = 0 \/ c = 1 -> color_union p c = union6 p c.
Proof.
  intros L Hc. unfold color_union, union6, bb_at.
  destruct (bbs p) as [|b0 [|b1 [|b2 [|b3 [|b4 [|b5 [|b6 [|b7 [|b8 [|b9 [|b10 [|b11 [|]]]]]]]]]]]]]; try discriminate L.
  destruct Hc as [-> | ->]; reflexivity.
Qed.

Lemma gen_helpers_agree p : length (bbs p) = 12%nat -> helpers_agree (gen_helpers p) = true.
Proof.
  intros L. unfold helpers_agree, gen_helpers. cbn [by_color all_pieces set_helpers].
  change (union6 (set_helpers p ?a ?b)) with (union6 p).
  rewrite !color_union_union6 by (auto; unfold WHITE, BLACK; tauto).
  change WHITE with 0. change BLACK with 1. now rewrite !N.eqb_refl.
Qed.

Lemma gen_helpers_fields p :
  bbs (gen_helpers p) = bbs p /\ board (gen_helpers p) = board p /\ same_sc p (gen_helpers p) /\ hash (gen_helpers p) = hash p.
Proof. repeat split. Qed.
