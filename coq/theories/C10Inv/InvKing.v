(* C10, part 4: a king is never captured.  In a position satisfying the invariant the side that just moved
   is not in check; so no piece of the side to move attacks the enemy king's square, hence no generated
   capture (all of which go along a geometric attack) lands on it. *)
From Coq Require Import NArith ZArith List Bool Lia ZifyBool ZifyN ZifyNat.
From Clemens Require Import Base.Res Base.Word Pos.Types Att.Attacks Att.Geometry Att.ShiftsProofs Att.SlidingProofs
  Att.LeaperInst Pos.Position Pos.Inv Pos.ZobristProofs Att.AttackersProofs.
From Clemens.C10Inv Require Import InvViews InvMake InvGen.
Import ListNotations.
Open Scope N_scope.

Theorem no_king_capture p s t :
  Inv p -> s < 64 -> t < 64 -> own p s = true -> attacks_geo p s t = true ->
  piece_at p t <> new_piece (switch_color (side p)) KING.
Proof.
  intros HI Ls Lt Ho Ha Hk.
  destruct (inv_parts p HI) as (Hwf & Hag & Hhe & Hone & _ & _ & _ & Hsc & Hchk).
  pose proof (inv_side p HI) as Hside.
  destruct (in_check_exact p (switch_color (side p)) Hwf Hag Hhe Hone (inv_switch_lt p HI))
    as (ksq & Lk & _ & Huniq & Hchk').
  unfold mover_not_in_check in Hchk. rewrite Hchk' in Hchk.
  rewrite switch_switch in Hchk by (unfold WHITE, BLACK; exact Hside).
  destruct (attacked_by_color p (side p) ksq) eqn:A; [discriminate|].
  rewrite (Huniq t Lt Hk) in Ha.
  assert (X : attacked_by_color p (side p) ksq = true).
  { unfold attacked_by_color. apply existsb_exists. exists s. split; [now apply in_squares|].
    unfold own in Ho. now rewrite Ho, Ha. }
  congruence.
Qed.
