(* C10, totality: from a position satisfying the invariant, and with a well-formed key table, the move
   generator, MakeMove of every generated move and the legality test of the successor never panic (no index
   out of range, no bit scan of an empty king bitboard); hence [legal_moves] is total. *)
From Coq Require Import NArith ZArith List Bool Lia ZifyBool ZifyN ZifyNat.
From Clemens Require Import Base.Res Base.Word Pos.Types Att.Attacks Att.Geometry Att.ShiftsProofs Att.SlidingProofs
  Att.LeaperInst Pos.Position Pos.Inv Pos.ZobristProofs Att.AttackersProofs.
From Clemens Require Pos.CapturesProofs.
From Clemens.C10Inv Require Import InvViews InvMake InvGen InvKing InvClauses InvMoves InvStep.
Import ListNotations.
Open Scope N_scope.

(* ------------------------------------------------------------------------------------------ *)
(* the generator                                                                                *)

Lemma get_piece_total p sq : length (board p) = 64%nat -> sq < 64 -> get_piece p sq = Ok (piece_at p sq).
Proof.
  intros L Hs. unfold get_piece, piece_at, nth_res. rewrite (nth_error_nth' _ 0) by lia. reflexivity.
Qed.

Lemma piece_at_nz_lt p x : length (board p) = 64%nat -> piece_at p x <> 0 -> x < 64.
Proof.
  intros L H. destruct (N.lt_ge_cases x 64) as [|G]; auto. exfalso. apply H. unfold piece_at.
  apply nth_overflow. lia.
Qed.

Section WalkTotal.
Variable p : position.
Hypothesis HI : Inv p.

Lemma board_len64 : length (board p) = 64%nat.
Proof. apply board_wf_len. apply (inv_parts p HI). Qed.

Lemma walk_step_total queen f sq att free :
  (((0 <? att)%Z || (0 <? free)%Z) = true -> cstep queen sq < 64) ->
  (exists b, castle_walk f p queen (cstep queen sq) (att - 1)%Z (free - 1)%Z = Ok b) ->
  exists b, castle_walk (S f) p queen sq att free = Ok b.
Proof.
  intros Hsq [b Hrec]. cbn [castle_walk]. fold (cstep queen sq).
  destruct ((0 <? att)%Z || (0 <? free)%Z); [|eauto]. specialize (Hsq eq_refl).
  assert (Hatt : exists a, (a0 <- square_attacked_by p (cstep queen sq) ;;
                            them <- color_bb p (switch_color (side p)) ;; Ok (negb (N.land a0 them =? 0))) = Ok a).
  { rewrite (square_attacked_by_ok p (Hag p HI) _ Hsq). cbn [bind].
    rewrite (color_bb_ok p (Hhe p HI) _ (inv_switch_lt p HI)). cbn [bind]. eauto. }
  destruct Hatt as [a Hatt].
  destruct (0 <? free)%Z.
  - rewrite (get_piece_total p _ board_len64 Hsq). cbn [bind andb].
    destruct (negb (piece_at p (cstep queen sq) =? NO_PIECE)); [eauto|].
    destruct (0 <? att)%Z; [rewrite Hatt|]; cbn [bind]; [destruct a|]; eauto.
  - cbn [bind andb]. destruct (0 <? att)%Z; [rewrite Hatt|]; cbn [bind]; [destruct a|]; eauto.
Qed.

Lemma walk_total queen sq : sq = E1 \/ sq = E8 ->
  exists b, castle_walk 4 p queen sq 2%Z (if queen then 3%Z else 2%Z) = Ok b.
Proof.
  intros Hsq.
  apply walk_step_total. { intros _. destruct Hsq as [-> | ->], queen; vm_compute; reflexivity. }
  apply walk_step_total. { intros _. destruct Hsq as [-> | ->], queen; vm_compute; reflexivity. }
  apply walk_step_total.
  { destruct queen; [|discriminate]. intros _. destruct Hsq as [-> | ->]; vm_compute; reflexivity. }
  destruct queen; cbn; eauto.
Qed.

Lemma in_check_total c : c < 2 ->
  exists b kb sq, is_in_check p c = Ok b /\ get_bb p c KING = Ok kb /\ lsb kb = Ok sq /\
                  piece_at p sq = new_piece c KING /\ sq < 64.
Proof.
  intros Hc. destruct (inv_parts p HI) as (Hwf & Hag & Hhe & Hone & _).
  destruct (in_check_exact p c Hwf Hag Hhe Hone Hc) as (ksq & Lk & Hk & U & Hchk).
  pose proof Hchk as H. unfold is_in_check in H. bind_inv H. bind_inv H. bind_inv H.
  exists (attacked_by_color p (switch_color c) ksq), a, a0. repeat split; auto.
  - rewrite (get_bb_ok p Hag c KING Hc eq_refl) in E. injection E as <-.
    apply CapturesProofs.lsb_testbit in E0.
    assert (L : a0 < 64). { eapply testbit_bound; [|exact E0]. apply (bb_lt p Hag); auto. reflexivity. }
    rewrite (bb_bit p Hag) in E0; auto; [|reflexivity]. now apply N.eqb_eq.
  - unfold square_attacked_by in E1. destruct (a0 <? 64) eqn:L; [now apply N.ltb_lt|discriminate].
Qed.

Lemma can_castle_now_total c : In c [WK; WQ; BK; BQ] -> exists b, can_castle_now p c = Ok b.
Proof.
  intros Hc. unfold can_castle_now, can_castle.
  destruct (N.land c (castling p) =? 0) eqn:E1; cbn [negb]; [eauto|].
  destruct (castling_color c =? side p) eqn:E2; cbn [negb]; [|eauto].
  apply N.eqb_eq in E2. apply N.eqb_neq in E1.
  destruct (in_check_total (side p) (inv_side_lt p HI)) as (b & kb & sq & Hchk & G & Ls & Hk & Lsq).
  rewrite Hchk. cbn [bind]. destruct b; [eauto|]. rewrite G. cbn [bind]. rewrite Ls. cbn [bind].
  apply walk_total.
  (* the right is held, so the king is at home *)
  pose proof (rights_read p (proj1 (proj2 (proj2 (proj2 (proj2 (proj2 (inv_parts p HI)))))))) as (_ & R0 & R1 & R2 & R3).
  assert (HT : forall i, N.land (2 ^ i) (castling p) <> 0 -> N.testbit (castling p) i = true).
  { intros i Z. rewrite N.land_comm in Z. apply N.eqb_neq in Z. rewrite land_pow2_testbit in Z.
    now apply negb_false_iff in Z. }
  destruct Hc as [<-|[<-|[<-|[<-|[]]]]].
  - left. destruct (R0 (HT 0 E1)) as [K0 _]. change (castling_color WK) with WHITE in E2. rewrite <- E2 in Hk.
    apply (king_unique p HI 0); auto; reflexivity.
  - left. destruct (R1 (HT 1 E1)) as [K0 _]. change (castling_color WQ) with WHITE in E2. rewrite <- E2 in Hk.
    apply (king_unique p HI 0); auto; reflexivity.
  - right. destruct (R2 (HT 2 E1)) as [K0 _]. change (castling_color BK) with BLACK in E2. rewrite <- E2 in Hk.
    apply (king_unique p HI 1); auto; reflexivity.
  - right. destruct (R3 (HT 3 E1)) as [K0 _]. change (castling_color BQ) with BLACK in E2. rewrite <- E2 in Hk.
    apply (king_unique p HI 1); auto; reflexivity.
Qed.

Lemma cm_step_total l c : In c [WK; WQ; BK; BQ] -> exists l', cm_step p l c = Ok l'.
Proof.
  intros Hc. unfold cm_step. destruct (negb (castling_color c =? side p)); [eauto|].
  destruct (can_castle_now_total c Hc) as [b Hb]. rewrite Hb. cbn [bind]. destruct b; cbn [negb]; [|eauto].
  apply can_castle_now_full in Hb. destruct Hb as (_ & _ & kb & s & G & Ls & _).
  rewrite G. cbn [bind]. rewrite Ls. cbn [bind]. eauto.
Qed.

Lemma castling_moves_total : exists cs, castling_moves p = Ok cs.
Proof.
  change (castling_moves p) with (fold_left (fun acc c => l <- acc ;; cm_step p l c) [WK; WQ; BK; BQ] (Ok [])).
  assert (X : forall cl l, (forall c, In c cl -> In c [WK; WQ; BK; BQ]) ->
            exists cs, fold_left (fun acc c => l <- acc ;; cm_step p l c) cl (Ok l) = Ok cs).
  { induction cl as [|c cl IH]; intros l Hcl; cbn [fold_left]; [eauto|].
    destruct (cm_step_total l c (Hcl c (or_introl eq_refl))) as [l' E]. cbn [bind]. rewrite E.
    apply IH. intros c' Hc'. apply Hcl. now right. }
  apply X. auto.
Qed.

Theorem gen_moves_total : exists ms, gen_moves p = Ok ms.
Proof.
  unfold gen_moves.
  rewrite (color_bb_ok p (Hhe p HI) _ (inv_side_lt p HI)), (color_bb_ok p (Hhe p HI) _ (inv_switch_lt p HI)).
  cbn [bind]. rewrite !(get_bb_ok p (Hag p HI) (side p)) by (try apply (inv_side_lt p HI); reflexivity).
  cbn [bind]. destruct castling_moves_total as [cs ->]. cbn [bind]. eauto.
Qed.

End WalkTotal.

(* ------------------------------------------------------------------------------------------ *)
(* the primitives                                                                               *)

Section Total.
Variable K : zkeys.
Hypothesis WF : keys_wf K = true.

Lemma key_ep_total e : exists k, key_ep K e = Ok k.
Proof.
  unfold key_ep. apply nth_res_total. destruct (keys_wf_spec K WF) as (_ & _ & _ & W4).
  pose proof (file_of_lt e). lia.
Qed.

Lemma delete_total p sq : board_ok p -> bbs_ok p -> sq < 64 -> piece_at p sq <> 0 ->
  exists q, delete_piece K p sq = Ok (q, piece_at p sq).
Proof.
  intros [L BW] [LB _] Hs Hnz. unfold delete_piece. rewrite (get_piece_total p sq L Hs). cbn [bind].
  assert (V : valid_piece (piece_at p sq) = true).
  { destruct (sq_ok_cases _ (BW sq Hs)) as [e|e]; [contradiction|exact e]. }
  rewrite (bb_index_valid _ V). cbn [bind]. destruct (valid_piece_spec _ V) as (Hc & Ht & _).
  destruct (nth_res_total (bbs p) (N.to_nat (piece_color (piece_at p sq) * 6 + piece_type (piece_at p sq))))
    as [old ->]; [lia|]. cbn [bind].
  destruct (key_piece_total K WF sq _ _ Hs Hc Ht) as (row & k & _ & _ & ->). cbn [bind]. eauto.
Qed.

Lemma set_total p pc sq : bbs_ok p -> sq < 64 -> valid_piece pc = true -> exists q, set_piece K p pc sq = Ok q.
Proof.
  intros [LB _] Hs V. unfold set_piece. replace (sq <? 64) with true by lia. cbn [negb].
  rewrite (bb_index_valid _ V). cbn [bind]. destruct (valid_piece_spec _ V) as (Hc & Ht & _).
  destruct (nth_res_total (bbs p) (N.to_nat (piece_color pc * 6 + piece_type pc))) as [old ->]; [lia|]. cbn [bind].
  destruct (key_piece_total K WF sq _ _ Hs Hc Ht) as (row & k & _ & _ & ->). cbn [bind]. eauto.
Qed.

Lemma move_total p from to : board_ok p -> bbs_ok p -> from < 64 -> to < 64 -> piece_at p from <> 0 ->
  exists q, move_piece K p from to = Ok (q, piece_at p from).
Proof.
  intros BO BB Hf Ht Hnz. unfold move_piece.
  destruct (delete_total p from BO BB Hf Hnz) as [p1 D]. rewrite D. cbn [bind].
  destruct (delete_views K _ _ _ _ BO BB D) as (_ & BB1 & _ & _ & V & _).
  destruct (set_total p1 (piece_at p from) to BB1 Ht V) as [q ->]. cbn [bind]. eauto.
Qed.

Lemma rstep_total lost q c i : (i < 4)%nat -> exists q', rstep K lost q (c, i) = Ok q'.
Proof.
  intros Hi. unfold rstep. destruct (negb (N.land (N.land lost c) (castling q) =? 0)); [|eauto].
  rewrite (key_castling_total K WF i Hi). cbn [bind]. eauto.
Qed.

Lemma revoke_total p sq : exists q, revoke K p sq = Ok q.
Proof.
  change (revoke K p sq) with
    (fold_left (fun acc ci => q <- acc ;; rstep K (lost_rights sq) q ci) castling_list (Ok p)).
  assert (X : forall l q0, (forall c i, In (c, i) l -> (i < 4)%nat) ->
            exists q, fold_left (fun acc ci => q <- acc ;; rstep K (lost_rights sq) q ci) l (Ok q0) = Ok q).
  { induction l as [|[c i] l IH]; intros q0 Hl; cbn [fold_left]; [eauto|].
    destruct (rstep_total (lost_rights sq) q0 c i (Hl c i (or_introl eq_refl))) as [q1 E]. cbn [bind]. rewrite E.
    apply IH. intros c' i' H. apply (Hl c' i'). now right. }
  apply X. intros c i H. cbn in H. repeat (destruct H as [H|H]; [injection H as <- <-; lia|]). destruct H.
Qed.

Lemma st_ep_total p : exists p1, st_ep K p = Ok p1.
Proof.
  unfold st_ep. destruct (negb (ep p =? SQ_NONE)); [|eauto].
  destruct (key_ep_total (ep p)) as [k ->]. cbn [bind]. eauto.
Qed.

Lemma st_pawn_total stm p piece s t reset : exists q r, st_pawn K stm p piece s t reset = Ok (q, r).
Proof.
  unfold st_pawn. destruct (piece_type piece =? PAWN); [|eauto].
  destruct (abs_diff s t =? 16); [|eauto]. destruct (key_ep_total t) as [k ->]. cbn [bind]. eauto.
Qed.

(* ------------------------------------------------------------------------------------------ *)
(* MakeMove                                                                                     *)

Definition total_conds (p : position) (m : N) : Prop :=
  piece_at p (mv_src m) <> 0 /\ mv_src m <> mv_dst m /\
  (mv_kind m = CASTLING ->
     (mv_dst m = C1 \/ mv_dst m = G1 \/ mv_dst m = C8 \/ mv_dst m = G8) /\
     base_after p m (rook_src (mv_dst m)) <> 0 /\ base_after p m (rook_dst (mv_dst m)) = 0) /\
  (mv_kind m = EN_PASSANT -> base_after p m (victim_sq (side p) (mv_dst m)) <> 0).

Theorem make_move_total_conds p m :
  board_ok p -> bbs_ok p -> side p < 2 -> total_conds p m -> exists q, make_move K p m = Ok q.
Proof.
  intros BO BB Hside (Hnz & Hne & HC & HE). rewrite make_move_stages.
  pose proof (mv_src_lt m) as Ls. pose proof (mv_dst_lt m) as Lt.
  set (s := mv_src m) in *. set (t := mv_dst m) in *.
  destruct (st_ep_total p) as [p1 E1]. rewrite E1. cbn [bind].
  destruct (st_ep_fields _ _ _ E1) as (V1 & S1 & _). destruct (same_views_ok _ _ V1) as (BO1 & BB1 & PA1).
  specialize (BO1 BO). specialize (BB1 BB).
  rewrite (get_piece_total p1 t (proj1 BO1) Lt). cbn [bind].
  assert (X2 : exists p2 reset, st_cap K p1 t (piece_at p1 t) = Ok (p2, reset) /\ board_ok p2 /\ bbs_ok p2 /\
               forall x, piece_at p2 x = if x =? t then 0 else piece_at p x).
  { unfold st_cap. destruct (piece_at p1 t =? NO_PIECE) eqn:ET; cbn [negb].
    - exists p1, false. split; auto. split; auto. split; auto. intros x. rewrite PA1.
      destruct (N.eqb_spec x t) as [->|]; auto. apply N.eqb_eq in ET. now rewrite <- PA1.
    - apply N.eqb_neq in ET. destruct (delete_total p1 t BO1 BB1 Lt ET) as [p2 D]. rewrite D. cbn [bind fst].
      exists p2, true. destruct (delete_views K _ _ _ _ BO1 BB1 D) as (A1 & A2 & _ & _ & _ & A3 & _).
      split; auto. split; auto. split; auto. intros x. rewrite A3, PA1. reflexivity. }
  destruct X2 as (p2 & reset & E2 & BO2 & BB2 & PA2). rewrite E2. cbn [bind].
  destruct (revoke_total p2 s) as [p3 E3]. rewrite E3. cbn [bind].
  destruct (revoke_spec K _ _ _ E3) as ((V3 & _) & _). destruct (same_views_ok _ _ V3) as (BO3 & BB3 & PA3).
  specialize (BO3 BO2). specialize (BB3 BB2).
  destruct (revoke_total p3 t) as [p4 E4]. rewrite E4. cbn [bind].
  destruct (revoke_spec K _ _ _ E4) as ((V4 & _) & _). destruct (same_views_ok _ _ V4) as (BO4 & BB4 & PA4).
  specialize (BO4 BO3). specialize (BB4 BB3).
  assert (P4s : piece_at p4 s = piece_at p s).
  { rewrite PA4, PA3, PA2. destruct (N.eqb_spec s t); [contradiction|reflexivity]. }
  assert (P4t : piece_at p4 t = 0) by (rewrite PA4, PA3, PA2, N.eqb_refl; reflexivity).
  destruct (move_total p4 s t BO4 BB4 Ls Lt) as [p5 E5]. { now rewrite P4s. }
  rewrite E5. cbn [bind].
  destruct (move_views K _ _ _ _ _ BO4 BB4 P4t E5) as (BO5 & BB5 & _ & _ & _ & _ & _ & PA5 & _).
  assert (PB5 : forall x, piece_at p5 x = base_after p m x).
  { intros x. rewrite PA5, P4s, PA4, PA3, PA2. unfold base_after. fold s t. destruct (x =? t); auto. }
  destruct (st_pawn_total (side p) p5 (piece_at p4 s) s t reset) as (p6 & r' & E6). rewrite E6. cbn [bind].
  destruct (st_pawn_fields K _ _ _ _ _ _ _ _ E6) as (V6 & S6 & _).
  destruct (same_views_ok _ _ V6) as (BO6 & BB6 & PA6). specialize (BO6 BO5). specialize (BB6 BB5).
  assert (X7 : exists p7, st_kind K (side p) p6 m = Ok p7).
  { unfold st_kind. fold t.
    assert (CM : forall rs rd, rs < 64 -> rd < 64 -> rook_src t = rs -> mv_kind m = CASTLING ->
              exists p7, (r <- move_piece K p6 rs rd ;; Ok (fst r)) = Ok p7).
    { intros rs rd L1 L2 Ers Ek. destruct (HC Ek) as (_ & Hr & _).
      destruct (move_total p6 rs rd BO6 BB6 L1 L2) as [p7 E7]; [rewrite PA6, PB5, <- Ers; exact Hr|].
      rewrite E7. cbn [bind fst]. eauto. }
    destruct (mv_kind m =? CASTLING) eqn:Ek.
    { apply N.eqb_eq in Ek. destruct (HC Ek) as ([e|[e|[e|e]]] & _); rewrite e in *; cbn [N.eqb Pos.eqb C1 G1 C8 G8];
        apply CM; auto; reflexivity. }
    destruct (mv_kind m =? EN_PASSANT) eqn:Ee.
    { apply N.eqb_eq in Ee. specialize (HE Ee). fold t in HE. unfold victim_sq in HE.
      assert (Hv : piece_at p6 (if side p =? WHITE then sub8 t 8 else add8 t 8) <> 0) by (rewrite PA6, PB5; exact HE).
      destruct (delete_total p6 _ BO6 BB6 (piece_at_nz_lt _ _ (proj1 BO6) Hv) Hv) as [p7 D]. rewrite D. cbn [bind fst]. eauto. }
    destruct (mv_kind m =? PROMOTION); [|eauto].
    assert (Hd : piece_at p6 t <> 0).
    { rewrite PA6, PB5. unfold base_after. fold s t. rewrite N.eqb_refl. exact Hnz. }
    destruct (delete_total p6 t BO6 BB6 Lt Hd) as [p7 D]. rewrite D. cbn [bind fst].
    destruct (delete_views K _ _ _ _ BO6 BB6 D) as (_ & B2 & _).
    apply set_total; auto. apply promo_piece_valid, Hside. }
  destruct X7 as [p7 E7]. rewrite E7. cbn [bind]. eauto.
Qed.

Lemma simple_total_conds p m s t v fp : simple_move p m s t v fp -> total_conds p m.
Proof.
  intros SM. unfold total_conds. rewrite (SM_src _ _ _ _ _ _ SM), (SM_dst _ _ _ _ _ _ SM).
  split; [apply (SM_nz _ _ _ _ _ _ SM)|]. split; [apply (SM_ne _ _ _ _ _ _ SM)|]. split.
  - intros Ek. destruct (SM_kind _ _ _ _ _ _ SM Ek).
  - intros Ek. destruct (SM_epv _ _ _ _ _ _ SM Ek) as (Ev & N1 & N2 & Hz). rewrite <- Ev.
    rewrite base_after_other; auto; [now rewrite (SM_dst _ _ _ _ _ _ SM)|now rewrite (SM_src _ _ _ _ _ _ SM)].
Qed.

Lemma castle_total_conds p m : Inv p -> castle_case p m -> total_conds p m.
Proof.
  intros HI CC.
  pose proof (rights_read p (proj1 (proj2 (proj2 (proj2 (proj2 (proj2 (inv_parts p HI)))))))) as (_ & R0 & R1 & R2 & R3).
  assert (NE : CASTLING <> EN_PASSANT) by discriminate.
  destruct CC as [(Es & -> & T & Z1 & Z2) | [(Es & -> & T & Z1 & Z2 & Z3) | [(Es & -> & T & Z1 & Z2) | (Es & -> & T & Z1 & Z2 & Z3)]]].
  - destruct (R0 T) as [HK HR]. split; [change (piece_at p E1 <> 0); rewrite HK; discriminate|].
    split; [vm_compute; discriminate|]. split; [|intros e; vm_compute in e; discriminate]. intros _.
    split; [right; left; vm_compute; reflexivity|]. split.
    + rewrite base_after_other; [change (piece_at p H1 <> 0); rewrite HR; discriminate | vm_compute; discriminate..].
    + rewrite base_after_other; [exact Z1 | vm_compute; discriminate..].
  - destruct (R1 T) as [HK HR]. split; [change (piece_at p E1 <> 0); rewrite HK; discriminate|].
    split; [vm_compute; discriminate|]. split; [|intros e; vm_compute in e; discriminate]. intros _.
    split; [left; vm_compute; reflexivity|]. split.
    + rewrite base_after_other; [change (piece_at p A1 <> 0); rewrite HR; discriminate | vm_compute; discriminate..].
    + rewrite base_after_other; [exact Z1 | vm_compute; discriminate..].
  - destruct (R2 T) as [HK HR]. split; [change (piece_at p E8 <> 0); rewrite HK; discriminate|].
    split; [vm_compute; discriminate|]. split; [|intros e; vm_compute in e; discriminate]. intros _.
    split; [right; right; right; vm_compute; reflexivity|]. split.
    + rewrite base_after_other; [change (piece_at p H8 <> 0); rewrite HR; discriminate | vm_compute; discriminate..].
    + rewrite base_after_other; [exact Z1 | vm_compute; discriminate..].
  - destruct (R3 T) as [HK HR]. split; [change (piece_at p E8 <> 0); rewrite HK; discriminate|].
    split; [vm_compute; discriminate|]. split; [|intros e; vm_compute in e; discriminate]. intros _.
    split; [right; right; left; vm_compute; reflexivity|]. split.
    + rewrite base_after_other; [change (piece_at p A8 <> 0); rewrite HR; discriminate | vm_compute; discriminate..].
    + rewrite base_after_other; [exact Z1 | vm_compute; discriminate..].
Qed.

Lemma desc_total_conds p m : Inv p -> move_desc p m -> total_conds p m.
Proof.
  intros HI [s t T Ls Lt -> HT Hpc Ho Ha | s t Ls Lt Hm Hpc Hg | s t Ls Lt Hm Hpc He Hg | s Ls Le -> Hpc Hg | CC].
  - eapply simple_total_conds. eapply sm_piece; eauto.
  - destruct (sm_push p HI s t m Ls Lt Hm Hpc Hg) as [fp SM]. eapply simple_total_conds; eauto.
  - destruct (sm_pcap p HI s t m Ls Lt Hm Hpc He Hg) as [fp SM]. eapply simple_total_conds; eauto.
  - eapply simple_total_conds. eapply sm_ep; eauto.
  - now apply castle_total_conds.
Qed.

(* MakeMove of a generated move never panics *)
Theorem make_move_total p ms m :
  Inv p -> gen_moves p = Ok ms -> In m ms -> exists q, make_move K p m = Ok q.
Proof.
  intros HI G Hin. destruct (inv_parts p HI) as (Hwf & Hag & _).
  apply make_move_total_conds.
  - now apply board_wf_iff.
  - now apply bbs_agree_iff.
  - apply (inv_side_lt p HI).
  - apply desc_total_conds; auto. eapply gen_moves_desc; eauto.
Qed.

(* the legality test of the successor never panics *)
Theorem is_legal_total_nocheck q : inv_nocheck_b q = true -> exists b, is_legal q = Ok b.
Proof.
  unfold inv_nocheck_b. rewrite !andb_true_iff. intros (((((((Hwf & Hag) & Hhe) & Hone) & _) & _) & _) & Hsc).
  apply scalars_ok_spec in Hsc. destruct Hsc as (Hs & _).
  assert (Hc : switch_color (side q) < 2) by (destruct Hs as [-> | ->]; reflexivity).
  destruct (in_check_exact q _ Hwf Hag Hhe Hone Hc) as (k & _ & _ & _ & E).
  unfold is_legal. rewrite E. cbn [bind]. eauto.
Qed.

Theorem is_legal_total p ms m q :
  Inv p -> gen_moves p = Ok ms -> In m ms -> make_move K p m = Ok q -> exists b, is_legal q = Ok b.
Proof. intros HI G Hin M. apply is_legal_total_nocheck. eapply gen_step_nocheck; eauto. Qed.

(* hence the legal-move list is always produced *)
Theorem legal_moves_total p : Inv p -> exists ls, legal_moves K p = Ok ls.
Proof.
  intros HI. unfold legal_moves. destruct (gen_moves_total p HI) as [ms G]. rewrite G. cbn [bind].
  assert (X : forall l, (forall m, In m l -> In m ms) ->
            exists ls, fold_right (fun m acc => l <- acc ;; q <- make_move K p m ;; ok <- is_legal q ;;
                                                Ok (if ok then m :: l else l)) (Ok []) l = Ok ls).
  { induction l as [|x l IH]; intros Hl; cbn [fold_right]; [eauto|].
    destruct IH as [ls E]. { intros m Hm. apply Hl. now right. }
    rewrite E. cbn [bind].
    destruct (make_move_total p ms x HI G (Hl x (or_introl eq_refl))) as [q M]. rewrite M. cbn [bind].
    destruct (is_legal_total p ms x q HI G (Hl x (or_introl eq_refl)) M) as [b L]. rewrite L. cbn [bind]. eauto. }
  apply X. auto.
Qed.

End Total.
