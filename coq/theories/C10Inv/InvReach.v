(* C10, consequences: every reachable position satisfies the invariant and has a consistent hash; the
   property in "list of operations" form; a concrete instance (start position, 1. e4). *)
From Coq Require Import NArith ZArith List Bool Lia.
From Clemens Require Import Base.Res Base.Word Pos.Types Att.Attacks Pos.Position Pos.Fen Pos.Inv Pos.ZobristProofs
  Pos.ZobristInst.
From Clemens.C10Inv Require Import InvStep InvTotal.
Import ListNotations.
Open Scope N_scope.

(* ------------------------------------------------------------------------------------------ *)
(* reachability (New() or a parsed FEN satisfying Inv; then legal moves, null moves made - and made then
   taken back - when the mover is not in check): [reachable] of Pos/ZobristProofs.v                       *)

Theorem inv_step_holds (K : zkeys) : inv_step_statement K.
Proof. unfold inv_step_statement. intros p m q ls. apply inv_step. Qed.

Theorem reachable_inv (K : zkeys) p : reachable K p -> Inv p.
Proof. intros R. apply (reachable_inv_hash_ok K (inv_step_holds K) p R). Qed.

Theorem reachable_hash_ok_closed (K : zkeys) p : reachable K p -> hash_ok K p.
Proof. intros R. apply (reachable_inv_hash_ok K (inv_step_holds K) p R). Qed.

Theorem path_independent_closed (K : zkeys) p1 p2 :
  reachable K p1 -> reachable K p2 ->
  board p1 = board p2 -> side p1 = side p2 -> castling p1 = castling p2 -> ep_file (ep p1) = ep_file (ep p2) ->
  hash p1 = hash p2.
Proof. apply (path_independent K (inv_step_holds K)). Qed.

(* ------------------------------------------------------------------------------------------ *)
(* the property as stated: a list of operations from a position satisfying the invariant        *)

Inductive op : Type :=
| OpMove (m : N)        (* make the move m, which must be in the current legal-move list *)
| OpNull.               (* make a null move; the side to move must not be in check *)

(* [steps K p ops ps]: the operations [ops] can be carried out one after the other from [p], and [ps] are
   the positions reached after each of them (same length as [ops]) *)
Inductive steps (K : zkeys) : position -> list op -> list position -> Prop :=
| steps_nil p : steps K p [] []
| steps_move p m ls q ops ps :
    legal_moves K p = Ok ls -> In m ls -> make_move K p m = Ok q ->
    steps K q ops ps -> steps K p (OpMove m :: ops) (q :: ps)
| steps_null p q e ops ps :
    is_in_check p (side p) = Ok false -> make_null_move K p = Ok (q, e) ->
    steps K q ops ps -> steps K p (OpNull :: ops) (q :: ps).

Theorem steps_inv (K : zkeys) p0 ops ps :
  Inv p0 -> steps K p0 ops ps -> Forall Inv ps.
Proof.
  intros HI S. induction S as [p | p m ls q ops ps L Hin M S IH | p q e ops ps C M S IH].
  - constructor.
  - assert (Inv q) by (eapply inv_step; eauto). constructor; auto.
  - assert (Inv q) by (eapply null_inv; eauto). constructor; auto.
Qed.

(* with the hash: every position on the way has all views consistent and a consistent hash *)
Theorem steps_inv_hash (K : zkeys) p0 ops ps :
  Inv p0 -> hash_ok K p0 -> steps K p0 ops ps -> Forall (fun p => Inv p /\ hash_ok K p) ps.
Proof.
  intros HI HH S. induction S as [p | p m ls q ops ps L Hin M S IH | p q e ops ps C M S IH].
  - constructor.
  - assert (Inv q) by (eapply inv_step; eauto).
    assert (hash_ok K q).
    { destruct (legal_moves_in _ _ _ _ L Hin) as (ms & G & Hin'). exact (make_move_hash_ok K p ms m q HI HH G Hin' M). }
    constructor; auto.
  - assert (Inv q) by (eapply null_inv; eauto).
    assert (hash_ok K q) by (eapply null_hash_ok; eauto).
    constructor; auto.
Qed.

(* and, the key table being well formed, the engine cannot panic on the way: whenever the invariant holds the
   legal-move list exists, and every generated move can be made and tested *)
Theorem no_panic_from_inv (K : zkeys) p :
  keys_wf K = true -> Inv p ->
  (exists ms, gen_moves p = Ok ms) /\
  (forall ms m, gen_moves p = Ok ms -> In m ms ->
     exists q b, make_move K p m = Ok q /\ is_legal q = Ok b /\ inv_nocheck_b q = true) /\
  (exists ls, legal_moves K p = Ok ls).
Proof.
  intros WF HI. split; [apply gen_moves_total, HI|]. split; [|apply legal_moves_total; auto].
  intros ms m G Hin. destruct (make_move_total K WF p ms m HI G Hin) as [q M].
  destruct (is_legal_total K p ms m q HI G Hin M) as [b L]. exists q, b. repeat split; auto.
  eapply gen_step_nocheck; eauto.
Qed.

(* ------------------------------------------------------------------------------------------ *)
(* the hypotheses are met and the conclusion is not trivial: New(), its 20 legal moves, 1. e4   *)

Definition e2e4 : N := mk_move 12 28.

Definition p_start : position :=
  Eval vm_compute in match new_position go_keys with Ok p => p | _ => empty_position end.
Lemma p_start_ok : new_position go_keys = Ok p_start.
Proof. vm_compute. reflexivity. Qed.

Definition ls_start : list N :=
  Eval vm_compute in match legal_moves go_keys p_start with Ok l => l | _ => [] end.
Lemma ls_start_ok : legal_moves go_keys p_start = Ok ls_start.
Proof. vm_compute. reflexivity. Qed.

Definition q_e4 : position :=
  Eval vm_compute in match make_move go_keys p_start e2e4 with Ok q => q | _ => empty_position end.
Lemma q_e4_ok : make_move go_keys p_start e2e4 = Ok q_e4.
Proof. vm_compute. reflexivity. Qed.

Definition q_e4_null : position :=
  Eval vm_compute in match make_null_move go_keys q_e4 with Ok r => fst r | _ => empty_position end.
Lemma q_e4_null_ok : make_null_move go_keys q_e4 = Ok (q_e4_null, 20).
Proof. vm_compute. reflexivity. Qed.

Example inv_step_example :
  keys_wf go_keys = true /\
  new_position go_keys = Ok p_start /\ Inv p_start /\
  legal_moves go_keys p_start = Ok ls_start /\ length ls_start = 20%nat /\ In e2e4 ls_start /\
  make_move go_keys p_start e2e4 = Ok q_e4 /\
  Inv q_e4 /\                                  (* by the theorem *)
  inv_b q_e4 = true /\                         (* and by running the executable invariant *)
  piece_at q_e4 28 = 1 /\ piece_at q_e4 12 = 0 /\ ep q_e4 = 20 /\ side q_e4 = BLACK /\
  board q_e4 <> board p_start /\
  steps go_keys p_start [OpMove e2e4; OpNull] [q_e4; q_e4_null] /\
  Forall Inv [q_e4; q_e4_null].
Proof.
  assert (I0 : Inv p_start) by (eapply new_position_inv; apply p_start_ok).
  assert (Hin : In e2e4 ls_start) by (vm_compute; repeat (try (left; reflexivity); right)).
  assert (Iq : Inv q_e4) by (eapply inv_step; [exact I0 | apply ls_start_ok | exact Hin | apply q_e4_ok]).
  assert (S : steps go_keys p_start [OpMove e2e4; OpNull] [q_e4; q_e4_null]).
  { eapply steps_move; [apply ls_start_ok | exact Hin | apply q_e4_ok |].
    eapply steps_null; [vm_compute; reflexivity | apply q_e4_null_ok | constructor]. }
  split; [vm_compute; reflexivity|]. split; [apply p_start_ok|]. split; [exact I0|].
  split; [apply ls_start_ok|]. split; [reflexivity|]. split; [exact Hin|]. split; [apply q_e4_ok|].
  split; [exact Iq|]. split; [exact Iq|].
  split; [reflexivity|]. split; [reflexivity|]. split; [reflexivity|]. split; [reflexivity|].
  split; [vm_compute; discriminate|]. split; [exact S|].
  exact (steps_inv go_keys _ _ _ I0 S).
Qed.
