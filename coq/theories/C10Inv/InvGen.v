(* C10, part 3: what every generated move looks like in a position satisfying the invariant:
   a piece move along a geometric attack to a square not held by an own piece; a pawn push, pawn capture
   (possibly promoting), en-passant capture; or one of the four castling moves with king and rook at home
   and the squares between them empty. *)
From Coq Require Import NArith ZArith List Bool Lia ZifyBool ZifyN ZifyNat.
From Clemens Require Import Base.Res Base.Word Pos.Types Att.Attacks Att.Geometry Att.ShiftsProofs Att.SlidingProofs
  Att.LeaperInst Pos.Position Pos.Inv Pos.ZobristProofs Att.AttackersProofs.
From Clemens Require Pos.CapturesProofs.
From Clemens.C10Inv Require Import InvViews InvMake.
Import ListNotations.
Open Scope N_scope.

Definition own (p : position) (x : N) : bool := is_piece_of (side p) (piece_at p x).
Definition enemy (p : position) (x : N) : bool := is_piece_of (switch_color (side p)) (piece_at p x).
Notation castle_mv := CapturesProofs.castle_mv.

Definition castle_case (p : position) (m : N) : Prop :=
  (side p = WHITE /\ m = castle_mv E1 G1 /\ N.testbit (castling p) 0 = true /\
     piece_at p F1 = 0 /\ piece_at p G1 = 0) \/
  (side p = WHITE /\ m = castle_mv E1 C1 /\ N.testbit (castling p) 1 = true /\
     piece_at p D1 = 0 /\ piece_at p C1 = 0 /\ piece_at p 1 = 0) \/
  (side p = BLACK /\ m = castle_mv E8 G8 /\ N.testbit (castling p) 2 = true /\
     piece_at p F8 = 0 /\ piece_at p G8 = 0) \/
  (side p = BLACK /\ m = castle_mv E8 C8 /\ N.testbit (castling p) 3 = true /\
     piece_at p D8 = 0 /\ piece_at p C8 = 0 /\ piece_at p 57 = 0).

Inductive move_desc (p : position) (m : N) : Prop :=
| MD_piece s t T : s < 64 -> t < 64 -> m = mk_move s t -> 1 <= T <= 5 ->
    piece_at p s = new_piece (side p) T -> own p t = false -> attacks_geo p s t = true -> move_desc p m
| MD_push s t : s < 64 -> t < 64 -> In m (pawn_move_with_promotion (side p) s t) ->
    piece_at p s = new_piece (side p) PAWN -> geo_pawn_push (side p) s (all_pieces p) t = true -> move_desc p m
| MD_pcap s t : s < 64 -> t < 64 -> In m (pawn_move_with_promotion (side p) s t) ->
    piece_at p s = new_piece (side p) PAWN -> enemy p t = true -> geo_pawn_attack (side p) s t = true ->
    move_desc p m
| MD_ep s : s < 64 -> ep p < 64 -> m = mk_move_kind s (ep p) EN_PASSANT ->
    piece_at p s = new_piece (side p) PAWN -> geo_pawn_attack (side p) s (ep p) = true -> move_desc p m
| MD_castle : castle_case p m -> move_desc p m.

(* ------------------------------------------------------------------------------------------ *)
(* membership in the generators, keeping what [in_pawn_moves]/[in_castling_moves] forget         *)

Lemma in_pawn_moves' m p pawns them : In m (pawn_moves p false pawns them) ->
  exists s, In s (bits pawns) /\
   ((exists t, In t (bits (pushes_by_square (side p) s (all_pieces p))) /\
               In m (pawn_move_with_promotion (side p) s t)) \/
    (exists t, In t (bits (N.land (pawn_attacks (side p) s) them)) /\
               In m (pawn_move_with_promotion (side p) s t)) \/
    (ep p <> SQ_NONE /\
     exists t, In t (bits (N.land (pawn_attacks (side p) s) (bit (ep p)))) /\ m = mk_move_kind s t EN_PASSANT)).
Proof.
  unfold pawn_moves. intros H. apply in_flat_map in H. destruct H as (s & Hs & H). exists s. split; auto.
  apply in_app_or in H. destruct H as [H|H].
  { apply in_flat_map in H. destruct H as (t & Ht & H). left. eauto. }
  apply in_app_or in H. destruct H as [H|H].
  { apply in_flat_map in H. destruct H as (t & Ht & H). right. left. eauto. }
  destruct (ep p =? SQ_NONE) eqn:E; cbn [negb] in H; [destruct H|].
  apply in_map_iff in H. destruct H as (t & <- & Ht). right. right. apply N.eqb_neq in E. eauto.
Qed.

Lemma can_castle_now_full p c : can_castle_now p c = Ok true ->
  N.land c (castling p) <> 0 /\ castling_color c = side p /\
  exists kb s, get_bb p (side p) KING = Ok kb /\ lsb kb = Ok s /\
    castle_walk 4 p (castling_is_queen_side c) s 2%Z (if castling_is_queen_side c then 3%Z else 2%Z) = Ok true.
Proof.
  unfold can_castle_now, can_castle.
  destruct (N.land c (castling p) =? 0) eqn:E1; cbn [negb]; [discriminate|].
  destruct (castling_color c =? side p) eqn:E2; cbn [negb]; [|discriminate].
  intros H. bind_inv H. destruct a; [discriminate|]. bind_inv H. bind_inv H.
  apply N.eqb_neq in E1. apply N.eqb_eq in E2. split; auto. split; auto. eauto.
Qed.

Definition is_castle_of' (p : position) (m : N) : Prop :=
  exists c kb s, In c [WK; WQ; BK; BQ] /\ can_castle_now p c = Ok true /\
    get_bb p (side p) KING = Ok kb /\ lsb kb = Ok s /\
    m = castle_mv s (if castling_is_queen_side c then sub8 s 2 else add8 s 2).

Lemma in_castling_moves' p cs m : castling_moves p = Ok cs -> In m cs -> is_castle_of' p m.
Proof.
  intros H. revert m.
  change (castling_moves p) with (fold_left (fun acc c => l <- acc ;; cm_step p l c) [WK; WQ; BK; BQ] (Ok [])) in H.
  refine (fold_bind_inv (fun l : list N => forall m, In m l -> is_castle_of' p m) _ _ _ _ _ _ H); [|intros m []].
  intros l c l' Hc IH S. unfold cm_step in S.
  destruct (negb (castling_color c =? side p)); [injection S as <-; auto|].
  bind_inv S. destruct a; cbn [negb] in S; [|injection S as <-; auto].
  bind_inv S. bind_inv S. cbv zeta in S. injection S as <-. intros m Hin.
  apply in_app_or in Hin. destruct Hin as [Hin|Hin]; auto.
  destruct Hin as [Hm|[]]. subst m. exists c, a, a0. repeat split; auto.
Qed.

(* ------------------------------------------------------------------------------------------ *)
(* under the invariant                                                                          *)

Section Desc.
Variable p : position.
Hypothesis HI : Inv p.

Lemma parts : board_wf p = true /\ bbs_agree p = true /\ helpers_agree p = true /\ one_king_each p = true /\
  no_back_rank_pawns p = true /\ castling_consistent p = true /\ ep_consistent p = true /\
  scalars_ok p = true /\ mover_not_in_check p = true.
Proof. exact (inv_parts p HI). Qed.
Lemma Hwf : board_wf p = true. Proof. apply parts. Qed.
Lemma Hag : bbs_agree p = true. Proof. apply parts. Qed.
Lemma Hhe : helpers_agree p = true. Proof. apply parts. Qed.

Lemma inv_side : side p = 0 \/ side p = 1.
Proof. pose proof parts as PP; destruct PP as (_ & _ & _ & _ & _ & _ & _ & S & _). apply scalars_ok_spec in S. apply S. Qed.

Lemma inv_side_lt : side p < 2.
Proof. destruct inv_side as [-> | ->]; reflexivity. Qed.

Lemma inv_switch_lt : switch_color (side p) < 2.
Proof. destruct inv_side as [-> | ->]; reflexivity. Qed.

(* a source square read off one of the mover's bitboards *)
Lemma src_of_bb T X s : T < 6 -> get_bb p (side p) T = Ok X -> In s (bits X) ->
  s < 64 /\ piece_at p s = new_piece (side p) T.
Proof.
  intros HT G Hs. rewrite (get_bb_ok p Hag _ _ inv_side_lt HT) in G. injection G as <-.
  apply CapturesProofs.bits_in in Hs.
  assert (Ls : s < 64). { eapply testbit_bound; [|exact Hs]. apply (bb_lt p Hag); auto. apply inv_side_lt. }
  split; auto. rewrite (bb_bit p Hag) in Hs; auto using inv_side_lt. now apply N.eqb_eq.
Qed.

Lemma dest_not_own att t : In t (bits (N.land att (not64 (union6 p (side p))))) ->
  N.testbit att t = true /\ t < 64 /\ own p t = false.
Proof.
  intros Ht. apply CapturesProofs.bits_in in Ht. rewrite N.land_spec in Ht. apply andb_true_iff in Ht.
  destruct Ht as [Ha Hn]. apply CapturesProofs.not64_true in Hn. destruct Hn as [Lt Hn].
  rewrite (union6_spec p Hwf Hag) in Hn; auto using inv_side_lt.
Qed.

Lemma helper_desc T X occ att m :
  1 <= T <= 5 -> get_bb p (side p) T = Ok X ->
  (forall s t, s < 64 -> piece_at p s = new_piece (side p) T ->
     N.testbit (att s occ) t = true -> attacks_geo p s t = true) ->
  In m (gen_helper X occ (not64 (union6 p (side p))) att) -> move_desc p m.
Proof.
  intros HT G Hatt Hin. apply in_gen_helper in Hin. destruct Hin as (s & t & Hs & Ht & ->).
  destruct (src_of_bb T X s ltac:(lia) G Hs) as [Ls Hpc].
  destruct (dest_not_own _ _ Ht) as (Ha & Lt & Ho).
  apply (MD_piece p _ s t T); auto.
Qed.

Ltac side_cases := let e := fresh "Es" in destruct inv_side as [e | e]; rewrite e in *.

Lemma rook_geo s t : s < 64 -> piece_at p s = new_piece (side p) ROOK ->
  N.testbit (rook_attacks s (all_pieces p)) t = true -> attacks_geo p s t = true.
Proof.
  intros Ls Hpc H. rewrite (rook_attacks_exact s _ Ls), (ray_occ p Hwf Hag Hhe) in H.
  unfold attacks_geo. rewrite Hpc. side_cases; exact H.
Qed.
Lemma bishop_geo s t : s < 64 -> piece_at p s = new_piece (side p) BISHOP ->
  N.testbit (bishop_attacks s (all_pieces p)) t = true -> attacks_geo p s t = true.
Proof.
  intros Ls Hpc H. rewrite (bishop_attacks_exact s _ Ls), (ray_occ p Hwf Hag Hhe) in H.
  unfold attacks_geo. rewrite Hpc. side_cases; exact H.
Qed.
Lemma queen_geo s t : s < 64 -> piece_at p s = new_piece (side p) QUEEN ->
  N.testbit (queen_attacks s (all_pieces p)) t = true -> attacks_geo p s t = true.
Proof.
  intros Ls Hpc H. rewrite (queen_attacks_exact s _ Ls), (ray_occ p Hwf Hag Hhe) in H.
  unfold attacks_geo. rewrite Hpc. side_cases; exact H.
Qed.
Lemma knight_geo s t : s < 64 -> piece_at p s = new_piece (side p) KNIGHT ->
  N.testbit (knight_attacks s) t = true -> attacks_geo p s t = true.
Proof.
  intros Ls Hpc H. rewrite (knight_attacks_exact s Ls) in H.
  unfold attacks_geo. rewrite Hpc. side_cases; exact H.
Qed.
Lemma king_geo s t : s < 64 -> piece_at p s = new_piece (side p) KING ->
  N.testbit (king_attacks s) t = true -> attacks_geo p s t = true.
Proof.
  intros Ls Hpc H. rewrite (king_attacks_exact s Ls) in H.
  unfold attacks_geo. rewrite Hpc. side_cases; exact H.
Qed.

(* the king of colour c stands on the square the bit scan finds *)
Lemma king_unique c x y : c < 2 -> x < 64 -> y < 64 ->
  piece_at p x = new_piece c KING -> piece_at p y = new_piece c KING -> x = y.
Proof.
  intros Hc Lx Ly Hx Hy. pose proof parts as PP; destruct PP as (_ & _ & _ & O & _).
  assert (Hpop : popcount (bb_at p c 5) = 1).
  { unfold one_king_each in O. apply andb_true_iff in O. destruct O as [O0 O1].
    apply N.eqb_eq in O0, O1. assert (c = 0 \/ c = 1) as [-> | ->] by lia; assumption. }
  destruct (king_square p c Hwf Hag Hc Hpop) as (k & _ & _ & U).
  rewrite (U x Lx Hx), (U y Ly Hy). reflexivity.
Qed.

Lemma castle_desc m : is_castle_of' p m -> castle_case p m.
Proof.
  intros (c & kb & s & Hc & CC & G & Ls & ->).
  apply can_castle_now_full in CC. destruct CC as (Hr & Hcol & kb' & s' & G' & Ls' & W).
  rewrite G in G'. injection G' as <-. rewrite Ls in Ls'. injection Ls' as <-.
  destruct (src_of_bb KING kb s eq_refl G) as [Hs Hk].
  { apply CapturesProofs.bits_in. now apply CapturesProofs.lsb_testbit. }
  pose proof parts as PP; destruct PP as (_ & _ & _ & _ & _ & CCo & _).
  unfold castling_consistent in CCo. rewrite !andb_true_iff in CCo. destruct CCo as ((((_ & C0) & C1') & C2) & C3).
  apply castle_walk_spec in W. destruct W as (W1 & W2 & W3).
  assert (HT : forall i, N.land (2 ^ i) (castling p) <> 0 -> N.testbit (castling p) i = true).
  { intros i Z. rewrite N.land_comm in Z. apply N.eqb_neq in Z. rewrite land_pow2_testbit in Z.
    now apply negb_false_iff in Z. }
  unfold castle_case.
  destruct Hc as [<-|[<-|[<-|[<-|[]]]]].
  - change (castling_color WK) with WHITE in Hcol. rewrite <- Hcol in *.
    pose proof (HT 0 Hr) as T. rewrite T in C0. cbn [negb orb] in C0. apply andb_true_iff in C0.
    destruct C0 as [K0 _]. apply N.eqb_eq in K0.
    assert (s = E1) as -> by (apply (king_unique 0); auto; reflexivity).
    left. change (castling_is_queen_side WK) with false in *.
    apply get_piece_at in W1, W2. repeat split; auto.
  - change (castling_color WQ) with WHITE in Hcol. rewrite <- Hcol in *.
    pose proof (HT 1 Hr) as T. rewrite T in C1'. cbn [negb orb] in C1'. apply andb_true_iff in C1'.
    destruct C1' as [K0 _]. apply N.eqb_eq in K0.
    assert (s = E1) as -> by (apply (king_unique 0); auto; reflexivity).
    right. left. change (castling_is_queen_side WQ) with true in *. specialize (W3 eq_refl).
    apply get_piece_at in W1, W2, W3. repeat split; auto.
  - change (castling_color BK) with BLACK in Hcol. rewrite <- Hcol in *.
    pose proof (HT 2 Hr) as T. rewrite T in C2. cbn [negb orb] in C2. apply andb_true_iff in C2.
    destruct C2 as [K0 _]. apply N.eqb_eq in K0.
    assert (s = E8) as -> by (apply (king_unique 1); auto; reflexivity).
    right. right. left. change (castling_is_queen_side BK) with false in *.
    apply get_piece_at in W1, W2. repeat split; auto.
  - change (castling_color BQ) with BLACK in Hcol. rewrite <- Hcol in *.
    pose proof (HT 3 Hr) as T. rewrite T in C3. cbn [negb orb] in C3. apply andb_true_iff in C3.
    destruct C3 as [K0 _]. apply N.eqb_eq in K0.
    assert (s = E8) as -> by (apply (king_unique 1); auto; reflexivity).
    right. right. right. change (castling_is_queen_side BQ) with true in *. specialize (W3 eq_refl).
    apply get_piece_at in W1, W2, W3. repeat split; auto.
Qed.

Lemma pawn_desc pawns m :
  get_bb p (side p) PAWN = Ok pawns ->
  In m (pawn_moves p false pawns (union6 p (switch_color (side p)))) -> move_desc p m.
Proof.
  intros G Hin. apply in_pawn_moves' in Hin. destruct Hin as (s & Hs & Hin).
  destruct (src_of_bb PAWN pawns s eq_refl G Hs) as [Ls Hpc].
  destruct Hin as [(t & Ht & Hm) | [(t & Ht & Hm) | (He & t & Ht & ->)]].
  - apply CapturesProofs.bits_in in Ht. pose proof (bnd_pushes _ _ _ _ Ht) as Lt.
    rewrite (pushes_exact _ _ _ Ls) in Ht. apply (MD_push p _ s t); auto.
  - apply CapturesProofs.bits_in in Ht. rewrite N.land_spec in Ht. apply andb_true_iff in Ht. destruct Ht as [Ha Hth].
    pose proof (bnd_pawn_attacks _ _ _ Ha) as Lt. rewrite (pawn_attacks_exact _ _ Ls) in Ha.
    rewrite (union6_spec p Hwf Hag) in Hth; auto using inv_switch_lt. apply (MD_pcap p _ s t); auto.
  - apply CapturesProofs.bits_in in Ht. rewrite N.land_spec in Ht. apply andb_true_iff in Ht. destruct Ht as [Ha Hb].
    assert (Le : ep p < 64).
    { destruct (N.lt_ge_cases (ep p) 64) as [L|L]; auto. rewrite (bit_off_board _ L), N.bits_0 in Hb. discriminate. }
    rewrite (bit_spec _ _ Le) in Hb. apply N.eqb_eq in Hb. subst t.
    rewrite (pawn_attacks_exact _ _ Ls) in Ha. apply (MD_ep p _ s); auto.
Qed.

Theorem gen_moves_desc ms m : gen_moves p = Ok ms -> In m ms -> move_desc p m.
Proof.
  intros G Hin. unfold gen_moves in G.
  rewrite (color_bb_ok p Hhe _ inv_side_lt), (color_bb_ok p Hhe _ inv_switch_lt) in G. cbn [bind] in G.
  bind_inv G. bind_inv G. bind_inv G. bind_inv G. bind_inv G. bind_inv G. bind_inv G.
  injection G as <-.
  repeat (apply in_app_or in Hin; destruct Hin as [Hin|Hin]).
  - eapply (helper_desc ROOK); eauto; [unfold ROOK; lia|]. intros; eapply rook_geo; eauto.
  - eapply (helper_desc BISHOP); eauto; [unfold BISHOP; lia|]. intros; eapply bishop_geo; eauto.
  - eapply (helper_desc QUEEN); eauto; [unfold QUEEN; lia|]. intros; eapply queen_geo; eauto.
  - eapply (helper_desc KNIGHT); eauto; [unfold KNIGHT; lia|]. intros; eapply knight_geo; eauto.
  - eapply pawn_desc; eauto.
  - apply MD_castle, castle_desc. eapply in_castling_moves'; eauto.
  - eapply (helper_desc KING); eauto; [unfold KING; lia|]. intros; eapply king_geo; eauto.
Qed.

End Desc.
