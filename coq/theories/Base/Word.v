(* Machine words as the Go code uses them: uint64 bitboards/hashes as [N] below 2^64 with every
   wrapping operation written out, uint8 counters/squares with wrap mod 256, int16 scores as [Z]
   with two's-complement wrap. No proofs here (model file). *)
From Coq Require Import NArith ZArith List Bool.
From Clemens Require Import Base.Res.
Import ListNotations.
Open Scope N_scope.

Definition two64 : N := Eval compute in 2 ^ 64.
Definition m64 : N := Eval compute in N.ones 64.

Definition w64 (x : N) : N := N.land x m64.
Definition shl64 (x s : N) : N := w64 (N.shiftl x s).
Definition shr64 (x s : N) : N := N.shiftr x s.
Definition not64 (x : N) : N := N.lxor (w64 x) m64.
Definition sub64 (x y : N) : N := (x + two64 - y) mod two64.      (* x, y < 2^64 *)
Definition mul64 (x y : N) : N := (x * y) mod two64.
Definition neg64 (x : N) : N := sub64 0 x.
Definition andnot64 (x y : N) : N := N.ldiff x y.                (* x &^ y *)

(* One << s for a uint8 shift count (Go: a count >= 64 gives 0 for a 64-bit operand) *)
Definition bit (s : N) : N := shl64 1 s.

(* uint8 *)
Definition w8 (x : N) : N := x mod 256.
Definition add8 (x y : N) : N := (x + y) mod 256.
Definition sub8 (x y : N) : N := (x + 256 - y mod 256) mod 256.
Definition z_to_u8 (x : Z) : N := Z.to_N (x mod 256)%Z.

(* int16 *)
Definition wrap16 (x : Z) : Z := ((x + 32768) mod 65536 - 32768)%Z.

(* population count and bit scan *)
Fixpoint pop_pos (p : positive) : N :=
  match p with
  | xH => 1
  | xO q => pop_pos q
  | xI q => 1 + pop_pos q
  end.
Definition popcount (b : N) : N := match b with N0 => 0 | Npos p => pop_pos p end.

Fixpoint ctz_pos (p : positive) : N :=
  match p with
  | xO q => 1 + ctz_pos q
  | _ => 0
  end.
(* bitboard.LeastSignificantOneBit: panics on the empty board *)
Definition lsb (b : N) : res N := match b with N0 => Panic | Npos p => Ok (ctz_pos p) end.

(* b &= b - 1 *)
Definition clear_lsb (b : N) : N := N.land b (N.pred b).

(* The squares of a bitboard in the order the serialisation loops visit them
   (for b != 0 { sq = LSB(b); b &= b-1; ... }): ascending. *)
Fixpoint bits_pos (p : positive) (i : N) : list N :=
  match p with
  | xH => [i]
  | xO q => bits_pos q (i + 1)
  | xI q => i :: bits_pos q (i + 1)
  end.
Definition bits (b : N) : list N := match b with N0 => [] | Npos p => bits_pos p 0 end.

Definition testb (b s : N) : bool := N.testbit b s.

(* list update *)
Fixpoint upd {A} (l : list A) (i : nat) (v : A) : list A :=
  match l, i with
  | [], _ => []
  | _ :: t, O => v :: t
  | h :: t, S j => h :: upd t j v
  end.
