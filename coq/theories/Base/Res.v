(* Result type used by every model function that can fail the way the Go code can:
   a Go [error] return is [Err], a Go run-time panic (index out of range, slice bounds,
   nil dereference, explicit panic) is [Panic].  No model function hides an out-of-range
   access behind a default value. *)
From Coq Require Import List.
Import ListNotations.

Inductive res (A : Type) : Type :=
| Ok (a : A)
| Err
| Panic.
Arguments Ok {A} a.
Arguments Err {A}.
Arguments Panic {A}.

Definition bind {A B} (r : res A) (f : A -> res B) : res B :=
  match r with
  | Ok a => f a
  | Err => Err
  | Panic => Panic
  end.

Notation "x <- r ;; k" := (bind r (fun x => k))
  (at level 61, r at next level, right associativity).

Definition is_panic {A} (r : res A) : bool :=
  match r with Panic => true | _ => false end.
Definition is_ok {A} (r : res A) : bool :=
  match r with Ok _ => true | _ => false end.

Definition nth_res {A} (l : list A) (i : nat) : res A :=
  match nth_error l i with
  | Some a => Ok a
  | None => Panic
  end.
