(* Strings as lists of bytes, with the pieces of Go's library semantics the parsers rely on:
   UTF-8 decoding (RuneError on invalid input), strings.Split on a single byte, strconv.Atoi,
   strconv.Itoa, unicode.IsDigit as a range table. Model file. *)
From Coq Require Import NArith ZArith List Bool.
From Clemens Require Import Base.Res Base.Word.
Import ListNotations.
Open Scope N_scope.

Definition bytes := list N.

Fixpoint bytes_eqb (a b : bytes) : bool :=
  match a, b with
  | [], [] => true
  | x :: a', y :: b' => (x =? y) && bytes_eqb a' b'
  | _, _ => false
  end.

(* strings.Split(s, sep) for a one-byte separator: always at least one field *)
Fixpoint split_on (sep : N) (s : bytes) : list bytes :=
  match s with
  | [] => [[]]
  | c :: r =>
    match split_on sep r with
    | [] => [[c]]                  (* unreachable *)
    | f :: fs => if c =? sep then [] :: f :: fs else (c :: f) :: fs
    end
  end.

(* utf8.DecodeRuneInString: (rune, width); invalid or short input gives (RuneError, 1) *)
Definition RuneError : N := 65533.
Definition cont (b lo hi : N) : bool := (lo <=? b) && (b <=? hi).
Definition decode_rune (s : bytes) : option (N * nat) :=
  match s with
  | [] => None
  | b0 :: r =>
    if b0 <? 128 then Some (b0, 1%nat) else
    let bad := Some (RuneError, 1%nat) in
    if (194 <=? b0) && (b0 <=? 223) then
      match r with
      | b1 :: _ => if cont b1 128 191 then Some (N.lor (N.shiftl (N.land b0 31) 6) (N.land b1 63), 2%nat) else bad
      | _ => bad
      end
    else if (224 <=? b0) && (b0 <=? 239) then
      let lo := if b0 =? 224 then 160 else 128 in
      let hi := if b0 =? 237 then 159 else 191 in
      match r with
      | b1 :: b2 :: _ =>
        if cont b1 lo hi && cont b2 128 191 then
          Some (N.lor (N.lor (N.shiftl (N.land b0 15) 12) (N.shiftl (N.land b1 63) 6)) (N.land b2 63), 3%nat)
        else bad
      | _ => bad
      end
    else if (240 <=? b0) && (b0 <=? 244) then
      let lo := if b0 =? 240 then 144 else 128 in
      let hi := if b0 =? 244 then 143 else 191 in
      match r with
      | b1 :: b2 :: b3 :: _ =>
        if cont b1 lo hi && cont b2 128 191 && cont b3 128 191 then
          Some (N.lor (N.lor (N.lor (N.shiftl (N.land b0 7) 18) (N.shiftl (N.land b1 63) 12))
                             (N.shiftl (N.land b2 63) 6)) (N.land b3 63), 4%nat)
        else bad
      | _ => bad
      end
    else bad
  end.

(* the runes of a string together with their byte offsets, as `for i, r := range s` yields them;
   fuel = length (each step consumes at least one byte) *)
Fixpoint runes_from (fuel : nat) (off : N) (s : bytes) : list (N * N) :=
  match fuel with
  | O => []
  | S f =>
    match decode_rune s with
    | None => []
    | Some (r, w) => (off, r) :: runes_from f (off + N.of_nat w) (skipn w s)
    end
  end.
Definition runes (s : bytes) : list (N * N) := runes_from (length s) 0 s.

(* unicode.IsDigit: Latin-1 fast path, then the Nd range table [(lo, hi, stride)] *)
Definition in_range16 (tbl : list (N * N * N)) (r : N) : bool :=
  existsb (fun e => let '(lo, hi, st) := e in (lo <=? r) && (r <=? hi) && ((r - lo) mod st =? 0)) tbl.
Definition is_digit (tbl : list (N * N * N)) (r : N) : bool :=
  if r <=? 255 then (48 <=? r) && (r <=? 57) else in_range16 tbl r.

(* strconv.Atoi (base 10, int64): optional sign, digits only, range error beyond int64 *)
Definition is_ascii_digit (c : N) : bool := (48 <=? c) && (c <=? 57).
Fixpoint digits_val (s : bytes) (acc : N) : option N :=
  match s with
  | [] => Some acc
  | c :: r => if is_ascii_digit c then digits_val r (acc * 10 + (c - 48)) else None
  end.
Definition two63 : N := Eval compute in 2 ^ 63.
Definition atoi (s : bytes) : option Z :=
  let '(neg, body) :=
    match s with
    | 45 :: r => (true, r)
    | 43 :: r => (false, r)
    | _ => (false, s)
    end in
  match body with
  | [] => None
  | _ =>
    match digits_val body 0 with
    | None => None
    | Some v =>
      if neg then (if v <=? two63 then Some (- Z.of_N v)%Z else None)
      else (if v <? two63 then Some (Z.of_N v) else None)
    end
  end.

(* strconv.Itoa for non-negative values *)
Fixpoint itoa_fuel (fuel : nat) (n : N) (acc : bytes) : bytes :=
  match fuel with
  | O => acc
  | S f =>
    let acc := (48 + n mod 10) :: acc in
    if n / 10 =? 0 then acc else itoa_fuel f (n / 10) acc
  end.
Definition itoa (n : N) : bytes := itoa_fuel 25 n [].
Definition itoa_z (z : Z) : bytes :=
  if (z <? 0)%Z then 45 :: itoa (Z.to_N (- z)) else itoa (Z.to_N z).

(* strings.IndexRune(s, r) for an ASCII-only s: position of the byte r, if r is ASCII *)
Fixpoint index_byte (s : bytes) (c : N) (i : N) : option N :=
  match s with
  | [] => None
  | x :: r => if x =? c then Some i else index_byte r c (i + 1)
  end.
Definition index_rune_ascii (s : bytes) (r : N) : option N :=
  if r <? 128 then index_byte s r 0 else None.
