(* Extraction of the executable model. Only ExtrOcamlBasic is used: bool, option, unit,
   list, prod, sumbool, sumor map to the OCaml types; andb/orb are inlined.
   nat, N, Z, positive stay the Coq inductives. *)
From Coq Require Import ExtrOcamlBasic ZArith NArith List.
From Clemens Require Import Base.Res Search.Time.
From ClemensGen Require Import GoConsts.

Definition m_calc_time := calc_time maxTimeInMs.

Extraction "clemens_model.ml" m_calc_time Z.of_N Z.to_N N.of_nat N.to_nat Z.opp Z.add Z.mul N.add N.mul.
