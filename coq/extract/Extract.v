(* Extraction of the executable model. Only ExtrOcamlBasic is used: bool, option, unit,
   list, prod, sumbool, sumor map to the OCaml types; andb/orb are inlined.
   nat, N, Z, positive stay the Coq inductives. *)
From Coq Require Import ExtrOcamlBasic ZArith NArith List FMapPositive.
From Clemens Require Import Base.Res Base.Word Base.Bytes Search.Time Search.TT.
From Clemens Require Import Pos.Types Att.Attacks Pos.Position Pos.Fen.
From Clemens Require Import Eval.Eval Eval.SeeRef Search.Ordering Search.Negamax.
From Clemens Require Import Uci.ParseGo Uci.Input Uci.Game.
From Clemens Require Rules.Fide Rules.SpecFen Uci.Conc Search.GoInst C15Mirror.Mirror Rules.Abs C15Bound.Material Uci.Engine Uci.EngineInst.
From ClemensGen Require Import GoConsts.
Import ListNotations.

(* the model instantiated with the constants of the current Go build *)
Definition m_calc_time := calc_time maxTimeInMs.

(* the instantiated constant records are defined ONCE, in Search/GoInst.v, and are the ones the property files mention *)
Definition go_keys : zkeys := Search.GoInst.go_keys.
Definition m_new_position := new_position go_keys.
Definition m_new_from_fen := new_from_fen go_keys unicode_digit_tbl.
Definition m_new_from_fen_unrepaired := new_from_fen_unrepaired go_keys unicode_digit_tbl.
Definition m_to_fen := to_fen.
Definition m_scratch_hash := scratch_hash go_keys.
Definition m_make_move := make_move go_keys.
Definition m_legal_moves := legal_moves go_keys.
Definition m_make_null_move := make_null_move go_keys.
Definition m_unmake_null_move := unmake_null_move go_keys.
Definition m_move_from_string := move_from_string unicode_digit_tbl.
Definition m_make_move_from_string := make_move_from_string go_keys unicode_digit_tbl.

Definition go_econsts : econsts := Search.GoInst.go_econsts.
Definition m_eval_raw := eval_raw go_econsts.
Definition m_eval_parts := eval_parts go_econsts.
Definition m_is_draw := is_draw.
Definition m_eval_cached := eval_cached go_econsts.
Definition m_eval_cached_unrepaired := eval_cached_unrepaired go_econsts.
Definition m_see := see go_econsts.
Definition m_see_ref := see_ref go_econsts.
Definition m_contempt := contempt go_econsts.
Definition m_is_endgame := is_endgame go_econsts.

Definition go_oconsts : oconsts := Search.GoInst.go_oconsts.
Definition go_sconsts : sconsts := Search.GoInst.go_sconsts.
Definition m_score_moves := score_moves go_oconsts.
Definition m_search := search go_keys go_econsts go_oconsts go_sconsts.
Definition m_search_root := search_root go_keys go_econsts go_oconsts go_sconsts.
Definition m_negamax := negamax go_keys go_econsts go_oconsts go_sconsts.
Definition m_quiescence := quiescence go_keys go_econsts go_oconsts go_sconsts.
Definition m_init_sst (t : tt_state) (c : ecache) (hist : list N) (cancel : option N) : sst :=
  {| s_tt := t; s_cache := c; s_nodes := 0; s_killers := PositiveMap.empty _; s_history := PositiveMap.empty _;
     s_counter := PositiveMap.empty _; s_hist := hist; s_pv := nil; s_out := nil; s_polls := 0; s_cancel := cancel |}.
Definition m_tt_init : tt_state := tt_init (N.to_nat tt_bucketSize).

Definition m_new_position_cmd := new_position_cmd go_keys unicode_digit_tbl se_history_size.
Definition m_handle_line := handle_line validFirstInputToken.
Definition m_prepare_input := prepare_input validFirstInputToken.

(* C14: the transposition table with the dimensions and the mate bound of the Go build *)
Definition m_tt_bucket_size : nat := N.to_nat tt_bucketSize.
Definition m_tt_index : N -> N := tt_index tt_numberOfBuckets.
Definition m_tt_exec : list tt_op -> tt_state * list (Z * bool * N) :=
  tt_exec tt_numberOfBuckets m_tt_bucket_size eval_INF (tt_init m_tt_bucket_size).
Definition m_hash_full : N -> N := hash_full tt_numberOfBuckets m_tt_bucket_size.

(* C15: the mirror image of a position; C01/C02: the abstraction to the FIDE board state *)
Definition m_mirror := C15Mirror.Mirror.mirror.
Definition m_material_ok := C15Bound.Material.material_ok.
Definition m_abs := Rules.Abs.abs.
Definition m_decode := Rules.Abs.decode.

(* C06: the transition system of the command loop, repaired variant; the interface to the OCaml
   driver goes through nat/bool/list only so that it does not depend on extracted constructor names *)
Definition c06_cmd (n : nat) : Uci.Conc.cmd :=
  match n with 0%nat => Uci.Conc.CPos | 1%nat => Uci.Conc.CGo false | 2%nat => Uci.Conc.CGo true
             | 3%nat => Uci.Conc.CStop | _ => Uci.Conc.CReady end.
(* labels: 0 = reader, 1 + 2k = search goroutine k, 2 + 2i = asynchronous StartSearch activation i *)
Definition c06_label (n : nat) : Uci.Conc.label :=
  match n with 0%nat => Uci.Conc.LR | S m => if Nat.even m then Uci.Conc.LS (Nat.div2 m) else Uci.Conc.LG (Nat.div2 m) end.
Definition c06_label_code (l : Uci.Conc.label) : nat :=
  match l with Uci.Conc.LR => 0%nat | Uci.Conc.LS k => S (2 * k) | Uci.Conc.LG i => S (S (2 * i)) end.
Definition c06_event_code (e : Uci.Conc.event) : nat :=
  match e with Uci.Conc.EReady => 0%nat | Uci.Conc.EBest _ => 1%nat | Uci.Conc.ERefusePos => 2%nat | Uci.Conc.ERefuseGo => 3%nat end.
(* events oldest first, state flag (0 IDLE 1 POSITION_SET 2 RUNNING), unconsumed lines, live search goroutines, lock *)
Definition c06_obs (s : Uci.Conc.cstate) : list nat * nat * nat * nat * bool :=
  (map c06_event_code (rev (Uci.Conc.c_out s)),
   match Uci.Conc.c_gst s with Uci.Conc.IDLE => 0%nat | Uci.Conc.POSSET => 1%nat | Uci.Conc.RUNNING => 2%nat end,
   length (Uci.Conc.c_lines s),
   length (filter (fun t => match Uci.Conc.s_pc t with Uci.Conc.SDone => false | _ => true end) (Uci.Conc.c_searches s)),
   Uci.Conc.c_lock s).
Definition c06_run (d : list nat) (sched : list nat) : list nat * nat * nat * nat * bool :=
  c06_obs (Uci.Conc.run Uci.Conc.repaired (Uci.Conc.init (map c06_cmd d)) (map c06_label sched)).
(* every maximal execution (schedule as label codes) *)
Definition c06_executions (fuel : nat) (d : list nat) : list (list nat) :=
  map (fun x => map c06_label_code (fst x)) (Uci.Conc.executions Uci.Conc.repaired fuel (map c06_cmd d)).
(* one random maximal execution: [pick k n] chooses an index below n for step k *)
Fixpoint c06_walk (fuel : nat) (s : Uci.Conc.cstate) (pick : nat -> nat -> nat) (acc : list nat) : list nat :=
  match fuel with
  | O => rev acc
  | S f =>
    match Uci.Conc.enabled Uci.Conc.repaired s with
    | [] => rev acc
    | ls =>
      let l := nth (pick (length acc) (length ls)) ls Uci.Conc.LR in
      match Uci.Conc.step Uci.Conc.repaired s l with
      | Some s' => c06_walk f s' pick (c06_label_code l :: acc)
      | None => rev acc
      end
    end
  end.
Definition c06_random_execution (fuel : nat) (d : list nat) (pick : nat -> nat -> nat) : list nat :=
  c06_walk fuel (Uci.Conc.init (map c06_cmd d)) pick [].

Extraction "clemens_model.ml"
  c06_run c06_executions c06_random_execution m_mirror m_material_ok m_abs m_decode
  m_calc_time m_tt_index m_tt_exec m_hash_full tt_get tt_save tt_reset
  m_new_position m_new_from_fen m_new_from_fen_unrepaired m_to_fen m_scratch_hash m_make_move m_legal_moves
  m_make_null_move m_unmake_null_move m_move_from_string m_make_move_from_string move_to_string
  gen_moves gen_captures is_in_check is_legal is_capture square_attacked_by can_castle_now
  rook_attacks bishop_attacks queen_attacks rook_walk bishop_walk rook_mask bishop_mask
  knight_attacks king_attacks pawn_attacks pushes_by_square all_subsets magic_index
  popcount lsb bits
  Uci.EngineInst.go_engine_init Uci.EngineInst.go_handle Uci.EngineInst.go_run Uci.EngineInst.go_render
  m_new_position_cmd parse_go parse_go_unrepaired event_text simple_token m_handle_line m_prepare_input
  m_score_moves sort_index visit_order m_search m_search_root m_negamax m_quiescence m_init_sst m_tt_init
  m_eval_raw m_eval_parts m_is_draw m_eval_cached m_eval_cached_unrepaired m_see m_see_ref m_contempt m_is_endgame
  Rules.SpecFen.read_fen Rules.SpecFen.show_fen Rules.SpecFen.show_move Rules.SpecFen.read_move
  Rules.Fide.legal_moves_fast Rules.Fide.legal_moves Rules.Fide.apply Rules.Fide.perft Rules.Fide.in_check
  Rules.Fide.checkmate Rules.Fide.stalemate Rules.Fide.initial Rules.Fide.legal
  Z.of_N Z.to_N N.of_nat N.to_nat Z.opp Z.add Z.mul N.add N.mul.
