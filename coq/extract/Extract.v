(* Extraction of the executable model. Only ExtrOcamlBasic is used: bool, option, unit,
   list, prod, sumbool, sumor map to the OCaml types; andb/orb are inlined.
   nat, N, Z, positive stay the Coq inductives. *)
From Coq Require Import ExtrOcamlBasic ZArith NArith List.
From Clemens Require Import Base.Res Base.Word Base.Bytes Search.Time.
From Clemens Require Import Pos.Types Att.Attacks Pos.Position Pos.Fen.
From Clemens Require Rules.Fide Rules.SpecFen.
From ClemensGen Require Import GoConsts.

(* the model instantiated with the constants of the current Go build *)
Definition m_calc_time := calc_time maxTimeInMs.

Definition go_keys : zkeys :=
  {| zk_piece := zk_piece_tbl; zk_side := zk_side_key; zk_castling := zk_castling_tbl; zk_ep := zk_ep_tbl |}.
Definition m_new_position := new_position go_keys.
Definition m_new_from_fen := new_from_fen go_keys unicode_digit_tbl.
Definition m_new_from_fen_unrepaired := new_from_fen_unrepaired go_keys unicode_digit_tbl.
Definition m_to_fen := to_fen.
Definition m_scratch_hash := scratch_hash go_keys.
Definition m_make_move := make_move go_keys.
Definition m_legal_moves := legal_moves go_keys.
Definition m_make_null_move := make_null_move go_keys.
Definition m_unmake_null_move := unmake_null_move go_keys.
Definition m_move_from_string := move_from_string unicode_digit_tbl.
Definition m_make_move_from_string := make_move_from_string go_keys unicode_digit_tbl.

Extraction "clemens_model.ml"
  m_calc_time
  m_new_position m_new_from_fen m_new_from_fen_unrepaired m_to_fen m_scratch_hash m_make_move m_legal_moves
  m_make_null_move m_unmake_null_move m_move_from_string m_make_move_from_string move_to_string
  gen_moves gen_captures is_in_check is_legal is_capture square_attacked_by can_castle_now
  rook_attacks bishop_attacks queen_attacks rook_walk bishop_walk rook_mask bishop_mask
  knight_attacks king_attacks pawn_attacks pushes_by_square all_subsets magic_index
  popcount lsb bits
  Rules.SpecFen.read_fen Rules.SpecFen.show_fen Rules.SpecFen.show_move Rules.SpecFen.read_move
  Rules.Fide.legal_moves_fast Rules.Fide.legal_moves Rules.Fide.apply Rules.Fide.perft Rules.Fide.in_check
  Rules.Fide.checkmate Rules.Fide.stalemate Rules.Fide.initial Rules.Fide.legal
  Z.of_N Z.to_N N.of_nat N.to_nat Z.opp Z.add Z.mul N.add N.mul.
