(* Extraction of the executable model. Only ExtrOcamlBasic is used: bool, option, unit,
   list, prod, sumbool, sumor map to the OCaml types; andb/orb are inlined.
   nat, N, Z, positive stay the Coq inductives. *)
From Coq Require Import ExtrOcamlBasic ZArith NArith List FMapPositive.
From Clemens Require Import Base.Res Base.Word Base.Bytes Search.Time Search.TT.
From Clemens Require Import Pos.Types Att.Attacks Pos.Position Pos.Fen.
From Clemens Require Import Eval.Eval Eval.SeeRef Search.Ordering Search.Negamax.
From Clemens Require Import Uci.ParseGo Uci.Input Uci.Game.
From Clemens Require Rules.Fide Rules.SpecFen.
From ClemensGen Require Import GoConsts.

(* the model instantiated with the constants of the current Go build *)
Definition m_calc_time := calc_time maxTimeInMs.

Definition go_keys : zkeys :=
  {| zk_piece := zk_piece_tbl; zk_side := zk_side_key; zk_castling := zk_castling_tbl; zk_ep := zk_ep_tbl |}.
Definition m_new_position := new_position go_keys.
Definition m_new_from_fen := new_from_fen go_keys unicode_digit_tbl.
Definition m_new_from_fen_unrepaired := new_from_fen_unrepaired go_keys unicode_digit_tbl.
Definition m_to_fen := to_fen.
Definition m_scratch_hash := scratch_hash go_keys.
Definition m_make_move := make_move go_keys.
Definition m_legal_moves := legal_moves go_keys.
Definition m_make_null_move := make_null_move go_keys.
Definition m_unmake_null_move := unmake_null_move go_keys.
Definition m_move_from_string := move_from_string unicode_digit_tbl.
Definition m_make_move_from_string := make_move_from_string go_keys unicode_digit_tbl.

Definition go_econsts : econsts :=
  {| ec_piece_value := ev_piece_value; ec_mid_pst := ev_mid_pst; ec_end_pst := ev_end_pst;
     ec_isolani := ev_isolani; ec_passed_scalar := ev_passed_scalar; ec_supported_scalar := ev_supported_scalar;
     ec_rook_pair := ev_rook_pair; ec_knight_pair := ev_knight_pair; ec_bishop_pair := ev_bishop_pair;
     ec_knight_pawn_adj := ev_knight_pawn_adj; ec_rook_pawn_adj := ev_rook_pawn_adj; ec_king_att := ev_king_att;
     ec_phase_knight := ev_phase_knight; ec_phase_bishop := ev_phase_bishop; ec_phase_rook := ev_phase_rook;
     ec_phase_queen := ev_phase_queen; ec_max_phase := ev_max_phase; ec_endgame_border := ev_endgame_border;
     ec_contempt := ev_contempt; ec_inf := ev_inf; ec_max_plies := ev_max_plies; ec_cache_size := ev_cache_size |}.
Definition m_eval_raw := eval_raw go_econsts.
Definition m_eval_parts := eval_parts go_econsts.
Definition m_is_draw := is_draw.
Definition m_eval_cached := eval_cached go_econsts.
Definition m_eval_cached_unrepaired := eval_cached_unrepaired go_econsts.
Definition m_see := see go_econsts.
Definition m_see_ref := see_ref go_econsts.
Definition m_contempt := contempt go_econsts.
Definition m_is_endgame := is_endgame go_econsts.

Definition go_oconsts : oconsts :=
  {| oc_pv := mo_pv_score; oc_tt := mo_tt_score; oc_killer := mo_killer_score; oc_promo := mo_promotion_score;
     oc_counter_bonus := mo_counter_bonus; oc_mvv_lva := mo_mvv_lva |}.
Definition go_sconsts : sconsts :=
  {| sc_widen := se_widen_window; sc_max_depth := se_max_depth; sc_q_max_depth := se_quiescence_max_depth;
     sc_fut_depth := se_futility_depth; sc_fut_margin := se_futility_margin;
     sc_static_null_margin := se_static_null_margin; sc_tt_buckets := tt_numberOfBuckets;
     sc_tt_bucket_size := N.to_nat tt_bucketSize; sc_hist_size := se_history_size |}.
Definition m_score_moves := score_moves go_oconsts.
Definition m_search := search go_keys go_econsts go_oconsts go_sconsts.
Definition m_search_root := search_root go_keys go_econsts go_oconsts go_sconsts.
Definition m_negamax := negamax go_keys go_econsts go_oconsts go_sconsts.
Definition m_quiescence := quiescence go_keys go_econsts go_oconsts go_sconsts.
Definition m_init_sst (t : tt_state) (c : ecache) (hist : list N) (cancel : option N) : sst :=
  {| s_tt := t; s_cache := c; s_nodes := 0; s_killers := PositiveMap.empty _; s_history := PositiveMap.empty _;
     s_counter := PositiveMap.empty _; s_hist := hist; s_pv := nil; s_out := nil; s_polls := 0; s_cancel := cancel |}.
Definition m_tt_init : tt_state := tt_init (N.to_nat tt_bucketSize).

Definition m_new_position_cmd := new_position_cmd go_keys unicode_digit_tbl se_history_size.
Definition m_handle_line := handle_line validFirstInputToken.
Definition m_prepare_input := prepare_input validFirstInputToken.

(* C14: the transposition table with the dimensions and the mate bound of the Go build *)
Definition m_tt_bucket_size : nat := N.to_nat tt_bucketSize.
Definition m_tt_index : N -> N := tt_index tt_numberOfBuckets.
Definition m_tt_exec : list tt_op -> tt_state * list (Z * bool * N) :=
  tt_exec tt_numberOfBuckets m_tt_bucket_size eval_INF (tt_init m_tt_bucket_size).
Definition m_hash_full : N -> N := hash_full tt_numberOfBuckets m_tt_bucket_size.

Extraction "clemens_model.ml"
  m_calc_time m_tt_index m_tt_exec m_hash_full tt_get tt_save tt_reset
  m_new_position m_new_from_fen m_new_from_fen_unrepaired m_to_fen m_scratch_hash m_make_move m_legal_moves
  m_make_null_move m_unmake_null_move m_move_from_string m_make_move_from_string move_to_string
  gen_moves gen_captures is_in_check is_legal is_capture square_attacked_by can_castle_now
  rook_attacks bishop_attacks queen_attacks rook_walk bishop_walk rook_mask bishop_mask
  knight_attacks king_attacks pawn_attacks pushes_by_square all_subsets magic_index
  popcount lsb bits
  m_new_position_cmd parse_go parse_go_unrepaired event_text simple_token m_handle_line m_prepare_input
  m_score_moves sort_index visit_order m_search m_search_root m_negamax m_quiescence m_init_sst m_tt_init
  m_eval_raw m_eval_parts m_is_draw m_eval_cached m_eval_cached_unrepaired m_see m_see_ref m_contempt m_is_endgame
  Rules.SpecFen.read_fen Rules.SpecFen.show_fen Rules.SpecFen.show_move Rules.SpecFen.read_move
  Rules.Fide.legal_moves_fast Rules.Fide.legal_moves Rules.Fide.apply Rules.Fide.perft Rules.Fide.in_check
  Rules.Fide.checkmate Rules.Fide.stalemate Rules.Fide.initial Rules.Fide.legal
  Z.of_N Z.to_N N.of_nat N.to_nat Z.opp Z.add Z.mul N.add N.mul.
