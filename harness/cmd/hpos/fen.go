package main

import (
	"encoding/hex"
	"fmt"
	"strings"

	"github.com/shaardie/clemens/pkg/move"
	"github.com/shaardie/clemens/pkg/position"
	"verifharness/common"
	"verifharness/poslib"
)

// Key FEN. Case: "<flag> <hex of the string>", flag C = FEN printed from a legal position
// (canonical), M = structured mutant, R = raw bytes.
// Observable: ok <posline> | <ToFen text>   /  err  /  panic
func init() { props["FEN"] = common.Prop{Gen: fenGen, Run: fenRun} }

var fenCorpus = []string{
	// D2 witnesses
	"rnbqkbnrr/pppppppp/8/8/8/8/PPPPPPPP/RNBQKBNR w KQkq - 0 1",
	"8p/8/8/8/8/8/8/8 w - - 0 1",
	"8/8/8/8/8/8/8/8/8/8/k w - - 0 1",
	"rnbqkbnr/pppppppp/8/8/8/8/PPPPPPPP/RNBQKBNR w KQkq - 0 1",
	"",
	" ",
	"      ",
	"8/8/8/8/8/8/8/8 w - - 0 1",
	"8/8/8/8/8/8/8/8 w - - x 1",
	"8/8/8/8/8/8/8/8 w - - 0 99999999999999999999",
	"8/8/8/8/8/8/8/8 w - - -1 -1",
	"8/8/8/8/8/8/8/8 w - - +7 +300",
	"8/8/8/8/8/8/8/8 w  - 0 1",
	"8/8/8/8/8/8/8/8 w - a 0 1",
	"8/8/8/8/8/8/8/8 w - a0 0 1",
	"8/8/8/8/8/8/8/8 w - h9 0 1",
	"8/8/8/8/8/8/8/8 w - a٣ 0 1",
	"٣k4/8/8/8/8/8/8/4K3 w - - 0 1",
	"4k3/8/8/8/8/8/8/4K2٩ w - - 0 1",
	"////////////////////////////////////////k w - - 0 1",
	"99999999999999999999999999999k w - - 0 1",
	"k\xff\xfe/8 w - - 0 1",
	"4k3/8/8/8/8/8/8/4K3 w KQkqKQkq - 0 1",
	"4k3/8/8/8/8/8/8/4K3 w \xc3\x28 - 0 1",
	"4k3/8/8/8/8/8/8/R3K2R w KQ - 255 128",
	"4k3/8/8/8/8/8/8/R3K2R b KQ - 256 129",
}

func fenMutate(r *common.Rng, s string) string {
	b := []byte(s)
	alphabet := []byte("pnbrqkPNBRQK12345678/ -wbKQkqabcdefgh09xX+\t\x00\xff\xc3\xa9")
	for k := 0; k <= r.Intn(3); k++ {
		if len(b) == 0 {
			b = append(b, alphabet[r.Intn(len(alphabet))])
			continue
		}
		i := r.Intn(len(b))
		switch r.Intn(7) {
		case 0: // replace
			b[i] = alphabet[r.Intn(len(alphabet))]
		case 1: // delete
			b = append(b[:i], b[i+1:]...)
		case 2: // insert
			b = append(b[:i], append([]byte{alphabet[r.Intn(len(alphabet))]}, b[i:]...)...)
		case 3: // duplicate a chunk
			j := i + r.Intn(8)
			if j > len(b) {
				j = len(b)
			}
			b = append(b[:j], append(append([]byte{}, b[i:j]...), b[j:]...)...)
		case 4: // digit overflow
			b = append(b[:i], append([]byte(fmt.Sprint(r.U64())), b[i:]...)...)
		case 5: // non-ASCII digit or multi-byte rune
			ins := []string{"٣", "३", "\U0001D7D8", "é", "\xe2\x82", "\xf0\x9f"}[r.Intn(6)]
			b = append(b[:i], append([]byte(ins), b[i:]...)...)
		case 6: // truncate
			b = b[:i]
		}
	}
	return string(b)
}

func fenGen(r *common.Rng, n int, shard int, out *common.Out) {
	if shard == 0 {
		for _, s := range fenCorpus {
			out.Line("M %s", poslib.Hex(s))
		}
		for _, s := range poslib.CuratedFens {
			out.Line("M %s", poslib.Hex(s))
		}
		// counter boundaries as canonical texts (full-move number 1..128, half-move clock 0..255)
		for _, s := range []string{
			"4k3/8/8/8/8/8/8/R3K2R w KQ - 255 128", "4k3/8/8/8/8/8/8/R3K2R b KQ - 254 128", "4k3/8/8/8/8/8/8/R3K2R b KQ - 0 127",
			"4k3/8/8/8/8/8/8/R3K2R w KQ - 100 100", "r3k2r/8/8/8/8/8/8/4K3 b kq - 9 1", "r3k2r/8/8/8/8/8/8/4K3 w kq - 10 2",
		} {
			out.Line("C %s", poslib.Hex(s))
		}
	}
	starts := poslib.StartPositions()
	cnt := 0
	for cnt < n {
		start := starts[r.Intn(len(starts))]
		poslib.Playout(r, start, 10+r.Intn(120), r.Chance(1, 2), func(p *position.Position, _ []move.Move, _ move.Move) bool {
			if !r.Chance(1, 3) {
				return true
			}
			q := *p
			// vary the counters over their whole range now and then
			if r.Chance(1, 4) {
				q.HalfMoveClock = uint8(r.Intn(256))
			}
			if r.Chance(1, 4) {
				q.Ply = uint8(r.Intn(256))
				if (q.Ply%2 == 1) != (q.SideToMove == 1) {
					q.Ply ^= 1
				}
			}
			// canonical text comes from the harness's own printer, not from the engine's ToFen
			fen := poslib.SimpleFen(&q.PiecesBoard, q.SideToMove, int(q.Castling), int(q.EnPassant), int(q.HalfMoveClock), int(q.Ply)/2+1)
			out.Line("C %s", poslib.Hex(fen))
			cnt++
			if r.Chance(1, 2) {
				out.Line("M %s", poslib.Hex(fenMutate(r, fen)))
				cnt++
			}
			if r.Chance(1, 20) {
				raw := make([]byte, r.Intn(80))
				for i := range raw {
					raw[i] = byte(r.Intn(256))
				}
				out.Line("R %s", hex.EncodeToString(raw))
				cnt++
			}
			return cnt < n
		})
	}
}

func fenRun(cases []string, obs, oracle *common.Out) {
	for _, line := range cases {
		f := strings.Fields(line)
		flag := f[0]
		hx := ""
		if len(f) > 1 {
			hx = f[1]
		}
		raw, _ := hex.DecodeString(hx)
		s := string(raw)
		var p *position.Position
		var err error
		res := common.Protect(func() string {
			p, err = position.NewFromFen(s)
			if err != nil {
				return "err"
			}
			return "ok"
		})
		verdict := "OK"
		switch res {
		case "panic":
			obs.Line("panic")
			verdict = "FAIL [C11] NewFromFen panics on this string"
		case "err":
			obs.Line("err")
			if flag == "C" {
				verdict = "FAIL [C11] a FEN printed from a legal position is rejected"
			}
		default:
			printed := common.Protect(func() string { return p.ToFen() })
			obs.Line("ok %s | %s", poslib.PosLine(p), printed)
			// round trip for legal positions
			if poslib.NaiveInv(p) == "" {
				q, err2 := position.NewFromFen(printed)
				if printed == "panic" || err2 != nil {
					verdict = "FAIL [C11] the printed FEN of a legal position does not parse"
				} else if *q != *p {
					verdict = fmt.Sprintf("FAIL [C11] parse(print(p)) differs from p: %s vs %s", poslib.PosLine(q), poslib.PosLine(p))
				} else if flag == "C" && printed != s {
					verdict = fmt.Sprintf("FAIL [C11] printing the parsed canonical FEN gives %q", printed)
				} else if p.ZobristHash != poslib.ScratchHash(p) {
					verdict = fmt.Sprintf("FAIL [C09] hash of the loaded FEN %x is not the from-scratch hash %x", p.ZobristHash, poslib.ScratchHash(p))
				}
			}
		}
		oracle.Line("%s", verdict)
	}
}
