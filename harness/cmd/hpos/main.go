// hpos: harness for the properties anchored in pkg/position and pkg/pieces
// (C01, C02, C03, C09, C10, C11, C12, C17).
package main

import "verifharness/common"

var props = map[string]common.Prop{}

func main() { common.Main(props) }
