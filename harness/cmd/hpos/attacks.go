package main

import (
	"fmt"
	"strconv"
	"strings"

	"github.com/shaardie/clemens/pkg/bitboard"
	"github.com/shaardie/clemens/pkg/pieces/bishop"
	"github.com/shaardie/clemens/pkg/pieces/king"
	"github.com/shaardie/clemens/pkg/pieces/knight"
	"github.com/shaardie/clemens/pkg/pieces/pawn"
	"github.com/shaardie/clemens/pkg/pieces/queen"
	"github.com/shaardie/clemens/pkg/pieces/rook"
	"github.com/shaardie/clemens/pkg/types"
	"verifharness/common"
)

// Key ATTACKS (C12). Case: "<kind> <square> <occupancy hex>", kind in r b q n k pw pb uw ub
// (uw/ub = pawn pushes white/black). Observable: the attack set (hex).
// Key ATTACKS-ALL: the exhaustive enumeration: every square with every subset of the relevant
// occupancy of rook and bishop (107,648 cases), all leaper and pawn entries.
func init() {
	props["ATTACKS"] = common.Prop{Gen: attacksGen, Run: attacksRun}
	props["ATTACKS-ALL"] = common.Prop{Gen: attacksAllGen, Run: attacksRun}
}

// geometric reference on an occupancy set
func geoRay(sq int, occ uint64, dirs [][2]int) uint64 {
	var res uint64
	for _, d := range dirs {
		f, r := sq%8+d[0], sq/8+d[1]
		for f >= 0 && f < 8 && r >= 0 && r < 8 {
			s := uint(r*8 + f)
			res |= 1 << s
			if occ&(1<<s) != 0 {
				break
			}
			f, r = f+d[0], r+d[1]
		}
	}
	return res
}

var rookDirs = [][2]int{{1, 0}, {-1, 0}, {0, 1}, {0, -1}}
var bishopDirs = [][2]int{{1, 1}, {1, -1}, {-1, 1}, {-1, -1}}
var knightJumps = [][2]int{{1, 2}, {2, 1}, {2, -1}, {1, -2}, {-1, -2}, {-2, -1}, {-2, 1}, {-1, 2}}
var kingSteps = [][2]int{{1, 0}, {1, 1}, {0, 1}, {-1, 1}, {-1, 0}, {-1, -1}, {0, -1}, {1, -1}}

func geoJumps(sq int, js [][2]int) uint64 {
	var res uint64
	for _, d := range js {
		f, r := sq%8+d[0], sq/8+d[1]
		if f >= 0 && f < 8 && r >= 0 && r < 8 {
			res |= 1 << uint(r*8+f)
		}
	}
	return res
}

func geoPush(white bool, sq int, occ uint64) uint64 {
	dir, start := 1, 1
	if !white {
		dir, start = -1, 6
	}
	r := sq/8 + dir
	if r < 0 || r > 7 {
		return 0
	}
	one := uint(r*8 + sq%8)
	if occ&(1<<one) != 0 {
		return 0
	}
	res := uint64(1) << one
	if sq/8 == start {
		two := uint((r+dir)*8 + sq%8)
		if occ&(1<<two) == 0 {
			res |= 1 << two
		}
	}
	return res
}

// relevant occupancy: rays without their last squares
func relevantMask(sq int, dirs [][2]int) uint64 {
	var res uint64
	for _, d := range dirs {
		f, r := sq%8+d[0], sq/8+d[1]
		for f+d[0] >= 0 && f+d[0] < 8 && r+d[1] >= 0 && r+d[1] < 8 {
			res |= 1 << uint(r*8+f)
			f, r = f+d[0], r+d[1]
		}
	}
	return res
}

func attacksAllGen(r *common.Rng, n int, shard int, out *common.Out) {
	for sq := 0; sq < 64; sq++ {
		for _, k := range []struct {
			name string
			dirs [][2]int
		}{{"r", rookDirs}, {"b", bishopDirs}} {
			mask := relevantMask(sq, k.dirs)
			sub := uint64(0)
			for {
				out.Line("%s %d %x", k.name, sq, sub)
				sub = (sub - mask) & mask
				if sub == 0 {
					break
				}
			}
		}
		for _, k := range []string{"n", "k", "pw", "pb", "mr", "mb"} {
			out.Line("%s %d 0", k, sq)
		}
		// pushes: the four occupancy patterns of the two squares in front, plus the full and empty boards
		for _, k := range []string{"uw", "ub"} {
			dir := 8
			if k == "ub" {
				dir = -8
			}
			for pat := 0; pat < 4; pat++ {
				var occ uint64
				for i := 1; i <= 2; i++ {
					s := sq + i*dir
					if pat&i != 0 && s >= 0 && s < 64 {
						occ |= 1 << uint(s)
					}
				}
				out.Line("%s %d %x", k, sq, occ)
			}
			out.Line("%s %d %x", k, sq, ^uint64(0))
		}
	}
}

func attacksGen(r *common.Rng, n int, shard int, out *common.Out) {
	kinds := []string{"r", "b", "q", "r", "b", "q", "uw", "ub"}
	for i := 0; i < n; i++ {
		occ := r.U64()
		switch r.Intn(4) {
		case 0:
			occ &= r.U64()
		case 1:
			occ &= r.U64() & r.U64()
		case 2:
			occ |= r.U64()
		}
		out.Line("%s %d %x", kinds[r.Intn(len(kinds))], r.Intn(64), occ)
	}
}

func attacksRun(cases []string, obs, oracle *common.Out) {
	for _, line := range cases {
		f := strings.Fields(line)
		sq, _ := strconv.Atoi(f[1])
		occ, _ := strconv.ParseUint(f[2], 16, 64)
		var got, want uint64
		res := common.Protect(func() string {
			s := uint8(sq)
			o := bitboard.Bitboard(occ)
			switch f[0] {
			case "r":
				got, want = uint64(rook.AttacksBySquare(s, o)), geoRay(sq, occ, rookDirs)
			case "b":
				got, want = uint64(bishop.AttacksBySquare(s, o)), geoRay(sq, occ, bishopDirs)
			case "q":
				got, want = uint64(queen.AttacksBySquare(s, o)), geoRay(sq, occ, rookDirs)|geoRay(sq, occ, bishopDirs)
			case "n":
				got, want = uint64(knight.AttacksBySquare(s)), geoJumps(sq, knightJumps)
			case "k":
				got, want = uint64(king.AttacksBySquare(s)), geoJumps(sq, kingSteps)
			case "pw":
				got, want = uint64(pawn.AttacksBySquare(types.WHITE, s)), geoJumps(sq, [][2]int{{1, 1}, {-1, 1}})
			case "pb":
				got, want = uint64(pawn.AttacksBySquare(types.BLACK, s)), geoJumps(sq, [][2]int{{1, -1}, {-1, -1}})
			case "mr": // the relevant-occupancy mask of the magic entry
				m, _, _, _ := rook.VerifMagic(s)
				got, want = m, relevantMask(sq, rookDirs)
			case "mb":
				m, _, _, _ := bishop.VerifMagic(s)
				got, want = m, relevantMask(sq, bishopDirs)
			case "uw":
				got, want = uint64(pawn.PushesBySquare(types.WHITE, s, o)), geoPush(true, sq, occ)
			case "ub":
				got, want = uint64(pawn.PushesBySquare(types.BLACK, s, o)), geoPush(false, sq, occ)
			}
			return "ok"
		})
		if res == "panic" {
			obs.Line("panic")
			oracle.Line("FAIL [C12] attack computation panics")
			continue
		}
		obs.Line("%x", got)
		// pawn pushes are only meaningful for squares a pawn can stand on
		if (f[0] == "uw" || f[0] == "ub") && (sq < 8 || sq >= 56) {
			oracle.Line("OK")
		} else if got != want {
			oracle.Line("%s", fmt.Sprintf("FAIL [C12] %s on square %d with occupancy %x: engine %x, geometric definition %x", f[0], sq, occ, got, want))
		} else {
			oracle.Line("OK")
		}
	}
}
