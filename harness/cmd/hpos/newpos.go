package main

import (
	"fmt"
	"os"
	"strings"

	"github.com/shaardie/clemens/pkg/move"
	"github.com/shaardie/clemens/pkg/position"
	"github.com/shaardie/clemens/pkg/uci/game"
	"verifharness/common"
	"verifharness/poslib"
)

// Key NEWPOS (C03). Case: the tokens of a `position` command (after the word "position").
// Observable: "set <posline> H:<hash,hash,...>" / "moveerr <posline> H:…" / "none" / "panic".
// Key GAMESPEC (C03, compared with the FIDE specification): same case; observable: final FEN.
func init() {
	props["NEWPOS"] = common.Prop{Gen: newposGen, Run: newposRun}
	props["GAMESPEC"] = common.Prop{Gen: gamespecGen, Run: gamespecRun}
}

func genGame(r *common.Rng, maxPlies int) (start string, moves []string) {
	starts := poslib.StartPositions()
	si := r.Intn(len(starts))
	if r.Chance(1, 2) {
		si = 0
	}
	start = "startpos"
	if si > 0 {
		start = "fen " + poslib.CuratedFens[si-1]
	}
	poslib.Playout(r, starts[si], maxPlies, r.Chance(2, 3), func(p *position.Position, legal []move.Move, m move.Move) bool {
		// a game ends by rule after 75 moves without capture or pawn move (FIDE 9.6.2)
		if m == move.NullMove || p.HalfMoveClock >= 150 {
			return false
		}
		moves = append(moves, m.String())
		return true
	})
	return
}

func newposGen(r *common.Rng, n int, shard int, out *common.Out) {
	if shard == 0 {
		for _, s := range []string{
			"startpos", "startpos moves", "startpos moves e2e4", "startpos moves e2e4 e7e5 g1f3", "startpos e2e4",
			"fen rnbqkbnr/pppppppp/8/8/8/8/PPPPPPPP/RNBQKBNR w KQkq - 0 1 moves e2e4",
			"fen 8/8/8 w", "fen", "", "startpos moves e2e4 zz e7e5", "startpos moves e2 e4",
			"fen 8/P6k/8/8/8/8/p6K/8 w - - 0 1 moves a7a8q a2a1n a8a1",
			"fen r3k2r/8/8/8/8/8/8/R3K2R w KQkq - 0 1 moves e1g1 e8c8",
			"fen 8/8/8/2k5/2pP4/8/B7/4K3 b - d3 0 3 moves c4d3",
		} {
			out.Line("%s", s)
		}
		for _, g := range longGames(2) {
			out.Line("%s", g)
		}
	}
	for i := 0; i < n; i++ {
		maxPlies := r.Intn(80)
		if r.Chance(1, 20) {
			maxPlies = 200 + r.Intn(400)
		}
		start, moves := genGame(r, maxPlies)
		line := start
		if len(moves) > 0 || r.Chance(1, 3) {
			line += " moves " + strings.Join(moves, " ")
		}
		out.Line("%s", strings.TrimSpace(line))
	}
}

func newposRun(cases []string, obs, oracle *common.Out) {
	devnull, _ := os.OpenFile(os.DevNull, os.O_WRONLY, 0)
	for _, line := range cases {
		tokens := strings.Fields(line)
		var p position.Position
		var hist []uint64
		var ok, set bool
		saved := os.Stdout
		os.Stdout = devnull
		res := common.Protect(func() string {
			p, hist, ok, set = game.VerifNewPosition(tokens)
			return "ok"
		})
		os.Stdout = saved
		if res == "panic" {
			obs.Line("panic")
			oracle.Line("OK")
			continue
		}
		if !ok {
			obs.Line("none")
			oracle.Line("OK")
			continue
		}
		hs := make([]string, len(hist))
		for i, h := range hist {
			hs[i] = fmt.Sprintf("%x", h)
		}
		// how many of the given moves were applied?
		nmoves := 0
		for i, t := range tokens {
			if t == "moves" {
				nmoves = len(tokens) - i - 1
				break
			}
		}
		kind := "set"
		if len(hist) < nmoves {
			kind = "moveerr"
		}
		_ = set
		obs.Line("%s %s H:%s", kind, poslib.PosLine(&p), strings.Join(hs, ","))
		oracle.Line("OK")
	}
}

// longGames: legal games of exactly 600 plies (the upper end of C03's range), found by trying fixed seeds in
// order, so that they are the same on every run; shard 0 of NEWPOS and GAMESPEC starts with them.
func longGames(count int) []string {
	var res []string
	starts := poslib.StartPositions()
	for seed := uint64(1); seed < 4000 && len(res) < count; seed++ {
		rr := common.NewRng(seed*0x9E3779B97F4A7C15 + 12345)
		var moves []string
		poslib.Playout(rr, starts[0], 600, false, func(p *position.Position, legal []move.Move, m move.Move) bool {
			if m == move.NullMove || p.HalfMoveClock >= 150 {
				return false
			}
			moves = append(moves, m.String())
			return true
		})
		if len(moves) == 600 {
			res = append(res, "fen "+poslib.CuratedFens[0]+" moves "+strings.Join(moves, " "))
		}
	}
	return res
}

func gamespecGen(r *common.Rng, n int, shard int, out *common.Out) {
	if shard == 0 {
		for _, g := range longGames(2) {
			out.Line("%s", g)
		}
	}
	for i := 0; i < n; i++ {
		// one game in three starts from a position built around a rare structural coincidence (poslib.MotifPosition) and
		// plays a few plies with raised weight on captures, king and rook moves: rights lost by captures on home squares,
		// en passant exposing a king, promotions onto occupied corners are reached here, not in games from the start position
		if r.Chance(1, 3) {
			if fen, ok := poslib.MotifPosition(r); ok {
				if p0, err := position.NewFromFen(fen); err == nil {
					var moves []string
					poslib.Playout(r, *p0, 1+r.Intn(6), true, func(p *position.Position, legal []move.Move, m move.Move) bool {
						if m == move.NullMove {
							return false
						}
						moves = append(moves, m.String())
						return true
					})
					if len(moves) > 0 {
						out.Line("fen %s moves %s", fen, strings.Join(moves, " "))
						continue
					}
				}
			}
		}
		maxPlies := r.Intn(120)
		if r.Chance(1, 15) {
			maxPlies = 250 + r.Intn(350)
		}
		start, moves := genGame(r, maxPlies)
		if start == "startpos" {
			start = "fen " + poslib.CuratedFens[0]
		}
		out.Line("%s moves %s", start, strings.Join(moves, " "))
	}
}

// Observable: the FEN of the position the engine will search; for games longer than the 8-bit ply
// counter allows the full-move number is printed modulo 128 on both sides.
func gamespecRun(cases []string, obs, oracle *common.Out) {
	devnull, _ := os.OpenFile(os.DevNull, os.O_WRONLY, 0)
	for _, line := range cases {
		tokens := strings.Fields(line)
		saved := os.Stdout
		os.Stdout = devnull
		var p position.Position
		var ok bool
		res := common.Protect(func() string {
			p, _, ok, _ = game.VerifNewPosition(tokens)
			return "ok"
		})
		os.Stdout = saved
		switch {
		case res != "ok":
			obs.Line("panic") // the games of this key are legal: the specification prints a FEN, so this is a failing input
		case !ok:
			obs.Line("none")
		default:
			obs.Line("%s", p.ToFen())
		}
		oracle.Line("OK")
	}
}
