package main

import (
	"fmt"
	"sort"
	"strings"

	"github.com/shaardie/clemens/pkg/bitboard"
	"github.com/shaardie/clemens/pkg/move"
	"github.com/shaardie/clemens/pkg/position"
	"github.com/shaardie/clemens/pkg/types"
	"verifharness/common"
	"verifharness/poslib"
)

// Key MOVES. Case: a FEN (text). Observable: pseudo-legal list, capture list, legal list (encoded
// moves in generation order), check flags, capture flags, attackers of all 64 squares, successor
// FEN + hash per legal move, printed text per legal move.
func init() { props["MOVES"] = common.Prop{Gen: movesGen, Run: movesRun} }

func movesGen(r *common.Rng, n int, shard int, out *common.Out) {
	if shard == 0 {
		for _, s := range poslib.CuratedFens {
			out.Line("%s", s)
		}
	}
	starts := poslib.StartPositions()
	cnt := 0
	for cnt < n {
		// one case in four is a position built around a rare structural coincidence (en passant just possible with pieces on
		// the lines through the pawns, castling rights with attackers around, promotions next to pieces), or its successor
		if r.Chance(1, 4) {
			if fen, ok := poslib.MotifPosition(r); ok {
				out.Line("%s", fen)
				cnt++
				if p, err := position.NewFromFen(fen); err == nil && r.Chance(1, 2) {
					if legal := poslib.Legal(p); len(legal) > 0 {
						p.MakeMove(legal[r.Intn(len(legal))])
						out.Line("%s", p.ToFen())
						cnt++
					}
				}
			}
			continue
		}
		si := r.Intn(len(starts))
		if r.Chance(1, 2) {
			si = r.Intn(2) // start position and Kiwipete carry half of the corpus
		}
		poslib.Playout(r, starts[si], 10+r.Intn(150), r.Chance(1, 2), func(p *position.Position, legal []move.Move, _ move.Move) bool {
			// keep positions with something special more often
			special := p.EnPassant != types.SQUARE_NONE || p.IsInCheck(p.SideToMove)
			for _, m := range legal {
				if m.GetMoveType() != move.NORMAL {
					special = true
				}
			}
			// C02 is stated for the range the byte counters can represent (ply and half-move clock below 255):
			// a position at the edge would make the successor's printed counters wrap, which is not a violation
			if p.Ply >= 255 || p.HalfMoveClock >= 255 {
				return cnt < n
			}
			if special && r.Chance(1, 2) || r.Chance(1, 6) {
				out.Line("%s", p.ToFen())
				cnt++
			}
			return cnt < n
		})
	}
}

func sortedLow(ms []move.Move) []int {
	r := make([]int, len(ms))
	for i, m := range ms {
		r[i] = int(uint32(m) & 0xffff)
	}
	sort.Ints(r)
	return r
}

func movesRun(cases []string, obs, oracle *common.Out) {
	for _, line := range cases {
		p, err := position.NewFromFen(strings.TrimSpace(line))
		if err != nil {
			obs.Line("err")
			oracle.Line("OK")
			continue
		}
		var verdicts []string
		fail := func(tag, format string, a ...any) {
			if len(verdicts) < 4 {
				verdicts = append(verdicts, "["+tag+"] "+fmt.Sprintf(format, a...))
			}
		}
		res := common.Protect(func() string {
			var sb strings.Builder
			pseudo := poslib.PseudoLegal(p)
			caps := poslib.Captures(p)
			legal := poslib.Legal(p)
			sb.WriteString("G:" + poslib.MovesStr(pseudo))
			sb.WriteString(" C:" + poslib.MovesStr(caps))
			sb.WriteString(" L:" + poslib.MovesStr(legal))
			b2s := func(b bool) string {
				if b {
					return "1"
				}
				return "0"
			}
			sb.WriteString(" chk:" + b2s(p.IsInCheck(types.WHITE)) + b2s(p.IsInCheck(types.BLACK)))
			sb.WriteString(" cap:")
			var capOfFull []move.Move
			for _, m := range pseudo {
				c := p.IsCapture(m)
				sb.WriteString(b2s(c))
				if c {
					capOfFull = append(capOfFull, m)
				}
			}
			sb.WriteString(" att:")
			legalPos := poslib.NaiveInv(p) == ""
			for sq := 0; sq < 64; sq++ {
				a := uint64(p.SquareAttackedBy(uint8(sq)))
				fmt.Fprintf(&sb, "%x,", a)
				if legalPos {
					if na := poslib.NaiveAttackers(&p.PiecesBoard, sq); na != a {
						fail("C12", "attackers of square %d: engine %x, geometric rules %x", sq, a, na)
					}
				}
			}
			if legalPos {
				for c := types.WHITE; c <= types.BLACK; c++ {
					ks := poslib.KingSquare(&p.PiecesBoard, c)
					if poslib.NaiveAttackedBy(&p.PiecesBoard, ks, types.SwitchColor(c)) != p.IsInCheck(c) {
						fail("C12", "IsInCheck(%d) = %v disagrees with the geometric rules", c, p.IsInCheck(c))
					}
				}
				// C17: the capture generator against the capturing moves of the full generator
				a, b := sortedLow(caps), sortedLow(capOfFull)
				if fmt.Sprint(a) != fmt.Sprint(b) {
					fail("C17", "capture generator %v, capturing moves of the full generator %v", a, b)
				}
			}
			sb.WriteString(" succ:")
			for _, m := range legal {
				q := *p
				q.MakeMove(m)
				fmt.Fprintf(&sb, "%s#%x;", q.ToFen(), q.ZobristHash)
				if legalPos {
					// C03: every move the engine prints is accepted back with the same meaning
					q2 := *p
					if err := q2.MakeMoveFromString(m.String()); err != nil {
						fail("C03", "printed move %s is rejected by MakeMoveFromString: %v", m.String(), err)
					} else if q2 != q {
						fail("C03", "printed move %s parses back to a different move (successor %s, expected %s)", m.String(), q2.ToFen(), q.ToFen())
					}
				}
			}
			sb.WriteString(" str:")
			for _, m := range legal {
				sb.WriteString(m.String() + ",")
			}
			return sb.String()
		})
		obs.Line("%s", res)
		_ = bitboard.Empty
		if res == "panic" && poslib.NaiveInv(p) == "" {
			fail("C01", "move generation panics on a legal position")
		}
		if len(verdicts) == 0 {
			oracle.Line("OK")
		} else {
			oracle.Line("FAIL %s", strings.Join(verdicts, " ;; "))
		}
	}
}
