package main

import (
	"fmt"
	"strings"

	"github.com/shaardie/clemens/pkg/move"
	"github.com/shaardie/clemens/pkg/position"
	"github.com/shaardie/clemens/pkg/types"
	"verifharness/common"
	"verifharness/poslib"
)

// Key GAME. Case: "<start> op op ..." with start = "startpos" or the hex of a FEN; op = a move in
// UCI text (applied with MakeMoveFromString), "null" (MakeNullMove) or "unnull" (UnMakeNullMove with
// the en-passant square the matching null returned).
// Observable: the whole struct after the start and after every operation, separated by " | ".
func init() { props["GAME"] = common.Prop{Gen: gameGen, Run: gameRun} }

var gameCorpus = []string{
	// D1 witnesses
	"startpos e2e4 e7e5 e1e2",
	poslib.Hex("r3k2r/8/8/8/8/8/8/R3K2R w KQkq - 0 1") + " a1b1",
	poslib.Hex("r3k2r/8/8/8/8/8/8/R3K2R b KQkq - 0 1") + " a8b8",
	poslib.Hex("r3k2r/8/8/8/8/8/8/R3K2R w KQkq - 0 1") + " a1a8 e8e7 a8h8",
	poslib.Hex("r3k2r/8/8/8/8/8/8/R3K2R w KQkq - 0 1") + " e1g1 e8c8",
	poslib.Hex("r3k2r/8/8/8/8/8/8/R3K2R w - - 0 1") + " a1b1 a8b8",
	// transpositions
	"startpos g1f3 g8f6 b1c3 b8c6",
	"startpos b1c3 b8c6 g1f3 g8f6",
	"startpos g1f3 g8f6 f3g1 f6g8",
	"startpos e2e4 null unnull e7e5 null",
	"startpos e2e4 d7d5 e4e5 f7f5 e5f6 null unnull",
	poslib.Hex("8/P6k/8/8/8/8/p6K/8 w - - 0 1") + " a7a8q a2a1n a8a1",
}

func gameGen(r *common.Rng, n int, shard int, out *common.Out) {
	if shard == 0 {
		for _, s := range gameCorpus {
			out.Line("%s", s)
		}
	}
	starts := poslib.StartPositions()
	for i := 0; i < n; i++ {
		si := r.Intn(len(starts))
		if r.Chance(1, 3) {
			si = 0
		}
		start := starts[si]
		var ops []string
		if si == 0 {
			ops = append(ops, "startpos")
		} else {
			ops = append(ops, poslib.Hex(poslib.CuratedFens[si-1]))
		}
		maxPlies := 5 + r.Intn(70)
		if r.Chance(1, 15) {
			maxPlies = 150 + r.Intn(200)
		}
		endWithNull := r.Chance(1, 4)
		last := poslib.Playout(r, start, maxPlies, r.Chance(2, 3), func(p *position.Position, legal []move.Move, m move.Move) bool {
			if m == move.NullMove {
				return false
			}
			if r.Chance(1, 12) && !p.IsInCheck(p.SideToMove) {
				ops = append(ops, "null", "unnull")
			}
			ops = append(ops, m.String())
			return true
		})
		if endWithNull && !last.IsInCheck(last.SideToMove) {
			ops = append(ops, "null")
			if r.Chance(1, 2) {
				// continue after the null move, as the null-move search subtree does
				poslib.Playout(r, func() position.Position { q := last; q.MakeNullMove(); return q }(), 1+r.Intn(4), false,
					func(p *position.Position, legal []move.Move, m move.Move) bool {
						if m == move.NullMove {
							return false
						}
						ops = append(ops, m.String())
						return true
					})
			}
		}
		out.Line("%s", strings.Join(ops, " "))
	}
}

func gameRun(cases []string, obs, oracle *common.Out) {
	for _, line := range cases {
		f := strings.Fields(line)
		var sb strings.Builder
		verdicts := []string{}
		fail := func(tag, format string, a ...any) {
			if len(verdicts) < 4 {
				verdicts = append(verdicts, "["+tag+"] "+fmt.Sprintf(format, a...))
			}
		}
		var p *position.Position
		if f[0] == "startpos" {
			p = position.New()
		} else {
			raw := make([]byte, len(f[0])/2)
			fmt.Sscanf(f[0], "%x", &raw)
			q, err := position.NewFromFen(string(raw))
			if err != nil {
				obs.Line("err")
				oracle.Line("OK")
				continue
			}
			p = q
		}
		sb.WriteString(poslib.PosLine(p))
		var eps []uint8
		check := func(step int, op string) {
			if msg := poslib.NaiveInv(p); msg != "" {
				// null moves are only generated when the mover is not in check, so every clause is
				// expected after them too
				fail("C10", "after op %d (%s): %s", step, op, msg)
			}
			if sh := poslib.ScratchHash(p); sh != p.ZobristHash {
				fail("C09", "after op %d (%s): incremental hash %x, from scratch %x", step, op, p.ZobristHash, sh)
			}
			if q, err := position.NewFromFen(p.ToFen()); err == nil && q.ZobristHash != p.ZobristHash &&
				q.PiecesBoard == p.PiecesBoard && q.Castling == p.Castling && q.EnPassant == p.EnPassant && q.SideToMove == p.SideToMove {
				fail("C09", "after op %d (%s): hash %x but the same position loaded from FEN has %x", step, op, p.ZobristHash, q.ZobristHash)
			}
		}
		// distinctness: a position and its twins that differ in exactly one hashed component
		// (en-passant file, one castling right, side to move) must hash differently
		twins := func(step int, op string) {
			if poslib.NaiveInv(p) != "" {
				return
			}
			full := int(p.Ply)/2 + 1
			mk := func(side types.Color, castling, ep int) (uint64, bool) {
				q, err := position.NewFromFen(poslib.SimpleFen(&p.PiecesBoard, side, castling, ep, int(p.HalfMoveClock), full))
				if err != nil {
					return 0, false
				}
				return q.ZobristHash, true
			}
			c, e := int(p.Castling), int(p.EnPassant)
			if e != 64 {
				if h, ok := mk(p.SideToMove, c, 64); ok && h == p.ZobristHash {
					fail("C09", "after op %d (%s): same hash %x with and without the en-passant square %d", step, op, h, e)
				}
			}
			for bit := 1; bit <= 8; bit <<= 1 {
				if c&bit != 0 {
					if h, ok := mk(p.SideToMove, c&^bit, e); ok && h == p.ZobristHash {
						fail("C09", "after op %d (%s): same hash %x with and without castling right %d", step, op, h, bit)
					}
				}
			}
			if e == 64 {
				if h, ok := mk(types.SwitchColor(p.SideToMove), c, e); ok && h == p.ZobristHash {
					fail("C09", "after op %d (%s): same hash %x for both sides to move", step, op, h)
				}
			}
		}
		check(0, "start")
		twins(0, "start")
		for i, op := range f[1:] {
			before := *p
			res := common.Protect(func() string {
				switch op {
				case "null":
					eps = append(eps, p.MakeNullMove())
				case "unnull":
					e := eps[len(eps)-1]
					eps = eps[:len(eps)-1]
					p.UnMakeNullMove(e)
				default:
					cp := *p
					if err := cp.MakeMoveFromString(op); err != nil {
						return "err"
					}
					if *p != before {
						fail("C02", "op %d (%s): making the move on a copy changed the original", i+1, op)
					}
					*p = cp
				}
				return "ok"
			})
			if res != "ok" {
				sb.WriteString(" | " + res)
				break
			}
			sb.WriteString(" | " + poslib.PosLine(p))
			check(i+1, op)
			if i%3 == 0 || p.EnPassant != 64 {
				twins(i+1, op)
			}
			if op == "unnull" && i >= 1 && f[i] == "null" {
				// f[1:][i-1] == "null": state two ops ago must be restored exactly
			}
		}
		obs.Line("%s", sb.String())
		if len(verdicts) == 0 {
			oracle.Line("OK")
		} else {
			oracle.Line("FAIL %s", strings.Join(verdicts, " ;; "))
		}
	}
}
