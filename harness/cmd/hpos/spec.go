package main

import (
	"fmt"
	"sort"
	"strconv"
	"strings"

	"github.com/shaardie/clemens/pkg/move"
	"github.com/shaardie/clemens/pkg/position"
	"verifharness/common"
	"verifharness/poslib"
)

// Keys compared against the FIDE specification (Rules/Fide.v), not against the engine model:
//
//	SPEC   case "<fen>": legal moves in UCI text with successor FENs, sorted
//	PERFT  case "<depth> <fen>": node count, as cmd/perft counts it
func init() {
	props["SPEC"] = common.Prop{Gen: movesGen, Run: specRun}
	props["PERFT"] = common.Prop{Gen: perftGen, Run: perftRun}
}

func specRun(cases []string, obs, oracle *common.Out) {
	for _, line := range cases {
		p, err := position.NewFromFen(strings.TrimSpace(line))
		if err != nil {
			obs.Line("badfen")
			oracle.Line("OK")
			continue
		}
		res := common.Protect(func() string {
			legal := poslib.Legal(p)
			items := make([]string, len(legal))
			for i, m := range legal {
				q := *p
				q.MakeMove(m)
				items[i] = m.String() + "=" + q.ToFen()
			}
			sort.Strings(items)
			return fmt.Sprintf("n=%d check=%v moves: %s", len(legal), p.IsInCheck(p.SideToMove), strings.Join(items, "; "))
		})
		obs.Line("%s", res)
		oracle.Line("OK")
	}
}

// published perft results (chessprogramming.org/Perft_Results)
var perftTable = []struct {
	fen   string
	nodes []int
}{
	{"rnbqkbnr/pppppppp/8/8/8/8/PPPPPPPP/RNBQKBNR w KQkq - 0 1", []int{20, 400, 8902, 197281, 4865609}},
	{"r3k2r/p1ppqpb1/bn2pnp1/3PN3/1p2P3/2N2Q1p/PPPBBPPP/R3K2R w KQkq - 0 1", []int{48, 2039, 97862, 4085603}},
	{"8/2p5/3p4/KP5r/1R3p1k/8/4P1P1/8 w - - 0 1", []int{14, 191, 2812, 43238, 674624}},
	{"r3k2r/Pppp1ppp/1b3nbN/nP6/BBP1P3/q4N2/Pp1P2PP/R2Q1RK1 w kq - 0 1", []int{6, 264, 9467, 422333}},
	{"r2q1rk1/pP1p2pp/Q4n2/bbp1p3/Np6/1B3NBn/pPPP1PPP/R3K2R b KQ - 0 1", []int{6, 264, 9467, 422333}},
	{"rnbq1k1r/pp1Pbppp/2p5/8/2B5/8/PPP1NnPP/RNBQK2R w KQ - 1 8", []int{44, 1486, 62379, 2103487}},
	{"r4rk1/1pp1qppp/p1np1n2/2b1p1B1/2B1P1b1/P1NP1N2/1PP1QPPP/R4RK1 w - - 0 10", []int{46, 2079, 89890, 3894594}},
}

func perft(p *position.Position, depth int) int {
	if depth == 0 {
		return 1
	}
	n := 0
	ml := move.NewMoveList()
	p.GeneratePseudoLegalMoves(ml)
	for i := uint8(0); i < ml.Length(); i++ {
		prev := *p
		p.MakeMove(*ml.Get(i))
		if p.IsLegal() {
			n += perft(p, depth-1)
		}
		*p = prev
	}
	return n
}

// n is a budget of spec-side internal nodes (about 3 ms each): published positions to the depth that
// fits, then random corpus positions at depth 1-2.
func perftGen(r *common.Rng, n int, shard int, out *common.Out) {
	if shard == 0 {
		for _, e := range perftTable {
			for d := 1; d <= len(e.nodes); d++ {
				if d == 1 || e.nodes[d-2] <= n {
					out.Line("%d %s", d, e.fen)
				}
			}
		}
	}
	starts := poslib.StartPositions()
	cnt := 0
	for cnt < n/40 {
		poslib.Playout(r, starts[r.Intn(len(starts))], 10+r.Intn(100), r.Chance(1, 2), func(p *position.Position, legal []move.Move, _ move.Move) bool {
			if r.Chance(1, 8) {
				out.Line("2 %s", p.ToFen())
				cnt++
			}
			return cnt < n/40
		})
	}
}

func perftRun(cases []string, obs, oracle *common.Out) {
	for _, line := range cases {
		f := strings.SplitN(strings.TrimSpace(line), " ", 2)
		d, _ := strconv.Atoi(f[0])
		p, err := position.NewFromFen(f[1])
		if err != nil {
			obs.Line("badfen")
			oracle.Line("OK")
			continue
		}
		got := perft(p, d)
		obs.Line("%d", got)
		verdict := "OK"
		for _, e := range perftTable {
			if e.fen == f[1] && d <= len(e.nodes) && e.nodes[d-1] != got {
				verdict = fmt.Sprintf("FAIL [C01] perft(%d) = %d, published value %d", d, got, e.nodes[d-1])
			}
		}
		oracle.Line("%s", verdict)
	}
}
