// hsearch: harness for the properties anchored in pkg/search (C08, C19, ...).
//
//	hsearch gen <prop> <seed> <n> <dir> [shard]  (corpus and grid only in shard 0) writes <dir>/cases.txt
//	hsearch run <prop> <dir>              reads <dir>/cases.txt, writes <dir>/go_obs.txt and <dir>/oracle.txt
package main

import (
	"fmt"
	"os"
	"strconv"

	"verifharness/common"
)

type prop struct {
	gen func(rng *common.Rng, n int, shard int, out *common.Out)
	run func(cases []string, obs, oracle *common.Out)
}

var props = map[string]prop{}

func main() {
	if len(os.Args) < 4 {
		fmt.Fprintln(os.Stderr, "usage: hsearch gen|run <prop> ...")
		os.Exit(2)
	}
	p, ok := props[os.Args[2]]
	if !ok {
		fmt.Fprintln(os.Stderr, "unknown property", os.Args[2])
		os.Exit(2)
	}
	switch os.Args[1] {
	case "gen":
		seed, _ := strconv.ParseUint(os.Args[3], 10, 64)
		n, _ := strconv.Atoi(os.Args[4])
		dir := os.Args[5]
		shard := 0
		if len(os.Args) > 6 {
			shard, _ = strconv.Atoi(os.Args[6])
		}
		out := common.Create(dir + "/cases.txt")
		p.gen(common.NewRng(seed), n, shard, out)
		out.Close()
	case "run":
		dir := os.Args[3]
		cases := common.ReadLines(dir + "/cases.txt")
		obs := common.Create(dir + "/go_obs.txt")
		oracle := common.Create(dir + "/oracle.txt")
		p.run(cases, obs, oracle)
		obs.Close()
		oracle.Close()
	}
}
