// hsearch: harness for the properties anchored in pkg/search (C08, C14, C19, ...).
package main

import "verifharness/common"

var props = map[string]common.Prop{}

func main() { common.Main(props) }
