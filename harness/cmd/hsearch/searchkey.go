package main

import (
	"context"
	"fmt"
	"os"
	"regexp"
	"strconv"
	"strings"
	"time"

	"github.com/shaardie/clemens/pkg/evaluation"
	"github.com/shaardie/clemens/pkg/move"
	"github.com/shaardie/clemens/pkg/position"
	"github.com/shaardie/clemens/pkg/search"
	"github.com/shaardie/clemens/pkg/search/transpositiontable"
	"verifharness/common"
	"verifharness/poslib"
)

// Key SEARCH (C04, C05, C13). Case: searches separated by " ;; ", run in this order on tables that
// start empty and are shared by all of them; one search = "<startpos|FEN>|<moves>|<depth>|<cancel>":
// cancel = index of the first poll of ctx.Done() that reports done (-1: never).
// Observable per search: "best=<uci> nodes=<n> polls=<n> ev: I <depth> <score> <nodes> <hashfull> <pv...> / W <alpha> <beta> <score>".
func init() { props["SEARCH"] = common.Prop{Gen: searchGen, Run: searchRun} }

// countingCtx: Done() counts its calls and reports done from call number k on.
type countingCtx struct {
	calls  int
	k      int
	closed chan struct{}
	open   chan struct{}
	// node counter of the search at the previous poll, and the largest number of nodes entered between two
	// consecutive polls: a stop arriving between them would go unnoticed for that many nodes
	nodes  func() uint64
	last   uint64
	maxGap uint64
}

func newCountingCtx(k int) *countingCtx {
	c := &countingCtx{k: k, closed: make(chan struct{}), open: make(chan struct{})}
	close(c.closed)
	return c
}
func (c *countingCtx) Deadline() (time.Time, bool) { return time.Time{}, false }
func (c *countingCtx) Done() <-chan struct{} {
	n := c.calls
	c.calls++
	if c.nodes != nil {
		cur := c.nodes()
		if n > 0 && cur-c.last > c.maxGap {
			c.maxGap = cur - c.last
		}
		c.last = cur
	}
	if c.k >= 0 && n >= c.k {
		return c.closed
	}
	return c.open
}
func (c *countingCtx) Err() error    { return context.Canceled }
func (c *countingCtx) Value(any) any { return nil }

var mateInOne = []string{
	"6k1/5ppp/8/8/8/8/8/R3K3 w Q - 0 1",
	"r1bqkb1r/pppp1ppp/2n2n2/4p2Q/2B1P3/8/PPPP1PPP/RNB1K1NR w KQkq - 4 4",
	"7k/5Q2/6K1/8/8/8/8/8 w - - 2 2",
	"rnbqkbnr/pppp1ppp/8/4p3/6P1/5P2/PPPPP2P/RNBQKBNR b KQkq - 0 2",
	// the mated king still holds a castling right and the squares towards its rook are empty: castling is no way out of check
	"4k2r/3ppp2/8/8/8/K7/8/1R3q2 w k - 0 1",
	"r3k3/3ppp2/8/8/8/7K/8/2q3R1 w q - 0 1",
	"1r3Q2/8/k7/8/8/8/3PPP2/4K2R b K - 0 1",
	"2Q3r1/8/7k/8/8/8/3PPP2/R3K3 b Q - 0 1",
	// the mating move is castling (queen side, with the square only the rook crosses attacked)
	"8/8/8/4Q3/8/nP1k4/8/R3K3 w Q - 0 1",
	"r3k3/8/Np1K4/8/4q3/8/8/8 b q - 0 1",
}

var terminal = []string{
	"rnb1kbnr/pppp1ppp/8/4p3/6Pq/5P2/PPPPP2P/RNBQKBNR w KQkq - 1 3", // checkmated
	"7k/5Q2/6K1/8/8/8/8/8 b - - 0 1",                                // stalemated
	"R6k/6pp/8/8/8/8/8/K7 b - - 0 1",                                // back-rank mate
}

func searchGen(r *common.Rng, n int, shard int, out *common.Out) {
	spec := func(start, moves string, depth, cancel int) string {
		return fmt.Sprintf("%s|%s|%d|%d", start, moves, depth, cancel)
	}
	if shard == 0 {
		for _, f := range terminal {
			out.Line("%s", spec(f, "", 2, -1))
			out.Line("%s", spec(f, "", 1, 0))
		}
		for _, f := range mateInOne {
			out.Line("%s", spec(f, "", 1, -1))
			out.Line("%s", spec(f, "", 3, -1))
			out.Line("%s", spec(f, "", 3, 0))
			out.Line("%s ;; %s", spec("startpos", "e2e4 e7e5", 2, -1), spec(f, "", 2, 5))
		}
		out.Line("%s", spec("startpos", "", 3, -1))
		// en passant at the root: the capture of the checking pawn is the ONLY legal move (both colours); the capture that would
		// expose the king along the rank is illegal (both colours)
		for _, c := range [][2]string{
			{"6k1/3p4/4p3/4P3/3PKP2/r7/8/8 b - - 0 40", "d7d5"}, {"8/8/R7/3pkp2/4p3/4P3/3P4/6K1 w - - 0 40", "d2d4"},
			{"8/1p4k1/6p1/K1P4r/8/8/5PR1/8 b - - 0 40", "b7b5"}, {"8/8/8/8/R4p1k/8/6P1/1K6 w - - 0 40", "g2g4"},
		} {
			out.Line("%s", spec(c[0], c[1], 1, -1))
			out.Line("%s", spec(c[0], c[1], 2, 0))
			out.Line("%s", spec(c[0], c[1], 3, -1))
		}
		out.Line("%s ;; %s ;; %s", spec("startpos", "", 2, -1), spec("startpos", "e2e4", 2, -1), spec("startpos", "e2e4 e7e5", 3, 40))
		out.Line("%s", spec("startpos", "g1f3 g8f6 f3g1 f6g8 g1f3 g8f6 f3g1", 3, -1))
	}
	starts := poslib.StartPositions()
	for i := 0; i < n; i++ {
		// one case in five: a root built around a rare structural coincidence (see poslib.MotifPosition), searched shallowly
		if r.Chance(1, 5) {
			if fen, ok := poslib.MotifPosition(r); ok {
				cancel := -1
				if r.Chance(1, 4) {
					cancel = r.Intn(40)
				}
				out.Line("%s", strings.Join(capCost([]string{spec(fen, "", 1+r.Intn(2), cancel)}), " ;; "))
				continue
			}
		}
		nsearch := 1
		if r.Chance(1, 3) {
			nsearch = 2 + r.Intn(2)
		}
		var specs []string
		// one game, searched at successive points (tables warmed by the earlier searches)
		si := r.Intn(len(starts))
		if r.Chance(1, 2) {
			si = 0
		}
		startName := "startpos"
		if si > 0 {
			startName = poslib.CuratedFens[si-1]
		}
		var moves []string
		pos := starts[si]
		for k := 0; k < nsearch; k++ {
			steps := r.Intn(12)
			if k == 0 {
				steps = r.Intn(60)
			}
			pos = poslib.Playout(r, pos, steps, r.Chance(1, 3), func(p *position.Position, legal []move.Move, m move.Move) bool {
				if m == move.NullMove {
					return false
				}
				moves = append(moves, m.String())
				return true
			})
			if poslib.NaiveInv(&pos) != "" || !poslib.MaterialOK(&pos) {
				break
			}
			depth := 1 + r.Intn(3)
			if r.Chance(1, 12) {
				depth = 4
			}
			cancel := -1
			switch r.Intn(5) {
			case 0:
				cancel = 0
			case 1:
				cancel = r.Intn(60)
			case 2:
				cancel = r.Intn(3000)
			}
			if r.Chance(1, 6) {
				// the same position loaded from FEN with the fifty-move counter close to its limit
				h := []int{96, 97, 98, 99, 100, r.Intn(256)}[r.Intn(6)]
				specs = append(specs, spec(withClock(pos.ToFen(), h), "", depth, cancel))
			}
			specs = append(specs, spec(startName, strings.Join(moves, " "), depth, cancel))
			if len(poslib.Legal(&pos)) == 0 {
				break
			}
		}
		if len(specs) > 0 {
			out.Line("%s", strings.Join(capCost(specs), " ;; "))
		}
	}
}

// capCost keeps a generated session affordable for the extracted model (which is some hundred times
// slower than the engine): the session is run on the engine from cleared tables and, as long as it
// visits more than maxCaseNodes nodes in all, the deepest search of the session loses one ply of depth.
const maxCaseNodes = 12000

func capCost(specs []string) []string {
	tmp := fmt.Sprintf("%s/verif-cost-%d.out", os.TempDir(), os.Getpid())
	defer os.Remove(tmp)
	specs = append([]string(nil), specs...)
	for round := 0; round < 12; round++ {
		transpositiontable.VerifResetAll()
		evaluation.VerifCacheClear()
		var total uint64
		for _, sp := range specs {
			o, _, ok := runOneSearch(sp, tmp)
			if ok {
				total += o.nodes
			}
		}
		if total <= maxCaseNodes {
			break
		}
		best, bd := -1, 1
		for i, sp := range specs {
			f := strings.Split(sp, "|")
			if d, _ := strconv.Atoi(f[2]); d > bd {
				best, bd = i, d
			}
		}
		if best < 0 {
			break
		}
		f := strings.Split(specs[best], "|")
		f[2] = strconv.Itoa(bd - 1)
		specs[best] = strings.Join(f, "|")
	}
	transpositiontable.VerifResetAll()
	evaluation.VerifCacheClear()
	return specs
}

var reInfo = regexp.MustCompile(`^info depth (\d+) score cp (-?\d+) time \d+ nodes (\d+) nps -?\d+ hashfull (\d+) pv ?(.*)$`)
var reWin = regexp.MustCompile(`^info string windows \[(-?\d+),(-?\d+)\] too small for value (-?\d+)\. Re-run search\.$`)

type searchOutcome struct {
	line   string
	best   move.Move
	pvs    [][]string
	hang   bool
	nodes  uint64
	polls  int
	maxGap uint64
}

func runOneSearch(specLine string, tmp string) (out searchOutcome, root *position.Position, ok bool) {
	f := strings.Split(specLine, "|")
	var p *position.Position
	if f[0] == "startpos" {
		p = position.New()
	} else {
		q, err := position.NewFromFen(f[0])
		if err != nil {
			return searchOutcome{line: "badfen"}, nil, false
		}
		p = q
	}
	s := search.NewSearch(*p)
	for _, m := range strings.Fields(f[1]) {
		if err := s.MakeMoveFromString(m); err != nil {
			return searchOutcome{line: "badmove"}, nil, false
		}
	}
	depth, _ := strconv.Atoi(f[2])
	cancel, _ := strconv.Atoi(f[3])
	ctx := newCountingCtx(cancel)
	ctx.nodes = func() uint64 { return s.VerifNodes() }
	file, _ := os.Create(tmp)
	saved := os.Stdout
	os.Stdout = file
	done := make(chan string, 1)
	var best move.Move
	go func() {
		done <- common.Protect(func() string {
			best = s.Search(ctx, search.SearchParameter{Infinite: true, Depth: uint8(depth)})
			return "ok"
		})
	}()
	var status string
	select {
	case status = <-done:
	case <-time.After(60 * time.Second):
		status = "hang"
	}
	os.Stdout = saved
	file.Close()
	rootPos := s.Pos
	if status == "hang" {
		return searchOutcome{line: "hang", hang: true}, &rootPos, true
	}
	if status == "panic" {
		return searchOutcome{line: "panic"}, &rootPos, true
	}
	raw, _ := os.ReadFile(tmp)
	var evs []string
	o := searchOutcome{best: best, nodes: s.VerifNodes(), polls: ctx.calls, maxGap: ctx.maxGap}
	for _, l := range strings.Split(strings.TrimSpace(string(raw)), "\n") {
		if m := reInfo.FindStringSubmatch(l); m != nil {
			evs = append(evs, strings.TrimSpace(fmt.Sprintf("I %s %s %s %s %s", m[1], m[2], m[3], m[4], m[5])))
			o.pvs = append(o.pvs, strings.Fields(m[5]))
		} else if m := reWin.FindStringSubmatch(l); m != nil {
			evs = append(evs, fmt.Sprintf("W %s %s %s", m[1], m[2], m[3]))
		}
	}
	bs := "0000"
	if best != move.NullMove {
		bs = best.String()
	}
	o.line = fmt.Sprintf("best=%s nodes=%d polls=%d ev: %s", bs, o.nodes, o.polls, strings.Join(evs, " / "))
	return o, &rootPos, true
}

// playable reports whether the UCI move text is legal in p and returns the successor.
func playable(p *position.Position, uci string) (position.Position, bool) {
	for _, m := range poslib.Legal(p) {
		if m.String() == uci {
			q := *p
			q.MakeMove(m)
			return q, true
		}
	}
	return *p, false
}

func searchRun(cases []string, obs, oracle *common.Out) {
	tmp := fmt.Sprintf("%s/verif-search-%d.out", os.TempDir(), os.Getpid())
	defer os.Remove(tmp)
	hung := false
	for _, line := range cases {
		if hung {
			obs.Line("skipped")
			oracle.Line("OK")
			continue
		}
		transpositiontable.VerifResetAll()
		evaluation.VerifCacheClear()
		var outs []string
		var verdicts []string
		fail := func(tag, format string, a ...any) {
			if len(verdicts) < 3 {
				verdicts = append(verdicts, "["+tag+"] "+fmt.Sprintf(format, a...))
			}
		}
		for si, sp := range strings.Split(line, " ;; ") {
			o, root, ok := runOneSearch(sp, tmp)
			outs = append(outs, o.line)
			if !ok {
				continue
			}
			if o.hang {
				fail("C05", "search %d (%s) did not return within 60 s", si, sp)
				hung = true
				break
			}
			if o.line == "panic" {
				fail("C04", "search %d (%s) panics", si, sp)
				continue
			}
			legal := poslib.Legal(root)
			depth, _ := strconv.Atoi(strings.Split(sp, "|")[2])
			// C04: the answer is legal; null move only without legal moves; PVs legal; answer = head of last PV
			if len(legal) == 0 {
				if o.best != move.NullMove {
					fail("C04", "search %d: no legal move exists but the answer is %s", si, o.best.String())
				}
			} else {
				if o.best == move.NullMove {
					fail("C04", "search %d: legal moves exist but the answer is the null move", si)
				} else if _, ok := playable(root, o.best.String()); !ok {
					fail("C04", "search %d: answer %s is not legal in the root position", si, o.best.String())
				}
			}
			for _, pv := range o.pvs {
				cur := *root
				for k, mv := range pv {
					nxt, ok := playable(&cur, mv)
					if !ok {
						fail("C04", "search %d: PV %v is not a legal sequence (move %d)", si, pv, k)
						break
					}
					cur = nxt
				}
			}
			if len(o.pvs) > 0 && len(o.pvs[len(o.pvs)-1]) > 0 && o.best != move.NullMove && o.pvs[len(o.pvs)-1][0] != o.best.String() {
				fail("C04", "search %d: answer %s is not the first move of the last PV %v", si, o.best.String(), o.pvs[len(o.pvs)-1])
			}
			// C05: a stop is noticed at the very next node wherever it lands: no two nodes are entered without a poll between them
			if o.maxGap > 1 {
				fail("C05", "search %d (%s): %d nodes were entered between two consecutive polls of the stop/deadline: a stop arriving there is not noticed at the next node", si, sp, o.maxGap)
			}
			// C05: depth never exceeded
			for _, e := range strings.Split(strings.SplitN(o.line, "ev: ", 2)[1], " / ") {
				ef := strings.Fields(e)
				if len(ef) > 1 && ef[0] == "I" {
					if d, _ := strconv.Atoi(ef[1]); d > depth {
						fail("C05", "search %d: info line reports depth %d above the requested %d", si, d, depth)
					}
				}
			}
			// C13: with a mate in one on the board the answer mates
			var mates []string
			for _, m := range legal {
				q := *root
				q.MakeMove(m)
				if q.IsInCheck(q.SideToMove) && len(poslib.Legal(&q)) == 0 {
					mates = append(mates, m.String())
				}
			}
			if len(mates) > 0 && o.best != move.NullMove {
				found := false
				for _, m := range mates {
					if m == o.best.String() {
						found = true
					}
				}
				if !found {
					fail("C13", "search %d (%s): mating moves %v exist but the answer is %s", si, sp, mates, o.best.String())
				}
			}
		}
		obs.Line("%s", strings.Join(outs, " ;; "))
		if len(verdicts) == 0 {
			oracle.Line("OK")
		} else {
			oracle.Line("FAIL %s", strings.Join(verdicts, " ;; "))
		}
	}
	if hung {
		obs.Close()
		oracle.Close()
		os.Exit(0)
	}
}
