package main

import (
	"fmt"
	"os"
	"regexp"
	"strconv"
	"time"

	"github.com/shaardie/clemens/pkg/position"
	"github.com/shaardie/clemens/pkg/search"
	"github.com/shaardie/clemens/pkg/types"
	"verifharness/common"
)

// Key C08B: the budget that is actually installed as the deadline of the search (and announced in
// the "info string calculated timeout" line), not just the value calculateTime returns.
// Case as for C08. Observable: the announced value.
func init() { props["C08B"] = common.Prop{Gen: c08gen, Run: c08brun} }

var reTimeout = regexp.MustCompile(`info string calculated timeout (-?\d+)`)

func c08brun(cases []string, obs, oracle *common.Out) {
	white := *position.New()
	black := white
	black.SideToMove = types.BLACK
	tmp := fmt.Sprintf("%s/verif-c08b-%d.out", os.TempDir(), os.Getpid())
	defer os.Remove(tmp)
	for i, line := range cases {
		side, plys, sp := c08parse(line)
		// a depth limit given together with the clock must not switch the budget off: the budget does not depend on it
		sp.Depth = []uint8{0, 1, 6, 40}[i%4]
		pos := white
		if side == types.BLACK {
			pos = black
		}
		file, _ := os.Create(tmp)
		saved := os.Stdout
		os.Stdout = file
		has, remaining := search.VerifContextBudget(pos, plys, sp)
		os.Stdout = saved
		file.Close()
		raw, _ := os.ReadFile(tmp)
		m := reTimeout.FindSubmatch(raw)
		if m == nil || !has {
			obs.Line("none")
			oracle.Line("FAIL [C08] no deadline installed or no timeout announced for a clocked search")
			continue
		}
		announced, _ := strconv.Atoi(string(m[1]))
		obs.Line("%d", announced)
		t := sp.WTime
		if side == types.BLACK {
			t = sp.BTime
		}
		verdict := "OK"
		// the installed deadline is the announced budget (measured a moment after it was set)
		diff := time.Duration(announced)*time.Millisecond - remaining
		if diff < -5*time.Millisecond || diff > 250*time.Millisecond {
			verdict = fmt.Sprintf("FAIL [C08] announced budget %d ms but the installed deadline is %v away", announced, remaining)
		} else if t > 0 && announced >= t {
			verdict = fmt.Sprintf("FAIL [C08] installed budget %d >= clock %d", announced, t)
		} else if sp.MoveTime > 0 && announced >= sp.MoveTime {
			verdict = fmt.Sprintf("FAIL [C08] installed budget %d >= movetime %d", announced, sp.MoveTime)
		}
		oracle.Line("%s", verdict)
	}
}
