package main

import (
	"fmt"
	"strconv"
	"strings"

	"github.com/shaardie/clemens/pkg/evaluation"
	"github.com/shaardie/clemens/pkg/move"
	tt "github.com/shaardie/clemens/pkg/search/transpositiontable"
	"verifharness/common"
)

// C14: the transposition table never invents information.
//
// Case line: one whole operation sequence, run on a fresh table:
//
//	<tag> <op> ; <op> ; ...
//	tag  W  well-formed stream: non-zero hashes, node types 0..3
//	     M  malformed stream (zero hashes, node types above 3): compared with the model, ignored by the oracle
//	op   S <hashhex> <move> <depth> <score> <nt> <age>      PotentiallySave
//	     G <hashhex> <alpha> <beta> <depth> <ply>           Get
//	     R                                                  Reset
//
// Observable line:
//
//	res=<score>:<use>:<move>,...  he=<hashEntries>  full=<HashFull>  buckets=<idxhex>=<e>|<e>|<e>|<e>,...
//	e = <hashhex>/<move>/<score>/<depth>/<ageAndNodeType>; buckets in order of first touch (index = hash % numberOfBuckets)
func init() {
	props["C14"] = common.Prop{Gen: c14gen, Run: c14run}
}

type c14op struct {
	kind  byte // 'S', 'G', 'R'
	hash  uint64
	mv    uint32
	depth uint8
	score int16
	nt    uint8
	age   uint8
	alpha int16
	beta  int16
	ply   uint8
}

func (o c14op) String() string {
	switch o.kind {
	case 'S':
		return fmt.Sprintf("S %x %d %d %d %d %d", o.hash, o.mv, o.depth, o.score, o.nt, o.age)
	case 'G':
		return fmt.Sprintf("G %x %d %d %d %d", o.hash, o.alpha, o.beta, o.depth, o.ply)
	}
	return "R"
}

func c14line(tag string, ops []c14op) string {
	parts := make([]string, len(ops))
	for i, o := range ops {
		parts[i] = o.String()
	}
	return tag + " " + strings.Join(parts, " ; ")
}

func c14parse(line string) (tag string, ops []c14op) {
	tag = line[:1]
	for _, part := range strings.Split(line[2:], ";") {
		f := strings.Fields(part)
		if len(f) == 0 {
			continue
		}
		atoi := func(s string) int { v, _ := strconv.Atoi(s); return v }
		switch f[0] {
		case "S":
			h, _ := strconv.ParseUint(f[1], 16, 64)
			mv, _ := strconv.ParseUint(f[2], 10, 32)
			ops = append(ops, c14op{kind: 'S', hash: h, mv: uint32(mv), depth: uint8(atoi(f[3])),
				score: int16(atoi(f[4])), nt: uint8(atoi(f[5])), age: uint8(atoi(f[6]))})
		case "G":
			h, _ := strconv.ParseUint(f[1], 16, 64)
			ops = append(ops, c14op{kind: 'G', hash: h, alpha: int16(atoi(f[2])), beta: int16(atoi(f[3])),
				depth: uint8(atoi(f[4])), ply: uint8(atoi(f[5]))})
		case "R":
			ops = append(ops, c14op{kind: 'R'})
		}
	}
	return
}

// ---------------------------------------------------------------- generator

func c14gcd(a, b uint64) uint64 {
	for b != 0 {
		a, b = b, a%b
	}
	return a
}

func c14depth(r *common.Rng) uint8 {
	switch x := r.Intn(20); {
	case x < 13:
		return uint8(1 + r.Intn(12))
	case x < 15:
		return 0
	case x < 17:
		return uint8(200 + r.Intn(56))
	case x < 18:
		return uint8(1 + r.Intn(2))
	default:
		return uint8(r.Intn(256))
	}
}

const c14inf = int(evaluation.INF)

func c14score(r *common.Rng) int16 {
	switch x := r.Intn(20); {
	case x < 9:
		return int16(r.Intn(6001) - 3000)
	case x < 11: // mate range, positive
		return int16(c14inf - r.Intn(101))
	case x < 13: // mate range, negative (down to -32768)
		return int16(-c14inf - 1 + r.Intn(102))
	case x < 15: // around the two boundaries of the mate range
		if r.Chance(1, 2) {
			return int16(c14inf - 100 - 3 + r.Intn(7))
		}
		return int16(-c14inf + 100 - 3 + r.Intn(7))
	case x < 16:
		return []int16{0, 1, -1, 32767, -32768, -32767, 32667, 32668, -32667, -32668}[r.Intn(10)]
	case x < 18:
		return int16(r.Intn(41) - 20)
	default:
		return int16(uint16(r.U64()))
	}
}

func c14age(r *common.Rng) uint8 {
	switch x := r.Intn(8); {
	case x < 4:
		return uint8(r.Intn(21))
	case x < 6:
		return uint8(58 + r.Intn(14)) // around the 6-bit truncation
	default:
		return uint8(r.Intn(256))
	}
}

// one random operation sequence
func c14sequence(r *common.Rng, malformed bool) []c14op {
	nb, _ := tt.VerifDims()
	// k*nb keeps the bucket; multiples of `hi` additionally keep the low 32 bits of the hash
	hi := (uint64(1) << 32) / c14gcd(nb, uint64(1)<<32)
	kmax := ^uint64(0)/nb - 1
	var pool []uint64  // hashes that get stored and probed
	var never []uint64 // hashes that are only probed
	nbases := 1 + r.Intn(3)
	for i := 0; i < nbases; i++ {
		b := r.U64() % nb
		if r.Chance(1, 6) {
			b = uint64(r.Intn(3)) // buckets 0, 1, 2 (bucket 0 is where a zero hash lands)
		}
		cnt := 2 + r.Intn(6)
		var ks []uint64
		for j := 0; j < cnt; j++ {
			var k uint64
			switch x := r.Intn(10); {
			case x < 4:
				k = uint64(r.Intn(6))
			case x < 7: // same low 32 bits as a small k
				k = (uint64(r.Intn(6)) + hi*uint64(1+r.Intn(5))) % (kmax + 1)
			case x < 8:
				k = kmax - uint64(r.Intn(4))
			default:
				k = r.U64() % (kmax + 1)
			}
			ks = append(ks, k)
		}
		for j, k := range ks {
			h := b + k*nb
			if h == 0 {
				h = nb
			}
			// the last one or two of a base are never stored, so that probes for them meet a
			// bucket full of other hashes (some equal in the low 32 bits)
			if j >= len(ks)-1-r.Intn(2) && j > 0 {
				never = append(never, h)
				if r.Chance(1, 2) {
					never = append(never, (ks[0]+hi*uint64(1+r.Intn(3)))%(kmax+1)*nb+b)
				}
			} else {
				pool = append(pool, h)
			}
		}
	}
	for i := r.Intn(3); i > 0; i-- {
		h := r.U64()
		if h == 0 {
			h = 1
		}
		pool = append(pool, h)
	}
	never = append(never, r.U64()|1)
	for i := range never {
		if never[i] == 0 {
			never[i] = nb
		}
	}
	// drop from `never` anything that is also in the pool
	inPool := map[uint64]bool{}
	for _, h := range pool {
		inPool[h] = true
	}
	nv := never[:0]
	for _, h := range never {
		if !inPool[h] {
			nv = append(nv, h)
		}
	}
	never = nv

	n := 150 + r.Intn(101)
	if r.Chance(1, 12) {
		n = 1 + r.Intn(12)
	}
	ops := make([]c14op, 0, n)
	lastScore := map[uint64]int16{}
	var lastSave *c14op
	for len(ops) < n {
		x := r.Intn(1500)
		switch {
		case x == 0:
			ops = append(ops, c14op{kind: 'R'})
			lastSave = nil
		case x < 750:
			o := c14op{kind: 'S', hash: pool[r.Intn(len(pool))], mv: uint32(r.U64()), depth: c14depth(r),
				score: c14score(r), nt: uint8(r.Intn(3)), age: c14age(r)}
			if r.Chance(1, 20) {
				o.nt = 3
			}
			if r.Chance(1, 30) {
				o.mv = 0
			} else if o.mv == 0 {
				o.mv = 1
			}
			if malformed {
				if r.Chance(1, 4) {
					o.hash = 0
				}
				if r.Chance(1, 4) {
					o.nt = uint8(4 + r.Intn(252))
				}
			}
			ops = append(ops, o)
			lastScore[o.hash] = o.score
			lastSave = &ops[len(ops)-1]
		default:
			o := c14op{kind: 'G', depth: c14depth(r), ply: uint8(r.Intn(121))}
			switch y := r.Intn(20); {
			case y < 8 && lastSave != nil:
				o.hash = lastSave.hash
				if r.Chance(1, 2) && lastSave.depth > 0 {
					o.depth = uint8(r.Intn(int(lastSave.depth) + 1))
				}
			case y < 10 && len(never) > 0:
				o.hash = never[r.Intn(len(never))]
			default:
				o.hash = pool[r.Intn(len(pool))]
			}
			if malformed && r.Chance(1, 5) {
				o.hash = 0
			}
			// window
			a := int(c14score(r))
			if s, ok := lastScore[o.hash]; ok && r.Chance(1, 2) {
				a = int(s) + r.Intn(5) - 2
			}
			b := a + 1
			switch y := r.Intn(20); {
			case y < 8: // null window
			case y < 14:
				b = a + 1 + r.Intn(400)
			case y < 17:
				b = a
			default:
				b = a - r.Intn(300)
			}
			if s, ok := lastScore[o.hash]; ok && r.Chance(1, 4) {
				b = int(s) + r.Intn(5) - 2
			}
			clamp := func(v int) int16 {
				if v > 32767 {
					return 32767
				}
				if v < -32768 {
					return -32768
				}
				return int16(v)
			}
			o.alpha, o.beta = clamp(a), clamp(b)
			ops = append(ops, o)
			lastSave = nil
		}
	}
	return ops
}

func c14gen(r *common.Rng, n int, shard int, out *common.Out) {
	nb, _ := tt.VerifDims()
	if shard == 0 {
		// regression corpus: the duplicate-entry witness of C14_store_then_probe_naive_refuted
		out.Line("W S 1 11 5 100 0 0 ; S 1 22 3 200 0 0 ; G 1 -30000 30000 1 0")
		// the non-vacuity example of Props/C14.v
		out.Line("W R ; S 5 77 6 120 0 3 ; G 5 0 1 9 0 ; S %x 88 4 -50 1 70 ; S %x 99 1 32700 2 0 ; G %x -10 -9 3 2 ; G %x -10 -9 3 2",
			5+nb, 5+2*nb, 5+nb, 5+3*nb)
		// five hashes in one bucket: the last slot is replaced; a probe for an evicted hash; age truncation (64 -> 0)
		out.Line("W S %x 1 9 10 0 5 ; S %x 2 8 20 1 5 ; S %x 3 7 30 2 5 ; S %x 4 6 40 0 5 ; S %x 5 1 50 0 64 ; G %x 0 1 1 0 ; G %x 0 1 1 0 ; G %x 100 101 8 3",
			7+nb, 7+2*nb, 7+3*nb, 7+4*nb, 7+5*nb, 7+4*nb, 7+5*nb, 7+2*nb)
		// same low 32 bits, same bucket, different position
		out.Line("W S 100000003 7 4 55 0 0 ; G 200000003 -5 5 1 0 ; G 3 -5 5 1 0 ; G 100000003 -5 5 1 0")
		// mate-range scores at both ends, all bounds, ply adjustment, int16 extremes
		out.Line("W S 9 1 3 32767 0 0 ; G 9 0 1 3 120 ; S a 2 3 -32768 0 0 ; G a 0 1 3 120 ; S b 3 3 32668 1 0 ; G b 32600 32601 3 100 ; S c 4 3 -32668 2 0 ; G c -32600 -32599 2 100 ; S d 5 3 32667 0 0 ; G d 0 1 3 50")
		// node type 3, depth 0, requested depth 0 on a never stored hash, zero move
		out.Line("W S e 6 0 17 3 0 ; G e -1 1 0 0 ; G f -1 1 0 0 ; S 10 0 2 5 0 0 ; G 10 -1 1 1 0 ; G 10 -1 1 3 0")
		// malformed: zero hash behaves like an empty slot that matches; node types above 3
		out.Line("M G 0 -1 1 0 0 ; S 0 9 3 44 0 1 ; G 0 -1 1 1 0 ; S 0 8 1 45 5 1 ; S 11 7 1 46 255 200 ; G 11 50 60 1 0")
		out.Line("W G 1 0 1 1 0")
		out.Line("W R")
	}
	for i := 0; i < n; i++ {
		malformed := r.Chance(1, 25)
		tag := "W"
		if malformed {
			tag = "M"
		}
		out.Line("%s", c14line(tag, c14sequence(r, malformed)))
	}
}

// ---------------------------------------------------------------- run + oracle

type c14res struct {
	score int16
	use   bool
	mv    uint32
}

// The property itself, judged from the log of the saves this run has issued. No model involved.
// It must not ask for more than C14 states:
//   - a usable result needs SOME logged save for that hash with depth >= requested depth, the
//     returned move, and a bound that allows the result; a bucket may hold several entries for
//     one hash, so any logged save may be the witness;
//   - scores in the mate range are outside the property's quantifier: for such a save only
//     depth, move and the kind of bound are checked (for bounds: that the window edge is returned);
//   - a result that is not usable may still suggest a move: that of some logged save, or none;
//   - a hash never saved yields (0, false, NullMove);
//   - the probe right after a save for the same hash must FIND an entry; what can be seen of
//     that from outside is use, a move or a score; it is demanded only when every logged save
//     for the hash carries a non-zero move (then a found entry always shows).
// c14expect: what a probe o must yield when the entry it finds carries the payload of the save c
// (the contract of C14: depth test, mate-range adjustment by ply, bound type against the window).
func c14expect(c c14op, o c14op) c14res {
	if c.depth < o.depth {
		return c14res{0, false, c.mv}
	}
	score := c.score
	if int(score) > c14inf-100 {
		score -= int16(o.ply)
	} else if int(score) < -c14inf+100 {
		score += int16(o.ply)
	}
	switch c.nt & 3 {
	case 1:
		if score <= o.alpha {
			return c14res{o.alpha, true, c.mv}
		}
	case 2:
		if score >= o.beta {
			return c14res{o.beta, true, c.mv}
		}
	case 0:
		return c14res{score, true, c.mv}
	}
	return c14res{score, false, c.mv}
}

func c14judge(i int, o c14op, res c14res, log map[uint64][]c14op, justSaved bool) string {
	if o.hash == 0 {
		return "" // outside the property's quantifier
	}
	saves := log[o.hash]
	if len(saves) == 0 {
		if res.use || res.score != 0 || res.mv != uint32(move.NullMove) {
			return fmt.Sprintf("FAIL op %d: probe for never stored hash %x yields (%d,%v,%d)", i, o.hash, res.score, res.use, res.mv)
		}
		return ""
	}
	if res.use {
		for _, s := range saves {
			if s.depth < o.depth || s.mv != res.mv {
				continue
			}
			mate := int(s.score) > c14inf-100 || int(s.score) < -c14inf+100
			switch s.nt {
			case 0:
				if mate || res.score == s.score {
					return ""
				}
			case 1:
				if res.score == o.alpha && (mate || s.score <= o.alpha) {
					return ""
				}
			case 2:
				if res.score == o.beta && (mate || s.score >= o.beta) {
					return ""
				}
			}
		}
		return fmt.Sprintf("FAIL op %d: usable result (%d,%d) for hash %x window (%d,%d) depth %d ply %d is not justified by any of the %d saves for it",
			i, res.score, res.mv, o.hash, o.alpha, o.beta, o.depth, o.ply, len(saves))
	}
	if res.mv != uint32(move.NullMove) {
		ok := false
		for _, s := range saves {
			if s.mv == res.mv {
				ok = true
				break
			}
		}
		if !ok {
			return fmt.Sprintf("FAIL op %d: suggested move %d for hash %x was never stored with it", i, res.mv, o.hash)
		}
	}
	if justSaved {
		// "an entry just stored is found by the next probe for it": the result is the one Get computes from the payload
		// just stored, or from an EARLIER payload for the same hash that can legitimately shadow it - one that is deeper
		// (a probe it answers is answered at least as well) or that the age rule protects (its stored 6-bit age is
		// smaller than the new age). A shallower, not younger stale copy must not shadow the entry just stored.
		sv := saves[len(saves)-1]
		ok := false
		for k, c := range saves {
			if k == len(saves)-1 || c.depth > sv.depth || (c.age&63) < sv.age {
				if c14expect(c, o) == res {
					ok = true
					break
				}
			}
		}
		if !ok {
			return fmt.Sprintf("FAIL op %d: the probe right after the store of hash %x (depth %d score %d type %d move %d age %d) yields (%d,%v,%d): neither what the entry just stored dictates nor what a deeper or age-protected earlier entry for the hash dictates",
				i, o.hash, sv.depth, sv.score, sv.nt, sv.mv, sv.age, res.score, res.use, res.mv)
		}
	}
	if justSaved && !res.use && res.mv == 0 && res.score == 0 {
		allNonZero := true
		for _, s := range saves {
			if s.mv == 0 {
				allNonZero = false
				break
			}
		}
		if allNonZero {
			return fmt.Sprintf("FAIL op %d: entry for hash %x just stored is not found by the next probe", i, o.hash)
		}
	}
	return ""
}

func c14run(cases []string, obs, oracle *common.Out) {
	nb, _ := tt.VerifDims()
	var sb strings.Builder
	for _, line := range cases {
		tag, ops := c14parse(line)
		tt.VerifResetAll()
		log := map[uint64][]c14op{}
		var touched []uint64
		seen := map[uint64]bool{}
		touch := func(h uint64) {
			k := h % nb
			if !seen[k] {
				seen[k] = true
				touched = append(touched, k)
			}
		}
		verdict := ""
		sb.Reset()
		sb.WriteString("res=")
		first := true
		for i, o := range ops {
			switch o.kind {
			case 'R':
				tt.Reset()
			case 'S':
				touch(o.hash)
				tt.PotentiallySave(o.hash, move.Move(o.mv), o.depth, o.score, tt.VerifNodeType(o.nt), o.age)
				log[o.hash] = append(log[o.hash], o)
			case 'G':
				touch(o.hash)
				score, use, m := tt.Get(o.hash, o.alpha, o.beta, o.depth, o.ply)
				if !first {
					sb.WriteByte(',')
				}
				first = false
				u := 0
				if use {
					u = 1
				}
				fmt.Fprintf(&sb, "%d:%d:%d", score, u, uint32(m))
				if tag == "W" && verdict == "" {
					just := i > 0 && ops[i-1].kind == 'S' && ops[i-1].hash == o.hash
					verdict = c14judge(i, o, c14res{score, use, uint32(m)}, log, just)
				}
			}
		}
		fmt.Fprintf(&sb, " he=%d full=%d buckets=", tt.VerifHashEntries(), tt.HashFull())
		for j, k := range touched {
			if j > 0 {
				sb.WriteByte(',')
			}
			fmt.Fprintf(&sb, "%x=", k)
			for e, te := range tt.VerifBucket(k) {
				if e > 0 {
					sb.WriteByte('|')
				}
				fmt.Fprintf(&sb, "%x/%d/%d/%d/%d", te.Hash, te.Move, te.Score, te.Depth, te.AgeAndNodeType)
			}
		}
		obs.Line("%s", sb.String())
		switch {
		case tag != "W":
			oracle.Line("OK malformed stream, not judged")
		case verdict == "":
			oracle.Line("OK")
		default:
			oracle.Line("%s", verdict)
		}
	}
}
