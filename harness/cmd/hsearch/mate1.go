package main

import (
	"fmt"
	"strings"

	"github.com/shaardie/clemens/pkg/move"
	"github.com/shaardie/clemens/pkg/position"
	"verifharness/common"
	"verifharness/poslib"
)

// Key MATE1 (C13): SEARCH cases whose last search starts from a position with a mate in one.
func init() { props["MATE1"] = common.Prop{Gen: mate1Gen, Run: searchRun} }

// withClock replaces the half-move clock field of a FEN.
func withClock(fen string, h int) string {
	f := strings.Fields(fen)
	if len(f) < 6 {
		return fen
	}
	f[4] = fmt.Sprint(h)
	return strings.Join(f, " ")
}

func hasMateInOne(p *position.Position, legal []move.Move) bool {
	for _, m := range legal {
		q := *p
		q.MakeMove(m)
		if q.IsInCheck(q.SideToMove) && len(poslib.Legal(&q)) == 0 {
			return true
		}
	}
	return false
}

func mate1Gen(r *common.Rng, n int, shard int, out *common.Out) {
	spec := func(start, moves string, depth, cancel int) string {
		return fmt.Sprintf("%s|%s|%d|%d", start, moves, depth, cancel)
	}
	pickCancel := func() int {
		switch r.Intn(4) {
		case 0:
			return 0
		case 1:
			return r.Intn(80)
		case 2:
			return r.Intn(2000)
		}
		return -1
	}
	if shard == 0 {
		for _, f := range mateInOne {
			for d := 1; d <= 3; d++ {
				out.Line("%s", spec(f, "", d, -1))
				out.Line("%s", spec(f, "", d, 0))
				out.Line("%s", spec(f, "", d, 3+d))
			}
			// the half-move clock is a free component of a legal position: checkmate on the hundredth
			// half move is still checkmate
			for _, h := range []int{98, 99} {
				out.Line("%s", spec(withClock(f, h), "", 1, -1))
				out.Line("%s", spec(withClock(f, h), "", 2, 0))
				out.Line("%s", spec(withClock(f, h), "", 3, 7))
			}
		}
	}
	starts := poslib.StartPositions()
	cnt := 0
	for cnt < n {
		si := r.Intn(len(starts))
		if r.Chance(2, 3) {
			si = r.Intn(7)
		}
		startName := "startpos"
		if si > 0 {
			startName = poslib.CuratedFens[si-1]
		}
		var moves []string
		var warm string // an earlier point of the same game, searched first to warm the tables
		poslib.Playout(r, starts[si], 40+r.Intn(200), false, func(p *position.Position, legal []move.Move, m move.Move) bool {
			if len(legal) > 0 && poslib.NaiveInv(p) == "" && poslib.MaterialOK(p) && hasMateInOne(p, legal) {
				depth := 1 + r.Intn(3)
				c := spec(startName, strings.Join(moves, " "), depth, pickCancel())
				if r.Chance(1, 3) {
					// the same placement loaded from FEN with another half-move clock (up to 99)
					h := []int{99, 98, 97, r.Intn(100)}[r.Intn(4)]
					c = spec(withClock(p.ToFen(), h), "", depth, pickCancel())
				}
				if warm != "" && r.Chance(1, 2) {
					c = warm + " ;; " + c
				}
				out.Line("%s", strings.Join(capCost(strings.Split(c, " ;; ")), " ;; "))
				cnt++
			}
			if m == move.NullMove || cnt >= n {
				return false
			}
			if r.Chance(1, 6) && len(moves) > 0 {
				warm = spec(startName, strings.Join(moves, " "), 1+r.Intn(2), -1)
			}
			moves = append(moves, m.String())
			return true
		})
	}
}
